import Pyunicorn.Lemmas.LineDist
import Pyunicorn.Lemmas.LineDistSeq
import Pyunicorn.Lemmas.LineDistResample
import Pyunicorn.Lemmas.LineDistRound
import Pyunicorn.Lemmas.LineDistEntropy
import Pyunicorn.Lemmas.LineDistRnd64
import Pyunicorn.Lemmas.LineDistMethods
import Pyunicorn.Lemmas.LineDistLoops
import Pyunicorn.Lemmas.LineDistOverflow
/-!
# C08 — RQA line statistics are exact run-length counts of the matrix

Statements about the model `Pyunicorn.LineDist` of `_line_dist`
(`timeseries/_ext/numerics.pyx`).  The model is tied to the compiled kernel by
the exact correspondence in `harness/c08.py`.
-/
namespace Pyunicorn.LineDist

/-- `runs` is characterised by four equations: it lists the lengths of the
maximal runs of `true`, in order. -/
theorem runs_nil : runs [] = [] := rfl
theorem runs_false_cons (l : List Bool) : runs (false :: l) = runs l := by
  simp [runs, runsAux]
theorem runs_block_false (a : Nat) (l : List Bool) :
    runs (List.replicate (a + 1) true ++ false :: l) = (a + 1) :: runs l := by
  simp [runs, runsAux_replicate_true, runsAux]
theorem runs_block_end (a : Nat) : runs (List.replicate (a + 1) true) = [a + 1] := by
  have := runsAux_replicate_true 0 (a + 1) []
  simp only [List.append_nil] at this
  simp [runs, this, runsAux]

/-- rows of the matrix as seen by the kernel (`black = true`: recurrence points) -/
def rowsOf (R : Mat) (black : Bool) (n : Nat) : List (List Bool) :=
  (List.range n).map fun i => (List.range n).map fun j => R.at i j == black

/-- the lower sub-diagonals, outermost first, each read from top-left to bottom-right -/
def diagsOf (R : Mat) (n : Nat) : List (List Bool) :=
  (diagCoords n).map fun cs => cs.map fun (I, j) => R.at I j == true

/-- the histogram obtained by direct run-length counting -/
def histOfRuns (lines : List (List Bool)) (n : Nat) : List Nat :=
  (lines.flatMap runs).foldl bump (List.replicate n 0)

private theorem cellsOf_fst (R : Mat) (M : List Bool) (b : Bool) (cs : List (Nat × Nat)) :
    (cellsOf R M b cs).map (·.1) = cs.map fun (I, j) => R.at I j == b := by
  simp [cellsOf, List.map_map, Function.comp_def]

/-- **vertical lines**: the kernel's histogram is the run-length count of the rows. -/
theorem vert_eq_runs (R : Mat) (n : Nat) :
    vertline R n = histOfRuns (rowsOf R true n) n := by
  simp only [vertline, kernel, foldl_subspace_nomv, histOfRuns, rowsOf, vertCoords,
    List.flatMap_map, List.map_map, Function.comp_def, cellsOf_fst]

/-- **white vertical lines**: run-length count of the non-recurrence points of the rows. -/
theorem white_eq_runs (R : Mat) (n : Nat) :
    whiteVertline R n = histOfRuns (rowsOf R false n) n := by
  simp only [whiteVertline, kernel, foldl_subspace_nomv, histOfRuns, rowsOf, vertCoords,
    List.flatMap_map, List.map_map, Function.comp_def, cellsOf_fst]

/-- **diagonal lines**: run-length count of the lower sub-diagonals
(`diagline_dist` doubles this, which is exact for symmetric `R`). -/
theorem diag_eq_runs (R : Mat) (n : Nat) :
    diagline R n = histOfRuns (diagsOf R n) n := by
  simp only [diagline, kernel, foldl_subspace_nomv, histOfRuns, diagsOf,
    List.flatMap_map, cellsOf_fst]

/-- **missing values**: the kernel equals the specification `runsMV`
(lines containing, directly following or directly followed by a missing cell are dropped). -/
theorem vert_mv_eq_runs (R : Mat) (M : List Bool) (n : Nat) :
    vertlineMV R M n
      = (((vertCoords n).map (cellsOf R M true)).flatMap runsMV).foldl bump
          (List.replicate n 0) := by
  simp only [vertlineMV, kernel, foldl_subspace_mv]

theorem diag_mv_eq_runs (R : Mat) (M : List Bool) (n : Nat) :
    diaglineMV R M n
      = (((diagCoords n).map (cellsOf R M true)).flatMap runsMV).foldl bump
          (List.replicate n 0) := by
  simp only [diaglineMV, kernel, foldl_subspace_mv]

/-- without any missing cell the missing-value specification is the plain one -/
theorem runsMVAux_no_miss (k : Nat) (l : List Bool) :
    runsMVAux k false (l.map fun b => (b, false)) = runsAux k l := by
  induction l generalizing k with
  | nil => by_cases hk : k = 0 <;> simp [runsMVAux, runsAux, hk]
  | cons b t ih => cases b <;> simp [runsMVAux, runsAux, ih]

/-- a line directly followed by a missing cell is not counted, and everything
up to the next white cell after it is skipped -/
example : runsMV [(true, false), (true, false), (false, true), (true, false), (false, false),
    (true, false)] = [1] := by decide

/-! ### every diagonal cell is visited exactly once -/

theorem diagCoords_mem (n I j : Nat) :
    (I, j) ∈ (diagCoords n).flatten ↔ j < I ∧ I < n := by
  simp only [diagCoords, List.mem_flatten, List.mem_map, List.mem_range]
  constructor
  · rintro ⟨l, ⟨i, hi, rfl⟩, hmem⟩
    simp only [List.mem_map, List.mem_range, Prod.mk.injEq] at hmem
    obtain ⟨j', hj', h1, h2⟩ := hmem
    omega
  · rintro ⟨h1, h2⟩
    refine ⟨_, ⟨n - 1 - (I - j), by omega, rfl⟩, ?_⟩
    simp only [List.mem_map, List.mem_range, Prod.mk.injEq]
    exact ⟨j, by omega, by omega, rfl⟩

theorem diagCoords_count (n I j : Nat) (h1 : j < I) (h2 : I < n) :
    (diagCoords n).flatten.count (I, j) = 1 := by
  -- the cell lies in sub-diagonal i₀ = n-1-(I-j) at position j and nowhere else
  have key : ∀ (m : Nat), m ≤ n - 1 →
      (((List.range m).map fun i => (List.range (i + 1)).map
          fun j' => ((n - 1) - i + j', j')).flatten.count (I, j))
        = if n - 1 - (I - j) < m then 1 else 0 := by
    intro m hm
    induction m with
    | zero => simp
    | succ m ih =>
      rw [List.range_succ, List.map_append, List.flatten_append, List.count_append,
        ih (by omega)]
      simp only [List.map_cons, List.map_nil, List.flatten_cons, List.flatten_nil,
        List.append_nil]
      have hc : ((List.range (m + 1)).map fun j' => ((n - 1) - m + j', j')).count (I, j)
          = if n - 1 - (I - j) = m then 1 else 0 := by
        by_cases hm' : n - 1 - (I - j) = m
        · rw [if_pos hm']
          have hI : I = n - 1 - m + j := by omega
          subst hI
          have hinj : ∀ (k : Nat) (a b : Nat), b < k →
              ((List.range k).map fun j' => (a + j', j')).count (a + b, b) = 1 := by
            intro k a b hb
            induction k with
            | zero => omega
            | succ k ihk =>
              rw [List.range_succ, List.map_append, List.count_append]
              by_cases hbk : b = k
              · subst hbk
                have : ((List.range b).map fun j' => (a + j', j')).count (a + b, b) = 0 := by
                  rw [List.count_eq_zero]
                  simp only [List.mem_map, List.mem_range, Prod.mk.injEq, not_exists, not_and]
                  intro x hx _; omega
                simp [this]
              · rw [ihk (by omega)]
                have : (a + k, k) ≠ (a + b, b) := by
                  intro h; simp only [Prod.mk.injEq] at h; omega
                simp [this]
          exact hinj (m + 1) (n - 1 - m) j (by omega)
        · rw [if_neg hm', List.count_eq_zero]
          simp only [List.mem_map, List.mem_range, Prod.mk.injEq, not_exists, not_and]
          intro x _ hx1 hx2; subst hx2; omega
      rw [hc]
      by_cases h3 : n - 1 - (I - j) < m
      · have : ¬ n - 1 - (I - j) = m := by omega
        simp [h3, this]; omega
      · by_cases h4 : n - 1 - (I - j) = m
        · simp [h4]
        · have : ¬ n - 1 - (I - j) < m + 1 := by omega
          simp [h3, h4, this]
  have := key (n - 1) (Nat.le_refl _)
  simp only [diagCoords]
  rw [this, if_pos (by omega)]

/-! ### accounting: every (non-)recurrence point lies on exactly one counted line -/

def countIn (lines : List (List Bool)) : Nat := (lines.map (·.count true)).sum

theorem wsum_histOfRuns (lines : List (List Bool)) (n : Nat)
    (hlen : ∀ l ∈ lines, l.length ≤ n) :
    wsum (histOfRuns lines n) = countIn lines := by
  unfold histOfRuns
  rw [wsum_foldl_bump]
  · simp only [wsum, wsumFrom_replicate, Nat.zero_add, countIn]
    induction lines with
    | nil => simp
    | cons l t ih =>
      simp only [List.flatMap_cons, List.sum_append, runs_sum, List.map_cons, List.sum_cons]
      rw [ih (fun l' hl' => hlen l' (by simp [hl']))]
  · intro x hx
    simp only [List.mem_flatMap] at hx
    obtain ⟨l, hl, hx⟩ := hx
    have := runs_bounds l x hx
    have := hlen l hl
    simp; omega

theorem rowsOf_len (R : Mat) (b : Bool) (n : Nat) : ∀ l ∈ rowsOf R b n, l.length ≤ n := by
  intro l hl
  simp only [rowsOf, List.mem_map, List.mem_range] at hl
  obtain ⟨i, _, rfl⟩ := hl
  simp

theorem diagsOf_len (R : Mat) (n : Nat) : ∀ l ∈ diagsOf R n, l.length ≤ n := by
  intro l hl
  simp only [diagsOf, diagCoords, List.mem_map, List.mem_range] at hl
  obtain ⟨cs, ⟨i, hi, rfl⟩, rfl⟩ := hl
  simp; omega

/-- `Σ_l l·P_vert(l)` = number of recurrence points of the `n×n` matrix. -/
theorem vert_accounts_black (R : Mat) (n : Nat) :
    wsum (vertline R n) = countIn (rowsOf R true n) := by
  rw [vert_eq_runs, wsum_histOfRuns _ _ (rowsOf_len R true n)]

/-- `Σ_l l·P_white(l)` = number of non-recurrence points. -/
theorem white_accounts_white (R : Mat) (n : Nat) :
    wsum (whiteVertline R n) = countIn (rowsOf R false n) := by
  rw [white_eq_runs, wsum_histOfRuns _ _ (rowsOf_len R false n)]

/-- `Σ_l l·P_diag(l)` = number of recurrence points strictly below the main diagonal. -/
theorem diag_accounts_black (R : Mat) (n : Nat) :
    wsum (diagline R n) = countIn (diagsOf R n) := by
  rw [diag_eq_runs, wsum_histOfRuns _ _ (diagsOf_len R n)]

private theorem count_true_add_false (f : Nat → Bool) (n : Nat) :
    ((List.range n).map fun j => f j == true).count true
      + ((List.range n).map fun j => f j == false).count true = n := by
  induction n with
  | zero => simp
  | succ n ih =>
    simp only [List.range_succ, List.map_append, List.count_append, List.map_cons, List.map_nil]
    cases h : f n <;> simp at ih ⊢ <;> omega

/-- black and white vertical lines together account for every cell exactly once. -/
theorem vert_white_account_all (R : Mat) (n : Nat) :
    wsum (vertline R n) + wsum (whiteVertline R n) = n * n := by
  rw [vert_accounts_black, white_accounts_white]
  simp only [countIn, rowsOf, List.map_map, Function.comp_def]
  have : ∀ m : Nat, (((List.range m).map fun i =>
      ((List.range n).map fun j => R.at i j == true).count true).sum)
      + (((List.range m).map fun i =>
      ((List.range n).map fun j => R.at i j == false).count true).sum) = m * n := by
    intro m
    induction m with
    | zero => simp
    | succ m ih =>
      simp only [List.range_succ, List.map_append, List.sum_append, List.map_cons, List.map_nil,
        List.sum_cons, List.sum_nil, Nat.add_zero]
      have := count_true_add_false (fun j => R.at m j) n
      rw [Nat.succ_mul]; omega
  exact this n

/-- **sequential mode = matrix mode** whenever the on-the-fly predicate
`metric(I,j) < eps` coincides with the stored matrix: the kernel only ever
looks at the cell predicate. -/
theorem sequential_eq_matrix (R R' : Mat) (n : Nat)
    (h : ∀ I j, I < n → j < n → R'.at I j = R.at I j) :
    vertline R' n = vertline R n ∧ diagline R' n = diagline R n := by
  constructor
  · rw [vert_eq_runs, vert_eq_runs]
    congr 1
    simp only [rowsOf]
    apply List.map_congr_left
    intro i hi
    apply List.map_congr_left
    intro j hj
    rw [h i j (List.mem_range.mp hi) (List.mem_range.mp hj)]
  · rw [diag_eq_runs, diag_eq_runs]
    congr 1
    simp only [diagsOf, diagCoords, List.map_map]
    apply List.map_congr_left
    intro i hi
    simp only [Function.comp_def, List.map_map]
    apply List.map_congr_left
    intro j hj
    have hi' := List.mem_range.mp hi
    have hj' := List.mem_range.mp hj
    rw [h _ _ (by omega) (by omega)]

/-! ### scalar measures are functions of the histogram -/

theorem partialWsumFrom_le (i lmin : Nat) (h : List Nat) :
    partialWsumFrom i lmin h ≤ wsumFrom i h := by
  induction h generalizing i with
  | nil => simp [partialWsumFrom, wsumFrom]
  | cons a t ih =>
    simp only [partialWsumFrom, wsumFrom]
    have := ih (i + 1)
    split <;> omega

/-- the numerator of DET / LAM never exceeds the denominator: the ratios lie in `[0,1]`. -/
theorem partialWsum_le_wsum (lmin : Nat) (h : List Nat) : partialWsum lmin h ≤ wsum h :=
  partialWsumFrom_le 0 lmin h

theorem partialWsumFrom_one (i : Nat) (h : List Nat) :
    partialWsumFrom i 1 h = wsumFrom i h := by
  induction h generalizing i with
  | nil => simp [partialWsumFrom, wsumFrom]
  | cons a t ih => simp [partialWsumFrom, wsumFrom, ih]

/-- with `l_min = 1` numerator and denominator coincide (DET = LAM = 1 on a non-empty plot). -/
theorem partialWsum_one (h : List Nat) : partialWsum 1 h = wsum h := partialWsumFrom_one 0 h

theorem partialCountFrom_mul_le (i lmin : Nat) (h : List Nat) :
    lmin * partialCountFrom i lmin h ≤ partialWsumFrom i lmin h := by
  induction h generalizing i with
  | nil => simp [partialWsumFrom, partialCountFrom]
  | cons a t ih =>
    simp only [partialWsumFrom, partialCountFrom]
    have := ih (i + 1)
    split
    · rename_i hge
      have : lmin * a ≤ (i + 1) * a := Nat.mul_le_mul_right a hge
      rw [Nat.mul_add]; omega
    · simpa using this

/-- average line lengths (L, TT, mean recurrence time) are at least `l_min`:
`l_min · #lines ≤ Σ l·P(l)` over the lines of length `≥ l_min`. -/
theorem avg_ge_lmin (lmin : Nat) (h : List Nat) :
    lmin * partialCount lmin h ≤ partialWsum lmin h := partialCountFrom_mul_le 0 lmin h

theorem partialWsumFrom_antitone (i a b : Nat) (hab : a ≤ b) (h : List Nat) :
    partialWsumFrom i b h ≤ partialWsumFrom i a h := by
  induction h generalizing i with
  | nil => simp [partialWsumFrom]
  | cons x t ih =>
    simp only [partialWsumFrom]
    have := ih (i + 1)
    split <;> split <;> omega

/-- raising `l_min` can only lower DET / LAM. -/
theorem partialWsum_antitone (a b : Nat) (hab : a ≤ b) (h : List Nat) :
    partialWsum b h ≤ partialWsum a h := partialWsumFrom_antitone 0 a b hab h

theorem maxLenFrom_spec (i : Nat) (h : List Nat) :
    (maxLenFrom i h = 0 ∧ ∀ x ∈ h, x = 0) ∨
    (∃ k, k < h.length ∧ maxLenFrom i h = i + k + 1 ∧ h[k]? ≠ some 0 ∧
      ∀ j, k < j → j < h.length → h[j]? = some 0) := by
  induction h generalizing i with
  | nil => left; simp [maxLenFrom]
  | cons a t ih =>
    simp only [maxLenFrom]
    rcases ih (i + 1) with ⟨h0, hall⟩ | ⟨k, hk, hm, hne, hz⟩
    · rw [h0]
      by_cases ha : a = 0
      · left; subst ha; simp; exact hall
      · right
        refine ⟨0, by simp, by simp [ha], by simp [ha], ?_⟩
        intro j hj hjl
        cases j with
        | zero => omega
        | succ j =>
          simp only [List.length_cons] at hjl
          have hjt : j < t.length := by omega
          simp only [List.getElem?_cons_succ]
          rw [List.getElem?_eq_getElem hjt, hall _ (List.getElem_mem hjt)]
    · right
      refine ⟨k + 1, by simp; omega, ?_, by simpa using hne, ?_⟩
      · rw [hm]; simp; omega
      · intro j hj hjl
        cases j with
        | zero => omega
        | succ j =>
          simp only [List.length_cons] at hjl
          simpa using hz j (by omega) (by omega)

/-- `max_*length`: `0` on an all-zero histogram, otherwise the position (1-based length) of the
last non-zero entry. -/
theorem maxLen_spec (h : List Nat) :
    (maxLen h = 0 ∧ ∀ x ∈ h, x = 0) ∨
    (∃ k, k < h.length ∧ maxLen h = k + 1 ∧ h[k]? ≠ some 0 ∧
      ∀ j, k < j → j < h.length → h[j]? = some 0) := by
  have := maxLenFrom_spec 0 h
  simpa [maxLen] using this

theorem entropyWeightsFrom_sum (i lmin : Nat) (h : List Nat) :
    (entropyWeightsFrom i lmin h).sum = partialCountFrom i lmin h := by
  induction h generalizing i with
  | nil => simp [entropyWeightsFrom, partialCountFrom]
  | cons a t ih =>
    simp only [entropyWeightsFrom, partialCountFrom]
    split
    · rename_i hc; simp [ih, hc.1]
    · rename_i hc
      rw [ih]
      by_cases hge : i + 1 ≥ lmin
      · have ha : a = 0 := Decidable.byContradiction fun hne => hc ⟨hge, hne⟩
        rw [if_pos hge, ha]; omega
      · rw [if_neg hge]; omega

/-- the line-length probabilities of the entropies are a distribution over the lines of
length `≥ l_min`: positive weights whose total is the number of such lines. -/
theorem entropyWeights_sum (lmin : Nat) (h : List Nat) :
    (entropyWeights lmin h).sum = partialCount lmin h := entropyWeightsFrom_sum 0 lmin h

theorem entropyWeightsFrom_pos (i lmin : Nat) (h : List Nat) :
    ∀ x ∈ entropyWeightsFrom i lmin h, 0 < x := by
  induction h generalizing i with
  | nil => simp [entropyWeightsFrom]
  | cons a t ih =>
    simp only [entropyWeightsFrom]
    split
    · rename_i hc
      intro x hx
      rcases List.mem_cons.mp hx with rfl | hx
      · exact Nat.pos_of_ne_zero hc.2
      · exact ih _ x hx
    · exact ih _

theorem entropyWeights_pos (lmin : Nat) (h : List Nat) :
    ∀ x ∈ entropyWeights lmin h, 0 < x := entropyWeightsFrom_pos 0 lmin h

/-- DET on the matrix: its numerator counts at most the recurrence points below the main
diagonal, its denominator exactly those. -/
theorem det_bounds (R : Mat) (n lmin : Nat) :
    (scalars lmin (diagline R n)).ratioNum ≤ (scalars lmin (diagline R n)).ratioDen ∧
    (scalars lmin (diagline R n)).ratioDen = countIn (diagsOf R n) := by
  simp only [scalars, partialWsum_one]
  exact ⟨partialWsum_le_wsum _ _, diag_accounts_black R n⟩

/-- LAM on the matrix: denominator = number of recurrence points. -/
theorem lam_bounds (R : Mat) (n vmin : Nat) :
    (scalars vmin (vertline R n)).ratioNum ≤ (scalars vmin (vertline R n)).ratioDen ∧
    (scalars vmin (vertline R n)).ratioDen = countIn (rowsOf R true n) := by
  simp only [scalars, partialWsum_one]
  exact ⟨partialWsum_le_wsum _ _, vert_accounts_black R n⟩

/-! ## Round 3 — the kernel regenerated from the source text

`translate/gen_C08.py` rewrites `Generated/StructC08.lean` from `numerics.pyx` on every run:
`innerBody` / `afterInner` / `lineDist` are the statements of `_line_dist` in source order, the
coordinate helpers, `metric_supremum` and the nine wrappers are the source's own expressions.
The theorems below are *about those generated definitions*; the driver executes them. -/
section Generated
open Pyunicorn.Generated
open Pyunicorn.Recurrence (V ltV fixedThreshold missingMask Metric)

theorem cellsOf_fun (R : Mat) (M : List Bool) (b : Bool) :
    cellsOf R M b = fun cs => cs.map fun (I, j) => ((accR R (I : Int) (j : Int) == b),
          (accM M (I : Int) || accM M (j : Int))) := funext (cellsOf_eq R M b)

theorem gen_vertline_eq (R : Mat) (n : Nat) :
    StructC08._vertline_dist n (List.replicate n 0) (accR R) = vertline R n := by
  unfold StructC08._vertline_dist vertline
  rw [lineDist_kernel]
  simp only [Bool.false_eq_true, if_false, lineVal, if_true]
  rw [vert_subs n (fun I j => (accR R I j == true, (false || false)))]
  simp [cellsOf_fun, accM_nil]

theorem gen_white_eq (R : Mat) (n : Nat) :
    StructC08._white_vertline_dist n (List.replicate n 0) (accR R) = whiteVertline R n := by
  unfold StructC08._white_vertline_dist whiteVertline
  rw [lineDist_kernel]
  simp only [Bool.false_eq_true, if_false, lineVal, if_true]
  rw [vert_subs n (fun I j => (accR R I j == false, (false || false)))]
  simp [cellsOf_fun, accM_nil]

theorem gen_diagline_eq (R : Mat) (n : Nat) :
    StructC08._diagline_dist n (List.replicate n 0) (accR R) = diagline R n := by
  unfold StructC08._diagline_dist diagline
  rw [lineDist_kernel]
  simp only [Bool.false_eq_true, if_false, lineVal, if_true]
  rw [diag_subs n (fun I j => (accR R I j == true, (false || false)))]
  simp [cellsOf_fun, accM_nil]

theorem gen_vertline_mv_eq (R : Mat) (M : List Bool) (n : Nat) :
    StructC08._vertline_dist_missingvalues n (List.replicate n 0) (accR R) (accM M)
      = vertlineMV R M n := by
  unfold StructC08._vertline_dist_missingvalues vertlineMV
  rw [lineDist_kernel]
  simp only [Bool.false_eq_true, if_false, lineVal, if_true]
  rw [vert_subs n (fun I j => (accR R I j == true, (accM M I || accM M j)))]
  simp [cellsOf_fun]

theorem gen_diagline_mv_eq (R : Mat) (M : List Bool) (n : Nat) :
    StructC08._diagline_dist_missingvalues n (List.replicate n 0) (accR R) (accM M)
      = diaglineMV R M n := by
  unfold StructC08._diagline_dist_missingvalues diaglineMV
  rw [lineDist_kernel]
  simp only [Bool.false_eq_true, if_false, lineVal, if_true]
  rw [diag_subs n (fun I j => (accR R I j == true, (accM M I || accM M j)))]
  simp [cellsOf_fun]

/-- the generated matrix-mode wrappers are run-length counts (composition with round 1) -/
theorem gen_vertline_runs (R : Mat) (n : Nat) :
    StructC08._vertline_dist n (List.replicate n 0) (accR R) = histOfRuns (rowsOf R true n) n := by
  rw [gen_vertline_eq, vert_eq_runs]

theorem gen_white_runs (R : Mat) (n : Nat) :
    StructC08._white_vertline_dist n (List.replicate n 0) (accR R)
      = histOfRuns (rowsOf R false n) n := by
  rw [gen_white_eq, white_eq_runs]

theorem gen_diagline_runs (R : Mat) (n : Nat) :
    StructC08._diagline_dist n (List.replicate n 0) (accR R) = histOfRuns (diagsOf R n) n := by
  rw [gen_diagline_eq, diag_eq_runs]

/-! ### sequential mode = matrix mode, with the predicate computed, not assumed -/

theorem vertCoords_lt (n : Nat) : ∀ cs ∈ vertCoords n, ∀ c ∈ cs, c.1 < n ∧ c.2 < n := by
  intro cs hcs c hc
  simp only [vertCoords, List.mem_map, List.mem_range] at hcs
  obtain ⟨i, hi, rfl⟩ := hcs
  simp only [List.mem_map, List.mem_range] at hc
  obtain ⟨j, hj, rfl⟩ := hc
  exact ⟨hi, hj⟩

theorem diagCoords_lt (n : Nat) : ∀ cs ∈ diagCoords n, ∀ c ∈ cs, c.1 < n ∧ c.2 < n := by
  intro cs hcs c hc
  have : (c.1, c.2) ∈ (diagCoords n).flatten := List.mem_flatten.mpr ⟨cs, hcs, hc⟩
  have := (diagCoords_mem n c.1 c.2).mp this
  omega

/-- all four sequential kernels against the matrix kernels on the stored matrix of
`set_fixed_threshold` (C07's model), for every embedding, threshold and size -/
private theorem seq_generic (emb : List (List V)) (eps : Rat) (dim : Nat) (mv : Bool)
    (hdim : ∀ r ∈ emb, r.length = dim) (coords : List (List (Nat × Nat)))
    (hc : ∀ cs ∈ coords, ∀ c ∈ cs, c.1 < emb.length ∧ c.2 < emb.length) (M : Int → Bool)
    (hM : mv = true → M = accM (missingMask emb)) :
    kernel mv (coords.map (·.map fun (c : Nat × Nat) =>
        (lineVal vOps (fun _ _ => false) (fun I j => StructC08.metric_supremum vOps I j dim (accE emb))
          (some eps) false true c.1 c.2, M c.1 || M c.2))) emb.length
      = kernel mv (coords.map (·.map fun (c : Nat × Nat) =>
        (lineVal vOps (accR (fixedThreshold .supremum emb eps mv)) (fun _ _ => none) (some 0) true true
          c.1 c.2, M c.1 || M c.2))) emb.length := by
  apply kernel_map_congr
  intro cs hcs c hcc
  refine ⟨rfl, ?_⟩
  intro hmiss
  have hlt := hc cs hcs c hcc
  simp only [lineVal, Bool.false_eq_true, if_false, if_true, accR, Int.toNat_natCast]
  congr 1
  apply near_eq_matrix emb eps dim mv hdim c.1 c.2 hlt.1 hlt.2
  intro hmv
  have h1 := hmiss hmv
  rw [hM hmv] at h1
  simpa [accM] using h1

theorem seq_vertline_eq_matrix (emb : List (List V)) (eps : Rat) (dim : Nat)
    (hdim : ∀ r ∈ emb, r.length = dim) :
    StructC08._vertline_dist_sequential vOps emb.length (List.replicate emb.length 0) (accE emb)
        (some eps) dim
      = StructC08._vertline_dist emb.length (List.replicate emb.length 0)
          (accR (fixedThreshold .supremum emb eps false)) := by
  unfold StructC08._vertline_dist_sequential StructC08._vertline_dist
  rw [lineDist_kernel, lineDist_kernel]
  simp only [Bool.false_eq_true, if_false]
  rw [vert_subs emb.length (fun I j => (lineVal vOps (fun _ _ => false)
        (fun I j => StructC08.metric_supremum vOps I j dim (accE emb)) (some eps) false true I j,
        (false || false))),
    vert_subs emb.length (fun I j => (lineVal vOps (accR (fixedThreshold .supremum emb eps false))
        (fun _ _ => none) (some 0) true true I j, (false || false)))]
  exact seq_generic emb eps dim false hdim (vertCoords emb.length) (vertCoords_lt _)
    (fun _ => false) (by simp)

theorem seq_diagline_eq_matrix (emb : List (List V)) (eps : Rat) (dim : Nat)
    (hdim : ∀ r ∈ emb, r.length = dim) :
    StructC08._diagline_dist_sequential vOps emb.length (List.replicate emb.length 0) (accE emb)
        (some eps) dim
      = StructC08._diagline_dist emb.length (List.replicate emb.length 0)
          (accR (fixedThreshold .supremum emb eps false)) := by
  unfold StructC08._diagline_dist_sequential StructC08._diagline_dist
  rw [lineDist_kernel, lineDist_kernel]
  simp only [if_true]
  rw [diag_subs emb.length (fun I j => (lineVal vOps (fun _ _ => false)
        (fun I j => StructC08.metric_supremum vOps I j dim (accE emb)) (some eps) false true I j,
        (false || false))),
    diag_subs emb.length (fun I j => (lineVal vOps (accR (fixedThreshold .supremum emb eps false))
        (fun _ _ => none) (some 0) true true I j, (false || false)))]
  exact seq_generic emb eps dim false hdim (diagCoords emb.length) (diagCoords_lt _)
    (fun _ => false) (by simp)

theorem seq_vertline_mv_eq_matrix (emb : List (List V)) (eps : Rat) (dim : Nat)
    (hdim : ∀ r ∈ emb, r.length = dim) :
    StructC08._vertline_dist_sequential_missingvalues vOps emb.length (List.replicate emb.length 0)
        (accE emb) (some eps) dim (accM (missingMask emb))
      = StructC08._vertline_dist_missingvalues emb.length (List.replicate emb.length 0)
          (accR (fixedThreshold .supremum emb eps true)) (accM (missingMask emb)) := by
  unfold StructC08._vertline_dist_sequential_missingvalues StructC08._vertline_dist_missingvalues
  rw [lineDist_kernel, lineDist_kernel]
  simp only [Bool.false_eq_true, if_false]
  rw [vert_subs emb.length (fun I j => (lineVal vOps (fun _ _ => false)
        (fun I j => StructC08.metric_supremum vOps I j dim (accE emb)) (some eps) false true I j,
        (accM (missingMask emb) I || accM (missingMask emb) j))),
    vert_subs emb.length (fun I j => (lineVal vOps (accR (fixedThreshold .supremum emb eps true))
        (fun _ _ => none) (some 0) true true I j,
        (accM (missingMask emb) I || accM (missingMask emb) j)))]
  exact seq_generic emb eps dim true hdim (vertCoords emb.length) (vertCoords_lt _)
    (accM (missingMask emb)) (fun _ => rfl)

theorem seq_diagline_mv_eq_matrix (emb : List (List V)) (eps : Rat) (dim : Nat)
    (hdim : ∀ r ∈ emb, r.length = dim) :
    StructC08._diagline_dist_sequential_missingvalues vOps emb.length (List.replicate emb.length 0)
        (accE emb) (some eps) dim (accM (missingMask emb))
      = StructC08._diagline_dist_missingvalues emb.length (List.replicate emb.length 0)
          (accR (fixedThreshold .supremum emb eps true)) (accM (missingMask emb)) := by
  unfold StructC08._diagline_dist_sequential_missingvalues StructC08._diagline_dist_missingvalues
  rw [lineDist_kernel, lineDist_kernel]
  simp only [if_true]
  rw [diag_subs emb.length (fun I j => (lineVal vOps (fun _ _ => false)
        (fun I j => StructC08.metric_supremum vOps I j dim (accE emb)) (some eps) false true I j,
        (accM (missingMask emb) I || accM (missingMask emb) j))),
    diag_subs emb.length (fun I j => (lineVal vOps (accR (fixedThreshold .supremum emb eps true))
        (fun _ _ => none) (some 0) true true I j,
        (accM (missingMask emb) I || accM (missingMask emb) j)))]
  exact seq_generic emb eps dim true hdim (diagCoords emb.length) (diagCoords_lt _)
    (accM (missingMask emb)) (fun _ => rfl)

/-- sequential vertical-line histogram = run-length count of the stored matrix's rows -/
theorem seq_vertline_runs (emb : List (List V)) (eps : Rat) (dim : Nat)
    (hdim : ∀ r ∈ emb, r.length = dim) :
    StructC08._vertline_dist_sequential vOps emb.length (List.replicate emb.length 0) (accE emb)
        (some eps) dim
      = histOfRuns (rowsOf (fixedThreshold .supremum emb eps false) true emb.length)
          emb.length := by
  rw [seq_vertline_eq_matrix emb eps dim hdim, gen_vertline_runs]

theorem seq_diagline_runs (emb : List (List V)) (eps : Rat) (dim : Nat)
    (hdim : ∀ r ∈ emb, r.length = dim) :
    StructC08._diagline_dist_sequential vOps emb.length (List.replicate emb.length 0) (accE emb)
        (some eps) dim
      = histOfRuns (diagsOf (fixedThreshold .supremum emb eps false) emb.length) emb.length := by
  rw [seq_diagline_eq_matrix emb eps dim hdim, gen_diagline_runs]

/-- in sequential mode `recurrence_rate` is `Σ l·P_v(l) / N²`; without missing-value handling
its numerator is the number of recurrence points of the matrix that is never stored -/
theorem seq_recurrence_rate_num (emb : List (List V)) (eps : Rat) (dim : Nat)
    (hdim : ∀ r ∈ emb, r.length = dim) :
    wsum (StructC08._vertline_dist_sequential vOps emb.length (List.replicate emb.length 0) (accE emb)
        (some eps) dim)
      = countIn (rowsOf (fixedThreshold .supremum emb eps false) true emb.length) := by
  rw [seq_vertline_eq_matrix emb eps dim hdim, gen_vertline_eq, vert_accounts_black]

/-- non-vacuity: the hypotheses are met by a 3-sample series with a NaN in the middle, whose
mask is non-trivial (`Rat` does not reduce under `decide`: the generated sequential kernels are
executed by the driver on such data in every run) -/
example : (∀ r ∈ [[some (0 : Rat)], [none], [some 2]], r.length = 1) ∧
    missingMask [[some (0 : Rat)], [none], [some 2]] = [false, true, false] := by
  constructor
  · simp
  · decide
example : StructC08._diagline_dist 3 [0, 0, 0]
    (accR [[true, true, false], [true, true, true], [false, true, true]]) = [0, 1, 0] := by decide

end Generated

/-! ## Round 3 — bootstrap of the line histograms (`resample_diagline_dist`,
`resample_vertline_dist`): invariants for every stream of `random.random()` values -/
section Bootstrap
open Pyunicorn.Generated

/-- what `random.random()` guarantees for each pair of draws -/
def UnitDraws (draws : List (Rat × Rat)) : Prop := ∀ u ∈ draws, 0 ≤ u.1 ∧ u.1 < 1 ∧ 0 ≤ u.2

theorem maxLen_le_length (h : List Nat) : maxLen h ≤ h.length := by
  rcases maxLen_spec h with ⟨h0, _⟩ | ⟨k, hk, hm, _, _⟩ <;> omega

/-- `L_max == 0` (no line at all): the histogram itself is returned, no draw is made -/
theorem resample_zero (hist : List Nat) (M : Nat) (draws : List (Rat × Rat))
    (h : maxLen hist = 0) : resample hist M draws = hist := by
  simp [resample, h]

private theorem sum_replicate_zero (n : Nat) : (List.replicate n 0).sum = 0 := by
  induction n with
  | zero => rfl
  | succ n ih => simp [List.replicate_succ, ih]

private theorem getD_replicate_zero (n x : Nat) : (List.replicate n 0).getD x 0 = 0 := by
  rw [List.getD_eq_getElem?_getD]
  cases h : (List.replicate n 0)[x]? with
  | none => rfl
  | some v =>
    have := List.mem_of_getElem? h
    simp only [List.mem_replicate] at this
    simp [this.2]

private theorem take_len (hist : List Nat) : (hist.take (maxLen hist)).length = maxLen hist := by
  rw [List.length_take]; exact Nat.min_eq_left (maxLen_le_length hist)

private theorem inRange_of_unit (hist : List Nat) (draws : List (Rat × Rat))
    (hL : maxLen hist ≠ 0) (hd : UnitDraws draws) :
    InRange ((hist.take (maxLen hist)).length : Nat) (hist.take (maxLen hist)).length draws := by
  intro u hu
  have := hd u hu
  rw [take_len]
  exact floor_index_in_range u.1 (maxLen hist) this.1 this.2.1 (Nat.pos_of_ne_zero hL)

/-- **every draw stream**: the resampled histogram has the length of the original, holds exactly
as many lines as draws were accepted and never more than `M` (exactly `M` once the loop has
run to its end: `i = M`). -/
theorem resample_count (hist : List Nat) (M : Nat) (draws : List (Rat × Rat))
    (hL : maxLen hist ≠ 0) (hd : UnitDraws draws) :
    (resample hist M draws).length = hist.length ∧
    (resample hist M draws).sum = (rejectionSampling (hist.take (maxLen hist)) M draws).i ∧
    (rejectionSampling (hist.take (maxLen hist)) M draws).i ≤ M := by
  have hc := rejLoop_count (normDist (hist.take (maxLen hist)))
    ((hist.take (maxLen hist)).length : Nat) M draws
    ⟨0, List.replicate (hist.take (maxLen hist)).length 0⟩
    (by simpa using inRange_of_unit hist draws hL hd) (Nat.zero_le _)
  simp only [List.length_replicate, sum_replicate_zero, Nat.add_zero, Nat.zero_add] at hc
  have hle := maxLen_le_length hist
  simp only [resample, rejectionSampling, beq_iff_eq, if_neg hL, List.length_append,
    List.length_replicate, List.sum_append, sum_replicate_zero, Nat.add_zero]
  refine ⟨?_, hc.1, hc.2.2.2⟩
  rw [hc.2.1, take_len]; omega

/-- **every draw stream**: resampling never creates a line length that the original histogram
does not have (so `max_*length`, and the support of the entropies, can only shrink). -/
theorem resample_support (hist : List Nat) (M : Nat) (draws : List (Rat × Rat))
    (hd : UnitDraws draws) (x : Nat) (hx : hist.getD x 0 = 0) :
    (resample hist M draws).getD x 0 = 0 := by
  by_cases hL : maxLen hist = 0
  · rw [resample_zero hist M draws hL]; exact hx
  · have hc := rejLoop_count (normDist (hist.take (maxLen hist)))
      ((hist.take (maxLen hist)).length : Nat) M draws
      ⟨0, List.replicate (hist.take (maxLen hist)).length 0⟩
      (by simpa using inRange_of_unit hist draws hL hd) (Nat.zero_le _)
    simp only [List.length_replicate] at hc
    have hlen := hc.2.1
    simp only [resample, rejectionSampling, beq_iff_eq, if_neg hL]
    by_cases hxl : x < maxLen hist
    · rw [List.getD_eq_getElem?_getD, List.getElem?_append_left (by rw [hlen, take_len]; exact hxl),
        ← List.getD_eq_getElem?_getD]
      rw [rejLoop_support _ _ _ _ _ (fun u hu => ⟨(inRange_of_unit hist draws hL hd u hu).1,
        (hd u hu).2.2⟩) x]
      · exact getD_replicate_zero _ _
      · have : (hist.take (maxLen hist))[x]?.getD 0 = 0 := by
          rw [List.getElem?_take_of_lt hxl, ← List.getD_eq_getElem?_getD, hx]
        simp [normDist, this]
    · rw [List.getD_eq_getElem?_getD, List.getElem?_append_right (by rw [hlen, take_len]; omega)]
      exact (List.getD_eq_getElem?_getD ..).symm.trans (getD_replicate_zero _ _)

/-- **round 4 — the law of one accepted draw**: in `resample_*line_dist` (lengths `1 … L_max`,
`L_max > 0`) the pair of draws `(u1, u2)` adds a line of length `x + 1` iff it lies in the rectangle
`[x/L_max, (x+1)/L_max) × [0, P(x+1)/Σ P)` — whatever happened before.  The rectangles are disjoint
and equally wide, so for uniform independent draws an accepted line has length `x + 1` with
probability `P(x+1)/Σ P`: the resampled histogram is a multinomial sample of the original
(the measure-theoretic step is not formalised). -/
theorem bootstrap_accept_region (hist : List Nat) (hL : maxLen hist ≠ 0) (u1 u2 : Rat)
    (s : StructC08.RS) (x : Nat) :
    ((StructC08.rejIter (normDist (hist.take (maxLen hist))) ((maxLen hist : Nat) : Int) u1 u2 s).i
        = s.i + 1 ∧ Rat.floor (u1 * (((maxLen hist : Nat) : Int) : Rat)) = x)
      ↔ ((x : Rat) / (maxLen hist : Nat) ≤ u1 ∧ u1 < ((x : Rat) + 1) / (maxLen hist : Nat) ∧
          u2 < ((hist.take (maxLen hist)).getD x 0 : Rat) / ((hist.take (maxLen hist)).sum : Nat)) := by
  have := rejIter_accept_iff (normDist (hist.take (maxLen hist))) (maxLen hist)
    (Nat.pos_of_ne_zero hL) u1 u2 s (x : Int)
  simpa [normDist] using this

/-- non-vacuity: two accepted draws at length 2, one rejected at length 1 (probabilities 1/3, 2/3) -/
example : UnitDraws [(1/2, 0), (0, 1/2), (3/4, 1/2)] := by
  intro u hu
  simp only [List.mem_cons, List.not_mem_nil, or_false] at hu
  rcases hu with rfl | rfl | rfl <;> norm_num

end Bootstrap

/-! ## Round 4 — the two storage modes in double arithmetic

The kernels regenerated from `numerics.pyx` are now one text over a structure of float operations
(`FOps`): `vOps` is the exact arithmetic of rounds 1–3, `xOps rnd` are IEEE doubles with `+inf`,
`-inf`, NaN and a rounding `rnd` applied to every finite `|a - b|`.  The matrix mode's distances
(`_supremum_distance_matrix_rp`) are regenerated from the source as well. -/
section Doubles
open Pyunicorn.Generated

private theorem seqX_generic (rnd : Rat → Rat) (h0 : rnd 0 = 0) (emb : List (List X)) (eps : X)
    (dim : Nat) (mv : Bool) (coords : List (List (Nat × Nat)))
    (hc : ∀ cs ∈ coords, ∀ c ∈ cs, c.1 < emb.length ∧ c.2 < emb.length) (M : Int → Bool)
    (hM : mv = true → M = accM (missingMaskX emb)) :
    kernel mv (coords.map (·.map fun (c : Nat × Nat) =>
        (lineVal (xOps rnd) (fun _ _ => false)
          (fun I j => StructC08.metric_supremum (xOps rnd) I j dim (accX emb))
          eps false true c.1 c.2, M c.1 || M c.2))) emb.length
      = kernel mv (coords.map (·.map fun (c : Nat × Nat) =>
        (lineVal vOps (accR (fixedThresholdX rnd emb eps dim mv)) (fun _ _ => none) (some 0) true true
          c.1 c.2, M c.1 || M c.2))) emb.length := by
  apply kernel_map_congr
  intro cs hcs c hcc
  refine ⟨rfl, ?_⟩
  intro hmiss
  have hlt := hc cs hcs c hcc
  simp only [lineVal, Bool.false_eq_true, if_false, if_true, accR, Int.toNat_natCast]
  congr 1
  apply nearX_eq_matrix rnd h0 emb eps dim mv c.1 c.2 hlt.1 hlt.2
  intro hmv
  have h1 := hmiss hmv
  rw [hM hmv] at h1
  simpa [accM] using h1

/-- **sequential = matrix mode in double arithmetic** (vertical lines): for every rounding of the
differences with `rnd 0 = 0`, every embedding whose samples are finite, `+inf`, `-inf` or NaN, every
threshold (finite, infinite, NaN) and every size. -/
theorem seqX_vertline_eq_matrix (rnd : Rat → Rat) (h0 : rnd 0 = 0) (emb : List (List X)) (eps : X)
    (dim : Nat) :
    StructC08._vertline_dist_sequential (xOps rnd) emb.length (List.replicate emb.length 0)
        (accX emb) eps dim
      = StructC08._vertline_dist emb.length (List.replicate emb.length 0)
          (accR (fixedThresholdX rnd emb eps dim false)) := by
  unfold StructC08._vertline_dist_sequential StructC08._vertline_dist
  rw [lineDist_kernel, lineDist_kernel]
  simp only [Bool.false_eq_true, if_false]
  rw [vert_subs emb.length (fun I j => (lineVal (xOps rnd) (fun _ _ => false)
        (fun I j => StructC08.metric_supremum (xOps rnd) I j dim (accX emb)) eps false true I j,
        (false || false))),
    vert_subs emb.length (fun I j => (lineVal vOps (accR (fixedThresholdX rnd emb eps dim false))
        (fun _ _ => none) (some 0) true true I j, (false || false)))]
  exact seqX_generic rnd h0 emb eps dim false (vertCoords emb.length) (vertCoords_lt _)
    (fun _ => false) (by simp)

theorem seqX_diagline_eq_matrix (rnd : Rat → Rat) (h0 : rnd 0 = 0) (emb : List (List X)) (eps : X)
    (dim : Nat) :
    StructC08._diagline_dist_sequential (xOps rnd) emb.length (List.replicate emb.length 0)
        (accX emb) eps dim
      = StructC08._diagline_dist emb.length (List.replicate emb.length 0)
          (accR (fixedThresholdX rnd emb eps dim false)) := by
  unfold StructC08._diagline_dist_sequential StructC08._diagline_dist
  rw [lineDist_kernel, lineDist_kernel]
  simp only [if_true]
  rw [diag_subs emb.length (fun I j => (lineVal (xOps rnd) (fun _ _ => false)
        (fun I j => StructC08.metric_supremum (xOps rnd) I j dim (accX emb)) eps false true I j,
        (false || false))),
    diag_subs emb.length (fun I j => (lineVal vOps (accR (fixedThresholdX rnd emb eps dim false))
        (fun _ _ => none) (some 0) true true I j, (false || false)))]
  exact seqX_generic rnd h0 emb eps dim false (diagCoords emb.length) (diagCoords_lt _)
    (fun _ => false) (by simp)

theorem seqX_vertline_mv_eq_matrix (rnd : Rat → Rat) (h0 : rnd 0 = 0) (emb : List (List X))
    (eps : X) (dim : Nat) :
    StructC08._vertline_dist_sequential_missingvalues (xOps rnd) emb.length
        (List.replicate emb.length 0) (accX emb) eps dim (accM (missingMaskX emb))
      = StructC08._vertline_dist_missingvalues emb.length (List.replicate emb.length 0)
          (accR (fixedThresholdX rnd emb eps dim true)) (accM (missingMaskX emb)) := by
  unfold StructC08._vertline_dist_sequential_missingvalues StructC08._vertline_dist_missingvalues
  rw [lineDist_kernel, lineDist_kernel]
  simp only [Bool.false_eq_true, if_false]
  rw [vert_subs emb.length (fun I j => (lineVal (xOps rnd) (fun _ _ => false)
        (fun I j => StructC08.metric_supremum (xOps rnd) I j dim (accX emb)) eps false true I j,
        (accM (missingMaskX emb) I || accM (missingMaskX emb) j))),
    vert_subs emb.length (fun I j => (lineVal vOps (accR (fixedThresholdX rnd emb eps dim true))
        (fun _ _ => none) (some 0) true true I j,
        (accM (missingMaskX emb) I || accM (missingMaskX emb) j)))]
  exact seqX_generic rnd h0 emb eps dim true (vertCoords emb.length) (vertCoords_lt _)
    (accM (missingMaskX emb)) (fun _ => rfl)

theorem seqX_diagline_mv_eq_matrix (rnd : Rat → Rat) (h0 : rnd 0 = 0) (emb : List (List X))
    (eps : X) (dim : Nat) :
    StructC08._diagline_dist_sequential_missingvalues (xOps rnd) emb.length
        (List.replicate emb.length 0) (accX emb) eps dim (accM (missingMaskX emb))
      = StructC08._diagline_dist_missingvalues emb.length (List.replicate emb.length 0)
          (accR (fixedThresholdX rnd emb eps dim true)) (accM (missingMaskX emb)) := by
  unfold StructC08._diagline_dist_sequential_missingvalues StructC08._diagline_dist_missingvalues
  rw [lineDist_kernel, lineDist_kernel]
  simp only [if_true]
  rw [diag_subs emb.length (fun I j => (lineVal (xOps rnd) (fun _ _ => false)
        (fun I j => StructC08.metric_supremum (xOps rnd) I j dim (accX emb)) eps false true I j,
        (accM (missingMaskX emb) I || accM (missingMaskX emb) j))),
    diag_subs emb.length (fun I j => (lineVal vOps (accR (fixedThresholdX rnd emb eps dim true))
        (fun _ _ => none) (some 0) true true I j,
        (accM (missingMaskX emb) I || accM (missingMaskX emb) j)))]
  exact seqX_generic rnd h0 emb eps dim true (diagCoords emb.length) (diagCoords_lt _)
    (accM (missingMaskX emb)) (fun _ => rfl)

/-- hence, in double arithmetic too, the sequential histograms are run-length counts of the
matrix that the matrix mode would store -/
theorem seqX_vertline_runs (rnd : Rat → Rat) (h0 : rnd 0 = 0) (emb : List (List X)) (eps : X)
    (dim : Nat) :
    StructC08._vertline_dist_sequential (xOps rnd) emb.length (List.replicate emb.length 0)
        (accX emb) eps dim
      = histOfRuns (rowsOf (fixedThresholdX rnd emb eps dim false) true emb.length) emb.length := by
  rw [seqX_vertline_eq_matrix rnd h0, gen_vertline_runs]

theorem seqX_diagline_runs (rnd : Rat → Rat) (h0 : rnd 0 = 0) (emb : List (List X)) (eps : X)
    (dim : Nat) :
    StructC08._diagline_dist_sequential (xOps rnd) emb.length (List.replicate emb.length 0)
        (accX emb) eps dim
      = histOfRuns (diagsOf (fixedThresholdX rnd emb eps dim false) emb.length) emb.length := by
  rw [seqX_diagline_eq_matrix rnd h0, gen_diagline_runs]

/-- **the exact model of rounds 1–3 is the instance `rnd = id`**: on data without infinities the
double predicate with exact differences is C07's predicate -/
theorem exact_is_instance (I j dim : Int) (E : Int → Int → Recurrence.V) (eps : Recurrence.V) :
    (xOps id).lt (StructC08.metric_supremum (xOps id) I j dim (fun a b => toX (E a b))) (toX eps)
      = (vOps).lt (StructC08.metric_supremum vOps I j dim E) eps := by
  rw [metric_toX]
  exact toX_lt _ _

/-- **rounding never invents a recurrence**: for every monotone rounding that leaves the threshold
fixed (`eps` is a double), finite samples: if the double predicate holds, the exact one holds. -/
theorem round_subset (rnd : Rat → Rat) (hmono : MonoRnd rnd) (I j dim : Int)
    (e : Int → Int → Rat) (t : Rat) (ht : rnd t = t)
    (h : (xOps rnd).lt (StructC08.metric_supremum (xOps rnd) I j dim (fun a b => .fin (e a b)))
      (.fin t) = true) :
    (xOps id).lt (StructC08.metric_supremum (xOps id) I j dim (fun a b => .fin (e a b))) (.fin t)
      = true := by
  rw [near_fin_iff] at h ⊢
  refine ⟨h.1, fun l hl => ?_⟩
  have h2 := h.2 l hl
  by_contra hcon
  have : t ≤ adiff (e I l) (e j l) := not_lt.mp hcon
  have := hmono _ _ this
  rw [ht] at this
  exact absurd h2 (not_lt.mpr this)

/-- … and it changes nothing where the differences are representable (float32 samples whose
exponents are at most 29 binades apart; the dyadic data of the correspondence) -/
theorem round_exact (rnd : Rat → Rat) (I j dim : Int) (e : Int → Int → Rat)
    (hex : ∀ l : Nat, l < dim.toNat → rnd (adiff (e I l) (e j l)) = adiff (e I l) (e j l))
    (t : Rat) :
    (xOps rnd).lt (StructC08.metric_supremum (xOps rnd) I j dim (fun a b => .fin (e a b))) (.fin t)
      = (xOps id).lt (StructC08.metric_supremum (xOps id) I j dim (fun a b => .fin (e a b)))
          (.fin t) := by
  rw [Bool.eq_iff_iff, near_fin_iff, near_fin_iff]
  constructor
  · rintro ⟨h1, h2⟩; exact ⟨h1, fun l hl => by have := h2 l hl; rw [hex l hl] at this; exact this⟩
  · rintro ⟨h1, h2⟩; exact ⟨h1, fun l hl => by rw [hex l hl]; exact h2 l hl⟩

/-- **infinite samples**: if in some coordinate exactly one of the two samples is infinite, or
they are infinities of opposite sign (`|a - b| = +inf`), the pair is not recurrent for *any*
threshold, `+inf` included (`inf < inf` is false); by `seqX_*_eq_matrix` both modes agree on it. -/
theorem inf_not_recurrent (rnd : Rat → Rat) (I j : Int) (dim : Nat) (E : Int → Int → X) (eps : X)
    (l : Nat) (hl : l < dim) (hinf : X.absdiff rnd (E I l) (E j l) = .pinf) :
    (xOps rnd).lt (StructC08.metric_supremum (xOps rnd) I j dim E) eps = false := by
  have : StructC08.metric_supremum (xOps rnd) I j dim E = .pinf := by
    unfold StructC08.metric_supremum
    exact supFoldX_pinf _ (fun l : Nat => X.absdiff rnd (E I l) (E j l)) (.fin 0)
      (by intro h; cases h) (Or.inr ⟨l, by simpa using hl, hinf⟩)
  rw [this]
  exact X.lt_pinf_left eps

/-- two samples that are `+inf` in the same coordinate: `inf - inf` is NaN and that coordinate is
skipped, exactly like a NaN coordinate (here: nothing else differs, distance `0`) -/
example : StructC08.metric_supremum (xOps id) 0 1 2
    (accX [[.pinf, .fin 1], [.pinf, .fin 1]]) = .fin 0 := by decide +kernel
example : X.absdiff id .pinf (.fin 3) = .pinf ∧ X.absdiff id .ninf .pinf = .pinf ∧
    X.absdiff id .ninf .ninf = .nan := by decide

/-- non-vacuity of `round_subset` and properness of the inclusion: rounding up to integers is
monotone and fixes the threshold `1`; the distance `1/2` becomes `1`, so the pair is recurrent
exactly but not after rounding -/
def rndCeil (q : Rat) : Rat := (q.ceil : Rat)

theorem rndCeil_mono : MonoRnd rndCeil := by
  intro a b h
  simp only [rndCeil]
  have : a.ceil ≤ b.ceil := by
    rw [Rat.ceil_le_iff]; exact le_trans h Rat.le_ceil
  exact_mod_cast this

example : rndCeil 1 = 1 ∧ rndCeil 0 = 0 := by decide +kernel
example : (xOps rndCeil).lt (StructC08.metric_supremum (xOps rndCeil) 0 1 1
      (fun a _ => .fin (if a = 0 then 0 else 1/2))) (.fin 1) = false ∧
    (xOps id).lt (StructC08.metric_supremum (xOps id) 0 1 1
      (fun a _ => .fin (if a = 0 then 0 else 1/2))) (.fin 1) = true := by decide +kernel

end Doubles

/-! ## Round 5 — the binary64 rounding the driver executes: no hypothesis on the rounding is left

`rnd64` (`Model/LineDistFloat.lean`) is round-to-nearest-even on 53 bits with gradual underflow.
Round 4's theorems were stated for "every rounding with `rnd 0 = 0`" / "every *monotone* rounding
that fixes the threshold" and the monotonicity of the rounding actually executed was an assumption.
Here it is a theorem, and the inclusion "recurrent in doubles ⇒ recurrent exactly" is lifted from
finite samples to every embedding (NaN, infinities) and to the stored matrix. -/
section Binary64
open Pyunicorn.Generated

/-- **binary64 rounding is monotone** (across exponent boundaries and into the subnormal range) -/
theorem rnd64_monotone : MonoRnd rnd64 := rnd64_mono

/-- it fixes every non-negative double: normal, subnormal, zero (`m · 2^e`, `|m| < 2^53`,
`e ≥ -1074`), and its value is always on the double grid (a multiple of `2^-1074`) -/
theorem rnd64_fixes_doubles (f : Rat) (hf : IsF64 f) (h0 : 0 ≤ f) : rnd64 f = f := rnd64_fix f hf h0
theorem rnd64_value_on_grid (x : Rat) : OnGrid (rnd64 x) := rnd64_onGrid x

/-- **`rnd64` is IEEE round-to-nearest, ties to even**: its value is a double
(`rnd64_is_double`), no double is closer to the argument (`rnd64_is_nearest`), and on a tie the
even significand is taken (`rnd64_ties_to_even`).  Together with monotonicity and the fixed points
this is the specification of the binary64 rounding of `|a - b|` — a theorem about the function
the driver executes, not a reading of its definition (overflow to `inf` excepted: not modelled). -/
theorem rnd64_is_double (q : Rat) : IsF64 (rnd64 q) := rnd64_isF64 q
theorem rnd64_is_nearest (q : Rat) (hq : 0 < q) (f : Rat) (hf : IsF64 f) :
    |rnd64 q - q| ≤ |f - q| := rnd64_nearest q hq f hf
theorem rnd64_ties_to_even (q : Rat) (hq : 0 < q)
    (h : q / Visibility.pow2 (e64 q) - ((q / Visibility.pow2 (e64 q)).floor : Rat) = 1 / 2) :
    rnd64 q = ((Visibility.roundEven (q / Visibility.pow2 (e64 q)) : Int) : Rat)
        * Visibility.pow2 (e64 q) ∧
      Visibility.roundEven (q / Visibility.pow2 (e64 q)) % 2 = 0 :=
  ⟨rnd64_pos q hq, rnd64_tie_even q hq h⟩

/-- **gradual underflow is invisible to the kernels**: on the difference `|a - b|` of any two
doubles the rounding with the exponent clamp is C09's unclamped `rn53` (the model of rounds 3–4);
a difference of doubles below `2^-1022` is exact. -/
theorem rnd64_eq_rn53_on_differences (a b : Rat) (ha : IsF64 a) (hb : IsF64 b) :
    rnd64 (adiff a b) = Similarity.rn53 (adiff a b) :=
  rnd64_eq_rn53_grid _ (isF64_sub_grid a b ha hb)

/-- … and in the normal range (`2^-1022 ≤ x`) the two roundings are the same function of any
rational -/
theorem rnd64_eq_rn53_normal_range (x : Rat) (h : -1022 ≤ Visibility.lg x) :
    rnd64 x = Similarity.rn53 x := rnd64_eq_rn53_normal x (Or.inr h)

/-- **binary64 never invents a recurrence** — the predicate, any samples: for every embedding whose
samples are finite, `±inf` or NaN and every threshold that is a double (negative ones included),
`inf` or NaN: a pair recurrent with the differences rounded to binary64 is recurrent with exact
differences.  (`round_subset` of round 4 without its two hypotheses and without "finite".) -/
theorem binary64_subset_exact (I j dim : Int) (E : Int → Int → X) (eps : X)
    (heps : ∀ t, eps = .fin t → IsF64 t)
    (h : (xOps rnd64).lt (StructC08.metric_supremum (xOps rnd64) I j dim E) eps = true) :
    (xOps id).lt (StructC08.metric_supremum (xOps id) I j dim E) eps = true :=
  lt_of_accRel rnd64 _ _ (metric_accRel rnd64 rnd64_mono I j dim E) eps (fixedEps_rnd64 eps heps) h

/-- with `threshold = inf` (or NaN) rounding changes nothing at all -/
theorem binary64_inf_threshold_exact (I j dim : Int) (E : Int → Int → X) (eps : X)
    (heps : ∀ t, eps ≠ .fin t) :
    (xOps rnd64).lt (StructC08.metric_supremum (xOps rnd64) I j dim E) eps
      = (xOps id).lt (StructC08.metric_supremum (xOps id) I j dim E) eps :=
  lt_inf_of_accRel rnd64 _ _ (metric_accRel rnd64 rnd64_mono I j dim E) eps heps

/-- **the matrix stored by `set_fixed_threshold` in doubles is contained in the exact one**, cell
by cell, `missing_values` on or off, every embedding, every double / `inf` / NaN threshold -/
theorem binary64_matrix_subset_exact (emb : List (List X)) (eps : X)
    (heps : ∀ t, eps = .fin t → IsF64 t) (dim : Nat) (mv : Bool) (I j : Nat)
    (h : Mat.at (fixedThresholdX rnd64 emb eps dim mv) I j = true) :
    Mat.at (fixedThresholdX id emb eps dim mv) I j = true :=
  fixedThresholdX_subset rnd64 rnd64_mono emb eps (fixedEps_rnd64 eps heps) dim mv I j h

/-- where every coordinate difference is a double (float32-born samples at most 29 binades apart,
the dyadic data of the correspondence) binary64 decides every pair exactly -/
theorem binary64_exact_of_representable (I j dim : Int) (e : Int → Int → Rat)
    (hex : ∀ l : Nat, l < dim.toNat → IsF64 (adiff (e I l) (e j l))) (t : Rat) :
    (xOps rnd64).lt (StructC08.metric_supremum (xOps rnd64) I j dim (fun a b => .fin (e a b)))
        (.fin t)
      = (xOps id).lt (StructC08.metric_supremum (xOps id) I j dim (fun a b => .fin (e a b)))
          (.fin t) := by
  apply round_exact
  intro l hl
  apply rnd64_fix _ (hex l hl)
  unfold adiff
  split <;> linarith

/-- **sequential = matrix mode in binary64**, no hypothesis: the four generated sequential kernels
at the rounding the driver executes are the generated matrix kernels on the stored matrix, hence
run-length counts of it -/
theorem seq64_vertline_eq_matrix (emb : List (List X)) (eps : X) (dim : Nat) :
    StructC08._vertline_dist_sequential (xOps rnd64) emb.length (List.replicate emb.length 0)
        (accX emb) eps dim
      = StructC08._vertline_dist emb.length (List.replicate emb.length 0)
          (accR (fixedThresholdX rnd64 emb eps dim false)) :=
  seqX_vertline_eq_matrix rnd64 rnd64_zero emb eps dim

theorem seq64_diagline_eq_matrix (emb : List (List X)) (eps : X) (dim : Nat) :
    StructC08._diagline_dist_sequential (xOps rnd64) emb.length (List.replicate emb.length 0)
        (accX emb) eps dim
      = StructC08._diagline_dist emb.length (List.replicate emb.length 0)
          (accR (fixedThresholdX rnd64 emb eps dim false)) :=
  seqX_diagline_eq_matrix rnd64 rnd64_zero emb eps dim

theorem seq64_vertline_runs (emb : List (List X)) (eps : X) (dim : Nat) :
    StructC08._vertline_dist_sequential (xOps rnd64) emb.length (List.replicate emb.length 0)
        (accX emb) eps dim
      = histOfRuns (rowsOf (fixedThresholdX rnd64 emb eps dim false) true emb.length) emb.length :=
  seqX_vertline_runs rnd64 rnd64_zero emb eps dim

theorem seq64_diagline_runs (emb : List (List X)) (eps : X) (dim : Nat) :
    StructC08._diagline_dist_sequential (xOps rnd64) emb.length (List.replicate emb.length 0)
        (accX emb) eps dim
      = histOfRuns (diagsOf (fixedThresholdX rnd64 emb eps dim false) emb.length) emb.length :=
  seqX_diagline_runs rnd64 rnd64_zero emb eps dim

/-! non-vacuity and properness: `1` and `2^-54` are doubles; their difference `1 - 2^-54` is a tie
between `1 - 2^-53` and `1` and rounds to the even `1`, so with the threshold `1` the pair is
recurrent exactly but not in binary64 (the inclusion is proper, in the direction proved);
`1/10` is not a double and is moved; subnormal multiples of `2^-1074` are fixed. -/
example : IsF64 1 ∧ IsF64 (3 / 2) := ⟨⟨1, 0, by decide, by decide, by simp [Visibility.pow2]⟩,
  ⟨3, -1, by decide, by decide, by norm_num [Visibility.pow2]⟩⟩
example : rnd64 (1 - 1 / 2 ^ 54) = 1 ∧ rnd64 (1 - 1 / 2 ^ 53) = 1 - 1 / 2 ^ 53 ∧
    rnd64 (1 / 10) ≠ 1 / 10 ∧ rnd64 (3 / 2 ^ 1074) = 3 / 2 ^ 1074 ∧ rnd64 (3 / 2 ^ 1075) = 2 / 2 ^ 1074 ∧
    Similarity.rn53 (3 / 2 ^ 1075) = 3 / 2 ^ 1075 := by decide +kernel
example : (xOps rnd64).lt (StructC08.metric_supremum (xOps rnd64) 0 1 1
      (fun a _ => .fin (if a = 0 then 1 else 1 / 2 ^ 54))) (.fin 1) = false ∧
    (xOps id).lt (StructC08.metric_supremum (xOps id) 0 1 1
      (fun a _ => .fin (if a = 0 then 1 else 1 / 2 ^ 54))) (.fin 1) = true := by decide +kernel

end Binary64

/-! ## Round 5 — the public methods as wholes: every storage mode, missing values on and off

`Model/LineDistMethods.lean` models `diagline_dist()`, `vertline_dist()`, `white_vertline_dist()`
and `recurrence_rate()` of a fixed-threshold / supremum `RecurrencePlot` with their Python layer
(dispatch on `sparse_rqa` and `missing_values`, the `np.array_equal(recmat, recmat.T)` test and the
doubling, the NaN-free sub-embedding of the repaired `recurrence_rate`).  The theorems hold for
every rounding with `rnd 0 = 0` (so for exact arithmetic `id` and for `rnd64`), every embedding of
finite / infinite / NaN samples, every threshold and size. -/
section Methods
open Pyunicorn.Generated

/-- the matrix of a fixed threshold passes `np.array_equal(recmat, recmat.T)`: the second-triangle
branch of `diagline_dist()` is never taken for it -/
theorem fixed_threshold_matrix_symmetric (rnd : Rat → Rat) (emb : List (List X)) (eps : X)
    (dim : Nat) (mv : Bool) (n : Nat) :
    symmetricB (fixedThresholdX rnd emb eps dim mv) n = true :=
  fixedThresholdX_symmetricB rnd emb eps dim mv n

/-- **`diagline_dist()`: the memory-saving mode returns what the matrix mode returns**, with and
without `missing_values` (doubling included) -/
theorem diagline_method_sparse_eq_matrix (rnd : Rat → Rat) (h0 : rnd 0 = 0) (emb : List (List X))
    (eps : X) (dim : Nat) (mv : Bool) :
    diaglineMethod rnd ⟨emb, eps, dim, mv, true⟩ = diaglineMethod rnd ⟨emb, eps, dim, mv, false⟩ := by
  cases mv <;>
    simp [diaglineMethod, diagKernelOn, RP.R, RP.M, zeroHist, fixedThresholdX_symmetricB,
      seqX_diagline_eq_matrix rnd h0, seqX_diagline_mv_eq_matrix rnd h0]

/-- **`vertline_dist()`: the same in both storage modes** -/
theorem vertline_method_sparse_eq_matrix (rnd : Rat → Rat) (h0 : rnd 0 = 0) (emb : List (List X))
    (eps : X) (dim : Nat) (mv : Bool) :
    vertlineMethod rnd ⟨emb, eps, dim, mv, true⟩ = vertlineMethod rnd ⟨emb, eps, dim, mv, false⟩ := by
  cases mv <;>
    simp [vertlineMethod, RP.R, RP.M, zeroHist, seqX_vertline_eq_matrix rnd h0,
      seqX_vertline_mv_eq_matrix rnd h0]

/-- **`diagline_dist()` is twice the run-length count of the sub-diagonals of the stored matrix**
(= the count over all diagonals off the main one, the matrix being symmetric), in both modes -/
theorem diagline_method_eq_runs (rnd : Rat → Rat) (h0 : rnd 0 = 0) (emb : List (List X)) (eps : X)
    (dim : Nat) (sparse : Bool) :
    diaglineMethod rnd ⟨emb, eps, dim, false, sparse⟩
      = (histOfRuns (diagsOf (fixedThresholdX rnd emb eps dim false) emb.length) emb.length).map
          (2 * ·) := by
  cases sparse
  · simp [diaglineMethod, diagKernelOn, RP.R, zeroHist, fixedThresholdX_symmetricB,
      gen_diagline_runs]
  · rw [diagline_method_sparse_eq_matrix rnd h0]
    simp [diaglineMethod, diagKernelOn, RP.R, zeroHist, fixedThresholdX_symmetricB,
      gen_diagline_runs]

/-- … with `missing_values`: twice the count of the specification `runsMV` (lines containing,
directly following or directly followed by a cell of an incomplete state vector are dropped) -/
theorem diagline_method_mv_eq_runs (rnd : Rat → Rat) (h0 : rnd 0 = 0) (emb : List (List X))
    (eps : X) (dim : Nat) (sparse : Bool) :
    diaglineMethod rnd ⟨emb, eps, dim, true, sparse⟩
      = ((((diagCoords emb.length).map
            (cellsOf (fixedThresholdX rnd emb eps dim true) (missingMaskX emb) true)).flatMap
            runsMV).foldl bump (List.replicate emb.length 0)).map (2 * ·) := by
  cases sparse
  · simp [diaglineMethod, diagKernelOn, RP.R, RP.M, zeroHist, fixedThresholdX_symmetricB,
      gen_diagline_mv_eq, diag_mv_eq_runs]
  · rw [diagline_method_sparse_eq_matrix rnd h0]
    simp [diaglineMethod, diagKernelOn, RP.R, RP.M, zeroHist, fixedThresholdX_symmetricB,
      gen_diagline_mv_eq, diag_mv_eq_runs]

/-- **`vertline_dist()` is the run-length count of the rows of the stored matrix**, both modes -/
theorem vertline_method_eq_runs (rnd : Rat → Rat) (h0 : rnd 0 = 0) (emb : List (List X)) (eps : X)
    (dim : Nat) (sparse : Bool) :
    vertlineMethod rnd ⟨emb, eps, dim, false, sparse⟩
      = histOfRuns (rowsOf (fixedThresholdX rnd emb eps dim false) true emb.length) emb.length := by
  cases sparse
  · simp [vertlineMethod, RP.R, zeroHist, gen_vertline_runs]
  · rw [vertline_method_sparse_eq_matrix rnd h0]
    simp [vertlineMethod, RP.R, zeroHist, gen_vertline_runs]

theorem vertline_method_mv_eq_runs (rnd : Rat → Rat) (h0 : rnd 0 = 0) (emb : List (List X))
    (eps : X) (dim : Nat) (sparse : Bool) :
    vertlineMethod rnd ⟨emb, eps, dim, true, sparse⟩
      = (((vertCoords emb.length).map
            (cellsOf (fixedThresholdX rnd emb eps dim true) (missingMaskX emb) true)).flatMap
            runsMV).foldl bump (List.replicate emb.length 0) := by
  cases sparse
  · simp [vertlineMethod, RP.R, RP.M, zeroHist, gen_vertline_mv_eq, vert_mv_eq_runs]
  · rw [vertline_method_sparse_eq_matrix rnd h0]
    simp [vertlineMethod, RP.R, RP.M, zeroHist, gen_vertline_mv_eq, vert_mv_eq_runs]

/-- `white_vertline_dist()`: run-length count of the non-recurrence points of the rows in matrix
mode; `NotImplementedError` in sequential mode -/
theorem white_method_eq_runs (rnd : Rat → Rat) (emb : List (List X)) (eps : X) (dim : Nat)
    (mv : Bool) :
    whiteVertlineMethod rnd ⟨emb, eps, dim, mv, false⟩
        = some (histOfRuns (rowsOf (fixedThresholdX rnd emb eps dim mv) false emb.length)
            emb.length) ∧
      whiteVertlineMethod rnd ⟨emb, eps, dim, mv, true⟩ = none := by
  simp [whiteVertlineMethod, RP.R, zeroHist, gen_white_runs]

theorem countIn_rowsOf (R : Mat) (n : Nat) : countIn (rowsOf R true n) = matSum R n := by
  simp [countIn, rowsOf, matSum, List.map_map, Function.comp_def]

/-- **`recurrence_rate()` counts the recurrence points of the stored matrix in every mode**: its
numerator is `R.sum()` of the matrix mode also in sequential mode, where it is `Σ l·P_v(l)` — and
with `missing_values`, where the repaired code (f8b6262) runs the plain sequential kernel on the
state vectors without NaN, it is still the sum of the matrix whose incomplete rows and columns
are cleared -/
theorem recurrence_rate_num_all_modes (rnd : Rat → Rat) (h0 : rnd 0 = 0) (emb : List (List X))
    (eps : X) (dim : Nat) (mv sparse : Bool) :
    recurrenceRateNum rnd ⟨emb, eps, dim, mv, sparse⟩
      = matSum (fixedThresholdX rnd emb eps dim mv) emb.length := by
  cases sparse
  · simp [recurrenceRateNum, RP.R]
  · cases mv
    · simp only [recurrenceRateNum, vertlineMethod, Bool.not_true, Bool.false_eq_true, if_false,
        zeroHist]
      rw [seqX_vertline_eq_matrix rnd h0, gen_vertline_eq, vert_accounts_black, countIn_rowsOf]
    · simp only [recurrenceRateNum, Bool.not_true, Bool.false_eq_true, if_false, if_true, zeroHist]
      rw [seqX_vertline_eq_matrix rnd h0, gen_vertline_eq, vert_accounts_black, countIn_rowsOf,
        ← matSum_mv_eq_complete rnd h0]

/-- hence **every scalar measure is the same in the two storage modes**: the numerators and
denominators of DET / L / LAM / TT, the maximal lengths and the weights of the entropies are
functions (`scalars`) of histograms that coincide -/
theorem scalars_sparse_eq_matrix (rnd : Rat → Rat) (h0 : rnd 0 = 0) (emb : List (List X)) (eps : X)
    (dim : Nat) (mv : Bool) (lmin : Nat) :
    scalars lmin (diaglineMethod rnd ⟨emb, eps, dim, mv, true⟩)
        = scalars lmin (diaglineMethod rnd ⟨emb, eps, dim, mv, false⟩) ∧
      scalars lmin (vertlineMethod rnd ⟨emb, eps, dim, mv, true⟩)
        = scalars lmin (vertlineMethod rnd ⟨emb, eps, dim, mv, false⟩) := by
  rw [diagline_method_sparse_eq_matrix rnd h0, vertline_method_sparse_eq_matrix rnd h0]
  exact ⟨rfl, rfl⟩

/-- **accounting at the level of the methods**: in either storage mode `Σ l·P_v(l)` of
`vertline_dist()` plus `Σ l·P_w(l)` of `white_vertline_dist()` (matrix mode) is `N²` — every
recurrence point and every non-recurrence point lies on exactly one counted line -/
theorem methods_account_all (rnd : Rat → Rat) (h0 : rnd 0 = 0) (emb : List (List X)) (eps : X)
    (dim : Nat) (sparse : Bool) :
    ∃ w, whiteVertlineMethod rnd ⟨emb, eps, dim, false, false⟩ = some w ∧
      wsum (vertlineMethod rnd ⟨emb, eps, dim, false, sparse⟩) + wsum w
        = emb.length * emb.length := by
  refine ⟨_, rfl, ?_⟩
  have hv : vertlineMethod rnd ⟨emb, eps, dim, false, sparse⟩
      = vertlineMethod rnd ⟨emb, eps, dim, false, false⟩ := by
    cases sparse
    · rfl
    · exact vertline_method_sparse_eq_matrix rnd h0 emb eps dim false
  rw [hv]
  simp only [vertlineMethod, RP.R, zeroHist, Bool.not_false, if_true, Bool.false_eq_true, if_false]
  rw [gen_vertline_eq, gen_white_eq]
  exact vert_white_account_all _ _

/-- non-vacuity: a 5-sample series with a NaN and an infinite sample; the modes -/
example :
    diaglineMethod id ⟨[[.fin 0], [.nan], [.fin (1/2)], [.fin 1], [.pinf]], .fin 1, 1, false, true⟩
      = [2, 2, 2, 0, 0] ∧
    vertlineMethod id ⟨[[.fin 0], [.nan], [.fin (1/2)], [.fin 1], [.pinf]], .fin 1, 1, true, true⟩
      = [1, 0, 0, 0, 0] ∧
    recurrenceRateNum id ⟨[[.fin 0], [.nan], [.fin (1/2)], [.fin 1], [.pinf]], .fin 1, 1, true, true⟩
      = 8 ∧
    recurrenceRateNum id ⟨[[.fin 0], [.nan], [.fin (1/2)], [.fin 1], [.pinf]], .fin 1, 1, true, false⟩
      = 8 := by decide +kernel

/-- **the two outer loops of `_supremum_distance_matrix_rp` as written compute the closed form**
that the model of `set_fixed_threshold` uses (`for j in range(T): for k in range(j): …
distance[j, k] = distance[k, j] = diff` on `np.zeros`; bounds and store targets are regenerated from
the source on every run): every entry, every size, dimension, embedding, float structure.  (Until
round 4 the loops were only checked literally by the translator.) -/
theorem distance_matrix_loops_eq_closed {α : Type} (O : FOps α) (n_time dim : Int)
    (E : Int → Int → α) (a b : Int) :
    StructC08.supremum_rp_loops O n_time dim E a b
      = StructC08._supremum_distance_matrix_rp O n_time dim E a b :=
  rp_loops_eq_closed O n_time dim E a b

/-- hence what the loops return is symmetric with the `np.zeros` diagonal, and outside
`[0, T) × [0, T)` nothing is ever stored -/
theorem distance_matrix_loops_symmetric {α : Type} (O : FOps α) (n_time dim : Int)
    (E : Int → Int → α) (a b : Int) :
    StructC08.supremum_rp_loops O n_time dim E a b = StructC08.supremum_rp_loops O n_time dim E b a ∧
    StructC08.supremum_rp_loops O n_time dim E a a = O.zero := by
  rw [rp_loops_eq_closed, rp_loops_eq_closed, rp_loops_eq_closed]
  refine ⟨dist_rp_symm O n_time dim E a b, ?_⟩
  unfold StructC08._supremum_distance_matrix_rp
  simp only []
  rw [if_neg (by omega), if_neg (by omega)]

example : StructC08.supremum_rp_loops (xOps id) 3 1 (accX [[.fin 0], [.fin 2], [.fin 5]]) 2 1 = .fin 3 ∧
    StructC08.supremum_rp_loops (xOps id) 3 1 (accX [[.fin 0], [.fin 2], [.fin 5]]) 0 2 = .fin 5 ∧
    StructC08.supremum_rp_loops (xOps id) 3 1 (accX [[.fin 0], [.fin 2], [.fin 5]]) 1 1 = .fin 0 := by
  decide +kernel

end Methods

/-! ## Round 5 — overflow of a finite difference to `inf`

The driver executes the generated kernels at `xOpsO rnd64` (`abs(a - b)` overflows to `+inf` from
`2^1024` on).  Where nothing overflows this is `xOps rnd64`, about which everything above is proved;
nothing overflows when the finite samples are at most `2^1022` in magnitude — every embedding the
class can hold is a converted float32 array (`|x| < 2^128`). -/
section Overflow
open Pyunicorn.Generated

/-- **without an overflowing coordinate difference the kernels with overflow are the kernels
without**: the four sequential kernels and the distance kernel of the matrix mode -/
theorem overflow_free_kernels (rnd : Rat → Rat) (E : Int → Int → X) (dim : Nat)
    (h : NoOvf rnd E dim) (n : Int) (hist : List Nat) (eps : X) (M : Int → Bool) :
    StructC08._vertline_dist_sequential (xOpsO rnd) n hist E eps dim
        = StructC08._vertline_dist_sequential (xOps rnd) n hist E eps dim ∧
    StructC08._diagline_dist_sequential (xOpsO rnd) n hist E eps dim
        = StructC08._diagline_dist_sequential (xOps rnd) n hist E eps dim ∧
    StructC08._vertline_dist_sequential_missingvalues (xOpsO rnd) n hist E eps dim M
        = StructC08._vertline_dist_sequential_missingvalues (xOps rnd) n hist E eps dim M ∧
    StructC08._diagline_dist_sequential_missingvalues (xOpsO rnd) n hist E eps dim M
        = StructC08._diagline_dist_sequential_missingvalues (xOps rnd) n hist E eps dim M ∧
    ∀ a b, StructC08._supremum_distance_matrix_rp (xOpsO rnd) n dim E a b
        = StructC08._supremum_distance_matrix_rp (xOps rnd) n dim E a b :=
  ⟨seqO_vertline_eq rnd E dim h n hist eps, seqO_diagline_eq rnd E dim h n hist eps,
    seqO_vertline_mv_eq rnd E dim h n hist eps M, seqO_diagline_mv_eq rnd E dim h n hist eps M,
    fun a b => distO_eq rnd E dim h n a b⟩

/-- **bounded samples never overflow in binary64**: finite samples up to `2^1022` in magnitude
(every float32 a fortiori; infinite and NaN samples are allowed) -/
theorem bounded_samples_never_overflow (E : Int → Int → X) (dim : Nat)
    (h : BoundedBy (Visibility.pow2 1022) E) : NoOvf rnd64 E dim :=
  noOvf_of_bounded E dim h

/-- the chain for what the driver executes: the sequential kernels *with overflow* at binary64
are run-length counts of the stored matrix, for every embedding with bounded finite samples -/
theorem seq64O_vertline_runs (emb : List (List X)) (eps : X) (dim : Nat)
    (h : BoundedBy (Visibility.pow2 1022) (accX emb)) :
    StructC08._vertline_dist_sequential (xOpsO rnd64) emb.length (List.replicate emb.length 0)
        (accX emb) eps dim
      = histOfRuns (rowsOf (fixedThresholdX rnd64 emb eps dim false) true emb.length) emb.length := by
  rw [seqO_vertline_eq rnd64 _ dim (noOvf_of_bounded _ dim h)]
  exact seq64_vertline_runs emb eps dim

theorem seq64O_diagline_runs (emb : List (List X)) (eps : X) (dim : Nat)
    (h : BoundedBy (Visibility.pow2 1022) (accX emb)) :
    StructC08._diagline_dist_sequential (xOpsO rnd64) emb.length (List.replicate emb.length 0)
        (accX emb) eps dim
      = histOfRuns (diagsOf (fixedThresholdX rnd64 emb eps dim false) emb.length) emb.length := by
  rw [seqO_diagline_eq rnd64 _ dim (noOvf_of_bounded _ dim h)]
  exact seq64_diagline_runs emb eps dim

private theorem seqOps_generic (O : FOps X) (hO : SymOps O) (emb : List (List X)) (eps : X)
    (dim : Nat) (mv : Bool) (coords : List (List (Nat × Nat)))
    (hc : ∀ cs ∈ coords, ∀ c ∈ cs, c.1 < emb.length ∧ c.2 < emb.length) (M : Int → Bool)
    (hM : mv = true → M = accM (missingMaskX emb)) :
    kernel mv (coords.map (·.map fun (c : Nat × Nat) =>
        (lineVal O (fun _ _ => false)
          (fun I j => StructC08.metric_supremum O I j dim (accX emb))
          eps false true c.1 c.2, M c.1 || M c.2))) emb.length
      = kernel mv (coords.map (·.map fun (c : Nat × Nat) =>
        (lineVal vOps (accR (fixedThresholdOps O emb eps dim mv)) (fun _ _ => none) (some 0) true true
          c.1 c.2, M c.1 || M c.2))) emb.length := by
  apply kernel_map_congr
  intro cs hcs c hcc
  refine ⟨rfl, ?_⟩
  intro hmiss
  have hlt := hc cs hcs c hcc
  simp only [lineVal, Bool.false_eq_true, if_false, if_true, accR, Int.toNat_natCast]
  congr 1
  apply nearOps_eq_matrix O hO emb eps dim mv c.1 c.2 hlt.1 hlt.2
  intro hmv
  have h1 := hmiss hmv
  rw [hM hmv] at h1
  simpa [accM] using h1

/-- **sequential = matrix mode for every structure of double operations** with a commutative
`abs(a - b)` whose self-distance is the literal `0` (`SymOps`) — in particular with overflow of a
finite difference to `inf` (`xOpsO`).  Every embedding, threshold, size. -/
theorem seqOps_vertline_eq_matrix (O : FOps X) (hO : SymOps O) (emb : List (List X)) (eps : X)
    (dim : Nat) :
    StructC08._vertline_dist_sequential O emb.length (List.replicate emb.length 0)
        (accX emb) eps dim
      = StructC08._vertline_dist emb.length (List.replicate emb.length 0)
          (accR (fixedThresholdOps O emb eps dim false)) := by
  unfold StructC08._vertline_dist_sequential StructC08._vertline_dist
  rw [lineDist_kernel, lineDist_kernel]
  simp only [Bool.false_eq_true, if_false]
  rw [vert_subs emb.length (fun I j => (lineVal O (fun _ _ => false)
        (fun I j => StructC08.metric_supremum O I j dim (accX emb)) eps false true I j,
        (false || false))),
    vert_subs emb.length (fun I j => (lineVal vOps (accR (fixedThresholdOps O emb eps dim false))
        (fun _ _ => none) (some 0) true true I j, (false || false)))]
  exact seqOps_generic O hO emb eps dim false (vertCoords emb.length) (vertCoords_lt _)
    (fun _ => false) (by simp)

theorem seqOps_diagline_eq_matrix (O : FOps X) (hO : SymOps O) (emb : List (List X)) (eps : X)
    (dim : Nat) :
    StructC08._diagline_dist_sequential O emb.length (List.replicate emb.length 0)
        (accX emb) eps dim
      = StructC08._diagline_dist emb.length (List.replicate emb.length 0)
          (accR (fixedThresholdOps O emb eps dim false)) := by
  unfold StructC08._diagline_dist_sequential StructC08._diagline_dist
  rw [lineDist_kernel, lineDist_kernel]
  simp only [if_true]
  rw [diag_subs emb.length (fun I j => (lineVal O (fun _ _ => false)
        (fun I j => StructC08.metric_supremum O I j dim (accX emb)) eps false true I j,
        (false || false))),
    diag_subs emb.length (fun I j => (lineVal vOps (accR (fixedThresholdOps O emb eps dim false))
        (fun _ _ => none) (some 0) true true I j, (false || false)))]
  exact seqOps_generic O hO emb eps dim false (diagCoords emb.length) (diagCoords_lt _)
    (fun _ => false) (by simp)

theorem seqOps_vertline_mv_eq_matrix (O : FOps X) (hO : SymOps O) (emb : List (List X))
    (eps : X) (dim : Nat) :
    StructC08._vertline_dist_sequential_missingvalues O emb.length
        (List.replicate emb.length 0) (accX emb) eps dim (accM (missingMaskX emb))
      = StructC08._vertline_dist_missingvalues emb.length (List.replicate emb.length 0)
          (accR (fixedThresholdOps O emb eps dim true)) (accM (missingMaskX emb)) := by
  unfold StructC08._vertline_dist_sequential_missingvalues StructC08._vertline_dist_missingvalues
  rw [lineDist_kernel, lineDist_kernel]
  simp only [Bool.false_eq_true, if_false]
  rw [vert_subs emb.length (fun I j => (lineVal O (fun _ _ => false)
        (fun I j => StructC08.metric_supremum O I j dim (accX emb)) eps false true I j,
        (accM (missingMaskX emb) I || accM (missingMaskX emb) j))),
    vert_subs emb.length (fun I j => (lineVal vOps (accR (fixedThresholdOps O emb eps dim true))
        (fun _ _ => none) (some 0) true true I j,
        (accM (missingMaskX emb) I || accM (missingMaskX emb) j)))]
  exact seqOps_generic O hO emb eps dim true (vertCoords emb.length) (vertCoords_lt _)
    (accM (missingMaskX emb)) (fun _ => rfl)

theorem seqOps_diagline_mv_eq_matrix (O : FOps X) (hO : SymOps O) (emb : List (List X))
    (eps : X) (dim : Nat) :
    StructC08._diagline_dist_sequential_missingvalues O emb.length
        (List.replicate emb.length 0) (accX emb) eps dim (accM (missingMaskX emb))
      = StructC08._diagline_dist_missingvalues emb.length (List.replicate emb.length 0)
          (accR (fixedThresholdOps O emb eps dim true)) (accM (missingMaskX emb)) := by
  unfold StructC08._diagline_dist_sequential_missingvalues StructC08._diagline_dist_missingvalues
  rw [lineDist_kernel, lineDist_kernel]
  simp only [if_true]
  rw [diag_subs emb.length (fun I j => (lineVal O (fun _ _ => false)
        (fun I j => StructC08.metric_supremum O I j dim (accX emb)) eps false true I j,
        (accM (missingMaskX emb) I || accM (missingMaskX emb) j))),
    diag_subs emb.length (fun I j => (lineVal vOps (accR (fixedThresholdOps O emb eps dim true))
        (fun _ _ => none) (some 0) true true I j,
        (accM (missingMaskX emb) I || accM (missingMaskX emb) j)))]
  exact seqOps_generic O hO emb eps dim true (diagCoords emb.length) (diagCoords_lt _)
    (accM (missingMaskX emb)) (fun _ => rfl)

/-- **with overflow, at binary64, no hypothesis**: the four sequential kernels the driver executes
(`xOpsO rnd64`) are the matrix kernels on the matrix stored from the distance kernel with overflow,
for every embedding (finite of any magnitude, `±inf`, NaN), threshold and size -/
theorem seq64O_eq_matrix (emb : List (List X)) (eps : X) (dim : Nat) :
    StructC08._vertline_dist_sequential (xOpsO rnd64) emb.length (List.replicate emb.length 0)
        (accX emb) eps dim
      = StructC08._vertline_dist emb.length (List.replicate emb.length 0)
          (accR (fixedThresholdOps (xOpsO rnd64) emb eps dim false)) ∧
    StructC08._diagline_dist_sequential (xOpsO rnd64) emb.length (List.replicate emb.length 0)
        (accX emb) eps dim
      = StructC08._diagline_dist emb.length (List.replicate emb.length 0)
          (accR (fixedThresholdOps (xOpsO rnd64) emb eps dim false)) ∧
    StructC08._vertline_dist_sequential_missingvalues (xOpsO rnd64) emb.length
        (List.replicate emb.length 0) (accX emb) eps dim (accM (missingMaskX emb))
      = StructC08._vertline_dist_missingvalues emb.length (List.replicate emb.length 0)
          (accR (fixedThresholdOps (xOpsO rnd64) emb eps dim true)) (accM (missingMaskX emb)) ∧
    StructC08._diagline_dist_sequential_missingvalues (xOpsO rnd64) emb.length
        (List.replicate emb.length 0) (accX emb) eps dim (accM (missingMaskX emb))
      = StructC08._diagline_dist_missingvalues emb.length (List.replicate emb.length 0)
          (accR (fixedThresholdOps (xOpsO rnd64) emb eps dim true)) (accM (missingMaskX emb)) :=
  ⟨seqOps_vertline_eq_matrix _ (symOps_xOpsO rnd64 rnd64_zero) emb eps dim,
    seqOps_diagline_eq_matrix _ (symOps_xOpsO rnd64 rnd64_zero) emb eps dim,
    seqOps_vertline_mv_eq_matrix _ (symOps_xOpsO rnd64 rnd64_zero) emb eps dim,
    seqOps_diagline_mv_eq_matrix _ (symOps_xOpsO rnd64 rnd64_zero) emb eps dim⟩

/-- **rounding and overflow together never invent a recurrence**: on every embedding (finite
samples of any magnitude, `±inf`, NaN) and for every double / `inf` / NaN threshold, a pair that the
compiled arithmetic (binary64 with overflow) calls recurrent is recurrent in exact arithmetic -/
theorem binary64_overflow_subset_exact (I j dim : Int) (E : Int → Int → X) (eps : X)
    (heps : ∀ t, eps = .fin t → IsF64 t)
    (h : (xOpsO rnd64).lt (StructC08.metric_supremum (xOpsO rnd64) I j dim E) eps = true) :
    (xOps id).lt (StructC08.metric_supremum (xOps id) I j dim E) eps = true :=
  lt_of_accRelO rnd64 _ _ (metric_accRelO rnd64 rnd64_mono I j dim E) eps
    (fixedEps_rnd64 eps heps) h

/-- the overflow is real and matters only for `threshold = inf`: `±1.5·2^1023` are doubles, their
difference `3·2^1023 ≥ 2^1024` is `+inf`; the pair is not recurrent even for an infinite threshold,
while the model without overflow would accept it -/
example : X.absdiffO rnd64 (.fin (3 * 2 ^ 1022)) (.fin (-(3 * 2 ^ 1022))) = .pinf ∧
    X.absdiff rnd64 (.fin (3 * 2 ^ 1022)) (.fin (-(3 * 2 ^ 1022))) = .fin (3 * 2 ^ 1023) ∧
    (xOpsO rnd64).lt (StructC08.metric_supremum (xOpsO rnd64) 0 1 1
      (fun a _ => .fin (if a = 0 then 3 * 2 ^ 1022 else -(3 * 2 ^ 1022)))) .pinf = false ∧
    (xOps rnd64).lt (StructC08.metric_supremum (xOps rnd64) 0 1 1
      (fun a _ => .fin (if a = 0 then 3 * 2 ^ 1022 else -(3 * 2 ^ 1022)))) .pinf = true := by
  decide +kernel

end Overflow

/-! ## Round 4 — `RecurrencePlot.diagline_dist()` as a whole (Python layer included) -/
section PyLayer

theorem modify_zipWith_add (h z : List Nat) (i : Nat) :
    (List.zipWith (· + ·) h z).modify i (· + 1) = List.zipWith (· + ·) h (z.modify i (· + 1)) := by
  induction h generalizing z i with
  | nil => simp
  | cons a t ih =>
    cases z with
    | nil => simp
    | cons b u =>
      cases i with
      | zero => simp [List.modify_cons]; omega
      | succ i => simp [ih]

theorem bump_addHist (h z : List Nat) (k : Nat) : bump (addHist h z) k = addHist h (bump z k) :=
  modify_zipWith_add h z (k - 1)

theorem foldl_bump_addHist (ys : List Nat) (h z : List Nat) :
    ys.foldl bump (addHist h z) = addHist h (ys.foldl bump z) := by
  induction ys generalizing z with
  | nil => rfl
  | cons y t ih => simp only [List.foldl_cons]; rw [bump_addHist, ih]

theorem addHist_zeros (h : List Nat) : addHist h (List.replicate h.length 0) = h := by
  induction h with
  | nil => rfl
  | cons a t ih => simp [addHist, List.replicate_succ] at ih ⊢; exact ih

theorem bump_length (h : List Nat) (k : Nat) : (bump h k).length = h.length := by simp [bump]

theorem foldl_bump_length (ys : List Nat) (h : List Nat) : (ys.foldl bump h).length = h.length := by
  induction ys generalizing h with
  | nil => rfl
  | cons y t ih => simp only [List.foldl_cons]; rw [ih, bump_length]

theorem histOfRuns_append (A B : List (List Bool)) (n : Nat) :
    histOfRuns (A ++ B) n = addHist (histOfRuns A n) (histOfRuns B n) := by
  unfold histOfRuns
  rw [List.flatMap_append, List.foldl_append]
  have hl : ((A.flatMap runs).foldl bump (List.replicate n 0)).length = n := by
    rw [foldl_bump_length]; simp
  generalize (A.flatMap runs).foldl bump (List.replicate n 0) = h at hl ⊢
  have := foldl_bump_addHist (B.flatMap runs) h (List.replicate n 0)
  rw [← hl] at this ⊢
  rw [addHist_zeros] at this
  exact this

theorem symmetricB_spec (R : Mat) (n : Nat) (h : symmetricB R n = true) (i j : Nat) (hi : i < n)
    (hj : j < n) : R.at j i = R.at i j := by
  simp only [symmetricB, List.all_eq_true, List.mem_range, beq_iff_eq] at h
  exact (h i hi j hj).symm

theorem tr_at (R : Mat) (n i j : Nat) (hi : i < n) (hj : j < n) : (R.tr n).at i j = R.at j i := by
  simp [Mat.tr, Mat.at, List.getD_eq_getElem?_getD, hi, hj]

theorem map_two_mul (d : List Nat) : d.map (2 * ·) = addHist d d := by
  induction d with
  | nil => rfl
  | cons a t ih => simp [addHist] at ih ⊢; exact ⟨by omega, ih⟩

/-- `RecurrencePlot.diagline_dist()` in matrix mode = run-length count of ALL diagonals off the main
one, for every matrix, symmetric or not -/
theorem diaglineDist_eq_runs (R : Mat) (n : Nat) :
    diaglineDist R n = histOfRuns (diagsOf R n ++ diagsOf (R.tr n) n) n := by
  rw [histOfRuns_append, ← diag_eq_runs, ← diag_eq_runs]
  unfold diaglineDist
  simp only []
  split
  · rename_i hs
    rw [map_two_mul]
    congr 1
    exact ((sequential_eq_matrix R (R.tr n) n (fun I j hI hj => by
      rw [tr_at R n I j hI hj]; exact symmetricB_spec R n hs I j hI hj)).2).symm
  · rfl


/-- on a symmetric matrix this is twice the one-triangle count (what the method returned before the
repair, for every matrix) -/
theorem diaglineDist_symmetric (R : Mat) (n : Nat) (h : symmetricB R n = true) :
    diaglineDist R n = (histOfRuns (diagsOf R n) n).map (2 * ·) := by
  simp only [diaglineDist, h, if_true, diag_eq_runs]

example : symmetricB [[true, true, false], [false, true, true], [false, false, true]] 3 = false ∧
    diaglineDist [[true, true, false], [false, true, true], [false, false, true]] 3 = [0, 1, 0] ∧
    (diagline [[true, true, false], [false, true, true], [false, false, true]] 3).map (2 * ·)
      = [0, 0, 0] := by decide

end PyLayer

/-! ## Round 4 — the line entropies over the reals (`Real.log`)

`diag_entropy(l_min)`, `vert_entropy(v_min)`, `white_vert_entropy(w_min)` are
`lineEntropy _epsilon l_min hist = -Σ p·log p`, `p = w / (Σ w + _epsilon)` over the non-zero entries
`w` of `hist[l_min-1:]` (`entropyWeights`, compared with the implementation in every run). -/
section Entropy

theorem entropyWeightsFrom_length (i lmin : Nat) (h : List Nat) :
    (entropyWeightsFrom i lmin h).length ≤ h.length ∧
    (entropyWeightsFrom i lmin h).length ≤ i + h.length + 1 - lmin := by
  induction h generalizing i with
  | nil => simp [entropyWeightsFrom]
  | cons a t ih =>
    have := ih (i + 1)
    simp only [entropyWeightsFrom]
    split
    · rename_i hc
      simp only [List.length_cons]
      omega
    · simp only [List.length_cons]
      omega

/-- at most `N − l_min + 1` length classes can be occupied -/
theorem entropyWeights_length (lmin : Nat) (h : List Nat) :
    (entropyWeights lmin h).length ≤ h.length + 1 - lmin := by
  have := (entropyWeightsFrom_length 0 lmin h).2
  simpa [entropyWeights] using this

/-- no line of length `≥ l_min`: the entropy is `0` -/
theorem lineEntropy_empty (eps : ℝ) (lmin : Nat) (hist : List Nat)
    (h : partialCount lmin hist = 0) : lineEntropy eps lmin hist = 0 := by
  have hs := entropyWeights_sum lmin hist
  rw [h] at hs
  have : entropyWeights lmin hist = [] := by
    cases hw : entropyWeights lmin hist with
    | nil => rfl
    | cons a t =>
      have hp := entropyWeights_pos lmin hist a (by simp [hw])
      rw [hw] at hs
      simp only [List.sum_cons] at hs
      omega
  simp [lineEntropy, this, entropyR_nil]

/-- **range of the line entropies, with the code's `_epsilon`**: for every histogram and
minimal length, `0 ≤ ENTR ≤ log k + eps / (n + eps)`, `k` the number of occupied line lengths
`≥ l_min` and `n` the number of such lines. -/
theorem lineEntropy_range (eps : ℝ) (heps : 0 ≤ eps) (lmin : Nat) (hist : List Nat)
    (hne : partialCount lmin hist ≠ 0) :
    0 ≤ lineEntropy eps lmin hist ∧
    lineEntropy eps lmin hist ≤ Real.log ((entropyWeights lmin hist).length : ℝ)
      + eps / ((partialCount lmin hist : ℝ) + eps) := by
  have hw : entropyWeights lmin hist ≠ [] := by
    intro h
    have := entropyWeights_sum lmin hist
    rw [h] at this
    exact hne this.symm
  have := entropyR_range eps heps (entropyWeights lmin hist) (entropyWeights_pos lmin hist) hw
  rw [entropyWeights_sum] at this
  exact this

/-- **the mathematical entropy (`eps = 0`) lies in `[0, log(N − l_min + 1)]`** -/
theorem lineEntropy_le_log (lmin : Nat) (hist : List Nat) (hne : partialCount lmin hist ≠ 0) :
    0 ≤ lineEntropy 0 lmin hist ∧
    lineEntropy 0 lmin hist ≤ Real.log ((hist.length + 1 - lmin : Nat) : ℝ) := by
  have h := lineEntropy_range 0 (le_refl 0) lmin hist hne
  refine ⟨h.1, le_trans h.2 ?_⟩
  simp only [zero_div, add_zero]
  have hw : entropyWeights lmin hist ≠ [] := by
    intro h'
    have := entropyWeights_sum lmin hist
    rw [h'] at this
    exact hne this.symm
  have hpos : 0 < (entropyWeights lmin hist).length := List.length_pos_iff.mpr hw
  apply Real.log_le_log (by exact_mod_cast hpos)
  exact_mod_cast entropyWeights_length lmin hist

/-- both ends are attained: one occupied length gives `0`, `k` equally occupied lengths `log k` -/
theorem lineEntropy_extremes (k m : Nat) (hk : 0 < k) (hm : 0 < m) :
    lineEntropy 0 1 [m] = 0 ∧ lineEntropy 0 1 (List.replicate k m) = Real.log k := by
  constructor
  · have : entropyWeights 1 [m] = [m] := by
      simp [entropyWeights, entropyWeightsFrom, Nat.pos_iff_ne_zero.mp hm]
    rw [lineEntropy, this]
    exact entropyR_single m hm
  · have key : ∀ (i n : Nat), entropyWeightsFrom i 1 (List.replicate n m) = List.replicate n m := by
      intro i n
      induction n generalizing i with
      | zero => rfl
      | succ n ih =>
        simp only [List.replicate_succ, entropyWeightsFrom]
        rw [if_pos ⟨by omega, Nat.pos_iff_ne_zero.mp hm⟩, ih]
    rw [lineEntropy, entropyWeights, key]
    exact entropyR_uniform k m hk hm

example : partialCount 2 [3, 2, 0, 1] ≠ 0 ∧ (entropyWeights 2 [3, 2, 0, 1]).length = 2 := by decide

end Entropy

/-! ### non-vacuity -/
example : (scalars 2 [3, 2, 0, 1]).ratioNum = 8 ∧ (scalars 2 [3, 2, 0, 1]).ratioDen = 11 ∧
    (scalars 2 [3, 2, 0, 1]).avgDen = 3 ∧ (scalars 2 [3, 2, 0, 1]).maxLen = 4 ∧
    (scalars 2 [3, 2, 0, 1]).weights = [2, 1] := by decide
example : vertline [[true, true, false], [true, true, true], [false, true, true]] 3 = [0, 2, 1] := by
  decide
example : diagline [[true, true, false], [true, true, true], [false, true, true]] 3 = [0, 1, 0] := by
  decide
example : wsum (vertline [[true, true, false], [true, true, true], [false, true, true]] 3) = 7 := by
  decide

end Pyunicorn.LineDist
