import Pyunicorn.Lemmas.Cross
/-!
# C11 — cross / internal measures of interacting networks match sub-blocks

Statements about the model `Pyunicorn.Cross` (`Model/Cross.lean`) of
`core/interacting_networks.py` and of the four kernels of `core/_ext/numerics.pyx:200-310`.
The model is tied to the code by the kernel-boundary and method-level correspondence of
`harness/c11.py`.

Vocabulary: `pairSum f L = Σ_{k<j} f L[j] L[k]` (sum over unordered pairs of positions),
`block M L1 L2 = M[L1,:][:,L2]`, `Symm A` = undirected network.
-/
namespace Pyunicorn.Cross

/-- undirected network / symmetric matrix -/
def Symm {α : Type} (A : Nat → Nat → α) : Prop := ∀ a b, A a b = A b a

/-! ### sub-blocks -/

/-- **sub-blocks respect the caller's list order**: entry `[i][j]` of the block is
`M[L1[i], L2[j]]`, for arbitrary (unsorted, even repeating) lists. -/
theorem block_respects_order {α : Type} (M : Nat → Nat → α) (L1 L2 : List Nat) (i j : Nat)
    (hi : i < L1.length) (hj : j < L2.length) :
    ((block M L1 L2)[i]?.bind (·[j]?)) = some (M L1[i] L2[j]) := by
  simp [block, hi, hj]

example : block (fun a b => 10 * a + b) [2, 0] [1, 3, 0] = [[21, 23, 20], [1, 3, 0]] := by decide

/-- `np.sum(·, axis=0)` of the block `[L2, L1]` is, per node of `L1`, the number of links
*from* `L2`: `cross_indegree` is the in-degree by definition. -/
theorem crossInDegree_eq (A : Adj) (L1 L2 : List Nat) :
    crossInDegree A L1 L2 = L1.map fun a => (L2.map fun b => b2n (A b a)).sum := by
  unfold crossInDegree colSums blockN block
  have key : ∀ (acc : List Nat) (f : Nat → Nat → Nat), acc.length = L1.length →
      List.foldl (fun acc r => List.zipWith (· + ·) acc r) acc
          (L2.map fun a => L1.map fun b => f a b)
        = (List.range L1.length).map fun i =>
            acc.getD i 0 + (L2.map fun b => f b (L1.getD i 0)).sum := by
    intro acc f
    induction L2 generalizing acc with
    | nil =>
      intro h
      apply List.ext_getElem
      · simp [h]
      · intro i h1 h2
        simp only [List.map_nil, List.foldl_nil] at h1
        simp [List.getD_eq_getElem?_getD, List.getElem?_eq_getElem h1]
    | cons b t ih =>
      intro h
      rw [List.map_cons, List.foldl_cons, ih _ (by simp [h])]
      apply List.map_congr_left
      intro i hi
      have hi' : i < L1.length := List.mem_range.mp hi
      simp only [List.map_cons, List.sum_cons]
      have : (List.zipWith (· + ·) acc (L1.map fun b_1 => f b b_1)).getD i 0
          = acc.getD i 0 + f b (L1.getD i 0) := by
        simp [List.getD_eq_getElem?_getD, hi', h]
      omega
  rw [key _ _ (by simp)]
  apply List.ext_getElem
  · simp
  · intro i h1 h2
    simp at h1
    simp [h1]

example : crossInDegree (fun a b => a == 0 && b == 1) [1, 2] [0] = [1, 0] := by decide

/-! ### `_cross_transitivity` / `_cross_local_clustering`: loops = sums over unordered pairs -/

/-- **kernel = definition** (`_cross_transitivity`): the triple loop `i`, `j`, `k < j` counts,
over the nodes `n1` of group 1 and the unordered pairs `{n2, n3}` of group 2,
`triangles = #{A[n1,n2] ∧ A[n2,n3] ∧ A[n3,n1]}` and `triples = #{A[n1,n2] ∧ A[n1,n3]}`. -/
theorem ctCounts_eq_pairSums (A : Adj) (L1 L2 : List Nat) :
    ctCounts A L1 L2
      = ((L1.map fun n1 => pairSum (fun n2 n3 => b2n (A n1 n2 && (A n2 n3 && A n3 n1))) L2).sum,
         (L1.map fun n1 => pairSum (fun n2 n3 => b2n (A n1 n2 && A n1 n3)) L2).sum) := by
  unfold ctCounts
  have h : ∀ (acc : Nat × Nat) (n1 : Nat), ctMid A n1 [] L2 acc
      = (acc.1 + pairSum (fun n2 n3 => b2n (A n1 n2 && (A n2 n3 && A n3 n1))) L2,
         acc.2 + pairSum (fun n2 n3 => b2n (A n1 n2 && A n1 n3)) L2) := by
    intro acc n1
    rw [ctMid_eq, crossSum_nil_right, crossSum_nil_right]
    have e1 : pairSum (triG A n1) L2
        = pairSum (fun n2 n3 => b2n (A n1 n2 && (A n2 n3 && A n3 n1))) L2 := by
      apply pairSum_congr
      intro a b
      simp only [triG, triInd, b2n]
      cases A n1 a <;> simp
    have e2 : pairSum (trpG A n1) L2 = pairSum (fun n2 n3 => b2n (A n1 n2 && A n1 n3)) L2 := by
      apply pairSum_congr
      intro a b
      simp only [trpG, trpInd, b2n]
      cases A n1 a <;> simp
    rw [e1, e2]
    simp
  simp only [h]
  have := foldl_pair_add_nat L1
    (fun n1 => pairSum (fun n2 n3 => b2n (A n1 n2 && (A n2 n3 && A n3 n1))) L2)
    (fun n1 => pairSum (fun n2 n3 => b2n (A n1 n2 && A n1 n3)) L2) (0, 0)
  simpa using this

/-- **kernel = definition** (`_cross_local_clustering`): the counter of node `n1` is the number
of unordered pairs `{n2, n3}` of group 2 with `A[n1,n2] ∧ A[n2,n3] ∧ A[n3,n1]`. -/
theorem clcCount_eq_pairSum (A : Adj) (n1 : Nat) (L2 : List Nat) :
    clcMid A n1 [] L2 0
      = pairSum (fun n2 n3 => b2n (A n1 n2 && (A n2 n3 && A n3 n1))) L2 := by
  rw [clcMid_eq, crossSum_nil_right]
  simp only [Nat.zero_add, Nat.add_zero]
  apply pairSum_congr
  intro a b
  simp only [triG, triInd, b2n]
  cases A n1 a <;> simp

/-- **triples = C(k, 2)**: twice the triple count is `Σ_i k_i (k_i - 1)` with `k = cross_outdegree`,
i.e. the kernel's denominator is the one `cross_local_clustering` builds from `cross_degree`
(`norm = k (k - 1) / 2`), for every list order. -/
theorem triples_eq_choose (A : Adj) (L1 L2 : List Nat) :
    2 * (ctCounts A L1 L2).2 = ((crossOutDegree A L1 L2).map fun k => k * (k - 1)).sum := by
  rw [ctCounts_eq_pairSums]
  simp only [crossOutDegree, rowSums, blockN, block, List.map_map]
  induction L1 with
  | nil => simp
  | cons n1 t ih =>
    simp only [List.map_cons, List.sum_cons, Nat.mul_add, ih]
    congr 1
    have := pairSum_both (fun x => A n1 x) L2
    simpa [Function.comp_def] using this

/-- on an undirected network every counted triangle is a counted triple:
`cross_transitivity ≤ 1` and each `cross_local_clustering` entry is `≤ 1`. -/
theorem triangles_le_triples (A : Adj) (hA : Symm A) (L1 L2 : List Nat) :
    (ctCounts A L1 L2).1 ≤ (ctCounts A L1 L2).2 := by
  rw [ctCounts_eq_pairSums]
  simp only
  induction L1 with
  | nil => simp
  | cons n1 t ih =>
    simp only [List.map_cons, List.sum_cons]
    have : pairSum (fun n2 n3 => b2n (A n1 n2 && (A n2 n3 && A n3 n1))) L2
        ≤ pairSum (fun n2 n3 => b2n (A n1 n2 && A n1 n3)) L2 := by
      apply pairSum_le
      intro a b
      rw [hA b n1]
      simp only [b2n]
      cases A n1 a <;> cases A a b <;> cases A n1 b <;> simp
    omega

/-- **both groups = all nodes** (in any order `L`): `cross_transitivity(L, L)` is Newman's
transitivity `Σ_i t_i / Σ_i C(k_i, 2)` with `t_i` = number of linked pairs of neighbours. -/
theorem whole_network_transitivity (A : Adj) (L : List Nat) :
    (ctCounts A L L).1
        = (L.map fun i => pairSum (fun j k => b2n (A i j && (A j k && A k i))) L).sum
      ∧ 2 * (ctCounts A L L).2 = ((crossOutDegree A L L).map fun k => k * (k - 1)).sum := by
  refine ⟨?_, triples_eq_choose A L L⟩
  rw [ctCounts_eq_pairSums]

example : ctCounts (fun a b => a != b) [0] [1, 2, 3] = (3, 3) := by decide
example : ctCounts (fun a b => (a == 0 || b == 0) && a != b) [0] [1, 2, 3] = (0, 3) := by decide

/-! ### dense = sparse -/

/-- **`cross_transitivity_sparse` = `cross_transitivity`** on undirected networks: the
pure-Python twin, which works on positions of `node_list1 + node_list2` (offsets `N1 + …`,
guard `cross_degree[i] > 1`, conditions `A'[i,j] ∧ A'[i,k]` / `A'[j,k]`), produces the same
triangle and triple counts as the compiled kernel, for all lists in any order. -/
theorem ctSparse_eq_dense (A : Adj) (hA : Symm A) (L1 L2 : List Nat) :
    ctSparseCounts (crossOutDegree A L1 L2) A L1 L2 = ctCounts A L1 L2 := by
  rw [ctCounts_eq_pairSums]
  unfold ctSparseCounts
  simp only []
  have hrow : ∀ (acc : Nat × Nat), ∀ i ∈ List.range L1.length,
      (if (crossOutDegree A L1 L2).getD i 0 > 1 then
        (List.range' L1.length L2.length).foldl (fun acc j =>
          (List.range' L1.length (j - L1.length)).foldl (fun acc k =>
            if catAdj A L1 L2 i j && catAdj A L1 L2 i k then
              (if catAdj A L1 L2 j k then acc.1 + 1 else acc.1, acc.2 + 1)
            else acc) acc) acc
       else acc)
      = (acc.1 + (fun i => pairSum (fun n2 n3 =>
              b2n (A (L1.getD i 0) n2 && (A n2 n3 && A n3 (L1.getD i 0)))) L2) i,
         acc.2 + (fun i => pairSum (fun n2 n3 =>
              b2n (A (L1.getD i 0) n2 && A (L1.getD i 0) n3)) L2) i) := by
    intro acc i hi
    have hi' : i < L1.length := List.mem_range.mp hi
    have hdeg : (crossOutDegree A L1 L2).getD i 0
        = (L2.map fun x => b2n (A (L1.getD i 0) x)).sum := by
      simp [crossOutDegree, rowSums, blockN, block, List.getD_eq_getElem?_getD, hi',
        Function.comp_def]
    have htri : pairSum (fun y x => b2n ((A (L1.getD i 0) y && A (L1.getD i 0) x) && A y x)) L2
        = pairSum (fun n2 n3 => b2n (A (L1.getD i 0) n2 && (A n2 n3 && A n3 (L1.getD i 0)))) L2 := by
      apply pairSum_congr
      intro a b
      rw [hA b (L1.getD i 0)]
      cases A (L1.getD i 0) a <;> cases A (L1.getD i 0) b <;> cases A a b <;> rfl
    split
    · rw [sparse_row A L1 L2 i hi', htri]
    · rename_i hle
      rw [hdeg] at hle
      have hboth := pairSum_both (fun x => A (L1.getD i 0) x) L2
      have hz : pairSum (fun n2 n3 => b2n (A (L1.getD i 0) n2 && A (L1.getD i 0) n3)) L2 = 0 := by
        have : (L2.map fun x => b2n (A (L1.getD i 0) x)).sum
            * ((L2.map fun x => b2n (A (L1.getD i 0) x)).sum - 1) = 0 := by
          generalize (L2.map fun x => b2n (A (L1.getD i 0) x)).sum = c at hle
          have : c = 0 ∨ c = 1 := by omega
          rcases this with h | h <;> simp [h]
        simp only [this] at hboth
        omega
      have hle2 : pairSum (fun n2 n3 =>
            b2n (A (L1.getD i 0) n2 && (A n2 n3 && A n3 (L1.getD i 0)))) L2
          ≤ pairSum (fun n2 n3 => b2n (A (L1.getD i 0) n2 && A (L1.getD i 0) n3)) L2 := by
        apply pairSum_le
        intro a b
        rw [hA b (L1.getD i 0)]
        simp only [b2n]
        cases A (L1.getD i 0) a <;> cases A a b <;> cases A (L1.getD i 0) b <;> simp
      simp only [hz] at hle2 ⊢
      have : pairSum (fun n2 n3 =>
            b2n (A (L1.getD i 0) n2 && (A n2 n3 && A n3 (L1.getD i 0)))) L2 = 0 := by omega
      rw [this]
      rfl
  rw [foldl_congr_mem _ _ _ _ hrow, foldl_pair_add_nat]
  have e := map_getD_range L1
  simp only [Nat.zero_add]
  conv_rhs => rw [← e]
  simp [List.map_map, Function.comp_def]

/-- hence the two methods return the same number on undirected networks -/
theorem crossTransitivitySparse_eq (A : Adj) (hA : Symm A) (L1 L2 : List Nat) :
    crossTransitivitySparse false A L1 L2 = crossTransitivity A L1 L2 := by
  simp [crossTransitivitySparse, crossTransitivity, crossDegree, ctSparse_eq_dense A hA]

example : ctSparseCounts (crossOutDegree (fun a b => a != b) [0] [1, 2, 3])
    (fun a b => a != b) [0] [1, 2, 3] = (3, 3) := by decide

/-- **`cross_local_clustering_sparse` = `cross_local_clustering`** (no symmetry needed: both
test `A[n1,n2] ∧ A[n2,n3] ∧ A[n3,n1]`): the positional loops with offset `N1`, the counter reset
and the `norm ≠ 0` guard reproduce the kernel's result entry by entry, in any list order. -/
theorem clcSparse_eq_dense (directed : Bool) (A : Adj) (L1 L2 : List Nat) :
    clcSparse directed A L1 L2 = crossLocalClustering directed A L1 L2 := by
  unfold clcSparse crossLocalClustering clcKernel
  have hlen : (clcNorm (crossDegree directed A L1 L2)).length = L1.length := by
    unfold clcNorm crossDegree crossInDegree crossOutDegree rowSums colSums blockN block
    split
    · simp
      have : ∀ (M : List (List Nat)) (acc : List Nat), (∀ r ∈ M, r.length = acc.length) →
          (M.foldl (fun acc r => List.zipWith (· + ·) acc r) acc).length = acc.length := by
        intro M
        induction M with
        | nil => simp
        | cons r t ih =>
          intro acc h
          rw [List.foldl_cons, ih]
          · simp [h r (by simp)]
          · intro r' hr'
            simp [h r (by simp), h r' (by simp [hr'])]
      rw [this]
      · simp
      · intro r hr
        simp only [List.mem_map] at hr
        obtain ⟨a, _, rfl⟩ := hr
        simp
    · simp
  apply List.ext_getElem
  · simp [hlen]
  · intro i h1 h2
    simp only [List.length_map, List.length_range] at h1
    simp only [List.getElem_map, List.getElem_range, List.getElem_zipWith]
    have hn : (clcNorm (crossDegree directed A L1 L2)).getD i 0
        = (clcNorm (crossDegree directed A L1 L2))[i]'(by omega) := by
      simp [List.getD_eq_getElem?_getD, hlen, h1]
    rw [hn]
    split
    · rw [sparse_clc_row A L1 L2 i h1, clcCount_eq_pairSum]
      have : L1.getD i 0 = L1[i] := by simp [List.getD_eq_getElem?_getD, h1]
      rw [this]
      congr 2
      apply pairSum_congr
      intro a b
      simp [Bool.and_assoc]
    · rfl

/-! ### n.s.i. kernels = published double sums -/

/-- **kernel = definition** (`_nsi_cross_local_clustering`): for a symmetric extended adjacency
`A⁺` with unit diagonal, the loop `p`, `q > p` with the factor 2 returns
`Σ_{p,q ∈ L2} A⁺[v,p] A⁺[p,q] A⁺[q,v] w_p w_q` (all ordered pairs, diagonal included). -/
theorem nsiClc_eq_def (Ap : Adj) (hs : Symm Ap) (hd : ∀ p, Ap p p = true) (w : Nat → Rat)
    (v : Nat) (L2 : List Nat) :
    nsiClcMid Ap w v L2 0
      = (L2.map fun p => (L2.map fun q =>
          if Ap v p && (Ap p q && Ap q v) then w p * w q else 0).sum).sum := by
  rw [nsiClcMid_eq]
  have hsym : ∀ a b, (fun p q => if Ap v p && (Ap p q && Ap q v) then w p * w q else (0 : Rat)) a b
      = (fun p q => if Ap v p && (Ap p q && Ap q v) then w p * w q else (0 : Rat)) b a := by
    intro a b
    simp only
    rw [hs a b, hs b v, hs v a]
    cases Ap a v <;> cases Ap b a <;> cases Ap v b <;> simp [mul_comm]
  rw [double_sum_symm _ hsym]
  have e1 : (L2.map fun p => if Ap v p then w p * w p else 0)
      = L2.map fun a => if Ap v a && (Ap a a && Ap a v) then w a * w a else 0 := by
    apply List.map_congr_left
    intro a _
    rw [hd a, hs a v]
    cases Ap v a <;> simp
  have e2 : pairSum (gClc Ap w v) L2
      = pairSum (fun p q => if Ap v p && (Ap p q && Ap q v) then w p * w q else (0 : Rat)) L2 := by
    apply pairSum_congr
    intro a b
    simp only [gClc]
    rw [hs b a, hs a v, hs v b]
    cases Ap a b <;> cases Ap v a <;> cases Ap b v <;> simp [mul_comm]
  rw [e1, e2]
  ring

/-- **kernel = definition** (`_nsi_cross_transitivity`):
`T1 = Σ_v w_v Σ_{p,q} A⁺[v,p] A⁺[v,q] A⁺[p,q] w_p w_q` and
`T2 = Σ_v w_v (k*_v)²` with `k*_v = Σ_p A⁺[v,p] w_p` the n.s.i. cross degree. -/
theorem nsiCt_eq_def (Ap : Adj) (hs : Symm Ap) (hd : ∀ p, Ap p p = true) (w : Nat → Rat)
    (L1 L2 : List Nat) :
    nsiCtSums Ap w L1 L2
      = ((L1.map fun v => w v * (L2.map fun p => (L2.map fun q =>
            if Ap v p && (Ap v q && Ap p q) then w p * w q else 0).sum).sum).sum,
         (L1.map fun v => w v * ((L2.map fun p => if Ap v p then w p else 0).sum
            * (L2.map fun p => if Ap v p then w p else 0).sum)).sum) := by
  unfold nsiCtSums
  simp only [nsiCtMid_eq]
  rw [foldl_pair_add]
  have h1 : ∀ v, (L2.map fun p => if Ap v p then w p * w p else 0).sum
        + 2 * pairSum (gT1 Ap w v) L2
      = (L2.map fun p => (L2.map fun q =>
            if Ap v p && (Ap v q && Ap p q) then w p * w q else 0).sum).sum := by
    intro v
    have hsym : ∀ a b,
        (fun p q => if Ap v p && (Ap v q && Ap p q) then w p * w q else (0 : Rat)) a b
        = (fun p q => if Ap v p && (Ap v q && Ap p q) then w p * w q else (0 : Rat)) b a := by
      intro a b
      simp only
      rw [hs a b]
      cases Ap v a <;> cases Ap v b <;> cases Ap b a <;> simp [mul_comm]
    rw [double_sum_symm _ hsym]
    have e1 : (L2.map fun p => if Ap v p then w p * w p else 0)
        = L2.map fun a => if Ap v a && (Ap v a && Ap a a) then w a * w a else 0 := by
      apply List.map_congr_left
      intro a _
      rw [hd a]
      cases Ap v a <;> simp
    have e2 : pairSum (gT1 Ap w v) L2
        = pairSum (fun p q => if Ap v p && (Ap v q && Ap p q) then w p * w q else (0 : Rat)) L2 := by
      apply pairSum_congr
      intro a b
      simp only [gT1]
      rw [hs b a]
      cases Ap v a <;> cases Ap v b <;> cases Ap a b <;> simp [mul_comm]
    rw [e1, e2]
  have h2 : ∀ v, (L2.map fun p => if Ap v p then w p * w p else 0).sum
        + 2 * pairSum (gT2 Ap w v) L2
      = (L2.map fun p => if Ap v p then w p else 0).sum
          * (L2.map fun p => if Ap v p then w p else 0).sum := by
    intro v
    rw [sum_mul_sum]
    have hsym : ∀ a b,
        (fun p q => (if Ap v p then w p else 0) * (if Ap v q then w q else (0 : Rat))) a b
        = (fun p q => (if Ap v p then w p else 0) * (if Ap v q then w q else (0 : Rat))) b a := by
      intro a b
      simp only
      ring
    rw [double_sum_symm _ hsym]
    have e1 : (L2.map fun p => if Ap v p then w p * w p else 0)
        = L2.map fun a => (if Ap v a then w a else 0) * (if Ap v a then w a else (0 : Rat)) := by
      apply List.map_congr_left
      intro a _
      cases Ap v a <;> simp
    have e2 : pairSum (gT2 Ap w v) L2
        = pairSum (fun p q => (if Ap v p then w p else 0)
            * (if Ap v q then w q else (0 : Rat))) L2 := by
      apply pairSum_congr
      intro a b
      simp only [gT2]
      cases Ap v a <;> cases Ap v b <;> simp [mul_comm]
    rw [e1, e2]
  simp only [h1, h2]
  simp

/-- the `k*_v` of `nsiCt_eq_def` is the `nsi_cross_degree` entry of `v` -/
theorem nsiCrossDegree_eq (A : Adj) (w : Nat → Rat) (L1 L2 : List Nat) :
    nsiCrossDegree A w L1 L2
      = L1.map fun v => (L2.map fun p => if aplus A v p then w p else 0).sum := rfl

theorem aplus_symm (A : Adj) (hA : Symm A) : Symm (aplus A) := by
  intro a b
  simp only [aplus]
  rw [hA a b]
  have : (a == b) = (b == a) := by
    by_cases h : a = b
    · subst h; rfl
    · have h' : ¬ b = a := fun e => h e.symm
      simp [h, h']
  rw [this]

theorem aplus_diag (A : Adj) (p : Nat) : aplus A p p = true := by simp [aplus]

/-! ### measures symmetric in the two groups (undirected networks) -/

/-- `number_cross_links(L1, L2) = number_cross_links(L2, L1)` -/
theorem numberCrossLinks_symm (A : Adj) (hA : Symm A) (L1 L2 : List Nat) :
    numberCrossLinks A L1 L2 = numberCrossLinks A L2 L1 := by
  simp only [numberCrossLinks, rowSums, blockN, block, List.map_map, Function.comp_def]
  rw [sum_comm_lists]
  congr 1
  apply List.map_congr_left
  intro b _
  congr 1
  apply List.map_congr_left
  intro a _
  rw [hA a b]

/-- `cross_link_density` is symmetric in the groups -/
theorem crossLinkDensity_symm (A : Adj) (hA : Symm A) (L1 L2 : List Nat) :
    crossLinkDensity A L1 L2 = crossLinkDensity A L2 L1 := by
  simp only [crossLinkDensity, numberCrossLinks_symm A hA L1 L2, Nat.mul_comm L1.length]

theorem countNone_swap (D : Dist) (hD : Symm D) (L1 L2 : List Nat) :
    countNone (block D L1 L2) = countNone (block D L2 L1) := by
  have h : ∀ (M1 M2 : List Nat), countNone (block D M1 M2)
      = (M1.map fun a => (M2.map fun b => if (D a b).isNone then 1 else 0).sum).sum := by
    intro M1 M2
    simp only [countNone, block, List.map_map, Function.comp_def]
    congr 1
    apply List.map_congr_left
    intro a _
    induction M2 with
    | nil => simp
    | cons b t ih =>
      simp only [List.map_cons, List.filter_cons, List.sum_cons]
      cases h : (D a b).isNone <;> simp [ih] <;> omega
  rw [h, h, sum_comm_lists]
  congr 1
  apply List.map_congr_left
  intro b _
  congr 1
  apply List.map_congr_left
  intro a _
  rw [hD a b]

theorem sumFinite_swap (D : Dist) (hD : Symm D) (L1 L2 : List Nat) :
    sumFinite (block D L1 L2) = sumFinite (block D L2 L1) := by
  simp only [sumFinite, block, List.map_map, Function.comp_def]
  rw [sum_comm_lists]
  congr 1
  apply List.map_congr_left
  intro b _
  congr 1
  apply List.map_congr_left
  intro a _
  rw [hD a b]

/-- `cross_average_path_length` is symmetric in the groups when path lengths are symmetric -/
theorem crossAPL_symm (D : Dist) (hD : Symm D) (L1 L2 : List Nat) :
    crossAPL D L1 L2 = crossAPL D L2 L1 := by
  simp only [crossAPL, generalAPL, countNone_swap D hD L1 L2, sumFinite_swap D hD L1 L2]
  have : (L1.length : Int) * L2.length = (L2.length : Int) * L1.length := by ring
  simp [this]

/-- `nsi_cross_edge_density` is symmetric in the groups: both orders are
`Σ_{v∈L1} Σ_{q∈L2} w_v A⁺[v,q] w_q / (W_1 W_2)`. -/
theorem nsiCrossEdgeDensity_eq (A : Adj) (w : Nat → Rat) (L1 L2 : List Nat)
    (h1 : wsum w L1 ≠ 0) (h2 : wsum w L2 ≠ 0) :
    nsiCrossEdgeDensity A w L1 L2
      = some ((L1.map fun v => (L2.map fun q => if aplus A v q then w v * w q else 0).sum).sum
          / (wsum w L1 * wsum w L2)) := by
  simp only [nsiCrossEdgeDensity, nsiCrossMeanDegree, h1, h2, if_false]
  congr 1
  rw [div_div]
  congr 1
  simp only [nsiCrossDegree]
  clear h1
  induction L1 with
  | nil => simp
  | cons v t ih =>
    simp only [List.map_cons, List.zipWith_cons_cons, List.sum_cons, ih]
    congr 1
    rw [mul_comm, ← sum_map_mul_left]
    congr 1
    apply List.map_congr_left
    intro q _
    split <;> ring

theorem nsiCrossEdgeDensity_symm (A : Adj) (hA : Symm A) (w : Nat → Rat) (L1 L2 : List Nat)
    (h1 : wsum w L1 ≠ 0) (h2 : wsum w L2 ≠ 0) :
    nsiCrossEdgeDensity A w L1 L2 = nsiCrossEdgeDensity A w L2 L1 := by
  rw [nsiCrossEdgeDensity_eq A w L1 L2 h1 h2, nsiCrossEdgeDensity_eq A w L2 L1 h2 h1,
    sum_comm_lists, mul_comm (wsum w L1)]
  congr 3
  apply List.map_congr_left
  intro b _
  congr 1
  apply List.map_congr_left
  intro a _
  rw [aplus_symm A hA a b, mul_comm]

/-! ### `nsi_cross_average_path_length`: what the pinned code satisfies and what it does not -/

/-- the documented quantity `Σ_{v,q} w_v w_q d*_{vq} / (W_1 W_2)` (all pairs reachable) -/
def nsiCrossAPLDef (N : Nat) (D : Dist) (w : Nat → Rat) (L1 L2 : List Nat) : Rat :=
  (L1.map fun a => (L2.map fun b => nsiDist N D a b * w b).sum * w a).sum
    / (wsum w L1 * wsum w L2)

/-- if every pair between the groups is reachable and the groups have equal total weight, the
code returns the documented value … -/
theorem nsiCrossAPL_eq_def_of_equal_weights (N : Nat) (D : Dist) (w : Nat → Rat)
    (L1 L2 : List Nat) (hreach : ∀ a ∈ L1, ∀ b ∈ L2, (D a b).isNone = false)
    (hW : wsum w L1 = wsum w L2) (hne : wsum w L1 ≠ 0) :
    nsiCrossAPL N D w L1 L2 = some (nsiCrossAPLDef N D w L1 L2) := by
  have hz : (L1.map fun a => (L2.map fun b =>
      if (D a b).isNone then w a + w b else 0).sum).sum = 0 := by
    apply List.sum_eq_zero
    intro x hx
    simp only [List.mem_map] at hx
    obtain ⟨a, ha, rfl⟩ := hx
    apply List.sum_eq_zero
    intro y hy
    simp only [List.mem_map] at hy
    obtain ⟨b, hb, rfl⟩ := hy
    simp [hreach a ha b hb]
  simp only [nsiCrossAPL, nsiCrossAPLParts, nsiCrossAPLDef, hz, sub_zero]
  have : wsum w L1 * wsum w L1 ≠ 0 := mul_ne_zero hne hne
  simp only [this, if_false, ← hW]

/-- … **but not in general** (known finding `C11-nsi-cross-apl-weights`): two linked nodes of
weights 1 and 2 have n.s.i. cross average path length 1; the code's `W_i·W_i` gives 2. -/
theorem nsiCrossAPL_ne_def :
    ∃ (N : Nat) (D : Dist) (w : Nat → Rat) (L1 L2 : List Nat),
      (∀ a ∈ L1, ∀ b ∈ L2, (D a b).isNone = false) ∧
      nsiCrossAPL N D w L1 L2 ≠ some (nsiCrossAPLDef N D w L1 L2) := by
  refine ⟨2, fun a b => some (if a = b then 0 else 1), fun a => if a = 0 then 1 else 2,
    [0], [1], by simp, ?_⟩
  simp [nsiCrossAPL, nsiCrossAPLParts, nsiCrossAPLDef, wsum, nsiDist]

end Pyunicorn.Cross
