import Pyunicorn.Lemmas.CrossNsiWhole
import Pyunicorn.Lemmas.CrossR4
import Pyunicorn.Lemmas.CrossBetw
import Pyunicorn.Lemmas.NetBetwKernel
import Pyunicorn.Lemmas.CrossBetwSymm
import Pyunicorn.Lemmas.CrossCCN
import Pyunicorn.Model.CrossISRN
import Mathlib.Algebra.Order.BigOperators.Group.List
import Pyunicorn.Generated.ArithC11
import Pyunicorn.Generated.StructC11
/-!
# C11 — cross / internal measures of interacting networks match sub-blocks

Statements about the model `Pyunicorn.Cross` (`Model/Cross.lean`) of
`core/interacting_networks.py` and of the four kernels of `core/_ext/numerics.pyx:200-310`.
The model is tied to the code by the kernel-boundary and method-level correspondence of
`harness/c11.py`.

Vocabulary: `pairSum f L = Σ_{k<j} f L[j] L[k]` (sum over unordered pairs of positions),
`block M L1 L2 = M[L1,:][:,L2]`, `Symm A` = undirected network.
-/
namespace Pyunicorn.Cross

/-- undirected network / symmetric matrix -/
def Symm {α : Type} (A : Nat → Nat → α) : Prop := ∀ a b, A a b = A b a

/-! ### sub-blocks -/

/-- **sub-blocks respect the caller's list order**: entry `[i][j]` of the block is
`M[L1[i], L2[j]]`, for arbitrary (unsorted, even repeating) lists. -/
theorem block_respects_order {α : Type} (M : Nat → Nat → α) (L1 L2 : List Nat) (i j : Nat)
    (hi : i < L1.length) (hj : j < L2.length) :
    ((block M L1 L2)[i]?.bind (·[j]?)) = some (M L1[i] L2[j]) := by
  simp [block, hi, hj]

example : block (fun a b => 10 * a + b) [2, 0] [1, 3, 0] = [[21, 23, 20], [1, 3, 0]] := by decide

/-- `np.sum(·, axis=0)` of the block `[L2, L1]` is, per node of `L1`, the number of links
*from* `L2`: `cross_indegree` is the in-degree by definition. -/
theorem crossInDegree_eq (A : Adj) (L1 L2 : List Nat) :
    crossInDegree A L1 L2 = L1.map fun a => (L2.map fun b => b2n (A b a)).sum := by
  unfold crossInDegree colSums blockN block
  have key : ∀ (acc : List Nat) (f : Nat → Nat → Nat), acc.length = L1.length →
      List.foldl (fun acc r => List.zipWith (· + ·) acc r) acc
          (L2.map fun a => L1.map fun b => f a b)
        = (List.range L1.length).map fun i =>
            acc.getD i 0 + (L2.map fun b => f b (L1.getD i 0)).sum := by
    intro acc f
    induction L2 generalizing acc with
    | nil =>
      intro h
      apply List.ext_getElem
      · simp [h]
      · intro i h1 h2
        simp only [List.map_nil, List.foldl_nil] at h1
        simp [List.getD_eq_getElem?_getD, List.getElem?_eq_getElem h1]
    | cons b t ih =>
      intro h
      rw [List.map_cons, List.foldl_cons, ih _ (by simp [h])]
      apply List.map_congr_left
      intro i hi
      have hi' : i < L1.length := List.mem_range.mp hi
      simp only [List.map_cons, List.sum_cons]
      have : (List.zipWith (· + ·) acc (L1.map fun b_1 => f b b_1)).getD i 0
          = acc.getD i 0 + f b (L1.getD i 0) := by
        simp [List.getD_eq_getElem?_getD, hi', h]
      omega
  rw [key _ _ (by simp)]
  apply List.ext_getElem
  · simp
  · intro i h1 h2
    simp at h1
    simp [h1]

example : crossInDegree (fun a b => a == 0 && b == 1) [1, 2] [0] = [1, 0] := by decide

/-! ### `_cross_transitivity` / `_cross_local_clustering`: loops = sums over unordered pairs -/

/-- **kernel = definition** (`_cross_transitivity`): the triple loop `i`, `j`, `k < j` counts,
over the nodes `n1` of group 1 and the unordered pairs `{n2, n3}` of group 2,
`triangles = #{A[n1,n2] ∧ A[n2,n3] ∧ A[n3,n1]}` and `triples = #{A[n1,n2] ∧ A[n1,n3]}`. -/
theorem ctCounts_eq_pairSums (A : Adj) (L1 L2 : List Nat) :
    ctCounts A L1 L2
      = ((L1.map fun n1 => pairSum (fun n2 n3 => b2n (A n1 n2 && (A n2 n3 && A n3 n1))) L2).sum,
         (L1.map fun n1 => pairSum (fun n2 n3 => b2n (A n1 n2 && A n1 n3)) L2).sum) := by
  unfold ctCounts
  have h : ∀ (acc : Nat × Nat) (n1 : Nat), ctMid A n1 [] L2 acc
      = (acc.1 + pairSum (fun n2 n3 => b2n (A n1 n2 && (A n2 n3 && A n3 n1))) L2,
         acc.2 + pairSum (fun n2 n3 => b2n (A n1 n2 && A n1 n3)) L2) := by
    intro acc n1
    rw [ctMid_eq, crossSum_nil_right, crossSum_nil_right]
    have e1 : pairSum (triG A n1) L2
        = pairSum (fun n2 n3 => b2n (A n1 n2 && (A n2 n3 && A n3 n1))) L2 := by
      apply pairSum_congr
      intro a b
      simp only [triG, triInd, b2n]
      cases A n1 a <;> simp
    have e2 : pairSum (trpG A n1) L2 = pairSum (fun n2 n3 => b2n (A n1 n2 && A n1 n3)) L2 := by
      apply pairSum_congr
      intro a b
      simp only [trpG, trpInd, b2n]
      cases A n1 a <;> simp
    rw [e1, e2]
    simp
  simp only [h]
  have := foldl_pair_add_nat L1
    (fun n1 => pairSum (fun n2 n3 => b2n (A n1 n2 && (A n2 n3 && A n3 n1))) L2)
    (fun n1 => pairSum (fun n2 n3 => b2n (A n1 n2 && A n1 n3)) L2) (0, 0)
  simpa using this

/-- **kernel = definition** (`_cross_local_clustering`): the counter of node `n1` is the number
of unordered pairs `{n2, n3}` of group 2 with `A[n1,n2] ∧ A[n2,n3] ∧ A[n3,n1]`. -/
theorem clcCount_eq_pairSum (A : Adj) (n1 : Nat) (L2 : List Nat) :
    clcMid A n1 [] L2 0
      = pairSum (fun n2 n3 => b2n (A n1 n2 && (A n2 n3 && A n3 n1))) L2 := by
  rw [clcMid_eq, crossSum_nil_right]
  simp only [Nat.zero_add, Nat.add_zero]
  apply pairSum_congr
  intro a b
  simp only [triG, triInd, b2n]
  cases A n1 a <;> simp

/-- **triples = C(k, 2)**: twice the triple count is `Σ_i k_i (k_i - 1)` with `k = cross_outdegree`,
i.e. the kernel's denominator is the one `cross_local_clustering` builds from `cross_degree`
(`norm = k (k - 1) / 2`), for every list order. -/
theorem triples_eq_choose (A : Adj) (L1 L2 : List Nat) :
    2 * (ctCounts A L1 L2).2 = ((crossOutDegree A L1 L2).map fun k => k * (k - 1)).sum := by
  rw [ctCounts_eq_pairSums]
  simp only [crossOutDegree, rowSums, blockN, block, List.map_map]
  induction L1 with
  | nil => simp
  | cons n1 t ih =>
    simp only [List.map_cons, List.sum_cons, Nat.mul_add, ih]
    congr 1
    have := pairSum_both (fun x => A n1 x) L2
    simpa [Function.comp_def] using this

/-- on an undirected network every counted triangle is a counted triple:
`cross_transitivity ≤ 1` and each `cross_local_clustering` entry is `≤ 1`. -/
theorem triangles_le_triples (A : Adj) (hA : Symm A) (L1 L2 : List Nat) :
    (ctCounts A L1 L2).1 ≤ (ctCounts A L1 L2).2 := by
  rw [ctCounts_eq_pairSums]
  simp only
  induction L1 with
  | nil => simp
  | cons n1 t ih =>
    simp only [List.map_cons, List.sum_cons]
    have : pairSum (fun n2 n3 => b2n (A n1 n2 && (A n2 n3 && A n3 n1))) L2
        ≤ pairSum (fun n2 n3 => b2n (A n1 n2 && A n1 n3)) L2 := by
      apply pairSum_le
      intro a b
      rw [hA b n1]
      simp only [b2n]
      cases A n1 a <;> cases A a b <;> cases A n1 b <;> simp
    omega

/-- **both groups = all nodes** (in any order `L`): `cross_transitivity(L, L)` is Newman's
transitivity `Σ_i t_i / Σ_i C(k_i, 2)` with `t_i` = number of linked pairs of neighbours. -/
theorem whole_network_transitivity (A : Adj) (L : List Nat) :
    (ctCounts A L L).1
        = (L.map fun i => pairSum (fun j k => b2n (A i j && (A j k && A k i))) L).sum
      ∧ 2 * (ctCounts A L L).2 = ((crossOutDegree A L L).map fun k => k * (k - 1)).sum := by
  refine ⟨?_, triples_eq_choose A L L⟩
  rw [ctCounts_eq_pairSums]

example : ctCounts (fun a b => a != b) [0] [1, 2, 3] = (3, 3) := by decide
example : ctCounts (fun a b => (a == 0 || b == 0) && a != b) [0] [1, 2, 3] = (0, 3) := by decide

/-! ### dense = sparse -/

/-- **`cross_transitivity_sparse` = `cross_transitivity`** on undirected networks: the
pure-Python twin, which works on positions of `node_list1 + node_list2` (offsets `N1 + …`,
guard `cross_degree[i] > 1`, conditions `A'[i,j] ∧ A'[i,k]` / `A'[j,k]`), produces the same
triangle and triple counts as the compiled kernel, for all lists in any order. -/
theorem ctSparse_eq_dense (A : Adj) (hA : Symm A) (L1 L2 : List Nat) :
    ctSparseCounts (crossOutDegree A L1 L2) A L1 L2 = ctCounts A L1 L2 := by
  rw [ctCounts_eq_pairSums]
  unfold ctSparseCounts
  simp only []
  have hrow : ∀ (acc : Nat × Nat), ∀ i ∈ List.range L1.length,
      (if (crossOutDegree A L1 L2).getD i 0 > 1 then
        (List.range' L1.length L2.length).foldl (fun acc j =>
          (List.range' L1.length (j - L1.length)).foldl (fun acc k =>
            if catAdj A L1 L2 i j && catAdj A L1 L2 i k then
              (if catAdj A L1 L2 j k then acc.1 + 1 else acc.1, acc.2 + 1)
            else acc) acc) acc
       else acc)
      = (acc.1 + (fun i => pairSum (fun n2 n3 =>
              b2n (A (L1.getD i 0) n2 && (A n2 n3 && A n3 (L1.getD i 0)))) L2) i,
         acc.2 + (fun i => pairSum (fun n2 n3 =>
              b2n (A (L1.getD i 0) n2 && A (L1.getD i 0) n3)) L2) i) := by
    intro acc i hi
    have hi' : i < L1.length := List.mem_range.mp hi
    have hdeg : (crossOutDegree A L1 L2).getD i 0
        = (L2.map fun x => b2n (A (L1.getD i 0) x)).sum := by
      simp [crossOutDegree, rowSums, blockN, block, List.getD_eq_getElem?_getD, hi',
        Function.comp_def]
    have htri : pairSum (fun y x => b2n ((A (L1.getD i 0) y && A (L1.getD i 0) x) && A y x)) L2
        = pairSum (fun n2 n3 => b2n (A (L1.getD i 0) n2 && (A n2 n3 && A n3 (L1.getD i 0)))) L2 := by
      apply pairSum_congr
      intro a b
      rw [hA b (L1.getD i 0)]
      cases A (L1.getD i 0) a <;> cases A (L1.getD i 0) b <;> cases A a b <;> rfl
    split
    · rw [sparse_row A L1 L2 i hi', htri]
    · rename_i hle
      rw [hdeg] at hle
      have hboth := pairSum_both (fun x => A (L1.getD i 0) x) L2
      have hz : pairSum (fun n2 n3 => b2n (A (L1.getD i 0) n2 && A (L1.getD i 0) n3)) L2 = 0 := by
        have : (L2.map fun x => b2n (A (L1.getD i 0) x)).sum
            * ((L2.map fun x => b2n (A (L1.getD i 0) x)).sum - 1) = 0 := by
          generalize (L2.map fun x => b2n (A (L1.getD i 0) x)).sum = c at hle
          have : c = 0 ∨ c = 1 := by omega
          rcases this with h | h <;> simp [h]
        simp only [this] at hboth
        omega
      have hle2 : pairSum (fun n2 n3 =>
            b2n (A (L1.getD i 0) n2 && (A n2 n3 && A n3 (L1.getD i 0)))) L2
          ≤ pairSum (fun n2 n3 => b2n (A (L1.getD i 0) n2 && A (L1.getD i 0) n3)) L2 := by
        apply pairSum_le
        intro a b
        rw [hA b (L1.getD i 0)]
        simp only [b2n]
        cases A (L1.getD i 0) a <;> cases A a b <;> cases A (L1.getD i 0) b <;> simp
      simp only [hz] at hle2 ⊢
      have : pairSum (fun n2 n3 =>
            b2n (A (L1.getD i 0) n2 && (A n2 n3 && A n3 (L1.getD i 0)))) L2 = 0 := by omega
      rw [this]
      rfl
  rw [foldl_congr_mem _ _ _ _ hrow, foldl_pair_add_nat]
  have e := map_getD_range L1
  simp only [Nat.zero_add]
  conv_rhs => rw [← e]
  simp [List.map_map, Function.comp_def]

/-- hence the two methods return the same number on undirected networks -/
theorem crossTransitivitySparse_eq (A : Adj) (hA : Symm A) (L1 L2 : List Nat) :
    crossTransitivitySparse false A L1 L2 = crossTransitivity A L1 L2 := by
  simp [crossTransitivitySparse, crossTransitivity, crossDegree, ctSparse_eq_dense A hA]

example : ctSparseCounts (crossOutDegree (fun a b => a != b) [0] [1, 2, 3])
    (fun a b => a != b) [0] [1, 2, 3] = (3, 3) := by decide

/-- **`cross_local_clustering_sparse` = `cross_local_clustering`** (no symmetry needed: both
test `A[n1,n2] ∧ A[n2,n3] ∧ A[n3,n1]`): the positional loops with offset `N1`, the counter reset
and the `norm ≠ 0` guard reproduce the kernel's result entry by entry, in any list order. -/
theorem clcSparse_eq_dense (directed : Bool) (A : Adj) (L1 L2 : List Nat) :
    clcSparse directed A L1 L2 = crossLocalClustering directed A L1 L2 := by
  unfold clcSparse crossLocalClustering clcKernel
  have hlen : (clcNorm (crossDegree directed A L1 L2)).length = L1.length := by
    unfold clcNorm crossDegree crossInDegree crossOutDegree rowSums colSums blockN block
    split
    · simp
      have : ∀ (M : List (List Nat)) (acc : List Nat), (∀ r ∈ M, r.length = acc.length) →
          (M.foldl (fun acc r => List.zipWith (· + ·) acc r) acc).length = acc.length := by
        intro M
        induction M with
        | nil => simp
        | cons r t ih =>
          intro acc h
          rw [List.foldl_cons, ih]
          · simp [h r (by simp)]
          · intro r' hr'
            simp [h r (by simp), h r' (by simp [hr'])]
      rw [this]
      · simp
      · intro r hr
        simp only [List.mem_map] at hr
        obtain ⟨a, _, rfl⟩ := hr
        simp
    · simp
  apply List.ext_getElem
  · simp [hlen]
  · intro i h1 h2
    simp only [List.length_map, List.length_range] at h1
    simp only [List.getElem_map, List.getElem_range, List.getElem_zipWith]
    have hn : (clcNorm (crossDegree directed A L1 L2)).getD i 0
        = (clcNorm (crossDegree directed A L1 L2))[i]'(by omega) := by
      simp [List.getD_eq_getElem?_getD, hlen, h1]
    rw [hn]
    split
    · rw [sparse_clc_row A L1 L2 i h1, clcCount_eq_pairSum]
      have : L1.getD i 0 = L1[i] := by simp [List.getD_eq_getElem?_getD, h1]
      rw [this]
      congr 2
      apply pairSum_congr
      intro a b
      simp [Bool.and_assoc]
    · rfl

/-! ### n.s.i. kernels = published double sums -/

/-- **kernel = definition** (`_nsi_cross_local_clustering`): for a symmetric extended adjacency
`A⁺` with unit diagonal, the loop `p`, `q > p` with the factor 2 returns
`Σ_{p,q ∈ L2} A⁺[v,p] A⁺[p,q] A⁺[q,v] w_p w_q` (all ordered pairs, diagonal included). -/
theorem nsiClc_eq_def (Ap : Adj) (hs : Symm Ap) (hd : ∀ p, Ap p p = true) (w : Nat → Rat)
    (v : Nat) (L2 : List Nat) :
    nsiClcMid Ap w v L2 0
      = (L2.map fun p => (L2.map fun q =>
          if Ap v p && (Ap p q && Ap q v) then w p * w q else 0).sum).sum := by
  rw [nsiClcMid_eq]
  have hsym : ∀ a b, (fun p q => if Ap v p && (Ap p q && Ap q v) then w p * w q else (0 : Rat)) a b
      = (fun p q => if Ap v p && (Ap p q && Ap q v) then w p * w q else (0 : Rat)) b a := by
    intro a b
    simp only
    rw [hs a b, hs b v, hs v a]
    cases Ap a v <;> cases Ap b a <;> cases Ap v b <;> simp [mul_comm]
  rw [double_sum_symm _ hsym]
  have e1 : (L2.map fun p => if Ap v p then w p * w p else 0)
      = L2.map fun a => if Ap v a && (Ap a a && Ap a v) then w a * w a else 0 := by
    apply List.map_congr_left
    intro a _
    rw [hd a, hs a v]
    cases Ap v a <;> simp
  have e2 : pairSum (gClc Ap w v) L2
      = pairSum (fun p q => if Ap v p && (Ap p q && Ap q v) then w p * w q else (0 : Rat)) L2 := by
    apply pairSum_congr
    intro a b
    simp only [gClc]
    rw [hs b a, hs a v, hs v b]
    cases Ap a b <;> cases Ap v a <;> cases Ap b v <;> simp [mul_comm]
  rw [e1, e2]
  ring

/-- **kernel = definition** (`_nsi_cross_transitivity`):
`T1 = Σ_v w_v Σ_{p,q} A⁺[v,p] A⁺[v,q] A⁺[p,q] w_p w_q` and
`T2 = Σ_v w_v (k*_v)²` with `k*_v = Σ_p A⁺[v,p] w_p` the n.s.i. cross degree. -/
theorem nsiCt_eq_def (Ap : Adj) (hs : Symm Ap) (hd : ∀ p, Ap p p = true) (w : Nat → Rat)
    (L1 L2 : List Nat) :
    nsiCtSums Ap w L1 L2
      = ((L1.map fun v => w v * (L2.map fun p => (L2.map fun q =>
            if Ap v p && (Ap v q && Ap p q) then w p * w q else 0).sum).sum).sum,
         (L1.map fun v => w v * ((L2.map fun p => if Ap v p then w p else 0).sum
            * (L2.map fun p => if Ap v p then w p else 0).sum)).sum) := by
  unfold nsiCtSums
  simp only [nsiCtMid_eq]
  rw [foldl_pair_add]
  have h1 : ∀ v, (L2.map fun p => if Ap v p then w p * w p else 0).sum
        + 2 * pairSum (gT1 Ap w v) L2
      = (L2.map fun p => (L2.map fun q =>
            if Ap v p && (Ap v q && Ap p q) then w p * w q else 0).sum).sum := by
    intro v
    have hsym : ∀ a b,
        (fun p q => if Ap v p && (Ap v q && Ap p q) then w p * w q else (0 : Rat)) a b
        = (fun p q => if Ap v p && (Ap v q && Ap p q) then w p * w q else (0 : Rat)) b a := by
      intro a b
      simp only
      rw [hs a b]
      cases Ap v a <;> cases Ap v b <;> cases Ap b a <;> simp [mul_comm]
    rw [double_sum_symm _ hsym]
    have e1 : (L2.map fun p => if Ap v p then w p * w p else 0)
        = L2.map fun a => if Ap v a && (Ap v a && Ap a a) then w a * w a else 0 := by
      apply List.map_congr_left
      intro a _
      rw [hd a]
      cases Ap v a <;> simp
    have e2 : pairSum (gT1 Ap w v) L2
        = pairSum (fun p q => if Ap v p && (Ap v q && Ap p q) then w p * w q else (0 : Rat)) L2 := by
      apply pairSum_congr
      intro a b
      simp only [gT1]
      rw [hs b a]
      cases Ap v a <;> cases Ap v b <;> cases Ap a b <;> simp [mul_comm]
    rw [e1, e2]
  have h2 : ∀ v, (L2.map fun p => if Ap v p then w p * w p else 0).sum
        + 2 * pairSum (gT2 Ap w v) L2
      = (L2.map fun p => if Ap v p then w p else 0).sum
          * (L2.map fun p => if Ap v p then w p else 0).sum := by
    intro v
    rw [sum_mul_sum]
    have hsym : ∀ a b,
        (fun p q => (if Ap v p then w p else 0) * (if Ap v q then w q else (0 : Rat))) a b
        = (fun p q => (if Ap v p then w p else 0) * (if Ap v q then w q else (0 : Rat))) b a := by
      intro a b
      simp only
      ring
    rw [double_sum_symm _ hsym]
    have e1 : (L2.map fun p => if Ap v p then w p * w p else 0)
        = L2.map fun a => (if Ap v a then w a else 0) * (if Ap v a then w a else (0 : Rat)) := by
      apply List.map_congr_left
      intro a _
      cases Ap v a <;> simp
    have e2 : pairSum (gT2 Ap w v) L2
        = pairSum (fun p q => (if Ap v p then w p else 0)
            * (if Ap v q then w q else (0 : Rat))) L2 := by
      apply pairSum_congr
      intro a b
      simp only [gT2]
      cases Ap v a <;> cases Ap v b <;> simp [mul_comm]
    rw [e1, e2]
  simp only [h1, h2]
  simp

/-- the `k*_v` of `nsiCt_eq_def` is the `nsi_cross_degree` entry of `v` -/
theorem nsiCrossDegree_eq (A : Adj) (w : Nat → Rat) (L1 L2 : List Nat) :
    nsiCrossDegree A w L1 L2
      = L1.map fun v => (L2.map fun p => if aplus A v p then w p else 0).sum := rfl

theorem aplus_symm (A : Adj) (hA : Symm A) : Symm (aplus A) := by
  intro a b
  simp only [aplus]
  rw [hA a b]
  have : (a == b) = (b == a) := by
    by_cases h : a = b
    · subst h; rfl
    · have h' : ¬ b = a := fun e => h e.symm
      simp [h, h']
  rw [this]

theorem aplus_diag (A : Adj) (p : Nat) : aplus A p p = true := by simp [aplus]

/-! ### measures symmetric in the two groups (undirected networks) -/

/-- `number_cross_links(L1, L2) = number_cross_links(L2, L1)` -/
theorem numberCrossLinks_symm (A : Adj) (hA : Symm A) (L1 L2 : List Nat) :
    numberCrossLinks A L1 L2 = numberCrossLinks A L2 L1 := by
  simp only [numberCrossLinks, rowSums, blockN, block, List.map_map, Function.comp_def]
  rw [sum_comm_lists]
  congr 1
  apply List.map_congr_left
  intro b _
  congr 1
  apply List.map_congr_left
  intro a _
  rw [hA a b]

/-- `cross_link_density` is symmetric in the groups -/
theorem crossLinkDensity_symm (A : Adj) (hA : Symm A) (L1 L2 : List Nat) :
    crossLinkDensity A L1 L2 = crossLinkDensity A L2 L1 := by
  simp only [crossLinkDensity, numberCrossLinks_symm A hA L1 L2, Nat.mul_comm L1.length]

theorem countNone_swap (D : Dist) (hD : Symm D) (L1 L2 : List Nat) :
    countNone (block D L1 L2) = countNone (block D L2 L1) := by
  have h : ∀ (M1 M2 : List Nat), countNone (block D M1 M2)
      = (M1.map fun a => (M2.map fun b => if (D a b).isNone then 1 else 0).sum).sum := by
    intro M1 M2
    simp only [countNone, block, List.map_map, Function.comp_def]
    congr 1
    apply List.map_congr_left
    intro a _
    induction M2 with
    | nil => simp
    | cons b t ih =>
      simp only [List.map_cons, List.filter_cons, List.sum_cons]
      cases h : (D a b).isNone <;> simp [ih] <;> omega
  rw [h, h, sum_comm_lists]
  congr 1
  apply List.map_congr_left
  intro b _
  congr 1
  apply List.map_congr_left
  intro a _
  rw [hD a b]

theorem sumFinite_swap (D : Dist) (hD : Symm D) (L1 L2 : List Nat) :
    sumFinite (block D L1 L2) = sumFinite (block D L2 L1) := by
  simp only [sumFinite, block, List.map_map, Function.comp_def]
  rw [sum_comm_lists]
  congr 1
  apply List.map_congr_left
  intro b _
  congr 1
  apply List.map_congr_left
  intro a _
  rw [hD a b]

/-- `cross_average_path_length` is symmetric in the groups when path lengths are symmetric -/
theorem crossAPL_symm (D : Dist) (hD : Symm D) (L1 L2 : List Nat) :
    crossAPL D L1 L2 = crossAPL D L2 L1 := by
  simp only [crossAPL, generalAPL, countNone_swap D hD L1 L2, sumFinite_swap D hD L1 L2]
  have : (L1.length : Int) * L2.length = (L2.length : Int) * L1.length := by ring
  simp [this]

/-- `nsi_cross_edge_density` is symmetric in the groups: both orders are
`Σ_{v∈L1} Σ_{q∈L2} w_v A⁺[v,q] w_q / (W_1 W_2)`. -/
theorem nsiCrossEdgeDensity_eq (A : Adj) (w : Nat → Rat) (L1 L2 : List Nat)
    (h1 : wsum w L1 ≠ 0) (h2 : wsum w L2 ≠ 0) :
    nsiCrossEdgeDensity A w L1 L2
      = some ((L1.map fun v => (L2.map fun q => if aplus A v q then w v * w q else 0).sum).sum
          / (wsum w L1 * wsum w L2)) := by
  simp only [nsiCrossEdgeDensity, nsiCrossMeanDegree, h1, h2, if_false]
  congr 1
  rw [div_div]
  congr 1
  simp only [nsiCrossDegree]
  clear h1
  induction L1 with
  | nil => simp
  | cons v t ih =>
    simp only [List.map_cons, List.zipWith_cons_cons, List.sum_cons, ih]
    congr 1
    rw [mul_comm, ← sum_map_mul_left]
    congr 1
    apply List.map_congr_left
    intro q _
    split <;> ring

theorem nsiCrossEdgeDensity_symm (A : Adj) (hA : Symm A) (w : Nat → Rat) (L1 L2 : List Nat)
    (h1 : wsum w L1 ≠ 0) (h2 : wsum w L2 ≠ 0) :
    nsiCrossEdgeDensity A w L1 L2 = nsiCrossEdgeDensity A w L2 L1 := by
  rw [nsiCrossEdgeDensity_eq A w L1 L2 h1 h2, nsiCrossEdgeDensity_eq A w L2 L1 h2 h1,
    sum_comm_lists, mul_comm (wsum w L1)]
  congr 3
  apply List.map_congr_left
  intro b _
  congr 1
  apply List.map_congr_left
  intro a _
  rw [aplus_symm A hA a b, mul_comm]

/-! ### `nsi_cross_average_path_length`: what the pinned code satisfies and what it does not -/

/-- the documented quantity `Σ_{v,q} w_v w_q d*_{vq} / (W_1 W_2)` (all pairs reachable) -/
def nsiCrossAPLDef (N : Nat) (D : Dist) (w : Nat → Rat) (L1 L2 : List Nat) : Rat :=
  (L1.map fun a => (L2.map fun b => nsiDist N D a b * w b).sum * w a).sum
    / (wsum w L1 * wsum w L2)

/-- if every pair between the groups is reachable and the groups have equal total weight, the
code returns the documented value … -/
theorem nsiCrossAPL_eq_def_of_equal_weights (N : Nat) (D : Dist) (w : Nat → Rat)
    (L1 L2 : List Nat) (hreach : ∀ a ∈ L1, ∀ b ∈ L2, (D a b).isNone = false)
    (hW : wsum w L1 = wsum w L2) (hne : wsum w L1 ≠ 0) :
    nsiCrossAPL N D w L1 L2 = some (nsiCrossAPLDef N D w L1 L2) := by
  have hz : (L1.map fun a => (L2.map fun b =>
      if (D a b).isNone then w a + w b else 0).sum).sum = 0 := by
    apply List.sum_eq_zero
    intro x hx
    simp only [List.mem_map] at hx
    obtain ⟨a, ha, rfl⟩ := hx
    apply List.sum_eq_zero
    intro y hy
    simp only [List.mem_map] at hy
    obtain ⟨b, hb, rfl⟩ := hy
    simp [hreach a ha b hb]
  simp only [nsiCrossAPL, nsiCrossAPLParts, nsiCrossAPLDef, hz, sub_zero]
  have : wsum w L1 * wsum w L1 ≠ 0 := mul_ne_zero hne hne
  simp only [this, if_false, ← hW]

/-- … **but not in general** (known finding `C11-nsi-cross-apl-weights`): two linked nodes of
weights 1 and 2 have n.s.i. cross average path length 1; the code's `W_i·W_i` gives 2. -/
theorem nsiCrossAPL_ne_def :
    ∃ (N : Nat) (D : Dist) (w : Nat → Rat) (L1 L2 : List Nat),
      (∀ a ∈ L1, ∀ b ∈ L2, (D a b).isNone = false) ∧
      nsiCrossAPL N D w L1 L2 ≠ some (nsiCrossAPLDef N D w L1 L2) := by
  refine ⟨2, fun a b => some (if a = b then 0 else 1), fun a => if a = 0 then 1 else 2,
    [0], [1], by simp, ?_⟩
  simp [nsiCrossAPL, nsiCrossAPLParts, nsiCrossAPLDef, wsum, nsiDist]

/-! ## Round 2 -/

/-! ### transposed blocks: `cross_adjacency`, `cross_link_attribute`, `cross_path_lengths` for
both argument orders -/

/-- on a symmetric matrix (undirected network) the block for `(L2, L1)` is the transpose of the
block for `(L1, L2)`, entry by entry, for lists in any order -/
theorem block_swap {α : Type} (M : Nat → Nat → α) (hM : Symm M) (L1 L2 : List Nat) (i j : Nat)
    (hi : i < L1.length) (hj : j < L2.length) :
    ((block M L2 L1)[j]?.bind (·[i]?)) = ((block M L1 L2)[i]?.bind (·[j]?)) := by
  rw [block_respects_order M L2 L1 j i hj hi, block_respects_order M L1 L2 i j hi hj, hM]

example : block (fun a b => a * b) [2, 3] [5] = [[10], [15]]
    ∧ block (fun a b => a * b) [5] [2, 3] = [[10, 15]] := by decide

/-! ### path-length measures = their definitions on the block -/

/-- **`cross_average_path_length` = mean over the reachable pairs**: the code's
`sum / (N·M − #inf)` (with `inf` entries zeroed) is the arithmetic mean of the finite entries of
the block `D[L1, L2]`, and `nan` (`none`) exactly if no pair is reachable. -/
theorem crossAPL_eq_mean_finite (D : Dist) (L1 L2 : List Nat) :
    crossAPL D L1 L2 = mean (finiteEntries (block D L1 L2)) := by
  obtain ⟨h1, h2⟩ := finite_split (block D L1 L2) L2.length (block_rows D L1 L2)
  rw [block_length] at h1
  have hn : ((L1.length : Int) * L2.length - (countNone (block D L1 L2) : Int))
      = ((finiteEntries (block D L1 L2)).length : Int) := by
    have : ((finiteEntries (block D L1 L2)).length : Int) + countNone (block D L1 L2)
        = (L1.length : Int) * L2.length := by exact_mod_cast h1
    linarith
  unfold crossAPL generalAPL mean
  simp only [Bool.false_eq_true, if_false, hn, h2, Int.natCast_eq_zero, Int.cast_natCast]

example : crossAPL (fun a b => if a + b = 3 then none else some 2) [0, 1] [2, 3]
    = mean [2, 2] := by decide +kernel

/-- every group contains its own diagonal: with zero self-distances the block `D[L, L]` has at
least `|L|` finite entries -/
theorem finite_ge_diag (D : Dist) (L : List Nat) (hdiag : ∀ a ∈ L, D a a = some 0) :
    L.length ≤ (finiteEntries (block D L L)).length := by
  have key : ∀ (K : List Nat), (∀ a ∈ K, a ∈ L) →
      K.length ≤ (finiteEntries (block D K L)).length := by
    intro K
    induction K with
    | nil => intro _; simp
    | cons a t ih =>
      intro h
      have := ih (fun x hx => h x (by simp [hx]))
      have ha : a ∈ L := h a (by simp)
      have h1 : 1 ≤ (finiteOf (L.map fun b => D a b)).length := by
        have : (0 : Rat) ∈ finiteOf (L.map fun b => D a b) := by
          simp only [finiteOf, List.mem_filterMap, List.mem_map, id]
          exact ⟨some 0, ⟨a, ha, hdiag a ha⟩, rfl⟩
        exact List.length_pos_of_mem this
      simp only [finiteEntries, block, List.map_cons, List.flatten_cons, List.length_append,
        List.length_cons] at this ⊢
      omega
  exact key L (fun a h => h)

/-- **`internal_average_path_length` = mean over the reachable pairs of distinct positions**:
with zero self-distances the code's `sum / ((N−1)·N − #inf)` is the sum of the finite entries of
`D[L, L]` divided by their number *without the `N` diagonal entries* (which are finite and add
`0` to the sum), and `nan` exactly if no off-diagonal pair is reachable. -/
theorem internalAPL_eq_mean_offdiag (D : Dist) (L : List Nat) (hdiag : ∀ a ∈ L, D a a = some 0) :
    internalAPL D L
      = (let fin := finiteEntries (block D L L)
         if fin.length - L.length = 0 then none
         else some (fin.sum / ((fin.length - L.length : Nat) : Rat))) := by
  obtain ⟨h1, h2⟩ := finite_split (block D L L) L.length (block_rows D L L)
  rw [block_length] at h1
  have hge := finite_ge_diag D L hdiag
  have hn : (((L.length : Int) - 1) * L.length - (countNone (block D L L) : Int))
      = (((finiteEntries (block D L L)).length - L.length : Nat) : Int) := by
    have : ((finiteEntries (block D L L)).length : Int) + countNone (block D L L)
        = (L.length : Int) * L.length := by exact_mod_cast h1
    rw [Int.natCast_sub hge]
    linarith
  unfold internalAPL generalAPL
  simp only [if_true, hn, h2, Int.natCast_eq_zero, Int.cast_natCast]

example : internalAPL (fun a b => if a = b then some 0 else if a + b = 3 then none else some 2)
    [0, 1, 2] = some 2 := by decide +kernel

/-! ### `global_efficiency` is symmetric in the groups -/

theorem anyZero_swap (D : Dist) (hD : Symm D) (L1 L2 : List Nat) :
    (block D L1 L2).any (fun r => r.any (· == some 0))
      = (block D L2 L1).any (fun r => r.any (· == some 0)) := by
  rw [Bool.eq_iff_iff]
  simp only [block, List.any_map, List.any_eq_true, Function.comp_def]
  constructor
  · rintro ⟨a, ha, b, hb, h⟩
    exact ⟨b, hb, a, ha, by rw [hD b a]; exact h⟩
  · rintro ⟨b, hb, a, ha, h⟩
    exact ⟨a, ha, b, hb, by rw [hD a b]; exact h⟩

/-- `global_efficiency(L1, L2) = global_efficiency(L2, L1)` on undirected networks (symmetric
path lengths) for non-empty groups: both are `|L1|·|L2| / Σ_{a,b} 1/d_ab`. -/
theorem globalEfficiency_symm (D : Dist) (hD : Symm D) (L1 L2 : List Nat)
    (h1 : L1 ≠ []) (h2 : L2 ≠ []) :
    globalEfficiency D L1 L2 = globalEfficiency D L2 L1 := by
  have n1 : L1.length ≠ 0 := by simpa using h1
  have n2 : L2.length ≠ 0 := by simpa using h2
  have e : (L1.map fun a => (L2.map fun b =>
        invD (D a b)).sum / (L2.length : Rat)).sum
          / (L1.length : Rat)
      = (L2.map fun b => (L1.map fun a =>
        invD (D b a)).sum / (L1.length : Rat)).sum
          / (L2.length : Rat) := by
    rw [sum_div_const, sum_div_const, sum_comm_lists]
    have : (L2.map fun b => (L1.map fun a =>
          invD (D a b)).sum)
        = (L2.map fun b => (L1.map fun a =>
          invD (D b a)).sum) := by
      apply List.map_congr_left
      intro b _
      congr 1
      apply List.map_congr_left
      intro a _
      rw [hD a b]
    rw [this, div_div, div_div, mul_comm]
  unfold globalEfficiency localEfficiency
  simp only [n1, n2, false_or]
  rw [anyZero_swap D hD L1 L2]
  by_cases hz : ((block D L2 L1).any fun r => r.any (· == some 0)) = true
  · simp only [hz, if_true]
  · simp only [hz, if_false]
    simp only [mean, block, List.map_map, Function.comp_def, List.length_map, n1, n2,
      Bool.false_eq_true, ↓reduceIte]
    rw [e]

example : globalEfficiency (fun a b => if a = b then some 0 else some 2) [0] [1, 2] = .val 2 := by
  decide +kernel

/-! ### n.s.i. methods = published formulas (method level, no side hypotheses) -/

/-- **`nsi_cross_local_clustering` = definition** on an undirected network: entry `v` is
`Σ_{p,q∈L2} A⁺[v,p] A⁺[p,q] A⁺[q,v] w_p w_q / (k*_v)²` with `k*_v` the n.s.i. cross degree
(and `0` where `k*_v = 0`). -/
theorem nsiCrossLocalClustering_eq_def (A : Adj) (hA : Symm A) (w : Nat → Rat) (L1 L2 : List Nat) :
    nsiCrossLocalClustering A w L1 L2
      = L1.map fun v =>
          if (L2.map fun p => if aplus A v p then w p else 0).sum
              * (L2.map fun p => if aplus A v p then w p else 0).sum ≠ 0 then
            (L2.map fun p => (L2.map fun q =>
                if aplus A v p && (aplus A p q && aplus A q v) then w p * w q else 0).sum).sum
              / ((L2.map fun p => if aplus A v p then w p else 0).sum
                  * (L2.map fun p => if aplus A v p then w p else 0).sum)
          else 0 := by
  unfold nsiCrossLocalClustering nsiClcKernel nsiCrossDegree
  rw [zipWith_map_self]
  apply List.map_congr_left
  intro v _
  rw [nsiClc_eq_def (aplus A) (aplus_symm A hA) (aplus_diag A) w v L2]

/-- **`nsi_cross_transitivity` = definition** on an undirected network:
`Σ_v w_v Σ_{p,q} A⁺[v,p] A⁺[v,q] A⁺[p,q] w_p w_q / Σ_v w_v (k*_v)²`, `ZeroDivisionError` iff the
denominator vanishes. -/
theorem nsiCrossTransitivity_eq_def (A : Adj) (hA : Symm A) (w : Nat → Rat) (L1 L2 : List Nat) :
    nsiCrossTransitivity A w L1 L2
      = (let T1 := (L1.map fun v => w v * (L2.map fun p => (L2.map fun q =>
              if aplus A v p && (aplus A v q && aplus A p q) then w p * w q else 0).sum).sum).sum
         let T2 := (L1.map fun v => w v * ((L2.map fun p => if aplus A v p then w p else 0).sum
              * (L2.map fun p => if aplus A v p then w p else 0).sum)).sum
         if T2 = 0 then none else some (T1 / T2)) := by
  unfold nsiCrossTransitivity
  rw [nsiCt_eq_def (aplus A) (aplus_symm A hA) (aplus_diag A) w L1 L2]

example : nsiCrossTransitivity (fun a b => a != b) (fun _ => 1) [0] [1, 2] = some 1 := by
  decide +kernel

/-! ### the order of the second list does not matter (undirected networks) -/

/-- **`_cross_transitivity` does not depend on the order of `node_list2`**: the triangular loop
`j`, `k < j` visits every unordered pair once whatever the order, and on an undirected network
both conditions are symmetric in the pair. -/
theorem ctCounts_perm_right (A : Adj) (hA : Symm A) (L1 : List Nat) {L2 L2' : List Nat}
    (h : L2.Perm L2') : ctCounts A L1 L2 = ctCounts A L1 L2' := by
  rw [ctCounts_eq_pairSums, ctCounts_eq_pairSums]
  have e1 : ∀ n1, pairSum (fun n2 n3 => b2n (A n1 n2 && (A n2 n3 && A n3 n1))) L2
      = pairSum (fun n2 n3 => b2n (A n1 n2 && (A n2 n3 && A n3 n1))) L2' := by
    intro n1
    apply pairSum_perm _ _ h
    intro a b
    show b2n (A n1 a && (A a b && A b n1)) = b2n (A n1 b && (A b a && A a n1))
    rw [hA a b, hA b n1, hA n1 a]
    cases A a n1 <;> cases A b a <;> cases A n1 b <;> rfl
  have e2 : ∀ n1, pairSum (fun n2 n3 => b2n (A n1 n2 && A n1 n3)) L2
      = pairSum (fun n2 n3 => b2n (A n1 n2 && A n1 n3)) L2' := by
    intro n1
    apply pairSum_perm _ _ h
    intro a b
    simp only [Bool.and_comm]
  simp only [e1, e2]

/-- … and neither does `cross_local_clustering` (each entry: same counter, same cross degree) -/
theorem crossLocalClustering_perm_right (A : Adj) (hA : Symm A) (L1 : List Nat)
    {L2 L2' : List Nat} (h : L2.Perm L2') :
    crossLocalClustering false A L1 L2 = crossLocalClustering false A L1 L2' := by
  unfold crossLocalClustering clcKernel
  have hdeg : crossDegree false A L1 L2 = crossDegree false A L1 L2' := by
    simp only [crossDegree, Bool.false_eq_true, if_false, crossOutDegree, rowSums, blockN, block,
      List.map_map, Function.comp_def]
    apply List.map_congr_left
    intro a _
    exact (h.map fun b => b2n (A a b)).sum_eq
  rw [hdeg]
  have hc : ∀ n1, clcMid A n1 [] L2 0 = clcMid A n1 [] L2' 0 := by
    intro n1
    rw [clcCount_eq_pairSum, clcCount_eq_pairSum]
    apply pairSum_perm _ _ h
    intro a b
    show b2n (A n1 a && (A a b && A b n1)) = b2n (A n1 b && (A b a && A a n1))
    rw [hA a b, hA b n1, hA n1 a]
    cases A a n1 <;> cases A b a <;> cases A n1 b <;> rfl
  simp only [hc]

example : ctCounts (fun a b => a != b) [0] [1, 2, 3] = ctCounts (fun a b => a != b) [0] [3, 1, 2] := by
  decide

/-! ### both groups = all nodes (in any order): the single-network measures

`Pyunicorn.Net` (`Model/Net.lean`) is the model of `Network.degree / indegree / outdegree /
nsi_degree / average_path_length / closeness / local_clustering`, tied to the implementation by
C03's correspondence; the harness additionally compares the two implementations directly. -/

/-- `cross_outdegree(L, L)` / `internal_outdegree(L)` with `L` any ordering of all nodes is
`Network.outdegree()` in that order -/
theorem whole_outdegree (A : Adj) (n : Nat) (L : List Nat) (h : L.Perm (List.range n)) :
    crossOutDegree A L L = L.map (Net.outdeg n A) := by
  simp only [crossOutDegree, rowSums, blockN, block, List.map_map, Function.comp_def]
  apply List.map_congr_left
  intro a _
  rw [sum_perm_range h]
  rfl

theorem whole_indegree (A : Adj) (n : Nat) (L : List Nat) (h : L.Perm (List.range n)) :
    crossInDegree A L L = L.map (Net.indeg n A) := by
  rw [crossInDegree_eq]
  apply List.map_congr_left
  intro a _
  rw [sum_perm_range h]
  rfl

/-- **whole-network limit of the degrees**: `cross_degree(L, L) = internal_degree(L) =
Network.degree()[L]`, directed or not -/
theorem whole_degree (directed : Bool) (A : Adj) (n : Nat) (L : List Nat)
    (h : L.Perm (List.range n)) :
    crossDegree directed A L L = L.map (Net.degree directed n A) := by
  unfold crossDegree Net.degree
  cases directed
  · simpa using whole_outdegree A n L h
  · simp only [if_true, whole_outdegree A n L h, whole_indegree A n L h, zipWith_map_self]

example : crossDegree true (fun a b => a + 1 == b) [2, 0, 1] [2, 0, 1]
    = [2, 0, 1].map (Net.degree true 3 (fun a b => a + 1 == b)) := by decide

/-- `nsi_cross_degree(L, L) = nsi_internal_degree(L) = Network.nsi_degree()[L]` (out-version) -/
theorem whole_nsi_degree (A : Adj) (w : Nat → Rat) (n : Nat) (L : List Nat)
    (h : L.Perm (List.range n)) :
    nsiCrossDegree A w L L = L.map (Net.nsiOutdeg n A w) := by
  unfold nsiCrossDegree
  apply List.map_congr_left
  intro a _
  rw [sum_perm_range h]
  rfl

/-- **whole-network limit of the average path length**: `internal_average_path_length(L)` with
`L` any ordering of all nodes is `Network.average_path_length()` (mean over the connected ordered
pairs `i ≠ j`, `nan` if there is none) -/
theorem whole_average_path_length (D : Dist) (n : Nat) (L : List Nat)
    (h : L.Perm (List.range n)) :
    internalAPL D L = Net.avgPathLength n D := by
  have hl : L.length = n := by simpa using h.length_eq
  have hs : sumFinite (block D L L)
      = ((List.range n).map fun a => ((List.range n).map fun b => (D a b).getD 0).sum).sum := by
    rw [sumFinite_eq]
    simp only [sum_perm_range h]
  have hc : countNone (block D L L)
      = ((List.range n).map fun a =>
          ((List.range n).map fun b => if (D a b).isNone then 1 else 0).sum).sum := by
    rw [countNone_eq]
    simp only [sum_perm_range h]
  have hden : ((n : Int) - 1) * n = ((n * (n - 1) : Nat) : Int) := by
    cases n with
    | zero => simp
    | succ m => simp only [Nat.add_sub_cancel]; push_cast; ring
  unfold internalAPL generalAPL Net.avgPathLength
  simp only [if_true, hl, hs, hc, hden]
  rfl

example : internalAPL (fun a b => if a = b then some 0 else some 3) [1, 0]
    = Net.avgPathLength 2 (fun a b => if a = b then some 0 else some 3) := by decide +kernel

/-- **whole-network limit of the closeness** on a connected network: `internal_closeness(L)` is
the weighted-branch `Network.closeness` `(N−1)/Σ_j d_ij` (no unreachable pair, so neither
convention for `inf` is used) -/
theorem whole_closeness (D : Dist) (n : Nat) (L : List Nat) (h : L.Perm (List.range n))
    (hconn : ∀ a b, (D a b).isSome) :
    internalCloseness D L = L.map (Net.closenessW n D) := by
  have hl : L.length = n := by simpa using h.length_eq
  unfold internalCloseness generalCloseness Net.closenessW
  simp only [block, List.map_map, Function.comp_def, hl]
  apply List.map_congr_left
  intro a ha
  have hn : 1 ≤ n := by
    have : 0 < L.length := List.length_pos_of_mem ha
    omega
  have e : ∀ (x y : Rat), (L.map fun b => (D a b).getD x).sum
      = ((List.range n).map fun b => (D a b).getD y).sum := by
    intro x y
    rw [sum_perm_range h]
    congr 1
    apply List.map_congr_left
    intro b _
    have := hconn a b
    cases hd : D a b with
    | none => simp [hd] at this
    | some v => rfl
  rw [e _ (n : Rat)]
  simp only [Net.sumToQ]
  have hc : (((n : Int) - 1 : Int) : Rat) = ((n - 1 : Nat) : Rat) := by
    rw [Nat.cast_sub hn]; push_cast; ring
  rw [hc]
  by_cases hz : ((List.range n).map fun b => (D a b).getD (n : Rat)).sum = 0
  · simp [hz]
  · simp [hz]

example : internalCloseness (fun a b => if a = b then some 0 else some 2) [1, 0]
    = [1, 0].map (Net.closenessW 2 (fun a b => if a = b then some 0 else some 2)) := by
  decide +kernel

/-- closed 3-walks through `i` = twice the linked pairs of neighbours (undirected, loop-free) -/
theorem tCycle_eq_two_pairSum (A : Adj) (hA : Symm A) (hloop : ∀ a, A a a = false) (n : Nat)
    (L : List Nat) (h : L.Perm (List.range n)) (i : Nat) :
    Net.tCycle n A i = 2 * pairSum (fun j k => b2n (A i j && (A j k && A k i))) L := by
  have hsym : ∀ a b, (fun j k => b2n (A i j && (A j k && A k i))) a b
      = (fun j k => b2n (A i j && (A j k && A k i))) b a := by
    intro a b
    simp only
    rw [hA a b, hA b i, hA i a]
    cases A a i <;> cases A b a <;> cases A i b <;> rfl
  have hd := double_sum_symm_nat _ hsym L
  have hz : (L.map fun a => (fun j k => b2n (A i j && (A j k && A k i))) a a).sum = 0 := by
    apply List.sum_eq_zero
    intro x hx
    simp only [List.mem_map] at hx
    obtain ⟨a, _, rfl⟩ := hx
    simp [hloop a, b2n]
  rw [hz, Nat.zero_add] at hd
  rw [← hd]
  simp only [sum_perm_range h]
  unfold Net.tCycle Net.mmul Net.sumTo Net.toN
  rw [sum_comm_lists]
  apply congrArg
  apply List.map_congr_left
  intro k _
  rw [← sum_map_mul_right_nat]
  apply congrArg
  apply List.map_congr_left
  intro j _
  simp only [Net.b2n, b2n]
  cases A i j <;> cases A j k <;> cases A k i <;> rfl

/-- **whole-network limit of the clustering**: on an undirected loop-free network
`cross_local_clustering(L, L)` with `L` any ordering of all nodes is the Watts–Strogatz local
clustering `(A³)_ii / (k_i (k_i − 1))` of `Network.local_clustering()` in that order (hence
`cross_global_clustering(L, L) = global_clustering()`) -/
theorem whole_local_clustering (A : Adj) (hA : Symm A) (hloop : ∀ a, A a a = false) (n : Nat)
    (L : List Nat) (h : L.Perm (List.range n)) :
    crossLocalClustering false A L L = L.map (Net.localClustering n A) := by
  unfold crossLocalClustering clcKernel clcNorm
  simp only [crossDegree, Bool.false_eq_true, if_false, whole_outdegree A n L h, List.map_map,
    Function.comp_def, zipWith_self_map]
  apply List.map_congr_left
  intro i _
  rw [clcCount_eq_pairSum]
  unfold Net.localClustering Net.ratio0 Net.TOut
  rw [tCycle_eq_two_pairSum A hA hloop n L h i]
  generalize pairSum (fun n2 n3 => b2n (A i n2 && (A n2 n3 && A n3 i))) L = c
  generalize Net.outdeg n A i = k
  by_cases hk : (k : Int) * ((k : Int) - 1) = 0
  · have : (k : Rat) * ((k : Rat) - 1) = 0 := by exact_mod_cast hk
    simp [hk, this]
  · have hq : (k : Rat) * ((k : Rat) - 1) ≠ 0 := by exact_mod_cast hk
    have hq2 : (k : Rat) * ((k : Rat) - 1) / 2 ≠ 0 := by
      intro h0
      apply hq
      linarith
    simp only [hk, hq2, if_false, ne_eq, not_false_eq_true, if_true]
    push_cast
    field_simp

example : crossLocalClustering false (fun a b => a != b) [2, 0, 1] [2, 0, 1]
    = [2, 0, 1].map (Net.localClustering 3 (fun a b => a != b)) := by decide +kernel

/-- **whole-network limit of the transitivity**: on an undirected loop-free network
`cross_transitivity(L, L)` with `L` any ordering of all nodes is `Network.transitivity()`
`Σ_i (A³)_ii / Σ_i k_i (k_i − 1)` — and `0` where the latter is `nan` (no connected triple). -/
theorem whole_transitivity (A : Adj) (hA : Symm A) (hloop : ∀ a, A a a = false) (n : Nat)
    (L : List Nat) (h : L.Perm (List.range n)) :
    crossTransitivity A L L = (Net.transitivity n A).getD 0 := by
  obtain ⟨h1, h2⟩ := whole_network_transitivity A L
  rw [whole_outdegree A n L h, List.map_map] at h2
  -- numerator: Σ_i (A³)_ii = 2 · triangles
  have hnum : (Net.sumTo n fun i => Net.tCycle n A i) = 2 * (ctCounts A L L).1 := by
    rw [h1]
    unfold Net.sumTo
    rw [← sum_perm_range h]
    have : (L.map fun i => Net.tCycle n A i)
        = L.map fun i => 2 * pairSum (fun j k => b2n (A i j && (A j k && A k i))) L := by
      apply List.map_congr_left
      intro i _
      exact tCycle_eq_two_pairSum A hA hloop n L h i
    rw [this, sum_map_mul_left_nat]
  -- denominator: Σ_i k_i (k_i − 1) = 2 · triples
  have hk : ∀ k : Nat, ((k : Int) * ((k : Int) - 1)) = ((k * (k - 1) : Nat) : Int) := by
    intro k
    cases k with
    | zero => simp
    | succ m => simp only [Nat.add_sub_cancel]; push_cast; ring
  have hden : (Net.sumToI n fun i => Net.TOut n A i) = ((2 * (ctCounts A L L).2 : Nat) : Int) := by
    rw [h2]
    unfold Net.sumToI Net.TOut
    rw [← sum_perm_range h]
    simp only [hk, Function.comp_def]
    rw [cast_sum_map_nat_int]
  unfold crossTransitivity ratio Net.transitivity
  simp only [hnum, hden]
  generalize (ctCounts A L L).1 = tri
  generalize (ctCounts A L L).2 = trp
  by_cases hz : trp = 0
  · simp [hz]
  · have h2 : ((2 * trp : Nat) : Int) ≠ 0 := by omega
    have hq : (trp : Rat) ≠ 0 := by exact_mod_cast hz
    simp only [hz, ne_eq, not_false_eq_true, if_true, h2, if_false, Option.getD_some]
    push_cast
    field_simp

example : crossTransitivity (fun a b => a != b) [2, 0, 1] [2, 0, 1]
    = (Net.transitivity 3 (fun a b => a != b)).getD 0 := by decide +kernel

/-- the mean over the group of the whole network's clustering does not depend on the order of
the list and, for `L` = all nodes, is `Network.global_clustering()` = the mean of
`cross_local_clustering(L, L)` -/
theorem whole_global_clustering (A : Adj) (hA : Symm A) (hloop : ∀ a, A a a = false) (n : Nat)
    (L : List Nat) (h : L.Perm (List.range n)) :
    crossGlobalClustering false A L L = internalGlobalClustering n A L := by
  unfold crossGlobalClustering internalGlobalClustering
  rw [whole_local_clustering A hA hloop n L h]

/-! ### index and normalisation expressions regenerated from the source (`translate/arith_C11.json`
→ `Generated/ArithC11.lean` on every run): the expressions the model uses are the ones in the code -/

open Pyunicorn.Generated in
/-- the loop bounds of `cross_transitivity_sparse` and `cross_local_clustering_sparse` are
`range(N1)`, `range(N1, N1+N2)`, `range(N1, j)`: the model's `List.range N1`,
`List.range' N1 N2`, `List.range' N1 (j − N1)` -/
theorem arith_sparse_ranges (N1 N2 j : Int) :
    ArithC11.ctSparseIHi N1 N2 j = N1 ∧ ArithC11.ctSparseJLo N1 N2 j = N1
      ∧ ArithC11.ctSparseJHi N1 N2 j - ArithC11.ctSparseJLo N1 N2 j = N2
      ∧ ArithC11.ctSparseKLo N1 N2 j = N1
      ∧ ArithC11.ctSparseKHi N1 N2 j - ArithC11.ctSparseKLo N1 N2 j = j - N1
      ∧ ArithC11.clcSparseIHi N1 N2 j = N1 ∧ ArithC11.clcSparseJLo N1 N2 j = N1
      ∧ ArithC11.clcSparseJHi N1 N2 j - ArithC11.clcSparseJLo N1 N2 j = N2
      ∧ ArithC11.clcSparseKLo N1 N2 j = N1
      ∧ ArithC11.clcSparseKHi N1 N2 j - ArithC11.clcSparseKLo N1 N2 j = j - N1 := by
  simp only [ArithC11.ctSparseIHi, ArithC11.ctSparseJLo, ArithC11.ctSparseJHi,
    ArithC11.ctSparseKLo, ArithC11.ctSparseKHi, ArithC11.clcSparseIHi, ArithC11.clcSparseJLo,
    ArithC11.clcSparseJHi, ArithC11.clcSparseKLo, ArithC11.clcSparseKHi]
  refine ⟨trivial, trivial, ?_, trivial, trivial, trivial, trivial, ?_, trivial, trivial⟩ <;> omega

open Pyunicorn.Generated in
/-- `norm = cross_degree * (cross_degree - 1) / 2` in the dense and in the sparse method is the
model's `clcNorm` -/
theorem arith_clc_norm (deg : List Nat) :
    clcNorm deg = deg.map (fun (d : Nat) => ArithC11.clcNormDense (d : Int))
      ∧ clcNorm deg = deg.map (fun (d : Nat) => ArithC11.clcNormSparse (d : Int)) := by
  constructor <;>
  · unfold clcNorm
    apply List.map_congr_left
    intro d _
    simp only [ArithC11.clcNormDense, ArithC11.clcNormSparse]
    push_cast
    ring

open Pyunicorn.Generated in
/-- the normalisations of `_calculate_general_average_path_length` are the model's `generalAPL`
denominators -/
theorem arith_apl_norm (N M : Nat) (B : List (List (Option Rat))) (internal : Bool) :
    generalAPL N M B internal
      = (let norm : Rat := if internal then ArithC11.aplNormInternal N M (countNone B)
                           else ArithC11.aplNormCross N M (countNone B)
         if norm = 0 then none else some (sumFinite B / norm)) := by
  unfold generalAPL ArithC11.aplNormInternal ArithC11.aplNormCross
  cases internal <;> simp only [Bool.false_eq_true, if_false, if_true, Int.cast_eq_zero]

open Pyunicorn.Generated in
/-- `_calculate_general_closeness`: `n_nodes`, `norm` and the replacement value of unreachable
pairs are those of `crossCloseness` / `internalCloseness` -/
theorem arith_closeness (selfN : Nat) (D : Dist) (L1 L2 : List Nat) :
    crossCloseness selfN D L1 L2
        = generalCloseness (ArithC11.clsNodesCross L1.length L2.length selfN).toNat
            (ArithC11.clsNormCross L1.length L2.length selfN) (block D L1 L2)
      ∧ internalCloseness D L1
        = generalCloseness (ArithC11.clsNodesInternal L1.length L1.length selfN).toNat
            (ArithC11.clsNormInternal L1.length L1.length selfN) (block D L1 L1)
      ∧ ∀ m : Nat, ArithC11.clsUnreachable m = (m : Int) - 1 := by
  simp [crossCloseness, internalCloseness, ArithC11.clsNodesCross, ArithC11.clsNormCross,
    ArithC11.clsNodesInternal, ArithC11.clsNormInternal, ArithC11.clsUnreachable]

open Pyunicorn.Generated in
/-- link densities and the halving of the internal link count -/
theorem arith_densities (directed : Bool) (A : Adj) (L1 L2 : List Nat) :
    (L1.length * L2.length ≠ 0 →
        crossLinkDensity A L1 L2
          = some (ArithC11.crossLinkDensityExpr (numberCrossLinks A L1 L2) L1.length L2.length))
      ∧ (L1.length * (L1.length - 1) ≠ 0 →
        internalLinkDensity directed A L1
          = some (if directed then
              ArithC11.internalLinkDensityDirected (numberInternalLinks directed A L1) L1.length
            else
              ArithC11.internalLinkDensityUndirected (numberInternalLinks directed A L1) L1.length))
      ∧ ((numberInternalLinks false A L1 : Nat) : Int)
          = ArithC11.internalLinksUndirected ((rowSums (internalAdjacency A L1)).sum : Nat) := by
  refine ⟨?_, ?_, ?_⟩
  · intro h
    simp only [crossLinkDensity, h, if_false, ArithC11.crossLinkDensityExpr]
    push_cast
    rfl
  · intro h
    have h1 : 1 ≤ L1.length := by
      rcases Nat.eq_zero_or_pos L1.length with h0 | h0
      · simp [h0] at h
      · exact h0
    simp only [internalLinkDensity, h, if_false, ArithC11.internalLinkDensityDirected,
      ArithC11.internalLinkDensityUndirected]
    cases directed <;> simp [Nat.cast_sub h1]
  · simp [numberInternalLinks, ArithC11.internalLinksUndirected]

open Pyunicorn.Generated in
/-- `nsi_cross_average_path_length` returns `Lij / (Wi*Wj − Wij)` and both n.s.i. path measures
replace unreachable pairs by `self.N − 1` -/
theorem arith_nsi_apl (N : Nat) (D : Dist) (w : Nat → Rat) (L1 L2 : List Nat)
    (h : (nsiCrossAPLParts N D w L1 L2).2 ≠ 0) :
    nsiCrossAPL N D w L1 L2
        = some (ArithC11.nsiAplExpr (nsiCrossAPLParts N D w L1 L2).1 (wsum w L1) (wsum w L1)
            ((L1.map fun a => (L2.map fun b =>
              if (D a b).isNone then w a + w b else 0).sum).sum))
      ∧ ArithC11.nsiAplUnreachable N = (N : Int) - 1
      ∧ ArithC11.nsiClosenessUnreachable N = (N : Int) - 1 := by
  refine ⟨?_, rfl, rfl⟩
  unfold nsiCrossAPL
  simp only [h, if_false, ArithC11.nsiAplExpr]
  rfl

/-! ## Round 3 -/

/-! ### whole-network limits of the link counts and densities -/

theorem whole_nonzeros (A : Adj) (n : Nat) (L : List Nat) (h : L.Perm (List.range n)) :
    (rowSums (blockN A L L)).sum = netNonzeros n A := by
  simp only [rowSums, blockN, block, List.map_map, Function.comp_def, netNonzeros]
  rw [sum_perm_range h]
  congr 1
  apply List.map_congr_left
  intro a _
  rw [sum_perm_range h]

/-- **whole-network limit of the link count**: `number_internal_links(L)` with `L` any ordering
of all nodes is `Network.n_links` as left by the adjacency setter (number of non-zero entries,
`// 2` on an undirected network), directed or not. -/
theorem whole_n_links (directed : Bool) (A : Adj) (n : Nat) (L : List Nat)
    (h : L.Perm (List.range n)) :
    numberInternalLinks directed A L = netNLinks directed n A := by
  unfold numberInternalLinks netNLinks internalAdjacency
  simp only [whole_nonzeros A n L h]

/-- on an undirected loop-free network the number of non-zero entries is even: twice the number
of linked unordered pairs (so the `// 2` of `n_links` and of `number_internal_links` is exact) -/
theorem netNonzeros_even (A : Adj) (hA : Symm A) (hloop : ∀ a, A a a = false) (n : Nat) :
    netNonzeros n A = 2 * pairSum (fun a b => b2n (A a b)) (List.range n) := by
  have hs : ∀ a b, (fun a b => b2n (A a b)) a b = (fun a b => b2n (A a b)) b a := by
    intro a b
    simp only [hA a b]
  have hd := double_sum_symm_nat _ hs (List.range n)
  have hz : ((List.range n).map fun a => (fun a b => b2n (A a b)) a a).sum = 0 := by
    apply List.sum_eq_zero
    intro x hx
    simp only [List.mem_map] at hx
    obtain ⟨a, _, rfl⟩ := hx
    simp [hloop a, b2n]
  rw [hz, Nat.zero_add] at hd
  exact hd

/-- `number_cross_links(L, L) = 2 · n_links` on an undirected loop-free network -/
theorem whole_number_cross_links (A : Adj) (hA : Symm A) (hloop : ∀ a, A a a = false) (n : Nat)
    (L : List Nat) (h : L.Perm (List.range n)) :
    numberCrossLinks A L L = 2 * netNLinks false n A := by
  unfold numberCrossLinks netNLinks
  rw [whole_nonzeros A n L h, netNonzeros_even A hA hloop n]
  simp

/-- **whole-network limit of the link density**: `internal_link_density(L)` with `L` any ordering
of all nodes is `Network.link_density` (`1.0 * n_links / N / (N − 1)` of the adjacency setter);
on an undirected network this needs the symmetric loop-free adjacency (the internal count is
halved with `//` and doubled again). -/
theorem whole_link_density (directed : Bool) (A : Adj)
    (hA : directed = false → Symm A ∧ ∀ a, A a a = false) (n : Nat) (L : List Nat)
    (h : L.Perm (List.range n)) :
    internalLinkDensity directed A L = netLinkDensity n A := by
  have hl : L.length = n := by simpa using h.length_eq
  unfold internalLinkDensity netLinkDensity
  simp only [hl, whole_n_links directed A n L h]
  by_cases hz : n * (n - 1) = 0
  · simp [hz]
  · simp only [hz, if_false]
    have hn : 1 ≤ n := by
      rcases Nat.eq_zero_or_pos n with h0 | h0
      · simp [h0] at hz
      · exact h0
    have hc : ((n * (n - 1) : Nat) : Rat) = (n : Rat) * ((n : Rat) - 1) := by
      rw [Nat.cast_mul, Nat.cast_sub hn]; simp
    rw [hc, div_div]
    congr 2
    cases directed with
    | true => simp [netNLinks]
    | false =>
      obtain ⟨hs, hloop⟩ := hA rfl
      simp only [netNLinks, Bool.false_eq_true, if_false]
      rw [netNonzeros_even A hs hloop n]
      simp

example : internalLinkDensity false (fun a b => a != b) [2, 0, 1]
    = netLinkDensity 3 (fun a b => a != b) := by decide +kernel

open Pyunicorn.Generated in
/-- `Network.n_links` and `Network.link_density` as the adjacency setter computes them
(`1.0 * n_links / N / (N - 1)`, then `n_links //= 2` under `if not self.directed`) — regenerated
from the current `network.py` — are the model's `netNLinks` / `netLinkDensity`, the right-hand
sides of `whole_n_links` / `whole_link_density` -/
theorem arith_net_links (directed : Bool) (n : Nat) (A : Adj) (h : n * (n - 1) ≠ 0) :
    ((netNLinks directed n A : Nat) : Int)
        = (if ArithC11.netHalveGuard directed then
            ArithC11.netNLinksUndirected ((netNonzeros n A : Nat) : Int)
           else ((netNonzeros n A : Nat) : Int))
      ∧ netLinkDensity n A
        = some (ArithC11.netLinkDensityExpr ((netNonzeros n A : Nat) : Int) (n : Int)) := by
  constructor
  · cases directed <;> simp [netNLinks, ArithC11.netHalveGuard, ArithC11.netNLinksUndirected]
  · simp only [netLinkDensity, h, if_false, ArithC11.netLinkDensityExpr]
    push_cast
    rfl


/-! ### whole-network limits of the n.s.i. measures (`A⁺ = A + I`) -/

/-- **whole-network limit of the n.s.i. local clustering**: on an undirected loop-free network
`nsi_cross_local_clustering(L, L)` (= `nsi_internal_local_clustering(L)`) with `L` any ordering of
all nodes is `Network.nsi_local_clustering()` in that order: expanding `A⁺ = A + I` in
`Σ_{p,q} A⁺[v,p] A⁺[p,q] A⁺[q,v] w_p w_q` gives `(A D_w A⁺ D_w Aᵀ)_vv + 2 k*_v w_v − w_v²`.
(`k*_v ≠ 0` is the guard under which the single-network method does not divide by zero.) -/
theorem whole_nsi_local_clustering (A : Adj) (hA : Symm A) (hloop : ∀ a, A a a = false)
    (w : Nat → Rat) (n : Nat) (L : List Nat) (h : L.Perm (List.range n))
    (hk : ∀ i ∈ L, Net.nsiOutdeg n A w i ≠ 0) :
    nsiCrossLocalClustering A w L L = L.map (Net.nsiLocalClustering n A w) := by
  rw [nsiCrossLocalClustering_eq_def A hA]
  apply List.map_congr_left
  intro v hv
  have hvn : v < n := List.mem_range.mp (h.mem_iff.mp hv)
  simp only [sum_perm_range h]
  have hkv : ((List.range n).map fun p => if aplus A v p then w p else 0).sum
      = Net.nsiOutdeg n A w v := rfl
  have hk2 : Net.nsiOutdeg n A w v * Net.nsiOutdeg n A w v ≠ 0 := mul_ne_zero (hk v hv) (hk v hv)
  rw [hkv]
  simp only [hk2, ne_eq, not_false_eq_true, if_true]
  unfold Net.nsiLocalClustering
  simp only
  congr 1
  -- the expansion
  let e : Nat → Rat := fun q => if v = q then 1 else 0
  let a : Nat → Rat := fun q => if A v q then 1 else 0
  have hdelta : ∀ F : Nat → Rat, ((List.range n).map fun q => F q * e q).sum = F v :=
    fun F => sum_mul_delta n v hvn F
  have hae : ∀ x, a x + e x = if aplus A v x then 1 else 0 := by
    intro x
    by_cases hx : v = x
    · subst hx
      simp [a, e, hloop v, aplus_diag]
    · have : aplus A v x = A v x := by simp [aplus, hx]
      simp [a, e, hx, this]
  have hrow : ∀ q, a q * apn A v q = a q := by
    intro q
    by_cases hq : A v q = true
    · have : aplus A v q = true := by simp [aplus, hq]
      simp [a, apn, hq, this]
    · simp [a, hq]
  have hcol : ∀ p, a p * apn A p v = a p := by
    intro p
    by_cases hp : A v p = true
    · have : aplus A p v = true := by simp [aplus, hA p v, hp]
      simp [a, apn, hp, this]
    · simp [a, hp]
  have hvv : apn A v v = 1 := by simp [apn, aplus]
  have key := aplus_expand (List.range n) e a w (apn A) v hdelta hrow hcol hvv
  have eL : ∀ p q, (if aplus A v p && (aplus A p q && aplus A q v) then w p * w q else 0)
      = (a p + e p) * apn A p q * (a q + e q) * (w p * w q) := by
    intro p q
    rw [aplus_symm A hA q v, hae, hae, ite_and3]
    rfl
  have eN : ∀ j l, (if A v j && Net.aplus A j l && A v l then w j * w l else 0)
      = a j * apn A j l * a l * (w j * w l) := by
    intro j l
    rw [Bool.and_assoc, ite_and3]
    rfl
  have eK : ∀ q, (if aplus A v q then w q else 0) = (a q + e q) * w q := by
    intro q
    rw [hae, ite_one_mul]
  have hk' : Net.nsiOutdeg n A w v = ((List.range n).map fun q => (a q + e q) * w q).sum := by
    rw [← hkv]
    congr 1
    apply List.map_congr_left
    intro q _
    exact eK q
  simp only [eL, key, Net.sumToQ, eN, hk']

example : nsiCrossLocalClustering (fun a b => a != b) (fun i => (i : Rat) + 1) [2, 0, 1] [2, 0, 1]
    = [2, 0, 1].map (Net.nsiLocalClustering 3 (fun a b => a != b) (fun i => (i : Rat) + 1)) := by
  decide +kernel

/-- **whole-network limit of the n.s.i. global clustering**: … `nsi_cross_global_clustering(L, L)
= Network.nsi_global_clustering()` -/
theorem whole_nsi_global_clustering (A : Adj) (hA : Symm A) (hloop : ∀ a, A a a = false)
    (w : Nat → Rat) (n : Nat) (L : List Nat) (h : L.Perm (List.range n))
    (hk : ∀ i ∈ L, Net.nsiOutdeg n A w i ≠ 0) :
    nsiCrossGlobalClustering A w L L = netNsiGlobalClustering n A w := by
  unfold nsiCrossGlobalClustering netNsiGlobalClustering
  rw [whole_nsi_local_clustering A hA hloop w n L h hk, zipWith_map_self]
  simp only [wsum, sum_perm_range h]
  simp only [mul_comm]

/-- with positive node weights every n.s.i. degree is positive (`k*_v ≥ w_v`): the guard `k*_v ≠ 0`
of `whole_nsi_local_clustering` holds for every admissible weight vector -/
theorem nsiOutdeg_pos (A : Adj) (w : Nat → Rat) (hw : ∀ i, 0 < w i) (n v : Nat) (hv : v < n) :
    0 < Net.nsiOutdeg n A w v := by
  unfold Net.nsiOutdeg Net.sumToQ
  have hnn : ∀ x ∈ (List.range n).map (fun j => if Net.aplus A v j then w j else 0), (0 : Rat) ≤ x := by
    intro x hx
    simp only [List.mem_map] at hx
    obtain ⟨j, _, rfl⟩ := hx
    split
    · exact le_of_lt (hw j)
    · exact le_refl 0
  have hmem : w v ∈ (List.range n).map (fun j => if Net.aplus A v j then w j else 0) := by
    simp only [List.mem_map, List.mem_range]
    exact ⟨v, hv, by simp [Net.aplus]⟩
  exact lt_of_lt_of_le (hw v) (List.single_le_sum hnn _ hmem)

/-- the whole-network limit of the n.s.i. local clustering for positive node weights -/
theorem whole_nsi_local_clustering_pos (A : Adj) (hA : Symm A) (hloop : ∀ a, A a a = false)
    (w : Nat → Rat) (hw : ∀ i, 0 < w i) (n : Nat) (L : List Nat) (h : L.Perm (List.range n)) :
    nsiCrossLocalClustering A w L L = L.map (Net.nsiLocalClustering n A w)
      ∧ nsiCrossGlobalClustering A w L L = netNsiGlobalClustering n A w := by
  have hk : ∀ i ∈ L, Net.nsiOutdeg n A w i ≠ 0 := by
    intro i hi
    have hin : i < n := List.mem_range.mp (h.mem_iff.mp hi)
    exact ne_of_gt (nsiOutdeg_pos A w hw n i hin)
  exact ⟨whole_nsi_local_clustering A hA hloop w n L h hk,
    whole_nsi_global_clustering A hA hloop w n L h hk⟩

/-- **whole-network limit of the n.s.i. transitivity**: on an undirected network
`nsi_cross_transitivity(L, L)` with `L` any ordering of all nodes is `Network.nsi_transitivity()`:
`Σ_v w_v Σ_{p,q} A⁺[v,p] A⁺[v,q] A⁺[p,q] w_p w_q = tr((A⁺D_w)³)` and
`Σ_v w_v (k*_v)² = Σ_{ij} (D_w A⁺ D_w A⁺ D_w)_{ij}`, with the same `ZeroDivisionError` / `nan`
branch. -/
theorem whole_nsi_transitivity (A : Adj) (hA : Symm A) (w : Nat → Rat) (n : Nat) (L : List Nat)
    (h : L.Perm (List.range n)) :
    nsiCrossTransitivity A w L L = netNsiTransitivity n A w := by
  rw [nsiCrossTransitivity_eq_def A hA]
  simp only [sum_perm_range h]
  unfold netNsiTransitivity
  simp only
  have hs : ∀ a b, apn A a b = apn A b a := by
    intro a b
    simp only [apn, aplus_symm A hA a b]
  have hnum : ((List.range n).map fun v => w v * ((List.range n).map fun p =>
        ((List.range n).map fun q =>
          if aplus A v p && (aplus A v q && aplus A p q) then w p * w q else 0).sum).sum).sum
      = ((List.range n).map fun i => ((List.range n).map fun j => ((List.range n).map fun k =>
          apn A i j * w j * (apn A j k * w k) * (apn A k i * w i)).sum).sum).sum := by
    congr 1
    apply List.map_congr_left
    intro v _
    rw [← sum_map_mul_left]
    congr 1
    apply List.map_congr_left
    intro p _
    rw [← sum_map_mul_left]
    congr 1
    apply List.map_congr_left
    intro q _
    rw [hs q v]
    simp only [apn]
    cases aplus A v p <;> cases aplus A v q <;> cases aplus A p q <;> simp <;> ring
  have hden : ((List.range n).map fun v => w v *
        (((List.range n).map fun p => if aplus A v p then w p else 0).sum
          * ((List.range n).map fun p => if aplus A v p then w p else 0).sum)).sum
      = ((List.range n).map fun i => ((List.range n).map fun j => ((List.range n).map fun k =>
          w i * (apn A i k * w k) * (apn A k j * w j)).sum).sum).sum := by
    rw [triple_sum_rotate (fun i j k => w i * (apn A i k * w k) * (apn A k j * w j))]
    congr 1
    apply List.map_congr_left
    intro k _
    have hK : ((List.range n).map fun p => if aplus A k p then w p else 0)
        = (List.range n).map fun p => apn A k p * w p := by
      apply List.map_congr_left
      intro p _
      simp only [apn]
      cases aplus A k p <;> simp
    rw [hK, sum_mul_sum, ← sum_map_mul_left]
    congr 1
    apply List.map_congr_left
    intro i _
    rw [← sum_map_mul_left]
    congr 1
    apply List.map_congr_left
    intro j _
    rw [hs i k]
    ring
  rw [hnum, hden]

example : nsiCrossTransitivity (fun a b => a + 1 == b || b + 1 == a) (fun i => (i : Rat) + 1)
      [2, 0, 1] [2, 0, 1]
    = netNsiTransitivity 3 (fun a b => a + 1 == b || b + 1 == a) (fun i => (i : Rat) + 1) := by
  decide +kernel

/-- **whole-network limit of the n.s.i. closeness** on a connected network:
`nsi_cross_closeness_centrality(L, L)` (= `nsi_internal_closeness_centrality(L)`) with `L` any
ordering of all nodes is `Network.nsi_closeness()` in that order, `W / Σ_j w_j (d_ij + δ_ij)`
(no unreachable pair, so neither convention for `inf` is used). -/
theorem whole_nsi_closeness (D : Dist) (w : Nat → Rat) (n : Nat) (L : List Nat)
    (h : L.Perm (List.range n)) (hconn : ∀ a b, (D a b).isSome) :
    nsiCrossCloseness n D w L L = L.map (netNsiCloseness n D w) := by
  unfold nsiCrossCloseness netNsiCloseness
  apply List.map_congr_left
  intro a _
  have hany : ((List.range n).any fun j => (D a j).isNone) = false := by
    rw [List.any_eq_false]
    intro j _
    have := hconn a j
    cases hd : D a j with
    | none => simp [hd] at this
    | some v => simp
  simp only [hany, Bool.false_eq_true, if_false, wsum, sum_perm_range h]
  have hs : ((List.range n).map fun b => nsiDist n D a b * w b)
      = (List.range n).map fun j => ((D a j).getD 0 + (if a = j then 1 else 0)) * w j := by
    apply List.map_congr_left
    intro j _
    have := hconn a j
    unfold nsiDist
    cases hd : D a j with
    | none => simp [hd] at this
    | some v => simp
  rw [hs]

example : nsiCrossCloseness 2 (fun a b => if a = b then some 0 else some 1) (fun _ => 2) [1, 0] [1, 0]
    = [1, 0].map (netNsiCloseness 2 (fun a b => if a = b then some 0 else some 1) (fun _ => 2)) := by
  decide +kernel

/-- **whole-network limit of the n.s.i. average path length** on a connected network:
`nsi_cross_average_path_length(L, L)` with `L` any ordering of all nodes is
`Network.nsi_average_path_length()` — with both groups equal the code's `W_i · W_i` *is*
`W_1 W_2`, and without unreachable pairs its `W_ij` correction vanishes. -/
theorem whole_nsi_average_path_length (D : Dist) (w : Nat → Rat) (n : Nat) (L : List Nat)
    (h : L.Perm (List.range n)) (hconn : ∀ a b, (D a b).isSome) :
    nsiCrossAPL n D w L L = netNsiAPL n D w := by
  have hnone : ∀ a b, (D a b).isNone = false := by
    intro a b
    have := hconn a b
    cases hd : D a b with
    | none => simp [hd] at this
    | some v => rfl
  unfold nsiCrossAPL nsiCrossAPLParts netNsiAPL
  simp only [hnone, Bool.false_eq_true, if_false, wsum, sum_perm_range h]
  have hz : ((List.range n).map fun _ => ((List.range n).map fun _ => (0 : Rat)).sum).sum = 0 := by
    simp
  have hden : ((List.range n).map fun i => ((List.range n).map fun j => w i * w j).sum).sum
      = ((List.range n).map w).sum * ((List.range n).map w).sum := by
    rw [sum_mul_sum]
  have hnum : ((List.range n).map fun a =>
        ((List.range n).map fun b => nsiDist n D a b * w b).sum * w a).sum
      = ((List.range n).map fun i => w i * ((List.range n).map fun j =>
          nsiDistZ D i j * w j).sum).sum := by
    congr 1
    apply List.map_congr_left
    intro a _
    rw [mul_comm]
    congr 2
    apply List.map_congr_left
    intro b _
    have := hconn a b
    unfold nsiDist nsiDistZ
    cases hd : D a b with
    | none => simp [hd] at this
    | some v => rfl
  rw [hz, hden, hnum, sub_zero]

example : nsiCrossAPL 2 (fun a b => if a = b then some 0 else some 1) (fun i => (i : Rat) + 1)
      [1, 0] [1, 0]
    = netNsiAPL 2 (fun a b => if a = b then some 0 else some 1) (fun i => (i : Rat) + 1) := by
  decide +kernel

/-! ### closeness and efficiency: what the one-line matrix expressions compute -/

/-- **`cross_closeness` = definition**: entry `a` is `M / (Σ finite d_ab + (N − 1) · #unreachable)`
over `b ∈ L2` (`N` = size of the whole network), and `0` where that sum vanishes. -/
theorem crossCloseness_eq_def (N : Nat) (D : Dist) (L1 L2 : List Nat) :
    crossCloseness N D L1 L2 = L1.map fun a =>
      let r := L2.map fun b => D a b
      let s := (finiteOf r).sum
        + ((r.filter Option.isNone).length : Rat) * (((N : Int) - 1 : Int) : Rat)
      if s ≠ 0 then (L2.length : Rat) / s else 0 := by
  unfold crossCloseness generalCloseness block
  rw [List.map_map]
  apply List.map_congr_left
  intro a _
  simp only [Function.comp_def, row_getD_sum, Int.cast_natCast]

/-- **`internal_closeness` = definition**: `(|L| − 1) / (Σ finite d_ab + (|L| − 1) · #unreachable)` -/
theorem internalCloseness_eq_def (D : Dist) (L : List Nat) :
    internalCloseness D L = L.map fun a =>
      let r := L.map fun b => D a b
      let s := (finiteOf r).sum
        + ((r.filter Option.isNone).length : Rat) * (((L.length : Int) - 1 : Int) : Rat)
      if s ≠ 0 then (((L.length : Int) - 1 : Int) : Rat) / s else 0 := by
  unfold internalCloseness generalCloseness block
  rw [List.map_map]
  apply List.map_congr_left
  intro a _
  simp only [Function.comp_def, row_getD_sum]

example : crossCloseness 4 (fun a b => if a + b = 3 then none else some 2) [0] [2, 3] = [2 / 5] := by
  decide +kernel

/-- the closeness of a node does not depend on the order of the second list -/
theorem crossCloseness_perm_right (N : Nat) (D : Dist) (L1 : List Nat) {L2 L2' : List Nat}
    (h : L2.Perm L2') : crossCloseness N D L1 L2 = crossCloseness N D L1 L2' := by
  unfold crossCloseness generalCloseness block
  rw [List.map_map, List.map_map, h.length_eq]
  apply List.map_congr_left
  intro a _
  simp only [Function.comp_def, List.map_map]
  rw [(h.map fun b => (D a b).getD (((N : Int) - 1 : Int) : Rat)).sum_eq]

/-- the n.s.i. closeness of a node does not depend on the order of the second list -/
theorem nsiCrossCloseness_perm_right (N : Nat) (D : Dist) (w : Nat → Rat) (L1 : List Nat)
    {L2 L2' : List Nat} (h : L2.Perm L2') :
    nsiCrossCloseness N D w L1 L2 = nsiCrossCloseness N D w L1 L2' := by
  unfold nsiCrossCloseness wsum
  apply List.map_congr_left
  intro a _
  rw [(h.map fun b => nsiDist N D a b * w b).sum_eq, (h.map w).sum_eq]

/-- **`local_efficiency` = definition**: without a zero distance between the groups, entry `a`
is the mean over `b ∈ L2` of `1/d_ab` with unreachable nodes contributing `0`. -/
theorem localEfficiency_eq_def (D : Dist) (L1 L2 : List Nat) (hne : L2 ≠ [])
    (hpos : ∀ a ∈ L1, ∀ b ∈ L2, D a b ≠ some 0) :
    localEfficiency D L1 L2 = some (L1.map fun a =>
      ((finiteOf (L2.map fun b => D a b)).map fun d => 1 / d).sum / (L2.length : Rat)) := by
  have n2 : L2.length ≠ 0 := by simpa using hne
  have hany : ((block D L1 L2).any fun r => r.any (· == some 0)) = false := by
    rw [List.any_eq_false]
    intro r hr
    simp only [block, List.mem_map] at hr
    obtain ⟨a, ha, rfl⟩ := hr
    simp only [List.any_map, Bool.not_eq_true, List.any_eq_false, Function.comp_def]
    intro b hb
    simpa using hpos a ha b hb
  unfold localEfficiency
  simp only [n2, hany, false_or, Bool.false_eq_true, if_false]
  congr 1
  simp only [block, List.map_map, Function.comp_def]
  apply List.map_congr_left
  intro a _
  rw [← row_invD_sum, List.map_map]
  rfl

/-- **`global_efficiency` = harmonic mean**: `|L1|·|L2| / Σ_{a,b reachable} 1/d_ab` -/
theorem globalEfficiency_eq_harmonic (D : Dist) (L1 L2 : List Nat) (h1 : L1 ≠ []) (h2 : L2 ≠ [])
    (hpos : ∀ a ∈ L1, ∀ b ∈ L2, D a b ≠ some 0)
    (hS : (L1.map fun a => ((finiteOf (L2.map fun b => D a b)).map fun d => 1 / d).sum).sum ≠ 0) :
    globalEfficiency D L1 L2 = .val (((L1.length : Rat) * (L2.length : Rat))
      / (L1.map fun a => ((finiteOf (L2.map fun b => D a b)).map fun d => 1 / d).sum).sum) := by
  have n1 : L1.length ≠ 0 := by simpa using h1
  have n2 : L2.length ≠ 0 := by simpa using h2
  have q1 : (L1.length : Rat) ≠ 0 := by exact_mod_cast n1
  have q2 : (L2.length : Rat) ≠ 0 := by exact_mod_cast n2
  unfold globalEfficiency
  rw [localEfficiency_eq_def D L1 L2 h2 hpos]
  simp only [mean, List.length_map, n1, if_false]
  rw [sum_div_const]
  generalize (L1.map fun a => ((finiteOf (L2.map fun b => D a b)).map fun d => 1 / d).sum).sum = S
    at hS ⊢
  have hm : S / (L2.length : Rat) / (L1.length : Rat) ≠ 0 := by
    apply div_ne_zero (div_ne_zero hS q2) q1
  simp only [hm, if_false]
  congr 1
  field_simp

example : globalEfficiency (fun a b => if a = b then some 0 else some 2) [0] [1, 2] = .val 2 := by
  decide +kernel

/-- **two independently coded closeness measures agree**: for disjoint groups and unit node
weights `nsi_cross_closeness_centrality` (`W_2 / Σ_q w_q d*_vq`, an `inf` where the sum vanishes)
is `cross_closeness` (`M / Σ_b d'_ab`, `0` where the sum vanishes): no `δ` term arises between
disjoint groups and both count unreachable pairs as `N − 1`. -/
theorem nsiCrossCloseness_unit_weights (N : Nat) (D : Dist) (L1 L2 : List Nat)
    (hdisj : ∀ a ∈ L1, a ∉ L2) :
    (nsiCrossCloseness N D (fun _ => 1) L1 L2).map (·.getD 0) = crossCloseness N D L1 L2 := by
  unfold nsiCrossCloseness crossCloseness generalCloseness block
  rw [List.map_map, List.map_map]
  apply List.map_congr_left
  intro a ha
  have hs : (L2.map fun b => nsiDist N D a b * 1)
      = L2.map fun b => (D a b).getD (((N : Int) - 1 : Int) : Rat) := by
    apply List.map_congr_left
    intro b hb
    have hab : a ≠ b := fun e => hdisj a ha (e ▸ hb)
    unfold nsiDist
    cases D a b <;> simp [hab]
  have hw : wsum (fun _ => (1 : Rat)) L2 = (L2.length : Rat) := by
    simp [wsum]
  simp only [Function.comp_def, hs, hw, List.map_map, Int.cast_natCast]
  split <;> simp_all

example : (nsiCrossCloseness 3 (fun a b => if a = b then some 0 else some 2) (fun _ => 1)
    [0] [1, 2]).map (·.getD 0)
    = crossCloseness 3 (fun a b => if a = b then some 0 else some 2) [0] [1, 2] := by
  decide +kernel

/-! ### integer widths: no expression the source evaluates in a fixed-width integer type wraps

`Generated/StructC11.lean` (translate/gen_C11.py, regenerated on every run) lists every explicit
dtype conversion (`to_cy(…, T)`, `.astype(T)`, `dtype=T`) of the anchored methods; `casts_safe`
below says each of them is applied to a value its type can hold.  The arithmetic itself: -/

theorem wrap_id (m x : Int) (h1 : -m ≤ x) (h2 : x < m) : wrap m x = x := by
  unfold wrap
  rw [Int.emod_eq_of_lt (by omega) (by omega)]
  omega

/-- **`norm = k (k − 1) / 2` does not wrap in the 64-bit integers `np.sum` returns**: for every
cross degree `k < 2^31` (node numbers are `int32`) the product is exact. -/
theorem norm_int64_exact (k : Int) (h0 : 0 ≤ k) (h : k < 2 ^ 31) :
    normProdW (2 ^ 63) k = k * (k - 1) := by
  unfold normProdW
  have hk : wrap (2 ^ 63) k = k := wrap_id _ _ (by omega) (by omega)
  rw [hk]
  by_cases hz : k = 0
  · subst hz; decide
  · have hk1 : wrap (2 ^ 63) (k - 1) = k - 1 := wrap_id _ _ (by omega) (by omega)
    rw [hk1]
    have hp : k * (k - 1) < 2 ^ 63 := by
      have : k * (k - 1) ≤ (2 ^ 31) * (2 ^ 31) := by
        apply Int.mul_le_mul <;> omega
      omega
    have hn : 0 ≤ k * (k - 1) := by
      apply Int.mul_nonneg <;> omega
    exact wrap_id _ _ (by omega) hp

/-- … whereas in the library's `DEGREE` type (`int16`) it is exact up to `k = 181` only and
wraps from `k = 182` on (`182 · 181 = 32942 > 32767`): the dtype of `cross_degree` matters
(seeded change C11-4). -/
theorem norm_int16_exact_iff :
    (∀ k : Fin 182, normProdW (2 ^ 15) k.val = (k.val : Int) * ((k.val : Int) - 1))
      ∧ normProdW (2 ^ 15) 182 ≠ 182 * 181 := by
  constructor
  · decide +kernel
  · decide

/-- every entry of `cross_outdegree` is at most `|L2|` … -/
theorem crossOutDegree_le (A : Adj) (L1 L2 : List Nat) :
    ∀ d ∈ crossOutDegree A L1 L2, d ≤ L2.length := by
  intro d hd
  simp only [crossOutDegree, rowSums, blockN, block, List.map_map, List.mem_map,
    Function.comp_def] at hd
  obtain ⟨a, _, rfl⟩ := hd
  exact sum_b2n_le (fun b => A a b) L2

/-- … and of `cross_degree` at most `2 |L2|`: the cross degrees fit every integer type that
holds twice the number of nodes -/
theorem crossDegree_le (directed : Bool) (A : Adj) (L1 L2 : List Nat) :
    ∀ d ∈ crossDegree directed A L1 L2, d ≤ 2 * L2.length := by
  unfold crossDegree
  cases directed with
  | false =>
    intro d hd
    have := crossOutDegree_le A L1 L2 d (by simpa using hd)
    omega
  | true =>
    simp only [if_true]
    apply mem_zipWith_add_le
    · rw [crossInDegree_eq]
      intro x hx
      simp only [List.mem_map] at hx
      obtain ⟨a, _, rfl⟩ := hx
      exact sum_b2n_le (fun b => A b a) L2
    · exact crossOutDegree_le A L1 L2

/-- **the `long` counters of `_cross_transitivity` / `_cross_local_clustering` are bounded by
`|L1| · C(|L2|, 2)`** (every unordered pair of group 2 is visited once per node of group 1) -/
theorem ctCounts_le (A : Adj) (L1 L2 : List Nat) :
    2 * (ctCounts A L1 L2).1 ≤ L1.length * (L2.length * (L2.length - 1))
      ∧ 2 * (ctCounts A L1 L2).2 ≤ L1.length * (L2.length * (L2.length - 1)) := by
  have hall : 2 * pairSum (fun _ _ => (1 : Nat)) L2 = L2.length * (L2.length - 1) := by
    have := pairSum_both (fun _ => true) L2
    simpa [b2n] using this
  have hb : ∀ (f : Nat → Nat → Nat → Nat), (∀ a b c, f a b c ≤ 1) →
      2 * (L1.map fun n1 => pairSum (f n1) L2).sum ≤ L1.length * (L2.length * (L2.length - 1)) := by
    intro f hf
    induction L1 with
    | nil => simp
    | cons x t ih =>
      simp only [List.map_cons, List.sum_cons, List.length_cons]
      have : pairSum (f x) L2 ≤ pairSum (fun _ _ => (1 : Nat)) L2 :=
        pairSum_le (fun a b => hf x a b) L2
      rw [Nat.add_mul]
      omega
  rw [ctCounts_eq_pairSums]
  constructor
  · apply hb (fun n1 n2 n3 => b2n (A n1 n2 && (A n2 n3 && A n3 n1)))
    intro a b c; simp only [b2n]; split <;> omega
  · apply hb (fun n1 n2 n3 => b2n (A n1 n2 && A n1 n3))
    intro a b c; simp only [b2n]; split <;> omega

/-- hence neither counter leaves the 64-bit `long` for groups of up to `2^21` (2 097 152) nodes
each -/
theorem counters_fit_long (A : Adj) (L1 L2 : List Nat) (h1 : L1.length ≤ 2 ^ 21)
    (h2 : L2.length ≤ 2 ^ 21) :
    (ctCounts A L1 L2).1 < 2 ^ 63 ∧ (ctCounts A L1 L2).2 < 2 ^ 63 := by
  obtain ⟨ha, hb⟩ := ctCounts_le A L1 L2
  have hn : L2.length * (L2.length - 1) ≤ 2 ^ 21 * 2 ^ 21 :=
    Nat.mul_le_mul h2 (by omega)
  have : L1.length * (L2.length * (L2.length - 1)) ≤ 2 ^ 21 * (2 ^ 21 * 2 ^ 21) :=
    Nat.mul_le_mul h1 hn
  constructor <;> omega

/-! ### the dtype conversions and C declarations of the current source (`Generated/StructC11.lean`) -/

/-- source texts that denote node lists (values `< N ≤ 2^31 − 1`: `int32` suffices) -/
def nodeListValues : List String := ["node_list1", "node_list2", "node_list", "nodes1", "nodes2"]

/-- source texts that denote 0/1 adjacency data, possibly plus the identity (values `≤ 2`:
`int8` suffices, see `adjacency_values_fit_int8`) -/
def adjacencyValues : List String :=
  ["self.adjacency", "self.adjacency + np.eye(self.N, dtype=ADJ)",
   "self.adjacency[node_list, :][:, node_list]"]

open Pyunicorn.Generated in
/-- a conversion is safe if its target type can hold every value of the converted expression:
`float64` and 64-bit integers hold every count / degree / weight that occurs (`crossDegree_le`,
`norm_int64_exact`), `int32` node numbers, `int8` the 0/1(+identity) adjacency data and the
freshly created identity matrix.  Anything narrower on anything else — e.g. the cross degrees
in `DEGREE = int16` (`norm_int16_exact_iff`) — is not. -/
def safeCast (c : StructC11.Cast) : Bool :=
  (c.kind == "float" && decide (64 ≤ c.bits))
  || (c.kind == "int" && decide (64 ≤ c.bits))
  || (c.kind == "int" && decide (32 ≤ c.bits) && nodeListValues.contains c.value)
  || (c.kind == "int" && decide (8 ≤ c.bits) && adjacencyValues.contains c.value)
  || (c.kind == "int" && decide (8 ≤ c.bits) && c.callee == "np.eye")

open Pyunicorn.Generated in
/-- **every explicit dtype conversion in the cross_/internal_/nsi_ methods of the current source
is safe** (regenerated from `interacting_networks.py` and `_ext/types.py` on every run): no
degree, count or normalisation is ever narrowed below 64 bits. -/
theorem casts_safe : StructC11.casts.all safeCast = true := by decide +kernel

example : safeCast ⟨"cross_local_clustering", "to_cy",
    "InteractingNetworks.cross_degree(self, nodes1, nodes2)", "DEGREE", "int", 16⟩ = false := by
  decide +kernel

open Pyunicorn.Generated in
/-- **the counters of the compiled kernels are C `long`s** (64 bit on the supported platforms,
`counters_fit_long`), the loop variables `int` (list lengths `< 2^31`), the node numbers `NODE_t`
and all sums of weights `DWEIGHT_t` (double) — read from the `cdef:` blocks of the current
`numerics.pyx` -/
theorem counters_are_long :
    (StructC11.cdecls.filter fun d => ["triangles", "triples", "counter"].contains d.name).map
        (fun d => (d.kernel, d.ctype))
      = [("_cross_transitivity", "long"), ("_cross_transitivity", "long"),
         ("_cross_local_clustering", "long")]
    ∧ (StructC11.cdecls.all fun d =>
        ["int", "long", "NODE_t", "DWEIGHT_t"].contains d.ctype) = true := by
  decide +kernel

/-- adjacency entries, also with the identity added (`adjacency + eye`), are at most 2 -/
theorem adjacency_values_fit_int8 (A : Adj) (a b : Nat) :
    b2n (A a b) + b2n (a == b) ≤ 2 ∧ (2 : Nat) < 2 ^ 7 := by
  constructor
  · unfold b2n; split <;> split <;> omega
  · decide

/-! ## Round 4 -/

section Betweenness
open Pyunicorn.NetBetw

/-! ### the betweenness delegates (`cross_betweenness`, `internal_betweenness`,
`nsi_cross_betweenness`) through C03's model of the kernel `_nsi_betweenness` -/

/-- **the source mask is the membership mask of `node_list1`**: `is_source[sources] = 1` (one store
per listed node) leaves `is_source[v] = 1` exactly for the listed nodes — order and repetitions of
the list are irrelevant. -/
theorem srcMask_is_membership (n : Nat) (L : List Nat) :
    srcMask n L = (List.range n).map fun v => decide (v ∈ L) := srcMask_eq n L

example : srcMask 4 [2, 0, 2] = [true, false, true, false] := by decide

/-- **the betweenness of the groups is a sum over the target list** (the kernel's loop
`for j in targets` with `betweenness_times_w += …`, then the wrapper's division by `w`):
entry `v` is `(1/w_v) Σ_{t ∈ L2} w_t · (sweep result of target t at v)` -/
theorem nsiCrossBetweenness_sum_over_targets (n : Nat) (A : Adj) (w : Nat → Rat)
    (L1 L2 : List Nat) :
    nsiCrossBetweenness n A w L1 L2 = (List.range n).map fun v =>
      (L2.map fun t => w t * sweepDiff n A w (srcMask n L1) t v).sum / w v :=
  nsiBetweenness_entry n A w (srcMask n L1) L2

/-- **order independence in both groups**: `nsi_cross_betweenness` (and, with unit weights,
`cross_betweenness`) returns the same vector for every ordering of `node_list1` and of
`node_list2`, on every network. -/
theorem nsiCrossBetweenness_perm (n : Nat) (A : Adj) (w : Nat → Rat) {L1 L1' L2 L2' : List Nat}
    (h1 : L1.Perm L1') (h2 : L2.Perm L2') :
    nsiCrossBetweenness n A w L1 L2 = nsiCrossBetweenness n A w L1' L2' := by
  rw [nsiCrossBetweenness_sum_over_targets, nsiCrossBetweenness_sum_over_targets,
    srcMask_perm n h1]
  apply List.map_congr_left
  intro v _
  rw [(h2.map fun t => w t * sweepDiff n A w (srcMask n L1') t v).sum_eq]

theorem crossBetweenness_perm (n : Nat) (A : Adj) {L1 L1' L2 L2' : List Nat}
    (h1 : L1.Perm L1') (h2 : L2.Perm L2') :
    crossBetweenness n A L1 L2 = crossBetweenness n A L1' L2' :=
  nsiCrossBetweenness_perm n A (fun _ => 1) h1 h2

/-- **additivity in the target group**: the betweenness with respect to `(L1, L2 ++ L2')` is the
entry-wise sum of those with respect to `(L1, L2)` and `(L1, L2')` — for every network, weight
vector and source group. -/
theorem nsiCrossBetweenness_targets_append (n : Nat) (A : Adj) (w : Nat → Rat)
    (L1 L2 L2' : List Nat) :
    nsiCrossBetweenness n A w L1 (L2 ++ L2')
      = List.zipWith (· + ·) (nsiCrossBetweenness n A w L1 L2) (nsiCrossBetweenness n A w L1 L2') := by
  simp only [nsiCrossBetweenness_sum_over_targets]
  rw [zipWith_map_self]
  apply List.map_congr_left
  intro v _
  rw [List.map_append, List.sum_append, add_div]

/-- **whole-network limit of the betweenness delegates**: with `L` any ordering of all nodes,
`cross_betweenness(L, L) = internal_betweenness(L) = Network.interregional_betweenness()` (its
defaults: every node a source, `targets = arange(N)`) and
`nsi_cross_betweenness(L, L) = Network.nsi_betweenness()`. -/
theorem whole_nsi_betweenness (n : Nat) (A : Adj) (w : Nat → Rat) (L : List Nat)
    (h : L.Perm (List.range n)) :
    nsiCrossBetweenness n A w L L = netNsiBetweenness n A w :=
  nsiCrossBetweenness_perm n A w h h

theorem whole_betweenness (n : Nat) (A : Adj) (L : List Nat) (h : L.Perm (List.range n)) :
    crossBetweenness n A L L = netInterregionalBetweenness n A
      ∧ internalBetweenness n A L = netInterregionalBetweenness n A :=
  ⟨crossBetweenness_perm n A h h, crossBetweenness_perm n A h h⟩

/-- `nsi_betweenness(…, nsi=False)` replaces the weights by `np.ones_like(w)`: with unit node
weights the n.s.i. measure *is* the unweighted one -/
theorem nsiCrossBetweenness_unit_weights (n : Nat) (A : Adj) (L1 L2 : List Nat) :
    nsiCrossBetweenness n A (fun _ => 1) L1 L2 = crossBetweenness n A L1 L2 := rfl

/-- the default mask `is_source[range(0, N)] = 1` marks every node -/
theorem srcMaskAll_all (n : Nat) : srcMaskAll n = List.replicate n true := srcMaskAll_eq n

/-- **partial.**  Full statement: for every undirected loop-free network, positive node weights and
node lists, `nsi_cross_betweenness(L1, L2)[v] = (1/w_v) Σ_{t ∈ L2} Σ_{s ∈ L1, s ≠ v ≠ t}
w_t w_s σ_ts(v)/σ_ts` (`σ` = weighted number of shortest paths; unit weights: `cross_betweenness`
= number of shortest paths between the groups through `v`, as fractions of all shortest paths of
the pair), i.e. `nsiCrossBetweenness n A w L1 L2 = crossBetweennessDef n A w L1 L2`.
Proved here for every network, weight vector and pair of lists: the delegation chain (mask,
weights, target order), the loop over the targets and the final division turn per-target sweep
results that equal the definition's inner sum into the published double sum.  Missing here: the
hypothesis `h` itself (the kernel's forward and backward sweeps for one target compute
`contribDef`).  **Round 5b: the full statement is now proved** as `nsiCrossBetweenness_eq_def`
(section "Round 5b" below; `h` is C03's theorem `NetBetw.sweepDiff_eq_contribDef` for every
undirected network, positive weights and targets `< N`); this theorem stays as the assembly step
(it needs no hypothesis on the network).  Both sides are still evaluated in exact rational
arithmetic by the driver on a sample of the cases of every run (`cross_betweenness` /
`cross_betweenness_def` must coincide) — a correspondence, no longer a hypothesis. -/
theorem nsiCrossBetweenness_eq_def_partial (n : Nat) (A : Adj) (w : Nat → Rat) (L1 L2 : List Nat)
    (h : ∀ t, t ∈ L2 → ∀ v, v < n →
      sweepDiff n A w (srcMask n L1) t v
        = contribDef n A w (Pyunicorn.Net.dist n A) (srcMask n L1) t v) :
    nsiCrossBetweenness n A w L1 L2 = crossBetweennessDef n A w L1 L2 :=
  nsiBetweenness_assembly n A w (srcMask n L1) L2 (Pyunicorn.Net.dist n A) h

/-- the definition's source set is `node_list1`: `excess_to_j[s] = w_s` for `s ∈ L1`, else 0 -/
theorem crossBetweennessDef_sources (n : Nat) (w : Nat → Rat) (L1 : List Nat) (s : Nat)
    (hs : s < n) : excess w (srcMask n L1) s = if s ∈ L1 then w s else 0 := by
  unfold excess
  rw [srcMask_getD n L1 s hs]
  simp

/-- the path 0–1–2 with groups `[0]`, `[2]`: one shortest path, through node 1 -/
example : crossBetweenness 3 (fun a b => a + 1 == b || b + 1 == a) [0] [2] = [0, 1, 0] := by
  decide +kernel
example : crossBetweenness 3 (fun a b => a + 1 == b || b + 1 == a) [0] [2]
    = crossBetweennessDef 3 (fun a b => a + 1 == b || b + 1 == a) (fun _ => 1) [0] [2] := by
  decide +kernel
example : nsiCrossBetweenness 3 (fun a b => a + 1 == b || b + 1 == a) (fun i => (i : Rat) + 1)
    [2, 0] [1, 2] ≠ [0, 0, 0] := by decide +kernel

/-- **the assertion of `Network._nsi_betweenness`** (`k.sum() == len(flat_neighbors) ==
2 * self.n_links`) holds on every undirected loop-free network (the non-zero entries come in
mirror pairs) and fails on every directed network with at least one link — the three delegates
raise `AssertionError` there. -/
theorem betwAssert_iff (directed : Bool) (A : Adj) (hA : directed = false → Symm A)
    (hloop : ∀ a, A a a = false) (n : Nat) :
    betwAssertHolds directed n A = true ↔ (directed = false ∨ netNonzeros n A = 0) := by
  unfold betwAssertHolds netNLinks
  cases directed with
  | false =>
    have hk := netNonzeros_even A (hA rfl) hloop n
    generalize netNonzeros n A = z at hk ⊢
    generalize pairSum (fun a b => b2n (A a b)) (List.range n) = k at hk
    subst hk
    simp
  | true =>
    simp
    omega

end Betweenness

/-! ### whole-network limits of the closeness measures under their own conventions -/

/-- **whole-network limit of `internal_closeness`, connected or not**: with `L` any ordering of all
nodes, entry `i` is `(N − 1) / Σ_j d'_ij` over the whole network with an unreachable node counted
as `N − 1` (`closenessConv (N − 1)`), `0` where the sum vanishes. -/
theorem whole_internal_closeness_conv (D : Dist) (n : Nat) (L : List Nat)
    (h : L.Perm (List.range n)) :
    internalCloseness D L = L.map (closenessConv ((n : Rat) - 1) n D) := by
  have hl : L.length = n := by simpa using h.length_eq
  unfold internalCloseness generalCloseness closenessConv
  simp only [block, List.map_map, Function.comp_def, hl]
  apply List.map_congr_left
  intro a _
  rw [sum_perm_range h]
  push_cast
  by_cases hz : ((List.range n).map fun b => (D a b).getD ((n : Rat) - 1)).sum = 0
  · simp [hz]
  · simp [hz]

/-- **whole-network limit of `cross_closeness`**: with both groups = all nodes the cross closeness
is the internal closeness up to the two normalisations `M = N` and `M − 1 = N − 1` (the sums and
the convention `N − 1` for unreachable nodes coincide): `(N − 1) · cross_closeness(L, L)[i]
= N · internal_closeness(L)[i]`, on every network. -/
theorem whole_cross_closeness (D : Dist) (n : Nat) (L : List Nat) (h : L.Perm (List.range n)) :
    (crossCloseness n D L L).map (· * ((n : Rat) - 1))
      = (internalCloseness D L).map (· * (n : Rat)) := by
  have hl : L.length = n := by simpa using h.length_eq
  unfold crossCloseness internalCloseness generalCloseness
  simp only [block, List.map_map, Function.comp_def, hl]
  apply List.map_congr_left
  intro a _
  push_cast
  split <;> ring

/-- the weighted branch of `Network.closeness` is the closeness with unreachable nodes counted
as `N` -/
theorem closenessW_eq_conv (n : Nat) (D : Dist) (i : Nat) :
    Net.closenessW n D i = closenessConv (n : Rat) n D i := by
  unfold Net.closenessW closenessConv Net.sumToQ
  cases n with
  | zero => simp
  | succ m => simp only [Nat.add_sub_cancel]; push_cast; simp

/-- on a row without unreachable node the convention does not matter … -/
theorem closenessConv_congr (c c' : Rat) (n : Nat) (D : Dist) (i : Nat)
    (hrow : ∀ j, j < n → (D i j).isSome) :
    closenessConv c n D i = closenessConv c' n D i := by
  unfold closenessConv
  have e : ((List.range n).map fun j => (D i j).getD c)
      = (List.range n).map fun j => (D i j).getD c' := by
    apply List.map_congr_left
    intro j hj
    have := hrow j (List.mem_range.mp hj)
    cases hd : D i j with
    | none => simp [hd] at this
    | some v => rfl
  rw [e]

/-- … and on a row with an unreachable node it does, strictly: the larger the distance assigned
to unreachable nodes, the smaller the closeness (non-negative path lengths, `N ≥ 2`). -/
theorem closenessConv_strict (c c' : Rat) (hc : 0 < c) (hcc : c < c') (n : Nat) (hn : 2 ≤ n)
    (D : Dist) (i : Nat) (hnn : ∀ j d, D i j = some d → 0 ≤ d)
    (hu : ∃ j, j < n ∧ D i j = none) :
    closenessConv c' n D i < closenessConv c n D i := by
  unfold closenessConv
  have key : ∀ x : Rat, ((List.range n).map fun j => (D i j).getD x).sum
      = (finiteOf ((List.range n).map fun j => D i j)).sum
        + ((((List.range n).map fun j => D i j).filter Option.isNone).length : Rat) * x := by
    intro x
    rw [← row_getD_sum, List.map_map]
    rfl
  simp only [key]
  generalize hF : (finiteOf ((List.range n).map fun j => D i j)).sum = F
  generalize hU : ((((List.range n).map fun j => D i j).filter Option.isNone).length) = u
  have hF0 : 0 ≤ F := by
    rw [← hF]
    apply sum_nonneg_rat
    intro d hd
    rw [finiteOf_mem] at hd
    simp only [List.mem_map] at hd
    obtain ⟨j, _, hj⟩ := hd
    exact hnn j d hj
  have hu1 : 1 ≤ u := by
    obtain ⟨j, hj, hd⟩ := hu
    rw [← hU]
    apply List.length_pos_of_mem (a := none)
    simp only [List.mem_filter, List.mem_map, List.mem_range, Option.isNone_none, and_true]
    exact ⟨j, hj, hd⟩
  have hu1' : (1 : Rat) ≤ (u : Rat) := by exact_mod_cast hu1
  have hs : 0 < F + (u : Rat) * c := by nlinarith
  have hs' : F + (u : Rat) * c < F + (u : Rat) * c' := by nlinarith
  have hn1 : (0 : Rat) < (n : Rat) - 1 := by
    have : (2 : Rat) ≤ (n : Rat) := by exact_mod_cast hn
    linarith
  rw [if_neg (ne_of_gt (lt_trans hs hs')), if_neg (ne_of_gt hs)]
  exact div_lt_div_of_pos_left hn1 hs hs'

/-- **the whole-network limit of the closeness holds exactly on the rows without unreachable
node**: `internal_closeness(L)[i] = Network.closeness(link_attribute)[i]` if every node is
reachable from `i`, and `internal_closeness(L)[i] > Network.closeness(link_attribute)[i]` otherwise
(the former counts an unreachable node as `N − 1`, the latter as `N`) — `L` any ordering of all
nodes, `N ≥ 2`, non-negative path lengths. -/
theorem whole_closeness_rows (D : Dist) (n : Nat) (hn : 2 ≤ n) (L : List Nat)
    (h : L.Perm (List.range n)) (hnn : ∀ i j d, D i j = some d → 0 ≤ d) :
    ∃ f : Nat → Rat, internalCloseness D L = L.map f ∧ ∀ i,
      ((∀ j, j < n → (D i j).isSome) → f i = Net.closenessW n D i) ∧
      ((∃ j, j < n ∧ D i j = none) → Net.closenessW n D i < f i) := by
  refine ⟨closenessConv ((n : Rat) - 1) n D, whole_internal_closeness_conv D n L h, ?_⟩
  intro i
  have hn2 : (2 : Rat) ≤ (n : Rat) := by exact_mod_cast hn
  constructor
  · intro hrow
    rw [closenessW_eq_conv]
    exact closenessConv_congr _ _ n D i hrow
  · intro hu
    rw [closenessW_eq_conv]
    exact closenessConv_strict ((n : Rat) - 1) (n : Rat) (by linarith) (by linarith) n hn D i
      (hnn i) hu

/-- two components {0,1}, {2}: node 0 has closeness `2/(0+1+2) = 2/3` internally and
`2/(0+1+3) = 1/2` in `Network.closeness` -/
example : internalCloseness (fun a b => if a = b then some 0 else if a + b = 1 then some 1 else none)
      [0, 1, 2] = [2 / 3, 2 / 3, 1 / 2]
    ∧ Net.closenessW 3 (fun a b => if a = b then some 0 else if a + b = 1 then some 1 else none) 0
      = 1 / 2 := by decide +kernel

/-- **closeness of a node against the rest of the network**: `cross_closeness([i], all other
nodes)` is the whole-network closeness of `i` (unreachable nodes counted as `N − 1`), i.e. entry
`i` of `internal_closeness(all nodes)` — and therefore `Network.closeness(link_attribute)[i]`
whenever every node is reachable from `i`. -/
theorem singleton_cross_closeness (n : Nat) (D : Dist) (i : Nat) (hi : i < n)
    (hdiag : D i i = some 0) :
    crossCloseness n D [i] (others n i) = [closenessConv ((n : Rat) - 1) n D i] := by
  unfold crossCloseness generalCloseness closenessConv
  simp only [block, List.map_cons, List.map_nil, List.map_map, Function.comp_def]
  have hs := sum_others n i hi (fun j => (D i j).getD ((n : Rat) - 1))
  simp only [hdiag, Option.getD_some, add_zero] at hs
  have hl : ((others n i).length : Rat) = (n : Rat) - 1 := by
    have := others_length n i hi
    have h2 : (((others n i).length + 1 : Nat) : Rat) = (n : Rat) := by exact_mod_cast this
    push_cast at h2
    linarith
  push_cast
  rw [hs]
  by_cases hz : ((List.range n).map fun j => (D i j).getD ((n : Rat) - 1)).sum = 0
  · simp [hz]
  · simp [hz, hl]

example : crossCloseness 3 (fun a b => if a = b then some 0 else some 2) [1] (others 3 1) = [1 / 2]
    ∧ others 3 1 = [0, 2] := by decide +kernel


/-! ### efficiency: the degenerate limit and the decomposition that does hold -/

/-- **both groups = all nodes is a degenerate limit of the efficiencies**: the diagonal of the
path-length block is zero, `1/0 = inf` enters every row mean, so every `local_efficiency(L, L)`
is `inf` and `global_efficiency(L, L) = 1/inf = 0` — on every network with at least one node
(`Network.global_efficiency` excludes the diagonal instead; the relation that does hold is
`whole_global_efficiency_as_mean_local`). -/
theorem whole_efficiency_degenerate (D : Dist) (n : Nat) (hn : 1 ≤ n) (L : List Nat)
    (h : L.Perm (List.range n)) (hdiag : ∀ i, i < n → D i i = some 0) :
    localEfficiency D L L = none ∧ globalEfficiency D L L = .val 0 := by
  have hl : L.length = n := by simpa using h.length_eq
  have h0 : 0 ∈ L := h.mem_iff.mpr (List.mem_range.mpr (by omega))
  have hany : ((block D L L).any fun r => r.any (· == some 0)) = true := by
    rw [List.any_eq_true]
    refine ⟨L.map fun b => D 0 b, ?_, ?_⟩
    · simp only [block, List.mem_map]
      exact ⟨0, h0, rfl⟩
    · rw [List.any_eq_true]
      refine ⟨D 0 0, ?_, ?_⟩
      · simp only [List.mem_map]
        exact ⟨0, h0, rfl⟩
      · simp [hdiag 0 (by omega)]
  have hle : localEfficiency D L L = none := by
    unfold localEfficiency
    simp [hany]
  refine ⟨hle, ?_⟩
  unfold globalEfficiency
  rw [hle]
  have : L.length ≠ 0 := by omega
  simp [this]

example : globalEfficiency (fun a b => if a = b then some 0 else some 1) [1, 0] [1, 0] = .val 0 := by
  decide +kernel

/-- local efficiency of node `i` against all other nodes -/
def effRest (n : Nat) (D : Dist) (i : Nat) : Rat :=
  ((List.range n).map fun j => if i = j then 0 else invD (D i j)).sum / ((n : Rat) - 1)

/-- `local_efficiency([i], all other nodes)` is the mean of `1/d_ij` over `j ≠ i` -/
theorem singleton_local_efficiency (n : Nat) (hn : 2 ≤ n) (D : Dist) (i : Nat) (hi : i < n)
    (hpos : ∀ j, j < n → i ≠ j → D i j ≠ some 0) :
    localEfficiency D [i] (others n i) = some [effRest n D i] := by
  have hlen := others_length n i hi
  have hl : ((others n i).length : Rat) = (n : Rat) - 1 := by
    have h2 : (((others n i).length + 1 : Nat) : Rat) = (n : Rat) := by exact_mod_cast hlen
    push_cast at h2
    linarith
  have hl0 : (others n i).length ≠ 0 := by omega
  have hany : ((block D [i] (others n i)).any fun r => r.any (· == some 0)) = false := by
    simp only [block, List.map_cons, List.map_nil, List.any_cons, List.any_nil, Bool.or_false,
      List.any_map, List.any_eq_false, Function.comp_def]
    intro j hj
    obtain ⟨hjn, hji⟩ := (mem_others n i j).mp hj
    simpa using hpos j hjn (fun e => hji e.symm)
  unfold localEfficiency effRest
  simp only [hl0, hany, false_or, Bool.false_eq_true, if_false]
  simp only [block, List.map_cons, List.map_nil, List.map_map, Function.comp_def, hl]
  rw [sum_others_ite n i hi (fun j => invD (D i j))]

/-- **whole-network relation of the efficiencies**: `Network.global_efficiency(link_attribute)` is
the mean over all nodes `i` of `local_efficiency([i], all other nodes)[0]` — for every network
with `N ≥ 2` and no zero distance between different nodes. -/
theorem whole_global_efficiency_as_mean_local (n : Nat) (hn : 2 ≤ n) (D : Dist)
    (hpos : ∀ i j, i < n → j < n → i ≠ j → D i j ≠ some 0) :
    (∀ i, i < n → localEfficiency D [i] (others n i) = some [effRest n D i])
      ∧ netGlobalEfficiency n D
          = some (.val (((List.range n).map (effRest n D)).sum / (n : Rat))) := by
  refine ⟨fun i hi => singleton_local_efficiency n hn D i hi (fun j hj hij => hpos i j hi hj hij), ?_⟩
  have hnn : n * (n - 1) ≠ 0 := by
    have : 1 ≤ n - 1 := by omega
    exact Nat.mul_ne_zero (by omega) (by omega)
  have hany : ((List.range n).any fun i => (List.range n).any fun j => i != j && D i j == some 0)
      = false := by
    rw [List.any_eq_false]
    intro i hi
    rw [List.any_eq_true]
    rintro ⟨j, hj, hc⟩
    simp only [Bool.and_eq_true, bne_iff_ne, ne_eq, beq_iff_eq] at hc
    exact hpos i j (List.mem_range.mp hi) (List.mem_range.mp hj) hc.1 hc.2
  unfold netGlobalEfficiency
  simp only [hnn, hany, if_false, Bool.false_eq_true]
  congr 2
  unfold effRest
  rw [sum_div_const]
  have h1 : ((n * (n - 1) : Nat) : Rat) = (n : Rat) * ((n : Rat) - 1) := by
    have : 1 ≤ n := by omega
    rw [Nat.cast_mul, Nat.cast_sub this]; push_cast; ring
  have hn0 : (n : Rat) ≠ 0 := by
    have : (2 : Rat) ≤ (n : Rat) := by exact_mod_cast hn
    intro e; linarith
  have hn1 : (n : Rat) - 1 ≠ 0 := by
    have : (2 : Rat) ≤ (n : Rat) := by exact_mod_cast hn
    intro e; linarith
  rw [h1]
  field_simp

example : netGlobalEfficiency 3 (fun a b => if a = b then some 0 else some 2) = some (.val (1 / 2))
    ∧ localEfficiency (fun a b => if a = b then some 0 else some 2) [1] (others 3 1) = some [1 / 2] := by
  decide +kernel


/-! ### n.s.i. limits on networks that are not connected -/

/-- **whole-network form of the n.s.i. closeness, connected or not**: with `L` any ordering of all
nodes, entry `i` of `nsi_cross_closeness_centrality(L, L)` is `W / Σ_j w_j d*_ij` over the whole
network, an unreachable node counted as `N − 1`. -/
theorem whole_nsi_closeness_conv (D : Dist) (w : Nat → Rat) (n : Nat) (L : List Nat)
    (h : L.Perm (List.range n)) :
    nsiCrossCloseness n D w L L = L.map fun a =>
      let s := ((List.range n).map fun b => nsiDist n D a b * w b).sum
      if s = 0 then none else some (((List.range n).map w).sum / s) := by
  unfold nsiCrossCloseness wsum
  apply List.map_congr_left
  intro a _
  simp only [sum_perm_range h]

/-- **the whole-network limit of the n.s.i. closeness holds exactly on the rows without
unreachable node** (row-wise strengthening of `whole_nsi_closeness`; on directed networks single
rows can be complete without the network being strongly connected). -/
theorem whole_nsi_closeness_row (D : Dist) (w : Nat → Rat) (n : Nat) (L : List Nat)
    (h : L.Perm (List.range n)) (i : Nat) (hi : i < L.length)
    (hrow : ∀ j, j < n → (D L[i] j).isSome) :
    (nsiCrossCloseness n D w L L)[i]? = some (netNsiCloseness n D w L[i]) := by
  rw [whole_nsi_closeness_conv D w n L h]
  simp only [List.getElem?_map, List.getElem?_eq_getElem hi, Option.map_some]
  congr 1
  generalize L[i] = a at hrow
  unfold netNsiCloseness
  have hany : ((List.range n).any fun j => (D a j).isNone) = false := by
    rw [List.any_eq_false]
    intro j hj
    have := hrow j (List.mem_range.mp hj)
    cases hd : D a j with
    | none => simp [hd] at this
    | some v => simp
  simp only [hany, Bool.false_eq_true, if_false]
  have hs : ((List.range n).map fun b => nsiDist n D a b * w b)
      = (List.range n).map fun j => ((D a j).getD 0 + (if a = j then 1 else 0)) * w j := by
    apply List.map_congr_left
    intro j hj
    have := hrow j (List.mem_range.mp hj)
    unfold nsiDist
    cases hd : D a j with
    | none => simp [hd] at this
    | some v => simp
  rw [hs]

/-- … and fails on every other row: `Network.nsi_closeness` is `0` there (`inf` in the dot
product), the cross measure is positive (`N − 1` for the unreachable nodes) — positive node
weights, non-negative path lengths, `N ≥ 2`. -/
theorem whole_nsi_closeness_disconnected (D : Dist) (w : Nat → Rat) (hw : ∀ j, 0 < w j) (n : Nat)
    (hn : 2 ≤ n) (a : Nat) (hnn : ∀ j d, D a j = some d → 0 ≤ d)
    (hu : ∃ j, j < n ∧ D a j = none) :
    netNsiCloseness n D w a = some 0
      ∧ ∃ x : Rat, 0 < x ∧
        (let s := ((List.range n).map fun b => nsiDist n D a b * w b).sum
         if s = 0 then none else some (((List.range n).map w).sum / s)) = some x := by
  obtain ⟨j, hj, hd⟩ := hu
  constructor
  · unfold netNsiCloseness
    have hany : ((List.range n).any fun j => (D a j).isNone) = true := by
      rw [List.any_eq_true]
      exact ⟨j, List.mem_range.mpr hj, by simp [hd]⟩
    simp [hany]
  · have hn2 : (2 : Rat) ≤ (n : Rat) := by exact_mod_cast hn
    have hterm : ∀ b, 0 ≤ nsiDist n D a b * w b := by
      intro b
      apply mul_nonneg _ (le_of_lt (hw b))
      unfold nsiDist
      cases hb : D a b with
      | none => push_cast; linarith
      | some d =>
        have := hnn b d hb
        simp only []
        split <;> linarith
    have hj' : 0 < nsiDist n D a j * w j := by
      apply mul_pos _ (hw j)
      unfold nsiDist
      rw [hd]
      push_cast; linarith
    have hs : 0 < ((List.range n).map fun b => nsiDist n D a b * w b).sum := by
      have hmem : nsiDist n D a j * w j ∈ (List.range n).map fun b => nsiDist n D a b * w b :=
        List.mem_map.mpr ⟨j, List.mem_range.mpr hj, rfl⟩
      have hle := List.single_le_sum (l := (List.range n).map fun b => nsiDist n D a b * w b)
        (by
          intro x hx
          obtain ⟨b, _, rfl⟩ := List.mem_map.mp hx
          exact hterm b) _ hmem
      linarith
    have hW : 0 < ((List.range n).map w).sum := by
      have hmem : w 0 ∈ (List.range n).map w := List.mem_map.mpr ⟨0, List.mem_range.mpr (by omega), rfl⟩
      have hle := List.single_le_sum (l := (List.range n).map w)
        (by
          intro x hx
          obtain ⟨b, _, rfl⟩ := List.mem_map.mp hx
          exact le_of_lt (hw b)) _ hmem
      have := hw 0
      linarith
    refine ⟨((List.range n).map w).sum / ((List.range n).map fun b => nsiDist n D a b * w b).sum,
      div_pos hW hs, ?_⟩
    simp only [if_neg (ne_of_gt hs)]

/-- **what `nsi_cross_average_path_length(L, L)` computes on a whole network that is not
connected** (the known finding `C11-nsi-cross-apl-unreachable`, exactly): with `U` the set of
unreachable ordered pairs, numerator and denominator are those of
`Network.nsi_average_path_length()` plus `(N − 1) · Σ_U w_a w_b` and
`Σ_U (w_a w_b − w_a − w_b)` respectively — so the two methods agree whenever `U` is empty
(`whole_nsi_average_path_length`) and in general not otherwise. -/
theorem whole_nsi_apl_parts (D : Dist) (w : Nat → Rat) (n : Nat) (L : List Nat)
    (h : L.Perm (List.range n)) :
    let R := List.range n
    let U2 := (R.map fun a => (R.map fun b => if (D a b).isNone then w a * w b else 0).sum).sum
    let U1 := (R.map fun a => (R.map fun b => if (D a b).isNone then w a + w b else 0).sum).sum
    let num := (R.map fun i => w i * (R.map fun j => nsiDistZ D i j * w j).sum).sum
    let den := (R.map fun i => (R.map fun j => if (D i j).isNone then 0 else w i * w j).sum).sum
    nsiCrossAPLParts n D w L L = (num + (((n : Int) - 1 : Int) : Rat) * U2, den + U2 - U1) := by
  intro R U2 U1 num den
  unfold nsiCrossAPLParts
  simp only [wsum, sum_perm_range h]
  have hnum : ((List.range n).map fun a =>
        ((List.range n).map fun b => nsiDist n D a b * w b).sum * w a).sum
      = num + (((n : Int) - 1 : Int) : Rat) * U2 := by
    have e1 : ((List.range n).map fun a =>
          ((List.range n).map fun b => nsiDist n D a b * w b).sum * w a).sum
        = ((List.range n).map fun a => ((List.range n).map fun b =>
            (w a * (nsiDistZ D a b * w b))
              + (((n : Int) - 1 : Int) : Rat) * (if (D a b).isNone then w a * w b else 0)).sum).sum := by
      congr 1
      apply List.map_congr_left
      intro a _
      rw [mul_comm, ← sum_map_mul_left_rat]
      congr 1
      apply List.map_congr_left
      intro b _
      unfold nsiDist nsiDistZ
      cases D a b <;> simp; ring
    rw [e1, dsum_add, dsum_mul_left]
    congr 1
    apply congrArg List.sum
    apply List.map_congr_left
    intro a _
    rw [sum_map_mul_left_rat]
  have hden : ((List.range n).map w).sum * ((List.range n).map w).sum - U1 = den + U2 - U1 := by
    congr 1
    rw [sum_mul_sum]
    show _ = den + U2
    rw [← dsum_add]
    apply dsum_congr
    intro a b
    cases (D a b).isNone <;> simp
  rw [hnum, hden]

/-- two isolated nodes of weights 1 and 2: `Network.nsi_average_path_length` = (1 + 4)/(1 + 4) = 1,
the cross method gives (5 + 1·4) / (5 + 4 − 6) = 3 -/
example : nsiCrossAPL 2 (fun a b => if a = b then some 0 else none) (fun i => (i : Rat) + 1) [0, 1] [0, 1]
      = some 3
    ∧ netNsiAPL 2 (fun a b => if a = b then some 0 else none) (fun i => (i : Rat) + 1) = some 1 := by
  decide +kernel

/-! ### numpy's integer accumulation -/

/-- **accumulating a row sum in a signed integer type is exact while the sum fits**: every
partial sum of non-negative entries is `≤` the total, so no `wrap` is ever active -/
theorem sumW_exact (m : Int) (l : List Int) (h0 : ∀ x ∈ l, 0 ≤ x) (hs : l.sum < m) :
    sumW m l = l.sum := by
  unfold sumW
  rw [foldl_wrap_exact m l 0 (le_refl 0) h0 (by omega)]
  omega

/-- **`cross_outdegree` (row sums of the `int8` block) in numpy's default accumulator**: `np.sum`
of an `int8`/`int16` array accumulates in the platform integer (64 bits: range `[-2^63, 2^63)`),
where the sum of a 0/1 row of fewer than `2^63` entries is exact — the model's `Nat` row sums are
what the code returns. -/
theorem crossOutDegree_int64_accumulation (A : Adj) (L1 L2 : List Nat)
    (h2 : (L2.length : Int) < 2 ^ 63) :
    crossOutDegreeW (2 ^ 63) A L1 L2 = (crossOutDegree A L1 L2).map fun (k : Nat) => (k : Int) := by
  unfold crossOutDegreeW crossOutDegree rowSums blockN block
  simp only [List.map_map, Function.comp_def]
  apply List.map_congr_left
  intro a _
  have hcast' : ∀ M : List Nat, ((M.map fun b => ((b2n (A a b) : Nat) : Int)).sum)
      = (((M.map fun b => b2n (A a b)).sum : Nat) : Int) := by
    intro M
    induction M with
    | nil => simp
    | cons b t ih => simp only [List.map_cons, List.sum_cons, Nat.cast_add, ih]
  have hcast := hcast' L2
  rw [sumW_exact]
  · exact hcast
  · intro x hx
    obtain ⟨b, _, rfl⟩ := List.mem_map.mp hx
    exact Int.natCast_nonneg _
  · rw [hcast]
    have := sum_b2n_le (fun b => A a b) L2
    omega

/-- … whereas an `int8` accumulator (`np.sum(…, dtype=np.int8)`, or a block that is summed by
hand in its own dtype) wraps from a cross degree of 128 on -/
theorem crossOutDegree_int8_accumulation_wraps :
    crossOutDegreeW (2 ^ 7) (fun _ _ => true) [0] (List.range' 1 127) = [127]
      ∧ crossOutDegreeW (2 ^ 7) (fun _ _ => true) [0] (List.range' 1 128) = [-128] := by
  decide +kernel

example : sumW (2 ^ 15) (List.replicate 300 127) = List.foldl (fun acc x => wrap (2 ^ 15) (acc + x)) 0
    (List.replicate 300 127) := rfl

/-! ### the delegation chain of the betweenness measures in the current source
(`Generated/StructC11.lean`, round 4) -/

open Pyunicorn.Generated in
/-- **about the regenerated table of pure delegates**: `cross_betweenness(L1, L2)`,
`internal_betweenness(L)` and `nsi_cross_betweenness(L1, L2)` only return
`interregional_betweenness(sources=L1, targets=L2)` / `(sources=L, targets=L)` /
`nsi_interregional_betweenness(sources=L1, targets=L2)`, which only return
`nsi_betweenness(sources, targets[, nsi=False])` — the argument routing of `crossBetweenness`,
`internalBetweenness`, `nsiCrossBetweenness`; likewise `nsi_internal_* (L) = nsi_cross_* (L, L)`. -/
theorem betweenness_delegates_as_modelled :
    StructC11.delegates.filter (fun d => d.func ∈ ["cross_betweenness", "internal_betweenness",
        "nsi_cross_betweenness", "Network.interregional_betweenness",
        "Network.nsi_interregional_betweenness", "nsi_internal_degree",
        "nsi_internal_closeness_centrality", "nsi_internal_local_clustering"])
      = [⟨"cross_betweenness", "self.interregional_betweenness",
            ["sources=node_list1", "targets=node_list2"]⟩,
         ⟨"internal_betweenness", "self.interregional_betweenness",
            ["sources=node_list", "targets=node_list"]⟩,
         ⟨"nsi_internal_degree", "self.nsi_cross_degree", ["node_list", "node_list"]⟩,
         ⟨"nsi_internal_closeness_centrality", "self.nsi_cross_closeness_centrality",
            ["node_list", "node_list"]⟩,
         ⟨"nsi_internal_local_clustering", "self.nsi_cross_local_clustering",
            ["node_list", "node_list"]⟩,
         ⟨"nsi_cross_betweenness", "self.nsi_interregional_betweenness",
            ["sources=node_list1", "targets=node_list2"]⟩,
         ⟨"Network.interregional_betweenness", "self.nsi_betweenness",
            ["sources=sources", "targets=targets", "nsi=False"]⟩,
         ⟨"Network.nsi_interregional_betweenness", "self.nsi_betweenness",
            ["sources=sources", "targets=targets"]⟩] := by
  decide +kernel

open Pyunicorn.Generated in
/-- **about the regenerated statements of `Network.nsi_betweenness` / `_nsi_betweenness`**: the
mask starts as zeros and gets one store `is_source[sources] = 1` (default: all nodes) —
`srcMask`, `srcMaskAll`; the targets keep the caller's order (default `arange(N)`); the weights
are replaced by ones unless `nsi`; `k = outdegree`, `flat_neighbors` = column indices of the
non-zero coordinates; the guard `k.sum() == len(flat_neighbors) == 2 * n_links`
(`betwAssertHolds`); the serial branch calls the kernel once on all targets and the result is
divided by `w` (`NetBetw.nsiBetweenness`). -/
theorem betweenness_wrapper_as_modelled :
    StructC11.betwFacts = [
      ("nsi_betweenness.signature", "self, sources, targets, nsi, parallelize, default:None, default:None, default:True, default:False"),
      ("nsi_betweenness.is_source", "np.zeros(self.N, dtype=MASK)"),
      ("nsi_betweenness.return", "self._nsi_betweenness(tuple(is_source), tuple(targets), nsi, parallelize)"),
      ("nsi_betweenness.is_source[sources]", "1"),
      ("nsi_betweenness.is_source[range(0, self.N)]", "1"),
      ("nsi_betweenness.targets", "np.array(list(map(int, targets)))"),
      ("nsi_betweenness.targets", "np.arange(0, self.N)"),
      ("_nsi_betweenness.k", "to_cy(self.outdegree(), DEGREE)"),
      ("_nsi_betweenness.w", "to_cy(self.node_weights, DWEIGHT)"),
      ("_nsi_betweenness.w", "w if nsi else np.ones_like(w)"),
      ("_nsi_betweenness.links", "nz_coords(self.sp_A)"),
      ("_nsi_betweenness.flat_neighbors", "to_cy(np.array(links)[:, 1], NODE)"),
      ("_nsi_betweenness.assert", "k.sum() == len(flat_neighbors) == 2 * self.n_links"),
      ("_nsi_betweenness.worker", "partial(_nsi_betweenness, self.N, w, k, flat_neighbors, is_source)"),
      ("_nsi_betweenness.return", "betw_w / w"),
      ("_nsi_betweenness.betw_w", "worker(targets)")] := by
  decide +kernel

open Pyunicorn.Generated in
/-- `Network.closeness(link_attribute)` and `Network.global_efficiency` **as regenerated from the
current source**: unreachable nodes count as `self.N`, the closeness is `(self.N − 1) / rowsum`
(`closenessConv N`, `Net.closenessW`), the efficiency is `1/float(N·(N−1)) · Σ 1/d`
(`netGlobalEfficiency`). -/
theorem arith_net_closeness_efficiency (n : Nat) (D : Dist) (i : Nat)
    (hs : ((List.range n).map fun j => (D i j).getD (n : Rat)).sum ≠ 0)
    (hn : n * (n - 1) ≠ 0)
    (hz : ((List.range n).any fun i => (List.range n).any fun j => i != j && D i j == some 0) = false) :
    closenessConv ((ArithC11.netClosenessUnreachable n : Int) : Rat) n D i
        = ArithC11.netClosenessExpr n
            ((List.range n).map fun j => (D i j).getD ((ArithC11.netClosenessUnreachable n : Int) : Rat)).sum
      ∧ netGlobalEfficiency n D = some (.val (ArithC11.netGlobalEfficiencyExpr n
          ((List.range n).map fun i =>
            ((List.range n).map fun j => if i = j then 0 else invD (D i j)).sum).sum)) := by
  constructor
  · unfold closenessConv ArithC11.netClosenessExpr ArithC11.netClosenessUnreachable
    simp only [Int.cast_natCast]
    rw [if_neg hs]
    push_cast
    rfl
  · unfold netGlobalEfficiency ArithC11.netGlobalEfficiencyExpr
    simp only [hn, hz, if_false, Bool.false_eq_true]
    congr 3
    have h1 : 1 ≤ n := by
      rcases n with _ | m
      · simp at hn
      · omega
    rw [Nat.cast_mul, Nat.cast_sub h1]
    push_cast
    ring

section Unweighted
open Pyunicorn.Net
/-! ### unweighted path lengths: the hypotheses on the distance matrix as theorems
(`distQ` = C03's BFS model of `Network.path_lengths()`) -/

/-- **the unweighted path-length matrix satisfies every side condition the path-measure theorems
carry**: zero diagonal (`internalAPL_eq_mean_offdiag`, `singleton_cross_closeness`,
`whole_efficiency_degenerate`), non-negative entries (`whole_closeness_rows`,
`whole_nsi_closeness_disconnected`), no zero distance between different nodes
(`localEfficiency_eq_def`, `globalEfficiency_eq_harmonic`, `whole_global_efficiency_as_mean_local`),
every finite distance `≤ N − 1` — the value `cross_closeness` assigns to unreachable nodes really is
"the maximum possible path length" — and, on undirected networks, symmetry (`crossAPL_symm`,
`globalEfficiency_symm`, `block_swap`). -/
theorem unweighted_path_lengths (n : Nat) (A : Adj) :
    (∀ i, i < n → distQ n A i i = some 0)
      ∧ (∀ i j d, distQ n A i j = some d → 0 ≤ d)
      ∧ (∀ i j, i ≠ j → distQ n A i j ≠ some 0)
      ∧ (∀ i j d, distQ n A i j = some d → d ≤ (n : Rat) - 1)
      ∧ (Symm A → Symm (distQ n A)) := by
  refine ⟨?_, ?_, ?_, ?_, ?_⟩
  · intro i hi
    simp [distQ, hi, DistL.dist_self n A i hi]
  · intro i j d h
    unfold distQ at h
    split at h
    · cases hd : dist n A i j with
      | none => simp [hd] at h
      | some k =>
        simp only [hd, Option.map_some, Option.some.injEq] at h
        rw [← h]; exact Nat.cast_nonneg k
    · simp at h
  · intro i j hij h
    unfold distQ at h
    split at h
    · rename_i hb
      cases hd : dist n A i j with
      | none => simp [hd] at h
      | some k =>
        simp only [hd, Option.map_some, Option.some.injEq] at h
        have hk : k = 0 := by exact_mod_cast h
        subst hk
        have hw := ((DistL.dist_some_iff n A i j 0 hb.1 hb.2).mp hd).1
        cases hw
        exact hij rfl
    · simp at h
  · intro i j d h
    unfold distQ at h
    split at h
    · rename_i hb
      cases hd : dist n A i j with
      | none => simp [hd] at h
      | some k =>
        simp only [hd, Option.map_some, Option.some.injEq] at h
        have hlt := DistL.dist_lt n A i j k hb.1 hb.2 hd
        rw [← h]
        have : ((k + 1 : Nat) : Rat) ≤ (n : Rat) := by exact_mod_cast hlt
        push_cast at this
        linarith
    · simp at h
  · intro hA i j
    unfold distQ
    by_cases hb : i < n ∧ j < n
    · rw [if_pos hb, if_pos ⟨hb.2, hb.1⟩, dist_symm n A hA i j hb.1 hb.2]
    · have hb' : ¬ (j < n ∧ i < n) := fun h => hb ⟨h.2, h.1⟩
      rw [if_neg hb, if_neg hb']

/-- **`cross_average_path_length` and `global_efficiency` are symmetric in the groups on every
undirected unweighted network** — no hypothesis on the path-length matrix left -/
theorem unweighted_symmetric_in_groups (n : Nat) (A : Adj) (hA : Symm A) (L1 L2 : List Nat)
    (h1 : L1 ≠ []) (h2 : L2 ≠ []) :
    crossAPL (distQ n A) L1 L2 = crossAPL (distQ n A) L2 L1
      ∧ globalEfficiency (distQ n A) L1 L2 = globalEfficiency (distQ n A) L2 L1 :=
  ⟨crossAPL_symm _ ((unweighted_path_lengths n A).2.2.2.2 hA) L1 L2,
   globalEfficiency_symm _ ((unweighted_path_lengths n A).2.2.2.2 hA) L1 L2 h1 h2⟩

/-- **`Network.global_efficiency()` of every unweighted network with `N ≥ 2` is the mean over the
nodes `i` of `local_efficiency([i], all other nodes)`**, and **`internal_closeness(all nodes)`
agrees with `Network.closeness` exactly on the rows without unreachable node** — the whole-network
relations with their hypotheses discharged for `path_lengths()`. -/
theorem unweighted_whole_network (n : Nat) (hn : 2 ≤ n) (A : Adj) (L : List Nat)
    (h : L.Perm (List.range n)) :
    netGlobalEfficiency n (distQ n A)
        = some (.val (((List.range n).map (effRest n (distQ n A))).sum / (n : Rat)))
      ∧ (localEfficiency (distQ n A) L L = none ∧ globalEfficiency (distQ n A) L L = .val 0)
      ∧ ∃ f : Nat → Rat, internalCloseness (distQ n A) L = L.map f ∧ ∀ i,
          ((∀ j, j < n → (distQ n A i j).isSome) → f i = Net.closenessW n (distQ n A) i) ∧
          ((∃ j, j < n ∧ distQ n A i j = none) → Net.closenessW n (distQ n A) i < f i) := by
  obtain ⟨hdiag, hnn, hpos, _, _⟩ := unweighted_path_lengths n A
  exact ⟨(whole_global_efficiency_as_mean_local n hn _ fun i j _ _ hij => hpos i j hij).2,
    whole_efficiency_degenerate _ n (by omega) L h hdiag,
    whole_closeness_rows _ n hn L h hnn⟩

/-- path 0–1–2 and an isolated node 3 -/
example : (block (distQ 4 (fun a b => a + 1 == b && b < 3 || b + 1 == a && a < 3)) [0, 3] [2, 3])
    = [[some 2, none], [none, some 0]] := by decide +kernel

end Unweighted

/-! ## Round 5 — bipartitions of the node set and the layer wrappers of `CoupledClimateNetwork`

`Pyunicorn.CrossCCN` (`Model/CrossCCN.lean`) is the model of
`climate/coupled_climate_network.py:105-113, 143-639`: the two node lists of the constructor and
every public wrapper as the routing of `nodes_1` / `nodes_2` into the methods modelled above.
It is tied to the code by the request `ccn` of the driver (every wrapper of every generated
coupled network, exact) and by `ccn_wrappers_as_modelled` below (regenerated source text).

The decomposition theorems hold for **every** bipartition `(L1, L2)` of the node set in any
order: the single-network quantity is the sum of the internal and the cross quantity — the
two-group counterpart of "both groups = the whole node set reproduces the single-network
measure". -/

section Round5
open Pyunicorn.CrossCCN


theorem outdegree_decomposition (A : Adj) (n : Nat) (L1 L2 : List Nat)
    (h : (L1 ++ L2).Perm (List.range n)) :
    List.zipWith (· + ·) (crossOutDegree A L1 L1) (crossOutDegree A L1 L2)
      = L1.map (Net.outdeg n A) := by
  simp only [crossOutDegree, rowSums, blockN, block, List.map_map, Function.comp_def]
  rw [zipWith_map_self]
  apply List.map_congr_left
  intro a _
  have := sum_bipartition h (fun b => b2n (A a b))
  rw [← this]
  rfl

theorem indegree_decomposition (A : Adj) (n : Nat) (L1 L2 : List Nat)
    (h : (L1 ++ L2).Perm (List.range n)) :
    List.zipWith (· + ·) (crossInDegree A L1 L1) (crossInDegree A L1 L2)
      = L1.map (Net.indeg n A) := by
  rw [crossInDegree_eq, crossInDegree_eq, zipWith_map_self]
  apply List.map_congr_left
  intro a _
  have := sum_bipartition h (fun b => b2n (A b a))
  rw [← this]
  rfl

theorem degree_decomposition (directed : Bool) (A : Adj) (n : Nat) (L1 L2 : List Nat)
    (h : (L1 ++ L2).Perm (List.range n)) :
    List.zipWith (· + ·) (crossDegree directed A L1 L1) (crossDegree directed A L1 L2)
      = L1.map (Net.degree directed n A) := by
  have ho := outdegree_decomposition A n L1 L2 h
  have hi := indegree_decomposition A n L1 L2 h
  unfold crossDegree Net.degree
  cases directed
  · simpa using ho
  · simp only [if_true]
    have hlen1 : (crossInDegree A L1 L1).length = L1.length := by
      rw [crossInDegree_eq]; simp
    have hlen2 : (crossInDegree A L1 L2).length = L1.length := by
      rw [crossInDegree_eq]; simp
    have hlen3 : (crossOutDegree A L1 L1).length = L1.length := by
      simp [crossOutDegree, rowSums, blockN, block]
    have hlen4 : (crossOutDegree A L1 L2).length = L1.length := by
      simp [crossOutDegree, rowSums, blockN, block]
    apply List.ext_getElem
    · simp [hlen1, hlen2, hlen3, hlen4]
    · intro i h1 h2
      have e1 := congrArg (fun l => l[i]?) ho
      have e2 := congrArg (fun l => l[i]?) hi
      simp only [List.length_zipWith, hlen1, hlen2, hlen3, hlen4, Nat.min_self] at h1
      simp only [List.getElem?_zipWith, List.getElem?_map] at e1 e2
      simp only [List.getElem_zipWith, List.getElem_map]
      rw [List.getElem?_eq_getElem (by omega), List.getElem?_eq_getElem (by omega),
        List.getElem?_eq_getElem (by omega)] at e1 e2
      simp at e1 e2
      omega

/-- **n.s.i. degree of the whole network = n.s.i. internal degree + n.s.i. cross degree** of the
node's own group and the other group of a bipartition (the unit diagonal of `A⁺` is counted once,
in the internal part) -/
theorem nsi_degree_decomposition (A : Adj) (w : Nat → Rat) (n : Nat) (L1 L2 : List Nat)
    (h : (L1 ++ L2).Perm (List.range n)) :
    List.zipWith (· + ·) (nsiCrossDegree A w L1 L1) (nsiCrossDegree A w L1 L2)
      = L1.map (Net.nsiOutdeg n A w) := by
  unfold nsiCrossDegree
  rw [zipWith_map_self]
  apply List.map_congr_left
  intro a _
  have := sum_bipartition h (fun b => if aplus A a b then w b else 0)
  rw [← this]
  rfl

/-- internal block of an undirected loop-free network: the entries sum to twice the number of
linked unordered pairs of the group -/
theorem internal_sum_even (A : Adj) (hA : Symm A) (hloop : ∀ a, A a a = false) (L : List Nat) :
    (rowSums (blockN A L L)).sum = 2 * pairSum (fun a b => b2n (A a b)) L := by
  have hs : ∀ a b, (fun a b => b2n (A a b)) a b = (fun a b => b2n (A a b)) b a := by
    intro a b
    simp only [hA a b]
  have hd := double_sum_symm_nat _ hs L
  have hz : (L.map fun a => (fun a b => b2n (A a b)) a a).sum = 0 := by
    apply List.sum_eq_zero
    intro x hx
    simp only [List.mem_map] at hx
    obtain ⟨a, _, rfl⟩ := hx
    simp [hloop a, b2n]
  rw [hz, Nat.zero_add] at hd
  simp only [rowSums, blockN, block, List.map_map, Function.comp_def]
  exact hd

theorem numberInternalLinks_eq_pairs (A : Adj) (hA : Symm A) (hloop : ∀ a, A a a = false)
    (L : List Nat) :
    numberInternalLinks false A L = pairSum (fun a b => b2n (A a b)) L := by
  unfold numberInternalLinks internalAdjacency
  simp [internal_sum_even A hA hloop L]

/-- the non-zero entries of the adjacency matrix split into the four blocks of a bipartition -/
theorem nonzeros_decomposition (A : Adj) (n : Nat) (L1 L2 : List Nat)
    (h : (L1 ++ L2).Perm (List.range n)) :
    netNonzeros n A = (rowSums (blockN A L1 L1)).sum + (rowSums (blockN A L1 L2)).sum
      + (rowSums (blockN A L2 L1)).sum + (rowSums (blockN A L2 L2)).sum := by
  rw [← whole_nonzeros A n (L1 ++ L2) h]
  simp only [rowSums, blockN, block, List.map_map, Function.comp_def, List.map_append,
    List.sum_append, List.sum_map_add]
  omega

/-- **the links of the whole network are the links inside the two groups plus the links between
them** (undirected loop-free network, `(L1, L2)` any bipartition of the node set in any order):
`Network.n_links = number_internal_links(L1) + number_internal_links(L2) +
number_cross_links(L1, L2)` -/
theorem n_links_decomposition (A : Adj) (hA : Symm A) (hloop : ∀ a, A a a = false) (n : Nat)
    (L1 L2 : List Nat) (h : (L1 ++ L2).Perm (List.range n)) :
    netNLinks false n A
      = numberInternalLinks false A L1 + numberInternalLinks false A L2 + numberCrossLinks A L1 L2 := by
  have hd := nonzeros_decomposition A n L1 L2 h
  have hsym : (rowSums (blockN A L2 L1)).sum = (rowSums (blockN A L1 L2)).sum :=
    numberCrossLinks_symm A hA L2 L1
  rw [numberInternalLinks_eq_pairs A hA hloop, numberInternalLinks_eq_pairs A hA hloop]
  rw [internal_sum_even A hA hloop L1, internal_sum_even A hA hloop L2, hsym] at hd
  unfold netNLinks numberCrossLinks
  simp only [Bool.false_eq_true, if_false]
  omega

/-- directed version: every link is inside a group or runs from one group to the other -/
theorem n_links_decomposition_directed (A : Adj) (n : Nat) (L1 L2 : List Nat)
    (h : (L1 ++ L2).Perm (List.range n)) :
    netNLinks true n A
      = numberInternalLinks true A L1 + numberInternalLinks true A L2
        + ((crossOutDegree A L1 L2).sum + (crossOutDegree A L2 L1).sum) := by
  have hd := nonzeros_decomposition A n L1 L2 h
  unfold netNLinks numberInternalLinks internalAdjacency crossOutDegree
  simp only [if_true]
  omega

example : netNLinks false 4 (fun a b => (a + b) % 2 == 1 || a + b == 2 && a != b)
    = numberInternalLinks false (fun a b => (a + b) % 2 == 1 || a + b == 2 && a != b) [2, 0]
      + numberInternalLinks false (fun a b => (a + b) % 2 == 1 || a + b == 2 && a != b) [3, 1]
      + numberCrossLinks (fun a b => (a + b) % 2 == 1 || a + b == 2 && a != b) [2, 0] [3, 1] := by
  decide

/-- the finite path lengths / the unreachable pairs of the whole node set split into the four
blocks of a partition into two lists -/
theorem path_blocks_append (D : Dist) (L1 L2 : List Nat) :
    sumFinite (block D (L1 ++ L2) (L1 ++ L2))
        = sumFinite (block D L1 L1) + sumFinite (block D L1 L2)
          + sumFinite (block D L2 L1) + sumFinite (block D L2 L2)
    ∧ countNone (block D (L1 ++ L2) (L1 ++ L2))
        = countNone (block D L1 L1) + countNone (block D L1 L2)
          + countNone (block D L2 L1) + countNone (block D L2 L2) := by
  constructor
  · simp only [sumFinite_eq, List.map_append, List.sum_append, List.sum_map_add]
    ring
  · simp only [countNone_eq, List.map_append, List.sum_append, List.sum_map_add]
    omega

/-- **`Network.average_path_length(link_attribute)` is the pooled mean of the internal and cross
path lengths** of any bipartition `(L1, L2)` of the node set (lists in any order, any distance
matrix, directed or not): the sum of the finite entries of the four blocks divided by
`N(N−1)` minus their numbers of unreachable pairs — the numerators and the `inf` counts of
`internal_average_path_length(L1)`, `(L2)`, `cross_average_path_length(L1, L2)`, `(L2, L1)`;
`nan` iff no ordered pair of different nodes is connected. -/
theorem apl_decomposition (D : Dist) (n : Nat) (L1 L2 : List Nat)
    (h : (L1 ++ L2).Perm (List.range n)) :
    Net.avgPathLength n D
      = (let S := sumFinite (block D L1 L1) + sumFinite (block D L1 L2)
            + sumFinite (block D L2 L1) + sumFinite (block D L2 L2)
         let U := countNone (block D L1 L1) + countNone (block D L1 L2)
            + countNone (block D L2 L1) + countNone (block D L2 L2)
         let norm : Int := ((n : Int) - 1) * n - (U : Nat)
         if norm = 0 then none else some (S / (norm : Rat))) := by
  rw [← whole_average_path_length D n (L1 ++ L2) h]
  have hl : (L1 ++ L2).length = n := by simpa using h.length_eq
  obtain ⟨hs, hc⟩ := path_blocks_append D L1 L2
  unfold internalAPL generalAPL
  simp only [if_true, hl, hs, hc]

example : Net.avgPathLength 3 (fun a b => if a = b then some 0 else if a + b = 1 then some 2 else none)
    = some 2 := by decide +kernel

/-! ### the two layers of a `CoupledClimateNetwork` -/

/-- **the node lists the constructor builds are a bipartition of the node set**
(`nodes_1 = list(range(N_1))`, `nodes_2 = list(range(N_1, N))`, `N_1 ≤ N`): together they are
`0 … N−1` in order, they are disjoint and duplicate-free, every index is a valid node number, and
their lengths are `N_1` and `N − N_1 = N_2`.  So every theorem about disjoint groups and — for
`nodes_1 + nodes_2` — every whole-network limit applies to the layers. -/
theorem ccn_layers (N1 N : Nat) (h : N1 ≤ N) :
    nodes1 N1 ++ nodes2 N1 N = List.range N
    ∧ (∀ a ∈ nodes1 N1, a ∉ nodes2 N1 N)
    ∧ (nodes1 N1).Nodup ∧ (nodes2 N1 N).Nodup
    ∧ (∀ a ∈ nodes1 N1 ++ nodes2 N1 N, a < N)
    ∧ (nodes1 N1).length = N1 ∧ (nodes2 N1 N).length = N - N1 := by
  refine ⟨layers_cover h, ?_, nodes1_nodup N1, nodes2_nodup N1 N, ?_, nodes1_length N1,
    nodes2_length N1 N⟩
  · intro a ha hb
    rw [mem_nodes1] at ha
    rw [mem_nodes2] at hb
    omega
  · intro a ha
    rw [layers_cover h] at ha
    exact List.mem_range.mp ha

example : nodes1 2 ++ nodes2 2 5 = [0, 1, 2, 3, 4] ∧ nodes2 2 5 = [2, 3, 4] := by decide

/-- the seeded change C11-7 (`range(N_2, N)` for the second layer) is not a bipartition as soon as
the layers differ in size: for `N_1 = 1, N_2 = 2` it drops node 1 -/
example : nodes1 1 ++ List.range' 2 (3 - 2) ≠ List.range 3 := by decide

theorem ccn_layers_perm (N1 N : Nat) (h : N1 ≤ N) :
    (nodes1 N1 ++ nodes2 N1 N).Perm (List.range N) := by rw [layers_cover h]

theorem ccn_layers_perm' (N1 N : Nat) (h : N1 ≤ N) :
    (nodes2 N1 N ++ nodes1 N1).Perm (List.range N) :=
  List.perm_append_comm.trans (ccn_layers_perm N1 N h)

/-- **slices and index lists select the same blocks**: `similarity_measure()[:N_1, :N_1]`,
`[N_1:, N_1:]`, `[:N_1, N_1:]` are the blocks `(nodes_1, nodes_1)`, `(nodes_2, nodes_2)`,
`(nodes_1, nodes_2)` that `adjacency_1/2`, `cross_layer_adjacency`, the path-length and the
distance wrappers cut with the node lists -/
theorem ccn_slices_are_layer_blocks {α : Type} (S : Nat → Nat → α) (N1 N : Nat) (h : N1 ≤ N) :
    similarityMeasure1 S N1 N = block S (nodes1 N1) (nodes1 N1)
    ∧ similarityMeasure2 S N1 N = block S (nodes2 N1 N) (nodes2 N1 N)
    ∧ crossSimilarityMeasure S N1 N = block S (nodes1 N1) (nodes2 N1 N) := by
  simp only [similarityMeasure1, similarityMeasure2, crossSimilarityMeasure, sliceTo_eq h,
    sliceFrom_eq h, and_self]

/-- entries of the three layer blocks of any matrix of the coupled network: within layer 1
`M[i, j]`, within layer 2 `M[N_1 + i, N_1 + j]`, across `M[i, N_1 + j]` -/
theorem ccn_block_entries {α : Type} (M : Nat → Nat → α) (N1 N : Nat) :
    (∀ i j, i < N1 → j < N1 →
      ((block M (nodes1 N1) (nodes1 N1))[i]?.bind (·[j]?)) = some (M i j))
    ∧ (∀ i j, i < N - N1 → j < N - N1 →
      ((block M (nodes2 N1 N) (nodes2 N1 N))[i]?.bind (·[j]?)) = some (M (N1 + i) (N1 + j)))
    ∧ (∀ i j, i < N1 → j < N - N1 →
      ((block M (nodes1 N1) (nodes2 N1 N))[i]?.bind (·[j]?)) = some (M i (N1 + j))) := by
  refine ⟨?_, ?_, ?_⟩ <;> intro i j hi hj <;> simp [block, nodes1, nodes2, hi, hj]

example : crossLayerAdjacency (fun a b => a + 2 == b) 2 5 = [[1, 0, 0], [0, 1, 0]]
    ∧ adjacency2 (fun a b => a + 2 == b) 2 5 = [[0, 0, 1], [0, 0, 0], [0, 0, 0]] := by decide

/-- **`Network.n_links` of the coupled network = links within layer 1 + links within layer 2 +
links between the layers** — the three link counts the wrappers return, on every undirected
loop-free coupled network -/
theorem ccn_n_links (A : Adj) (hA : Symm A) (hloop : ∀ a, A a a = false) (N1 N : Nat)
    (h : N1 ≤ N) :
    netNLinks false N A
      = (CrossCCN.numberInternalLinks false A N1 N).1 + (CrossCCN.numberInternalLinks false A N1 N).2
        + numberCrossLayerLinks A N1 N :=
  n_links_decomposition A hA hloop N _ _ (ccn_layers_perm N1 N h)

/-- **`internal_degree() + cross_degree()`, layer 1 followed by layer 2, is `Network.degree()`**
of the coupled network, directed or not -/
theorem ccn_degree (directed : Bool) (A : Adj) (N1 N : Nat) (h : N1 ≤ N) :
    List.zipWith (· + ·) (CrossCCN.internalDegree directed A N1 N).1 (CrossCCN.crossDegree directed A N1 N).1
      ++ List.zipWith (· + ·) (CrossCCN.internalDegree directed A N1 N).2
          (CrossCCN.crossDegree directed A N1 N).2
      = (List.range N).map (Net.degree directed N A) := by
  simp only [CrossCCN.internalDegree, CrossCCN.crossDegree]
  rw [degree_decomposition directed A N _ _ (ccn_layers_perm N1 N h),
    degree_decomposition directed A N _ _ (ccn_layers_perm' N1 N h), ← List.map_append,
    layers_cover h]

/-- **hand-shake between the layers**: on an undirected coupled network both components of
`cross_degree()` sum to `number_cross_layer_links()` -/
theorem ccn_cross_degree_handshake (A : Adj) (hA : Symm A) (N1 N : Nat) :
    (CrossCCN.crossDegree false A N1 N).1.sum = numberCrossLayerLinks A N1 N
    ∧ (CrossCCN.crossDegree false A N1 N).2.sum = numberCrossLayerLinks A N1 N := by
  constructor
  · rfl
  · unfold numberCrossLayerLinks
    rw [numberCrossLinks_symm A hA]
    rfl

/-- **the wrappers that evaluate one order of the layers only lose nothing**: on an undirected
coupled network `number_cross_layer_links`, `cross_link_density` and
`cross_average_path_length` have the same value for the order `(nodes_2, nodes_1)` -/
theorem ccn_one_order_suffices (A : Adj) (hA : Symm A) (D : Dist) (hD : Symm D) (N1 N : Nat) :
    numberCrossLayerLinks A N1 N = numberCrossLinks A (nodes2 N1 N) (nodes1 N1)
    ∧ CrossCCN.crossLinkDensity A N1 N = Cross.crossLinkDensity A (nodes2 N1 N) (nodes1 N1)
    ∧ CrossCCN.crossAPL D N1 N = Cross.crossAPL D (nodes2 N1 N) (nodes1 N1) :=
  ⟨numberCrossLinks_symm A hA _ _, crossLinkDensity_symm A hA _ _, crossAPL_symm D hD _ _⟩

theorem crossBetweenness_length (n : Nat) (A : Adj) (L1 L2 : List Nat) :
    (Cross.crossBetweenness n A L1 L2).length = n := by
  unfold Cross.crossBetweenness
  rw [nsiBetweenness_entry]
  simp

/-- **cutting the betweenness vector into the layers loses nothing and reads no default**:
`(cb[nodes_1], cb[nodes_2])` concatenated is `cross_betweenness(nodes_1, nodes_2)` over all `N`
nodes; likewise for `internal_betweenness_1/2` -/
theorem ccn_betweenness_split (A : Adj) (N1 N : Nat) (h : N1 ≤ N) :
    (CrossCCN.crossBetweenness A N1 N).1 ++ (CrossCCN.crossBetweenness A N1 N).2
        = Cross.crossBetweenness N A (nodes1 N1) (nodes2 N1 N)
    ∧ (internalBetweenness1 A N1 N).1 ++ (internalBetweenness1 A N1 N).2
        = Cross.internalBetweenness N A (nodes1 N1)
    ∧ (internalBetweenness2 A N1 N).1 ++ (internalBetweenness2 A N1 N).2
        = Cross.internalBetweenness N A (nodes2 N1 N) := by
  refine ⟨?_, ?_, ?_⟩
  · exact pick_cover h _ (crossBetweenness_length N A _ _)
  · exact pick_cover h _ (crossBetweenness_length N A _ _)
  · exact pick_cover h _ (crossBetweenness_length N A _ _)


theorem cald_entry (L : List Nat) (sel : Nat → Bool) (g : Nat → Rat) :
    (if (L.map fun b => ((b2n (sel b) : Nat) : Rat)).sum = 0 then none
      else some ((L.map fun b => ((b2n (sel b) : Nat) : Rat) * g b).sum
        / (L.map fun b => ((b2n (sel b) : Nat) : Rat)).sum))
    = (if (L.map fun b => b2n (sel b)).sum = 0 then none
      else some ((L.map fun b => if sel b then g b else 0).sum
        / (((L.map fun b => b2n (sel b)).sum : Nat) : Rat))) := by
  rw [sum_cast_nat (fun b => b2n (sel b)) L]
  have e : (L.map fun b => ((b2n (sel b) : Nat) : Rat) * g b)
      = L.map fun b => if sel b then g b else 0 := by
    apply List.map_congr_left
    intro b _
    cases sel b <;> simp [b2n]
  rw [e]
  simp only [Nat.cast_eq_zero]

/-- **`cross_average_link_distance` by definition**: entry `a` (a node of layer 1) is the mean of
the distances `G[a, b]` over the nodes `b` of layer 2 linked from `a` — their number is
`cross_outdegree(nodes_1, nodes_2)[a]` — and `nan` for a node without such link; with
`reverse=True` entry `b` (a node of layer 2) is the mean over the nodes `a` of layer 1 with a
link `a → b` (on an undirected network: the cross neighbours of `b`).  The axis arithmetic
(`ax = 0 if reverse else 1`, numerator and denominator summed along the same axis) is the subject. -/
theorem ccn_cross_average_link_distance_eq_def (A : Adj) (G : Nat → Nat → Rat) (N1 N : Nat) :
    crossAverageLinkDistance false A G N1 N = (nodes1 N1).map (fun a =>
        if ((nodes2 N1 N).map fun b => b2n (A a b)).sum = 0 then none
        else some (((nodes2 N1 N).map fun b => if A a b then G a b else 0).sum
          / ((((nodes2 N1 N).map fun b => b2n (A a b)).sum : Nat) : Rat)))
    ∧ crossAverageLinkDistance true A G N1 N = (nodes2 N1 N).map (fun b =>
        if ((nodes1 N1).map fun a => b2n (A a b)).sum = 0 then none
        else some (((nodes1 N1).map fun a => if A a b then G a b else 0).sum
          / ((((nodes1 N1).map fun a => b2n (A a b)).sum : Nat) : Rat))) := by
  unfold crossAverageLinkDistance crossLayerAdjacency crossLinkDistance blockN block
  generalize nodes1 N1 = L1
  generalize nodes2 N1 N = L2
  have hprod : List.zipWith (fun ra rc => List.zipWith (fun (x : Nat) (c : Rat) => (x : Rat) * c) ra rc)
      (L1.map fun a => L2.map fun b => b2n (A a b)) (L1.map fun a => L2.map fun b => G a b)
      = L1.map fun a => L2.map fun b => ((b2n (A a b) : Nat) : Rat) * G a b := by
    rw [zipWith_map_self]
    apply List.map_congr_left
    intro a _
    rw [zipWith_map_self]
  have hadj : ((L1.map fun a => L2.map fun b => b2n (A a b)).map
        fun r => r.map fun (x : Nat) => (x : Rat))
      = L1.map fun a => L2.map fun b => ((b2n (A a b) : Nat) : Rat) := by
    simp only [List.map_map, Function.comp_def]
  simp only [hprod, hadj]
  constructor
  · simp only [Bool.false_eq_true, if_false, rowSums, List.map_map, Function.comp_def]
    rw [zipWith_map_self]
    apply List.map_congr_left
    intro a _
    exact cald_entry L2 (fun b => A a b) (fun b => G a b)
  · simp only [if_true]
    rw [colSums_map, colSums_map, zipWith_map_self]
    apply List.map_congr_left
    intro b _
    exact cald_entry L1 (fun a => A a b) (fun a => G a b)

example : crossAverageLinkDistance false (fun a b => a + 2 == b || a == 0 && b == 3)
      (fun a b => (a + b : Nat)) 2 5 = [some (5 / 2), some 4]
    ∧ crossAverageLinkDistance true (fun a b => a + 2 == b || a == 0 && b == 3)
      (fun a b => (a + b : Nat)) 2 5 = [some 2, some (7 / 2), none] := by decide +kernel


open Pyunicorn.Generated in
/-- **about the regenerated source of `CoupledClimateNetwork`**: the constructor sets
`N_1 = len(lat_1)`, `N_2 = len(lat_2)`, `nodes_1 = list(range(N_1))`,
`nodes_2 = list(range(N_1, N))` (`nodes1`, `nodes2`) and initialises `InteractingNetworks` with its
own adjacency, directedness and node weights; every wrapper consists of exactly these assignments,
this one `if` (`ax = 0 if reverse else 1`) and these `return`s — the routing of the two node
lists, the order of the pairs `(layer 1, layer 2)` / `(1→2, 2→1)`, the three slices of the
similarity matrix and the cut `(v[nodes_1], v[nodes_2])` that `Pyunicorn.CrossCCN` mirrors; there
is no loop, augmented assignment or `try` in any wrapper (the translator refuses them).  The
seeded change C11-7 (`range(self.N_2, self.N)`) makes this false. -/
theorem ccn_wrappers_as_modelled :
    StructC11.ccnFacts = [
  ("__init__.self.N", "grid.N"),
  ("__init__.self.N_1", "len(lat_1)"),
  ("__init__.self.N_2", "len(lat_2)"),
  ("__init__.self.nodes_1", "list(range(self.N_1))"),
  ("__init__.self.nodes_2", "list(range(self.N_1, self.N))"),
  ("__init__.InteractingNetworks.__init__", "self, self.adjacency, directed=self.directed, node_weights=self.node_weights"),
  ("network_1.return", "GeoNetwork(adjacency=self.adjacency_1(), grid=self.grid_1, directed=self.directed, node_weight_type=self.node_weight_type, silence_level=self.silence_level)"),
  ("network_2.return", "GeoNetwork(adjacency=self.adjacency_2(), grid=self.grid_2, directed=self.directed, node_weight_type=self.node_weight_type, silence_level=self.silence_level)"),
  ("similarity_measure_1.return", "self.similarity_measure()[:self.N_1, :self.N_1]"),
  ("similarity_measure_2.return", "self.similarity_measure()[self.N_1:, self.N_1:]"),
  ("cross_similarity_measure.return", "self.similarity_measure()[:self.N_1, self.N_1:]"),
  ("adjacency_1.return", "self.internal_adjacency(self.nodes_1)"),
  ("adjacency_2.return", "self.internal_adjacency(self.nodes_2)"),
  ("cross_layer_adjacency.return", "self.cross_adjacency(node_list1=self.nodes_1, node_list2=self.nodes_2)"),
  ("path_lengths_1.return", "self.internal_path_lengths(node_list=self.nodes_1, link_attribute=link_attribute)"),
  ("path_lengths_2.return", "self.internal_path_lengths(node_list=self.nodes_2, link_attribute=link_attribute)"),
  ("cross_path_lengths.return", "InteractingNetworks.cross_path_lengths(self, node_list1=self.nodes_1, node_list2=self.nodes_2, link_attribute=link_attribute)"),
  ("cross_link_distance.return", "self.distance()[self.nodes_1, :][:, self.nodes_2]"),
  ("number_cross_layer_links.return", "self.number_cross_links(node_list1=self.nodes_1, node_list2=self.nodes_2)"),
  ("number_internal_links.n_links_1", "InteractingNetworks.number_internal_links(self, self.nodes_1)"),
  ("number_internal_links.n_links_2", "InteractingNetworks.number_internal_links(self, self.nodes_2)"),
  ("number_internal_links.return", "(n_links_1, n_links_2)"),
  ("cross_link_density.return", "InteractingNetworks.cross_link_density(self, node_list1=self.nodes_1, node_list2=self.nodes_2)"),
  ("internal_link_density.density_1", "InteractingNetworks.internal_link_density(self, self.nodes_1)"),
  ("internal_link_density.density_2", "InteractingNetworks.internal_link_density(self, self.nodes_2)"),
  ("internal_link_density.return", "(density_1, density_2)"),
  ("internal_global_clustering.clustering_1", "InteractingNetworks.internal_global_clustering(self, self.nodes_1)"),
  ("internal_global_clustering.clustering_2", "InteractingNetworks.internal_global_clustering(self, self.nodes_2)"),
  ("internal_global_clustering.return", "(clustering_1, clustering_2)"),
  ("cross_global_clustering.cc_12", "InteractingNetworks.cross_global_clustering(self, node_list1=self.nodes_1, node_list2=self.nodes_2)"),
  ("cross_global_clustering.cc_21", "InteractingNetworks.cross_global_clustering(self, node_list1=self.nodes_2, node_list2=self.nodes_1)"),
  ("cross_global_clustering.return", "(cc_12, cc_21)"),
  ("cross_transitivity.ct_12", "InteractingNetworks.cross_transitivity(self, node_list1=self.nodes_1, node_list2=self.nodes_2)"),
  ("cross_transitivity.ct_21", "InteractingNetworks.cross_transitivity(self, node_list1=self.nodes_2, node_list2=self.nodes_1)"),
  ("cross_transitivity.return", "(ct_12, ct_21)"),
  ("cross_average_link_distance.if", "reverse"),
  ("cross_average_link_distance.then", "ax = 0"),
  ("cross_average_link_distance.else", "ax = 1"),
  ("cross_average_link_distance.adj", "self.cross_layer_adjacency()"),
  ("cross_average_link_distance.cld", "self.cross_link_distance()"),
  ("cross_average_link_distance.return", "np.sum(adj * cld, axis=ax) / np.sum(adj, axis=ax)"),
  ("cross_average_link_distance.ax", "0"),
  ("cross_average_link_distance.ax", "1"),
  ("cross_average_path_length.return", "InteractingNetworks.cross_average_path_length(self, node_list1=self.nodes_1, node_list2=self.nodes_2, link_attribute=link_attribute)"),
  ("internal_average_path_length.apl_1", "InteractingNetworks.internal_average_path_length(self, node_list=self.nodes_1, link_attribute=link_attribute)"),
  ("internal_average_path_length.apl_2", "InteractingNetworks.internal_average_path_length(self, node_list=self.nodes_2, link_attribute=link_attribute)"),
  ("internal_average_path_length.return", "(apl_1, apl_2)"),
  ("cross_degree.cross_degree_1", "InteractingNetworks.cross_degree(self, node_list1=self.nodes_1, node_list2=self.nodes_2)"),
  ("cross_degree.cross_degree_2", "InteractingNetworks.cross_degree(self, node_list1=self.nodes_2, node_list2=self.nodes_1)"),
  ("cross_degree.return", "(cross_degree_1, cross_degree_2)"),
  ("internal_degree.degree_1", "InteractingNetworks.internal_degree(self, node_list=self.nodes_1)"),
  ("internal_degree.degree_2", "InteractingNetworks.internal_degree(self, node_list=self.nodes_2)"),
  ("internal_degree.return", "(degree_1, degree_2)"),
  ("cross_local_clustering.cc_12", "InteractingNetworks.cross_local_clustering(self, node_list1=self.nodes_1, node_list2=self.nodes_2)"),
  ("cross_local_clustering.cc_21", "InteractingNetworks.cross_local_clustering(self, node_list1=self.nodes_2, node_list2=self.nodes_1)"),
  ("cross_local_clustering.return", "(cc_12, cc_21)"),
  ("cross_closeness.cc_12", "InteractingNetworks.cross_closeness(self, node_list1=self.nodes_1, node_list2=self.nodes_2, link_attribute=link_attribute)"),
  ("cross_closeness.cc_21", "InteractingNetworks.cross_closeness(self, node_list1=self.nodes_2, node_list2=self.nodes_1, link_attribute=link_attribute)"),
  ("cross_closeness.return", "(cc_12, cc_21)"),
  ("internal_closeness.closeness_1", "InteractingNetworks.internal_closeness(self, node_list=self.nodes_1, link_attribute=link_attribute)"),
  ("internal_closeness.closeness_2", "InteractingNetworks.internal_closeness(self, node_list=self.nodes_2, link_attribute=link_attribute)"),
  ("internal_closeness.return", "(closeness_1, closeness_2)"),
  ("cross_betweenness.cb", "InteractingNetworks.cross_betweenness(self, node_list1=self.nodes_1, node_list2=self.nodes_2)"),
  ("cross_betweenness.return", "(cb[self.nodes_1], cb[self.nodes_2])"),
  ("internal_betweenness_1.ib", "self.internal_betweenness(self.nodes_1)"),
  ("internal_betweenness_1.return", "(ib[self.nodes_1], ib[self.nodes_2])"),
  ("internal_betweenness_2.ib", "self.internal_betweenness(self.nodes_2)"),
  ("internal_betweenness_2.return", "(ib[self.nodes_1], ib[self.nodes_2])")] := by
  decide +kernel

end Round5

/-! ### `InterSystemRecurrenceNetwork`: the network assembled from recurrence matrices

`Pyunicorn.CrossISRN` (`Model/CrossISRN.lean`) is the model of
`timeseries/inter_system_recurrence_network.py:166-174, 226-282, 344-394`; tied to the code by
the request `isrn` of the driver and by `isrn_as_modelled`. -/

section ISRN
open Pyunicorn.CrossCCN Pyunicorn.CrossISRN

/-- **`flat[::N + 1]` of an `N × N` array is its diagonal**: the flat position `i·N + j`
(`i, j < N`) is a multiple of `N + 1` exactly when `i = j` -/
theorem flat_stride_is_diagonal (N i j : Nat) (hi : i < N) (hj : j < N) :
    (i * N + j) % (N + 1) = 0 ↔ i = j := by
  by_cases hle : i ≤ j
  · have e : i * N + j = (j - i) + (N + 1) * i := by
      rw [Nat.mul_comm (N + 1) i, Nat.mul_succ]
      omega
    rw [e, Nat.add_mul_mod_self_left, Nat.mod_eq_of_lt (by omega)]
    omega
  · obtain ⟨k, rfl⟩ : ∃ k, i = k + 1 := ⟨i - 1, by omega⟩
    have e : (k + 1) * N + j = (N + 1 - (k + 1 - j)) + (N + 1) * k := by
      rw [Nat.succ_mul, Nat.mul_comm (N + 1) k, Nat.mul_succ]
      omega
    rw [e, Nat.add_mul_mod_self_left, Nat.mod_eq_of_lt (by omega)]
    omega

/-- entries of the adjacency matrix of an inter-system recurrence network: no self-loops, and off
the diagonal the four blocks `R_x`, `CR_xy`, `CR_xyᵀ`, `R_y` -/
theorem isrn_adjacency_entries (Rx Cxy Ry : Nat → Nat → Bool) (Nx N : Nat) (i j : Nat)
    (hi : i < N) (hj : j < N) :
    CrossISRN.adjacency Rx Cxy Ry Nx N i j
      = (if i = j then false
         else if i < Nx then (if j < Nx then Rx i j else Cxy i (j - Nx))
         else (if j < Nx then Cxy j (i - Nx) else Ry (i - Nx) (j - Nx))) := by
  unfold CrossISRN.adjacency zeroFlatStride isrm
  simp only [flat_stride_is_diagonal N i j hi hj, hi, hj, and_self, if_true]

/-- the network is loop-free (every node number, also out of range) -/
theorem isrn_loop_free (Rx Cxy Ry : Nat → Nat → Bool) (Nx N : Nat) (a : Nat) :
    CrossISRN.adjacency Rx Cxy Ry Nx N a a = false := by
  by_cases h : a < N
  · rw [isrn_adjacency_entries Rx Cxy Ry Nx N a a h h]
    simp
  · unfold CrossISRN.adjacency zeroFlatStride isrm
    simp [h]

/-- … and undirected whenever the two recurrence matrices are symmetric (the two off-diagonal
blocks are transposes of each other by construction) -/
theorem isrn_symm (Rx Cxy Ry : Nat → Nat → Bool) (hx : Symm Rx) (hy : Symm Ry) (Nx N : Nat) :
    Symm (CrossISRN.adjacency Rx Cxy Ry Nx N) := by
  intro a b
  by_cases ha : a < N
  · by_cases hb : b < N
    · rw [isrn_adjacency_entries Rx Cxy Ry Nx N a b ha hb,
        isrn_adjacency_entries Rx Cxy Ry Nx N b a hb ha]
      by_cases hab : a = b
      · subst hab; rfl
      · have hba : ¬ b = a := fun h => hab h.symm
        simp only [hab, hba, if_false]
        by_cases h1 : a < Nx <;> by_cases h2 : b < Nx <;> simp [h1, h2, hx a b, hy (a - Nx) (b - Nx)]
    · unfold CrossISRN.adjacency zeroFlatStride isrm
      simp [hb]
  · unfold CrossISRN.adjacency zeroFlatStride isrm
    simp [ha]

/-- **the cross block of the assembled network is the cross recurrence matrix**:
`cross_adjacency(x, y)[i][j] = CR_xy[i, j]`, and inside `x` / `y` the recurrence matrices off the
diagonal -/
theorem isrn_blocks (Rx Cxy Ry : Nat → Nat → Bool) (Nx N : Nat) (h : Nx ≤ N) :
    blockN (CrossISRN.adjacency Rx Cxy Ry Nx N) (nodes1 Nx) (nodes2 Nx N)
        = (List.range Nx).map (fun i => (List.range (N - Nx)).map fun j => b2n (Cxy i j))
    ∧ (∀ i j, i < Nx → j < Nx → i ≠ j → CrossISRN.adjacency Rx Cxy Ry Nx N i j = Rx i j)
    ∧ (∀ i j, i < N - Nx → j < N - Nx → i ≠ j →
        CrossISRN.adjacency Rx Cxy Ry Nx N (Nx + i) (Nx + j) = Ry i j) := by
  refine ⟨?_, ?_, ?_⟩
  · unfold blockN block nodes1 nodes2
    apply List.map_congr_left
    intro i hi
    have hi' : i < Nx := List.mem_range.mp hi
    rw [List.range'_eq_map_range, List.map_map]
    apply List.map_congr_left
    intro j hj
    have hj' : j < N - Nx := List.mem_range.mp hj
    simp only [Function.comp]
    rw [isrn_adjacency_entries Rx Cxy Ry Nx N i (Nx + j) (by omega) (by omega)]
    have h1 : ¬ i = Nx + j := by omega
    have h2 : ¬ Nx + j < Nx := by omega
    simp [h1, hi', h2]
  · intro i j hi hj hij
    rw [isrn_adjacency_entries Rx Cxy Ry Nx N i j (by omega) (by omega)]
    simp [hij, hi, hj]
  · intro i j hi hj hij
    rw [isrn_adjacency_entries Rx Cxy Ry Nx N (Nx + i) (Nx + j) (by omega) (by omega)]
    have h2 : ¬ Nx + i < Nx := by omega
    have h3 : ¬ Nx + j < Nx := by omega
    simp [h2, h3, hij]

/-- **`cross_link_density(x, y)` of the assembled network is the cross recurrence rate**
`float(CR.sum()) / (N_x · N_y)` of the cross recurrence plot -/
theorem isrn_cross_recurrence_rate (Rx Cxy Ry : Nat → Nat → Bool) (Nx N : Nat) (h : Nx ≤ N) :
    Cross.crossLinkDensity (CrossISRN.adjacency Rx Cxy Ry Nx N) (nodes1 Nx) (nodes2 Nx N)
      = crossRecurrenceRate Cxy Nx (N - Nx) := by
  unfold Cross.crossLinkDensity numberCrossLinks crossRecurrenceRate
  rw [(isrn_blocks Rx Cxy Ry Nx N h).1, nodes1_length, nodes2_length]
  simp only [rowSums, List.map_map, Function.comp_def]

/-- **the links of an inter-system recurrence network** are the recurrences within `x`, within `y`
and the cross recurrences: the hypotheses of `n_links_decomposition` (undirected, loop-free) are
theorems for the assembled matrix -/
theorem isrn_n_links (Rx Cxy Ry : Nat → Nat → Bool) (hx : Symm Rx) (hy : Symm Ry) (Nx N : Nat)
    (h : Nx ≤ N) :
    netNLinks false N (CrossISRN.adjacency Rx Cxy Ry Nx N)
      = numberInternalLinks false (CrossISRN.adjacency Rx Cxy Ry Nx N) (nodes1 Nx)
        + numberInternalLinks false (CrossISRN.adjacency Rx Cxy Ry Nx N) (nodes2 Nx N)
        + ((List.range Nx).map fun i => ((List.range (N - Nx)).map fun j => b2n (Cxy i j)).sum).sum := by
  rw [n_links_decomposition _ (isrn_symm Rx Cxy Ry hx hy Nx N) (isrn_loop_free Rx Cxy Ry Nx N) N _ _
    (ccn_layers_perm Nx N h)]
  congr 1
  unfold numberCrossLinks
  rw [(isrn_blocks Rx Cxy Ry Nx N h).1]
  simp only [rowSums, List.map_map, Function.comp_def]

example : blockN (CrossISRN.adjacency (fun _ _ => true) (fun i j => i == j) (fun _ _ => true) 2 5)
    (List.range 5) (List.range 5)
    = [[0, 1, 1, 0, 0], [1, 0, 0, 1, 0], [1, 0, 0, 1, 1], [0, 1, 1, 0, 1], [0, 0, 1, 1, 0]] := by
  decide


open Pyunicorn.Generated in
/-- **about the regenerated source of `InterSystemRecurrenceNetwork`**: `N = N_x + N_y`; the matrix
starts as zeros and receives `R_x`, `CR_xy`, `CR_xy.transpose()`, `R_y` in the four slices
`[:N_x, :N_x]`, `[:N_x, N_x:N]`, `[N_x:N, :N_x]`, `[N_x:N, N_x:N]` (`isrm`); both setters remove
the self-loops with `ISRM.flat[::self.N + 1] = 0` (`zeroFlatStride`, `flat_stride_is_diagonal`);
the network is constructed undirected from that matrix; the four wrappers route
`np.arange(N_x)` / `np.arange(N_x, N)` (`nodes1`, `nodes2`) in the orders `xy` / `yx`; the cross
recurrence rate is `float(CR.sum()) / (N · M)` (`crossRecurrenceRate`). -/
theorem isrn_as_modelled :
    StructC11.isrnFacts = [
  ("__init__.self.N_x", "self.x_embedded.shape[0]"),
  ("__init__.self.N_y", "self.y_embedded.shape[0]"),
  ("__init__.self.N", "self.N_x + self.N_y"),
  ("__init__.InteractingNetworks.__init__", "self, adjacency=ISRM, directed=False, silence_level=self.silence_level"),
  ("inter_system_recurrence_matrix.N", "self.N"),
  ("inter_system_recurrence_matrix.N_x", "self.N_x"),
  ("inter_system_recurrence_matrix.ISRM", "np.zeros((N, N))"),
  ("inter_system_recurrence_matrix.ISRM[:N_x, :N_x]", "self.rp_x.recurrence_matrix()"),
  ("inter_system_recurrence_matrix.ISRM[:N_x, N_x:N]", "self.crp_xy.recurrence_matrix()"),
  ("inter_system_recurrence_matrix.ISRM[N_x:N, :N_x]", "self.crp_xy.recurrence_matrix().transpose()"),
  ("inter_system_recurrence_matrix.ISRM[N_x:N, N_x:N]", "self.rp_y.recurrence_matrix()"),
  ("inter_system_recurrence_matrix.return", "ISRM"),
  ("internal_recurrence_rates.return", "(self.rp_x.recurrence_rate(), self.rp_y.recurrence_rate())"),
  ("cross_recurrence_rate.return", "self.crp_xy.cross_recurrence_rate()"),
  ("cross_global_clustering_xy.return", "self.cross_global_clustering(np.arange(self.N_x), np.arange(self.N_x, self.N))"),
  ("cross_global_clustering_yx.return", "self.cross_global_clustering(np.arange(self.N_x, self.N), np.arange(self.N_x))"),
  ("cross_transitivity_xy.return", "self.cross_transitivity(np.arange(self.N_x), np.arange(self.N_x, self.N))"),
  ("cross_transitivity_yx.return", "self.cross_transitivity(np.arange(self.N_x, self.N), np.arange(self.N_x))"),
  ("set_fixed_threshold.ISRM", "self.inter_system_recurrence_matrix()"),
  ("set_fixed_threshold.ISRM.flat[::self.N + 1]", "0"),
  ("set_fixed_threshold.return", "ISRM"),
  ("set_fixed_recurrence_rate.ISRM", "self.inter_system_recurrence_matrix()"),
  ("set_fixed_recurrence_rate.ISRM.flat[::self.N + 1]", "0"),
  ("set_fixed_recurrence_rate.return", "ISRM"),
  ("CrossRecurrencePlot.cross_recurrence_rate.return", "float(self.CR.sum()) / (self.N * self.M)")] := by
  decide +kernel

end ISRN

/-! ## Round 5b

C03 (round 5) proved its loop-level model of the kernel `_nsi_betweenness` equal to the
pair-dependency definition for every undirected network (`NetBetw.sweepDiff_eq_contribDef`,
`NetBetw.nsiBetweenness_eq_def_full`, Lemmas/NetBetwKernel.lean).  The per-target hypothesis of
`nsiCrossBetweenness_eq_def_partial` is therefore a theorem: the three betweenness delegates equal
the published double sum on the two groups under the three hypotheses the real code enforces
(symmetric adjacency — the assertion of `Network._nsi_betweenness`, `betwAssert_iff`; positive node
weights — the division `betw_w / w`; targets `< N` — numpy indexing). -/

section BetweennessFull
open Pyunicorn.NetBetw

/-- **`nsi_cross_betweenness(L1, L2)` is the published double sum — full strength.**  For every
undirected network (symmetric `A`), positive node weights, every source list `L1` and every target
list `L2` of valid node numbers (any order, repetitions allowed, disjoint or not):
`nsi_cross_betweenness(L1, L2)[v] = (1/w_v) Σ_{t ∈ L2} Σ_{s ∈ L1, s ≠ v ≠ t} w_t w_s σ_ts(v)/σ_ts`
(`σ` = weighted number of shortest paths over the BFS distances).  The hypothesis of
`nsiCrossBetweenness_eq_def_partial` is discharged by C03's kernel theorem
`NetBetw.sweepDiff_eq_contribDef`. -/
theorem nsiCrossBetweenness_eq_def (n : Nat) (A : Adj) (hA : Symm A) (w : Nat → Rat)
    (hw : ∀ v, v < n → 0 < w v) (L1 L2 : List Nat) (h2 : ∀ t, t ∈ L2 → t < n) :
    nsiCrossBetweenness n A w L1 L2 = crossBetweennessDef n A w L1 L2 :=
  nsiCrossBetweenness_eq_def_partial n A w L1 L2 fun t ht v hv =>
    sweepDiff_eq_contribDef n A hA w hw (srcMask n L1) t (h2 t ht) v hv

/-- **`cross_betweenness(L1, L2)` is the definition with unit weights** (`nsi=False` replaces the
node weights by ones, so no hypothesis on the network's weights is left) -/
theorem crossBetweenness_eq_def (n : Nat) (A : Adj) (hA : Symm A) (L1 L2 : List Nat)
    (h2 : ∀ t, t ∈ L2 → t < n) :
    crossBetweenness n A L1 L2 = crossBetweennessDef n A (fun _ => 1) L1 L2 :=
  nsiCrossBetweenness_eq_def n A hA (fun _ => 1) (fun _ _ => by decide) L1 L2 h2

/-- **`internal_betweenness(L)`**: sources and targets both `L` -/
theorem internalBetweenness_eq_def (n : Nat) (A : Adj) (hA : Symm A) (L : List Nat)
    (h : ∀ t, t ∈ L → t < n) :
    internalBetweenness n A L = crossBetweennessDef n A (fun _ => 1) L L :=
  crossBetweenness_eq_def n A hA L L h

/-- C11's model of `is_source[sources] = 1` (a fold of stores) and C03's (`srcMaskOf`, a membership
map) are the same mask -/
theorem srcMask_eq_srcMaskOf (n : Nat) (L : List Nat) : srcMask n L = srcMaskOf n (some L) := by
  rw [srcMask_eq]
  unfold srcMaskOf
  apply List.map_congr_left
  intro v _
  simp

/-- **the delegates are C03's model of the `Network` methods they call**: `cross_betweenness(L1, L2)`
is `Network.interregional_betweenness(sources=L1, targets=L2)` and `nsi_cross_betweenness(L1, L2)` is
`Network.nsi_betweenness(sources=L1, targets=L2)` (default `nsi=True`) as modelled by C03
(`NetBetw.interregionalBetweenness`, `NetBetw.apiBetweenness`) — the two independently written
models of the delegation chain coincide, for every network and every pair of lists. -/
theorem betweenness_delegates_eq_api (n : Nat) (A : Adj) (w : Nat → Rat) (L1 L2 : List Nat) :
    crossBetweenness n A L1 L2 = interregionalBetweenness n A w (some L1) (some L2)
      ∧ nsiCrossBetweenness n A w L1 L2 = apiBetweenness n A w (some L1) (some L2) true := by
  unfold crossBetweenness nsiCrossBetweenness interregionalBetweenness apiBetweenness
  rw [srcMask_eq_srcMaskOf]
  simp

/-- **`nsi_cross_betweenness` against the enumeration of shortest paths**: entry `v` is
`(1/w_v) Σ_{t ∈ L2, t ≠ v} w_t Σ_{s ∈ L1, s ≠ v} w_s · (Σ_{p shortest t–s path, v ∈ p} Π_{x ∈ p} w_x)
/ (Σ_{p shortest t–s path} Π_{x ∈ p} w_x)`, both sums over the explicitly enumerated shortest paths
(no recursion on the right-hand side) — what the oracle of the harness computes. -/
theorem nsiCrossBetweenness_eq_enumeration (n : Nat) (A : Adj) (hA : Symm A) (w : Nat → Rat)
    (hw : ∀ v, v < n → 0 < w v) (L1 L2 : List Nat) (h2 : ∀ t, t ∈ L2 → t < n)
    (v : Nat) (hv : v < n) :
    (nsiCrossBetweenness n A w L1 L2).getD v 0
      = nsiBetweennessEnum n A w (Pyunicorn.Net.dist n A) (srcMask n L1) L2 v := by
  rw [nsiCrossBetweenness_eq_def n A hA w hw L1 L2 h2]
  exact nsiBetweennessDef_getD_enum n A w (Pyunicorn.Net.dist n A) (srcMask n L1) L2 v hv

/-- **`cross_betweenness(L1, L2)[v]` counts shortest paths between the groups through `v`**:
`Σ_{t ∈ L2, t ≠ v} Σ_{s ∈ L1, s ≠ v} #(shortest t–s paths through v) / #(shortest t–s paths)`
over the enumerated shortest paths (pairs without a connecting path contribute nothing), for every
undirected network — the sub-block definition of the property, at full strength. -/
theorem crossBetweenness_eq_count (n : Nat) (A : Adj) (hA : Symm A) (L1 L2 : List Nat)
    (h2 : ∀ t, t ∈ L2 → t < n) (v : Nat) (hv : v < n) :
    (crossBetweenness n A L1 L2).getD v 0
      = interregionalCount n A (Pyunicorn.Net.dist n A) L1 L2 v := by
  have h := nsiCrossBetweenness_eq_enumeration n A hA (fun _ => 1) (fun _ _ => by decide)
    L1 L2 h2 v hv
  rw [srcMask_eq_srcMaskOf, enum_unit] at h
  rw [← nsiCrossBetweenness_unit_weights]
  exact h

theorem internalBetweenness_eq_count (n : Nat) (A : Adj) (hA : Symm A) (L : List Nat)
    (h : ∀ t, t ∈ L → t < n) (v : Nat) (hv : v < n) :
    (internalBetweenness n A L).getD v 0
      = interregionalCount n A (Pyunicorn.Net.dist n A) L L v :=
  crossBetweenness_eq_count n A hA L L h v hv

/-- **whole-network limit by definition**: with `L` any ordering of all nodes,
`cross_betweenness(L, L)[v] = internal_betweenness(L)[v]` is the count over *all* ordered pairs of
nodes (on an undirected network twice the shortest-path betweenness), and
`nsi_cross_betweenness(L, L)` is the n.s.i. betweenness of the whole network by definition. -/
theorem whole_betweenness_eq_count (n : Nat) (A : Adj) (hA : Symm A) (L : List Nat)
    (h : L.Perm (List.range n)) (v : Nat) (hv : v < n) :
    (crossBetweenness n A L L).getD v 0
      = interregionalCount n A (Pyunicorn.Net.dist n A) (List.range n) (List.range n) v := by
  rw [crossBetweenness_perm n A h h]
  exact crossBetweenness_eq_count n A hA _ _ (fun t ht => List.mem_range.mp ht) v hv

theorem whole_nsi_betweenness_eq_def (n : Nat) (A : Adj) (hA : Symm A) (w : Nat → Rat)
    (hw : ∀ v, v < n → 0 < w v) (L : List Nat) (h : L.Perm (List.range n)) :
    nsiCrossBetweenness n A w L L
      = nsiBetweennessDef n A w (Pyunicorn.Net.dist n A) (List.replicate n true) (List.range n) := by
  rw [whole_nsi_betweenness n A w L h, ← srcMaskAll_all]
  exact nsiCrossBetweenness_eq_def n A hA w hw _ _ (fun t ht => List.mem_range.mp ht)

/-- **the three delegates on an undirected loop-free network, guard included**: the assertion of
`Network._nsi_betweenness` passes (no `AssertionError`) *and* the results are the published double
sums — the hypothesis "symmetric adjacency" is the one the guard enforces (`betwAssert_iff`: on a
directed network with a link the methods raise instead). -/
theorem betweenness_delegates_full (n : Nat) (A : Adj) (hA : Symm A) (hloop : ∀ a, A a a = false)
    (w : Nat → Rat) (hw : ∀ v, v < n → 0 < w v) (L1 L2 : List Nat)
    (h1 : ∀ t, t ∈ L1 → t < n) (h2 : ∀ t, t ∈ L2 → t < n) :
    betwAssertHolds false n A = true
      ∧ crossBetweenness n A L1 L2 = crossBetweennessDef n A (fun _ => 1) L1 L2
      ∧ internalBetweenness n A L1 = crossBetweennessDef n A (fun _ => 1) L1 L1
      ∧ nsiCrossBetweenness n A w L1 L2 = crossBetweennessDef n A w L1 L2 :=
  ⟨(betwAssert_iff false A (fun _ => hA) hloop n).mpr (Or.inl rfl),
   crossBetweenness_eq_def n A hA L1 L2 h2,
   internalBetweenness_eq_def n A hA L1 h1,
   nsiCrossBetweenness_eq_def n A hA w hw L1 L2 h2⟩

/-! non-vacuity: the path 0–1–2–3 with node weights `1, 2, 3, 4`, groups `[3, 0]` and `[2, 0]`
(overlapping, shuffled) — the hypotheses hold and both sides are non-zero -/

private def pathAdj : Adj := fun a b => a + 1 == b || b + 1 == a
private def pathW : Nat → Rat := fun i => (i : Rat) + 1

private theorem pathAdj_symm : Symm pathAdj := fun _ _ => Bool.or_comm _ _
private theorem pathW_pos (n : Nat) : ∀ v, v < n → 0 < pathW v := by
  intro v _
  have : (0 : Rat) ≤ (v : Rat) := Nat.cast_nonneg v
  unfold pathW
  linarith

example : nsiCrossBetweenness 4 pathAdj pathW [3, 0] [2, 0]
    = crossBetweennessDef 4 pathAdj pathW [3, 0] [2, 0] :=
  nsiCrossBetweenness_eq_def 4 pathAdj pathAdj_symm pathW (pathW_pos 4) _ _ (by decide)
example : (nsiCrossBetweenness 4 pathAdj pathW [3, 0] [2, 0]).getD 1 0 ≠ 0 := by decide +kernel
example : (crossBetweenness 4 pathAdj [3, 0] [2, 0]).getD 1 0
    = interregionalCount 4 pathAdj (Pyunicorn.Net.dist 4 pathAdj) [3, 0] [2, 0] 1 :=
  crossBetweenness_eq_count 4 pathAdj pathAdj_symm _ _ (by decide) 1 (by decide)
example : interregionalCount 4 pathAdj (Pyunicorn.Net.dist 4 pathAdj) [3, 0] [2, 0] 1 = 2 := by
  decide +kernel
example : crossBetweenness 4 pathAdj [3, 0] [2, 0] = [0, 2, 1, 0] := by decide +kernel
example : betwAssertHolds false 4 pathAdj = true
    ∧ nsiCrossBetweenness 4 pathAdj pathW [3, 0] [2, 0]
      = crossBetweennessDef 4 pathAdj pathW [3, 0] [2, 0] :=
  let h := betweenness_delegates_full 4 pathAdj pathAdj_symm (by intro a; simp [pathAdj]) pathW
    (pathW_pos 4) [3, 0] [2, 0] (by decide) (by decide)
  ⟨h.1, h.2.2.2⟩

end BetweennessFull

/-! ## Round 5d

**The betweenness is symmetric in the two groups on undirected networks.**  The model of
`cross_betweenness(L1, L2)` runs one forward/backward sweep per *target* (`L2`, in the caller's
order, a target listed twice counted twice) and masks the *sources* (`L1`, a membership mask), so
the two groups enter the code in entirely different ways.  By C02's/C03's kernel theorem
(`Nsi.kernel_eq_nsiBetw_net`, Lemmas/NsiBetwKernel.lean) entry `v` is the double sum over pairs
`(t, s)` of `w_t w_s n*_ts(v) / (w_v n*_ts)` with `n*` a weighted *walk count*; on a symmetric
adjacency matrix walks can be reversed (`Nsi.wcount_rev`: `w_a · wcount k a b = w_b · wcount k b a`),
so the pair term is symmetric in `(t, s)` (`Nsi.bcTerm_symm`) and the double sum over `L2 × L1` can
be exchanged (`Nsi.nsiBetw_symm`, `Nsi.kernel_symm`, Lemmas/CrossBetwSymm.lean).  Hypotheses:
symmetric adjacency (enforced by the guard of `Network._nsi_betweenness`), positive node weights
(n.s.i. version only), valid node numbers, and **duplicate-free lists** — necessary: a target listed
twice counts twice, a source does not (`crossBetweenness_symm_needs_nodup`). -/

section BetweennessSymm
open Pyunicorn.NetBetw

/-- a duplicate-free list of valid node numbers is a permutation of the increasing enumeration of
its members -/
theorem nodup_perm_filter (n : Nat) (L : List Nat) (h : ∀ t, t ∈ L → t < n) (d : L.Nodup) :
    L.Perm ((List.range n).filter fun v => decide (v ∈ L)) := by
  apply (List.perm_ext_iff_of_nodup d (List.nodup_range.filter _)).mpr
  intro a
  simp only [List.mem_filter, List.mem_range, decide_eq_true_eq]
  exact ⟨fun ha => ⟨h a ha, ha⟩, fun ha => ha.2⟩

/-- **`nsi_cross_betweenness(L1, L2) = nsi_cross_betweenness(L2, L1)`** on every undirected network
(symmetric `A`) with positive node weights, for all duplicate-free lists `L1`, `L2` of valid node
numbers in any order (disjoint or overlapping): the whole vector over the nodes of the network, as
computed by the model of the code (source mask for the first list, one sweep of the kernel
`_nsi_betweenness` per element of the second). -/
theorem nsiCrossBetweenness_symm (n : Nat) (A : Adj) (hA : Symm A) (w : Nat → Rat)
    (hw : ∀ v, v < n → 0 < w v) (L1 L2 : List Nat)
    (h1 : ∀ t, t ∈ L1 → t < n) (h2 : ∀ t, t ∈ L2 → t < n) (d1 : L1.Nodup) (d2 : L2.Nodup) :
    nsiCrossBetweenness n A w L1 L2 = nsiCrossBetweenness n A w L2 L1 := by
  have key : ∀ v, v < n →
      (nsiCrossBetweenness n A w L1 L2).getD v 0 = (nsiCrossBetweenness n A w L2 L1).getD v 0 := by
    intro v hv
    rw [nsiCrossBetweenness_perm n A w (List.Perm.refl L1) (nodup_perm_filter n L2 h2 d2),
      nsiCrossBetweenness_perm n A w (List.Perm.refl L2) (nodup_perm_filter n L1 h1 d1)]
    unfold nsiCrossBetweenness
    rw [srcMask_eq, srcMask_eq]
    exact Nsi.kernel_symm ⟨n, A, w, fun _ _ _ => 0, fun _ _ => false, Pyunicorn.Net.dist n A⟩
      hA hw (fun v => decide (v ∈ L1)) (fun v => decide (v ∈ L2)) v hv
  rw [nsiCrossBetweenness_sum_over_targets n A w L1 L2,
    nsiCrossBetweenness_sum_over_targets n A w L2 L1] at key ⊢
  apply List.map_congr_left
  intro v hv
  have hv' : v < n := List.mem_range.mp hv
  have := key v hv'
  rwa [getD_map_range_rat n _ v hv', getD_map_range_rat n _ v hv'] at this

/-- **`cross_betweenness(L1, L2) = cross_betweenness(L2, L1)`** on every undirected network, for all
duplicate-free lists of valid node numbers (unit weights: no hypothesis on the node weights) — the
statement of the property "measures whose definition is symmetric in the two groups return equal
values for both argument orders" for the betweenness. -/
theorem crossBetweenness_symm (n : Nat) (A : Adj) (hA : Symm A) (L1 L2 : List Nat)
    (h1 : ∀ t, t ∈ L1 → t < n) (h2 : ∀ t, t ∈ L2 → t < n) (d1 : L1.Nodup) (d2 : L2.Nodup) :
    crossBetweenness n A L1 L2 = crossBetweenness n A L2 L1 :=
  nsiCrossBetweenness_symm n A hA (fun _ => 1) (fun _ _ => by decide) L1 L2 h1 h2 d1 d2

/-- **the count of shortest paths between the groups through `v` is symmetric in the groups**:
`Σ_{t ∈ L2} Σ_{s ∈ L1} #(shortest t–s paths through v)/#(shortest t–s paths)` over the explicitly
enumerated shortest paths equals the same sum with the roles of the lists exchanged — the
"reversal is a bijection between the enumerated shortest `t–s` and `s–t` paths" statement left open
in round 5b, at the level of the sums of quotients. -/
theorem interregionalCount_symm (n : Nat) (A : Adj) (hA : Symm A) (L1 L2 : List Nat)
    (h1 : ∀ t, t ∈ L1 → t < n) (h2 : ∀ t, t ∈ L2 → t < n) (d1 : L1.Nodup) (d2 : L2.Nodup)
    (v : Nat) (hv : v < n) :
    interregionalCount n A (Pyunicorn.Net.dist n A) L1 L2 v
      = interregionalCount n A (Pyunicorn.Net.dist n A) L2 L1 v := by
  rw [← crossBetweenness_eq_count n A hA L1 L2 h2 v hv,
    ← crossBetweenness_eq_count n A hA L2 L1 h1 v hv,
    crossBetweenness_symm n A hA L1 L2 h1 h2 d1 d2]

/-- **the published double sum is symmetric in the groups** (`crossBetweennessDef`, the definition
with sources `L1` and targets `L2`) -/
theorem crossBetweennessDef_symm (n : Nat) (A : Adj) (hA : Symm A) (w : Nat → Rat)
    (hw : ∀ v, v < n → 0 < w v) (L1 L2 : List Nat)
    (h1 : ∀ t, t ∈ L1 → t < n) (h2 : ∀ t, t ∈ L2 → t < n) (d1 : L1.Nodup) (d2 : L2.Nodup) :
    crossBetweennessDef n A w L1 L2 = crossBetweennessDef n A w L2 L1 := by
  rw [← nsiCrossBetweenness_eq_def n A hA w hw L1 L2 h2,
    ← nsiCrossBetweenness_eq_def n A hA w hw L2 L1 h1]
  exact nsiCrossBetweenness_symm n A hA w hw L1 L2 h1 h2 d1 d2

/-- **"duplicate-free" cannot be dropped**: on the path 0–1–2–3 the target list `[2, 2]` counts the
pair (0, 2) twice at node 1, the source list `[2, 2]` counts it once -/
theorem crossBetweenness_symm_needs_nodup :
    crossBetweenness 4 (fun a b => a + 1 == b || b + 1 == a) [0] [2, 2]
      ≠ crossBetweenness 4 (fun a b => a + 1 == b || b + 1 == a) [2, 2] [0] := by
  decide +kernel

/-! non-vacuity: the path 0–1–2–3, node weights `1, 2, 3, 4`, the overlapping shuffled groups
`[3, 0]`, `[2, 0]` — all hypotheses hold, the values are non-zero and not trivially equal (the two
calls run different sweeps: targets `2, 0` against targets `3, 0`) -/
example : nsiCrossBetweenness 4 pathAdj pathW [3, 0] [2, 0]
    = nsiCrossBetweenness 4 pathAdj pathW [2, 0] [3, 0] :=
  nsiCrossBetweenness_symm 4 pathAdj pathAdj_symm pathW (pathW_pos 4) _ _ (by decide) (by decide)
    (by decide) (by decide)
example : crossBetweenness 4 pathAdj [3, 0] [2, 0] = crossBetweenness 4 pathAdj [2, 0] [3, 0] :=
  crossBetweenness_symm 4 pathAdj pathAdj_symm _ _ (by decide) (by decide) (by decide) (by decide)
example : crossBetweenness 4 pathAdj [2, 0] [3, 0] = [0, 2, 1, 0] := by decide +kernel
example : (nsiCrossBetweenness 4 pathAdj pathW [2, 0] [3, 0]).getD 1 0 ≠ 0 := by decide +kernel
example : interregionalCount 4 pathAdj (Pyunicorn.Net.dist 4 pathAdj) [3, 0] [2, 0] 1
    = interregionalCount 4 pathAdj (Pyunicorn.Net.dist 4 pathAdj) [2, 0] [3, 0] 1 :=
  interregionalCount_symm 4 pathAdj pathAdj_symm _ _ (by decide) (by decide) (by decide)
    (by decide) 1 (by decide)
example : interregionalCount 4 pathAdj (Pyunicorn.Net.dist 4 pathAdj) [2, 0] [3, 0] 1 = 2 := by
  decide +kernel
example : crossBetweennessDef 4 pathAdj pathW [3, 0] [2, 0]
    = crossBetweennessDef 4 pathAdj pathW [2, 0] [3, 0] :=
  crossBetweennessDef_symm 4 pathAdj pathAdj_symm pathW (pathW_pos 4) _ _ (by decide) (by decide)
    (by decide) (by decide)

end BetweennessSymm

end Pyunicorn.Cross
