import Pyunicorn.Lemmas.Nsi
import Pyunicorn.Lemmas.NsiDist
import Pyunicorn.Lemmas.NsiBetw
import Pyunicorn.Model.NsiMeasures
/-!
# C02 — Node-splitting invariance of all n.s.i. measures

`eval_split` is the one theorem: *every* expression of the n.s.i. expression language
(`Pyunicorn.Nsi.E`) evaluates on the split graph, at any tuple of nodes, to what it evaluates
to on the original graph at the collapsed tuple.  Every n.s.i. measure of `Network` and
`InteractingNetworks` is such an expression (`Model/NsiMeasures.lean`, tied to the code by
the correspondence in `harness/c02.py`), so its invariance is the corollary `measure_split`:
global values equal, per-node values equal on untouched nodes and on both twins, pairwise
values equal.
-/
namespace Pyunicorn.Nsi

/-- **Node-splitting invariance, generically.** For every graph `G`, node `v < N`, proportion
`p` (no positivity needed), expression `e` and node tuple `env`:
`eval (split G v p) env e = eval G (collapse ∘ env) e`. -/
theorem eval_split (G : Gr) (v : Nat) (p : Rat) (hv : v < G.n) (e : E) (env : List Nat) :
    eval (split G v p) env e = eval G (env.map (collapse G.n v)) e := by
  induction e generalizing env with
  | const q => simp [eval]
  | aplus i j => simp only [eval, aplus_split G v p hv, var_map _ _ _ _ hv]
  | la a i j => simp only [eval, split, var_map _ _ _ _ hv]
  | grp g i => simp [eval, split, var_map _ _ _ _ hv]
  | dplus i j => simp only [eval, dplus_split, var_map _ _ _ _ hv]
  | conn i j => simp only [eval, dplus_split, var_map _ _ _ _ hv]
  | invd i j => simp only [eval, dplus_split, var_map _ _ _ _ hv]
  | expd i j => simp only [eval, dplus_split, var_map _ _ _ _ hv]
  | add a b iha ihb => simp only [eval, iha, ihb]
  | sub a b iha ihb => simp only [eval, iha, ihb]
  | mul a b iha ihb => simp only [eval, iha, ihb]
  | div a b iha ihb => simp only [eval, iha, ihb]
  | max a b iha ihb => simp only [eval, iha, ihb]
  | min a b iha ihb => simp only [eval, iha, ihb]
  | ifpos c a b ihc iha ihb => simp only [eval, ihc, iha, ihb]
  | wsum e ih =>
    simp only [eval]
    have := pushforward G v p hv (fun k => eval G (k :: env.map (collapse G.n v)) e)
    rw [← this]
    congr 1
    apply List.map_congr_left
    intro k _
    rw [ih (k :: env)]
    simp
  | kmax e ih =>
    simp only [eval]
    have hn : (split G v p).n = G.n + 1 := rfl
    rw [hn, ← max_pushforward G.n v hv (fun k => eval G (k :: env.map (collapse G.n v)) e)]
    congr 1
    apply List.map_congr_left
    intro k _
    rw [ih (k :: env)]
    simp

/-- iterated splits: invariance along any sequence of splits (each of a then-existing node) -/
def splits (G : Gr) : List (Nat × Rat) → Gr
  | [] => G
  | (v, p) :: t => splits (split G v p) t

def collapseAll (n : Nat) : List (Nat × Rat) → List Nat → List Nat
  | [], env => env
  | (v, _) :: t, env => (collapseAll (n + 1) t env).map (collapse n v)

theorem eval_splits (G : Gr) (vs : List (Nat × Rat)) (e : E) (env : List Nat)
    (hvs : ∀ (k : Nat) (h : k < vs.length), (vs[k]).1 < G.n + k) :
    eval (splits G vs) env e = eval G (collapseAll G.n vs env) e := by
  induction vs generalizing G env with
  | nil => rfl
  | cons vp t ih =>
    obtain ⟨v, p⟩ := vp
    have hv : v < G.n := by
      have := hvs 0 (by simp)
      simpa [List.getElem_cons_zero] using this
    simp only [splits, collapseAll]
    rw [ih (split G v p) env (by
      intro k hk
      have := hvs (k + 1) (by simpa using hk)
      simp only [List.getElem_cons_succ] at this
      show (t[k]).1 < G.n + 1 + k
      omega)]
    have hn : (split G v p).n = G.n + 1 := rfl
    rw [hn, eval_split G v p hv]

/-- **global measures** (no free node): the value is unchanged by the split -/
theorem global_split (G : Gr) (v : Nat) (p : Rat) (hv : v < G.n) (e : E) :
    eval (split G v p) [] e = eval G [] e := by
  simpa using eval_split G v p hv e []

/-- **per-node measures**: untouched nodes keep their value … -/
theorem local_split_untouched (G : Gr) (v : Nat) (p : Rat) (hv : v < G.n) (e : E) (i : Nat)
    (hi : i < G.n) : eval (split G v p) [i] e = eval G [i] e := by
  simpa [collapse_lt _ _ _ hi] using eval_split G v p hv e [i]

/-- … and the new twin (index `N`) carries `v`'s value (as does `v` itself, by the above) -/
theorem local_split_twin (G : Gr) (v : Nat) (p : Rat) (hv : v < G.n) (e : E) :
    eval (split G v p) [G.n] e = eval G [v] e := by
  simpa [collapse_self] using eval_split G v p hv e [G.n]

/-- **pairwise measures**: equal on untouched pairs -/
theorem pair_split_untouched (G : Gr) (v : Nat) (p : Rat) (hv : v < G.n) (e : E) (i j : Nat)
    (hi : i < G.n) (hj : j < G.n) : eval (split G v p) [i, j] e = eval G [i, j] e := by
  simpa [collapse_lt _ _ _ hi, collapse_lt _ _ _ hj] using eval_split G v p hv e [i, j]

/-- the total node weight is preserved (`w_v` is divided between the twins) -/
theorem total_weight_split (G : Gr) (v : Nat) (p : Rat) (hv : v < G.n) :
    eval (split G v p) [] (.wsum (.const 1)) = eval G [] (.wsum (.const 1)) :=
  global_split G v p hv _

/-- **the distances `split` installs are the true ones.**  For a loop-free graph whose `dist`
field is its shortest-path length (walks along links inside the node range), the distance
function of the split graph — twins at distance 1, every other pair pulled back along the
collapse map — *is* the shortest-path length of the split graph: every walk of the split graph
collapses to a walk that is not longer (`walk_collapse`) and every walk of the original graph
lifts (`walk_lift`).  So the distance-based measures (average path length, closeness family,
efficiency, cross closeness / path length) are invariant with respect to genuine shortest-path
lengths, not merely with respect to an assumed pull-back. -/
theorem split_distances_are_shortest_paths (G : Gr) (v : Nat) (p : Rat) (hv : v < G.n)
    (hloop : ∀ i, G.adj i i = false)
    (hd : ∀ a b, a < G.n → b < G.n → IsDist G a b (G.dist a b)) :
    ∀ a b, a < G.n + 1 → b < G.n + 1 →
      IsDist (split G v p) a b ((split G v p).dist a b) :=
  split_dist_isDist G v p hv hloop hd

/-- non-vacuity: on the path 0–1–2, node 2 is at distance 2 from node 0 -/
def pathG : Gr :=
  { n := 3, adj := fun i j => (i, j) ∈ [(0, 1), (1, 0), (1, 2), (2, 1)],
    w := fun _ => 1, la := fun _ _ _ => 0, grp := fun _ _ => false, dist := fun _ _ => none }

example : IsDist pathG 0 2 (some 2) := by
  refine ⟨Walk.cons 0 1 2 1 (by decide) (by decide) (Walk.cons 1 2 2 0 (by decide) (by decide)
    (Walk.nil 2 (by decide))), ?_⟩
  intro k w
  match k, w with
  | 0, w => exact absurd w.zero_eq (by decide)
  | 1, .cons _ b _ _ _ hab w' =>
    have := w'.zero_eq; subst this
    simp [pathG] at hab
  | k + 2, _ => omega

/-! ### n.s.i. shortest-path betweenness (round 3): invariance at the level of the definition

`Model/NsiBetw.lean`: `BC*_i = Σ_{s∈S, t∈T, s≠i≠t} w_s w_t · n*_st(i) / (w_i n*_st)` with `n*`
the weighted count of shortest walks (`wcount` at length `dist s t`).  This is what
`Network.nsi_betweenness(sources, targets)`, `nsi_interregional_betweenness` and
`InteractingNetworks.nsi_cross_betweenness` document and what the kernel `_nsi_betweenness`
computes (tie: exact correspondence of `nsiBetw`, of the kernel model `NetBetw.nsiBetweenness`
and of the implementation on every generated graph and split copy, `harness/c02.py`). -/

/-- the weighted count really counts walks: it is non-zero only if a walk of that length
exists … -/
theorem wcount_ne_zero_walk (G : Gr) (k a b : Nat) (ha : a < G.n) (h : wcount G k a b ≠ 0) :
    Walk G a b k :=
  walk_of_wcount_ne_zero G k a b ha h

/-- … and, for positive node weights, positive whenever one exists -/
theorem wcount_pos_of_walk (G : Gr) (hw : ∀ k, k < G.n → 0 < G.w k) {a b k : Nat}
    (w : Walk G a b k) : 0 < wcount G k a b :=
  wcount_pos G hw w

/-- **weighted shortest-path counts of the split graph** (the heart of the proof): walks of
minimal length never use the twin–twin link, so `n'*(a,b) · w_{c b} = n*(c a, c b) · w'_b` -/
theorem shortest_path_counts_split (G : Gr) (v : Nat) (p : Rat) (hv : v < G.n)
    (hloop : ∀ i, G.adj i i = false) (a b k : Nat) (ha : a < G.n + 1) (hb : b < G.n + 1)
    (hmin : ∀ j, j < k + 1 → ¬ Walk G (collapse G.n v a) (collapse G.n v b) j) :
    wcount (split G v p) (k + 1) a b * G.w (collapse G.n v b)
      = wcount G (k + 1) (collapse G.n v a) (collapse G.n v b) * (split G v p).w b :=
  wcount_split G v p hv hloop b hb k a ha hmin

/-- **Node-splitting invariance of n.s.i. betweenness, full statement.**  For every loop-free
graph with positive node weights whose `dist` is its shortest-path length, every node `v`,
every proportion `0 < p < 1`, all source and target sets `S`, `T` (the twin joins `v`'s sets)
and *every* node `a` of the split graph — untouched node or either twin — the n.s.i.
betweenness of `a` in the split graph is that of `collapse a` in the original graph.  The
twin–twin pairs are included: no shortest path between a twin and another node passes through
the other twin (`bcTerm_twin_left/right`). -/
theorem nsi_betweenness_split (G : Gr) (v : Nat) (p : Rat) (hv : v < G.n) (hp0 : 0 < p)
    (hp1 : p < 1) (hw : ∀ k, k < G.n → 0 < G.w k) (hloop : ∀ i, G.adj i i = false)
    (hd : ∀ a b, a < G.n → b < G.n → IsDist G a b (G.dist a b))
    (S T : Nat → Bool) (a : Nat) (ha : a < G.n + 1) :
    nsiBetw (split G v p) (fun k => S (collapse G.n v k)) (fun k => T (collapse G.n v k)) a
      = nsiBetw G S T (collapse G.n v a) :=
  nsiBetw_split_lemma G v p hv hp0 hp1 hw hloop hd S T a ha

/-- per-node form: untouched nodes keep their betweenness, both twins carry `v`'s -/
theorem nsi_betweenness_split_nodes (G : Gr) (v : Nat) (p : Rat) (hv : v < G.n) (hp0 : 0 < p)
    (hp1 : p < 1) (hw : ∀ k, k < G.n → 0 < G.w k) (hloop : ∀ i, G.adj i i = false)
    (hd : ∀ a b, a < G.n → b < G.n → IsDist G a b (G.dist a b)) (S T : Nat → Bool) :
    (∀ i, i < G.n → nsiBetw (split G v p) (fun k => S (collapse G.n v k))
        (fun k => T (collapse G.n v k)) i = nsiBetw G S T i) ∧
    nsiBetw (split G v p) (fun k => S (collapse G.n v k)) (fun k => T (collapse G.n v k)) G.n
      = nsiBetw G S T v := by
  constructor
  · intro i hi
    have := nsi_betweenness_split G v p hv hp0 hp1 hw hloop hd S T i (by omega)
    rwa [collapse_lt _ _ _ hi] at this
  · have := nsi_betweenness_split G v p hv hp0 hp1 hw hloop hd S T G.n (by omega)
    rwa [collapse_self] at this

/-- the plain `nsi_betweenness()` (all nodes are sources and targets) -/
theorem nsi_betweenness_all_split (G : Gr) (v : Nat) (p : Rat) (hv : v < G.n) (hp0 : 0 < p)
    (hp1 : p < 1) (hw : ∀ k, k < G.n → 0 < G.w k) (hloop : ∀ i, G.adj i i = false)
    (hd : ∀ a b, a < G.n → b < G.n → IsDist G a b (G.dist a b)) (a : Nat) (ha : a < G.n + 1) :
    nsiBetw (split G v p) (fun _ => true) (fun _ => true) a
      = nsiBetw G (fun _ => true) (fun _ => true) (collapse G.n v a) :=
  nsi_betweenness_split G v p hv hp0 hp1 hw hloop hd (fun _ => true) (fun _ => true) a ha

/-- the breadth-first layers from which the driver computes its own distances are exactly the
walks: entry `a` of `toSet G b k` is set iff there is a walk of length `k` from `a` to `b` -/
theorem bfs_layers_are_walks (G : Gr) (b k a : Nat) (ha : a < G.n) :
    (toSet G b k).getD a false = true ↔ Walk G a b k :=
  toSet_walk G b k a ha

/-- non-vacuity: on the path 0–1–2 with weights 1, 2, 3 the middle node has n.s.i.
betweenness `2 · w_0 w_2 / w_1 = 3`, before and after splitting it -/
def pathGd : Gr :=
  { n := 3, adj := fun i j => (i, j) ∈ [(0, 1), (1, 0), (1, 2), (2, 1)],
    w := fun k => [1, 2, 3].getD k 0, la := fun _ _ _ => 0, grp := fun _ _ => false,
    dist := fun i j => if i = j then some 0 else if i + j = 2 then some 2 else some 1 }

example : nsiBetw pathGd (fun _ => true) (fun _ => true) 1 = 3 ∧
    nsiBetw (split pathGd 1 (1/4)) (fun _ => true) (fun _ => true) 1 = 3 ∧
    nsiBetw (split pathGd 1 (1/4)) (fun _ => true) (fun _ => true) 3 = 3 ∧
    nsiBetw (split pathGd 1 (1/4)) (fun _ => true) (fun _ => true) 0 = 0 := by
  decide +kernel

/-! ### the measures of the library are expressions: invariance of each, by name -/

theorem nsi_degree_split (G : Gr) (v : Nat) (p : Rat) (hv : v < G.n) (i : Nat) (hi : i < G.n) :
    eval (split G v p) [i] M.nsiDegree = eval G [i] M.nsiDegree ∧
    eval (split G v p) [G.n] M.nsiDegree = eval G [v] M.nsiDegree :=
  ⟨local_split_untouched G v p hv _ i hi, local_split_twin G v p hv _⟩

theorem nsi_local_clustering_split (G : Gr) (v : Nat) (p : Rat) (hv : v < G.n) (i : Nat)
    (hi : i < G.n) :
    eval (split G v p) [i] M.nsiLocalClustering = eval G [i] M.nsiLocalClustering ∧
    eval (split G v p) [G.n] M.nsiLocalClustering = eval G [v] M.nsiLocalClustering :=
  ⟨local_split_untouched G v p hv _ i hi, local_split_twin G v p hv _⟩

theorem nsi_transitivity_split (G : Gr) (v : Nat) (p : Rat) (hv : v < G.n) :
    eval (split G v p) [] M.nsiTransitivity = eval G [] M.nsiTransitivity :=
  global_split G v p hv _

/-- every measure in the catalogue `M.all` (name, arity, expression) is invariant -/
theorem catalogue_split (G : Gr) (v : Nat) (p : Rat) (hv : v < G.n) (tw : Rat) :
    ∀ m ∈ M.all tw, ∀ env : List Nat,
      eval (split G v p) env m.2.2 = eval G (env.map (collapse G.n v)) m.2.2 :=
  fun m _ env => eval_split G v p hv m.2.2 env

/-! ### non-vacuity: a concrete split changes the graph but not the measure -/

def exG : Gr :=
  { n := 3, adj := fun i j => (i, j) ∈ [(0, 1), (1, 0), (1, 2), (2, 1)],
    w := fun k => [1, 2, 3].getD k 0, la := fun _ _ _ => 0, grp := fun _ _ => false,
    dist := fun _ _ => none }

example : eval exG [0] M.nsiDegree = 3 ∧ eval (split exG 1 (1/4)) [0] M.nsiDegree = 3 ∧
    (split exG 1 (1/4)).n = 4 ∧ (split exG 1 (1/4)).w 1 = 3/2 ∧ (split exG 1 (1/4)).w 3 = 1/2 := by
  decide +kernel

end Pyunicorn.Nsi
