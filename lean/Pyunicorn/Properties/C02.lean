import Pyunicorn.Lemmas.Nsi
import Pyunicorn.Lemmas.NsiDist
import Pyunicorn.Lemmas.NsiBetw
import Pyunicorn.Lemmas.NsiBfs
import Pyunicorn.Lemmas.NsiRw
import Pyunicorn.Lemmas.NsiEig
import Pyunicorn.Lemmas.NsiArenasReg
import Pyunicorn.Lemmas.NsiComp
import Pyunicorn.Lemmas.NsiCompInv
import Pyunicorn.Lemmas.NsiCompArenas
import Pyunicorn.Lemmas.NsiCompConn
import Pyunicorn.Lemmas.NsiCompFold
import Pyunicorn.Lemmas.NsiBetwKernel
import Pyunicorn.Lemmas.NsiWrapped
import Pyunicorn.Lemmas.NsiBetwTargets
import Pyunicorn.Lemmas.NsiWrappedArenas
import Pyunicorn.Lemmas.NsiGJ
import Pyunicorn.Lemmas.NsiGJ2
import Pyunicorn.Lemmas.NsiNewmanReg
import Pyunicorn.Lemmas.NsiArenasTotal
import Pyunicorn.Model.NsiMeasures
/-!
# C02 — Node-splitting invariance of all n.s.i. measures

`eval_split` is the one theorem: *every* expression of the n.s.i. expression language
(`Pyunicorn.Nsi.E`) evaluates on the split graph, at any tuple of nodes, to what it evaluates
to on the original graph at the collapsed tuple.  Every n.s.i. measure of `Network` and
`InteractingNetworks` is such an expression (`Model/NsiMeasures.lean`, tied to the code by
the correspondence in `harness/c02.py`), so its invariance is the corollary `measure_split`:
global values equal, per-node values equal on untouched nodes and on both twins, pairwise
values equal.
-/
namespace Pyunicorn.Nsi

/-- **Node-splitting invariance, generically.** For every graph `G`, node `v < N`, proportion
`p` (no positivity needed), expression `e` and node tuple `env`:
`eval (split G v p) env e = eval G (collapse ∘ env) e`. -/
theorem eval_split (G : Gr) (v : Nat) (p : Rat) (hv : v < G.n) (e : E) (env : List Nat) :
    eval (split G v p) env e = eval G (env.map (collapse G.n v)) e := by
  induction e generalizing env with
  | const q => simp [eval]
  | aplus i j => simp only [eval, aplus_split G v p hv, var_map _ _ _ _ hv]
  | la a i j => simp only [eval, split, var_map _ _ _ _ hv]
  | grp g i => simp [eval, split, var_map _ _ _ _ hv]
  | dplus i j => simp only [eval, dplus_split, var_map _ _ _ _ hv]
  | conn i j => simp only [eval, dplus_split, var_map _ _ _ _ hv]
  | invd i j => simp only [eval, dplus_split, var_map _ _ _ _ hv]
  | expd i j => simp only [eval, dplus_split, var_map _ _ _ _ hv]
  | add a b iha ihb => simp only [eval, iha, ihb]
  | sub a b iha ihb => simp only [eval, iha, ihb]
  | mul a b iha ihb => simp only [eval, iha, ihb]
  | div a b iha ihb => simp only [eval, iha, ihb]
  | max a b iha ihb => simp only [eval, iha, ihb]
  | min a b iha ihb => simp only [eval, iha, ihb]
  | ifpos c a b ihc iha ihb => simp only [eval, ihc, iha, ihb]
  | wsum e ih =>
    simp only [eval]
    have := pushforward G v p hv (fun k => eval G (k :: env.map (collapse G.n v)) e)
    rw [← this]
    congr 1
    apply List.map_congr_left
    intro k _
    rw [ih (k :: env)]
    simp
  | kmax e ih =>
    simp only [eval]
    have hn : (split G v p).n = G.n + 1 := rfl
    rw [hn, ← max_pushforward G.n v hv (fun k => eval G (k :: env.map (collapse G.n v)) e)]
    congr 1
    apply List.map_congr_left
    intro k _
    rw [ih (k :: env)]
    simp

/-- iterated splits: invariance along any sequence of splits (each of a then-existing node) -/
def splits (G : Gr) : List (Nat × Rat) → Gr
  | [] => G
  | (v, p) :: t => splits (split G v p) t

def collapseAll (n : Nat) : List (Nat × Rat) → List Nat → List Nat
  | [], env => env
  | (v, _) :: t, env => (collapseAll (n + 1) t env).map (collapse n v)

theorem eval_splits (G : Gr) (vs : List (Nat × Rat)) (e : E) (env : List Nat)
    (hvs : ∀ (k : Nat) (h : k < vs.length), (vs[k]).1 < G.n + k) :
    eval (splits G vs) env e = eval G (collapseAll G.n vs env) e := by
  induction vs generalizing G env with
  | nil => rfl
  | cons vp t ih =>
    obtain ⟨v, p⟩ := vp
    have hv : v < G.n := by
      have := hvs 0 (by simp)
      simpa [List.getElem_cons_zero] using this
    simp only [splits, collapseAll]
    rw [ih (split G v p) env (by
      intro k hk
      have := hvs (k + 1) (by simpa using hk)
      simp only [List.getElem_cons_succ] at this
      show (t[k]).1 < G.n + 1 + k
      omega)]
    have hn : (split G v p).n = G.n + 1 := rfl
    rw [hn, eval_split G v p hv]

/-- **global measures** (no free node): the value is unchanged by the split -/
theorem global_split (G : Gr) (v : Nat) (p : Rat) (hv : v < G.n) (e : E) :
    eval (split G v p) [] e = eval G [] e := by
  simpa using eval_split G v p hv e []

/-- **per-node measures**: untouched nodes keep their value … -/
theorem local_split_untouched (G : Gr) (v : Nat) (p : Rat) (hv : v < G.n) (e : E) (i : Nat)
    (hi : i < G.n) : eval (split G v p) [i] e = eval G [i] e := by
  simpa [collapse_lt _ _ _ hi] using eval_split G v p hv e [i]

/-- … and the new twin (index `N`) carries `v`'s value (as does `v` itself, by the above) -/
theorem local_split_twin (G : Gr) (v : Nat) (p : Rat) (hv : v < G.n) (e : E) :
    eval (split G v p) [G.n] e = eval G [v] e := by
  simpa [collapse_self] using eval_split G v p hv e [G.n]

/-- **pairwise measures**: equal on untouched pairs -/
theorem pair_split_untouched (G : Gr) (v : Nat) (p : Rat) (hv : v < G.n) (e : E) (i j : Nat)
    (hi : i < G.n) (hj : j < G.n) : eval (split G v p) [i, j] e = eval G [i, j] e := by
  simpa [collapse_lt _ _ _ hi, collapse_lt _ _ _ hj] using eval_split G v p hv e [i, j]

/-- the total node weight is preserved (`w_v` is divided between the twins) -/
theorem total_weight_split (G : Gr) (v : Nat) (p : Rat) (hv : v < G.n) :
    eval (split G v p) [] (.wsum (.const 1)) = eval G [] (.wsum (.const 1)) :=
  global_split G v p hv _

/-- **the distances `split` installs are the true ones.**  For a loop-free graph whose `dist`
field is its shortest-path length (walks along links inside the node range), the distance
function of the split graph — twins at distance 1, every other pair pulled back along the
collapse map — *is* the shortest-path length of the split graph: every walk of the split graph
collapses to a walk that is not longer (`walk_collapse`) and every walk of the original graph
lifts (`walk_lift`).  So the distance-based measures (average path length, closeness family,
efficiency, cross closeness / path length) are invariant with respect to genuine shortest-path
lengths, not merely with respect to an assumed pull-back. -/
theorem split_distances_are_shortest_paths (G : Gr) (v : Nat) (p : Rat) (hv : v < G.n)
    (hloop : ∀ i, G.adj i i = false)
    (hd : ∀ a b, a < G.n → b < G.n → IsDist G a b (G.dist a b)) :
    ∀ a b, a < G.n + 1 → b < G.n + 1 →
      IsDist (split G v p) a b ((split G v p).dist a b) :=
  split_dist_isDist G v p hv hloop hd

/-- non-vacuity: on the path 0–1–2, node 2 is at distance 2 from node 0 -/
def pathG : Gr :=
  { n := 3, adj := fun i j => (i, j) ∈ [(0, 1), (1, 0), (1, 2), (2, 1)],
    w := fun _ => 1, la := fun _ _ _ => 0, grp := fun _ _ => false, dist := fun _ _ => none }

example : IsDist pathG 0 2 (some 2) := by
  refine ⟨Walk.cons 0 1 2 1 (by decide) (by decide) (Walk.cons 1 2 2 0 (by decide) (by decide)
    (Walk.nil 2 (by decide))), ?_⟩
  intro k w
  match k, w with
  | 0, w => exact absurd w.zero_eq (by decide)
  | 1, .cons _ b _ _ _ hab w' =>
    have := w'.zero_eq; subst this
    simp [pathG] at hab
  | k + 2, _ => omega

/-! ### n.s.i. shortest-path betweenness (round 3): invariance at the level of the definition

`Model/NsiBetw.lean`: `BC*_i = Σ_{s∈S, t∈T, s≠i≠t} w_s w_t · n*_st(i) / (w_i n*_st)` with `n*`
the weighted count of shortest walks (`wcount` at length `dist s t`).  This is what
`Network.nsi_betweenness(sources, targets)`, `nsi_interregional_betweenness` and
`InteractingNetworks.nsi_cross_betweenness` document and what the kernel `_nsi_betweenness`
computes (tie: exact correspondence of `nsiBetw`, of the kernel model `NetBetw.nsiBetweenness`
and of the implementation on every generated graph and split copy, `harness/c02.py`). -/

/-- the weighted count really counts walks: it is non-zero only if a walk of that length
exists … -/
theorem wcount_ne_zero_walk (G : Gr) (k a b : Nat) (ha : a < G.n) (h : wcount G k a b ≠ 0) :
    Walk G a b k :=
  walk_of_wcount_ne_zero G k a b ha h

/-- … and, for positive node weights, positive whenever one exists -/
theorem wcount_pos_of_walk (G : Gr) (hw : ∀ k, k < G.n → 0 < G.w k) {a b k : Nat}
    (w : Walk G a b k) : 0 < wcount G k a b :=
  wcount_pos G hw w

/-- **weighted shortest-path counts of the split graph** (the heart of the proof): walks of
minimal length never use the twin–twin link, so `n'*(a,b) · w_{c b} = n*(c a, c b) · w'_b` -/
theorem shortest_path_counts_split (G : Gr) (v : Nat) (p : Rat) (hv : v < G.n)
    (hloop : ∀ i, G.adj i i = false) (a b k : Nat) (ha : a < G.n + 1) (hb : b < G.n + 1)
    (hmin : ∀ j, j < k + 1 → ¬ Walk G (collapse G.n v a) (collapse G.n v b) j) :
    wcount (split G v p) (k + 1) a b * G.w (collapse G.n v b)
      = wcount G (k + 1) (collapse G.n v a) (collapse G.n v b) * (split G v p).w b :=
  wcount_split G v p hv hloop b hb k a ha hmin

/-- **Node-splitting invariance of n.s.i. betweenness, full statement.**  For every loop-free
graph with positive node weights whose `dist` is its shortest-path length, every node `v`,
every proportion `0 < p < 1`, all source and target sets `S`, `T` (the twin joins `v`'s sets)
and *every* node `a` of the split graph — untouched node or either twin — the n.s.i.
betweenness of `a` in the split graph is that of `collapse a` in the original graph.  The
twin–twin pairs are included: no shortest path between a twin and another node passes through
the other twin (`bcTerm_twin_left/right`). -/
theorem nsi_betweenness_split (G : Gr) (v : Nat) (p : Rat) (hv : v < G.n) (hp0 : 0 < p)
    (hp1 : p < 1) (hw : ∀ k, k < G.n → 0 < G.w k) (hloop : ∀ i, G.adj i i = false)
    (hd : ∀ a b, a < G.n → b < G.n → IsDist G a b (G.dist a b))
    (S T : Nat → Bool) (a : Nat) (ha : a < G.n + 1) :
    nsiBetw (split G v p) (fun k => S (collapse G.n v k)) (fun k => T (collapse G.n v k)) a
      = nsiBetw G S T (collapse G.n v a) :=
  nsiBetw_split_lemma G v p hv hp0 hp1 hw hloop hd S T a ha

/-- per-node form: untouched nodes keep their betweenness, both twins carry `v`'s -/
theorem nsi_betweenness_split_nodes (G : Gr) (v : Nat) (p : Rat) (hv : v < G.n) (hp0 : 0 < p)
    (hp1 : p < 1) (hw : ∀ k, k < G.n → 0 < G.w k) (hloop : ∀ i, G.adj i i = false)
    (hd : ∀ a b, a < G.n → b < G.n → IsDist G a b (G.dist a b)) (S T : Nat → Bool) :
    (∀ i, i < G.n → nsiBetw (split G v p) (fun k => S (collapse G.n v k))
        (fun k => T (collapse G.n v k)) i = nsiBetw G S T i) ∧
    nsiBetw (split G v p) (fun k => S (collapse G.n v k)) (fun k => T (collapse G.n v k)) G.n
      = nsiBetw G S T v := by
  constructor
  · intro i hi
    have := nsi_betweenness_split G v p hv hp0 hp1 hw hloop hd S T i (by omega)
    rwa [collapse_lt _ _ _ hi] at this
  · have := nsi_betweenness_split G v p hv hp0 hp1 hw hloop hd S T G.n (by omega)
    rwa [collapse_self] at this

/-- the plain `nsi_betweenness()` (all nodes are sources and targets) -/
theorem nsi_betweenness_all_split (G : Gr) (v : Nat) (p : Rat) (hv : v < G.n) (hp0 : 0 < p)
    (hp1 : p < 1) (hw : ∀ k, k < G.n → 0 < G.w k) (hloop : ∀ i, G.adj i i = false)
    (hd : ∀ a b, a < G.n → b < G.n → IsDist G a b (G.dist a b)) (a : Nat) (ha : a < G.n + 1) :
    nsiBetw (split G v p) (fun _ => true) (fun _ => true) a
      = nsiBetw G (fun _ => true) (fun _ => true) (collapse G.n v a) :=
  nsi_betweenness_split G v p hv hp0 hp1 hw hloop hd (fun _ => true) (fun _ => true) a ha

/-- the breadth-first layers from which the driver computes its own distances are exactly the
walks: entry `a` of `toSet G b k` is set iff there is a walk of length `k` from `a` to `b` -/
theorem bfs_layers_are_walks (G : Gr) (b k a : Nat) (ha : a < G.n) :
    (toSet G b k).getD a false = true ↔ Walk G a b k :=
  toSet_walk G b k a ha

/-- non-vacuity: on the path 0–1–2 with weights 1, 2, 3 the middle node has n.s.i.
betweenness `2 · w_0 w_2 / w_1 = 3`, before and after splitting it -/
def pathGd : Gr :=
  { n := 3, adj := fun i j => (i, j) ∈ [(0, 1), (1, 0), (1, 2), (2, 1)],
    w := fun k => [1, 2, 3].getD k 0, la := fun _ _ _ => 0, grp := fun _ _ => false,
    dist := fun i j => if i = j then some 0 else if i + j = 2 then some 2 else some 1 }

example : nsiBetw pathGd (fun _ => true) (fun _ => true) 1 = 3 ∧
    nsiBetw (split pathGd 1 (1/4)) (fun _ => true) (fun _ => true) 1 = 3 ∧
    nsiBetw (split pathGd 1 (1/4)) (fun _ => true) (fun _ => true) 3 = 3 ∧
    nsiBetw (split pathGd 1 (1/4)) (fun _ => true) (fun _ => true) 0 = 0 := by
  decide +kernel

/-! ### round 4 (a): the model's breadth-first distances are shortest-path lengths, so the
betweenness theorem needs no distance hypothesis -/

/-- **pigeonhole bound**: two nodes that are connected at all are connected by a walk with fewer
than `N` links (so searching the walk lengths `0 … N` finds the distance or proves there is none) -/
theorem shortest_walk_lt_n (G : Gr) {a b k : Nat} (w : Walk G a b k) :
    ∃ d, d < G.n ∧ d ≤ k ∧ Walk G a b d :=
  walk_short w

/-- **`bfsDist` is the shortest-path length** (`IsDist`), for every graph and all nodes -/
theorem bfs_distances_are_shortest_paths (G : Gr) (a b : Nat) (ha : a < G.n) :
    IsDist G a b (bfsDist G a b) :=
  bfsDist_isDist G a b ha

/-- the same for the graph `withBfs G` the driver evaluates the definition on -/
theorem withBfs_distances_are_shortest_paths (G : Gr) (a b : Nat) (ha : a < G.n) (hb : b < G.n) :
    IsDist (withBfs G) a b ((withBfs G).dist a b) :=
  withBfs_isDist G a b ha hb

/-- **breadth-first search on the split graph finds exactly the distances `split` installs**
(pulled back along the collapse map, twins at distance 1) -/
theorem bfs_of_split (G : Gr) (v : Nat) (p : Rat) (hv : v < G.n) (hloop : ∀ i, G.adj i i = false)
    (a b : Nat) (ha : a < G.n + 1) (hb : b < G.n + 1) :
    bfsDist (split G v p) a b = (split (withBfs G) v p).dist a b :=
  bfsDist_split G v p hv hloop a b ha hb

/-- **Node-splitting invariance of n.s.i. betweenness with the distances computed inside the
model** — no hypothesis on `dist` left: for every loop-free graph with positive node weights,
every node `v`, `0 < p < 1`, all source / target sets and every node `a` of the split graph, the
definition evaluated with breadth-first distances of the *split graph* equals the definition
evaluated with breadth-first distances of the original graph at `collapse a`. -/
theorem nsi_betweenness_split_bfs (G : Gr) (v : Nat) (p : Rat) (hv : v < G.n) (hp0 : 0 < p)
    (hp1 : p < 1) (hw : ∀ k, k < G.n → 0 < G.w k) (hloop : ∀ i, G.adj i i = false)
    (S T : Nat → Bool) (a : Nat) (ha : a < G.n + 1) :
    nsiBetw (withBfs (split G v p)) (fun k => S (collapse G.n v k)) (fun k => T (collapse G.n v k)) a
      = nsiBetw (withBfs G) S T (collapse G.n v a) := by
  have h1 := nsi_betweenness_split (withBfs G) v p hv hp0 hp1 hw hloop
    (fun x y hx hy => withBfs_isDist G x y hx hy) S T a ha
  have h2 : nsiBetw (withBfs (split G v p)) (fun k => S (collapse G.n v k))
        (fun k => T (collapse G.n v k)) a
      = nsiBetw (split (withBfs G) v p) (fun k => S (collapse G.n v k))
        (fun k => T (collapse G.n v k)) a := by
    apply nsiBetw_congr (G := withBfs (split G v p)) (H := split (withBfs G) v p) rfl rfl rfl
    · intro x y hx hy
      rw [withBfs_dist (split G v p) x y hx hy]
      exact bfsDist_split G v p hv hloop x y hx hy
    · exact ha
  rw [h2]
  exact h1

/-- non-vacuity: the breadth-first distances of the path 0–1–2 -/
example : bfsDist pathG 0 2 = some 2 ∧ bfsDist pathG 0 0 = some 0 ∧
    bfsDist (split pathG 1 (1/4)) 1 3 = some 1 ∧
    nsiBetw (withBfs (split pathGd 1 (1/4))) (fun _ => true) (fun _ => true) 3 = 3 := by
  decide +kernel

/-! ### round 5b: the invariance carried through to the model of the Cython kernel

Rounds 3–5 proved the invariance of the *definition* `nsiBetw`; that the model of the kernel
`_nsi_betweenness` (`NetBetw.nsiBetweenness`: breadth-first search with predecessor lists and
weighted multiplicities, backward sweep, `/ w`; shared with C03) computes this definition was an
exact per-case agreement in the driver (flag `betw` / `betwsplit`).  Round 5 of C03 proved the
kernel model equal to the pair-dependency definition for every undirected network
(`NetBetw.nsiBetweenness_eq_def_full`); `Lemmas/NsiBetwKernel.lean` proves that pair-dependency
definition equal to `nsiBetw` (`def_eq_nsiBetw`: `sigLev = w_j · wcount`, `sigThruLev = w_j ·
wcount · wcount`), `Lemmas/NsiBetwWalk.lean` that C03's distance matrix is the shortest-path
length.  Hypotheses left: symmetric adjacency (the wrapper asserts an undirected network),
positive node weights, and for the split: loop-free, `v < N`, `0 < p < 1`.  Sources are a mask
`S` (the kernel's `is_source`), targets the increasing list of the nodes of a set `T`. -/

/-- **the kernel model of `_nsi_betweenness` computes the documented definition**: for every
undirected network with positive node weights, all source / target sets and every node `i`,
entry `i` of `Network._nsi_betweenness` (kernel + wrapper) is
`Σ_{t ∈ T, s ∈ S, s ≠ i ≠ t} w_s w_t n*_ts(i) / (w_i n*_ts)` with breadth-first distances. -/
theorem nsi_betweenness_kernel_eq_def (G : Gr) (hsym : ∀ x y, G.adj x y = G.adj y x)
    (hw : ∀ k, k < G.n → 0 < G.w k) (S T : Nat → Bool) (i : Nat) (hi : i < G.n) :
    (NetBetw.nsiBetweenness G.n G.adj G.w ((List.range G.n).map S)
        ((List.range G.n).filter T)).getD i 0 = nsiBetw (withBfs G) T S i :=
  kernel_eq_nsiBetw_bfs G hsym hw S T i hi

/-- **Node-splitting invariance of `_nsi_betweenness` as the kernel computes it**: for every
undirected loop-free network with positive node weights, every node `v`, `0 < p < 1`, all source
and target sets and every node `a` of the split network, the kernel model run on the split
network (sources / targets: both twins belong to a set iff `v` does) returns at `a` what the
kernel model run on the original network returns at `collapse a`. -/
theorem nsi_betweenness_kernel_split (G : Gr) (v : Nat) (p : Rat) (hv : v < G.n) (hp0 : 0 < p)
    (hp1 : p < 1) (hw : ∀ k, k < G.n → 0 < G.w k) (hloop : ∀ i, G.adj i i = false)
    (hsym : ∀ x y, G.adj x y = G.adj y x) (S T : Nat → Bool) (a : Nat) (ha : a < G.n + 1) :
    (NetBetw.nsiBetweenness (G.n + 1) (split G v p).adj (split G v p).w
        ((List.range (G.n + 1)).map fun k => S (collapse G.n v k))
        ((List.range (G.n + 1)).filter fun k => T (collapse G.n v k))).getD a 0
      = (NetBetw.nsiBetweenness G.n G.adj G.w ((List.range G.n).map S)
          ((List.range G.n).filter T)).getD (collapse G.n v a) 0 := by
  have h1 := nsi_betweenness_kernel_eq_def (split G v p) (split_adj_symm G v p hsym)
    (split_weights_pos G v p hv hp0 hp1 hw) (fun k => S (collapse G.n v k))
    (fun k => T (collapse G.n v k)) a ha
  have h2 := nsi_betweenness_kernel_eq_def G hsym hw S T (collapse G.n v a)
    (collapse_lt_n G.n v a hv ha)
  rw [show (split G v p).n = G.n + 1 from rfl] at h1
  rw [h1, h2]
  exact nsi_betweenness_split_bfs G v p hv hp0 hp1 hw hloop T S a ha

/-- per-node form for the kernel model: untouched nodes keep their value, both twins carry `v`'s -/
theorem nsi_betweenness_kernel_split_nodes (G : Gr) (v : Nat) (p : Rat) (hv : v < G.n)
    (hp0 : 0 < p) (hp1 : p < 1) (hw : ∀ k, k < G.n → 0 < G.w k) (hloop : ∀ i, G.adj i i = false)
    (hsym : ∀ x y, G.adj x y = G.adj y x) (S T : Nat → Bool) :
    (∀ i, i < G.n →
      (NetBetw.nsiBetweenness (G.n + 1) (split G v p).adj (split G v p).w
          ((List.range (G.n + 1)).map fun k => S (collapse G.n v k))
          ((List.range (G.n + 1)).filter fun k => T (collapse G.n v k))).getD i 0
        = (NetBetw.nsiBetweenness G.n G.adj G.w ((List.range G.n).map S)
            ((List.range G.n).filter T)).getD i 0) ∧
    (NetBetw.nsiBetweenness (G.n + 1) (split G v p).adj (split G v p).w
        ((List.range (G.n + 1)).map fun k => S (collapse G.n v k))
        ((List.range (G.n + 1)).filter fun k => T (collapse G.n v k))).getD G.n 0
      = (NetBetw.nsiBetweenness G.n G.adj G.w ((List.range G.n).map S)
          ((List.range G.n).filter T)).getD v 0 := by
  constructor
  · intro i hi
    have := nsi_betweenness_kernel_split G v p hv hp0 hp1 hw hloop hsym S T i (by omega)
    rwa [show collapse G.n v i = i by unfold collapse; rw [if_neg (by omega)]] at this
  · have := nsi_betweenness_kernel_split G v p hv hp0 hp1 hw hloop hsym S T G.n (by omega)
    rwa [show collapse G.n v G.n = v by unfold collapse; rw [if_pos rfl]] at this

/-- **`Network.nsi_betweenness()` with default arguments** (model `NetBetw.apiBetweenness … none
none true`: all nodes are sources and targets, `parallelize=False`) **is node-splitting
invariant as computed**: untouched nodes keep their value, both twins carry `v`'s. -/
theorem nsi_betweenness_api_all_split (G : Gr) (v : Nat) (p : Rat) (hv : v < G.n) (hp0 : 0 < p)
    (hp1 : p < 1) (hw : ∀ k, k < G.n → 0 < G.w k) (hloop : ∀ i, G.adj i i = false)
    (hsym : ∀ x y, G.adj x y = G.adj y x) (a : Nat) (ha : a < G.n + 1) :
    (NetBetw.apiBetweenness (G.n + 1) (split G v p).adj (split G v p).w none none true).getD a 0
      = (NetBetw.apiBetweenness G.n G.adj G.w none none true).getD (collapse G.n v a) 0 := by
  have key : ∀ (n : Nat) (ad : Nat → Nat → Bool) (w : Nat → Rat),
      NetBetw.apiBetweenness n ad w none none true
        = NetBetw.nsiBetweenness n ad w ((List.range n).map fun _ => true)
            ((List.range n).filter fun _ => true) := by
    intro n ad w
    simp [NetBetw.apiBetweenness, NetBetw.srcMaskOf]
  rw [key, key]
  exact nsi_betweenness_kernel_split G v p hv hp0 hp1 hw hloop hsym (fun _ => true)
    (fun _ => true) a ha

/-- non-vacuity: on the path 0–1–2 with weights 1, 2, 3 the KERNEL MODEL returns `BC*(1) = 3`,
`BC*(0) = 0`, and after splitting node 1 at 1/4 both twins (1 and 3) carry 3 -/
example :
    (NetBetw.nsiBetweenness 3 pathGd.adj pathGd.w ((List.range 3).map fun _ => true)
        ((List.range 3).filter fun _ => true)) = [0, 3, 0] ∧
    (NetBetw.nsiBetweenness 4 (split pathGd 1 (1/4)).adj (split pathGd 1 (1/4)).w
        ((List.range 4).map fun _ => true) ((List.range 4).filter fun _ => true)) = [0, 3, 0, 3] := by
  decide +kernel

/-! ### round 5d: arbitrary duplicate-free target lists

`nsi_betweenness_kernel_eq_def` fixes the targets to the increasing list of a node set.  The kernel
loops over the list it is given; C04 proved that the kernel model does not depend on the order of
that list (`Relabel.nsiBetweenness_targets_perm`, through C03's definition theorem).  With it the
C02 statements hold for every duplicate-free target list in any order.  (A list with a repeated
target counts that target twice — in the kernel and in the pair-dependency definition alike; the
set-indexed `nsiBetw` cannot express it, and the public wrappers pass index lists of node sets.) -/

/-- the kernel model with **any duplicate-free target list `L`, in any order**, computes the
documented definition with target set `L` -/
theorem nsi_betweenness_kernel_eq_def_targets (G : Gr) (hsym : ∀ x y, G.adj x y = G.adj y x)
    (hw : ∀ k, k < G.n → 0 < G.w k) (S : Nat → Bool) (L : List Nat) (hnd : L.Nodup)
    (hL : ∀ k ∈ L, k < G.n) (i : Nat) (hi : i < G.n) :
    (NetBetw.nsiBetweenness G.n G.adj G.w ((List.range G.n).map S) L).getD i 0
      = nsiBetw (withBfs G) (fun k => decide (k ∈ L)) S i :=
  kernel_eq_nsiBetw_list G hsym hw S L hnd hL i hi

/-- **node-splitting invariance of the kernel model for arbitrary duplicate-free target lists**:
`L` on the network, `L'` on the split network, each in any order, `L'` containing a node iff `L`
contains its collapse (so both twins or none) -/
theorem nsi_betweenness_kernel_split_targets (G : Gr) (v : Nat) (p : Rat) (hv : v < G.n)
    (hp0 : 0 < p) (hp1 : p < 1) (hw : ∀ k, k < G.n → 0 < G.w k) (hloop : ∀ i, G.adj i i = false)
    (hsym : ∀ x y, G.adj x y = G.adj y x) (S : Nat → Bool) (L L' : List Nat) (hnd : L.Nodup)
    (hL : ∀ k ∈ L, k < G.n) (hnd' : L'.Nodup) (hL' : ∀ k ∈ L', k < G.n + 1)
    (hmem : ∀ k, k < G.n + 1 → (k ∈ L' ↔ collapse G.n v k ∈ L)) (a : Nat) (ha : a < G.n + 1) :
    (NetBetw.nsiBetweenness (G.n + 1) (split G v p).adj (split G v p).w
        ((List.range (G.n + 1)).map fun k => S (collapse G.n v k)) L').getD a 0
      = (NetBetw.nsiBetweenness G.n G.adj G.w ((List.range G.n).map S) L).getD
          (collapse G.n v a) 0 := by
  rw [Relabel.nsiBetweenness_targets_perm (n := G.n + 1) (split G v p).adj
      (split_adj_symm G v p hsym) (split G v p).w (split_weights_pos G v p hv hp0 hp1 hw) _
      (split_targets_perm G.n v L L' hnd' hL' hmem) hL',
    Relabel.nsiBetweenness_targets_perm (n := G.n) G.adj hsym G.w hw _
      (nodup_perm_filter G.n L hnd hL) hL]
  exact nsi_betweenness_kernel_split G v p hv hp0 hp1 hw hloop hsym S
    (fun k => decide (k ∈ L)) a ha

/-- non-vacuity: the weighted path 0–1–2 with the targets listed as `[2, 0, 1]`, its split at node 1
with the targets listed as `[3, 1, 0, 2]`: same values as with the increasing lists -/
example :
    (NetBetw.nsiBetweenness 3 pathGd.adj pathGd.w ((List.range 3).map fun _ => true) [2, 0, 1])
      = [0, 3, 0] ∧
    (NetBetw.nsiBetweenness 4 (split pathGd 1 (1/4)).adj (split pathGd 1 (1/4)).w
        ((List.range 4).map fun _ => true) [3, 1, 0, 2]) = [0, 3, 0, 3] ∧
    (∀ k, k < 4 → (k ∈ [3, 1, 0, 2] ↔ collapse 3 1 k ∈ [2, 0, 1])) := by
  decide +kernel

/-! ### round 4 (b): Newman-type random-walk betweenness, with the matrix inverse as an assumed
operation

`Model/NsiRw.lean` writes `nsi_newman_betweenness` as the code computes it (`sp_M`, `V`, the
Cython kernel with its `t < s` loop, `add_local_ends`) with the matrix `T` that stands for
`sp_M_inv` as a parameter.  The theorem holds for **every** `T` on the original graph with
`x T M = x` for the rows `x = Q[s,·] − Q[t,·]` (`SolvesL`) and every `T'` on the split graph
with `M' T' y = y` for the columns `y = e_a − e_b` (`SolvesR`) — which is what an inverse is
used for; no particular grounded node is assumed (the split makes the new twin the grounded
"last" node).  The driver reports for every case that the code's grounded inverse satisfies
both conditions exactly. -/

/-- **the algebraic core**: the pull-back of a potential is a potential of the pulled-back row,
`(ξ ∘ c)ᵀ M' = (ξᵀ M) ∘ c` for `M = sp_M` -/
theorem newman_matrix_intertwines (G : Gr) (v : Nat) (p : Rat) (hv : v < G.n) (hp0 : 0 < p)
    (hp1 : p < 1) (hw : ∀ k, k < G.n → 0 < G.w k) (xi : Nat → Rat) (m : Nat) (hm : m < G.n + 1) :
    sumR (G.n + 1) (fun a => xi (collapse G.n v a) * newmanM (split G v p) a m)
      = sumR G.n (fun r => xi r * newmanM G r (collapse G.n v m)) :=
  pull_M G v p hv hp0 hp1 hw xi m hm

/-- the quantity `V_is − V_js − V_it + V_jt` inside the kernel's absolute value pulls back -/
theorem newman_potential_split (G : Gr) (v : Nat) (p : Rat) (hv : v < G.n) (hp0 : 0 < p)
    (hp1 : p < 1) (hw : ∀ k, k < G.n → 0 < G.w k) (T T' : Nat → Nat → Rat)
    (hT : SolvesL G.n (nsiQ G) (newmanM G) T)
    (hT' : SolvesR (G.n + 1) (newmanM (split G v p)) T')
    (a b s t : Nat) (ha : a < G.n + 1) (hb : b < G.n + 1) (hs : s < G.n + 1) (ht : t < G.n + 1) :
    Dq (newmanV (split G v p) T') a b s t
      = Dq (newmanV G T) (collapse G.n v a) (collapse G.n v b) (collapse G.n v s)
          (collapse G.n v t) :=
  Dq_split G v p hv hp0 hp1 hw T T' hT hT' a b s t ha hb hs ht

/-- the loop of the Cython kernel (`j` neighbour of `i`, `t < s`) is half the symmetric weighted
sum over `j ∈ N⁺(i)`, `s, t ∉ N⁺(i)`, for every `V` -/
theorem newman_kernel_loop_is_symmetric_sum (G : Gr) (hloop : ∀ i, G.adj i i = false)
    (V : Nat → Nat → Rat) (i : Nat) : 2 * newmanKernel G V i = newmanFull G V i :=
  newmanKernel_full G hloop V i

/-- **Node-splitting invariance of `nsi_newman_betweenness`** (both values of
`add_local_ends`): every node `a` of the split graph — untouched or either twin — has the value of
`collapse a`. -/
theorem nsi_newman_betweenness_split (G : Gr) (v : Nat) (p : Rat) (hv : v < G.n) (hp0 : 0 < p)
    (hp1 : p < 1) (hw : ∀ k, k < G.n → 0 < G.w k) (hloop : ∀ i, G.adj i i = false)
    (T T' : Nat → Nat → Rat) (hT : SolvesL G.n (nsiQ G) (newmanM G) T)
    (hT' : SolvesR (G.n + 1) (newmanM (split G v p)) T') (ends : Bool)
    (a : Nat) (ha : a < G.n + 1) :
    nsiNewman (split G v p) T' ends a = nsiNewman G T ends (collapse G.n v a) :=
  nsiNewman_split_lemma G v p hv hp0 hp1 hw hloop T T' hT hT' ends a ha

/-- **… with the matrix inverse as an assumed operation.**  `IsGroundedInv n M T`: `T` has a
zero last row and column and its leading `(n−1) × (n−1)` block is a two-sided inverse of the
leading block of `M` (`M_red · M_red⁻¹ = 1 = M_red⁻¹ · M_red`) — what `sp_M_inv[:-1,:-1] =
inv(sp_M[:-1,:-1])` stores, *if* `inv` inverts.  For an undirected loop-free network with positive
weights this alone gives the invariance, although the grounded node of the split copy is the new
twin: `M T = 1 − e_g 1ᵀ` (columns of `sp_M` sum to zero) and `T M = 1 − (w/w_g) e_gᵀ`
(`sp_M w = 0`), so `SolvesR` holds and `SolvesL` holds for every row orthogonal to `w`, as the
rows `Q[s,·] − Q[t,·]` are. -/
theorem nsi_newman_betweenness_split_grounded (G : Gr) (v : Nat) (p : Rat) (hv : v < G.n)
    (hp0 : 0 < p) (hp1 : p < 1) (hw : ∀ k, k < G.n → 0 < G.w k) (hloop : ∀ i, G.adj i i = false)
    (hsym : ∀ i j, G.adj i j = G.adj j i) (T T' : Nat → Nat → Rat)
    (hT : IsGroundedInv G.n (newmanM G) T)
    (hT' : IsGroundedInv (G.n + 1) (newmanM (split G v p)) T') (ends : Bool)
    (a : Nat) (ha : a < G.n + 1) :
    nsiNewman (split G v p) T' ends a = nsiNewman G T ends (collapse G.n v a) :=
  nsiNewman_split_grounded G v p hv hp0 hp1 hw hloop hsym T T' hT hT' ends a ha

/-- the two facts about a grounded inverse the previous theorem rests on -/
theorem grounded_inverse_solves (G : Gr) (hn : 0 < G.n) (hw : ∀ k, k < G.n → 0 < G.w k)
    (hsym : ∀ i j, G.adj i j = G.adj j i) (T : Nat → Nat → Rat)
    (h : IsGroundedInv G.n (newmanM G) T) :
    SolvesL G.n (nsiQ G) (newmanM G) T ∧ SolvesR G.n (newmanM G) T :=
  ⟨grounded_solvesL_newman G hn hw T h,
   grounded_solvesR G.n hn _ T h (fun j hj =>
     newmanM_colsum G (fun k hk => ne_of_gt (hw k hk)) (aplus_symm G hsym) j hj)⟩

/-- the executable checks the driver reports decide the two hypotheses -/
theorem newman_hypotheses_decidable (n : Nat) (Q M T : Nat → Nat → Rat) :
    (solvesL n Q M T = true → SolvesL n Q M T) ∧ (solvesR n M T = true → SolvesR n M T) :=
  ⟨solvesL_sound n Q M T, solvesR_sound n M T⟩

/-- non-vacuity: on the path 0–1–2–3 (used for the Arenas-type measure below) and on the path
0–1–2–3–4 with weights 1, 2, 3, 1, 2 the code's grounded inverse exists and satisfies both
hypotheses, on the graph and on its split copy (where the grounded node is the new twin); the
middle node has the value 4/3, which both twins keep after splitting it -/
def path4 : Gr :=
  { n := 4, adj := fun i j => (i, j) ∈ [(0, 1), (1, 0), (1, 2), (2, 1), (2, 3), (3, 2)],
    w := fun k => [1, 2, 3, 1].getD k 0, la := fun _ _ _ => 0, grp := fun _ _ => false,
    dist := fun _ _ => none }

def path5 : Gr :=
  { n := 5, adj := fun i j => (i, j) ∈ [(0, 1), (1, 0), (1, 2), (2, 1), (2, 3), (3, 2), (3, 4), (4, 3)],
    w := fun k => [1, 2, 3, 1, 2].getD k 0, la := fun _ _ _ => 0, grp := fun _ _ => false,
    dist := fun _ _ => none }

example :
    let T := (newmanT path5).getD (fun _ _ => 0)
    let T' := (newmanT (split path5 2 (1/4))).getD (fun _ _ => 0)
    solvesL 5 (nsiQ path5) (newmanM path5) T = true ∧
    solvesR 6 (newmanM (split path5 2 (1/4))) T' = true ∧
    nsiNewman path5 T false 2 = 4/3 ∧
    nsiNewman (split path5 2 (1/4)) T' false 2 = 4/3 ∧
    nsiNewman (split path5 2 (1/4)) T' false 5 = 4/3 ∧
    nsiNewman (split path5 2 (1/4)) T' true 5 = nsiNewman path5 T true 2 := by
  decide +kernel

/-- non-vacuity: the reduced inverses of the path 0–1–2–3–4 (weights 1, 2, 3, 1, 2) and of its
split copy, written out, are grounded inverses in the sense of the theorem -/
example :
    IsGroundedInv 5 (newmanM path5) (padInv 5 fun i j =>
      ([[3/2, 1, 5/6, 1/2], [2, 2, 5/3, 1], [5/2, 5/2, 5/2, 3/2], [1/2, 1/2, 1/2, 1/2]].getD i []).getD j 0) ∧
    IsGroundedInv 6 (newmanM (split path5 2 (1/4))) (padInv 6 fun i j =>
      ([[5/6, 1/3, 2/9, 1/6, 1/6], [2/3, 2/3, 4/9, 1/3, 1/3], [1/2, 1/2, 2/3, 1/2, 1/2],
        [1/6, 1/6, 2/9, 1/2, 1/2], [1/3, 1/3, 4/9, 1, 2]].getD i []).getD j 0) :=
  ⟨isGroundedInv_of_check _ _ _ (by decide +kernel), isGroundedInv_of_check _ _ _ (by decide +kernel)⟩

/-! ### round 4 (c): Arenas-type random-walk betweenness

For target `i` the code solves `(1 − P_i) V = P_i`, `P_i = D_k⁻¹ A⁺ D_w` with the rows of `N⁺(i)`
multiplied by `1 − σ(i, r)` (`σ = 1`: stopping_mode "neighbors"; `σ = nsi_twinness`:
"twinness").  The solve is an assumed operation: `V i` is *any* solution, and the split systems
are regular (have at most one). -/

/-- the solution of the split system is the pulled-back solution, re-weighted in the column -/
theorem arenas_solution_of_split (G : Gr) (v : Nat) (p : Rat) (hv : v < G.n)
    (hw : ∀ k, k < G.n → 0 < G.w k) (sigma sigma' : Nat → Nat → Rat)
    (hsig : ∀ a b, sigma' a b = sigma (collapse G.n v a) (collapse G.n v b))
    (i : Nat) (V : Nat → Nat → Rat) (hV : ArenasSolves G sigma (collapse G.n v i) V) :
    ArenasSolves (split G v p) sigma' i
      (fun s j => V (collapse G.n v s) (collapse G.n v j)
        * ((split G v p).w j / G.w (collapse G.n v j))) :=
  arenas_pull_solves G v p hv hw sigma sigma' hsig i V hV

/-- **Node-splitting invariance of `nsi_arenas_betweenness`**, both values of
`exclude_neighbors`, every stopping rule that pulls back along the collapse map -/
theorem nsi_arenas_betweenness_split (G : Gr) (v : Nat) (p : Rat) (hv : v < G.n) (hp0 : 0 < p)
    (hp1 : p < 1) (hw : ∀ k, k < G.n → 0 < G.w k) (sigma sigma' : Nat → Nat → Rat)
    (hsig : ∀ a b, sigma' a b = sigma (collapse G.n v a) (collapse G.n v b))
    (V V' : Nat → Nat → Nat → Rat)
    (hV : ∀ i, i < G.n → ArenasSolves G sigma i (V i))
    (hV' : ∀ i, i < G.n + 1 → ArenasSolves (split G v p) sigma' i (V' i))
    (hreg : ∀ i, i < G.n + 1 → ArenasRegular (split G v p) sigma' i)
    (excl : Bool) (j : Nat) (hj : j < G.n + 1) :
    arenasB (split G v p) V' excl j = arenasB G V excl (collapse G.n v j) :=
  arenasB_split_lemma G v p hv hp0 hp1 hw sigma sigma' hsig V V' hV hV' hreg excl j hj

/-- `stopping_mode="neighbors"` (`σ = 1`) -/
theorem nsi_arenas_betweenness_neighbors_split (G : Gr) (v : Nat) (p : Rat) (hv : v < G.n)
    (hp0 : 0 < p) (hp1 : p < 1) (hw : ∀ k, k < G.n → 0 < G.w k) (V V' : Nat → Nat → Nat → Rat)
    (hV : ∀ i, i < G.n → ArenasSolves G (fun _ _ => 1) i (V i))
    (hV' : ∀ i, i < G.n + 1 → ArenasSolves (split G v p) (fun _ _ => 1) i (V' i))
    (hreg : ∀ i, i < G.n + 1 → ArenasRegular (split G v p) (fun _ _ => 1) i)
    (excl : Bool) (j : Nat) (hj : j < G.n + 1) :
    arenasB (split G v p) V' excl j = arenasB G V excl (collapse G.n v j) :=
  nsi_arenas_betweenness_split G v p hv hp0 hp1 hw _ _ (fun _ _ => rfl) V V' hV hV' hreg excl j hj

/-- `stopping_mode="twinness"`: `σ = nsi_twinness`, which pulls back by `eval_split` -/
theorem nsi_arenas_betweenness_twinness_split (G : Gr) (v : Nat) (p : Rat) (hv : v < G.n)
    (hp0 : 0 < p) (hp1 : p < 1) (hw : ∀ k, k < G.n → 0 < G.w k) (V V' : Nat → Nat → Nat → Rat)
    (hV : ∀ i, i < G.n → ArenasSolves G (fun a b => eval G [a, b] M.nsiTwinness) i (V i))
    (hV' : ∀ i, i < G.n + 1 →
      ArenasSolves (split G v p) (fun a b => eval (split G v p) [a, b] M.nsiTwinness) i (V' i))
    (hreg : ∀ i, i < G.n + 1 →
      ArenasRegular (split G v p) (fun a b => eval (split G v p) [a, b] M.nsiTwinness) i)
    (excl : Bool) (j : Nat) (hj : j < G.n + 1) :
    arenasB (split G v p) V' excl j = arenasB G V excl (collapse G.n v j) :=
  nsi_arenas_betweenness_split G v p hv hp0 hp1 hw _ _
    (fun a b => by simpa using eval_split G v p hv M.nsiTwinness [a, b]) V V' hV hV' hreg excl j hj

/-- non-vacuity: the exact solves exist on the path 0–1–2–3 and on its split copy, and the twin
carries the value of the split node -/
example :
    let V := fun i => (arenasV path4 (fun _ _ => 1) i).getD (fun _ _ => 0)
    let V' := fun i => (arenasV (split path4 1 (1/4)) (fun _ _ => 1) i).getD (fun _ _ => 0)
    arenasSolves path4 (fun _ _ => 1) 2 (V 2) = true ∧
    arenasB path4 V true 1 ≠ 0 ∧
    arenasB (split path4 1 (1/4)) V' true 4 = arenasB path4 V true 1 := by
  decide +kernel

/-! ### round 4 (d): nsi_laplacian, nsi_spreading, the n.s.i. degree histograms -/

/-- `nsi_laplacian`: entries `[i, j]` with `j` not the split node are unchanged … -/
theorem nsi_laplacian_split_untouched (G : Gr) (v : Nat) (p : Rat) (hv : v < G.n) (i j : Nat)
    (hi : i < G.n) (hj : j < G.n) (hjv : j ≠ v) :
    nsiLap (split G v p) i j = nsiLap G i j :=
  nsiLap_split_untouched G v p hv i j hi hj hjv

/-- … and as an operator it commutes with the pull-back: `L' (f ∘ c) = (L f) ∘ c` (every row,
twins included) -/
theorem nsi_laplacian_commutes_with_pullback (G : Gr) (v : Nat) (p : Rat) (hv : v < G.n)
    (f : Nat → Rat) (a : Nat) (ha : a < G.n + 1) :
    sumR (G.n + 1) (fun j => nsiLap (split G v p) a j * f (collapse G.n v j))
      = sumR G.n (fun j => nsiLap G (collapse G.n v a) j * f j) :=
  nsiLap_pull G v p hv f a ha

/-- `nsi_spreading`: every term `m_k(i) = Σ_r w_r ((A⁺ D_w)^k A⁺)[r, i]` of the exponential
series, the default `alpha`, and hence every Taylor polynomial with any coefficients, is
invariant (all nodes, twins included).  `nsi_spreading = ½ Σ_k (α ln 2)^k / k! · m_k` is their
limit; the limit itself is outside ℚ and is tied numerically (harness). -/
theorem nsi_spreading_terms_split (G : Gr) (v : Nat) (p : Rat) (hv : v < G.n) (k i : Nat) :
    spreadMoment (split G v p) k i = spreadMoment G k (collapse G.n v i) :=
  spreadMoment_split G v p hv k i

theorem nsi_spreading_alpha_split (G : Gr) (v : Nat) (p : Rat) (hv : v < G.n) :
    spreadAlpha (split G v p) = spreadAlpha G :=
  spreadAlpha_split G v p hv

theorem nsi_spreading_taylor_split (G : Gr) (v : Nat) (p : Rat) (hv : v < G.n) (q : List Rat)
    (i : Nat) :
    spreadPoly (split G v p) (spreadAlpha (split G v p)) q i
      = spreadPoly G (spreadAlpha G) q (collapse G.n v i) := by
  rw [spreadAlpha_split G v p hv]
  exact spreadPoly_split G v p hv _ q i

/-- `nsi_degree_histogram` / `nsi_degree_cumulative_histogram`: the number of bins
`int(max k* / min k*) + 1` and the lower bin bounds are invariant (the frequencies count nodes and
are not n.s.i. quantities) -/
theorem nsi_degree_histogram_bins_split (G : Gr) (v : Nat) (p : Rat) (hv : v < G.n) :
    histNBins (split G v p) = histNBins G ∧ histLowerBounds (split G v p) = histLowerBounds G :=
  ⟨histNBins_split G v p hv, histLowerBounds_split G v p hv⟩

example : spreadMoment pathGd 2 0 = spreadMoment (split pathGd 1 (1/4)) 2 0 ∧ spreadMoment pathGd 2 0 = 75 ∧
    histNBins pathGd = 3 ∧ histLowerBounds (split pathGd 1 (1/4)) = [3, 4, 5] := by
  decide +kernel



/-! ### round 5: the absorbing-walk systems of `nsi_arenas_betweenness` are regular

`ArenasRegular` — a hypothesis of the three theorems above — is a theorem on connected networks
(maximum principle along walks, `Lemmas/NsiArenasReg.lean`). -/

/-- `1 − sp_Pi` has a trivial kernel: connected network, positive node weights, any stopping rule
with `σ(i, i) = 1` and `0 ≤ σ(i, ·) ≤ 1` on `N⁺(i)` -/
theorem arenas_systems_regular (G : Gr) (hw : ∀ k, k < G.n → 0 < G.w k) (hconn : Connected G)
    (sigma : Nat → Nat → Rat) (i : Nat) (hi : i < G.n) (hσi : sigma i i = 1)
    (hσ : ∀ r, r < G.n → aplus G i r = 1 → 0 ≤ sigma i r ∧ sigma i r ≤ 1) :
    ArenasRegular G sigma i :=
  arenas_regular G hw hconn sigma i hi hσi hσ

/-- `nsi_twinness` takes values in `[0, 1]` and is 1 on the diagonal of an undirected network -/
theorem nsi_twinness_range (G : Gr) (hw : ∀ k, k < G.n → 0 < G.w k)
    (hsym : ∀ i j, G.adj i j = G.adj j i) (a b : Nat) (ha : a < G.n) :
    0 ≤ eval G [a, b] M.nsiTwinness ∧ eval G [a, b] M.nsiTwinness ≤ 1 ∧
      eval G [a, a] M.nsiTwinness = 1 :=
  ⟨(twinness_bounds G hw a b ha).1, (twinness_bounds G hw a b ha).2,
    twinness_diag G hw (aplus_symm G hsym) a ha⟩

/-- **`nsi_arenas_betweenness(stopping_mode="neighbors")` is node-splitting invariant on every
connected loop-free network** — no regularity hypothesis: any solutions `V i` / `V' i` of the
systems of the network and of its split copy -/
theorem nsi_arenas_betweenness_neighbors_split_connected (G : Gr) (v : Nat) (p : Rat)
    (hv : v < G.n) (hp0 : 0 < p) (hp1 : p < 1) (hloop : ∀ i, G.adj i i = false)
    (hw : ∀ k, k < G.n → 0 < G.w k) (hconn : Connected G) (V V' : Nat → Nat → Nat → Rat)
    (hV : ∀ i, i < G.n → ArenasSolves G (fun _ _ => 1) i (V i))
    (hV' : ∀ i, i < G.n + 1 → ArenasSolves (split G v p) (fun _ _ => 1) i (V' i))
    (excl : Bool) (j : Nat) (hj : j < G.n + 1) :
    arenasB (split G v p) V' excl j = arenasB G V excl (collapse G.n v j) :=
  nsi_arenas_betweenness_neighbors_split G v p hv hp0 hp1 hw V V' hV hV'
    (fun i hi => arenas_regular (split G v p) (split_weights_pos G v p hv hp0 hp1 hw)
      (split_connected G v p hv hloop hconn) _ i hi rfl
      (fun _ _ _ => ⟨by norm_num, by norm_num⟩)) excl j hj

/-- **`nsi_arenas_betweenness(stopping_mode="twinness")` is node-splitting invariant on every
connected undirected loop-free network** — no regularity hypothesis -/
theorem nsi_arenas_betweenness_twinness_split_connected (G : Gr) (v : Nat) (p : Rat)
    (hv : v < G.n) (hp0 : 0 < p) (hp1 : p < 1) (hloop : ∀ i, G.adj i i = false)
    (hsym : ∀ i j, G.adj i j = G.adj j i)
    (hw : ∀ k, k < G.n → 0 < G.w k) (hconn : Connected G) (V V' : Nat → Nat → Nat → Rat)
    (hV : ∀ i, i < G.n → ArenasSolves G (fun a b => eval G [a, b] M.nsiTwinness) i (V i))
    (hV' : ∀ i, i < G.n + 1 →
      ArenasSolves (split G v p) (fun a b => eval (split G v p) [a, b] M.nsiTwinness) i (V' i))
    (excl : Bool) (j : Nat) (hj : j < G.n + 1) :
    arenasB (split G v p) V' excl j = arenasB G V excl (collapse G.n v j) := by
  have hw' := split_weights_pos G v p hv hp0 hp1 hw
  have hsym' : ∀ a b, aplus (split G v p) a b = aplus (split G v p) b a := fun a b => by
    rw [aplus_split G v p hv, aplus_split G v p hv, aplus_symm G hsym]
  exact nsi_arenas_betweenness_twinness_split G v p hv hp0 hp1 hw V V' hV hV'
    (fun i hi => arenas_regular (split G v p) hw' (split_connected G v p hv hloop hconn) _ i hi
      (twinness_diag (split G v p) hw' hsym' i hi)
      (fun r _ _ => twinness_bounds (split G v p) hw' i r hi)) excl j hj


/-! ### round 5: the per-component wrapper of the random-walk betweennesses

`nsi_newman_betweenness` / `nsi_arenas_betweenness` loop over `graph.connected_components()`, build
`subnet = Network(components.subgraph(c), node_weights[nodes])` and copy the values back
(`Model/NsiComp.lean`).  Under a split the component of the split node gains the twin as its last
node and its sub-network **is** the split of the old sub-network; every other component is handed
over unchanged.  So the theorems for connected networks above apply to what the wrapper computes. -/

/-- the components of the split graph are the preimages of the components of the graph -/
theorem components_of_split (G : Gr) (v : Nat) (p : Rat) (hv : v < G.n)
    (hloop : ∀ i, G.adj i i = false) (a : Nat) (ha : a < G.n + 1) :
    compNodes (split G v p) a
      = compNodes G (collapse G.n v a)
        ++ (if (bfsDist G (collapse G.n v a) v).isSome then [G.n] else []) :=
  compNodes_split G v p hv hloop a ha

/-- **the sub-network the wrapper builds for the component of the split node is the split of the
sub-network it builds on the original network** (node count, every node weight, every link; the
split node sits at its position `idxOf v` in the component, the twin is the last node) -/
theorem subnetwork_of_split (G : Gr) (v : Nat) (p : Rat) (hv : v < G.n)
    (hloop : ∀ i, G.adj i i = false) (a : Nat) (ha : a < G.n + 1)
    (hr : (bfsDist G (collapse G.n v a) v).isSome = true) :
    let nodes := compNodes G (collapse G.n v a)
    let H' := subGr (split G v p) (compNodes (split G v p) a)
    let H := split (subGr G nodes) (nodes.idxOf v) p
    H'.n = H.n ∧ (∀ i, i < H.n → H'.w i = H.w i) ∧ (∀ i j, i < H.n → j < H.n → H'.adj i j = H.adj i j) := by
  intro nodes H' H
  have hc : compNodes (split G v p) a = nodes ++ [G.n] := by
    rw [compNodes_split G v p hv hloop a ha, hr]; rfl
  have hlt : ∀ x ∈ nodes, x < G.n := fun x hx => List.mem_range.mp (List.mem_filter.mp hx).1
  have hnd : nodes.Nodup := List.Nodup.filter _ List.nodup_range
  have hvm : v ∈ nodes := List.mem_filter.mpr ⟨List.mem_range.mpr hv, hr⟩
  have hn : H.n = nodes.length + 1 := rfl
  refine ⟨?_, ?_, ?_⟩
  · show (subGr (split G v p) (compNodes (split G v p) a)).n = _
    rw [hc]; exact subGr_split_n G v p nodes
  · intro i hi
    show (subGr (split G v p) (compNodes (split G v p) a)).w i = _
    rw [hc]; exact subGr_split_w G v p nodes hlt hnd hvm i (hn ▸ hi)
  · intro i j hi hj
    show (subGr (split G v p) (compNodes (split G v p) a)).adj i j = _
    rw [hc]; exact subGr_split_adj G v p nodes hlt hnd hvm i j (hn ▸ hi) (hn ▸ hj)

/-- a component that does not contain the split node: same node list, same sub-network -/
theorem subnetwork_of_other_component (G : Gr) (v : Nat) (p : Rat) (hv : v < G.n)
    (hloop : ∀ i, G.adj i i = false) (a : Nat) (ha : a < G.n + 1)
    (hr : (bfsDist G (collapse G.n v a) v).isSome = false) :
    let nodes := compNodes G (collapse G.n v a)
    compNodes (split G v p) a = nodes ∧
    (subGr (split G v p) nodes).n = (subGr G nodes).n ∧
    ∀ i j, i < nodes.length → j < nodes.length →
      (subGr (split G v p) nodes).w i = (subGr G nodes).w i ∧
      (subGr (split G v p) nodes).adj i j = (subGr G nodes).adj i j := by
  intro nodes
  have hlt : ∀ x ∈ nodes, x < G.n := fun x hx => List.mem_range.mp (List.mem_filter.mp hx).1
  have hvm : v ∉ nodes := fun h => by
    have := (List.mem_filter.mp h).2
    rw [hr] at this; exact absurd this (by simp)
  refine ⟨?_, rfl, fun i j hi hj => ?_⟩
  · rw [compNodes_split G v p hv hloop a ha, hr]; simp [nodes]
  · exact (subGr_split_other G v p nodes hlt hvm i j hi hj).2

/-- non-vacuity: links 0–1, 2–3 | node 4 alone; splitting node 2 appends the twin (5) to its
component; the other components are untouched -/
def compG : Gr :=
  { n := 5, adj := fun i j => (i, j) ∈ [(0, 1), (1, 0), (2, 3), (3, 2)],
    w := fun k => [1, 2, 3, 1, 2].getD k 0, la := fun _ _ _ => 0, grp := fun _ _ => false,
    dist := fun _ _ => none }

example : compList compG = [[0, 1], [2, 3], [4]] ∧
    compList (split compG 2 (1/4)) = [[0, 1], [2, 3, 5], [4]] ∧
    compList (split compG 4 (1/4)) = [[0, 1], [2, 3], [4, 5]] := by
  decide +kernel


/-- **Node-splitting invariance of `nsi_newman_betweenness` as the wrapper computes it, on every
loop-free network with positive node weights — connected or not** (both values of
`add_local_ends`).  `newmanAt G Tof ends a` is what the component loop stores at node `a`: the
isolated-node value (`0`, or `w_a²` with `add_local_ends`), or the measure of the sub-network of
`a`'s component at `a`'s position in it, `Tof H` standing for `sp_M_inv` of the sub-network `H`
(a function of the network inside its node range — `hTcongr` — that does what the inverse is used
for on the two components concerned).  Covers the three cases of the loop: a component without the
split node (handed over unchanged), the component of the split node (its sub-network is the split
of the old sub-network: `nsi_newman_betweenness_split`), and an **isolated node that becomes a
pair of twins** (the code path changes from the shortcut to the full computation on a 2-node
network: no walk is counted and the local-ends term is `(2W − k*) k* = w_v²`). -/
theorem nsi_newman_betweenness_wrapper_split (G : Gr) (v : Nat) (p : Rat) (hv : v < G.n)
    (hp0 : 0 < p) (hp1 : p < 1) (hw : ∀ k, k < G.n → 0 < G.w k) (hloop : ∀ i, G.adj i i = false)
    (Tof : Gr → Nat → Nat → Rat)
    (hTcongr : ∀ H H', RangeEq H H' → ∀ i j, i < H.n → j < H.n → Tof H i j = Tof H' i j)
    (ends : Bool) (a : Nat) (ha : a < G.n + 1)
    (hL : SolvesL (subGr G (compNodes G (collapse G.n v a))).n
      (nsiQ (subGr G (compNodes G (collapse G.n v a))))
      (newmanM (subGr G (compNodes G (collapse G.n v a))))
      (Tof (subGr G (compNodes G (collapse G.n v a)))))
    (hR : SolvesR (subGr (split G v p) (compNodes (split G v p) a)).n
      (newmanM (subGr (split G v p) (compNodes (split G v p) a)))
      (Tof (subGr (split G v p) (compNodes (split G v p) a)))) :
    newmanAt (split G v p) Tof ends a = newmanAt G Tof ends (collapse G.n v a) :=
  newmanAt_split G v p hv hp0 hp1 hw hloop Tof hTcongr ends a ha hL hR

/-- the Newman-type betweenness reads only the node range, the links and weights inside it and
the entries of `sp_M_inv` inside it -/
theorem nsi_newman_reads_range_only (G H : Gr) (h : RangeEq G H) (T T' : Nat → Nat → Rat)
    (hT : ∀ i j, i < G.n → j < G.n → T i j = T' i j) (ends : Bool) (i : Nat) (hi : i < G.n) :
    nsiNewman G T ends i = nsiNewman H T' ends i :=
  nsiNewman_congr h T T' hT ends i hi

/-- a complete network (every pair linked, e.g. the two twins of an isolated node): no walk is
counted; with `add_local_ends` every node has `W²` -/
theorem nsi_newman_complete_network (K : Gr) (hall : ∀ i j, i < K.n → j < K.n → aplus K i j = 1)
    (T : Nat → Nat → Rat) (ends : Bool) (i : Nat) (hi : i < K.n) :
    nsiNewman K T ends i = if ends then totalW K * totalW K else 0 :=
  nsiNewman_complete K hall T ends i hi

example : newmanWrapped compG true = some [9, 9, 16, 16, 4] ∧
    newmanWrapped (split compG 2 (1/4)) true = some [9, 9, 16, 16, 4, 16] ∧
    newmanWrapped (split compG 4 (1/4)) true = some [9, 9, 16, 16, 4, 4] ∧
    newmanWrapped (split compG 4 (1/4)) false = some [0, 0, 0, 0, 0, 0] := by
  decide +kernel


/-! ## Round 5c: the component loop with copy-back stores the per-node value -/

/-- **`perComponent` = `perNode`.**  The component loop of `nsi_newman_betweenness` /
`nsi_arenas_betweenness` (`result = zeros(N)`; for every component of
`graph.connected_components()`: the value for an isolated node, or the measure `f` of
`components.subgraph(c)` copied back by `result[node] = vals[j]`), on every undirected network,
for every measure `f` and every isolated-node value `single`: if the loop returns `res`, then
`res` has `N` entries and entry `a` is `perNode … a` — the value of `a`'s own component at `a`'s
position in it.  (Until round 5b a per-case flag of the driver.)  The wrapper theorems
(`nsi_newman_betweenness_wrapper_split`, `nsi_arenas_betweenness_wrapper_split*`) are about that
per-node value. -/
theorem per_component_loop_eq_per_node (G : Gr) (hsym : ∀ i j, G.adj i j = G.adj j i)
    (single : Nat → Rat) (f : Gr → Option (List Rat)) (res : List Rat)
    (h : perComponent G single f = some res) :
    res.length = G.n ∧ ∀ a, a < G.n → perNode G single f a = some (res.getD a 0) :=
  perComponent_eq_perNode G hsym single f res h

/-- the loop fails (a singular system) only if the measure fails on the component of some node -/
theorem per_component_loop_fails_with_a_component (G : Gr) (single : Nat → Rat)
    (f : Gr → Option (List Rat)) (h : perComponent G single f = none) :
    ∃ a, a < G.n ∧ perNode G single f a = none :=
  perComponent_none G single f h

/-- `graph.connected_components()` of an undirected network as the model lists it is a partition
into the components: the component of every node is listed, and two listed components that share
a node are the same list -/
theorem component_list_is_partition (G : Gr) (hsym : ∀ i j, G.adj i j = G.adj j i) :
    (∀ a, a < G.n → compNodes G a ∈ compList G) ∧
    (∀ c1 ∈ compList G, ∀ c2 ∈ compList G, ∀ x, x ∈ c1 → x ∈ c2 → c1 = c2) ∧
    (∀ a x, a < G.n → x ∈ compNodes G a → compNodes G x = compNodes G a) :=
  ⟨fun a ha => compNodes_mem_compList G hsym a ha,
   fun c1 h1 c2 h2 x hx1 hx2 => compList_overlap G hsym c1 c2 h1 h2 x hx1 hx2,
   fun a x ha hx => compNodes_eq_of_mem G hsym a x ha hx⟩

/-- the copy-back `for j, node in enumerate(nodes): result[node] = vals[j]` on distinct nodes
inside the result: length kept, `result[node] = vals[position of node]`, all other entries kept -/
theorem copy_back_spec (res : List Rat) (nodes : List Nat) (vals : List Rat) (hnd : nodes.Nodup)
    (hlt : ∀ x ∈ nodes, x < res.length) :
    (copyBack res nodes vals).length = res.length ∧
    (∀ a, a ∈ nodes → (copyBack res nodes vals).getD a 0 = vals.getD (nodes.idxOf a) 0) ∧
    (∀ a, a ∉ nodes → (copyBack res nodes vals).getD a 0 = res.getD a 0) :=
  ⟨copyBack_length res nodes vals hnd hlt, copyBack_mem res nodes vals hnd hlt,
   copyBack_not_mem res nodes vals hnd hlt⟩

/-- the two public methods: what `newmanWrapped` / `arenasWrapped` return is, entry by entry, the
per-node value (exactly the driver's former flag `pernode`, for all inputs) -/
theorem nsi_newman_wrapper_eq_per_node (G : Gr) (hsym : ∀ i j, G.adj i j = G.adj j i)
    (ends : Bool) (res : List Rat) (h : newmanWrapped G ends = some res) :
    res.length = G.n ∧
    ∀ a, a < G.n → perNode G (newmanSingle G ends) (newmanCompF ends) a = some (res.getD a 0) :=
  perComponent_eq_perNode G hsym _ _ res ((newmanWrapped_eq G ends).symm.trans h)

theorem nsi_arenas_wrapper_eq_per_node (G : Gr) (hsym : ∀ i j, G.adj i j = G.adj j i)
    (twin excl : Bool) (res : List Rat) (h : arenasWrapped G twin excl = some res) :
    res.length = G.n ∧
    ∀ a, a < G.n → perNode G (fun _ => 0) (arenasCompF twin excl) a = some (res.getD a 0) :=
  perComponent_eq_perNode G hsym _ _ res ((arenasWrapped_eq G twin excl).symm.trans h)

/-- **from the per-node value to the returned array**: if the per-node values of a measure are
node-splitting invariant (what the wrapper theorems prove), the arrays the component loop returns
on the network and on its split copy agree on untouched nodes and both twins carry `v`'s entry -/
theorem per_component_loop_split (G : Gr) (hsym : ∀ i j, G.adj i j = G.adj j i) (v : Nat)
    (p : Rat) (hv : v < G.n) (single single' : Nat → Rat) (f : Gr → Option (List Rat))
    (r r' : List Rat) (hr : perComponent G single f = some r)
    (hr' : perComponent (split G v p) single' f = some r')
    (hinv : ∀ a, a < G.n + 1 →
      perNode (split G v p) single' f a = perNode G single f (collapse G.n v a)) :
    r'.length = r.length + 1 ∧
    (∀ a, a < G.n → r'.getD a 0 = r.getD a 0) ∧ r'.getD G.n 0 = r.getD v 0 := by
  have hl := (perComponent_eq_perNode G hsym single f r hr).1
  have hl' := (perComponent_eq_perNode (split G v p) (split_adj_symm G v p hsym) single' f r'
    hr').1
  refine ⟨by rw [hl, hl']; rfl, fun a ha => ?_, ?_⟩
  · have := perComponent_split_of_perNode G hsym v p single single' f r r' hr hr' hinv hv a
      (by omega)
    rw [collapse_lt _ _ _ ha] at this; exact this
  · have := perComponent_split_of_perNode G hsym v p single single' f r r' hr hr' hinv hv G.n
      (by omega)
    rw [collapse_self] at this; exact this

/-- non-vacuity: on links 0–1, 2–3 | node 4 alone the loop returns five entries, each the per-node
value; and the hypothesis "undirected" is needed — with the single directed link 1 → 0 node 1
reaches node 0 but is the first node of no listed component, so the loop leaves its entry 0 -/
def dirG : Gr :=
  { n := 2, adj := fun i j => (i, j) ∈ [(1, 0)], w := fun _ => 1, la := fun _ _ _ => 0,
    grp := fun _ _ => false, dist := fun _ _ => none }

example : newmanWrapped compG true = some [9, 9, 16, 16, 4] ∧
    (List.range 5).map (perNode compG (newmanSingle compG true) (newmanCompF true))
      = [some 9, some 9, some 16, some 16, some 4] ∧
    perComponent dirG (fun _ => 5) (fun H => some (List.replicate H.n 7)) = some [5, 0] ∧
    perNode dirG (fun _ => 5) (fun H => some (List.replicate H.n 7)) 1 = some 7 := by
  decide +kernel


/-- **Node-splitting invariance of `nsi_arenas_betweenness` as the wrapper computes it, on every
loop-free network with positive node weights — connected or not**, both values of
`exclude_neighbors`, for a stopping rule `sigOf` given as a function of the sub-network that reads
only its node range, pulls back under a split and is 1 on a complete network.  `Vof H i` stands for
`splu(1 − sp_Pi).solve(sp_Pi)` on the sub-network `H` (any solutions; the systems of the new
component regular — `arenas_systems_regular` gives that when the stopping rule is in `[0,1]` with
unit diagonal, since a component is connected).  The three cases of the loop as for the
Newman-type measure; an isolated node becomes a pair of twins on which the walk stops at once
(value 0 on both sides). -/
theorem nsi_arenas_betweenness_wrapper_split (G : Gr) (v : Nat) (p : Rat) (hv : v < G.n)
    (hp0 : 0 < p) (hp1 : p < 1) (hw : ∀ k, k < G.n → 0 < G.w k) (hloop : ∀ i, G.adj i i = false)
    (sigOf : Gr → Nat → Nat → Rat) (Vof : Gr → Nat → Nat → Nat → Rat)
    (hsigcongr : ∀ H H', RangeEq H H' → ∀ a b, a < H.n → b < H.n → sigOf H a b = sigOf H' a b)
    (hsigsplit : ∀ (H : Gr) (k : Nat), k < H.n → ∀ a b,
      sigOf (split H k p) a b = sigOf H (collapse H.n k a) (collapse H.n k b))
    (hsigcomplete : ∀ K : Gr, (∀ k, k < K.n → 0 < K.w k) →
      (∀ i j, i < K.n → j < K.n → aplus K i j = 1) →
      ∀ i j, i < K.n → j < K.n → sigOf K i j = 1)
    (hVcongr : ∀ H H', RangeEq H H' → ∀ i s j, i < H.n → s < H.n → j < H.n →
      Vof H i s j = Vof H' i s j)
    (excl : Bool) (a : Nat) (ha : a < G.n + 1)
    (hV : ∀ i, i < (subGr G (compNodes G (collapse G.n v a))).n →
      ArenasSolves (subGr G (compNodes G (collapse G.n v a)))
        (sigOf (subGr G (compNodes G (collapse G.n v a)))) i
        (Vof (subGr G (compNodes G (collapse G.n v a))) i))
    (hV' : ∀ i, i < (subGr (split G v p) (compNodes (split G v p) a)).n →
      ArenasSolves (subGr (split G v p) (compNodes (split G v p) a))
        (sigOf (subGr (split G v p) (compNodes (split G v p) a))) i
        (Vof (subGr (split G v p) (compNodes (split G v p) a)) i))
    (hreg : ∀ i, i < (subGr (split G v p) (compNodes (split G v p) a)).n →
      ArenasRegular (subGr (split G v p) (compNodes (split G v p) a))
        (sigOf (subGr (split G v p) (compNodes (split G v p) a))) i) :
    arenasAt (split G v p) sigOf Vof excl a = arenasAt G sigOf Vof excl (collapse G.n v a) :=
  arenasAt_split G v p hv hp0 hp1 hw hloop sigOf Vof hsigcongr hsigsplit hsigcomplete hVcongr excl
    a ha hV hV' hreg

/-- both stopping rules of the library satisfy the three conditions on `sigOf`:
`stopping_mode="neighbors"` (`1`) trivially, `"twinness"` (`subnet.nsi_twinness()`) by
`eval_split`, range-only evaluation and `twinness = 1` on a complete network -/
theorem stopping_rules_admissible (p : Rat) :
    (let sigOf : Gr → Nat → Nat → Rat := fun H a b => eval H [a, b] M.nsiTwinness
     (∀ H H', RangeEq H H' → ∀ a b, a < H.n → b < H.n → sigOf H a b = sigOf H' a b) ∧
     (∀ (H : Gr) (k : Nat), k < H.n → ∀ a b,
        sigOf (split H k p) a b = sigOf H (collapse H.n k a) (collapse H.n k b)) ∧
     (∀ K : Gr, (∀ k, k < K.n → 0 < K.w k) → (∀ i j, i < K.n → j < K.n → aplus K i j = 1) →
        ∀ i j, i < K.n → j < K.n → sigOf K i j = 1)) :=
  ⟨fun _ _ h a b ha hb => twinness_congr h a b ha hb,
    fun H k hk a b => by simpa using eval_split H k p hk M.nsiTwinness [a, b],
    fun K hw hall i j hi hj => twinness_complete K hw hall i j hi hj⟩


/-- the sub-network the wrapper builds for a component of an undirected network is connected
(walks reverse, concatenate and stay inside the component) -/
theorem component_subnetwork_connected (G : Gr) (hsym : ∀ i j, G.adj i j = G.adj j i) (a : Nat)
    (ha : a < G.n) : Connected (subGr G (compNodes G a)) :=
  subGr_comp_connected G hsym a ha

/-- **`nsi_arenas_betweenness(stopping_mode="neighbors")` through the component loop, on every
undirected loop-free network with positive weights, connected or not — no regularity
hypothesis**: the systems of the new component are regular by `arenas_systems_regular`, because
its sub-network is connected -/
theorem nsi_arenas_betweenness_wrapper_split_neighbors (G : Gr) (v : Nat) (p : Rat) (hv : v < G.n)
    (hp0 : 0 < p) (hp1 : p < 1) (hw : ∀ k, k < G.n → 0 < G.w k) (hloop : ∀ i, G.adj i i = false)
    (hsym : ∀ i j, G.adj i j = G.adj j i) (Vof : Gr → Nat → Nat → Nat → Rat)
    (hVcongr : ∀ H H', RangeEq H H' → ∀ i s j, i < H.n → s < H.n → j < H.n →
      Vof H i s j = Vof H' i s j)
    (excl : Bool) (a : Nat) (ha : a < G.n + 1)
    (hV : ∀ i, i < (subGr G (compNodes G (collapse G.n v a))).n →
      ArenasSolves (subGr G (compNodes G (collapse G.n v a))) (fun _ _ => 1) i
        (Vof (subGr G (compNodes G (collapse G.n v a))) i))
    (hV' : ∀ i, i < (subGr (split G v p) (compNodes (split G v p) a)).n →
      ArenasSolves (subGr (split G v p) (compNodes (split G v p) a)) (fun _ _ => 1) i
        (Vof (subGr (split G v p) (compNodes (split G v p) a)) i)) :
    arenasAt (split G v p) (fun _ _ _ => 1) Vof excl a
      = arenasAt G (fun _ _ _ => 1) Vof excl (collapse G.n v a) :=
  arenasAt_split G v p hv hp0 hp1 hw hloop (fun _ _ _ => 1) Vof (fun _ _ _ _ _ _ _ => rfl)
    (fun _ _ _ _ _ => rfl) (fun _ _ _ _ _ _ _ => rfl) hVcongr excl a ha hV hV'
    (fun i hi => arenas_regular _
      (subGr_weights_pos (split G v p) _ (fun x hx => compNodes_lt _ _ x hx)
        (split_weights_pos G v p hv hp0 hp1 hw))
      (subGr_comp_connected (split G v p) (split_adj_symm G v p hsym) a ha) _ i hi rfl
      (fun _ _ _ => ⟨by norm_num, by norm_num⟩))

/-- **… and `stopping_mode="twinness"`** (the sub-network's own `nsi_twinness`) -/
theorem nsi_arenas_betweenness_wrapper_split_twinness (G : Gr) (v : Nat) (p : Rat) (hv : v < G.n)
    (hp0 : 0 < p) (hp1 : p < 1) (hw : ∀ k, k < G.n → 0 < G.w k) (hloop : ∀ i, G.adj i i = false)
    (hsym : ∀ i j, G.adj i j = G.adj j i) (Vof : Gr → Nat → Nat → Nat → Rat)
    (hVcongr : ∀ H H', RangeEq H H' → ∀ i s j, i < H.n → s < H.n → j < H.n →
      Vof H i s j = Vof H' i s j)
    (excl : Bool) (a : Nat) (ha : a < G.n + 1)
    (hV : ∀ i, i < (subGr G (compNodes G (collapse G.n v a))).n →
      ArenasSolves (subGr G (compNodes G (collapse G.n v a)))
        (fun x y => eval (subGr G (compNodes G (collapse G.n v a))) [x, y] M.nsiTwinness) i
        (Vof (subGr G (compNodes G (collapse G.n v a))) i))
    (hV' : ∀ i, i < (subGr (split G v p) (compNodes (split G v p) a)).n →
      ArenasSolves (subGr (split G v p) (compNodes (split G v p) a))
        (fun x y => eval (subGr (split G v p) (compNodes (split G v p) a)) [x, y] M.nsiTwinness) i
        (Vof (subGr (split G v p) (compNodes (split G v p) a)) i)) :
    arenasAt (split G v p) (fun H x y => eval H [x, y] M.nsiTwinness) Vof excl a
      = arenasAt G (fun H x y => eval H [x, y] M.nsiTwinness) Vof excl (collapse G.n v a) := by
  have hw' := subGr_weights_pos (split G v p) (compNodes (split G v p) a)
    (fun x hx => compNodes_lt _ _ x hx) (split_weights_pos G v p hv hp0 hp1 hw)
  have hsymA : ∀ i j, aplus (subGr (split G v p) (compNodes (split G v p) a)) i j
      = aplus (subGr (split G v p) (compNodes (split G v p) a)) j i :=
    aplus_symm _ (fun i j => split_adj_symm G v p hsym _ _)
  exact arenasAt_split G v p hv hp0 hp1 hw hloop (fun H x y => eval H [x, y] M.nsiTwinness) Vof
    (stopping_rules_admissible p).1 (stopping_rules_admissible p).2.1
    (stopping_rules_admissible p).2.2 hVcongr excl a ha hV hV'
    (fun i hi => arenas_regular _ hw'
      (subGr_comp_connected (split G v p) (split_adj_symm G v p hsym) a ha) _ i hi
      (twinness_diag _ hw' hsymA i hi) (fun r _ _ => twinness_bounds _ hw' i r hi))

/-- non-vacuity: path 0–1–2–3 | link 4–5; the inner nodes of the path have non-zero values, and
splitting node 1 leaves all values unchanged with the twin carrying node 1's -/
def compG2 : Gr :=
  { n := 6, adj := fun i j => (i, j) ∈ [(0, 1), (1, 0), (1, 2), (2, 1), (2, 3), (3, 2), (4, 5), (5, 4)],
    w := fun k => [1, 2, 3, 1, 2, 1].getD k 0, la := fun _ _ _ => 0, grp := fun _ _ => false,
    dist := fun _ _ => none }

example : arenasWrapped (split compG2 1 (1/4)) false true
      = (arenasWrapped compG2 false true).map (fun l => l ++ [l.getD 1 0]) ∧
    arenasWrapped (split compG2 1 (1/4)) true false
      = (arenasWrapped compG2 true false).map (fun l => l ++ [l.getD 1 0]) ∧
    (arenasWrapped compG2 false true).isSome = true ∧
    ((arenasWrapped compG2 false true).getD []).getD 1 0 ≠ 0 ∧
    compList (split compG2 1 (1/4)) = [[0, 1, 2, 3, 6], [4, 5]] := by
  decide +kernel

/-! ## Round 5d: the executable models are the functions of the theorems; invariance of `newmanWrapped` / `arenasWrapped` themselves

Until round 5c the executable `newmanAll` / `arenasAll` (what the driver runs and the correspondence
compares with the implementation, entry by entry in exact rationals) were tied to `nsiNewman` /
`arenasB` (what the invariance theorems are about) only by being written with the same kernels.
Now this is a theorem, and with `per_component_loop_eq_per_node` and the wrapper theorems it gives
the node-splitting invariance of the arrays `newmanWrapped` / `arenasWrapped` return. -/

/-- **`newmanAll` = `nsiNewman`.**  The list the driver prints for `nsi_newman_betweenness` of a
connected network is `[nsiNewman G T ends i | i < N]` with `T = newmanT G`, and `newmanT G` is the
grounded Gauss–Jordan inverse of `sp_M = newmanM G` itself (the materialised tables `toFun (ofFun …)`
of the executable model are invisible: every loop reads them inside the node range only). -/
theorem newman_all_eq_nsi_newman (G : Gr) (ends : Bool) :
    newmanAll G ends = (newmanT G).map (fun T => (List.range G.n).map (nsiNewman G T ends)) ∧
    newmanT G = groundedInv G.n (newmanM G) :=
  ⟨newmanAll_eq G ends, newmanT_eq G⟩

/-- … entry by entry, with `newmanTof G` = the Gauss–Jordan result -/
theorem newman_all_entries (G : Gr) (ends : Bool) (l : List Rat) (h : newmanAll G ends = some l) :
    l.length = G.n ∧ ∀ i, i < G.n → l.getD i 0 = nsiNewman G (newmanTof G) ends i :=
  newmanAll_getD G ends l h

/-- `sp_M_inv` as the model computes it depends on the network inside its node range only (the
hypothesis `hTcongr` of `nsi_newman_betweenness_wrapper_split`, for the executable inverse) -/
theorem newman_inverse_reads_range_only (H H' : Gr) (h : RangeEq H H') : newmanT H = newmanT H' :=
  newmanT_congr h

/-- the flag `solves` / `csolves` of the driver decides the two hypotheses `SolvesL` / `SolvesR`
of the invariance theorems for the Gauss–Jordan inverse -/
theorem newman_solves_flag_sound (H : Gr) (h : newmanSolves H = true) :
    SolvesL H.n (nsiQ H) (newmanM H) (newmanTof H) ∧ SolvesR H.n (newmanM H) (newmanTof H) :=
  newmanSolves_sound H h

/-- **`arenasAll` = `arenasB`.**  The list the driver prints for `nsi_arenas_betweenness` of a
connected network is `[arenasB G V excl j | j < N]` with `V i` the Gauss–Jordan solution
`arenasVs G σ i`, and the flag `ok` implies that every `V i` solves `(1 − sp_Pi) V = sp_Pi`
(`ArenasSolves`, the hypothesis of `nsi_arenas_betweenness_split`). -/
theorem arenas_all_eq_arenas_b (G : Gr) (sigma : Nat → Nat → Rat) (excl : Bool) (l : List Rat)
    (ok : Bool) (h : arenasAll G sigma excl = some (l, ok)) :
    l = (List.range G.n).map (arenasB G (arenasVs G sigma) excl) ∧
    (ok = true → ∀ i, i < G.n → ArenasSolves G sigma i (arenasVs G sigma i)) :=
  arenasAll_spec G sigma excl l ok h

/-- **Node-splitting invariance of `newmanWrapped` itself** (`nsi_newman_betweenness` through the
component loop with copy-back, both values of `add_local_ends`, computed with the exact Gauss–Jordan
grounded inverses): on every undirected loop-free network with positive node weights, if the loop
returns `r` on the network and `r'` on its split copy, then `r'` has one entry more, agrees with `r`
on the old nodes and the twin carries `v`'s entry.  Hypotheses `hL` / `hR`: on the sub-networks of
the components concerned the Gauss–Jordan result does what an inverse is used for (`SolvesL` /
`SolvesR`) — decided per case by the driver's flags, see `nsi_newman_wrapped_split_checked`; they
follow from "Gauss–Jordan inverts", see `nsi_newman_wrapped_split_grounded`. -/
theorem nsi_newman_wrapped_split (G : Gr) (hsym : ∀ i j, G.adj i j = G.adj j i)
    (hloop : ∀ i, G.adj i i = false) (hw : ∀ k, k < G.n → 0 < G.w k) (v : Nat) (p : Rat)
    (hv : v < G.n) (hp0 : 0 < p) (hp1 : p < 1) (ends : Bool) (r r' : List Rat)
    (hr : newmanWrapped G ends = some r) (hr' : newmanWrapped (split G v p) ends = some r')
    (hL : ∀ a, a < G.n + 1 →
      SolvesL (subGr G (compNodes G (collapse G.n v a))).n
        (nsiQ (subGr G (compNodes G (collapse G.n v a))))
        (newmanM (subGr G (compNodes G (collapse G.n v a))))
        (newmanTof (subGr G (compNodes G (collapse G.n v a)))))
    (hR : ∀ a, a < G.n + 1 →
      SolvesR (subGr (split G v p) (compNodes (split G v p) a)).n
        (newmanM (subGr (split G v p) (compNodes (split G v p) a)))
        (newmanTof (subGr (split G v p) (compNodes (split G v p) a)))) :
    r'.length = r.length + 1 ∧
    (∀ a, a < G.n → r'.getD a 0 = r.getD a 0) ∧ r'.getD G.n 0 = r.getD v 0 :=
  newmanWrapped_split G hsym hloop hw v p hv hp0 hp1 ends r r' hr hr' hL hR

/-- **… with the executable flags as the only hypotheses**: `newmanSolves` (exact rational check of
`SolvesL` / `SolvesR`) is true on the sub-network of every component with at least two nodes of the
network and of its split copy (driver output `csolves`, demanded by the correspondence on every
test graph). -/
theorem nsi_newman_wrapped_split_checked (G : Gr) (hsym : ∀ i j, G.adj i j = G.adj j i)
    (hloop : ∀ i, G.adj i i = false) (hw : ∀ k, k < G.n → 0 < G.w k) (v : Nat) (p : Rat)
    (hv : v < G.n) (hp0 : 0 < p) (hp1 : p < 1) (ends : Bool) (r r' : List Rat)
    (hr : newmanWrapped G ends = some r) (hr' : newmanWrapped (split G v p) ends = some r')
    (hflag : ∀ a, a < G.n → 2 ≤ (compNodes G a).length →
      newmanSolves (subGr G (compNodes G a)) = true)
    (hflag' : ∀ a, a < G.n + 1 → 2 ≤ (compNodes (split G v p) a).length →
      newmanSolves (subGr (split G v p) (compNodes (split G v p) a)) = true) :
    r'.length = r.length + 1 ∧
    (∀ a, a < G.n → r'.getD a 0 = r.getD a 0) ∧ r'.getD G.n 0 = r.getD v 0 := by
  refine newmanWrapped_split G hsym hloop hw v p hv hp0 hp1 ends r r' hr hr' (fun a ha => ?_)
    (fun a ha => ?_)
  · by_cases h2 : 2 ≤ (compNodes G (collapse G.n v a)).length
    · exact (newmanSolves_sound _ (hflag _ (collapse_lt_n G.n v a hv ha) h2)).1
    · exact solvesL_small _ (by simp only [subGr_n]; omega) _ _ _
  · by_cases h2 : 2 ≤ (compNodes (split G v p) a).length
    · exact (newmanSolves_sound _ (hflag' a ha h2)).2
    · exact solvesR_small _ (by simp only [subGr_n]; omega) _ _

/-- **… with "Gauss–Jordan inverts" as the only hypothesis**: on the sub-networks concerned the
result `newmanTof` of the exact elimination is a grounded inverse (`IsGroundedInv`: zero last row /
column, leading block a two-sided inverse of the leading block of `sp_M`). -/
theorem nsi_newman_wrapped_split_grounded (G : Gr) (hsym : ∀ i j, G.adj i j = G.adj j i)
    (hloop : ∀ i, G.adj i i = false) (hw : ∀ k, k < G.n → 0 < G.w k) (v : Nat) (p : Rat)
    (hv : v < G.n) (hp0 : 0 < p) (hp1 : p < 1) (ends : Bool) (r r' : List Rat)
    (hr : newmanWrapped G ends = some r) (hr' : newmanWrapped (split G v p) ends = some r')
    (hinv : ∀ a, a < G.n →
      IsGroundedInv (subGr G (compNodes G a)).n (newmanM (subGr G (compNodes G a)))
        (newmanTof (subGr G (compNodes G a))))
    (hinv' : ∀ a, a < G.n + 1 →
      IsGroundedInv (subGr (split G v p) (compNodes (split G v p) a)).n
        (newmanM (subGr (split G v p) (compNodes (split G v p) a)))
        (newmanTof (subGr (split G v p) (compNodes (split G v p) a)))) :
    r'.length = r.length + 1 ∧
    (∀ a, a < G.n → r'.getD a 0 = r.getD a 0) ∧ r'.getD G.n 0 = r.getD v 0 := by
  refine newmanWrapped_split G hsym hloop hw v p hv hp0 hp1 ends r r' hr hr' (fun a ha => ?_)
    (fun a ha => ?_)
  · have hc := collapse_lt_n G.n v a hv ha
    exact (grounded_inverse_solves _
      (by simp only [subGr_n]; exact List.length_pos_of_mem (self_mem_compNodes G _ hc))
      (subGr_weights_pos G _ (fun x hx => compNodes_lt _ _ x hx) hw)
      (fun i j => hsym _ _) _ (hinv _ hc)).1
  · exact (grounded_inverse_solves _
      (by simp only [subGr_n]; exact List.length_pos_of_mem (self_mem_compNodes (split G v p) a ha))
      (subGr_weights_pos (split G v p) _ (fun x hx => compNodes_lt _ _ x hx)
        (split_weights_pos G v p hv hp0 hp1 hw))
      (fun i j => split_adj_symm G v p hsym _ _) _ (hinv' a ha)).2

/-- non-vacuity: on links 0–1, 2–3 | node 4 alone, split at node 2 (the twin joins the component
{2,3}) and at the isolated node 4 (the shortcut becomes a 2-node computation): both loops return,
all flags are true, and the arrays are as the theorem says -/
example :
    newmanWrapped compG true = some [9, 9, 16, 16, 4] ∧
    newmanWrapped (split compG 2 (1/4)) true = some [9, 9, 16, 16, 4, 16] ∧
    ((List.range 5).all fun a => decide ((compNodes compG a).length < 2) ||
      newmanSolves (subGr compG (compNodes compG a))) = true ∧
    ((List.range 6).all fun a => decide ((compNodes (split compG 2 (1/4)) a).length < 2) ||
      newmanSolves (subGr (split compG 2 (1/4)) (compNodes (split compG 2 (1/4)) a))) = true ∧
    ((List.range 6).all fun a => decide ((compNodes (split compG 4 (1/4)) a).length < 2) ||
      newmanSolves (subGr (split compG 4 (1/4)) (compNodes (split compG 4 (1/4)) a))) = true ∧
    newmanAll path5 false = some ((List.range 5).map (nsiNewman path5 (newmanTof path5) false)) ∧
    (newmanAll path5 false).map (fun l => l.getD 2 0) = some (4/3) := by
  decide +kernel

/-! ### Round 5e: the executable Gauss–Jordan inverse is correct — no linear-algebra hypothesis left

`Circuit.inverse` (C18's exact Gauss–Jordan elimination, the model of `scipy.sparse.linalg.inv` on
`sp_M[:-1,:-1]` that `groundedInv` / `newmanT` / `newmanAll` / `newmanWrapped` run) returns a
two-sided inverse whenever it returns a matrix (`Lemmas/NsiGJ.lean`: one column step of C18's list
code satisfies the entry-wise statement of C10's `gjStep_spec`, so C10's invariant `gjInv_step` and
`left_inverse_is_right` apply).  With it the flag `csolves` of the driver is true by theorem, and
the hypotheses `SolvesL` / `SolvesR` / `IsGroundedInv` of the round-5d theorems are discharged. -/

/-- **C18's Gauss–Jordan elimination is correct**: whenever `Circuit.inverse n A` returns `P`,
`P A = 1` and `A P = 1` on the leading `n × n` block (for every rational matrix `A`) -/
theorem circuit_inverse_two_sided (n : Nat) (A P : Nat → Nat → Rat)
    (h : Circuit.inverse n A = some P) :
    (∀ i j, i < n → j < n → sumR n (fun l => P i l * A l j) = if i = j then 1 else 0) ∧
    (∀ i j, i < n → j < n → sumR n (fun l => A i l * P l j) = if i = j then 1 else 0) :=
  inverse_two_sided n A P h

/-- what `groundedInv` (the model of `sp_M_inv`) returns is a grounded inverse: zero last row /
column, the leading block a two-sided inverse of the leading block of `M` -/
theorem grounded_inv_is_grounded_inv (n : Nat) (M T : Nat → Nat → Rat)
    (h : groundedInv n M = some T) : IsGroundedInv n M T :=
  groundedInv_isGroundedInv n M T h

/-- **`SolvesL` / `SolvesR` hold for the executable inverse** of every undirected network with
positive node weights on which the elimination finds all pivots — what the driver's flags `solves` /
`csolves` evaluate per case is true by theorem -/
theorem newman_tof_solves (H : Gr) (hn : 0 < H.n) (hw : ∀ k, k < H.n → 0 < H.w k)
    (hsym : ∀ i j, H.adj i j = H.adj j i) (h : (newmanT H).isSome = true) :
    SolvesL H.n (nsiQ H) (newmanM H) (newmanTof H) ∧ SolvesR H.n (newmanM H) (newmanTof H) :=
  grounded_inverse_solves H hn hw hsym _ (newmanTof_grounded H h)

/-- **Node-splitting invariance of `newmanWrapped`, unconditional**: the only hypotheses left are
that the modelled component loop returns an array on the network and on its split copy — no flag
`csolves`, no `SolvesL` / `SolvesR`, no `IsGroundedInv`.  On every undirected loop-free network with
positive node weights, every node `v`, every `0 < p < 1`, both values of `add_local_ends`: `r'` has
one entry more, agrees with `r` on the old nodes, and the twin carries `v`'s entry. -/
theorem nsi_newman_wrapped_split_unconditional (G : Gr) (hsym : ∀ i j, G.adj i j = G.adj j i)
    (hloop : ∀ i, G.adj i i = false) (hw : ∀ k, k < G.n → 0 < G.w k) (v : Nat) (p : Rat)
    (hv : v < G.n) (hp0 : 0 < p) (hp1 : p < 1) (ends : Bool) (r r' : List Rat)
    (hr : newmanWrapped G ends = some r) (hr' : newmanWrapped (split G v p) ends = some r') :
    r'.length = r.length + 1 ∧
    (∀ a, a < G.n → r'.getD a 0 = r.getD a 0) ∧ r'.getD G.n 0 = r.getD v 0 := by
  have h1 := perComponent_eq_perNode G hsym _ _ r ((newmanWrapped_eq G ends).symm.trans hr)
  have h2 := perComponent_eq_perNode (split G v p) (split_adj_symm G v p hsym) _ _ r'
    ((newmanWrapped_eq (split G v p) ends).symm.trans hr')
  refine newmanWrapped_split G hsym hloop hw v p hv hp0 hp1 ends r r' hr hr' (fun a ha => ?_)
    (fun a ha => ?_)
  · have hc := collapse_lt_n G.n v a hv ha
    by_cases hlen : 2 ≤ (compNodes G (collapse G.n v a)).length
    · exact (newman_tof_solves _ (by simp only [subGr_n]; omega)
        (subGr_weights_pos G _ (fun x hx => compNodes_lt _ _ x hx) hw) (fun i j => hsym _ _)
        (perNode_newman_isSome G ends _ _ (h1.2 _ hc) hlen)).1
    · exact solvesL_small _ (by simp only [subGr_n]; omega) _ _ _
  · by_cases hlen : 2 ≤ (compNodes (split G v p) a).length
    · exact (newman_tof_solves _ (by simp only [subGr_n]; omega)
        (subGr_weights_pos (split G v p) _ (fun x hx => compNodes_lt _ _ x hx)
          (split_weights_pos G v p hv hp0 hp1 hw))
        (fun i j => split_adj_symm G v p hsym _ _)
        (perNode_newman_isSome (split G v p) ends a _ (h2.2 a ha) hlen)).2
    · exact solvesR_small _ (by simp only [subGr_n]; omega) _ _

/-- the flag the correspondence demands (`solves` / `csolves`) is implied: wherever `newmanAll`
returns a list on an undirected network with positive node weights, the two conditions that
`newmanSolves` evaluates hold for the executable inverse -/
theorem newman_all_some_solves (H : Gr) (hn : 0 < H.n) (hw : ∀ k, k < H.n → 0 < H.w k)
    (hsym : ∀ i j, H.adj i j = H.adj j i) (ends : Bool) (l : List Rat)
    (h : newmanAll H ends = some l) :
    SolvesL H.n (nsiQ H) (newmanM H) (newmanTof H) ∧ SolvesR H.n (newmanM H) (newmanTof H) := by
  refine newman_tof_solves H hn hw hsym ?_
  rw [newmanAll_eq] at h
  cases hT : newmanT H with
  | none => rw [hT] at h; simp at h
  | some T => rfl

/-- non-vacuity (Gauss–Jordan): the elimination returns on a 3 × 3 matrix that needs a row swap
(zero in the first pivot position), and the result is the inverse; it returns `none` on a singular
matrix — the hypothesis of `circuit_inverse_two_sided` is neither always true nor always false -/
example :
    let A : Nat → Nat → Rat := fun i j => ([[0, 2, 1], [1, 1, 0], [3, 0, 1]].getD i []).getD j 0
    (Circuit.inverse 3 A).map (fun P => Circuit.ofFun 3 P) =
      some ([[-1, 2, 1], [1, 3, -1], [3, -6, 2]].map (fun r => r.map (· / (5 : Rat)))) ∧
    (Circuit.inverse 2 (fun _ _ => (1 : Rat))).isNone = true := by
  decide +kernel

/-- non-vacuity (unconditional theorem): its hypotheses hold on `compG` split at node 2 (twin joins
{2,3}) and at the isolated node 4 (the shortcut becomes a 2-node elimination), both values of
`add_local_ends`; and on `path5` split in the middle, where the grounded inverse is 4 × 4 / 5 × 5 -/
example :
    newmanWrapped compG true = some [9, 9, 16, 16, 4] ∧
    newmanWrapped (split compG 2 (1/4)) true = some [9, 9, 16, 16, 4, 16] ∧
    newmanWrapped (split compG 4 (1/4)) true = some [9, 9, 16, 16, 4, 4] ∧
    (newmanWrapped compG false).isSome = true ∧
    (newmanWrapped (split compG 2 (1/4)) false).isSome = true ∧
    (newmanWrapped path5 false).map (fun l => l.getD 2 0) = some (4/3) ∧
    (newmanWrapped (split path5 2 (1/4)) false).map (fun l => (l.getD 2 0, l.getD 5 0)) =
      some (4/3, 4/3) ∧
    (newmanT path5).isSome = true ∧ (newmanT (split path5 2 (1/4))).isSome = true := by
  decide +kernel

/-! ### Round 5f: C18's Gauss–Jordan is complete — the wrapper fails exactly on singular reduced `sp_M` -/

/-- **completeness of C18's Gauss–Jordan elimination** (the other half of
`circuit_inverse_two_sided`): `Circuit.inverse n A = none` exactly when `A` has a non-zero kernel
vector on the leading `n × n` block (for every rational matrix `A` and every `n`) -/
theorem circuit_inverse_none_iff (n : Nat) (A : Nat → Nat → Rat) :
    Circuit.inverse n A = none ↔
      ∃ v : Nat → Rat, (∃ l, l < n ∧ v l ≠ 0) ∧
        ∀ k, k < n → sumR n (fun l => A k l * v l) = 0 :=
  inverse_none_iff n A

/-- … equivalently, it returns a matrix exactly when the leading block is regular
(`SingularBlock n A` is the right-hand side of `circuit_inverse_none_iff`) -/
theorem circuit_inverse_some_iff_regular (n : Nat) (A : Nat → Nat → Rat) :
    (Circuit.inverse n A).isSome = true ↔ ¬ SingularBlock n A :=
  inverse_isSome_iff n A

/-- the model of `nsi_newman_betweenness` on a connected network (`newmanAll`, and `newmanT`, the
model of `sp_M_inv`) is `none` exactly when the reduced `sp_M` (`sp_M[:-1,:-1]`) is singular -/
theorem newman_all_none_iff_singular (H : Gr) (ends : Bool) :
    (newmanAll H ends = none ↔ SingularBlock (H.n - 1) (newmanM H)) ∧
    (newmanT H = none ↔ SingularBlock (H.n - 1) (newmanM H)) :=
  ⟨newmanAll_none_iff H ends, newmanT_none_iff H⟩

/-- **the modelled wrapper of `nsi_newman_betweenness` fails on a component with at least two
nodes exactly when its grounded (reduced) `sp_M` is singular**: `newmanWrapped G ends = none` iff
some component `c` of `G` with `2 ≤ |c|` has a non-zero kernel vector of `sp_M[:-1,:-1]` of its
sub-network; and node by node (`perNode`, what the loop stores at `a`,
`perComponent_eq_perNode`).  No hypothesis on `G`.  (Still open: that this never happens for
positive weights — regularity of the reduced Laplacian-type matrix of a connected network.) -/
theorem newman_wrapped_none_iff_singular (G : Gr) (ends : Bool) :
    (newmanWrapped G ends = none ↔
      ∃ c ∈ compList G, 2 ≤ c.length ∧
        SingularBlock ((subGr G c).n - 1) (newmanM (subGr G c))) ∧
    (∀ a, perNode G (newmanSingle G ends) (newmanCompF ends) a = none ↔
      2 ≤ (compNodes G a).length ∧
        SingularBlock ((subGr G (compNodes G a)).n - 1) (newmanM (subGr G (compNodes G a)))) :=
  ⟨newmanWrapped_none_iff G ends, perNode_newman_none_iff G ends⟩

/-- non-vacuity (`circuit_inverse_none_iff`): both sides occur — the all-ones 2 × 2 matrix has the
explicit kernel vector `(1, -1)` and the elimination returns `none` on it; the 3 × 3 matrix of the
round-5e example (zero first pivot) is regular and the elimination returns -/
example :
    (Circuit.inverse 2 (fun _ _ => (1 : Rat))).isNone = true ∧
    SingularBlock 2 (fun _ _ => (1 : Rat)) ∧
    ¬ SingularBlock 3 (fun i j => ([[0, 2, 1], [1, 1, 0], [3, 0, 1]].getD i []).getD j (0 : Rat)) := by
  refine ⟨by decide +kernel, ⟨fun l => if l = 0 then 1 else -1, ⟨0, by decide, by decide⟩, ?_⟩,
    (circuit_inverse_some_iff_regular _ _).mp (by decide +kernel)⟩
  intro k _
  show sumR 2 (fun l => (1 : Rat) * (if l = 0 then 1 else -1)) = 0
  decide +kernel

/-- two linked nodes of weight zero: outside the property's domain (weights must be positive), the
only kind of input on which the reduced `sp_M` can be singular -/
def zeroWG : Gr :=
  { n := 2, adj := fun i j => (i, j) ∈ [(0, 1), (1, 0)],
    w := fun _ => 0, la := fun _ _ _ => 0, grp := fun _ _ => false, dist := fun _ _ => none }

/-- non-vacuity (`newman_wrapped_none_iff_singular`): the wrapper fails on `zeroWG` (so its one
component has a singular reduced `sp_M`), and returns on `compG` and `path5` (so no component of
those has one) -/
example :
    (newmanWrapped zeroWG true).isNone = true ∧
    (∃ c ∈ compList zeroWG, 2 ≤ c.length ∧
      SingularBlock ((subGr zeroWG c).n - 1) (newmanM (subGr zeroWG c))) ∧
    (¬ ∃ c ∈ compList compG, 2 ≤ c.length ∧
      SingularBlock ((subGr compG c).n - 1) (newmanM (subGr compG c))) ∧
    (¬ ∃ c ∈ compList path5, 2 ≤ c.length ∧
      SingularBlock ((subGr path5 c).n - 1) (newmanM (subGr path5 c))) := by
  have h0 : (newmanWrapped zeroWG true).isNone = true := by decide +kernel
  have h1 : (newmanWrapped compG true).isSome = true := by decide +kernel
  have h2 : (newmanWrapped path5 true).isSome = true := by decide +kernel
  refine ⟨h0, (newman_wrapped_none_iff_singular zeroWG true).1.mp (Option.isNone_iff_eq_none.mp h0),
    fun h => ?_, fun h => ?_⟩
  · rw [(newman_wrapped_none_iff_singular compG true).1.mpr h] at h1; cases h1
  · rw [(newman_wrapped_none_iff_singular path5 true).1.mpr h] at h2; cases h2

/-- **Node-splitting invariance of `arenasWrapped` itself** (`nsi_arenas_betweenness` through the
component loop, all four argument patterns `stopping_mode` × `exclude_neighbors`, computed with the
exact Gauss–Jordan solves) — **no hypothesis on the linear algebra**: the modelled wrapper returns
an array only if every solution was verified exactly (`arenasAll`'s flag, `arenas_all_eq_arenas_b`),
and the systems of the split copy are regular because a component's sub-network is connected
(`arenas_systems_regular`).  On every undirected loop-free network with positive node weights: if
the loop returns `r` on the network and `r'` on its split copy, `r'` has one entry more, agrees with
`r` on the old nodes and the twin carries `v`'s entry. -/
theorem nsi_arenas_wrapped_split (G : Gr) (hsym : ∀ i j, G.adj i j = G.adj j i)
    (hloop : ∀ i, G.adj i i = false) (hw : ∀ k, k < G.n → 0 < G.w k) (v : Nat) (p : Rat)
    (hv : v < G.n) (hp0 : 0 < p) (hp1 : p < 1) (twin excl : Bool) (r r' : List Rat)
    (hr : arenasWrapped G twin excl = some r)
    (hr' : arenasWrapped (split G v p) twin excl = some r') :
    r'.length = r.length + 1 ∧
    (∀ a, a < G.n → r'.getD a 0 = r.getD a 0) ∧ r'.getD G.n 0 = r.getD v 0 := by
  rw [arenasWrapped_eq] at hr hr'
  have h1 := perComponent_eq_perNode G hsym _ _ r hr
  have h2 := perComponent_eq_perNode (split G v p) (split_adj_symm G v p hsym) _ _ r' hr'
  have hadm : (∀ H H', RangeEq H H' → ∀ a b, a < H.n → b < H.n →
        arenasSigOf twin H a b = arenasSigOf twin H' a b) ∧
      (∀ (H : Gr) (k : Nat), k < H.n → ∀ a b,
        arenasSigOf twin (split H k p) a b = arenasSigOf twin H (collapse H.n k a) (collapse H.n k b)) ∧
      (∀ K : Gr, (∀ k, k < K.n → 0 < K.w k) → (∀ i j, i < K.n → j < K.n → aplus K i j = 1) →
        ∀ i j, i < K.n → j < K.n → arenasSigOf twin K i j = 1) := by
    cases twin
    · exact ⟨fun _ _ _ _ _ _ _ => rfl, fun _ _ _ _ _ => rfl, fun _ _ _ _ _ _ _ => rfl⟩
    · exact stopping_rules_admissible p
  have small : ∀ K : Gr, (∀ k, k < K.n → 0 < K.w k) → K.n < 2 → ∀ i, i < K.n →
      ArenasSolves K (arenasSigOf twin K) i (fun _ _ => 0) := fun K hwK hK i hi =>
    arenasSolves_small K _ hK (hadm.2.2 K hwK (fun x y hx hy => by
      have hx0 : x = 0 := by omega
      have hy0 : y = 0 := by omega
      subst hx0; subst hy0; simp [aplus])) i hi
  have key : ∀ a, a < G.n + 1 → r'.getD a 0 = r.getD (collapse G.n v a) 0 := by
    intro a ha
    have hc := collapse_lt_n G.n v a hv ha
    obtain ⟨e1, s1⟩ := perNode_arenas G twin excl _ hc _ (h1.2 _ hc)
    obtain ⟨e2, s2⟩ := perNode_arenas (split G v p) twin excl a ha _ (h2.2 a ha)
    rw [e1, e2, ← arenasAt_Vof2, ← arenasAt_Vof2 G]
    have hwH := subGr_weights_pos G (compNodes G (collapse G.n v a))
      (fun x hx => compNodes_lt _ _ x hx) hw
    have hwH' := subGr_weights_pos (split G v p) (compNodes (split G v p) a)
      (fun x hx => compNodes_lt _ _ x hx) (split_weights_pos G v p hv hp0 hp1 hw)
    have hsymA : ∀ i j, aplus (subGr (split G v p) (compNodes (split G v p) a)) i j
        = aplus (subGr (split G v p) (compNodes (split G v p) a)) j i :=
      aplus_symm _ (fun i j => split_adj_symm G v p hsym _ _)
    refine arenasAt_split G v p hv hp0 hp1 hw hloop (arenasSigOf twin) (arenasVof2 twin) hadm.1
      hadm.2.1 hadm.2.2 (arenasVof2_congr twin) excl a ha (fun i hi => ?_) (fun i hi => ?_)
      (fun i hi => ?_)
    · unfold arenasVof2
      split
      · rename_i hlt
        exact small _ hwH hlt i hi
      · rename_i hlt
        exact s1 (by simpa [subGr] using hlt) i hi
    · unfold arenasVof2
      split
      · rename_i hlt
        exact small _ hwH' hlt i hi
      · rename_i hlt
        exact s2 (by simpa [subGr] using hlt) i hi
    · have hconn := subGr_comp_connected (split G v p) (split_adj_symm G v p hsym) a ha
      cases twin
      · exact arenas_regular _ hwH' hconn _ i hi rfl
          (fun _ _ _ => ⟨by simp [arenasSigOf], by simp [arenasSigOf]⟩)
      · exact arenas_regular _ hwH' hconn _ i hi (twinness_diag _ hwH' hsymA i hi)
          (fun r _ _ => twinness_bounds _ hwH' i r hi)
  refine ⟨by rw [h1.1, h2.1]; rfl, fun a ha => ?_, ?_⟩
  · have := key a (by omega)
    rw [collapse_lt _ _ _ ha] at this; exact this
  · have := key G.n (by omega)
    rw [collapse_self] at this; exact this

/-- non-vacuity: on path 0–1–2–3 | link 4–5 both loops return in all four argument patterns, the
inner nodes of the path have non-zero values, and `arenasAll` is `arenasB` of the Gauss–Jordan
solutions with the flag true -/
example :
    (arenasWrapped compG2 false true).isSome = true ∧
    (arenasWrapped (split compG2 1 (1/4)) false true).isSome = true ∧
    (arenasWrapped compG2 true false).isSome = true ∧
    (arenasWrapped (split compG2 1 (1/4)) true false).isSome = true ∧
    ((arenasWrapped compG2 true false).getD []).getD 1 0 ≠ 0 ∧
    arenasAll path4 (fun _ _ => 1) false
      = some ((List.range 4).map (arenasB path4 (arenasVs path4 (fun _ _ => 1)) false), true) := by
  decide +kernel

/-! ### round 5: `nsi_eigenvector_centrality`

The code (core/network.py) hands `sp_Astar = Dw^½ A⁺ Dw^½` to `eigsh(k=1, sigma=2W)`, which returns
*some* non-zero eigenvector `u` (any sign, any scale) of the largest eigenvalue, divides it by
`sqrt w`, multiplies by the sign of entry 0 and divides by the maximum.  Eigenvectors are in
general irrational, so the statements are over an arbitrary linearly ordered field `K` containing
the (rational) weights.  `astar_eigenvectors` removes the square roots: `u` is an eigenvector of
`sp_Astar` iff `ec = u / sqrt w` is one of the n.s.i. adjacency matrix `A⁺ D_w` (`IsEig`). -/

section eigen
variable {K : Type} [Field K] [LinearOrder K] [IsStrictOrderedRing K]

/-- `u` eigenvector of `DwR * sp_Aplus * DwR` ⇔ `u / sqrt w` eigenvector of `sp_Aplus * sp_diag_w`
(`r` = any positive square roots of the weights in `K`) -/
theorem astar_eigenvectors (G : Gr) (lam : K) (r u : Nat → K) (hr : ∀ i, i < G.n → 0 < r i)
    (hrr : ∀ i, i < G.n → r i * r i = ((G.w i : Rat) : K)) :
    (∀ i, i < G.n → ∑ j ∈ Finset.range G.n, r i * ((aplus G i j : Rat) : K) * r j * u j = lam * u i)
      ↔ IsEig G lam (fun i => u i / r i) :=
  astar_eig_iff G lam r u hr hrr

/-- eigenvectors of the n.s.i. adjacency matrix pull back along the collapse map with the same
eigenvalue (every graph, directed or not, every `p`, every eigenvalue) -/
theorem nsi_adjacency_eigenvector_pullback (G : Gr) (v : Nat) (p : Rat) (hv : v < G.n) (lam : K)
    (x : Nat → K) (hx : IsEig G lam x) :
    IsEig (split G v p) lam (fun k => x (collapse G.n v k)) :=
  eig_pullback G v p hv lam x hx

/-- **Perron, domination**: with positive node weights the eigenvalue of a positive eigenvector is
the largest eigenvalue — the one `eigsh(sigma = 2W)` selects -/
theorem positive_eigenvector_is_top (G : Gr) (hw : ∀ j, j < G.n → 0 < G.w j) (lam : K)
    (x : Nat → K) (hx : PosVec G.n x) (hxe : IsEig G lam x) : IsTop G lam :=
  eig_le_of_pos G hw lam x hx hxe

/-- **Perron, uniqueness**: on a connected network with positive weights the eigenspace of that
eigenvalue is the line through the positive eigenvector -/
theorem top_eigenvector_unique (G : Gr) (hw : ∀ j, j < G.n → 0 < G.w j) (hconn : Connected G)
    (lam : K) (x y : Nat → K) (hx : PosVec G.n x) (hxe : IsEig G lam x) (hye : IsEig G lam y) :
    ∃ t : K, ∀ i, i < G.n → y i = t * x i :=
  eig_unique G hw hconn lam x y hx hxe hye

/-- the split copy of a connected loop-free network is connected -/
theorem split_is_connected (G : Gr) (v : Nat) (p : Rat) (hv : v < G.n)
    (hloop : ∀ i, G.adj i i = false) (hconn : Connected G) : Connected (split G v p) :=
  split_connected G v p hv hloop hconn

/-- what the code returns for a connected network that has a positive eigenvector `x`: for
**every** non-zero eigenvector `y` of the largest eigenvalue (whatever sign and scale `eigsh`
chose), the normalised output is `x / max x` -/
theorem nsi_eigenvector_centrality_value (G : Gr) (hn : 0 < G.n) (hw : ∀ j, j < G.n → 0 < G.w j)
    (hconn : Connected G) (lam : K) (x : Nat → K) (hx : PosVec G.n x) (hxe : IsEig G lam x)
    (mu : K) (y : Nat → K) (hye : IsEig G mu y) (hy : NonZero G.n y) (hmu : IsTop G mu)
    (e : Nat → K) (he : IsEcOutput G.n y e) :
    mu = lam ∧ ∃ mx : K, (∀ i, i < G.n → x i ≤ mx) ∧ (∃ i, i < G.n ∧ x i = mx) ∧
      ∀ i, i < G.n → e i = x i / mx := by
  have h1 : mu ≤ lam := eig_le_of_pos G hw lam x hx hxe mu y hye hy
  have h2 : lam ≤ mu := hmu lam x hxe ⟨0, hn, ne_of_gt (hx 0 hn)⟩
  have hml : mu = lam := le_antisymm h1 h2
  subst hml
  obtain ⟨t, ht⟩ := eig_unique G hw hconn mu x y hx hxe hye
  have ht0 : t ≠ 0 := by
    rintro rfl
    obtain ⟨i, hi, hyi⟩ := hy
    exact hyi (by rw [ht i hi, zero_mul])
  exact ⟨rfl, ecOutput_of_multiple G.n hn x y e t ht0 hx ht he⟩

/-- **Node-splitting invariance of `nsi_eigenvector_centrality`.**  For every connected loop-free
network with positive node weights that has a positive eigenvector (Perron–Frobenius guarantees one
over ℝ; its existence is the only assumption, and only for the *original* network), every node
`v`, every `0 < p < 1`: whatever non-zero eigenvectors `y`, `y'` of the largest eigenvalues
`eigsh` returns for the network and for its split copy, the normalised outputs `e`, `e'` agree on
untouched nodes and both twins carry `v`'s value.  The largest eigenvalue is invariant as well. -/
theorem nsi_eigenvector_centrality_split (G : Gr) (v : Nat) (p : Rat) (hv : v < G.n)
    (hp0 : 0 < p) (hp1 : p < 1) (hloop : ∀ i, G.adj i i = false)
    (hw : ∀ j, j < G.n → 0 < G.w j) (hconn : Connected G)
    (lam : K) (x : Nat → K) (hx : PosVec G.n x) (hxe : IsEig G lam x)
    (mu : K) (y : Nat → K) (hye : IsEig G mu y) (hy : NonZero G.n y) (hmu : IsTop G mu)
    (mu' : K) (y' : Nat → K) (hye' : IsEig (split G v p) mu' y') (hy' : NonZero (G.n + 1) y')
    (hmu' : IsTop (split G v p) mu')
    (e e' : Nat → K) (he : IsEcOutput G.n y e) (he' : IsEcOutput (G.n + 1) y' e') :
    mu' = mu ∧ ∀ a, a < G.n + 1 → e' a = e (collapse G.n v a) := by
  have hn : 0 < G.n := by omega
  obtain ⟨h1, mx, hle, ⟨i1, hi1, hmx⟩, hev⟩ :=
    nsi_eigenvector_centrality_value G hn hw hconn lam x hx hxe mu y hye hy hmu e he
  have hx' : PosVec (split G v p).n (fun k => x (collapse G.n v k)) :=
    fun k hk => hx _ (collapse_lt_n _ _ _ hv hk)
  obtain ⟨h1', mx', hle', ⟨i1', hi1', hmx'⟩, hev'⟩ :=
    nsi_eigenvector_centrality_value (split G v p) (Nat.succ_pos _)
      (split_weights_pos G v p hv hp0 hp1 hw) (split_connected G v p hv hloop hconn) lam _ hx'
      (eig_pullback G v p hv lam x hxe) mu' y' hye' hy' hmu' e' he'
  have hmm : mx' = mx := by
    apply le_antisymm
    · rw [← hmx']; exact hle _ (collapse_lt_n _ _ _ hv hi1')
    · rw [← hmx]
      have := hle' i1 (Nat.lt_succ_of_lt hi1)
      simpa [collapse_lt _ _ _ hi1] using this
  refine ⟨by rw [h1', h1], fun a ha => ?_⟩
  rw [hev' a ha, hev _ (collapse_lt_n _ _ _ hv ha), hmm]

end eigen


/-- the driver's flag `conn` decides the hypothesis `Connected` (by
`bfs_distances_are_shortest_paths`) -/
theorem connected_iff_bfs (G : Gr) : isConnected G = true ↔ Connected G := by
  unfold isConnected Connected
  simp only [List.all_eq_true, List.mem_range]
  constructor
  · intro h i j hi hj
    have hd := bfsDist_isDist G i j hi
    have hs := h i hi j hj
    cases hb : bfsDist G i j with
    | none => rw [hb] at hs; simp at hs
    | some d => rw [hb] at hd; exact ⟨d, hd.1⟩
  · intro h i hi j hj
    have hd := bfsDist_isDist G i j hi
    cases hb : bfsDist G i j with
    | none =>
      rw [hb] at hd
      obtain ⟨k, wk⟩ := h i j hi hj
      exact absurd wk (hd k)
    | some d => simp


/-- the driver's exact residual `eigResid` (cross-multiplied, `s` = any index with `x s ≠ 0`)
vanishes only for eigenvectors: the harness bounds it for the vector the implementation returns -/
theorem eig_of_resid_zero (G : Gr) (x : Nat → Rat) (s : Nat) (hs : x s ≠ 0)
    (h : ∀ i, i < G.n → nsiAdjApply G x i * x s - nsiAdjApply G x s * x i = 0) :
    IsEig (K := Rat) G (nsiAdjApply G x s / x s) x := by
  intro i hi
  rw [adjK_rat]
  have := h i hi
  field_simp
  linarith

/-- non-vacuity: the path 0–1–2 with weights 3, 2, 3 is connected and has the positive eigenvector
`(1, 3/2, 1)` for the eigenvalue 6; the code's normalisation gives `(2/3, 1, 2/3)` on the network
and `(2/3, 1, 2/3, 1)` on the copy with node 1 split — from any multiple, e.g. `−2·x` -/
def eigG : Gr :=
  { n := 3, adj := fun i j => (i, j) ∈ [(0, 1), (1, 0), (1, 2), (2, 1)],
    w := fun k => [3, 2, 3].getD k 0, la := fun _ _ _ => 0, grp := fun _ _ => false,
    dist := fun _ _ => none }

def eigX (k : Nat) : Rat := [1, 3/2, 1].getD k 0

example : (List.range 3).all (fun i => nsiAdjApply eigG eigX i == 6 * eigX i) = true ∧
    (List.range 4).all (fun a => nsiAdjApply (split eigG 1 (1/4)) (fun k => eigX (collapse 3 1 k)) a
      == 6 * eigX (collapse 3 1 a)) = true ∧
    (List.range 3).map (ecNorm 3 fun k => -2 * eigX k) = [2/3, 1, 2/3] ∧
    (List.range 4).map (ecNorm 4 fun k => 5 * eigX (collapse 3 1 k)) = [2/3, 1, 2/3, 1] ∧
    eigResid eigG eigX = [0, 0, 0] := by
  decide +kernel

example : IsEig (K := Rat) eigG 6 eigX ∧ PosVec 3 eigX := by
  refine ⟨fun i hi => ?_, fun i hi => ?_⟩
  · rw [adjK_rat]
    have : i = 0 ∨ i = 1 ∨ i = 2 := by
      have : i < 3 := hi
      omega
    rcases this with rfl | rfl | rfl <;> decide +kernel
  · have : i = 0 ∨ i = 1 ∨ i = 2 := by omega
    rcases this with rfl | rfl | rfl <;> decide +kernel


example : Connected eigG ∧ (∀ i, eigG.adj i i = false) ∧ (∀ j, j < eigG.n → 0 < eigG.w j) := by
  refine ⟨fun i j hi hj => ?_, fun i => by simp [eigG]; omega, fun j hj => ?_⟩
  · have hi' : i = 0 ∨ i = 1 ∨ i = 2 := by
      have : i < 3 := hi
      omega
    have hj' : j = 0 ∨ j = 1 ∨ j = 2 := by
      have : j < 3 := hj
      omega
    rcases hi' with rfl | rfl | rfl <;> rcases hj' with rfl | rfl | rfl <;>
      first
      | exact ⟨0, Walk.nil _ (by decide)⟩
      | exact ⟨1, Walk.cons _ _ _ _ (by decide) (by decide) (Walk.nil _ (by decide))⟩
      | exact ⟨2, Walk.cons _ 1 _ _ (by decide) (by decide)
          (Walk.cons _ _ _ _ (by decide) (by decide) (Walk.nil _ (by decide)))⟩
  · have : j = 0 ∨ j = 1 ∨ j = 2 := by
      have : j < 3 := hj
      omega
    rcases this with rfl | rfl | rfl <;> decide +kernel

/-! ### the measures of the library are expressions: invariance of each, by name -/

theorem nsi_degree_split (G : Gr) (v : Nat) (p : Rat) (hv : v < G.n) (i : Nat) (hi : i < G.n) :
    eval (split G v p) [i] M.nsiDegree = eval G [i] M.nsiDegree ∧
    eval (split G v p) [G.n] M.nsiDegree = eval G [v] M.nsiDegree :=
  ⟨local_split_untouched G v p hv _ i hi, local_split_twin G v p hv _⟩

theorem nsi_local_clustering_split (G : Gr) (v : Nat) (p : Rat) (hv : v < G.n) (i : Nat)
    (hi : i < G.n) :
    eval (split G v p) [i] M.nsiLocalClustering = eval G [i] M.nsiLocalClustering ∧
    eval (split G v p) [G.n] M.nsiLocalClustering = eval G [v] M.nsiLocalClustering :=
  ⟨local_split_untouched G v p hv _ i hi, local_split_twin G v p hv _⟩

theorem nsi_transitivity_split (G : Gr) (v : Nat) (p : Rat) (hv : v < G.n) :
    eval (split G v p) [] M.nsiTransitivity = eval G [] M.nsiTransitivity :=
  global_split G v p hv _

/-- every measure in the catalogue `M.all` (name, arity, expression) is invariant -/
theorem catalogue_split (G : Gr) (v : Nat) (p : Rat) (hv : v < G.n) (tw : Rat) :
    ∀ m ∈ M.all tw, ∀ env : List Nat,
      eval (split G v p) env m.2.2 = eval G (env.map (collapse G.n v)) m.2.2 :=
  fun m _ env => eval_split G v p hv m.2.2 env

/-! ### non-vacuity: a concrete split changes the graph but not the measure -/

def exG : Gr :=
  { n := 3, adj := fun i j => (i, j) ∈ [(0, 1), (1, 0), (1, 2), (2, 1)],
    w := fun k => [1, 2, 3].getD k 0, la := fun _ _ _ => 0, grp := fun _ _ => false,
    dist := fun _ _ => none }

example : eval exG [0] M.nsiDegree = 3 ∧ eval (split exG 1 (1/4)) [0] M.nsiDegree = 3 ∧
    (split exG 1 (1/4)).n = 4 ∧ (split exG 1 (1/4)).w 1 = 3/2 ∧ (split exG 1 (1/4)).w 3 = 1/2 := by
  decide +kernel

/-! ### Round 5g: the grounded `sp_M` is regular — `newmanWrapped` is total -/

/-- **`sp_M[:-1, :-1]` of a connected network with positive node weights is regular**: the leading
`(n−1) × (n−1)` block of `newmanM H` has only the zero kernel vector (maximum principle along walks
to the grounded node, `Lemmas/NsiNewmanReg.lean`); hence the model of `sp_M_inv` (`newmanT`) and
the measure on a connected network (`newmanAll`) always return -/
theorem newman_grounded_system_regular (H : Gr) (hw : ∀ k, k < H.n → 0 < H.w k)
    (hconn : Connected H) (ends : Bool) :
    ¬ SingularBlock (H.n - 1) (newmanM H) ∧ (newmanT H).isSome = true ∧
      (newmanAll H ends).isSome = true := by
  have hreg := newman_grounded_regular H hw hconn
  refine ⟨hreg, newmanT_isSome H hw hconn, ?_⟩
  cases h : newmanAll H ends with
  | none => exact absurd ((newman_all_none_iff_singular H ends).1.mp h) hreg
  | some l => rfl

/-- **the modelled wrapper of `nsi_newman_betweenness` is total**: on every undirected network with
positive node weights (connected or not) `newmanWrapped` returns an array, of length `N` — every
component's sub-network is connected (`component_subnetwork_connected`), so its reduced `sp_M` is
regular (`newman_grounded_system_regular`), so C18's Gauss–Jordan returns
(`newman_wrapped_none_iff_singular`) -/
theorem newman_wrapped_total (G : Gr) (hsym : ∀ i j, G.adj i j = G.adj j i)
    (hw : ∀ k, k < G.n → 0 < G.w k) (ends : Bool) :
    ∃ r, newmanWrapped G ends = some r := by
  cases h : newmanWrapped G ends with
  | none => exact absurd h (newmanWrapped_ne_none G hsym hw ends)
  | some r => exact ⟨r, rfl⟩

/-- **Node-splitting invariance of `newmanWrapped` with no hypothesis about the linear algebra at
all**: on every undirected loop-free network with positive node weights, every node `v`, every
`0 < p < 1`, both values of `add_local_ends`, the modelled wrapper returns an array `r` on the
network and an array `r'` on its split copy (`newman_wrapped_total`), `r'` has one entry more, agrees
with `r` on the old nodes, and the twin carries `v`'s entry
(`nsi_newman_wrapped_split_unconditional`). -/
theorem nsi_newman_wrapped_split_total (G : Gr) (hsym : ∀ i j, G.adj i j = G.adj j i)
    (hloop : ∀ i, G.adj i i = false) (hw : ∀ k, k < G.n → 0 < G.w k) (v : Nat) (p : Rat)
    (hv : v < G.n) (hp0 : 0 < p) (hp1 : p < 1) (ends : Bool) :
    ∃ r r', newmanWrapped G ends = some r ∧ newmanWrapped (split G v p) ends = some r' ∧
      r'.length = r.length + 1 ∧
      (∀ a, a < G.n → r'.getD a 0 = r.getD a 0) ∧ r'.getD G.n 0 = r.getD v 0 := by
  obtain ⟨r, hr⟩ := newman_wrapped_total G hsym hw ends
  obtain ⟨r', hr'⟩ := newman_wrapped_total (split G v p) (split_adj_symm G v p hsym)
    (split_weights_pos G v p hv hp0 hp1 hw) ends
  exact ⟨r, r', hr, hr',
    nsi_newman_wrapped_split_unconditional G hsym hloop hw v p hv hp0 hp1 ends r r' hr hr'⟩

private theorem compG_sym : ∀ i j, compG.adj i j = compG.adj j i := by
  intro i j
  rw [Bool.eq_iff_iff]
  simp only [compG, decide_eq_true_eq, List.mem_cons, Prod.mk.injEq, List.mem_nil_iff, or_false]
  omega

private theorem compG_loop : ∀ i, compG.adj i i = false := by
  intro i
  simp only [compG, decide_eq_false_iff_not, List.mem_cons, Prod.mk.injEq, List.mem_nil_iff,
    or_false]
  omega

private theorem compG_w : ∀ k, k < compG.n → 0 < compG.w k := by decide +kernel

/-- non-vacuity (`newman_grounded_system_regular`, `newman_wrapped_total`): the hypothesis "positive
weights" cannot be dropped — `zeroWG` (two linked nodes of weight 0, connected) has a singular
reduced `sp_M` and the wrapper fails on it — and the conclusion is not trivial: on `compG`
(components `{0,1}`, `{2,3}`, `{4}`) and on its split copy the arrays that `newman_wrapped_total`
promises have lengths 5 and 6 -/
example :
    (newmanWrapped zeroWG true).isNone = true ∧
    (∃ r, newmanWrapped compG true = some r ∧ r.length = 5) ∧
    (∃ r', newmanWrapped (split compG 2 (1/4)) true = some r' ∧ r'.length = 6) := by
  refine ⟨by decide +kernel, ?_, ?_⟩
  · obtain ⟨r, hr⟩ := newman_wrapped_total compG compG_sym compG_w true
    refine ⟨r, hr, ?_⟩
    have h : ((newmanWrapped compG true).map List.length) = some 5 := by decide +kernel
    rw [hr] at h
    simpa using h
  · obtain ⟨r', hr'⟩ := newman_wrapped_total (split compG 2 (1/4))
      (split_adj_symm compG 2 (1/4) compG_sym)
      (split_weights_pos compG 2 (1/4) (by decide) (by norm_num) (by norm_num) compG_w) true
    refine ⟨r', hr', ?_⟩
    have h : ((newmanWrapped (split compG 2 (1/4)) true).map List.length) = some 6 := by
      decide +kernel
    rw [hr'] at h
    simpa using h

/-- non-vacuity (`nsi_newman_wrapped_split_total`): instantiated on `compG`, node 2, `p = 1/4`; the
promised arrays are the computed ones, and the twin (index 5) carries node 2's value -/
example :
    ∃ r r', newmanWrapped compG true = some r ∧ newmanWrapped (split compG 2 (1/4)) true = some r' ∧
      r'.length = r.length + 1 ∧ (∀ a, a < 5 → r'.getD a 0 = r.getD a 0) ∧
      r'.getD 5 0 = r.getD 2 0 :=
  nsi_newman_wrapped_split_total compG compG_sym compG_loop compG_w 2 (1/4)
    (by decide) (by norm_num) (by norm_num) true


/-! ## Round 5h: `arenasWrapped` is total — regularity of `1 − P_i` combined with solver completeness

`arenasV` runs the same `Circuit.inverse` (C18's Gauss–Jordan) as `newmanT`; round 5f's
`inverse_isSome_iff` (it returns iff the block is regular), round 5e's `inverse_right` (what it
returns is a right inverse, so `R · P` solves `(1 − P) V = P` and `arenasAll`'s flag is `true`) and
round 5's `arenas_systems_regular` (Lemmas/NsiArenasTotal.lean). -/

/-- **the eliminations of `nsi_arenas_betweenness` return and their results pass the exact check**:
on a connected undirected network with positive node weights, for both stopping rules and both
values of `exclude_neighbors`, `arenasAll` returns `some (l, true)` — every `arenasV` is `some`
(`ArenasRegular` is regularity of the block handed to `Circuit.inverse`; completeness
`inverse_isSome_iff`) and every `R · P` solves its system (`inverse_right`) -/
theorem arenas_all_total (H : Gr) (hsym : ∀ i j, H.adj i j = H.adj j i)
    (hw : ∀ k, k < H.n → 0 < H.w k) (hconn : Connected H) (twin excl : Bool) :
    (∀ i, i < H.n → (arenasV H (Circuit.toFun (Circuit.ofFun H.n (arenasSigOf twin H))) i).isSome
      = true) ∧
    ∃ l, arenasCompF twin excl H = some l := by
  constructor
  · intro i hi
    apply arenasV_isSome
    apply arenas_regular H hw hconn _ i hi
    · rw [toFun_ofFun H.n _ i i hi hi]
      unfold arenasSigOf
      cases twin
      · rfl
      · exact twinness_diag H hw (aplus_symm H hsym) i hi
    · intro r hr _
      rw [toFun_ofFun H.n _ i r hi hr]
      unfold arenasSigOf
      cases twin
      · exact ⟨by norm_num, le_refl _⟩
      · exact twinness_bounds H hw i r hi
  · cases h : arenasCompF twin excl H with
    | none => exact absurd h (arenasCompF_ne_none H hsym hw hconn twin excl)
    | some l => exact ⟨l, rfl⟩

/-- **the modelled wrapper of `nsi_arenas_betweenness` is total**: on every undirected network with
positive node weights (connected or not), for both stopping rules and both values of
`exclude_neighbors`, `arenasWrapped` returns an array — every component's sub-network is connected
(`component_subnetwork_connected`), so its systems `1 − P_i` are regular
(`arenas_systems_regular`), so C18's Gauss–Jordan returns and its results are verified
(`arenas_all_total`) -/
theorem arenas_wrapped_total (G : Gr) (hsym : ∀ i j, G.adj i j = G.adj j i)
    (hw : ∀ k, k < G.n → 0 < G.w k) (twin excl : Bool) :
    ∃ r, arenasWrapped G twin excl = some r := by
  cases h : arenasWrapped G twin excl with
  | none => exact absurd h (arenasWrapped_ne_none G hsym hw twin excl)
  | some r => exact ⟨r, rfl⟩

/-- **Node-splitting invariance of `arenasWrapped` with the existence of both arrays as a
conclusion**: on every undirected loop-free network with positive node weights, every node `v`,
every `0 < p < 1`, all four argument patterns, the modelled wrapper returns an array `r` on the
network and an array `r'` on its split copy (`arenas_wrapped_total`), `r'` has one entry more,
agrees with `r` on the old nodes, and the twin carries `v`'s entry (`nsi_arenas_wrapped_split`). -/
theorem nsi_arenas_wrapped_split_total (G : Gr) (hsym : ∀ i j, G.adj i j = G.adj j i)
    (hloop : ∀ i, G.adj i i = false) (hw : ∀ k, k < G.n → 0 < G.w k) (v : Nat) (p : Rat)
    (hv : v < G.n) (hp0 : 0 < p) (hp1 : p < 1) (twin excl : Bool) :
    ∃ r r', arenasWrapped G twin excl = some r ∧
      arenasWrapped (split G v p) twin excl = some r' ∧
      r'.length = r.length + 1 ∧
      (∀ a, a < G.n → r'.getD a 0 = r.getD a 0) ∧ r'.getD G.n 0 = r.getD v 0 := by
  obtain ⟨r, hr⟩ := arenas_wrapped_total G hsym hw twin excl
  obtain ⟨r', hr'⟩ := arenas_wrapped_total (split G v p) (split_adj_symm G v p hsym)
    (split_weights_pos G v p hv hp0 hp1 hw) twin excl
  exact ⟨r, r', hr, hr',
    nsi_arenas_wrapped_split G hsym hloop hw v p hv hp0 hp1 twin excl r r' hr hr'⟩

/-- path 0–1–2 whose middle node has weight zero: outside the property's domain; the system of
target 0 has the singular row `(0, −w₁/k⋆₂, 1 − w₂/k⋆₂) = (0, 0, 0)` -/
def zeroMidG : Gr :=
  { n := 3, adj := fun i j => (i, j) ∈ [(0, 1), (1, 0), (1, 2), (2, 1)],
    w := fun k => [1, 0, 1].getD k 0, la := fun _ _ _ => 0, grp := fun _ _ => false,
    dist := fun _ _ => none }

private theorem compG2_sym : ∀ i j, compG2.adj i j = compG2.adj j i := by
  intro i j
  rw [Bool.eq_iff_iff]
  simp only [compG2, decide_eq_true_eq, List.mem_cons, Prod.mk.injEq, List.mem_nil_iff, or_false]
  omega

private theorem compG2_loop : ∀ i, compG2.adj i i = false := by
  intro i
  simp only [compG2, decide_eq_false_iff_not, List.mem_cons, Prod.mk.injEq, List.mem_nil_iff,
    or_false]
  omega

private theorem compG2_w : ∀ k, k < compG2.n → 0 < compG2.w k := by decide +kernel

/-- non-vacuity (`arenas_all_total`, `arenas_wrapped_total`): the hypothesis "positive weights"
cannot be dropped — on `zeroMidG` (connected, one weight 0) the wrapper fails for both stopping
rules — and the conclusion is not trivial: on `compG2` (path 0–1–2–3 | link 4–5) and on its split
copy the arrays that `arenas_wrapped_total` promises have lengths 6 and 7 and a non-zero entry -/
example :
    (arenasWrapped zeroMidG false true).isNone = true ∧
    (arenasWrapped zeroMidG true true).isNone = true ∧
    (∃ r, arenasWrapped compG2 false true = some r ∧ r.length = 6 ∧ r.getD 1 0 ≠ 0) ∧
    (∃ r', arenasWrapped (split compG2 1 (1/4)) true false = some r' ∧ r'.length = 7) := by
  refine ⟨by decide +kernel, by decide +kernel, ?_, ?_⟩
  · obtain ⟨r, hr⟩ := arenas_wrapped_total compG2 compG2_sym compG2_w false true
    refine ⟨r, hr, ?_, ?_⟩
    · have h : ((arenasWrapped compG2 false true).map List.length) = some 6 := by decide +kernel
      rw [hr] at h
      simpa using h
    · have h : ((arenasWrapped compG2 false true).getD []).getD 1 0 ≠ 0 := by decide +kernel
      rw [hr] at h
      simpa using h
  · obtain ⟨r', hr'⟩ := arenas_wrapped_total (split compG2 1 (1/4))
      (split_adj_symm compG2 1 (1/4) compG2_sym)
      (split_weights_pos compG2 1 (1/4) (by decide) (by norm_num) (by norm_num) compG2_w) true false
    refine ⟨r', hr', ?_⟩
    have h : ((arenasWrapped (split compG2 1 (1/4)) true false).map List.length) = some 7 := by
      decide +kernel
    rw [hr'] at h
    simpa using h

/-- non-vacuity (`nsi_arenas_wrapped_split_total`): instantiated on `compG2`, node 1, `p = 1/4`,
`stopping_mode="twinness"`, `exclude_neighbors=False`; the promised arrays are the computed ones,
and the twin (index 6) carries node 1's value -/
example :
    ∃ r r', arenasWrapped compG2 true false = some r ∧
      arenasWrapped (split compG2 1 (1/4)) true false = some r' ∧
      r'.length = r.length + 1 ∧ (∀ a, a < 6 → r'.getD a 0 = r.getD a 0) ∧
      r'.getD 6 0 = r.getD 1 0 :=
  nsi_arenas_wrapped_split_total compG2 compG2_sym compG2_loop compG2_w 1 (1/4)
    (by decide) (by norm_num) (by norm_num) true false


end Pyunicorn.Nsi
