import Pyunicorn.Lemmas.Pure
import Pyunicorn.Generated.StructC06
/-!
# C06 — Queries are pure: no interference, inputs are never modified

`pure_of_clean` is the general theorem about the purity model (`Pyunicorn.Pure`);
`effects_clean` is about the effect summaries that `translate/gen_C06.py` regenerates
from the current source on every run (every in-place statement that can reach a cached
result, an object field or a caller argument, with the recognised restore idioms).
-/
namespace Pyunicorn.Pure

/-- **Purity.** If no method of a class has an unrestored in-place edit, then for every
nesting depth and every finite sequence of queries starting from a fresh object: every
query returns the value a fresh object returns (so repeating a query returns an equal
value and no query changes what another returns), no field is modified and no caller
argument is modified. -/
theorem pure_of_clean (tbl : List Method) (htbl : tableClean tbl = true) (fuel : Nat)
    (qs : List Nat) (s : State) (hs : s.clean) :
    (∀ b ∈ run tbl fuel s qs, b = false) ∧
    (qs.foldl (fun st q => (query tbl fuel st q).1) s).clean := by
  induction qs generalizing s with
  | nil => exact ⟨by simp [run], hs⟩
  | cons q t ih =>
    obtain ⟨h1, h2⟩ := query_clean tbl htbl fuel s hs q
    obtain ⟨i1, i2⟩ := ih _ h1
    refine ⟨?_, by simpa [List.foldl_cons] using i2⟩
    intro b hb
    simp only [run, List.mem_cons] at hb
    rcases hb with rfl | hb
    · exact h2
    · exact i1 b hb

theorem pure_from_fresh (tbl : List Method) (htbl : tableClean tbl = true) (fuel : Nat)
    (qs : List Nat) : ∀ b ∈ run tbl fuel State.init qs, b = false :=
  (pure_of_clean tbl htbl fuel qs State.init ⟨rfl, rfl, by simp [State.init]⟩).1

/-- bridge from the translator's output to abstract tables: if the effect summaries are
clean, every table whose non-empty edit lists are backed by an unsafe summary is clean -/
theorem tableClean_of_effectsClean (effects : List (String × List Edit))
    (h : effectsClean effects = true) (tbl : List Method)
    (hrep : ∀ m ∈ tbl, m.edits ≠ [] → ∃ e ∈ effects, (e.2.all fun ed => ed.safe) = false) :
    tableClean tbl = true := by
  simp only [tableClean, List.all_eq_true]
  intro m hm
  by_cases he : m.edits = []
  · simp [he]
  · obtain ⟨e, hin, hbad⟩ := hrep m hm he
    simp only [effectsClean, List.all_eq_true] at h
    have h2 := h e hin
    have h3 : (e.2.all fun ed => ed.safe) = true := List.all_eq_true.mpr h2
    rw [hbad] at h3
    exact absurd h3 (by decide)

/-! ### impurity witnesses (what the pinned tree did) -/

/-- method 1 edits the cached result of method 0 in place (like the pinned
`inv_correlation_distance`): `q0; q1; q0` returns a changed value the second time -/
example : run [⟨[], [0], []⟩, ⟨[0], [], [.result 0]⟩] 3 State.init [0, 1, 0] = [false, false, true] := by
  decide
/-- a method normalising a shared field in place poisons every later reader -/
example : run [⟨[], [0], []⟩, ⟨[], [0], [.field 0]⟩] 3 State.init [1, 0] = [false, true] := by
  decide
example : tableClean [⟨[], [0], []⟩, ⟨[0], [], []⟩] = true := by decide

end Pyunicorn.Pure

namespace Pyunicorn.Generated.StructC06
open Pyunicorn.Pure

/-- every in-place statement of the current source that reaches a cached result, an object
field (outside constructors and documented mutators) or a caller argument is restored
or documented -/
theorem effects_clean : effectsClean effects = true := by decide +kernel

end Pyunicorn.Generated.StructC06
