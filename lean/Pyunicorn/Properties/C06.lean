import Pyunicorn.Lemmas.Pure
import Pyunicorn.Lemmas.PureWindow
import Pyunicorn.Generated.StructC06
/-!
# C06 — Queries are pure: no interference, inputs are never modified

`pure_of_clean` is the general theorem about the purity model (`Pyunicorn.Pure`);
`effects_clean` is about the effect summaries that `translate/gen_C06.py` regenerates
from the current source on every run (every in-place statement that can reach a cached
result, an object field or a caller argument, with the recognised restore idioms).
-/
namespace Pyunicorn.Pure

/-- **Purity.** If no method of a class has an unrestored in-place edit, then for every
nesting depth and every finite sequence of queries starting from a fresh object: every
query returns the value a fresh object returns (so repeating a query returns an equal
value and no query changes what another returns), no field is modified and no caller
argument is modified. -/
theorem pure_of_clean (tbl : List Method) (htbl : tableClean tbl = true) (fuel : Nat)
    (qs : List Nat) (s : State) (hs : s.clean) :
    (∀ b ∈ run tbl fuel s qs, b = false) ∧
    (qs.foldl (fun st q => (query tbl fuel st q).1) s).clean := by
  induction qs generalizing s with
  | nil => exact ⟨by simp [run], hs⟩
  | cons q t ih =>
    obtain ⟨h1, h2⟩ := query_clean tbl htbl fuel s hs q
    obtain ⟨i1, i2⟩ := ih _ h1
    refine ⟨?_, by simpa [List.foldl_cons] using i2⟩
    intro b hb
    simp only [run, List.mem_cons] at hb
    rcases hb with rfl | hb
    · exact h2
    · exact i1 b hb

theorem pure_from_fresh (tbl : List Method) (htbl : tableClean tbl = true) (fuel : Nat)
    (qs : List Nat) : ∀ b ∈ run tbl fuel State.init qs, b = false :=
  (pure_of_clean tbl htbl fuel qs State.init ⟨rfl, rfl, by simp [State.init]⟩).1

/-- bridge from the translator's output to abstract tables: if the effect summaries are
clean, every table whose non-empty edit lists are backed by an unsafe summary is clean -/
theorem tableClean_of_effectsClean (effects : List (String × List Edit))
    (h : effectsClean effects = true) (tbl : List Method)
    (hrep : ∀ m ∈ tbl, m.edits ≠ [] → ∃ e ∈ effects, (e.2.all fun ed => ed.safe) = false) :
    tableClean tbl = true := by
  simp only [tableClean, List.all_eq_true]
  intro m hm
  by_cases he : m.edits = []
  · simp [he]
  · obtain ⟨e, hin, hbad⟩ := hrep m hm he
    simp only [effectsClean, List.all_eq_true] at h
    have h2 := h e hin
    have h3 : (e.2.all fun ed => ed.safe) = true := List.all_eq_true.mpr h2
    rw [hbad] at h3
    exact absurd h3 (by decide)

/-! ### impurity witnesses (what the pinned tree did) -/

/-- method 1 edits the cached result of method 0 in place (like the pinned
`inv_correlation_distance`): `q0; q1; q0` returns a changed value the second time -/
example : run [⟨[], [0], []⟩, ⟨[0], [], [.result 0]⟩] 3 State.init [0, 1, 0] = [false, false, true] := by
  decide
/-- a method normalising a shared field in place poisons every later reader -/
example : run [⟨[], [0], []⟩, ⟨[], [0], [.field 0]⟩] 3 State.init [1, 0] = [false, true] := by
  decide
example : tableClean [⟨[], [0], []⟩, ⟨[0], [], []⟩] = true := by decide


/-! ### restored edits are identities on the array content -/

theorem setMask_setMask_self {α : Type} (flag : α → Bool) (c inf : α) (x : List α)
    (h : ∀ e ∈ x, flag e = true → e = inf) :
    setMask (setMask x (x.map flag) c) (x.map flag) inf = x := by
  induction x with
  | nil => rfl
  | cons a t ih =>
    have iht := ih (fun e he => h e (List.mem_cons_of_mem _ he))
    simp only [setMask, List.map_cons, List.zipWith_cons_cons] at iht ⊢
    rw [iht]
    cases hf : flag a
    · simp
    · simp [h a (List.mem_cons_self) hf]

/-- **form 1** (`average_path_length`): if every flagged entry equals the constant written
back (no `-inf` in the array when the flag is `np.isinf`), edit-then-restore leaves the shared
array exactly as it was, whatever was written in between. -/
theorem editRestoreMask_id {α : Type} (flag : α → Bool) (c inf : α) (x : List α)
    (h : ∀ e ∈ x, flag e = true → e = inf) : editRestoreMask flag c inf x = x :=
  setMask_setMask_self flag c inf x h

/-- with the flag `· == np.inf` no hypothesis on the content is needed -/
theorem editRestoreMask_eq_id {α : Type} [DecidableEq α] (c inf : α) (x : List α) :
    editRestoreMask (fun e => decide (e = inf)) c inf x = x :=
  editRestoreMask_id _ c inf x (by intro e _ he; simpa using he)

/-- the hypothesis of `editRestoreMask_id` is needed: a flagged entry different from the
restore constant (`-inf` under `np.isinf`) is not restored -/
example : editRestoreMask (fun e : Int => e == 7 || e == -7) 0 7 [1, -7, 7] = [1, 7, 7] := by
  decide

theorem fillDiagFrom_fillDiagFrom {α : Type} (a z : α) (i : Nat) (x : List (List α))
    (h : ∀ k (hk : k < x.length), i + k < (x[k]).length → (x[k])[i + k]? = some z) :
    fillDiagFrom z i (fillDiagFrom a i x) = x := by
  induction x generalizing i with
  | nil => rfl
  | cons r t ih =>
    simp only [fillDiagFrom]
    have ht := ih (i + 1) (by
      intro k hk hlen
      have := h (k + 1) (by simp; omega) (by simpa [Nat.add_assoc, Nat.add_comm 1 k] using hlen)
      simpa [Nat.add_assoc, Nat.add_comm 1 k] using this)
    rw [ht]
    congr 1
    by_cases hi : i < r.length
    · have h0 := h 0 (by simp) (by simpa using hi)
      simp only [List.getElem_cons_zero, Nat.add_zero] at h0
      rw [List.set_set]
      apply List.ext_getElem?
      intro j
      by_cases hj : j = i
      · subst hj
        have hz : z = r[j] := by
          rw [List.getElem?_eq_getElem hi] at h0; exact (Option.some.inj h0).symm
        simp [hi, hz]
      · simp [Ne.symm hj]
    · rw [List.set_set, List.set_eq_of_length_le (by omega)]

/-- **form 2** (`global_efficiency`): on a matrix whose diagonal holds the constant written
back (path-length matrices: zero diagonal), fill-then-restore is the identity. -/
theorem editRestoreDiag_id {α : Type} (a z : α) (x : List (List α))
    (h : ∀ k (hk : k < x.length), k < (x[k]).length → (x[k])[k]? = some z) :
    editRestoreDiag a z x = x := by
  unfold editRestoreDiag fillDiag
  exact fillDiagFrom_fillDiagFrom a z 0 x (by simpa using h)

/-- the diagonal hypothesis is needed -/
example : editRestoreDiag (9 : Int) 0 [[5, 1], [1, 0]] = [[0, 1], [1, 0]] := by decide
example : editRestoreDiag (9 : Int) 0 [[0, 1, 2], [1, 0, 3]] = [[0, 1, 2], [1, 0, 3]] := by decide


/-! ### compiled kernels (round 3)

Heap model: objects live at heap locations; locations `0 … n-1` hold everything that is *not*
made by the calling function (cached results, fields of `self`, caller arguments — "shared").
One kernel execution replaces the content of every object bound to a parameter the kernel
writes by an arbitrary new content. -/

/-- **Frame.** Whatever a kernel computes, an object that is not bound to one of its written
parameters keeps its content. -/
theorem kernel_call_frame {α : Type} (bs : List (Bind α)) (h : List α) (l : Nat)
    (hl : ∀ b ∈ bs, b.written = true → b.loc ≠ l) : (applyCall h bs)[l]? = h[l]? :=
  applyCall_frame bs h l hl

/-- **Kernel calls are pure on shared objects.**  If the decidable check `kernelCallsClean`
holds for a kernel table and a call-site table, then every history of executions of those call
sites — with any placement `env` of the argument objects that puts the positively fresh ones
outside the shared region `0 … n-1` (aliasing among shared objects and among parameters is
allowed), and with any kernel computations `out` — leaves every shared object (cached result,
field, caller argument) exactly as it was. -/
theorem kernel_calls_preserve_shared {α : Type} (ks : List (String × List KParam))
    (calls : List KCall) (hc : kernelCallsClean ks calls = true) (n : Nat)
    (steps : List (KCall × (KArg → Nat) × (KArg → α)))
    (hmem : ∀ s ∈ steps, s.1 ∈ calls)
    (hfresh : ∀ s ∈ steps, ∀ a ∈ s.1.args, a.prov = .fresh → n ≤ s.2.1 a)
    (h : List α) : (runSteps ks h steps).take n = h.take n := by
  apply take_eq_of_getElem?
  intro l hl
  unfold runSteps
  induction steps generalizing h with
  | nil => rfl
  | cons s t ih =>
    simp only [List.foldl_cons]
    rw [ih (fun s' hs' => hmem s' (List.mem_cons_of_mem _ hs'))
          (fun s' hs' => hfresh s' (List.mem_cons_of_mem _ hs'))]
    apply applyCall_frame
    intro b hb hw
    have hcs : s.1.args.all (argClean ks s.1.kernel) = true :=
      List.all_eq_true.mp hc s.1 (hmem s (List.mem_cons_self))
    obtain ⟨a, ha, hfr, hloc⟩ := callBinds_written_fresh ks s.1 hcs s.2.1 s.2.2 b hb hw
    have := hfresh s (List.mem_cons_self) a ha hfr
    omega

/-- the hypothesis is needed: a call site that hands a shared object (location 0 < n) to a
written parameter changes it -/
example : runSteps [("k", [⟨"x", true, true, false⟩])] [1, 2]
    [(⟨"s", "k", [⟨"x", .field, "f"⟩]⟩, fun _ => 0, fun _ => 9)] = [9, 2] := by decide
example : kernelCallsClean [("k", [⟨"x", true, true, false⟩])] [⟨"s", "k", [⟨"x", .field, "f"⟩]⟩]
    = false := by decide
/-- … and is satisfiable: the same kernel on a fresh object (location 2 ≥ n = 2) -/
example : runSteps [("k", [⟨"x", true, true, false⟩])] [1, 2, 3]
    [(⟨"s", "k", [⟨"x", .fresh, ""⟩]⟩, fun _ => 2, fun _ => 9)] = [1, 2, 9] := by decide
example : kernelCallsClean [("k", [⟨"x", true, true, false⟩])] [⟨"s", "k", [⟨"x", .fresh, ""⟩]⟩]
    = true := by decide
/-- a kernel or parameter missing from the table counts as written -/
example : kernelCallsClean [] [⟨"s", "k", [⟨"x", .field, "f"⟩]⟩] = false := by decide

/-! ### constructors: caller arguments are preserved (round 3) -/

/-- **Caller-argument preservation.**  An object is built from `n` caller arguments (heap
locations `0 … n-1`); some fields are bound to an argument object itself (`aliases`), all
others to objects of their own.  If no edited field is an alias, then every history of in-place
edits of fields — by the constructor, by mutators, by queries; arbitrary new contents — leaves
every caller argument exactly as it was. -/
theorem ctor_preserves_args {α : Type} (n : Nat) (aliases : List (String × Nat))
    (own : String → Nat) (edits : List (String × α))
    (hed : ∀ e ∈ edits, aliases.lookup e.1 = none) (h : List α) :
    (editFields n aliases own h edits).take n = h.take n :=
  take_eq_of_getElem? _ _ n (fun l hl => editFields_frame n aliases own edits h l hl hed)

/-- bridge from the generated tables: if `ctorAliasesUnedited` holds, an in-place edit recorded
for a class of the family of an alias never names the aliased field -/
theorem unedited_of_ctorAliasesUnedited (al : List CtorAlias) (edits : List (String × String))
    (h : ctorAliasesUnedited al edits = true) (a : CtorAlias) (ha : a ∈ al)
    (e : String × String) (he : e ∈ edits) (hf : e.1 ∈ a.family) : e.2 ≠ a.field := by
  have h1 := List.all_eq_true.mp (List.all_eq_true.mp h a ha) e he
  intro heq
  simp [List.contains_iff_mem, hf, heq] at h1

/-- the hypothesis of `ctor_preserves_args` is needed: editing an aliased field in place edits
the caller's object (the pinned `Surrogates.normalize_original_data`) -/
example : editFields 1 [("original_data", 0)] (fun _ => 0) [10, 20] [("original_data", 99)]
    = [99, 20] := by decide
example : editFields 1 [] (fun _ => 0) [10, 20] [("original_data", 99)] = [10, 99] := by decide
example : ctorAliasesUnedited [⟨"S.__init__", "original_data", "original_data", ["S"]⟩]
    [("S", "original_data")] = false := by decide

/-! ### link-attribute slots written inside queries (round 4)

A value-returning method may store a named link attribute on the object and hand the name to a
generic measure.  The slot is shared state of the object.  `attrTableOK` (decidable, applied to the
table `translate/attrs_C06.py` regenerates for every class): every slot has one generating
expression wherever it is written, every slot a method reads is written or made sure of earlier in
the same method, and nothing is unclassified. -/

/-- **Queries through link-attribute slots do not interfere.**  For a class table passing
`attrTableOK` and an attribute store in which every slot holds a content written by the table and
every executed cached method has left its slots behind (`AInv`; the fresh object satisfies it), every
finite sequence of queries observes, query by query, exactly what that query observes on a fresh
object, and the invariant is kept. -/
theorem attr_queries_pure_from (tbl : List (String × List AStep)) (h : attrTableOK tbl = true)
    (qs : List String) (st : AState) (hinv : AInv (writesOf tbl) (oncesOf tbl) st) :
    arun tbl st qs = qs.map (afresh tbl) ∧ AInv (writesOf tbl) (oncesOf tbl) (afinal tbl st qs) := by
  simp only [attrTableOK, Bool.and_eq_true] at h
  obtain ⟨⟨hW, hO⟩, hcov⟩ := h
  have key : ∀ (q : String) (steps : List AStep), findSteps q tbl = some steps →
      ∀ st', AInv (writesOf tbl) (oncesOf tbl) st' →
      AInv (writesOf tbl) (oncesOf tbl) (execSteps st' steps).1 ∧
      (execSteps st' steps).2 = expectObs (writesOf tbl) steps := by
    intro q steps hf st' hi
    have hm := findSteps_mem hf
    exact execSteps_ok _ _ hW hO steps [] st' hi (by simp)
      (by simpa using List.all_eq_true.mp hcov _ hm)
      (fun a ha p hp => mem_writesOf hm ha hp) (fun a ha o ho => mem_oncesOf hm ha ho)
  induction qs generalizing st with
  | nil => exact ⟨rfl, hinv⟩
  | cons q t ih =>
    simp only [arun, afinal, List.map_cons, afresh]
    cases hf : findSteps q tbl with
    | none =>
      obtain ⟨i1, i2⟩ := ih st hinv
      exact ⟨by simp only [i1], i2⟩
    | some steps =>
      obtain ⟨k1, k2⟩ := key q steps hf st hinv
      obtain ⟨_, f2⟩ := key q steps hf AState.init (AInv_init _ _)
      obtain ⟨i1, i2⟩ := ih _ k1
      exact ⟨by simp only [i1, k2, f2], i2⟩

/-- … in particular from a fresh object: the answer of a query does not depend on which queries
were made before it, and repeating a query returns the same -/
theorem attr_queries_pure (tbl : List (String × List AStep)) (h : attrTableOK tbl = true)
    (qs : List String) : arun tbl AState.init qs = qs.map (afresh tbl) :=
  (attr_queries_pure_from tbl h qs AState.init (AInv_init _ _)).1

/-- after every query sequence every slot holds the one generating expression the table writes
there: the content of a slot does not depend on which query filled it -/
theorem attr_slots_canonical (tbl : List (String × List AStep)) (h : attrTableOK tbl = true)
    (qs : List String) (s : String) (g : Nat)
    (hs : slotGet s (afinal tbl AState.init qs).slots = some g) :
    slotGet s (writesOf tbl) = some g := by
  have hinv := (attr_queries_pure_from tbl h qs AState.init (AInv_init _ _)).2
  simp only [attrTableOK, Bool.and_eq_true] at h
  exact slotGet_of_consistent h.1.1 (hinv.1 s g hs)

/-- **Link-less networks.**  On an object without links no attribute is ever stored (the store
loops over an empty edge sequence), so its table is `linkless tbl` — for *every* class table, clean
or not, every query sequence observes what a fresh object observes (the attribute is missing each
time) and the attribute store stays empty. -/
theorem attr_queries_pure_linkless (tbl : List (String × List AStep)) (qs : List String) :
    arun (linkless tbl) AState.init qs = qs.map (afresh (linkless tbl)) ∧
    afinal (linkless tbl) AState.init qs = AState.init := by
  induction qs with
  | nil => exact ⟨rfl, rfl⟩
  | cons q t ih =>
    simp only [arun, afinal, List.map_cons, afresh]
    cases hf : findSteps q (linkless tbl) with
    | none => exact ⟨by simp only [ih.1], ih.2⟩
    | some steps =>
      have hr : steps.all isRead = true := by
        rw [findSteps_linkless] at hf
        cases h0 : findSteps q tbl with
        | none => simp [h0] at hf
        | some s0 =>
          simp only [h0, Option.map_some, Option.some.injEq] at hf
          subst hf
          simp [List.all_filter]
      have hst := execSteps_reads AState.init steps hr
      simp only [hst]
      exact ⟨by simp only [ih.1], ih.2⟩

/-- the hypothesis is needed — seeded change C06-5: the lag-weighted closeness fills the slot of the
strength-weighted measures from the lags; whichever is asked first decides what the other sees -/
example : arun [("lag_closeness", [.ensure "correlation_strength" 2, .use "correlation_strength"]),
      ("strength_closeness", [.ensure "correlation_strength" 3, .use "correlation_strength"])]
    AState.init ["lag_closeness", "strength_closeness"] = [[some 2], [some 2]] := by decide
example : afresh [("lag_closeness", [.ensure "correlation_strength" 2, .use "correlation_strength"]),
      ("strength_closeness", [.ensure "correlation_strength" 3, .use "correlation_strength"])]
    "strength_closeness" = [some 3] := by decide
example : attrTableOK [("lag_closeness", [.ensure "correlation_strength" 2, .use "correlation_strength"]),
      ("strength_closeness", [.ensure "correlation_strength" 3, .use "correlation_strength"])]
    = false := by decide
/-- a method reading a slot it does not make sure of depends on an earlier query having filled it -/
example : arun [("a", [.store "d" 0]), ("b", [.use "d"])] AState.init ["a", "b"] = [[], [some 0]] ∧
    afresh [("a", [.store "d" 0]), ("b", [.use "d"])] "b" = [none] ∧
    attrTableOK [("a", [.store "d" 0]), ("b", [.use "d"])] = false := by decide
/-- satisfiable, including the cached store (`TsonisClimateNetwork.correlation`): the second and
third query find the attribute left behind by the first -/
example : attrTableOK [("correlation", [.once "correlation" [("correlation", 5)]]),
      ("cw_closeness", [.once "correlation" [("correlation", 5)], .use "correlation"]),
      ("dw_closeness", [.ensure "distance" 0, .use "distance"])] = true ∧
    arun [("correlation", [.once "correlation" [("correlation", 5)]]),
      ("cw_closeness", [.once "correlation" [("correlation", 5)], .use "correlation"]),
      ("dw_closeness", [.ensure "distance" 0, .use "distance"])] AState.init
      ["correlation", "cw_closeness", "dw_closeness", "cw_closeness"]
      = [[], [some 5], [some 0], [some 5]] := by decide

/-! ### inside the method: the window between a temporary edit and its restore (round 5)

`translate/windows_C06.py` turns the statement block around every restored edit of the current
source into `WStep`s; `blockOK` (decidable) demands that while the edit is in place no code able to
reach the object runs, that nothing which can raise or leave runs there unless a `finally` clause
restores on every way out, that the mask is taken from the unedited content and not retaken, and
that the block does not end with the edit in place.  In the semantics every computation and every
call may raise and every exit may be taken (`ch` chooses); only the two stores of the edit forms
and the mask statement are assumed to complete. -/

/-- **A temporary edit is invisible and never left behind.**  For every block passing `blockOK`,
every array operations `ops` whose restore undoes the edit on the content `x` (under the mask of
`x` where the form uses one), every stale value `m0` of the mask variable and every choice `ch` of
the statements that raise and the exits taken: when control leaves the block — by its end, a
`return`, or an exception raised anywhere — the shared array holds exactly `x`, and every piece of
code able to reach the object that ran in between (nested queries, properties, callbacks) saw
exactly `x`, never the temporary content. -/
theorem window_invisible {σ μ : Type} (ops : WOps σ μ) (nm : Bool) (x : σ)
    (hlaw : ∀ m, (nm = true → m = ops.takeMask x) → ops.restore (ops.edit x m) m = x)
    (steps : List WStep) (hc : blockOK nm steps = true) (m0 : μ) (ch : List Bool) :
    (wexec ops (WState.start x m0) steps ch).cur = x ∧
    ∀ o ∈ (wexec ops (WState.start x m0) steps ch).seen, o = x :=
  wexec_inv ops nm x hlaw steps .normal [.closed] [] _ ch hc
    ⟨by simp [WState.start], by simp [WState.start],
     by intro _; exact ⟨rfl, .closed, by simp, rfl⟩⟩

/-- form 1 (`average_path_length`, `closeness`): numpy boolean-mask assignment on the array, under
the content hypothesis of `editRestoreMask_id` (every flagged entry is the constant written back —
no `-inf` under `np.isinf`), for every temporary constant `c` -/
theorem window_mask_invisible {α : Type} (flag : α → Bool) (c inf : α) (x : List α)
    (h : ∀ e ∈ x, flag e = true → e = inf) (steps : List WStep)
    (hc : blockOK true steps = true) (m0 : List Bool) (ch : List Bool) :
    (wexec (maskOps flag c inf) (WState.start x m0) steps ch).cur = x ∧
    ∀ o ∈ (wexec (maskOps flag c inf) (WState.start x m0) steps ch).seen, o = x :=
  window_invisible (maskOps flag c inf) true x
    (by intro m hm; rw [hm rfl]; exact setMask_setMask_self flag c inf x h) steps hc m0 ch

/-- form 2 (`global_efficiency`): `np.fill_diagonal` on a matrix whose diagonal holds the constant
written back -/
theorem window_diag_invisible {α : Type} (a z : α) (x : List (List α))
    (h : ∀ k (hk : k < x.length), k < (x[k]).length → (x[k])[k]? = some z) (steps : List WStep)
    (hc : blockOK false steps = true) (ch : List Bool) :
    (wexec (diagOps a z) (WState.start x ()) steps ch).cur = x ∧
    ∀ o ∈ (wexec (diagOps a z) (WState.start x ()) steps ch).seen, o = x :=
  window_invisible (diagOps a z) false x
    (by intro m _; exact editRestoreDiag_id a z x h) steps hc () ch

/-- **Histories.**  Any sequence of executions of checked blocks on one shared array (the three
path measures in any order, any number of times, each completing, returning or raising anywhere)
ends with the array holding its original content, and nothing able to reach the object ever saw
another. -/
theorem windows_preserve {σ μ : Type} (ops : WOps σ μ) (nm : Bool) (x : σ)
    (hlaw : ∀ m, (nm = true → m = ops.takeMask x) → ops.restore (ops.edit x m) m = x)
    (hist : List (List WStep × μ × List Bool))
    (hc : ∀ h ∈ hist, blockOK nm h.1 = true) :
    (wrunAll ops x hist).1 = x ∧ ∀ o ∈ (wrunAll ops x hist).2, o = x := by
  induction hist with
  | nil => simp [wrunAll]
  | cons h t ih =>
    obtain ⟨h1, h2⟩ := window_invisible ops nm x hlaw h.1 (hc h List.mem_cons_self) h.2.1 h.2.2
    obtain ⟨i1, i2⟩ := ih (fun h' hh => hc h' (List.mem_cons_of_mem _ hh))
    simp only [wrunAll, h1]
    refine ⟨i1, ?_⟩
    intro o ho
    rcases List.mem_append.mp ho with ho | ho
    · exact h2 o ho
    · exact i2 o ho

/-- the check is needed (content `[3, inf]`, `inf` coded `-1`, temporary constant `0`): a nested
query inside the window is answered from the temporary content — protected or not … -/
example : (wexec (maskOps (· == (-1 : Int)) 0 (-1)) (WState.start [3, -1] [])
      [.mask, .edit, .tryB, .call "self.closeness()", .fin, .restore, .tryE] []).seen = [[3, 0]] ∧
    blockOK true [.mask, .edit, .tryB, .call "self.closeness()", .fin, .restore, .tryE] = false := by
  decide
/-- … a computation that raises inside an unprotected window skips the restore (the blocks of
`average_path_length` / `closeness` / `global_efficiency` before `fix:` round 5; numpy error state
`raise`, warnings as errors, KeyboardInterrupt) … -/
example : (wexec (maskOps (· == (-1 : Int)) 0 (-1)) (WState.start [3, -1] [])
      [.mask, .edit, .comp, .restore, .exit "return"] [false, false, true]).cur = [3, 0] ∧
    blockOK true [.mask, .edit, .comp, .restore, .exit "return"] = false := by decide
/-- … a mask retaken from the edited content restores nothing, and so does a stale mask … -/
example : (wexec (maskOps (· == (-1 : Int)) 0 (-1)) (WState.start [3, -1] [])
      [.mask, .edit, .mask, .restore] []).cur = [3, 0] ∧
    blockOK true [.mask, .edit, .mask, .restore] = false ∧
    (wexec (maskOps (· == (-1 : Int)) 0 (-1)) (WState.start [3, -1] [true, false])
      [.edit, .restore] []).cur = [-1, -1] ∧
    blockOK true [.edit, .restore] = false := by decide
/-- … a `finally` clause that can be reached before the mask exists restores with a stale mask -/
example : blockOK true [.tryB, .comp, .mask, .edit, .comp, .fin, .restore, .tryE] = false := by
  decide
/-- satisfiable: the block of `closeness` as it stands (restore in a `finally` clause): with the
computation raising, the restore runs and control leaves; without, the method's own computation
does see the edit -/
example : blockOK true [.comp, .call "self.path_lengths()", .comp, .mask, .edit, .tryB, .comp, .comp,
      .fin, .restore, .tryE, .exit "return"] = true ∧
    (wexec (maskOps (· == (-1 : Int)) 5 (-1)) (WState.start [3, -1] [])
      [.mask, .edit, .tryB, .comp, .comp, .fin, .restore, .tryE, .exit "return"]
      [false, false, false, true]).cur = [3, -1] ∧
    (wexec (maskOps (· == (-1 : Int)) 5 (-1)) (WState.start [3, -1] [])
      [.mask, .edit, .tryB, .comp, .comp, .fin, .restore, .tryE, .exit "return"]
      [false, false, false, true]).left = true ∧
    (wexec (maskOps (· == (-1 : Int)) 5 (-1)) (WState.start [3, -1] [])
      [.mask, .edit, .tryB, .comp, .comp, .fin, .restore, .tryE, .exit "return"] []).own
      = [[3, 5], [3, 5]] := by decide

end Pyunicorn.Pure

namespace Pyunicorn.Generated.StructC06
open Pyunicorn.Pure

/-- every in-place statement of the current source that reaches a cached result, an object
field (outside constructors and documented mutators) or a caller argument is restored
or documented -/
theorem effects_clean : effectsClean effects = true := by decide +kernel

/-- every edit the translator accepted as restored was recognised in one of the two forms that
`editRestoreMask_id` / `editRestoreDiag_id` prove to be identities on the array content -/
theorem restores_are_proved_forms :
    restores.all (fun r => r.2 = .maskInf || r.2 = .diagInfZero) = true := by decide +kernel

/-- every written parameter of every compiled kernel, at every Python call site of the current
source, receives an object made in the calling function (tables regenerated from the `.pyx`,
`.c` and `.py` text on every run) -/
theorem kernel_calls_clean : kernelCallsClean kernels kernelCalls = true := by decide +kernel

/-- … hence, by `kernel_calls_preserve_shared`, no history of kernel executions of the current
source changes a cached result, a field or a caller argument -/
theorem generated_kernel_calls_preserve_shared {α : Type} (n : Nat)
    (steps : List (KCall × (KArg → Nat) × (KArg → α)))
    (hmem : ∀ s ∈ steps, s.1 ∈ kernelCalls)
    (hfresh : ∀ s ∈ steps, ∀ a ∈ s.1.args, a.prov = .fresh → n ≤ s.2.1 a)
    (h : List α) : (runSteps kernels h steps).take n = h.take n :=
  kernel_calls_preserve_shared kernels kernelCalls kernel_calls_clean n steps hmem hfresh h

/-- no field of the current source that is bound to a caller argument itself (no copy) is
edited in place by any method of its class family -/
theorem ctor_aliases_unedited : ctorAliasesUnedited ctorAliases fieldEdits = true := by
  decide +kernel

/-- the link-attribute tables of every class of the current source (regenerated on every run from
the method bodies, helpers inlined) pass the check: one generating expression per slot, every read
preceded by a write in the same method, nothing unclassified -/
theorem attr_tables_ok : attrTables.all (fun c => attrTableOK c.2) = true := by decide +kernel

/-- … hence, by `attr_queries_pure`, on every class of the current source every sequence of the
attribute-setting measures observes what each of them observes on a fresh object -/
theorem generated_attr_queries_pure (c : String × List (String × List AStep))
    (hc : c ∈ attrTables) (qs : List String) :
    arun c.2 AState.init qs = qs.map (afresh c.2) :=
  attr_queries_pure c.2 (List.all_eq_true.mp attr_tables_ok c hc) qs

/-- round 5: in every block of the current source that contains a restored temporary edit, no
code able to reach the object runs while the edit is in place, and every way out — the end, a
`return`, an exception raised by any computation — passes the restore (tables regenerated from
the method bodies on every run) -/
theorem windows_ok : windowsOK windows = true := by decide +kernel

/-- every edit accepted as restored (`restores`, the `safe` entries of `effects`) has its block in
`windows`, under the same form -/
theorem restores_have_windows :
    restores.all (fun r => windows.any fun w => w.site == r.1 && w.form == r.2) = true := by
  decide +kernel

/-- … hence, by `window_mask_invisible`: every execution of a form-1 block of the current source
(`average_path_length`, `closeness`) on a path-length array without `-inf`, leaving in any
way (end, `return`, exception anywhere), puts the cached array back and shows nobody the temporary content -/
theorem generated_mask_windows_invisible {α : Type} (w : Window) (hw : w ∈ windows)
    (hf : w.form = .maskInf) (flag : α → Bool) (c inf : α) (x : List α)
    (h : ∀ e ∈ x, flag e = true → e = inf) (m0 : List Bool) (ch : List Bool) :
    (wexec (maskOps flag c inf) (WState.start x m0) w.steps ch).cur = x ∧
    ∀ o ∈ (wexec (maskOps flag c inf) (WState.start x m0) w.steps ch).seen, o = x := by
  have hok := List.all_eq_true.mp windows_ok w hw
  simp only [windowOK, hf, Restore.needsMask] at hok
  exact window_mask_invisible flag c inf x h w.steps hok m0 ch

/-- … and by `window_diag_invisible` for the form-2 blocks (`global_efficiency`) on a matrix with
zero diagonal -/
theorem generated_diag_windows_invisible {α : Type} (w : Window) (hw : w ∈ windows)
    (hf : w.form = .diagInfZero) (a z : α) (x : List (List α))
    (h : ∀ k (hk : k < x.length), k < (x[k]).length → (x[k])[k]? = some z) (ch : List Bool) :
    (wexec (diagOps a z) (WState.start x ()) w.steps ch).cur = x ∧
    ∀ o ∈ (wexec (diagOps a z) (WState.start x ()) w.steps ch).seen, o = x := by
  have hok := List.all_eq_true.mp windows_ok w hw
  simp only [windowOK, hf, Restore.needsMask] at hok
  exact window_diag_invisible a z x h w.steps hok ch

end Pyunicorn.Generated.StructC06
