import Pyunicorn.Lemmas.Nsi
import Pyunicorn.Model.Equivariance
import Pyunicorn.Lemmas.RelabelNet
import Pyunicorn.Lemmas.RelabelCross
import Pyunicorn.Lemmas.RelabelCircuit
import Pyunicorn.Lemmas.RelabelGeoRec
import Pyunicorn.Lemmas.RelabelR4
import Pyunicorn.Lemmas.RelabelRec4
import Pyunicorn.Lemmas.RelabelAssort
import Pyunicorn.Lemmas.RelabelR5
import Pyunicorn.Lemmas.RelabelRec5
import Pyunicorn.Lemmas.RelabelW5
import Pyunicorn.Lemmas.RelabelBetw5
import Pyunicorn.Lemmas.RelabelBetw5b
import Pyunicorn.Lemmas.RelabelBetw5d
import Mathlib.Algebra.BigOperators.Group.List.Basic
import Mathlib.Data.List.Nodup
/-!
# C04 — Measures do not depend on node numbering

`eval_relabel`: every expression of the language `Pyunicorn.Equiv.E` — built from `A`, `A⁺`,
node weights, pairwise matrices carried with the nodes (link attributes, grid distances,
similarities, resistances), node groups and shortest-path lengths by arithmetic, sums over all
nodes (plain and node-weighted) and maxima — evaluates on `permuted_copy(idx)` at a node tuple
to what it evaluates to on the original network at the renamed tuple, for *every* permutation.

Round 3 (second half of this file, namespace `Pyunicorn.Relabel`): the *models of the other
properties* — the code-level models that C03 / C11 / C18 / C12 / C07 tie to the source by their own
correspondences — commute with renumbering: `net_*` (degrees, motif clustering, matching index,
Laplacian, n.s.i. degree / clustering, the BFS distances, path measures, diameter, coreness by
peeling), `cross_*` (every cross / internal measure with renumbered node-list arguments, the
compiled kernels' loops included), `res_*` (admittance, Laplacian, effective resistance for
whatever generalised inverses are stored, closeness, average, admittive degree / clustering),
`geo_*` (Euclidean / angular grid distances from renumbered coordinates, area-weighted
connectivity, link-distance measures) and `rec_*` (recurrence matrix and recurrence-network
adjacency of reordered state vectors).
-/
namespace Pyunicorn.Equiv
open Pyunicorn.Nsi

/-- sums over all nodes are invariant under a permutation of the summation index -/
theorem sum_relabel (n : Nat) (idx : Nat → Nat)
    (hperm : ((List.range n).map idx).Perm (List.range n)) (F : Nat → Rat) :
    ((List.range n).map fun a => F (idx a)).sum = ((List.range n).map F).sum := by
  have : ((List.range n).map fun a => F (idx a)) = ((List.range n).map idx).map F := by
    simp [List.map_map, Function.comp_def]
  rw [this]
  exact (hperm.map F).sum_eq

theorem max_relabel (n : Nat) (idx : Nat → Nat)
    (hperm : ((List.range n).map idx).Perm (List.range n)) (F : Nat → Rat) :
    maxList ((List.range n).map fun a => F (idx a)) = maxList ((List.range n).map F) := by
  apply maxList_congr
  intro y
  have : ((List.range n).map fun a => F (idx a)) = ((List.range n).map idx).map F := by
    simp [List.map_map, Function.comp_def]
  rw [this]
  exact (hperm.map F).mem_iff

/-- all variables of an expression refer to positions that exist in an environment of
length `len` (free node slots are never read out of range) -/
def closedIn : Nat → E → Bool
  | _, .const _ => true
  | _, .nn => true
  | l, .adj i j => decide (i < l) && decide (j < l)
  | l, .aplus i j => decide (i < l) && decide (j < l)
  | l, .delta i j => decide (i < l) && decide (j < l)
  | l, .w i => decide (i < l)
  | l, .la _ i j => decide (i < l) && decide (j < l)
  | l, .grp _ i => decide (i < l)
  | l, .dist i j => decide (i < l) && decide (j < l)
  | l, .conn i j => decide (i < l) && decide (j < l)
  | l, .invd i j => decide (i < l) && decide (j < l)
  | l, .add a b => closedIn l a && closedIn l b
  | l, .sub a b => closedIn l a && closedIn l b
  | l, .mul a b => closedIn l a && closedIn l b
  | l, .div a b => closedIn l a && closedIn l b
  | l, .max a b => closedIn l a && closedIn l b
  | l, .min a b => closedIn l a && closedIn l b
  | l, .ifpos c a b => closedIn l c && closedIn l a && closedIn l b
  | l, .ifzero c a b => closedIn l c && closedIn l a && closedIn l b
  | l, .usum e => closedIn (l + 1) e
  | l, .wsum e => closedIn (l + 1) e
  | l, .kmax e => closedIn (l + 1) e

theorem var_map_lt (env : List Nat) (idx : Nat → Nat) (i : Nat) (hi : i < env.length) :
    var (env.map idx) i = idx (var env i) := by
  unfold var
  simp [List.getD_eq_getElem?_getD, hi]

theorem idx_inj (n : Nat) (idx : Nat → Nat)
    (hperm : ((List.range n).map idx).Perm (List.range n)) (a b : Nat) (ha : a < n) (hb : b < n)
    (h : idx a = idx b) : a = b := by
  have hnd : ((List.range n).map idx).Nodup := hperm.nodup_iff.mpr List.nodup_range
  exact List.inj_on_of_nodup_map hnd (List.mem_range.mpr ha) (List.mem_range.mpr hb) h

theorem var_lt (env : List Nat) (n i : Nat) (henv : ∀ x ∈ env, x < n) (hi : i < env.length) :
    var env i < n := by
  unfold var
  rw [List.getD_eq_getElem?_getD, List.getElem?_eq_getElem hi]
  exact henv _ (List.getElem_mem hi)

/-- **Relabelling equivariance, generically**: for every network, every permutation `idx` of
its nodes (`permuted_copy` checks `sorted(idx) == arange(N)`), every expression whose variables
are all bound or supplied, and every tuple of nodes of the network:
`eval (permuted_copy idx) env e = eval G (idx ∘ env) e`. -/
theorem eval_relabel (G : Gr) (idx : Nat → Nat)
    (hperm : ((List.range G.n).map idx).Perm (List.range G.n)) (e : E) (env : List Nat)
    (henv : ∀ x ∈ env, x < G.n) (hc : closedIn env.length e = true) :
    eval (relabel G idx) env e = eval G (env.map idx) e := by
  induction e generalizing env with
  | const q => simp [eval]
  | nn => simp [eval, relabel]
  | adj i j =>
    simp only [closedIn, Bool.and_eq_true, decide_eq_true_eq] at hc
    simp only [eval, relabel, var_map_lt _ _ _ hc.1, var_map_lt _ _ _ hc.2]
    rfl
  | aplus i j =>
    simp only [closedIn, Bool.and_eq_true, decide_eq_true_eq] at hc
    simp only [eval, Nsi.aplus, relabel, var_map_lt _ _ _ hc.1, var_map_lt _ _ _ hc.2]
    have hi := var_lt env G.n i henv hc.1
    have hj := var_lt env G.n j henv hc.2
    by_cases h : var env i = var env j
    · simp [h]
    · have h2 : ¬ idx (var env i) = idx (var env j) :=
        fun h2 => h (idx_inj G.n idx hperm _ _ hi hj h2)
      simp [h, h2]
  | delta i j =>
    simp only [closedIn, Bool.and_eq_true, decide_eq_true_eq] at hc
    simp only [eval, var_map_lt _ _ _ hc.1, var_map_lt _ _ _ hc.2]
    have hi := var_lt env G.n i henv hc.1
    have hj := var_lt env G.n j henv hc.2
    by_cases h : var env i = var env j
    · simp [h]
    · have h2 : ¬ idx (var env i) = idx (var env j) :=
        fun h2 => h (idx_inj G.n idx hperm _ _ hi hj h2)
      simp [h, h2]
  | w i =>
    simp only [closedIn, decide_eq_true_eq] at hc
    simp [eval, relabel, var_map_lt _ _ _ hc]
  | la a i j =>
    simp only [closedIn, Bool.and_eq_true, decide_eq_true_eq] at hc
    simp [eval, relabel, var_map_lt _ _ _ hc.1, var_map_lt _ _ _ hc.2]
  | grp g i =>
    simp only [closedIn, decide_eq_true_eq] at hc
    simp only [eval, relabel, var_map_lt _ _ _ hc]
    rfl
  | dist i j =>
    simp only [closedIn, Bool.and_eq_true, decide_eq_true_eq] at hc
    simp [eval, relabel, var_map_lt _ _ _ hc.1, var_map_lt _ _ _ hc.2]
  | conn i j =>
    simp only [closedIn, Bool.and_eq_true, decide_eq_true_eq] at hc
    simp [eval, relabel, var_map_lt _ _ _ hc.1, var_map_lt _ _ _ hc.2]
  | invd i j =>
    simp only [closedIn, Bool.and_eq_true, decide_eq_true_eq] at hc
    simp [eval, relabel, var_map_lt _ _ _ hc.1, var_map_lt _ _ _ hc.2]
  | add a b iha ihb =>
    simp only [closedIn, Bool.and_eq_true] at hc
    simp only [eval, iha env henv hc.1, ihb env henv hc.2]
  | sub a b iha ihb =>
    simp only [closedIn, Bool.and_eq_true] at hc
    simp only [eval, iha env henv hc.1, ihb env henv hc.2]
  | mul a b iha ihb =>
    simp only [closedIn, Bool.and_eq_true] at hc
    simp only [eval, iha env henv hc.1, ihb env henv hc.2]
  | div a b iha ihb =>
    simp only [closedIn, Bool.and_eq_true] at hc
    simp only [eval, iha env henv hc.1, ihb env henv hc.2]
  | max a b iha ihb =>
    simp only [closedIn, Bool.and_eq_true] at hc
    simp only [eval, iha env henv hc.1, ihb env henv hc.2]
  | min a b iha ihb =>
    simp only [closedIn, Bool.and_eq_true] at hc
    simp only [eval, iha env henv hc.1, ihb env henv hc.2]
  | ifpos c a b ihc iha ihb =>
    simp only [closedIn, Bool.and_eq_true] at hc
    simp only [eval, ihc env henv hc.1.1, iha env henv hc.1.2, ihb env henv hc.2]
  | ifzero c a b ihc iha ihb =>
    simp only [closedIn, Bool.and_eq_true] at hc
    simp only [eval, ihc env henv hc.1.1, iha env henv hc.1.2, ihb env henv hc.2]
  | usum e ih =>
    simp only [closedIn] at hc
    simp only [eval]
    have hn : (relabel G idx).n = G.n := rfl
    rw [hn, ← sum_relabel G.n idx hperm (fun k => eval G (k :: env.map idx) e)]
    congr 1
    apply List.map_congr_left
    intro k hk
    have hk' := List.mem_range.mp hk
    rw [ih (k :: env) (by
      intro x hx
      rcases List.mem_cons.mp hx with rfl | hx
      · exact hk'
      · exact henv x hx) (by simpa using hc)]
    simp
  | wsum e ih =>
    simp only [closedIn] at hc
    simp only [eval]
    have hn : (relabel G idx).n = G.n := rfl
    rw [hn, ← sum_relabel G.n idx hperm (fun k => G.w k * eval G (k :: env.map idx) e)]
    congr 1
    apply List.map_congr_left
    intro k hk
    have hk' := List.mem_range.mp hk
    rw [ih (k :: env) (by
      intro x hx
      rcases List.mem_cons.mp hx with rfl | hx
      · exact hk'
      · exact henv x hx) (by simpa using hc)]
    simp [relabel]
  | kmax e ih =>
    simp only [closedIn] at hc
    simp only [eval]
    have hn : (relabel G idx).n = G.n := rfl
    rw [hn, ← max_relabel G.n idx hperm (fun k => eval G (k :: env.map idx) e)]
    congr 1
    apply List.map_congr_left
    intro k hk
    have hk' := List.mem_range.mp hk
    rw [ih (k :: env) (by
      intro x hx
      rcases List.mem_cons.mp hx with rfl | hx
      · exact hk'
      · exact henv x hx) (by simpa using hc)]
    simp

/-- **global measures** do not change under renumbering -/
theorem global_relabel (G : Gr) (idx : Nat → Nat)
    (hperm : ((List.range G.n).map idx).Perm (List.range G.n)) (e : E)
    (hc : closedIn 0 e = true) : eval (relabel G idx) [] e = eval G [] e := by
  simpa using eval_relabel G idx hperm e [] (by simp) (by simpa using hc)

/-- **per-node measures** are permuted accordingly: new node `a` is old node `idx a` -/
theorem local_relabel (G : Gr) (idx : Nat → Nat)
    (hperm : ((List.range G.n).map idx).Perm (List.range G.n)) (e : E)
    (hc : closedIn 1 e = true) (a : Nat) (ha : a < G.n) :
    eval (relabel G idx) [a] e = eval G [idx a] e := by
  simpa using eval_relabel G idx hperm e [a] (by simpa using ha) (by simpa using hc)

/-- **per-pair measures** likewise -/
theorem pair_relabel (G : Gr) (idx : Nat → Nat)
    (hperm : ((List.range G.n).map idx).Perm (List.range G.n)) (e : E)
    (hc : closedIn 2 e = true) (a b : Nat) (ha : a < G.n) (hb : b < G.n) :
    eval (relabel G idx) [a, b] e = eval G [idx a, idx b] e := by
  simpa using eval_relabel G idx hperm e [a, b]
    (by intro x hx; simp at hx; rcases hx with rfl | rfl <;> assumption) (by simpa using hc)

/-- every catalogue entry is closed for its arity … -/
theorem catalogue_closed : M.all.all (fun m => closedIn m.2.1 m.2.2) = true := by decide

/-- … hence equivariant -/
theorem catalogue_relabel (G : Gr) (idx : Nat → Nat)
    (hperm : ((List.range G.n).map idx).Perm (List.range G.n)) :
    ∀ m ∈ M.all, ∀ env : List Nat, env.length = m.2.1 → (∀ x ∈ env, x < G.n) →
      eval (relabel G idx) env m.2.2 = eval G (env.map idx) m.2.2 := by
  intro m hm env hlen henv
  have := catalogue_closed
  rw [List.all_eq_true] at this
  exact eval_relabel G idx hperm m.2.2 env henv (by rw [hlen]; exact this m hm)

/-! ### non-vacuity -/
def exG : Gr :=
  { n := 3, adj := fun i j => (i, j) ∈ [(0, 1), (1, 0), (1, 2), (2, 1)],
    w := fun k => [1, 2, 3].getD k 0, la := fun _ _ _ => 0, grp := fun _ _ => false,
    dist := fun _ _ => none }
def exIdx : Nat → Nat := fun a => [2, 0, 1].getD a a

example : ((List.range exG.n).map exIdx).Perm (List.range exG.n) := by decide
example : eval exG [1] (M.outdeg 0) = 2 ∧ eval (relabel exG exIdx) [2] (M.outdeg 0) = 2 ∧
    eval (relabel exG exIdx) [1] (M.outdeg 0) = 1 := by decide +kernel

end Pyunicorn.Equiv

/-! # Round 3: the code-level models of C03 / C11 / C18 / C12 / C07 commute with renumbering

`IsPerm n idx` is what `permuted_copy` checks (`sorted(idx) == arange(N)`); `mat M idx` is
`M[idx][:, idx]`, `vec w idx` is `w[idx]`, `nodeList n idx d v` is the per-node array `v[idx]`. -/
namespace Pyunicorn.Relabel
open Pyunicorn.Net

variable {n : Nat} {idx : Nat → Nat}

/-- **C03 model, per-node measures**: degrees, bilateral degree, the four motif clustering
coefficients (matrix products `(A·A·A)_ii` … over degrees), Watts–Strogatz clustering, and the
matching index (per pair), evaluated on `permuted_copy(idx)` at node `i`, are the old values at
node `idx i` — for every adjacency matrix (directed or not) and every permutation. -/
theorem net_local_relabel (h : IsPerm n idx) (a : Adj) (directed : Bool) (i : Nat) :
    outdeg n (mat a idx) i = outdeg n a (idx i) ∧ indeg n (mat a idx) i = indeg n a (idx i) ∧
    degree directed n (mat a idx) i = degree directed n a (idx i) ∧
    bildeg n (mat a idx) i = bildeg n a (idx i) ∧
    cycleC n (mat a idx) i = cycleC n a (idx i) ∧ midC n (mat a idx) i = midC n a (idx i) ∧
    inC n (mat a idx) i = inC n a (idx i) ∧ outC n (mat a idx) i = outC n a (idx i) ∧
    Net.localClustering n (mat a idx) i = Net.localClustering n a (idx i) ∧
    ∀ j, matching n (mat a idx) i j = matching n a (idx i) (idx j) := by
  refine ⟨outdeg_relabel h a i, indeg_relabel h a i, degree_relabel h directed a i,
    bildeg_relabel h a i, ?_, ?_, ?_, ?_, ?_, fun j => matching_relabel h a i j⟩ <;>
  simp only [cycleC, midC, inC, outC, Net.localClustering, tCycle_relabel h, tMid_relabel h,
    tIn_relabel h, tOut_relabel h, TCycle_relabel h, TIn_relabel h, TOut_relabel h]

/-- **strengths** with a link attribute renumbered with the nodes -/
theorem net_strength_relabel (h : IsPerm n idx) (w : Nat → Nat → Rat) (i : Nat) :
    outstrength n (mat w idx) i = outstrength n w (idx i) ∧
    instrength n (mat w idx) i = instrength n w (idx i) ∧
    bilstrength n (mat w idx) i = bilstrength n w (idx i) := strength_relabel h w i

/-- **transitivity** (a global measure) is unchanged -/
theorem net_transitivity_relabel (h : IsPerm n idx) (a : Adj) :
    Net.transitivity n (mat a idx) = Net.transitivity n a := by
  unfold Net.transitivity
  have e1 : (sumToI n fun i => TOut n (mat a idx) i) = sumToI n fun i => TOut n a i :=
    sumToI_relabel h _ _ fun i _ => TOut_relabel h a i
  have e2 : (sumTo n fun i => tCycle n (mat a idx) i) = sumTo n fun i => tCycle n a i :=
    sumTo_relabel h _ _ fun i _ => tCycle_relabel h a i
  simp only [e1, e2]

/-- **Laplacian** with the (renumbered) degree vector on the diagonal -/
theorem net_laplacian_relabel (h : IsPerm n idx) (a : Adj) (diag : Nat → Nat) (i j : Nat)
    (hi : i < n) (hj : j < n) :
    Net.laplacian (mat a idx) (vec diag idx) i j = Net.laplacian a diag (idx i) (idx j) :=
  laplacian_relabel h a diag i j hi hj

/-- **n.s.i. degree family and n.s.i. local clustering** with renumbered node weights -/
theorem net_nsi_relabel (h : IsPerm n idx) (directed : Bool) (a : Adj) (w : Nat → Rat) (i : Nat)
    (hi : i < n) :
    nsiOutdeg n (mat a idx) (vec w idx) i = nsiOutdeg n a w (idx i) ∧
    nsiIndeg n (mat a idx) (vec w idx) i = nsiIndeg n a w (idx i) ∧
    nsiDegree directed n (mat a idx) (vec w idx) i = nsiDegree directed n a w (idx i) ∧
    nsiLocalClustering n (mat a idx) (vec w idx) i = nsiLocalClustering n a w (idx i) := by
  refine ⟨nsiOutdeg_relabel h a w i hi, nsiIndeg_relabel h a w i hi, ?_,
    nsiLocalClustering_relabel h a w i hi⟩
  simp only [nsiDegree, nsiOutdeg_relabel h a w i hi, nsiIndeg_relabel h a w i hi]

/-- **BFS** (`path_lengths()`): the frontier search on the renumbered network, which visits the
nodes in a different order, returns `D[idx a, idx b]` (`none` = unreachable) -/
theorem net_dist_relabel (h : IsPerm n idx) (a : Adj) (i j : Nat) (hi : i < n) (hj : j < n) :
    dist n (mat a idx) i j = dist n a (idx i) (idx j) := dist_relabel h a i j hi hj

/-- **path-based measures** of the BFS distances of the renumbered network: global efficiency,
average path length (igraph's convention), diameter are unchanged; closeness and n.s.i.
closeness are permuted -/
theorem net_path_measures_relabel (h : IsPerm n idx) (a : Adj) (w : Nat → Rat) :
    Net.globalEfficiency n (dist n (mat a idx)) = Net.globalEfficiency n (dist n a) ∧
    efficiencyDef n (dist n (mat a idx)) = efficiencyDef n (dist n a) ∧
    avgPathLengthU n (dist n (mat a idx)) = avgPathLengthU n (dist n a) ∧
    diameter n (dist n (mat a idx)) = diameter n (dist n a) ∧
    (∀ i, i < n → closeness n (dist n (mat a idx)) i = closeness n (dist n a) (idx i)) ∧
    (∀ i, i < n → nsiCloseness n (dist n (mat a idx)) (vec w idx) i
        = nsiCloseness n (dist n a) w (idx i)) :=
  have hd := dist_renumbered h a
  ⟨globalEfficiency_relabel h _ _ hd, efficiencyDef_relabel h _ _ hd,
   avgPathLengthU_relabel h _ _ hd, diameter_relabel h _ _ hd,
   fun i hi => closeness_relabel h _ _ hd i hi, fun i hi => nsiCloseness_relabel h _ _ hd w i hi⟩

/-- the same for **link-weighted path lengths**: any pairwise distance matrix `d'` of the
renumbered network that is the old one read at the old numbers (`Renumbered`) -/
theorem net_weighted_path_measures_relabel (h : IsPerm n idx) (d d' : Nat → Nat → Option Rat)
    (hd : Renumbered n idx d d') :
    avgPathLength n d' = avgPathLength n d ∧
    ∀ i, i < n → closenessW n d' i = closenessW n d (idx i) :=
  ⟨avgPathLength_relabel h d d' hd, fun i hi => closenessW_relabel h d d' hd i hi⟩

/-- **coreness**: the peeling loops (`peel`, `coreLoop`: remove nodes of alive-degree `< k` until
stable, for `k = 1, 2, …`) run on the renumbered network return the renumbered coreness array -/
theorem net_coreness_relabel (h : IsPerm n idx) (a : Adj) (directed : Bool) :
    coreness n (mat a idx) directed = nodeList n idx 0 (coreness n a directed) :=
  coreness_relabel h a directed

/-- entry form of `net_coreness_relabel` -/
theorem net_coreness_entry (h : IsPerm n idx) (a : Adj) (directed : Bool) (v : Nat) (hv : v < n) :
    (coreness n (mat a idx) directed).getD v 0 = (coreness n a directed).getD (idx v) 0 := by
  rw [coreness_relabel h a directed, nodeList_getD n idx 0 _ v hv]

/-- **assortativity** (round 4; was oracle-only): the Python loop over `graph.get_edgelist()` with
its three accumulators and both `ZeroDivisionError` branches returns the same value (or raises
alike) on the renumbered network, although its edge list holds the links in another order and — on
undirected networks (symmetric adjacency matrix) — in other orientations.  `sum_edgeList_relabel`:
every sum of a symmetric summand over the edge list is numbering independent. -/
theorem net_assortativity_relabel (h : IsPerm n idx) (directed : Bool) (a : Adj)
    (hsym : directed = false → ∀ i j, a i j = a j i) :
    assortativity directed n (mat a idx) = assortativity directed n a ∧
    (edgeList directed n (mat a idx)).length = (edgeList directed n a).length := by
  refine ⟨assortativity_relabel h directed a hsym, ?_⟩
  have := sum_edgeList_relabel h directed a hsym (fun _ _ => 1) (fun _ _ => 1) (fun _ _ => rfl)
    (fun _ _ _ _ => rfl)
  rw [sum_ones, sum_ones] at this
  exact_mod_cast this

/-- **local vulnerability** (round 5; was oracle-only): `local_vulnerability()` builds, for every
node `i`, the graph `self.graph - i` — igraph deletes the vertex and *renumbers the later ones by
shifting them down* (`removeNode`) — runs the BFS on it and returns `(E − E_i)/E`.  Removing new
node `i` from the renumbered network and old node `idx i` from the original gives two networks on
`n − 1` nodes that are renumberings of each other by the conjugated permutation
`removedPerm idx i = down (idx i) ∘ idx ∘ up i` (a permutation of `0..n-2`); hence the BFS distances
of the reduced networks correspond, their efficiencies are equal, and the vulnerability of new node
`i` is that of old node `idx i` — including the `nan` case `E = 0`. -/
theorem net_vulnerability_relabel (h : IsPerm n idx) (a : Adj) (i : Nat) (hi : i < n) :
    IsPerm (n - 1) (removedPerm idx i) ∧
    (∀ x y, x < n - 1 → y < n - 1 →
      removeNode (mat a idx) i x y = removeNode a (idx i) (removedPerm idx i x) (removedPerm idx i y)) ∧
    (∀ x y, x < n - 1 → y < n - 1 →
      dist (n - 1) (removeNode (mat a idx) i) x y
        = dist (n - 1) (removeNode a (idx i)) (removedPerm idx i x) (removedPerm idx i y)) ∧
    globalEfficiency (n - 1) (dist (n - 1) (removeNode (mat a idx) i))
      = globalEfficiency (n - 1) (dist (n - 1) (removeNode a (idx i))) ∧
    localVulnerability n (mat a idx) i = localVulnerability n a (idx i) :=
  ⟨removedPerm_isPerm h hi, fun _ _ hx hy => removeNode_relabel h a hi hx hy,
    dist_removeNode_renumbered h a hi, efficiency_removeNode_relabel h a hi,
    localVulnerability_relabel h a hi⟩

/-- **cliquishness kernels** (round 5; was oracle-only): `_local_cliquishness_4thorder` /
`_5thorder` (C03's `cliqLoop`: one neighbour buffer for all nodes, filled in index order, the slots
beyond the current degree keeping what earlier nodes left there; three / four nested loops over the
buffer) called as `local_cliquishness(order)` does — `degree` = the row sums of `A` — return on the
renumbered network the renumbered array: the buffer of new node `i` holds the neighbours of old
node `idx i` in another order (`nbrs_relabel_perm`), the nested counts do not depend on that order
(`counter4_perm`, `counter5_perm`), and the stale slots are never read. -/
theorem net_cliquishness_relabel (h : IsPerm n idx) (order : Nat) (a : Adj) :
    cliquishness order n (mat a idx) (outdeg n (mat a idx))
      = nodeList n idx 0 (cliquishness order n a (outdeg n a)) ∧
    ∀ v, v < n → (cliquishness order n (mat a idx) (outdeg n (mat a idx))).getD v 0
      = (cliquishness order n a (outdeg n a)).getD (idx v) 0 := by
  refine ⟨cliquishness_relabel h order a, fun v hv => ?_⟩
  rw [cliquishness_relabel h order a, nodeList_getD n idx 0 _ v hv]

/-- **link-weighted clustering** (round 5; the `key=` code path of `_motif_clustering_helper` and the
static `weighted_local_clustering` were oracle / catalogue only): with the link attribute renumbered
with the nodes (`M[idx][:, idx]`, `M` = the matrix of cubic roots), the four `key=` motif clustering
coefficients — numerator `t_func(M, Mᵀ).diagonal()` (sparse matrix products), denominator from the
degrees of the *adjacency* matrix, `0` where it vanishes — and `weighted_local_clustering`
(`(wA³)_ii / (wA · max(wA) · wA)_ii`, `none` = `nan`) at new node `i` are the old values at `idx i`.
`wA.max()` is modelled as the code of C03's model computes it, a nested running maximum started at
entry `[0, 0]` — a *different* entry of the old matrix after renumbering; it is the same number
because it is an upper bound that is attained (`wMax_spec`). -/
theorem net_weighted_clustering_relabel (h : IsPerm n idx) (a : Adj) (m w : RMat) (i : Nat)
    (hi : i < n) :
    cycleCW n (mat a idx) (mat m idx) i = cycleCW n a m (idx i) ∧
    midCW n (mat a idx) (mat m idx) i = midCW n a m (idx i) ∧
    inCW n (mat a idx) (mat m idx) i = inCW n a m (idx i) ∧
    outCW n (mat a idx) (mat m idx) i = outCW n a m (idx i) ∧
    wMax n (mat w idx) = wMax n w ∧
    weightedLocalClustering n (mat w idx) i = weightedLocalClustering n w (idx i) :=
  have mo := motifW_relabel h a m i
  ⟨mo.1, mo.2.1, mo.2.2.1, mo.2.2.2, wMax_relabel h w (by omega),
    weightedLocalClustering_relabel h w i hi⟩

/-- **shortest-path / interregional / n.s.i. betweenness, definition level** (round 5): C03's
definition `nsiBetweennessDef` — weighted numbers of shortest paths `σ_js`, `σ_js(v)` by recursion
over the last link and the distance levels, pair dependencies `σ_js(v)/σ_js`, sums over the sources
`s ≠ v` reachable from target `j` and over the target list, division by `w_v` — for *any* pairwise
distance function carried with the nodes (`Renumbered`; in particular the BFS distances,
`net_dist_relabel`): with node weights `w[idx]`, source mask `isSrc[idx]` and the target list
renumbered through the inverse permutation (list positions kept), the value at new node `v` is the
old value at `idx v`.  Before, this was a theorem only in the expression language with a carried
path-count matrix σ; here σ is computed by the model. -/
theorem net_betweenness_def_relabel (h : IsPerm n idx) (a : Adj) (w : Nat → Rat)
    (d d' : NetBetw.DistFn) (hd : Renumbered n idx d d') (isSrc : List Bool) (targets : List Nat)
    (ht : ∀ k ∈ targets, k < n) :
    (∀ j l, j < n → l < n →
      NetBetw.sigma n (mat a idx) (vec w idx) d' j l = NetBetw.sigma n a w d (idx j) (idx l)) ∧
    (∀ j v s, j < n → v < n → s < n →
      NetBetw.pairDep n (mat a idx) (vec w idx) d' j v s
        = NetBetw.pairDep n a w d (idx j) (idx v) (idx s)) ∧
    NetBetw.nsiBetweennessDef n (mat a idx) (vec w idx) d' (nodeList n idx false isSrc)
        (nodes n idx targets)
      = nodeList n idx 0 (NetBetw.nsiBetweennessDef n a w d isSrc targets) :=
  ⟨fun j l hj hl => sigma_relabel h a w d d' hd j l hj hl,
   fun j v s hj hv hs => pairDep_relabel h a w d d' hd j v s hj hv hs,
   nsiBetweennessDef_relabel h a w d d' hd isSrc targets ht⟩

/-- **partial.**  Full statement: for every undirected simple network, positive node weights,
source mask and target list, C03's kernel model of `_nsi_betweenness` (`NetBetw.nsiBetweenness`:
flattened neighbour lists, Brandes-type forward sweep with a queue in discovery order, backward sweep
over the reversed queue, accumulation over the targets in list order, division by `w`) run on the
renumbered network with `w[idx]`, `isSrc[idx]` and the renumbered target list returns the renumbered
array.  Proved here: this follows for every input on which C03's own open obligation holds for both
numberings — `sweepDiff = contribDef`, i.e. the two sweeps for one target compute that target's
contribution to the definition (hypothesis of C03's `nsiBetweenness_eq_def_partial`; the assembly
over targets and the wrapper are proved there for all inputs).  Missing: that obligation itself; the
sweeps visit the nodes in an order that depends on the numbering, so a direct proof needs the
order-independence of the queue discipline.  The hypotheses are checked on every generated case by
the `betw` correspondence (kernel model == definition == implementation on both numberings).

**Round 5b: the full statement is now proved as `net_betweenness_kernel_relabel` below** — C03 has
discharged the obligation (`NetBetw.sweepDiff_eq_contribDef`, for every undirected network, positive
node weights and targets `< N`).  This theorem is kept under its old name: it is the step that needs
nothing about the network beyond the two hypotheses. -/
theorem net_betweenness_kernel_relabel_partial (h : IsPerm n idx) (a : Adj) (w : Nat → Rat)
    (isSrc : List Bool) (targets : List Nat) (ht : ∀ k ∈ targets, k < n)
    (hk : ∀ j, j ∈ targets → ∀ l, l < n →
      NetBetw.sweepDiff n a w isSrc j l = NetBetw.contribDef n a w (dist n a) isSrc j l)
    (hk' : ∀ j, j ∈ nodes n idx targets → ∀ l, l < n →
      NetBetw.sweepDiff n (mat a idx) (vec w idx) (nodeList n idx false isSrc) j l
        = NetBetw.contribDef n (mat a idx) (vec w idx) (dist n (mat a idx))
            (nodeList n idx false isSrc) j l) :
    NetBetw.nsiBetweenness n (mat a idx) (vec w idx) (nodeList n idx false isSrc)
        (nodes n idx targets)
      = nodeList n idx 0 (NetBetw.nsiBetweenness n a w isSrc targets) :=
  nsiBetweenness_relabel_of_sweeps h a w isSrc targets ht hk hk'

/-- **shortest-path / interregional / n.s.i. betweenness, the compiled kernel — full statement**
(round 5b; was `net_betweenness_kernel_relabel_partial`).  For **every** undirected network
(symmetric `A`), positive node weights, every source mask and every target list with entries `< N` —
the three things the real code enforces (`Network` symmetrises undirected input, node weights are
positive by contract, `targets` index an array of length `N`) — C03's kernel model of
`_nsi_betweenness` (`NetBetw.nsiBetweenness`: flattened neighbour lists, Brandes-type forward sweep
with a queue in discovery order — an order that depends on the numbering —, backward sweep over the
reversed queue, accumulation over the targets in list order, division by `w`) run on the renumbered
network with `w[idx]`, `isSrc[idx]` and the target list renumbered through the inverse permutation
returns the renumbered array; entry `v` of the new result is entry `idx v` of the old one; and on the
renumbered input the kernel still computes the definition.  No per-case hypothesis: `sweepDiff =
contribDef` is C03's `NetBetw.sweepDiff_eq_contribDef`, applied to both numberings (the renumbered
network is again symmetric, the renumbered weights positive, the renumbered targets `< N`). -/
theorem net_betweenness_kernel_relabel (h : IsPerm n idx) (a : Adj) (hsym : ∀ x y, a x y = a y x)
    (w : Nat → Rat) (hw : ∀ v, v < n → 0 < w v) (isSrc : List Bool) (targets : List Nat)
    (ht : ∀ k ∈ targets, k < n) :
    NetBetw.nsiBetweenness n (mat a idx) (vec w idx) (nodeList n idx false isSrc)
        (nodes n idx targets)
      = nodeList n idx 0 (NetBetw.nsiBetweenness n a w isSrc targets) ∧
    (∀ v, v < n →
      (NetBetw.nsiBetweenness n (mat a idx) (vec w idx) (nodeList n idx false isSrc)
          (nodes n idx targets)).getD v 0
        = (NetBetw.nsiBetweenness n a w isSrc targets).getD (idx v) 0) ∧
    NetBetw.nsiBetweenness n (mat a idx) (vec w idx) (nodeList n idx false isSrc)
        (nodes n idx targets)
      = NetBetw.nsiBetweennessDef n (mat a idx) (vec w idx) (dist n (mat a idx))
          (nodeList n idx false isSrc) (nodes n idx targets) := by
  refine ⟨nsiBetweenness_relabel h a hsym w hw isSrc targets ht, fun v hv => ?_,
    NetBetw.nsiBetweenness_eq_def_full n (mat a idx) (mat_symm a hsym idx) (vec w idx)
      (vec_pos h w hw) _ _ (nodes_lt h targets ht)⟩
  rw [nsiBetweenness_relabel h a hsym w hw isSrc targets ht, nodeList_getD n idx 0 _ v hv]

/-- **the kernel does not depend on the order of the target list** (round 5b): the loop
`for j in targets` accumulates into `betweenness_times_w` in list order; for every undirected network
with positive node weights two target lists that are rearrangements of each other give the same
array.  This is what makes the *default* `targets=None` numbering independent: the renumbered network
is called with `np.arange(N)` again, which is not the old default renumbered but a rearrangement of it
(`nodes_range_perm`). -/
theorem net_betweenness_target_order (a : Adj) (hsym : ∀ x y, a x y = a y x) (w : Nat → Rat)
    (hw : ∀ v, v < n → 0 < w v) (isSrc : List Bool) (T T' : List Nat) (hp : T.Perm T')
    (hT : ∀ k ∈ T, k < n) :
    NetBetw.nsiBetweenness n a w isSrc T = NetBetw.nsiBetweenness n a w isSrc T' :=
  nsiBetweenness_targets_perm a hsym w hw isSrc hp hT

/-- **the public methods `Network.nsi_betweenness(sources, targets, nsi)` and
`interregional_betweenness(sources, targets)`** (round 5b; C03's `apiBetweenness`: source mask
`is_source[sources] = 1` or all ones for `sources=None`, `targets=None` → `np.arange(N)`, unit
weights for `nsi=False`, then the kernel): on the renumbered undirected network with node weights
`w[idx]`, called with the node lists renumbered through the inverse permutation — or with the
defaults, `Option.map` leaves `none` alone — they return the renumbered array.
`interregional_betweenness` needs no hypothesis on the node weights (it replaces them by ones). -/
theorem net_betweenness_api_relabel (h : IsPerm n idx) (a : Adj) (hsym : ∀ x y, a x y = a y x)
    (nodeW : Nat → Rat) (S T : Option (List Nat))
    (hS : ∀ L, S = some L → ∀ s ∈ L, s < n) (hT : ∀ L, T = some L → ∀ t ∈ L, t < n) :
    (∀ nsi : Bool, (∀ v, v < n → 0 < nodeW v) →
      NetBetw.apiBetweenness n (mat a idx) (vec nodeW idx) (S.map (nodes n idx))
          (T.map (nodes n idx)) nsi
        = nodeList n idx 0 (NetBetw.apiBetweenness n a nodeW S T nsi)) ∧
    NetBetw.interregionalBetweenness n (mat a idx) (vec nodeW idx) (S.map (nodes n idx))
        (T.map (nodes n idx))
      = nodeList n idx 0 (NetBetw.interregionalBetweenness n a nodeW S T) ∧
    NetBetw.srcMaskOf n (S.map (nodes n idx)) = nodeList n idx false (NetBetw.srcMaskOf n S) := by
  refine ⟨fun nsi hw => apiBetweenness_relabel h a hsym nodeW hw S T hS hT nsi, ?_,
    srcMaskOf_relabel h S hS⟩
  exact apiBetweenness_relabel h a hsym (fun _ => 1) (fun _ _ => by decide) S T hS hT false

/-! ## C11 model: cross / internal measures, node lists renumbered with the network -/
open Pyunicorn.Cross

/-- `idx (inv k) = k`: the renumbered node lists name the same nodes -/
theorem nodes_spec (h : IsPerm n idx) (L : List Nat) (hL : ∀ k ∈ L, k < n) :
    (nodes n idx L).map idx = L ∧ ∀ k ∈ nodes n idx L, k < n :=
  ⟨nodes_map_idx h L hL, nodes_lt h L hL⟩

/-- **cross / internal degree and link measures**: `cross_degree`, `cross_indegree`,
`cross_outdegree`, strengths, `number_cross_links`, `cross_link_density`, `internal_adjacency`,
`number_internal_links`, `internal_link_density`, `cross_degree_density`, `total_cross_degree` of
the renumbered network with the renumbered lists equal the old results (results are indexed by
list position, which is kept). -/
theorem cross_links_relabel (h : IsPerm n idx) (directed : Bool) (A : Cross.Adj)
    (W : Nat → Nat → Rat) (L1 L2 : List Nat) (h1 : ∀ k ∈ L1, k < n) (h2 : ∀ k ∈ L2, k < n) :
    let P1 := nodes n idx L1; let P2 := nodes n idx L2
    crossDegree directed (mat A idx) P1 P2 = crossDegree directed A L1 L2 ∧
    crossOutDegree (mat A idx) P1 P2 = crossOutDegree A L1 L2 ∧
    crossInDegree (mat A idx) P1 P2 = crossInDegree A L1 L2 ∧
    crossStrength directed (mat W idx) P1 P2 = crossStrength directed W L1 L2 ∧
    numberCrossLinks (mat A idx) P1 P2 = numberCrossLinks A L1 L2 ∧
    crossLinkDensity (mat A idx) P1 P2 = crossLinkDensity A L1 L2 ∧
    internalAdjacency (mat A idx) P1 = internalAdjacency A L1 ∧
    numberInternalLinks directed (mat A idx) P1 = numberInternalLinks directed A L1 ∧
    internalLinkDensity directed (mat A idx) P1 = internalLinkDensity directed A L1 ∧
    crossDegreeDensity directed (mat A idx) P1 P2 = crossDegreeDensity directed A L1 L2 ∧
    totalCrossDegree directed (mat A idx) P1 P2 = totalCrossDegree directed A L1 L2 := by
  intro P1 P2
  have e1 : P1.map idx = L1 := nodes_map_idx h L1 h1
  have e2 : P2.map idx = L2 := nodes_map_idx h L2 h2
  simp only [crossDegree_nat, crossOutDegree_nat, crossInDegree_nat, crossStrength_nat,
    numberCrossLinks_nat, crossLinkDensity_nat, internalAdjacency_nat, numberInternalLinks_nat,
    internalLinkDensity_nat, crossDegreeDensity_nat, totalCrossDegree_nat, e1, e2, and_self]

/-- **the compiled kernels** `_cross_transitivity`, `_cross_local_clustering` (loops
`for j in range(n): for k in range(j)` over the node lists) and the methods around them -/
theorem cross_clustering_relabel (h : IsPerm n idx) (directed : Bool) (A : Cross.Adj)
    (L1 L2 : List Nat) (h1 : ∀ k ∈ L1, k < n) (h2 : ∀ k ∈ L2, k < n) :
    let P1 := nodes n idx L1; let P2 := nodes n idx L2
    ctCounts (mat A idx) P1 P2 = ctCounts A L1 L2 ∧
    crossTransitivity (mat A idx) P1 P2 = crossTransitivity A L1 L2 ∧
    crossLocalClustering directed (mat A idx) P1 P2 = crossLocalClustering directed A L1 L2 ∧
    crossGlobalClustering directed (mat A idx) P1 P2 = crossGlobalClustering directed A L1 L2 ∧
    internalGlobalClustering n (mat A idx) P1 = internalGlobalClustering n A L1 := by
  intro P1 P2
  have e1 : P1.map idx = L1 := nodes_map_idx h L1 h1
  have e2 : P2.map idx = L2 := nodes_map_idx h L2 h2
  refine ⟨?_, ?_, ?_, ?_, internalGlobalClustering_relabel h A L1 h1⟩ <;>
  simp only [ctCounts_nat, crossTransitivity_nat, crossLocalClustering_nat,
    crossGlobalClustering_nat, e1, e2]

/-- **the `_sparse` twins** `cross_transitivity_sparse`, `cross_local_clustering_sparse`,
`cross_global_clustering_sparse` (Python triple loops over *positions* of the concatenated list
`node_list1 + node_list2`, gated by the cross degree at the position — the two sites seeded change
C04-2 set against each other): on the renumbered network with the renumbered lists they return the
old results (round 4; C11's `ctSparse_eq_dense` / `clcSparse_eq_dense` relate them to the compiled
kernels, this is their equivariance in its own right) -/
theorem cross_sparse_relabel (h : IsPerm n idx) (directed : Bool) (A : Cross.Adj)
    (L1 L2 : List Nat) (h1 : ∀ k ∈ L1, k < n) (h2 : ∀ k ∈ L2, k < n) :
    let P1 := nodes n idx L1; let P2 := nodes n idx L2
    ctSparseCounts (crossDegree directed (mat A idx) P1 P2) (mat A idx) P1 P2
      = ctSparseCounts (crossDegree directed A L1 L2) A L1 L2 ∧
    crossTransitivitySparse directed (mat A idx) P1 P2 = crossTransitivitySparse directed A L1 L2 ∧
    clcSparse directed (mat A idx) P1 P2 = clcSparse directed A L1 L2 ∧
    crossGlobalClusteringSparse directed (mat A idx) P1 P2
      = crossGlobalClusteringSparse directed A L1 L2 := by
  intro P1 P2
  have e1 : P1.map idx = L1 := nodes_map_idx h L1 h1
  have e2 : P2.map idx = L2 := nodes_map_idx h L2 h2
  simp only [ctSparseCounts_nat, crossDegree_nat, crossTransitivitySparse_nat, clcSparse_nat,
    crossGlobalClusteringSparse_nat, e1, e2, and_self]

/-- **path-length based cross / internal measures** of a distance matrix carried with the nodes
(`cross_average_path_length`, `internal_average_path_length`, `cross_closeness`,
`internal_closeness`, `average_cross_closeness`, `local_efficiency`, `global_efficiency`) -/
theorem cross_paths_relabel (h : IsPerm n idx) (N : Nat) (D : Cross.Dist) (L1 L2 : List Nat)
    (h1 : ∀ k ∈ L1, k < n) (h2 : ∀ k ∈ L2, k < n) :
    let P1 := nodes n idx L1; let P2 := nodes n idx L2
    crossAPL (mat D idx) P1 P2 = crossAPL D L1 L2 ∧
    internalAPL (mat D idx) P1 = internalAPL D L1 ∧
    crossCloseness N (mat D idx) P1 P2 = crossCloseness N D L1 L2 ∧
    internalCloseness (mat D idx) P1 = internalCloseness D L1 ∧
    averageCrossCloseness N (mat D idx) P1 P2 = averageCrossCloseness N D L1 L2 ∧
    localEfficiency (mat D idx) P1 P2 = localEfficiency D L1 L2 ∧
    Cross.globalEfficiency (mat D idx) P1 P2 = Cross.globalEfficiency D L1 L2 := by
  intro P1 P2
  have e1 : P1.map idx = L1 := nodes_map_idx h L1 h1
  have e2 : P2.map idx = L2 := nodes_map_idx h L2 h2
  simp only [crossAPL_nat, internalAPL_nat, crossCloseness_nat, internalCloseness_nat,
    averageCrossCloseness_nat, localEfficiency_nat, globalEfficiency_x_nat, e1, e2, and_self]

/-- **n.s.i. cross measures** (kernels `_nsi_cross_transitivity`, `_nsi_cross_local_clustering`
included) with renumbered node weights.  `A⁺ = A + 1` compares node numbers, so the renumbering
is taken as a bijection of all numbers that permutes `0..n-1` (e.g. the identity beyond `n`, as
the driver's `fun a => perm.getD a a`). -/
theorem cross_nsi_relabel (h : IsPerm n idx) (hinj : Function.Injective idx) (N : Nat)
    (A : Cross.Adj) (D : Cross.Dist) (w : Nat → Rat) (L1 L2 : List Nat)
    (h1 : ∀ k ∈ L1, k < n) (h2 : ∀ k ∈ L2, k < n) :
    let P1 := nodes n idx L1; let P2 := nodes n idx L2
    nsiCrossDegree (mat A idx) (vec w idx) P1 P2 = nsiCrossDegree A w L1 L2 ∧
    nsiCrossMeanDegree (mat A idx) (vec w idx) P1 P2 = nsiCrossMeanDegree A w L1 L2 ∧
    nsiCrossEdgeDensity (mat A idx) (vec w idx) P1 P2 = nsiCrossEdgeDensity A w L1 L2 ∧
    nsiCrossLocalClustering (mat A idx) (vec w idx) P1 P2 = nsiCrossLocalClustering A w L1 L2 ∧
    nsiCrossGlobalClustering (mat A idx) (vec w idx) P1 P2 = nsiCrossGlobalClustering A w L1 L2 ∧
    nsiCrossTransitivity (mat A idx) (vec w idx) P1 P2 = nsiCrossTransitivity A w L1 L2 ∧
    nsiCrossCloseness N (mat D idx) (vec w idx) P1 P2 = nsiCrossCloseness N D w L1 L2 ∧
    nsiCrossAPL N (mat D idx) (vec w idx) P1 P2 = nsiCrossAPL N D w L1 L2 := by
  intro P1 P2
  have e1 : P1.map idx = L1 := nodes_map_idx h L1 h1
  have e2 : P2.map idx = L2 := nodes_map_idx h L2 h2
  simp only [nsiCrossDegree_nat hinj, nsiCrossMeanDegree_nat hinj, nsiCrossEdgeDensity_nat hinj,
    nsiCrossLocalClustering_nat hinj, nsiCrossGlobalClustering_nat hinj,
    nsiCrossTransitivity_nat hinj, nsiCrossCloseness_nat hinj, nsiCrossAPL_nat hinj, e1, e2,
    and_self]

/-- **`InteractingNetworks.cross_betweenness(node_list1, node_list2)`** (round 5d; C11's wrapper
model `Cross.crossBetweenness`: source mask by one store per listed source, `is_source[sources] = 1`
— `Cross.srcMask`, a `foldl` of `set`s —, unit weights, the targets in the caller's order, then C03's
kernel model of `_nsi_betweenness`): for every undirected network and every two node lists with
entries `< N`, the renumbered network called with both lists renumbered through the inverse
permutation returns the renumbered per-node array; entry `v` of the new result is entry `idx v` of
the old one; and the source mask stored for the renumbered list is the renumbered mask.  Through
C11's bridge (the wrapper is C03's `interregionalBetweenness` with explicit lists) and
`net_betweenness_api_relabel`. -/
theorem cross_betweenness_relabel (h : IsPerm n idx) (a : Net.Adj) (hsym : ∀ x y, a x y = a y x)
    (L1 L2 : List Nat) (h1 : ∀ k ∈ L1, k < n) (h2 : ∀ k ∈ L2, k < n) :
    crossBetweenness n (mat a idx) (nodes n idx L1) (nodes n idx L2)
      = nodeList n idx 0 (crossBetweenness n a L1 L2) ∧
    (∀ v, v < n →
      (crossBetweenness n (mat a idx) (nodes n idx L1) (nodes n idx L2)).getD v 0
        = (crossBetweenness n a L1 L2).getD (idx v) 0) ∧
    srcMask n (nodes n idx L1) = nodeList n idx false (srcMask n L1) ∧
    crossBetweenness n a L1 L2
      = NetBetw.interregionalBetweenness n a (fun _ => 1) (some L1) (some L2) := by
  refine ⟨crossBetweenness_relabel h a hsym L1 L2 h1 h2, fun v hv => ?_,
    crossSrcMask_relabel h L1 h1, (crossDelegates_eq_api n a (fun _ => 1) L1 L2).1⟩
  rw [crossBetweenness_relabel h a hsym L1 L2 h1 h2, nodeList_getD n idx 0 _ v hv]

/-- **`InteractingNetworks.internal_betweenness(node_list)`** (round 5d; C11's
`Cross.internalBetweenness` = `cross_betweenness(L, L)`: the same list as sources and as targets):
the renumbered network called with the renumbered list returns the renumbered array, for every
undirected network. -/
theorem cross_internal_betweenness_relabel (h : IsPerm n idx) (a : Net.Adj)
    (hsym : ∀ x y, a x y = a y x) (L : List Nat) (hL : ∀ k ∈ L, k < n) :
    internalBetweenness n (mat a idx) (nodes n idx L)
      = nodeList n idx 0 (internalBetweenness n a L) ∧
    (∀ v, v < n →
      (internalBetweenness n (mat a idx) (nodes n idx L)).getD v 0
        = (internalBetweenness n a L).getD (idx v) 0) := by
  refine ⟨internalBetweenness_relabel h a hsym L hL, fun v hv => ?_⟩
  rw [internalBetweenness_relabel h a hsym L hL, nodeList_getD n idx 0 _ v hv]

/-- **`InteractingNetworks.nsi_cross_betweenness(node_list1, node_list2)`** (round 5d; C11's
`Cross.nsiCrossBetweenness`: the same delegation with the node weights): for every undirected network
with positive node weights, the renumbered network with `w[idx]` called with the renumbered lists
returns the renumbered array; the wrapper is C03's `apiBetweenness` with explicit lists and
`nsi=True` (C11's bridge). -/
theorem cross_nsi_betweenness_relabel (h : IsPerm n idx) (a : Net.Adj)
    (hsym : ∀ x y, a x y = a y x) (w : Nat → Rat) (hw : ∀ v, v < n → 0 < w v)
    (L1 L2 : List Nat) (h1 : ∀ k ∈ L1, k < n) (h2 : ∀ k ∈ L2, k < n) :
    nsiCrossBetweenness n (mat a idx) (vec w idx) (nodes n idx L1) (nodes n idx L2)
      = nodeList n idx 0 (nsiCrossBetweenness n a w L1 L2) ∧
    (∀ v, v < n →
      (nsiCrossBetweenness n (mat a idx) (vec w idx) (nodes n idx L1) (nodes n idx L2)).getD v 0
        = (nsiCrossBetweenness n a w L1 L2).getD (idx v) 0) ∧
    nsiCrossBetweenness n a w L1 L2 = NetBetw.apiBetweenness n a w (some L1) (some L2) true := by
  refine ⟨nsiCrossBetweenness_relabel h a hsym w hw L1 L2 h1 h2, fun v hv => ?_,
    (crossDelegates_eq_api n a w L1 L2).2⟩
  rw [nsiCrossBetweenness_relabel h a hsym w hw L1 L2 h1 h2, nodeList_getD n idx 0 _ v hv]

/-! ## C18 model: resistive networks -/
open Pyunicorn.Circuit

/-- **admittance matrix and Laplacian** of the renumbered resistances -/
theorem res_laplacian_relabel (h : IsPerm n idx) (adj : Circuit.Adj) (res : Mat) (i j : Nat)
    (hi : i < n) (hj : j < n) :
    admittance (mat adj idx) (mat res idx) i j = admittance adj res (idx i) (idx j) ∧
    Circuit.laplacian n (admittance (mat adj idx) (mat res idx)) i j
      = Circuit.laplacian n (admittance adj res) (idx i) (idx j) :=
  ⟨rfl, laplacian_c_relabel h (admittance adj res) i j hi hj⟩

/-- **what `update_R` needs**: the renumbered inverse is a generalised inverse (and satisfies the
first and third Moore–Penrose equations, and `L R = I − J/n`) of the renumbered Laplacian, and the
renumbered network is again a connected resistor network -/
theorem res_inverse_relabel (h : IsPerm n idx) (adj : Circuit.Adj) (res R : Mat) :
    (IsGinv n (Circuit.laplacian n (admittance adj res)) R →
      IsGinv n (Circuit.laplacian n (admittance (mat adj idx) (mat res idx))) (mat R idx)) ∧
    (IsPinv13 n (Circuit.laplacian n (admittance adj res)) R →
      IsPinv13 n (Circuit.laplacian n (admittance (mat adj idx) (mat res idx))) (mat R idx)) ∧
    (IsProj n (Circuit.laplacian n (admittance adj res)) R →
      IsProj n (Circuit.laplacian n (admittance (mat adj idx) (mat res idx))) (mat R idx)) ∧
    (IsNetwork n adj res → IsNetwork n (mat adj idx) (mat res idx)) ∧
    (CutConnected n (admittance adj res) →
      CutConnected n (admittance (mat adj idx) (mat res idx))) :=
  ⟨isGinv_relabel h _ R, isPinv13_relabel h _ R, isProj_relabel h _ R, isNetwork_relabel h,
   cutConnected_relabel h⟩

/-- **effective resistance is equivariant** on every connected resistor network, for whatever
generalised inverses (`L R L = L` — all the theorems of C18 use of `np.linalg.pinv`) were stored
for the two numberings: `R'_eff(a, b) = R_eff(idx a, idx b)`.  This closes round 2's "that the
pseudo-inverse itself is equivariant is not proved". -/
theorem res_effRes_relabel (h : IsPerm n idx) (adj : Circuit.Adj) (res R R' : Mat) (a b : Nat)
    (ha : a < n) (hb : b < n) (hN : IsNetwork n adj res)
    (hconn : CutConnected n (admittance adj res))
    (hg : IsGinv n (Circuit.laplacian n (admittance adj res)) R)
    (hg' : IsGinv n (Circuit.laplacian n (admittance (mat adj idx) (mat res idx))) R') :
    effRes R' a b = effRes R (idx a) (idx b) :=
  effRes_relabel h adj res R R' a b ha hb hN hconn hg hg'

/-- hence **closeness centrality and the average** of the effective resistances -/
theorem res_measures_relabel (h : IsPerm n idx) (adj : Circuit.Adj) (res R R' : Mat)
    (hN : IsNetwork n adj res) (hconn : CutConnected n (admittance adj res))
    (hg : IsGinv n (Circuit.laplacian n (admittance adj res)) R)
    (hg' : IsGinv n (Circuit.laplacian n (admittance (mat adj idx) (mat res idx))) R') :
    (∀ a, a < n → ercc n R' a = ercc n R (idx a)) ∧
    averageOf n (allPairs n R') = averageOf n (allPairs n R) := by
  have he : ∀ a b, a < n → b < n → effRes R' a b = effRes R (idx a) (idx b) :=
    fun a b ha hb => effRes_relabel h adj res R R' a b ha hb hN hconn hg hg'
  exact ⟨fun a ha => ercc_relabel h R R' a fun i hi => he a i ha hi, average_relabel h R R' he⟩

/-- **admittive degree, neighbours' admittive degree, local / global admittive clustering**
(the Python triple loop) -/
theorem res_admittive_relabel (h : IsPerm n idx) (adj : Circuit.Adj) (adm : Mat) (i : Nat) :
    admDegree n (mat adm idx) i = admDegree n adm (idx i) ∧
    anad n (mat adj idx) (mat adm idx) i = anad n adj adm (idx i) ∧
    Circuit.localClustering n (mat adj idx) (mat adm idx) i
      = Circuit.localClustering n adj adm (idx i) ∧
    Circuit.globalClustering n (mat adj idx) (mat adm idx) = Circuit.globalClustering n adj adm :=
  ⟨admDegree_relabel h adm i, anad_relabel h adj adm i, localClustering_c_relabel h adj adm i,
   globalClustering_c_relabel h adj adm⟩

/-- **current-flow betweenness kernels** (`_vertex_current_flow_betweenness_fast`,
`_edge_current_flow_betweenness_fast`: `for t in range(N): for s in range(t)` with the `continue`
for `i ∈ {s, t}`, unit currents): for an inverse `R'` of the renumbered network that is the
renumbered old one on the nodes (`res_inverse_relabel`: it satisfies the same defining equations)
the vertex values are permuted and the edge values permuted on both axes.  Round 4:
`res_currentflow_relabel_pinv` below removes the hypothesis `hR`. -/
theorem res_currentflow_relabel (h : IsPerm n idx) (adm R R' : Mat)
    (hR : ∀ a b, a < n → b < n → R' a b = R (idx a) (idx b)) (i j : Nat) (hi : i < n) (hj : j < n) :
    vcfbKernel n 1 1 (mat adm idx) R' i = vcfbKernel n 1 1 adm R (idx i) ∧
    ecfbKernel n 1 1 (mat adm idx) R' i j = ecfbKernel n 1 1 adm R (idx i) (idx j) :=
  ⟨vcfb_relabel h adm R R' hR i hi, ecfb_relabel h adm R R' hR i j hi hj⟩

/-- **current-flow betweenness, unconditionally** (round 4; replaces the hypothesis of
`res_currentflow_relabel` that the stored inverse of the renumbered network *is* the renumbered
one): on every connected resistor network, for *whatever* matrices satisfying the first and
third Moore–Penrose equations `update_R` stored for the two numberings, the vertex values are
permuted and the edge values permuted on both axes.  (The kernels read `R` only through
differences within a column; two such inverses differ by a constant per column —
`proj_of_pinv13`, `lap_ker_const` of C18 — so uniqueness of the Moore–Penrose inverse is not
needed.) -/
theorem res_currentflow_relabel_pinv (h : IsPerm n idx) (adj : Circuit.Adj) (res R R' : Mat)
    (hN : IsNetwork n adj res) (hconn : CutConnected n (admittance adj res))
    (hR : IsPinv13 n (Circuit.laplacian n (admittance adj res)) R)
    (hR' : IsPinv13 n (Circuit.laplacian n (admittance (mat adj idx) (mat res idx))) R')
    (i j : Nat) (hi : i < n) (hj : j < n) :
    vcfbKernel n 1 1 (admittance (mat adj idx) (mat res idx)) R' i
      = vcfbKernel n 1 1 (admittance adj res) R (idx i) ∧
    ecfbKernel n 1 1 (admittance (mat adj idx) (mat res idx)) R' i j
      = ecfbKernel n 1 1 (admittance adj res) R (idx i) (idx j) :=
  currentflow_relabel_pinv h adj res R R' hN hconn hR hR' i j hi hj

/-- **`diameter_effective_resistance()`** (`np.max` of the hand-rolled triangular store
`for i: for j in range(i)`; `none` = ValueError on the empty store): unchanged, for whatever
generalised inverses are stored (round 4; the unordered pairs are stored in another order and
orientation after renumbering) -/
theorem res_diameter_relabel (h : IsPerm n idx) (adj : Circuit.Adj) (res R R' : Mat)
    (hN : IsNetwork n adj res) (hconn : CutConnected n (admittance adj res))
    (hg : IsGinv n (Circuit.laplacian n (admittance adj res)) R)
    (hg' : IsGinv n (Circuit.laplacian n (admittance (mat adj idx) (mat res idx))) R') :
    maxOf (allPairs n R') = maxOf (allPairs n R) :=
  diameterER_relabel h R R' fun a b ha hb =>
    effRes_relabel h adj res R R' a b ha hb hN hconn hg hg'

/-! ## C05 model: link attributes set after construction, links listed in any order -/

/-- **`set_link_attribute` then `link_attribute` on a twin whose embedded graph lists the links
in any order** (round 4, seeded change C04-6).  `net` is any `Network` object, `net'` any object
of the same directedness whose embedded graph object describes the renumbered links — in
*whatever* order and (undirected) orientation `FromIGraph` / `Load` / an edge list handed them
over (`hrel` compares the link *relations* only).  After `set_link_attribute(name, V)` resp.
`set_link_attribute(name, V[idx][:, idx])` (symmetric on undirected networks, as documented)
`link_attribute(name)` of the twin is the renumbered matrix: the per-edge loops
`for e in graph.es: e[name] = values[e.tuple]` and `weights[e.tuple] = e[name]` never use the
position of a link in the edge sequence. -/
theorem linkattr_relabel (net net' : Repr.Net) (V : Nat → Nat → Rat)
    (hd : net'.directed = net.directed)
    (hrel : ∀ i j, i < n → j < n →
      Repr.rel net'.directed net'.graph i j = Repr.rel net.directed net.graph (idx i) (idx j))
    (hV : net.directed = false → ∀ i j, V j i = V i j) :
    ∃ f f', Repr.linkAttr (Repr.setLinkAttr net V) = some f ∧
      Repr.linkAttr (Repr.setLinkAttr net' (mat V idx)) = some f' ∧
      ∀ i j, i < n → j < n → f' i j = f (idx i) (idx j) :=
  linkAttr_relabel net net' V hd hrel hV

/-- the instance `idx = id`: **the order in which the embedded graph lists the links does not
matter** — two objects describing the same links return the same attribute matrix -/
theorem linkattr_order_independent (net net' : Repr.Net) (V : Nat → Nat → Rat)
    (hd : net'.directed = net.directed)
    (hrel : ∀ i j, Repr.rel net'.directed net'.graph i j = Repr.rel net.directed net.graph i j)
    (hV : net.directed = false → ∀ i j, V j i = V i j) :
    ∃ f f', Repr.linkAttr (Repr.setLinkAttr net V) = some f ∧
      Repr.linkAttr (Repr.setLinkAttr net' V) = some f' ∧ ∀ i j, f' i j = f i j := by
  obtain ⟨f, hf, hfs⟩ := Repr.linkAttr_setLinkAttr_gen net V (fun hd' i j _ => hV hd' i j)
  obtain ⟨f', hf', hfs'⟩ := Repr.linkAttr_setLinkAttr_gen net' V
    (fun hd' i j _ => hV (hd ▸ hd') i j)
  exact ⟨f, f', hf, hf', fun i j => by rw [hfs', hfs, hrel i j]⟩

/-! ## C12 model over `Rat`: grids and link-distance measures -/
open Pyunicorn.Geo

/-- **grid distances**: the triangular-fill kernels run on the renumbered coordinate sequences
give `D[idx a, idx b]` (Euclidean: `x[:, idx]`; angular: `lat[idx]`, `lon[idx]`), for every
`sqrt` / trigonometric operations -/
theorem geo_distance_relabel (h : IsPerm n idx) (T : Trig Rat) (x : Nat → Nat → Rat)
    (lat lon : Nat → Rat) (d a b : Nat) (ha : a < n) (hb : b < n) :
    euclideanDistance T (cols x idx) d n a b = euclideanDistance T x d n (idx a) (idx b) ∧
    angularDistance T (vec lat idx) (vec lon idx) n a b
      = angularDistance T lat lon n (idx a) (idx b) :=
  ⟨euclideanDistance_relabel h T x d a b ha hb, angularDistance_relabel h T lat lon a b ha hb⟩

/-- **area-weighted connectivity and node weights** of `GeoNetwork` -/
theorem geo_awc_relabel (h : IsPerm n idx) (T : Trig Rat) (directed : Bool) (t : WType)
    (lat : Nat → Rat) (A : Nat → Nat → Rat) (i : Nat) :
    nodeWeights T t (vec lat idx) i = nodeWeights T t lat (idx i) ∧
    inAWC T (vec lat idx) (mat A idx) n i = inAWC T lat A n (idx i) ∧
    outAWC T (vec lat idx) (mat A idx) n i = outAWC T lat A n (idx i) ∧
    AWC T directed (vec lat idx) (mat A idx) n i = AWC T directed lat A n (idx i) :=
  ⟨nodeWeights_relabel T t lat i, AWC_relabel h T directed lat A i⟩

/-- **link-distance measures** of `SpatialNetwork` with the distance matrix renumbered with the
nodes: `(in|out)average_link_distance`, `average_link_distance` (with and without geometry
correction), `max_link_distance` -/
theorem geo_link_distance_relabel (h : IsPerm n idx) (directed : Bool) (D A : Nat → Nat → Rat)
    (nN : Rat) (corrected : Bool) (i : Nat) :
    outALD (mat D idx) (mat A idx) n nN corrected i = outALD D A n nN corrected (idx i) ∧
    inALD (mat D idx) (mat A idx) n nN corrected i = inALD D A n nN corrected (idx i) ∧
    avgALD directed (mat D idx) (mat A idx) n nN corrected i
      = avgALD directed D A n nN corrected (idx i) ∧
    maxLinkDist (mat D idx) (mat A idx) n i = maxLinkDist D A n (idx i) ∧
    maxLinkDistNet (mat D idx) (mat A idx) n i = maxLinkDistNet D A n (idx i) :=
  have a := ALD_relabel h directed D A nN corrected i
  have b := maxLinkDist_relabel h D A i
  ⟨a.1, a.2.1, a.2.2, b.1, b.2⟩

/-! ## C07 model: recurrence networks of reordered state vectors -/
open Pyunicorn.Recurrence

/-- **recurrence matrix and recurrence-network adjacency** (`set_fixed_threshold`, all three
metrics, NaN semantics and the missing-value mask included): reordering the state vectors
renumbers the matrix, `R'[a, b] = R[idx a, idx b]`, and likewise the adjacency matrix with its
zeroed diagonal (`A.flat[::N+1] = 0`) -/
theorem rec_fixedThreshold_relabel (h : IsPerm n idx) (m : Metric) (emb : List (List V))
    (hn : emb.length = n) (eps : Rat) (mv : Bool) (a b : Nat) (ha : a < n) (hb : b < n) :
    entry (distRP m (rows n idx emb)) a b = entry (distRP m emb) (idx a) (idx b) ∧
    entry (fixedThreshold m (rows n idx emb) eps mv) a b
      = entry (fixedThreshold m emb eps mv) (idx a) (idx b) ∧
    entry (zeroStride (fixedThreshold m (rows n idx emb) eps mv) (n + 1)) a b
      = entry (zeroStride (fixedThreshold m emb eps mv) (n + 1)) (idx a) (idx b) :=
  ⟨distRP_relabel h m emb hn a b ha hb, fixedThreshold_relabel h m emb hn eps mv a b ha hb,
   recurrenceAdjacency_relabel h m emb hn eps mv a b ha hb⟩

/-- **fixed recurrence rate** (`set_fixed_recurrence_rate`, C07's `fixedRate`: the threshold is the
`k`-th order statistic of the sorted flattened distance matrix, `none` = IndexError): the
threshold does not depend on the order of the state vectors and the recurrence matrix of the
reordered trajectory is the renumbered one (round 4) -/
theorem rec_fixedRate_relabel (h : IsPerm n idx) (m : Metric) (emb : List (List V))
    (hn : emb.length = n) (k : Nat) (a b : Nat) (ha : a < n) (hb : b < n) :
    quantileAt (distRP m (rows n idx emb)).flatten k = quantileAt (distRP m emb).flatten k ∧
    (fixedRate (distRP m (rows n idx emb)) k).map (fun R => entry R a b)
      = (fixedRate (distRP m emb) k).map (fun R => entry R (idx a) (idx b)) :=
  ⟨quantile_distRP_relabel h m emb hn k, fixedRate_relabel h m emb hn k a b ha hb⟩

/-- **fixed local recurrence rate** (`set_fixed_local_recurrence_rate`, C07's `fixedLocalRate`: one
order statistic per row; the network is directed): both constructions succeed or raise together,
and the recurrence matrix of the reordered trajectory is the renumbered one (round 4) -/
theorem rec_localRate_relabel (h : IsPerm n idx) (m : Metric) (emb : List (List V))
    (hn : emb.length = n) (k : Nat) :
    ((fixedLocalRate (distRP m (rows n idx emb)) k).isSome
      = (fixedLocalRate (distRP m emb) k).isSome) ∧
    ∀ R R', fixedLocalRate (distRP m emb) k = some R →
      fixedLocalRate (distRP m (rows n idx emb)) k = some R' →
      ∀ a b, a < n → b < n → entry R' a b = entry R (idx a) (idx b) :=
  fixedLocalRate_relabel h m emb hn k

/-- **joint recurrence matrix at lag 0** (`JointRecurrencePlot`: `R = Rx * Ry`, C07's `hadamard`)
of two trajectories reordered by the same permutation (round 4).  The slicing for non-zero lags
depends on the time order and is exempt. -/
theorem rec_joint_relabel (h : IsPerm n idx) (mx my : Metric) (ex ey : List (List V))
    (hnx : ex.length = n) (hny : ey.length = n) (epsx epsy : Rat) (mv : Bool) (a b : Nat)
    (ha : a < n) (hb : b < n) :
    (hadamard (fixedThreshold mx (rows n idx ex) epsx mv)
        (fixedThreshold my (rows n idx ey) epsy mv)).bind (fun R => entry R a b)
      = (hadamard (fixedThreshold mx ex epsx mv) (fixedThreshold my ey epsy mv)).bind
          (fun R => entry R (idx a) (idx b)) :=
  hadamard_relabel _ _ _ _ (fixedThreshold_square mx ex hnx epsx mv)
    (fixedThreshold_square mx _ (rows_length ex) epsx mv) (fixedThreshold_square my ey hny epsy mv)
    (fixedThreshold_square my _ (rows_length ey) epsy mv) a b
    (fixedThreshold_relabel h mx ex hnx epsx mv a b ha hb)
    (fixedThreshold_relabel h my ey hny epsy mv a b ha hb)

/-- **inter-system recurrence matrix** (C07's `isrm`: blocks `Rx`, `CR`, `CRᵀ`, `Ry`) of two
systems reordered *separately* by `idx` and `idy`: `joinPerm` is a permutation of the `Nx + Ny`
nodes and the assembled matrix is the original one renumbered by it (round 4) -/
theorem rec_intersystem_relabel {Nx Ny : Nat} {idy : Nat → Nat} (hx : IsPerm Nx idx)
    (hy : IsPerm Ny idy) (m : Metric) (ex ey : List (List V)) (hnx : ex.length = Nx)
    (hny : ey.length = Ny) (epsx epsy : Rat) (t : V) (mv : Bool) (M M' : List (List Bool))
    (hM : isrm Nx Ny (fixedThreshold m ex epsx mv) (fixedThreshold m ey epsy mv)
      (threshold (distCRP m ex ey) t) = some M)
    (hM' : isrm Nx Ny (fixedThreshold m (rows Nx idx ex) epsx mv)
      (fixedThreshold m (rows Ny idy ey) epsy mv)
      (threshold (distCRP m (rows Nx idx ex) (rows Ny idy ey)) t) = some M') :
    IsPerm (Nx + Ny) (joinPerm Nx idx idy) ∧
    ∀ a b, a < Nx + Ny → b < Nx + Ny →
      entry M' a b = entry M (joinPerm Nx idx idy a) (joinPerm Nx idx idy b) :=
  ⟨joinPerm_isPerm hx hy, fun a b ha hb =>
    intersystem_relabel hx hy m ex ey hnx hny epsx epsy t mv M M' hM hM' a b ha hb⟩

/-- **joint recurrence network at fixed recurrence rates, lag 0** (round 5; was oracle-only):
`JointRecurrencePlot.set_fixed_recurrence_rate` thresholds each system's distance matrix at its own
order statistic (`threshold_from_recurrence_rate`, C07's `fixedRate`) and multiplies,
`JR = recurrence_x * recurrence_y`.  For two trajectories reordered by the same permutation the
two constructions succeed or raise IndexError together (`none`), and the matrix of the reordered
trajectories is the renumbered one. -/
theorem rec_joint_rate_relabel (h : IsPerm n idx) (mx my : Metric) (ex ey : List (List V))
    (hnx : ex.length = n) (hny : ey.length = n) (kx ky : Nat) (a b : Nat) (ha : a < n)
    (hb : b < n) :
    ((fixedRate (distRP mx (rows n idx ex)) kx).bind fun Rx =>
      (fixedRate (distRP my (rows n idx ey)) ky).bind fun Ry =>
        (hadamard Rx Ry).bind fun R => entry R a b)
      = ((fixedRate (distRP mx ex) kx).bind fun Rx =>
          (fixedRate (distRP my ey) ky).bind fun Ry =>
            (hadamard Rx Ry).bind fun R => entry R (idx a) (idx b)) :=
  joint_rate_relabel h mx my ex ey hnx hny kx ky a b ha hb

/-- **inter-system recurrence network at fixed recurrence rates** (round 5; was oracle-only):
`InterSystemRecurrenceNetwork.set_fixed_recurrence_rate` builds two `RecurrencePlot`s and one
`CrossRecurrencePlot`, each thresholded at an order statistic of its own (for the cross plot: of
the *rectangular* `Nx × Ny` cross-distance matrix, whose rows and columns are reordered by two
different permutations), then assembles the blocks.  The cross-rate threshold does not depend on
the order of either system (`tab_flatten_perm2`); each of the three plots succeeds or raises
IndexError for both orders alike; and the assembled matrix of the reordered systems is the
original one renumbered by `joinPerm`. -/
theorem rec_intersystem_rate_relabel {Nx Ny : Nat} {idy : Nat → Nat} (hx : IsPerm Nx idx)
    (hy : IsPerm Ny idy) (m : Metric) (ex ey : List (List V)) (hnx : ex.length = Nx)
    (hny : ey.length = Ny) (kx ky kxy : Nat) :
    quantileAt (distCRP m (rows Nx idx ex) (rows Ny idy ey)).flatten kxy
      = quantileAt (distCRP m ex ey).flatten kxy ∧
    (fixedRate (distRP m (rows Nx idx ex)) kx).isSome = (fixedRate (distRP m ex) kx).isSome ∧
    (fixedRate (distRP m (rows Ny idy ey)) ky).isSome = (fixedRate (distRP m ey) ky).isSome ∧
    (fixedRate (distCRP m (rows Nx idx ex) (rows Ny idy ey)) kxy).isSome
      = (fixedRate (distCRP m ex ey) kxy).isSome ∧
    ∀ Rx Ry CR Rx' Ry' CR' M M',
      fixedRate (distRP m ex) kx = some Rx → fixedRate (distRP m ey) ky = some Ry →
      fixedRate (distCRP m ex ey) kxy = some CR →
      fixedRate (distRP m (rows Nx idx ex)) kx = some Rx' →
      fixedRate (distRP m (rows Ny idy ey)) ky = some Ry' →
      fixedRate (distCRP m (rows Nx idx ex) (rows Ny idy ey)) kxy = some CR' →
      isrm Nx Ny Rx Ry CR = some M → isrm Nx Ny Rx' Ry' CR' = some M' →
      ∀ a b, a < Nx + Ny → b < Nx + Ny →
        entry M' a b = entry M (joinPerm Nx idx idy a) (joinPerm Nx idx idy b) :=
  ⟨quantile_distCRP_relabel hx hy m ex ey hnx hny kxy,
   fixedRate_isSome_relabel hx m ex hnx kx, fixedRate_isSome_relabel hy m ey hny ky,
   fixedRate_cross_isSome_relabel hx hy m ex ey hnx hny kxy,
   fun Rx Ry CR Rx' Ry' CR' M M' h1 h2 h3 h4 h5 h6 hM hM' a b ha hb =>
    intersystem_rate_relabel hx hy m ex ey hnx hny kx ky kxy Rx Ry CR Rx' Ry' CR' M M'
      h1 h2 h3 h4 h5 h6 hM hM' a b ha hb⟩

/-! ### non-vacuity -/

def exPerm : Nat → Nat := fun a => [2, 0, 3, 1].getD a a
/-- path 0 — 1 — 2 plus the isolated node 3 -/
def exAdj : Net.Adj := fun i j => (i, j) ∈ [(0, 1), (1, 0), (1, 2), (2, 1)]

example : IsPerm 4 exPerm := by unfold IsPerm; decide
example : Function.Injective exPerm := by
  intro a b e
  unfold exPerm at e
  rcases Nat.lt_or_ge a 4 with ha | ha <;> rcases Nat.lt_or_ge b 4 with hb | hb
  · interval_cases a <;> interval_cases b <;> simp_all
  · interval_cases a <;> simp_all [List.getD_eq_getElem?_getD] <;> omega
  · interval_cases b <;> simp_all [List.getD_eq_getElem?_getD]
  · simp_all [List.getD_eq_getElem?_getD]
example : coreness 4 exAdj false = [1, 1, 1, 0] ∧
    coreness 4 (mat exAdj exPerm) false = [1, 1, 0, 1] ∧
    dist 4 (mat exAdj exPerm) 0 3 = some 1 ∧ dist 4 exAdj 2 1 = some 1 ∧
    dist 4 (mat exAdj exPerm) 0 2 = none := by decide +kernel
example : edgeList false 4 exAdj = [(0, 1), (1, 2)] ∧
    edgeList false 4 (mat exAdj exPerm) = [(0, 3), (1, 3)] ∧
    assortativity false 4 exAdj = some (-1) := by decide +kernel
/-- `K₄` on 0,1,2,3 with the pendant node 4 attached to 0 -/
def exAdj5 : Net.Adj := fun i j => i != j && ((i < 4 && j < 4) || (i + j == 4 && i * j == 0))
def exPerm5 : Nat → Nat := fun a => [4, 2, 0, 3, 1].getD a a
example : IsPerm 5 exPerm5 := by unfold IsPerm; decide
example : (List.range 4).map (removedPerm exPerm5 2) = [3, 1, 2, 0] ∧
    (List.range 4).map (removedPerm exPerm5 0) = [2, 0, 3, 1] := by decide
example : localVulnerability 5 (mat exAdj5 exPerm5) 2 = localVulnerability 5 exAdj5 0 ∧
    localVulnerability 5 exAdj5 0 ≠ localVulnerability 5 exAdj5 1 ∧
    localVulnerability 5 exAdj5 0 ≠ none := by decide +kernel
example : cliquishness 4 5 exAdj5 (outdeg 5 exAdj5) = [1/4, 1, 1, 1, 0] ∧
    cliquishness 4 5 (mat exAdj5 exPerm5) (outdeg 5 (mat exAdj5 exPerm5)) = [0, 1, 1/4, 1, 1] := by
  decide +kernel
/-- triangle 0,1,2 with weights 1, 2, 3 (symmetric) and the pendant link 0 — 4 of weight 5 -/
def exW5 : Net.RMat := fun i j =>
  if (i, j) ∈ [(0, 1), (1, 0)] then 1 else if (i, j) ∈ [(1, 2), (2, 1)] then 2
  else if (i, j) ∈ [(0, 2), (2, 0)] then 3 else if (i, j) ∈ [(0, 4), (4, 0)] then 5 else 0
example : wMax 5 exW5 = 5 ∧ wMax 5 (mat exW5 exPerm5) = 5 ∧ exW5 0 0 = 0 ∧
    weightedLocalClustering 5 exW5 1 = some (4 / 15) ∧
    weightedLocalClustering 5 (mat exW5 exPerm5) 4 = some (4 / 15) ∧
    weightedLocalClustering 5 exW5 3 = none := by decide +kernel
/-- betweenness on the path 0 — 1 — 2 (+ isolated 3): the middle node lies on the two shortest
paths between the ends; after renumbering it is node 3 -/
example : NetBetw.nsiBetweennessDef 4 exAdj (fun _ => 1) (dist 4 exAdj) [true, true, true, true]
      [0, 1, 2, 3] = [0, 2, 0, 0] ∧
    NetBetw.nsiBetweennessDef 4 (mat exAdj exPerm) (fun _ => 1) (dist 4 (mat exAdj exPerm))
      (nodeList 4 exPerm false [true, true, true, true]) (nodes 4 exPerm [0, 1, 2, 3]) = [0, 0, 0, 2] ∧
    NetBetw.nsiBetweenness 4 exAdj (fun _ => 1) [true, true, true, true] [0, 1, 2, 3] = [0, 2, 0, 0] := by
  decide +kernel
example : nodes 4 exPerm [0, 3] = [1, 2] ∧ (nodes 4 exPerm [0, 3]).map exPerm = [0, 3] := by
  decide +kernel
/-- round 5b: the hypotheses of `net_betweenness_kernel_relabel` / `net_betweenness_api_relabel` hold
for the path 0 — 1 — 2 (+ isolated 3) with node weights 1, 2, 3, 4, and the kernel model's result is
not trivial: with all sources and the default targets the middle node has n.s.i. betweenness 3
(the others 0), and it is node 3 after renumbering; with `sources=[0]`, `targets=[2]` — renumbered
to `[1]`, `[0]` — it has 3/2.  The default target list of the renumbered network, `range 4`, is not
the old default renumbered (`[1, 3, 0, 2]`). -/
def exW4 : Nat → Rat := fun v => [1, 2, 3, 4].getD v 1
example : (∀ x y, exAdj x y = exAdj y x) ∧ (∀ v, v < 4 → 0 < exW4 v) := by
  refine ⟨fun x y => ?_, fun v hv => by unfold exW4; interval_cases v <;> norm_num⟩
  unfold exAdj
  simp only [List.mem_cons, Prod.mk.injEq, List.not_mem_nil, or_false, decide_eq_decide]
  omega
example :
    NetBetw.apiBetweenness 4 exAdj exW4 none none true
      = [0, 3, 0, 0] ∧
    NetBetw.apiBetweenness 4 (mat exAdj exPerm) (vec exW4 exPerm)
        (Option.map (nodes 4 exPerm) none) (Option.map (nodes 4 exPerm) none) true
      = [0, 0, 0, 3] ∧
    NetBetw.apiBetweenness 4 exAdj exW4 (some [0]) (some [2]) true
      ≠ NetBetw.apiBetweenness 4 exAdj exW4 none none true ∧
    NetBetw.apiBetweenness 4 (mat exAdj exPerm) (vec exW4 exPerm)
        (Option.map (nodes 4 exPerm) (some [0])) (Option.map (nodes 4 exPerm) (some [2])) true
      = nodeList 4 exPerm 0
          (NetBetw.apiBetweenness 4 exAdj exW4 (some [0]) (some [2]) true) ∧
    NetBetw.apiBetweenness 4 exAdj exW4 (some [0]) (some [2]) true = [0, 3 / 2, 0, 0] ∧
    NetBetw.interregionalBetweenness 4 (mat exAdj exPerm) (fun _ => 7) none none = [0, 0, 0, 2] ∧
    nodes 4 exPerm (List.range 4) = [1, 3, 0, 2] := by
  decide +kernel
/-- round 5d: the node-group betweenness measures on the path 0 — 1 — 2 (+ isolated 3), groups
`[0, 3]` (sources) and `[2, 1]` (targets): the middle node lies on the one shortest path from 0 to
2 — `cross_betweenness = [0, 1, 0, 0]`, with node weights 1, 2, 3, 4 `nsi_cross_betweenness =
[0, 3/2, 0, 0]`, `internal_betweenness([0, 2, 3]) = [0, 2, 0, 0]` —, not the trivial array and
different from the whole-network values above; on the renumbered network with the renumbered lists
(`[1, 2]`, `[0, 3]`) the value sits at node 3.  The stored source mask of `[0, 3]` is
`[T, F, F, T]`, of the renumbered list `[F, T, T, F]`. -/
example :
    crossBetweenness 4 exAdj [0, 3] [2, 1] = [0, 1, 0, 0] ∧
    crossBetweenness 4 (mat exAdj exPerm) (nodes 4 exPerm [0, 3]) (nodes 4 exPerm [2, 1])
      = [0, 0, 0, 1] ∧
    nodes 4 exPerm [2, 1] = [0, 3] ∧
    srcMask 4 [0, 3] = [true, false, false, true] ∧
    srcMask 4 (nodes 4 exPerm [0, 3]) = [false, true, true, false] ∧
    internalBetweenness 4 exAdj [0, 2, 3] = [0, 2, 0, 0] ∧
    internalBetweenness 4 (mat exAdj exPerm) (nodes 4 exPerm [0, 2, 3]) = [0, 0, 0, 2] ∧
    nsiCrossBetweenness 4 exAdj exW4 [0, 3] [2, 1] = [0, 3 / 2, 0, 0] ∧
    nsiCrossBetweenness 4 (mat exAdj exPerm) (vec exW4 exPerm) (nodes 4 exPerm [0, 3])
        (nodes 4 exPerm [2, 1]) = [0, 0, 0, 3 / 2] := by
  decide +kernel
/-- links of the path 0 — 1 — 2 listed in two different orders / orientations -/
def exNetA : Repr.Net := { Repr.Net.blank false 3 with graph := [(0, 1), (1, 2)] }
def exNetB : Repr.Net := { Repr.Net.blank false 3 with graph := [(2, 1), (1, 0)] }
example : ∀ i j, Repr.rel exNetB.directed exNetB.graph i j = Repr.rel exNetA.directed exNetA.graph i j := by
  intro i j; rw [Bool.eq_iff_iff]; simp [Repr.rel, exNetA, exNetB, Repr.Net.blank]; omega
example : (Repr.setLinkAttr exNetA fun i j => (i + j : Nat)).eattr = some [1, 3] ∧
    (Repr.setLinkAttr exNetB fun i j => (i + j : Nat)).eattr = some [3, 1] := by decide +kernel
example : Cross.clcSparse false (mat exAdj exPerm) (nodes 4 exPerm [1]) (nodes 4 exPerm [0, 2])
    = Cross.clcSparse false exAdj [1] [0, 2] := by decide +kernel
example : joinPerm 2 exPerm (fun a => [1, 0].getD a a) 3 = 2 ∧ joinPerm 2 exPerm id 0 = 2 := by
  decide +kernel
example : IsPerm 3 (fun a => [2, 0, 1].getD a a) ∧
    ([[some 0], [some 1], [some 3]] : List (List V)).length = 3 ∧
    rows 3 (fun a => [2, 0, 1].getD a a) ([[some 0], [some 1], [some 3]] : List (List V))
      = [[some 3], [some 0], [some 1]] := by
  refine ⟨by unfold IsPerm; decide, rfl, by decide⟩
/-- the rate variants are not vacuous: a `3 × 3` distance matrix has order statistics `0..8`
(`k = 9` raises IndexError), a `3 × 2` cross-distance matrix `0..5` -/
example : (fixedRate (distRP .supremum ([[some 0], [some 1], [some 3]] : List (List V))) 4).isSome = true ∧
    (fixedRate (distCRP .supremum ([[some 0], [some 1], [some 3]] : List (List V))
      [[some 1], [some 2]]) 5).isSome = true ∧
    (fixedRate (distRP .supremum ([[some 0], [some 1], [some 3]] : List (List V))) 9).isSome = false := by
  refine ⟨?_, ?_, ?_⟩
  · unfold fixedRate; rw [Option.isSome_map, quantileAt_isSome]; decide
  · unfold fixedRate; rw [Option.isSome_map, quantileAt_isSome]; decide
  · unfold fixedRate
    rw [Option.isSome_map, Bool.eq_false_iff, ne_eq, quantileAt_isSome]; decide
example : IsNetwork 3 (fun i j => i != j) (fun _ _ => 1) :=
  ⟨fun i j _ _ => by simp [bne_comm], fun _ _ _ _ => rfl, fun _ _ _ _ _ => by norm_num⟩

end Pyunicorn.Relabel

