import Pyunicorn.Lemmas.Nsi
import Pyunicorn.Model.Equivariance
import Mathlib.Algebra.BigOperators.Group.List.Basic
import Mathlib.Data.List.Nodup
/-!
# C04 — Measures do not depend on node numbering

`eval_relabel`: every expression of the language `Pyunicorn.Equiv.E` — built from `A`, `A⁺`,
node weights, pairwise matrices carried with the nodes (link attributes, grid distances,
similarities, resistances), node groups and shortest-path lengths by arithmetic, sums over all
nodes (plain and node-weighted) and maxima — evaluates on `permuted_copy(idx)` at a node tuple
to what it evaluates to on the original network at the renamed tuple, for *every* permutation.
-/
namespace Pyunicorn.Equiv
open Pyunicorn.Nsi

/-- sums over all nodes are invariant under a permutation of the summation index -/
theorem sum_relabel (n : Nat) (idx : Nat → Nat)
    (hperm : ((List.range n).map idx).Perm (List.range n)) (F : Nat → Rat) :
    ((List.range n).map fun a => F (idx a)).sum = ((List.range n).map F).sum := by
  have : ((List.range n).map fun a => F (idx a)) = ((List.range n).map idx).map F := by
    simp [List.map_map, Function.comp_def]
  rw [this]
  exact (hperm.map F).sum_eq

theorem max_relabel (n : Nat) (idx : Nat → Nat)
    (hperm : ((List.range n).map idx).Perm (List.range n)) (F : Nat → Rat) :
    maxList ((List.range n).map fun a => F (idx a)) = maxList ((List.range n).map F) := by
  apply maxList_congr
  intro y
  have : ((List.range n).map fun a => F (idx a)) = ((List.range n).map idx).map F := by
    simp [List.map_map, Function.comp_def]
  rw [this]
  exact (hperm.map F).mem_iff

/-- all variables of an expression refer to positions that exist in an environment of
length `len` (free node slots are never read out of range) -/
def closedIn : Nat → E → Bool
  | _, .const _ => true
  | _, .nn => true
  | l, .adj i j => decide (i < l) && decide (j < l)
  | l, .aplus i j => decide (i < l) && decide (j < l)
  | l, .delta i j => decide (i < l) && decide (j < l)
  | l, .w i => decide (i < l)
  | l, .la _ i j => decide (i < l) && decide (j < l)
  | l, .grp _ i => decide (i < l)
  | l, .dist i j => decide (i < l) && decide (j < l)
  | l, .conn i j => decide (i < l) && decide (j < l)
  | l, .invd i j => decide (i < l) && decide (j < l)
  | l, .add a b => closedIn l a && closedIn l b
  | l, .sub a b => closedIn l a && closedIn l b
  | l, .mul a b => closedIn l a && closedIn l b
  | l, .div a b => closedIn l a && closedIn l b
  | l, .max a b => closedIn l a && closedIn l b
  | l, .min a b => closedIn l a && closedIn l b
  | l, .ifpos c a b => closedIn l c && closedIn l a && closedIn l b
  | l, .ifzero c a b => closedIn l c && closedIn l a && closedIn l b
  | l, .usum e => closedIn (l + 1) e
  | l, .wsum e => closedIn (l + 1) e
  | l, .kmax e => closedIn (l + 1) e

theorem var_map_lt (env : List Nat) (idx : Nat → Nat) (i : Nat) (hi : i < env.length) :
    var (env.map idx) i = idx (var env i) := by
  unfold var
  simp [List.getD_eq_getElem?_getD, hi]

theorem idx_inj (n : Nat) (idx : Nat → Nat)
    (hperm : ((List.range n).map idx).Perm (List.range n)) (a b : Nat) (ha : a < n) (hb : b < n)
    (h : idx a = idx b) : a = b := by
  have hnd : ((List.range n).map idx).Nodup := hperm.nodup_iff.mpr List.nodup_range
  exact List.inj_on_of_nodup_map hnd (List.mem_range.mpr ha) (List.mem_range.mpr hb) h

theorem var_lt (env : List Nat) (n i : Nat) (henv : ∀ x ∈ env, x < n) (hi : i < env.length) :
    var env i < n := by
  unfold var
  rw [List.getD_eq_getElem?_getD, List.getElem?_eq_getElem hi]
  exact henv _ (List.getElem_mem hi)

/-- **Relabelling equivariance, generically**: for every network, every permutation `idx` of
its nodes (`permuted_copy` checks `sorted(idx) == arange(N)`), every expression whose variables
are all bound or supplied, and every tuple of nodes of the network:
`eval (permuted_copy idx) env e = eval G (idx ∘ env) e`. -/
theorem eval_relabel (G : Gr) (idx : Nat → Nat)
    (hperm : ((List.range G.n).map idx).Perm (List.range G.n)) (e : E) (env : List Nat)
    (henv : ∀ x ∈ env, x < G.n) (hc : closedIn env.length e = true) :
    eval (relabel G idx) env e = eval G (env.map idx) e := by
  induction e generalizing env with
  | const q => simp [eval]
  | nn => simp [eval, relabel]
  | adj i j =>
    simp only [closedIn, Bool.and_eq_true, decide_eq_true_eq] at hc
    simp only [eval, relabel, var_map_lt _ _ _ hc.1, var_map_lt _ _ _ hc.2]
    rfl
  | aplus i j =>
    simp only [closedIn, Bool.and_eq_true, decide_eq_true_eq] at hc
    simp only [eval, Nsi.aplus, relabel, var_map_lt _ _ _ hc.1, var_map_lt _ _ _ hc.2]
    have hi := var_lt env G.n i henv hc.1
    have hj := var_lt env G.n j henv hc.2
    by_cases h : var env i = var env j
    · simp [h]
    · have h2 : ¬ idx (var env i) = idx (var env j) :=
        fun h2 => h (idx_inj G.n idx hperm _ _ hi hj h2)
      simp [h, h2]
  | delta i j =>
    simp only [closedIn, Bool.and_eq_true, decide_eq_true_eq] at hc
    simp only [eval, var_map_lt _ _ _ hc.1, var_map_lt _ _ _ hc.2]
    have hi := var_lt env G.n i henv hc.1
    have hj := var_lt env G.n j henv hc.2
    by_cases h : var env i = var env j
    · simp [h]
    · have h2 : ¬ idx (var env i) = idx (var env j) :=
        fun h2 => h (idx_inj G.n idx hperm _ _ hi hj h2)
      simp [h, h2]
  | w i =>
    simp only [closedIn, decide_eq_true_eq] at hc
    simp [eval, relabel, var_map_lt _ _ _ hc]
  | la a i j =>
    simp only [closedIn, Bool.and_eq_true, decide_eq_true_eq] at hc
    simp [eval, relabel, var_map_lt _ _ _ hc.1, var_map_lt _ _ _ hc.2]
  | grp g i =>
    simp only [closedIn, decide_eq_true_eq] at hc
    simp only [eval, relabel, var_map_lt _ _ _ hc]
    rfl
  | dist i j =>
    simp only [closedIn, Bool.and_eq_true, decide_eq_true_eq] at hc
    simp [eval, relabel, var_map_lt _ _ _ hc.1, var_map_lt _ _ _ hc.2]
  | conn i j =>
    simp only [closedIn, Bool.and_eq_true, decide_eq_true_eq] at hc
    simp [eval, relabel, var_map_lt _ _ _ hc.1, var_map_lt _ _ _ hc.2]
  | invd i j =>
    simp only [closedIn, Bool.and_eq_true, decide_eq_true_eq] at hc
    simp [eval, relabel, var_map_lt _ _ _ hc.1, var_map_lt _ _ _ hc.2]
  | add a b iha ihb =>
    simp only [closedIn, Bool.and_eq_true] at hc
    simp only [eval, iha env henv hc.1, ihb env henv hc.2]
  | sub a b iha ihb =>
    simp only [closedIn, Bool.and_eq_true] at hc
    simp only [eval, iha env henv hc.1, ihb env henv hc.2]
  | mul a b iha ihb =>
    simp only [closedIn, Bool.and_eq_true] at hc
    simp only [eval, iha env henv hc.1, ihb env henv hc.2]
  | div a b iha ihb =>
    simp only [closedIn, Bool.and_eq_true] at hc
    simp only [eval, iha env henv hc.1, ihb env henv hc.2]
  | max a b iha ihb =>
    simp only [closedIn, Bool.and_eq_true] at hc
    simp only [eval, iha env henv hc.1, ihb env henv hc.2]
  | min a b iha ihb =>
    simp only [closedIn, Bool.and_eq_true] at hc
    simp only [eval, iha env henv hc.1, ihb env henv hc.2]
  | ifpos c a b ihc iha ihb =>
    simp only [closedIn, Bool.and_eq_true] at hc
    simp only [eval, ihc env henv hc.1.1, iha env henv hc.1.2, ihb env henv hc.2]
  | ifzero c a b ihc iha ihb =>
    simp only [closedIn, Bool.and_eq_true] at hc
    simp only [eval, ihc env henv hc.1.1, iha env henv hc.1.2, ihb env henv hc.2]
  | usum e ih =>
    simp only [closedIn] at hc
    simp only [eval]
    have hn : (relabel G idx).n = G.n := rfl
    rw [hn, ← sum_relabel G.n idx hperm (fun k => eval G (k :: env.map idx) e)]
    congr 1
    apply List.map_congr_left
    intro k hk
    have hk' := List.mem_range.mp hk
    rw [ih (k :: env) (by
      intro x hx
      rcases List.mem_cons.mp hx with rfl | hx
      · exact hk'
      · exact henv x hx) (by simpa using hc)]
    simp
  | wsum e ih =>
    simp only [closedIn] at hc
    simp only [eval]
    have hn : (relabel G idx).n = G.n := rfl
    rw [hn, ← sum_relabel G.n idx hperm (fun k => G.w k * eval G (k :: env.map idx) e)]
    congr 1
    apply List.map_congr_left
    intro k hk
    have hk' := List.mem_range.mp hk
    rw [ih (k :: env) (by
      intro x hx
      rcases List.mem_cons.mp hx with rfl | hx
      · exact hk'
      · exact henv x hx) (by simpa using hc)]
    simp [relabel]
  | kmax e ih =>
    simp only [closedIn] at hc
    simp only [eval]
    have hn : (relabel G idx).n = G.n := rfl
    rw [hn, ← max_relabel G.n idx hperm (fun k => eval G (k :: env.map idx) e)]
    congr 1
    apply List.map_congr_left
    intro k hk
    have hk' := List.mem_range.mp hk
    rw [ih (k :: env) (by
      intro x hx
      rcases List.mem_cons.mp hx with rfl | hx
      · exact hk'
      · exact henv x hx) (by simpa using hc)]
    simp

/-- **global measures** do not change under renumbering -/
theorem global_relabel (G : Gr) (idx : Nat → Nat)
    (hperm : ((List.range G.n).map idx).Perm (List.range G.n)) (e : E)
    (hc : closedIn 0 e = true) : eval (relabel G idx) [] e = eval G [] e := by
  simpa using eval_relabel G idx hperm e [] (by simp) (by simpa using hc)

/-- **per-node measures** are permuted accordingly: new node `a` is old node `idx a` -/
theorem local_relabel (G : Gr) (idx : Nat → Nat)
    (hperm : ((List.range G.n).map idx).Perm (List.range G.n)) (e : E)
    (hc : closedIn 1 e = true) (a : Nat) (ha : a < G.n) :
    eval (relabel G idx) [a] e = eval G [idx a] e := by
  simpa using eval_relabel G idx hperm e [a] (by simpa using ha) (by simpa using hc)

/-- **per-pair measures** likewise -/
theorem pair_relabel (G : Gr) (idx : Nat → Nat)
    (hperm : ((List.range G.n).map idx).Perm (List.range G.n)) (e : E)
    (hc : closedIn 2 e = true) (a b : Nat) (ha : a < G.n) (hb : b < G.n) :
    eval (relabel G idx) [a, b] e = eval G [idx a, idx b] e := by
  simpa using eval_relabel G idx hperm e [a, b]
    (by intro x hx; simp at hx; rcases hx with rfl | rfl <;> assumption) (by simpa using hc)

/-- every catalogue entry is closed for its arity … -/
theorem catalogue_closed : M.all.all (fun m => closedIn m.2.1 m.2.2) = true := by decide

/-- … hence equivariant -/
theorem catalogue_relabel (G : Gr) (idx : Nat → Nat)
    (hperm : ((List.range G.n).map idx).Perm (List.range G.n)) :
    ∀ m ∈ M.all, ∀ env : List Nat, env.length = m.2.1 → (∀ x ∈ env, x < G.n) →
      eval (relabel G idx) env m.2.2 = eval G (env.map idx) m.2.2 := by
  intro m hm env hlen henv
  have := catalogue_closed
  rw [List.all_eq_true] at this
  exact eval_relabel G idx hperm m.2.2 env henv (by rw [hlen]; exact this m hm)

/-! ### non-vacuity -/
def exG : Gr :=
  { n := 3, adj := fun i j => (i, j) ∈ [(0, 1), (1, 0), (1, 2), (2, 1)],
    w := fun k => [1, 2, 3].getD k 0, la := fun _ _ _ => 0, grp := fun _ _ => false,
    dist := fun _ _ => none }
def exIdx : Nat → Nat := fun a => [2, 0, 1].getD a a

example : ((List.range exG.n).map exIdx).Perm (List.range exG.n) := by decide
example : eval exG [1] (M.outdeg 0) = 2 ∧ eval (relabel exG exIdx) [2] (M.outdeg 0) = 2 ∧
    eval (relabel exG exIdx) [1] (M.outdeg 0) = 1 := by decide +kernel

end Pyunicorn.Equiv
