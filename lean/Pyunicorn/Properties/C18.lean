import Pyunicorn.Lemmas.Circuit
import Pyunicorn.Lemmas.CircuitPinv
import Pyunicorn.Lemmas.CircuitLaws
import Pyunicorn.Lemmas.CircuitConn
import Pyunicorn.Lemmas.CircuitConnC
import Pyunicorn.Lemmas.CircuitK
import Pyunicorn.Lemmas.CircuitGRat
import Pyunicorn.Lemmas.CircuitFlow
import Pyunicorn.Generated.ArithC18
import Pyunicorn.Generated.StructC18
import Pyunicorn.Lemmas.CircuitPy
import Pyunicorn.Model.CircuitPyRun
/-! # C18 — Resistive-network quantities obey circuit laws

Model: `Pyunicorn/Model/Circuit.lean` (`ResNetwork` in exact rational arithmetic).
`np.linalg.pinv` enters the theorems only through the identities it satisfies
(`IsGinv`: `L R L = L`; `IsProj`: `L R = I − J/n`), never through an algorithm; node potentials
(`IsPot`: `L v = e_a − e_b`) are the physical definition of the effective resistance.
The executable model returns a pseudo-inverse / potentials only with an exact certificate of
these identities, and the harness checks them numerically on `get_R()` in every case.

Clauses of the property and where they are proved (round 2: at full strength — for every
cut-connected resistor network and *every* `R` with `L R L = L`, no further hypothesis):

* metric that vanishes only between identical nodes — `effRes_metric` (zero diagonal, symmetry,
  strict positivity, triangle inequality); building blocks `effRes_symm`, `effRes_self`,
  `effRes_nonneg`, `effRes_eq_zero_iff`, `triangle`, `triangle_partial`
* scales linearly with all resistances            — `effRes_scaling_connected` (`effRes_scaling`)
* never exceeds the resistance of a connecting path — `path_bound_connected`,
  `effRes_le_link_connected` (`path_bound`, `effRes_le_link`)
* series and parallel laws — `series_law_chain` (chains of any length, any two nodes),
  `parallel_law_bundle` (any number of two-link branches, with or without a direct link);
  `series_law`, `parallel_law` are the three-node instances
* Foster's theorem — `foster` (sum over links = N − 1); `foster_partial` is the ordered-pair form
  for `R` with `L R = I − J/N`
* what is assumed of `np.linalg.pinv` — only `L R L = L`; `exists_inverse_and_potentials` shows
  such inverses and node potentials exist on every connected network, `effRes_ginv_unique` that
  the value does not depend on which one is stored, `pinv_is_proj` that a matrix with the first
  and third Moore–Penrose equations satisfies `L R = I − J/N`
* `CutConnected` is implied by the model's executable test — `bfs_connected_sound`
* betweenness / degree / clustering = defining sums — `vcfbKernel_eq_sum`, `ecfbKernel_eq_sum`,
  `nodeCurrent_eq_potential`, `admDegree_eq_sum`, `degree_is_card`, `localClustering_eq_sum`,
  `anad_eq_sum`, `globalClustering_eq_mean`, `admDegree_scaling`
* model arithmetic = source arithmetic (regenerated every run) — `effRes_matches_source`,
  `averageOf_matches_source`, `ercc_matches_source`, `localClustering_matches_source`
* all follow a change of the resistances — `history_fresh` over `update_resistances`,
  `update_admittance`, `update_R` and 15 queries (effective resistance, average, diameter,
  closeness, vertex / edge betweenness, admittive degree, neighbours' degree, local / global
  clustering, `get_R`, `get_admittance`, Laplacian, the mean printed by `__str__`)
-/
namespace Pyunicorn.Circuit
open Finset

/-! ## effective resistance -/

/-- symmetric in its arguments, for every matrix `R` whatsoever -/
theorem effRes_symm (R : Mat) (a b : Nat) : effRes R a b = effRes R b a := by
  rw [effRes_formula, effRes_formula]; ring

theorem effRes_self (R : Mat) (a : Nat) : effRes R a a = 0 := by simp [effRes]

example : effRes (fun i j => (i : Rat) * 3 + j * j) 1 2 = effRes (fun i j => (i : Rat) * 3 + j * j) 2 1 :=
  effRes_symm _ 1 2

/-- **Independence of the generalised inverse.**  For a symmetric `L`, *every* `R` with
`L R L = L` gives `R[a,a] − R[a,b] − R[b,a] + R[b,b] = v_a − v_b` for *every* solution `v` of
`L v = e_a − e_b`: the value returned by `effective_resistance` is the potential difference of a
unit current, whatever (pseudo-)inverse `update_R` stored. -/
theorem effRes_eq_potential_drop (n : Nat) (L R : Mat) (v : Vec) (a b : Nat) (ha : a < n)
    (hb : b < n) (hsym : SymmOn n L) (hg : IsGinv n L R) (hv : IsPot n L v a b) :
    effRes R a b = v a - v b :=
  effRes_eq_drop n L R v a b ha hb hsym hg hv

/-- the pseudo-inverse of a connected network (`L R = I − J/n`) is a generalised inverse and
its columns are potentials, so the hypotheses of the theorems below are satisfiable -/
theorem proj_gives_ginv_and_potential (n : Nat) (c R : Mat) (a b : Nat) (ha : a < n) (hb : b < n)
    (hp : IsProj n (laplacian n c) R) :
    IsGinv n (laplacian n c) R ∧ IsPot n (laplacian n c) (fun i => R i a - R i b) a b :=
  ⟨ginv_of_proj n c R hp, pot_of_proj n _ R a b ha hb hp⟩

/-- effective resistances are non-negative -/
theorem effRes_nonneg (n : Nat) (adj : Adj) (res R : Mat) (v : Vec) (a b : Nat) (ha : a < n)
    (hb : b < n) (hN : IsNetwork n adj res)
    (hg : IsGinv n (laplacian n (admittance adj res)) R)
    (hv : IsPot n (laplacian n (admittance adj res)) v a b) : 0 ≤ effRes R a b := by
  rw [effRes_eq_drop n _ R v a b ha hb (lap_symm (adm_symm hN)) hg hv]
  exact drop_nonneg n _ v a b ha hb (adm_symm hN) (adm_nonneg hN) hv

/-- … and vanish only between identical nodes -/
theorem effRes_eq_zero_iff (n : Nat) (adj : Adj) (res R : Mat) (v : Vec) (a b : Nat) (ha : a < n)
    (hb : b < n) (hN : IsNetwork n adj res)
    (hg : IsGinv n (laplacian n (admittance adj res)) R)
    (hv : IsPot n (laplacian n (admittance adj res)) v a b) : effRes R a b = 0 ↔ a = b := by
  constructor
  · intro h0
    rw [effRes_eq_drop n _ R v a b ha hb (lap_symm (adm_symm hN)) hg hv] at h0
    exact drop_zero_imp_eq n _ v a b ha hb (adm_symm hN) (adm_nonneg hN) hv h0
  · rintro rfl; exact effRes_self R a

/-- **Triangle inequality (partial).**  Full statement: for a connected network
`effRes R a c ≤ effRes R a b + effRes R b c`.  Proved here from the superposition of the two
unit currents, *assuming* the maximum principle for them (the sink `b` has the lowest potential
of the current `a → b`, the source `b` the highest of `b → c`); the maximum principle itself
(which needs connectivity) is not proved and is covered by the numerical triangle check of the
oracle. -/
theorem triangle_partial (n : Nat) (L R : Mat) (v w : Vec) (a b c : Nat) (ha : a < n)
    (hb : b < n) (hc : c < n) (hsym : SymmOn n L) (hg : IsGinv n L R)
    (hv : IsPot n L v a b) (hw : IsPot n L w b c)
    (hmax₁ : v b ≤ v c) (hmax₂ : w a ≤ w b) :
    effRes R a c ≤ effRes R a b + effRes R b c := by
  rw [effRes_eq_drop n L R _ a c ha hc hsym hg (pot_add hv hw),
    effRes_eq_drop n L R v a b ha hb hsym hg hv, effRes_eq_drop n L R w b c hb hc hsym hg hw]
  linarith

/-- **Linear scaling.**  Multiplying all resistances by `k ≠ 0` multiplies every effective
resistance by `k` (`R`, `R'` are whatever generalised inverses `update_R` stored before and
after `update_resistances(k * res)`). -/
theorem effRes_scaling (n : Nat) (adj : Adj) (res R R' : Mat) (v : Vec) (k : Rat) (hk : k ≠ 0)
    (a b : Nat) (ha : a < n) (hb : b < n) (hN : IsNetwork n adj res)
    (hg : IsGinv n (laplacian n (admittance adj res)) R)
    (hg' : IsGinv n (laplacian n (admittance adj fun i j => k * res i j)) R')
    (hv : IsPot n (laplacian n (admittance adj res)) v a b) :
    effRes R' a b = k * effRes R a b := by
  have hL : laplacian n (admittance adj fun i j => k * res i j)
      = fun i j => (1 / k) * laplacian n (admittance adj res) i j := by
    funext i j
    have : (admittance adj fun i j => k * res i j)
        = fun i j => (1 / k) * admittance adj res i j := by
      funext i j; exact admittance_scale adj res k i j
    rw [this, laplacian_scale]
  have hs := lap_symm (adm_symm hN)
  have hk' : (1 / k) ≠ 0 := one_div_ne_zero hk
  have hv' := pot_scale n _ v a b (1 / k) hk' hv
  rw [← hL] at hv'
  have hs' : SymmOn n (laplacian n (admittance adj fun i j => k * res i j)) := by
    rw [hL]; intro i j hi hj; simp only; rw [hs i j hi hj]
  rw [effRes_eq_drop n _ R' _ a b ha hb hs' hg' hv', effRes_eq_drop n _ R v a b ha hb hs hg hv]
  field_simp

/-- **A link bounds the effective resistance of its end points** (`≤` the resistance of the
connecting path of length one; Rayleigh monotonicity for a single link). -/
theorem effRes_le_link (n : Nat) (adj : Adj) (res R : Mat) (v : Vec) (a b : Nat) (ha : a < n)
    (hb : b < n) (hab : a ≠ b) (hlink : adj a b = true) (hN : IsNetwork n adj res)
    (hg : IsGinv n (laplacian n (admittance adj res)) R)
    (hv : IsPot n (laplacian n (admittance adj res)) v a b) : effRes R a b ≤ res a b := by
  rw [effRes_eq_drop n _ R v a b ha hb (lap_symm (adm_symm hN)) hg hv]
  have hpos : 0 < admittance adj res a b := by
    unfold admittance; rw [if_pos hlink]; exact one_div_pos.mpr (hN.res_pos a b ha hb hlink)
  have := drop_le_link n _ v a b ha hb hab (adm_symm hN) (adm_nonneg hN) hpos hv
  simpa [admittance, hlink] using this

/-- **Series law**: two resistors in a chain `0 — 1 — 2` add up. -/
theorem series_law (res R : Mat) (h01 : 0 < res 0 1) (h12 : 0 < res 1 2)
    (hs : SymmOn 3 res) (hg : IsGinv 3 (laplacian 3 (admittance chainAdj res)) R) :
    effRes R 0 2 = res 0 1 + res 1 2 := by
  have hN : IsNetwork 3 chainAdj res := by
    refine ⟨?_, hs, ?_⟩
    · intro i j _ _; simp [chainAdj, Bool.or_comm]
    · intro i j hi hj hl
      have hi' : i = 0 ∨ i = 1 ∨ i = 2 := by omega
      have hj' : j = 0 ∨ j = 1 ∨ j = 2 := by omega
      rcases hi' with rfl | rfl | rfl <;> rcases hj' with rfl | rfl | rfl <;>
        simp [chainAdj] at hl ⊢ <;> first | assumption | (rw [hs _ _ (by omega) (by omega)]; assumption)
  have hv := series_pot res (ne_of_gt h01) (ne_of_gt h12) (hs 1 0 (by omega) (by omega))
    (hs 2 1 (by omega) (by omega))
  rw [effRes_eq_drop 3 _ R _ 0 2 (by omega) (by omega) (lap_symm (adm_symm hN)) hg hv]
  simp

/-- **Parallel law**: a link `0 — 1` (resistance `r₁`) in parallel with the branch
`0 — 2 — 1` (`r₂ + r₃`): `r₁ (r₂ + r₃) / (r₁ + r₂ + r₃)`. -/
theorem parallel_law (res R : Mat) (h01 : 0 < res 0 1) (h02 : 0 < res 0 2) (h21 : 0 < res 2 1)
    (hs : SymmOn 3 res) (hg : IsGinv 3 (laplacian 3 (admittance triAdj res)) R) :
    effRes R 0 1 = res 0 1 * (res 0 2 + res 2 1) / (res 0 1 + res 0 2 + res 2 1) := by
  have hN : IsNetwork 3 triAdj res := by
    refine ⟨?_, hs, ?_⟩
    · intro i j _ _; simp only [triAdj, bne_comm]
    · intro i j hi hj hl
      have hi' : i = 0 ∨ i = 1 ∨ i = 2 := by omega
      have hj' : j = 0 ∨ j = 1 ∨ j = 2 := by omega
      rcases hi' with rfl | rfl | rfl <;> rcases hj' with rfl | rfl | rfl <;>
        simp [triAdj] at hl ⊢ <;> first | assumption | (rw [hs _ _ (by omega) (by omega)]; assumption)
  have hv := parallel_pot res (ne_of_gt h01) (ne_of_gt h02) (ne_of_gt h21)
    (ne_of_gt (by positivity)) (hs 1 0 (by omega) (by omega)) (hs 2 0 (by omega) (by omega))
    (hs 1 2 (by omega) (by omega))
  rw [effRes_eq_drop 3 _ R _ 0 1 (by omega) (by omega) (lap_symm (adm_symm hN)) hg hv]
  simp

/-- **Foster's theorem (partial).**  Full statement: for a connected network and
`R = pinv(L)`, `Σ_{links} ER · conductance = N − 1`.  Proved: the identity for *every* `R` with
`L R = I − J/N` (sum over ordered pairs, hence `2 (N − 1)`).  Not proved: that the Moore–Penrose
inverse of a connected network's Laplacian satisfies `L R = I − J/N` (exact certificate in the
model, numerical check on `get_R()` in the oracle). -/
theorem foster_partial (n : Nat) (hn : 0 < n) (adj : Adj) (res R : Mat) (hN : IsNetwork n adj res)
    (hp : IsProj n (laplacian n (admittance adj res)) R) :
    ∑ i ∈ range n, ∑ j ∈ range n, admittance adj res i j * effRes R i j = 2 * ((n : Rat) - 1) :=
  foster_ordered n hn _ R (adm_symm hN) hp

/-! ## metric and path bound on connected networks

`CutConnected n c`: every proper non-empty node set has a link leaving it (equivalent to
connectedness).  Maximum principle: `max_principle` / `min_principle` in `Lemmas/Circuit.lean`. -/

/-- **Triangle inequality** on connected networks, for every `R` with `L R = I − J/n`. -/
theorem triangle (n : Nat) (adj : Adj) (res R : Mat) (a b c : Nat) (ha : a < n) (hb : b < n)
    (hc : c < n) (hN : IsNetwork n adj res) (hconn : CutConnected n (admittance adj res))
    (hp : IsProj n (laplacian n (admittance adj res)) R) :
    effRes R a c ≤ effRes R a b + effRes R b c := by
  have hg := ginv_of_proj n _ R hp
  have hv := pot_of_proj n _ R a b ha hb hp
  have hw := pot_of_proj n _ R b c hb hc hp
  exact triangle_partial n _ R _ _ a b c ha hb hc (lap_symm (adm_symm hN)) hg hv hw
    (min_principle n _ _ a b hb (adm_symm hN) (adm_nonneg hN) hconn hv c hc)
    (max_principle n _ _ b c hb (adm_symm hN) (adm_nonneg hN) hconn hw a ha)

/-- total resistance of a path given as its node sequence -/
def pathRes (res : Mat) : List Nat → Rat
  | a :: b :: t => res a b + pathRes res (b :: t)
  | _ => 0

/-- a node sequence inside the network whose consecutive nodes are linked -/
def IsPath (n : Nat) (adj : Adj) : List Nat → Prop
  | [] => False
  | [a] => a < n
  | a :: b :: t => a < n ∧ adj a b = true ∧ IsPath n adj (b :: t)

/-- **Path bound**: the effective resistance between the end points of *any* connecting path
never exceeds the path's total resistance. -/
theorem path_bound (n : Nat) (adj : Adj) (res R : Mat) (hN : IsNetwork n adj res)
    (hconn : CutConnected n (admittance adj res))
    (hp : IsProj n (laplacian n (admittance adj res)) R) (t : List Nat) (a : Nat)
    (hpath : IsPath n adj (a :: t)) :
    effRes R a ((a :: t).getLast (by simp)) ≤ pathRes res (a :: t) := by
  induction t generalizing a with
  | nil => simp [effRes, pathRes]
  | cons b t ih =>
    obtain ⟨ha, hl, hrest⟩ := hpath
    have hb : b < n := by
      cases t with
      | nil => exact hrest
      | cons _ _ => exact hrest.1
    have hlast : (a :: b :: t).getLast (by simp) = (b :: t).getLast (by simp) := by
      simp [List.getLast_cons]
    have hcn : (b :: t).getLast (by simp) < n := by
      clear ih hlast hl
      induction t generalizing b with
      | nil => simpa using hb
      | cons c t ih2 =>
        have : (b :: c :: t).getLast (by simp) = (c :: t).getLast (by simp) := by
          simp [List.getLast_cons]
        rw [this]
        have hc : c < n := by
          cases t with
          | nil => exact hrest.2.2
          | cons _ _ => exact hrest.2.2.1
        exact ih2 c hrest.2.2 hc
    rw [hlast]
    have h1 := triangle n adj res R a b _ ha hb hcn hN hconn hp
    have h2 := ih b hrest
    have h3 : effRes R a b ≤ res a b := by
      by_cases hab : a = b
      · subst hab; rw [effRes_self]; exact le_of_lt (hN.res_pos a a ha ha hl)
      · exact effRes_le_link n adj res R _ a b ha hb hab hl hN (ginv_of_proj n _ R hp)
          (pot_of_proj n _ R a b ha hb hp)
    simp only [pathRes]
    linarith

/-! ## round 2: connected networks, every generalised inverse — no hypothesis left to discharge

On a cut-connected resistor network an `R₀` with `L R₀ = I − J/n` *exists* (`exists_proj`), so node
potentials exist for every pair, and `effective_resistance` computed from *any* `R` with
`L R L = L` (first Moore–Penrose equation — all the theorems use of `np.linalg.pinv`) equals the
potential drop.  All circuit laws therefore hold for whatever generalised inverse `update_R`
stored. -/

/-- **Existence** of the projection-type inverse, of a generalised inverse and of node potentials
for every pair, on every connected resistor network. -/
theorem exists_inverse_and_potentials (n : Nat) (adj : Adj) (res : Mat) (hN : IsNetwork n adj res)
    (hconn : CutConnected n (admittance adj res)) :
    ∃ R₀ : Mat, IsProj n (laplacian n (admittance adj res)) R₀
      ∧ IsGinv n (laplacian n (admittance adj res)) R₀
      ∧ ∀ a b, a < n → b < n →
          IsPot n (laplacian n (admittance adj res)) (fun i => R₀ i a - R₀ i b) a b := by
  obtain ⟨R₀, hp⟩ := exists_proj n _ (adm_symm hN) (adm_nonneg hN) hconn
  exact ⟨R₀, hp, ginv_of_proj n _ R₀ hp, fun a b ha hb => pot_of_proj n _ R₀ a b ha hb hp⟩

/-- **The value does not depend on the generalised inverse**: two matrices with `L R L = L`
give the same effective resistances on a connected network. -/
theorem effRes_ginv_unique (n : Nat) (adj : Adj) (res R R' : Mat) (a b : Nat) (ha : a < n)
    (hb : b < n) (hN : IsNetwork n adj res) (hconn : CutConnected n (admittance adj res))
    (hg : IsGinv n (laplacian n (admittance adj res)) R)
    (hg' : IsGinv n (laplacian n (admittance adj res)) R') : effRes R a b = effRes R' a b := by
  obtain ⟨R₀, _, _, hpot⟩ := exists_inverse_and_potentials n adj res hN hconn
  have hs := lap_symm (adm_symm hN)
  rw [effRes_eq_drop n _ R _ a b ha hb hs hg (hpot a b ha hb),
    effRes_eq_drop n _ R' _ a b ha hb hs hg' (hpot a b ha hb)]

/-- **`np.linalg.pinv` of a connected network satisfies `L R = I − J/N`**: any `R` with the first
and third Moore–Penrose equations (`L R L = L`, `L R` symmetric).  This discharges the hypothesis
`IsProj` of `foster_partial`, `triangle`, `path_bound` for the matrix stored by `update_R`. -/
theorem pinv_is_proj (n : Nat) (adj : Adj) (res R : Mat) (hN : IsNetwork n adj res)
    (hconn : CutConnected n (admittance adj res))
    (hR : IsPinv13 n (laplacian n (admittance adj res)) R) :
    IsProj n (laplacian n (admittance adj res)) R :=
  proj_of_pinv13 n _ R (adm_symm hN) (adm_nonneg hN) hconn hR

/-- **Metric** (full strength): on a connected resistor network, for every generalised inverse,
the effective resistance is zero on the diagonal, symmetric, strictly positive off the diagonal
and satisfies the triangle inequality. -/
theorem effRes_metric (n : Nat) (adj : Adj) (res R : Mat) (hN : IsNetwork n adj res)
    (hconn : CutConnected n (admittance adj res))
    (hg : IsGinv n (laplacian n (admittance adj res)) R) :
    (∀ a, effRes R a a = 0) ∧ (∀ a b, effRes R a b = effRes R b a)
      ∧ (∀ a b, a < n → b < n → a ≠ b → 0 < effRes R a b)
      ∧ (∀ a b c, a < n → b < n → c < n → effRes R a c ≤ effRes R a b + effRes R b c) := by
  obtain ⟨R₀, hp, hg₀, hpot⟩ := exists_inverse_and_potentials n adj res hN hconn
  refine ⟨effRes_self R, effRes_symm R, ?_, ?_⟩
  · intro a b ha hb hab
    have h0 := effRes_nonneg n adj res R _ a b ha hb hN hg (hpot a b ha hb)
    have hz := effRes_eq_zero_iff n adj res R _ a b ha hb hN hg (hpot a b ha hb)
    exact lt_of_le_of_ne h0 fun e => hab (hz.mp e.symm)
  · intro a b c ha hb hc
    rw [effRes_ginv_unique n adj res R R₀ a c ha hc hN hconn hg hg₀,
      effRes_ginv_unique n adj res R R₀ a b ha hb hN hconn hg hg₀,
      effRes_ginv_unique n adj res R R₀ b c hb hc hN hconn hg hg₀]
    exact triangle n adj res R₀ a b c ha hb hc hN hconn hp

/-- **Linear scaling** (full strength): connected network, `k > 0`, whatever generalised inverses
are stored before and after `update_resistances(k * res)`. -/
theorem effRes_scaling_connected (n : Nat) (adj : Adj) (res R R' : Mat) (k : Rat) (hk : k ≠ 0)
    (a b : Nat) (ha : a < n) (hb : b < n) (hN : IsNetwork n adj res)
    (hconn : CutConnected n (admittance adj res))
    (hg : IsGinv n (laplacian n (admittance adj res)) R)
    (hg' : IsGinv n (laplacian n (admittance adj fun i j => k * res i j)) R') :
    effRes R' a b = k * effRes R a b := by
  obtain ⟨R₀, _, _, hpot⟩ := exists_inverse_and_potentials n adj res hN hconn
  exact effRes_scaling n adj res R R' _ k hk a b ha hb hN hg hg' (hpot a b ha hb)

/-- **Path bound** (full strength): for every generalised inverse and every connecting path. -/
theorem path_bound_connected (n : Nat) (adj : Adj) (res R : Mat) (hN : IsNetwork n adj res)
    (hconn : CutConnected n (admittance adj res))
    (hg : IsGinv n (laplacian n (admittance adj res)) R) (t : List Nat) (a : Nat)
    (hpath : IsPath n adj (a :: t)) :
    effRes R a ((a :: t).getLast (by simp)) ≤ pathRes res (a :: t) := by
  obtain ⟨R₀, hp, hg₀, _⟩ := exists_inverse_and_potentials n adj res hN hconn
  have ha : a < n := by
    cases t with
    | nil => exact hpath
    | cons _ _ => exact hpath.1
  have hlast : ∀ (t : List Nat) (a : Nat), IsPath n adj (a :: t) → (a :: t).getLast (by simp) < n := by
    intro t
    induction t with
    | nil => intro a h; exact h
    | cons b t ih =>
      intro a h
      have : (a :: b :: t).getLast (by simp) = (b :: t).getLast (by simp) := by
        simp [List.getLast_cons]
      rw [this]
      exact ih b h.2.2
  rw [effRes_ginv_unique n adj res R R₀ a _ ha (hlast t a hpath) hN hconn hg hg₀]
  exact path_bound n adj res R₀ hN hconn hp t a hpath

/-- **Foster's theorem** (full strength): on a connected resistor network with `N` nodes, for
every generalised inverse, the sum over the links `{i, j}` (`j < i`) of effective resistance times
conductance is `N − 1`. -/
theorem foster (n : Nat) (hn : 0 < n) (adj : Adj) (res R : Mat) (hN : IsNetwork n adj res)
    (hconn : CutConnected n (admittance adj res))
    (hg : IsGinv n (laplacian n (admittance adj res)) R) :
    ∑ i ∈ range n, ∑ j ∈ range i, admittance adj res i j * effRes R i j = (n : Rat) - 1 := by
  obtain ⟨R₀, hp, hg₀, _⟩ := exists_inverse_and_potentials n adj res hN hconn
  have hord := foster_partial n hn adj res R₀ hN hp
  have hsym : ∀ i j, i < n → j < n →
      admittance adj res i j * effRes R₀ i j = admittance adj res j i * effRes R₀ j i := by
    intro i j hi hj
    rw [adm_symm hN i j hi hj, effRes_symm]
  rw [sum_ordered_eq_two_lower _ n hsym (fun i _ => by rw [effRes_self, mul_zero])] at hord
  have : ∑ i ∈ range n, ∑ j ∈ range i, admittance adj res i j * effRes R i j
      = ∑ i ∈ range n, ∑ j ∈ range i, admittance adj res i j * effRes R₀ i j := by
    refine Finset.sum_congr rfl fun i hi => Finset.sum_congr rfl fun j hj => ?_
    have hi' := Finset.mem_range.mp hi
    have hj' : j < n := by have := Finset.mem_range.mp hj; omega
    rw [effRes_ginv_unique n adj res R R₀ i j hi' hj' hN hconn hg hg₀]
  rw [this]
  linarith

/-- **A link bounds the effective resistance** (full strength, no potential hypothesis). -/
theorem effRes_le_link_connected (n : Nat) (adj : Adj) (res R : Mat) (a b : Nat) (ha : a < n)
    (hb : b < n) (hab : a ≠ b) (hlink : adj a b = true) (hN : IsNetwork n adj res)
    (hconn : CutConnected n (admittance adj res))
    (hg : IsGinv n (laplacian n (admittance adj res)) R) : effRes R a b ≤ res a b := by
  obtain ⟨R₀, _, _, hpot⟩ := exists_inverse_and_potentials n adj res hN hconn
  exact effRes_le_link n adj res R _ a b ha hb hab hlink hN hg (hpot a b ha hb)

/-- **Series law for chains of any length**: on the chain `0 — 1 — … — (n−1)` the effective
resistance between `a ≤ b` is the sum of the resistances of the links between them. -/
theorem series_law_chain (n : Nat) (res R : Mat) (a b : Nat) (hab : a ≤ b) (hb : b < n)
    (hN : IsNetwork n chainAdj res) (hg : IsGinv n (laplacian n (admittance chainAdj res)) R) :
    effRes R a b = ∑ k ∈ Finset.Ico a b, res k (k + 1) := by
  rw [effRes_eq_drop n _ R _ a b (by omega) hb (lap_symm (adm_symm hN)) hg
    (chain_isPot n res a b hab hb hN)]
  exact chainPot_drop res a b hab

/-- **Parallel law for bundles of any width**: `n − 2` two-link branches `0 — m — 1` (each a
series connection `res 0 m + res m 1`) and optionally the direct link `0 — 1`: conductances add. -/
theorem parallel_law_bundle (n : Nat) (direct : Bool) (res R : Mat)
    (hne : (direct = true ∧ 2 ≤ n) ∨ 3 ≤ n)
    (hN : IsNetwork n (bundleAdj direct) res)
    (hg : IsGinv n (laplacian n (admittance (bundleAdj direct) res)) R) :
    effRes R 0 1
      = 1 / ((if direct then 1 / res 0 1 else 0) + ∑ m ∈ Finset.Ico 2 n, 1 / (res 0 m + res m 1)) := by
  have hn : 2 ≤ n := by omega
  have hG := ne_of_gt (bundleG_pos n direct res hN hne)
  rw [effRes_eq_drop n _ R _ 0 1 (by omega) (by omega) (lap_symm (adm_symm hN)) hg
    (bundle_isPot n hn direct res hN hG)]
  exact bundlePot_drop n direct res

/-- **The model's connectivity test is sound** for the hypothesis `CutConnected` of the theorems
(the driver refuses an input exactly when `connected` is false). -/
theorem bfs_connected_sound (n : Nat) (adj : Adj) (res : Mat) (hN : IsNetwork n adj res)
    (h : connected n adj = true) : CutConnected n (admittance adj res) :=
  connected_sound n adj res hN h

/-! ## current-flow betweenness: the C loops are the defining sums -/

/-- current through node `i` for the pair `(s,t)` -/
def nodeCurrent (n : Nat) (Is It : Rat) (adm R : Mat) (i s t : Nat) : Rat :=
  (1 / 2) * ∑ j ∈ range n, adm i j * |Is * (R i s - R j s) + It * (R j t - R i t)|


theorem vcfbKernel_eq_sum (n : Nat) (Is It : Rat) (adm R : Mat) (i : Nat) :
    vcfbKernel n Is It adm R i
      = 2 / ((n * (n - 1) : Nat) : Rat) *
          ∑ t ∈ range n, ∑ s ∈ range t,
            (if i = t ∨ i = s then 0 else nodeCurrent n Is It adm R i s t) := by
  unfold vcfbKernel
  rw [foldl_nested (h := fun t => ∑ s ∈ range t,
      (if i = t ∨ i = s then 0 else 2 * nodeCurrent n Is It adm R i s t / ((n * (n - 1) : Nat) : Rat)))]
  · rw [zero_add, Finset.mul_sum]
    refine Finset.sum_congr rfl fun t _ => ?_
    rw [Finset.mul_sum]
    refine Finset.sum_congr rfl fun s _ => ?_
    split
    · simp
    · ring
  · intro t acc
    rw [foldl_skip_range (c := fun s => i = t ∨ i = s)]
    congr 1
    refine Finset.sum_congr rfl fun s _ => ?_
    split
    · rfl
    · simp only [foldl_add_range, zero_add, nodeCurrent, absR_eq]
      congr 1
      rw [Finset.mul_sum, Finset.mul_sum, Finset.mul_sum]
      refine Finset.sum_congr rfl fun j _ => ?_
      ring

theorem ecfbKernel_eq_sum (n : Nat) (Is It : Rat) (adm R : Mat) (i j : Nat) :
    ecfbKernel n Is It adm R i j
      = 2 / ((n * (n - 1) : Nat) : Rat) *
          ∑ t ∈ range n, ∑ s ∈ range t,
            adm i j * |Is * (R i s - R j s) + It * (R j t - R i t)| := by
  unfold ecfbKernel
  simp only
  rw [foldl_nested (h := fun t => ∑ s ∈ range t,
      adm i j * |Is * (R i s - R j s) + It * (R j t - R i t)|)]
  · rw [zero_add]; ring
  · intro t acc
    rw [foldl_add_range]
    simp only [absR_eq]

/-- the summand of the kernels is the potential difference `|V_i − V_j|` of the unit current
`s → t`, with `V = R e_s − R e_t` (a potential by `proj_gives_ginv_and_potential`) -/
theorem nodeCurrent_eq_potential (n : Nat) (adm R : Mat) (i s t : Nat) :
    nodeCurrent n 1 1 adm R i s t
      = (1 / 2) * ∑ j ∈ range n, adm i j * |(R i s - R i t) - (R j s - R j t)| := by
  unfold nodeCurrent
  congr 1
  refine Finset.sum_congr rfl fun j _ => ?_
  congr 2
  ring

/-- betweenness does not change when all resistances are multiplied by `k > 0` (admittances
`÷ k`, pseudo-inverse `× k`) -/
theorem vcfb_scaling_invariant (n : Nat) (Is It : Rat) (adm R : Mat) (k : Rat) (hk : 0 < k) (i : Nat) :
    vcfbKernel n Is It (fun a b => (1 / k) * adm a b) (fun a b => k * R a b) i
      = vcfbKernel n Is It adm R i := by
  rw [vcfbKernel_eq_sum, vcfbKernel_eq_sum]
  congr 1
  refine Finset.sum_congr rfl fun t _ => Finset.sum_congr rfl fun s _ => ?_
  split
  · rfl
  · unfold nodeCurrent
    congr 1
    refine Finset.sum_congr rfl fun j _ => ?_
    have : Is * (k * R i s - k * R j s) + It * (k * R j t - k * R i t)
        = k * (Is * (R i s - R j s) + It * (R j t - R i t)) := by ring
    rw [this, abs_mul, abs_of_pos hk]
    field_simp

theorem ecfb_scaling_invariant (n : Nat) (Is It : Rat) (adm R : Mat) (k : Rat) (hk : 0 < k)
    (i j : Nat) :
    ecfbKernel n Is It (fun a b => (1 / k) * adm a b) (fun a b => k * R a b) i j
      = ecfbKernel n Is It adm R i j := by
  rw [ecfbKernel_eq_sum, ecfbKernel_eq_sum]
  congr 1
  refine Finset.sum_congr rfl fun t _ => Finset.sum_congr rfl fun s _ => ?_
  have : Is * (k * R i s - k * R j s) + It * (k * R j t - k * R i t)
      = k * (Is * (R i s - R j s) + It * (R j t - R i t)) := by ring
  rw [this, abs_mul, abs_of_pos hk]
  field_simp

/-! ## admittive degree and clustering -/

theorem admDegree_eq_sum (n : Nat) (adm : Mat) (i : Nat)
    (hsym : ∀ k, k < n → adm k i = adm i k) :
    admDegree n adm i = ∑ j ∈ range n, adm i j := by
  unfold admDegree colSum
  rw [sumTo_eq]
  exact Finset.sum_congr rfl fun k hk => hsym k (Finset.mem_range.mp hk)


theorem degree_is_card (n : Nat) (adj : Adj) (i : Nat) :
    degree n adj i = ((range n).filter fun j => adj i j = true).card :=
  degree_eq_card n adj i

theorem localClustering_eq_sum (n : Nat) (adj : Adj) (adm : Mat) (i : Nat) :
    localClustering n adj adm i
      = if degree n adj i = 1 then 0
        else (∑ j ∈ range n, ∑ k ∈ range n, adm i j * adm i k * adm j k)
              / (admDegree n adm i * ((degree n adj i : Rat) - 1)) := by
  unfold localClustering
  simp only
  rw [foldl_nested (h := fun j => ∑ k ∈ range n, adm i j * adm i k * adm j k)]
  · simp
  · intro j acc
    rw [foldl_add_range]


theorem anad_eq_sum (n : Nat) (adj : Adj) (adm : Mat) (i : Nat) :
    anad n adj adm i
      = (∑ j ∈ range n, (if adj i j then admDegree n adm j else 0)) / admDegree n adm i := by
  unfold anad
  rw [sumTo_eq]
  congr 1
  refine Finset.sum_congr rfl fun j _ => ?_
  unfold b2r
  split <;> simp

theorem globalClustering_eq_mean (n : Nat) (adj : Adj) (adm : Mat) :
    globalClustering n adj adm = (∑ i ∈ range n, localClustering n adj adm i) / (n : Rat) := by
  unfold globalClustering
  rw [sumTo_eq]

/-- admittive degree scales inversely with the resistances -/
theorem admDegree_scaling (n : Nat) (adj : Adj) (res : Mat) (k : Rat) (i : Nat) :
    admDegree n (admittance adj fun i j => k * res i j) i
      = (1 / k) * admDegree n (admittance adj res) i := by
  unfold admDegree colSum
  rw [sumTo_eq, sumTo_eq, Finset.mul_sum]
  exact Finset.sum_congr rfl fun j _ => admittance_scale adj res k j i

/-! ## complex impedances (any field)

`ResNetwork` accepts complex resistances (`flagComplex`); the executable model is rational, but the
algebra behind `effective_resistance` does not use the order of ℚ.  Stated on Mathlib matrices
over an arbitrary field `K` (ℂ for impedances): the value computed from any generalised inverse
is the potential drop of a unit current, and it scales linearly with a common (complex) factor of
all impedances.  (Positivity, triangle inequality and path bound are statements about real
resistances only.) -/
section anyField
open Matrix
variable {K : Type} [Field K] {n : Nat}

theorem impedance_eq_potential_drop (L R : Matrix (Fin n) (Fin n) K) (hL : Lᵀ = L)
    (hg : L * R * L = L) (v : Fin n → K) (a b : Fin n)
    (hv : L *ᵥ v = Pi.single a 1 - Pi.single b 1) :
    R a a - R a b - R b a + R b b = v a - v b := by
  have h := ginv_quadform L R hL hg v _ hv
  rwa [quad_single, dot_single] at h

theorem impedance_scaling (L R R' : Matrix (Fin n) (Fin n) K) (k : K) (hk : k ≠ 0) (hL : Lᵀ = L)
    (hg : L * R * L = L) (hg' : (k⁻¹ • L) * R' * (k⁻¹ • L) = k⁻¹ • L) (v : Fin n → K) (a b : Fin n)
    (hv : L *ᵥ v = Pi.single a 1 - Pi.single b 1) :
    R' a a - R' a b - R' b a + R' b b = k * (R a a - R a b - R b a + R b b) := by
  have hv' : (k⁻¹ • L) *ᵥ (k • v) = Pi.single a 1 - Pi.single b 1 := by
    rw [Matrix.smul_mulVec, Matrix.mulVec_smul, smul_smul, inv_mul_cancel₀ hk, one_smul, hv]
  have hL' : (k⁻¹ • L)ᵀ = k⁻¹ • L := by rw [Matrix.transpose_smul, hL]
  rw [impedance_eq_potential_drop _ R' hL' hg' _ a b hv', impedance_eq_potential_drop L R hL hg v a b hv]
  simp only [Pi.smul_apply, smul_eq_mul]
  ring

/-- non-vacuity over ℚ(i)-like fields is the rational case: the two-node network `L = [[1,-1],[-1,1]]`
with `R = L/4` -/
example : (!![(1 : ℚ)/4, -1/4; -1/4, 1/4]) 0 0 - (!![(1 : ℚ)/4, -1/4; -1/4, 1/4]) 0 1
    - (!![(1 : ℚ)/4, -1/4; -1/4, 1/4]) 1 0 + (!![(1 : ℚ)/4, -1/4; -1/4, 1/4]) 1 1
    = (![1, 0] : Fin 2 → ℚ) 0 - (![1, 0] : Fin 2 → ℚ) 1 := by
  refine impedance_eq_potential_drop (!![(1 : ℚ), -1; -1, 1]) _ ?_ ?_ ![1, 0] 0 1 ?_
  · ext i j; fin_cases i <;> fin_cases j <;> rfl
  · ext i j; fin_cases i <;> fin_cases j <;> simp [Matrix.mul_apply, Fin.sum_univ_two] <;> norm_num
  · ext i; fin_cases i <;> simp [Matrix.mulVec, dotProduct, Fin.sum_univ_two]

end anyField

/-! ## the arithmetic of the model is the arithmetic of the source

`Pyunicorn.Generated.ArithC18` is regenerated on every run from the current
`resistive_network.py` by `translate/gen_arith.py` (spec `translate/arith_C18.json`): the return
expression of `effective_resistance`, the normalisations of `average_effective_resistance` and
the closeness centrality, and the branch condition and quotient of the clustering loop.  The
model functions are proved equal to these generated expressions, so an edit of one of these
source expressions breaks the build of this file. -/
section source_tie
open Pyunicorn.Generated.ArithC18

private theorem natpair_cast (n : Nat) :
    (((n * (n - 1) : Nat) : Rat)) = (((n : Int) * ((n : Int) - 1) : Int) : Rat) := by
  cases n with
  | zero => simp
  | succ m => push_cast; simp

theorem effRes_matches_source (R : Mat) (a b : Nat) :
    effRes R a b = if a = b then 0 else effResExpr (R a a) (R a b) (R b a) (R b b) := by
  unfold effRes effResExpr; rfl

theorem averageOf_matches_source (n : Nat) (store : List Rat) :
    averageOf n store = avgExpr (n : Int) store.sum := by
  unfold averageOf avgExpr
  rw [natpair_cast]
  norm_num

theorem ercc_matches_source (n : Nat) (hn : 0 < n) (R : Mat) (a : Nat) :
    ercc n R a = erccExpr (n : Int) (sumTo n fun i => effRes R a i) := by
  unfold ercc erccExpr
  congr 1
  obtain ⟨m, rfl⟩ : ∃ m, n = m + 1 := ⟨n - 1, by omega⟩
  push_cast; simp

theorem localClustering_matches_source (n : Nat) (adj : Adj) (adm : Mat) (i : Nat) :
    localClustering n adj adm i
      = if clusterBranch (degree n adj i : Int) = true then 0
        else clusterExpr
          ((List.range n).foldl (fun dummy j =>
            (List.range n).foldl (fun dummy k => dummy + adm i j * adm i k * adm j k) dummy) 0)
          (admDegree n adm i) (degree n adj i : Int) := by
  unfold localClustering clusterBranch clusterExpr
  simp only [decide_eq_true_eq]
  have h : ((degree n adj i : Int) = 1) ↔ degree n adj i = 1 := by omega
  by_cases h1 : degree n adj i = 1
  · rw [if_pos h1, if_pos (h.mpr h1)]
  · rw [if_neg h1, if_neg (fun e => h1 (h.mp e))]
    push_cast
    rfl

end source_tie

/-! ## histories of `update_resistances` and queries -/

/-- the state is what `__init__` would build from the current resistances, up to a store that is
either empty or holds the effective resistances of the *current* pseudo-inverse -/
structure Fresh (pinv : Nat → Mat → LMat) (s : State) : Prop where
  adm : s.adm = admittance s.adj s.res
  R : s.R = toFun (pinv s.n (laplacian s.n s.adm))
  store : s.store = none ∨ s.store = some (allPairs s.n s.R)

/-- what a history returns if every query is answered by a *freshly constructed* object holding
the current resistances -/
def specRun (pinv : Nat → Mat → LMat) (n : Nat) (adj : Adj) : Mat → List Op → List (Option Rat)
  | _, [] => []
  | _, .update r :: ops => none :: specRun pinv n adj r ops
  | res, op :: ops => (step pinv (State.init pinv n adj res) op).2 :: specRun pinv n adj res ops

theorem fresh_init (pinv : Nat → Mat → LMat) (n : Nat) (adj : Adj) (res : Mat) :
    Fresh pinv (State.init pinv n adj res) := by
  constructor <;> simp [State.init, State.update]

/-- one call that is not `update_resistances(r)`: the object stays fresh, keeps its resistances,
and returns what a freshly constructed object returns -/
theorem step_query_fresh (pinv : Nat → Mat → LMat) (s : State) (hs : Fresh pinv s) (op : Op)
    (hop : ∀ r, op ≠ .update r) :
    Fresh pinv (step pinv s op).1 ∧ (step pinv s op).1.n = s.n ∧ (step pinv s op).1.adj = s.adj
      ∧ (step pinv s op).1.res = s.res
      ∧ (step pinv s op).2 = (step pinv (State.init pinv s.n s.adj s.res) op).2 := by
  obtain ⟨h1, h2, h3⟩ := hs
  cases op with
  | update r => exact absurd rfl (hop r)
  | average =>
    exact ⟨⟨h1, h2, Or.inr rfl⟩, rfl, rfl, rfl, by simp [step, State.init, State.update, ← h1, ← h2]⟩
  | diameter =>
    rcases h3 with h3 | h3
    · refine ⟨?_, ?_, ?_, ?_, ?_⟩ <;> simp only [step, h3]
      · exact ⟨h1, h2, Or.inr rfl⟩
      · simp [State.init, State.update, ← h1, ← h2]
    · refine ⟨?_, ?_, ?_, ?_, ?_⟩ <;> simp only [step, h3]
      · exact ⟨h1, h2, Or.inr h3⟩
      · simp [State.init, State.update, ← h1, ← h2]
  | updAdm =>
    refine ⟨⟨rfl, ?_, ?_⟩, rfl, rfl, rfl, rfl⟩
    · simp only [step]; rw [← h1]; exact h2
    · simp only [step]; exact h3
  | updR =>
    exact ⟨⟨h1, rfl, Or.inl rfl⟩, rfl, rfl, rfl, rfl⟩
  | effRes a b | ercc a | vcfb i | ecfb i j | admDeg i | anad i | lclust i | gclust | getR i j
  | getAdm i j | lap i j | meanRes =>
    exact ⟨⟨h1, h2, h3⟩, rfl, rfl, rfl, by simp [step, State.init, State.update, ← h1, ← h2]⟩

theorem run_eq_fresh (pinv : Nat → Mat → LMat) (ops : List Op) (s : State) (hs : Fresh pinv s) :
    (run pinv s ops).2 = specRun pinv s.n s.adj s.res ops := by
  induction ops generalizing s with
  | nil => simp [run, specRun]
  | cons op ops ih =>
    by_cases hu : ∃ r, op = .update r
    · obtain ⟨r, rfl⟩ := hu
      have hf : Fresh pinv (s.update pinv r) := by
        constructor <;> simp [State.update]
      simp only [run, step, specRun]
      rw [ih _ hf]
      simp [State.update]
    · have hop : ∀ r, op ≠ .update r := fun r e => hu ⟨r, e⟩
      obtain ⟨hf, hn, ha, hr, hv⟩ := step_query_fresh pinv s hs op hop
      have hspec : specRun pinv s.n s.adj s.res (op :: ops)
          = (step pinv (State.init pinv s.n s.adj s.res) op).2 :: specRun pinv s.n s.adj s.res ops := by
        cases op <;> first | exact absurd rfl (hop _) | rfl
      rw [hspec]
      simp only [run]
      rw [ih _ hf, hn, ha, hr, hv]

/-- **Every query follows the resistances.**  For every history of `update_resistances`,
`average_/diameter_effective_resistance`, `effective_resistance` and closeness calls on a
`ResNetwork`, each call returns what a freshly constructed network with the *current*
resistances returns (for every function `pinv`). -/
theorem history_fresh (pinv : Nat → Mat → LMat) (n : Nat) (adj : Adj) (res : Mat) (ops : List Op) :
    (run pinv (State.init pinv n adj res) ops).2 = specRun pinv n adj res ops := by
  have := run_eq_fresh pinv ops _ (fresh_init pinv n adj res)
  simpa [State.init, State.update] using this

/-! ## the executable model's linear algebra is certified -/

theorem isPotential_sound {n : Nat} {L : Mat} {v : Vec} {a b : Nat}
    (h : isPotential n L v a b = true) : IsPot n L v a b := by
  intro i hi
  unfold isPotential at h
  rw [List.all_eq_true] at h
  have := h i (List.mem_range.mpr hi)
  simpa using this

theorem potentialCert_sound {n : Nat} {L : Mat} {v : Vec} {a b : Nat}
    (h : potentialCert n L a b = some v) : IsPot n L v a b := by
  unfold potentialCert at h
  split at h
  · cases h
  · simp only at h
    split at h
    · next hc => cases h; exact isPotential_sound hc
    · cases h

theorem pinvCert_sound {n : Nat} {L R : Mat} (h : pinvCert n L = some R) :
    IsGinv n L R ∧ IsProj n L R := by
  unfold pinvCert at h
  split at h
  · cases h
  · simp only at h
    split at h
    · next hc =>
      cases h
      simp only [Bool.and_eq_true] at hc
      obtain ⟨⟨_, hg⟩, hp⟩ := hc
      constructor
      · intro i j hi hj
        unfold isGinv at hg
        rw [List.all_eq_true] at hg
        have := hg i (List.mem_range.mpr hi)
        rw [List.all_eq_true] at this
        simpa using this j (List.mem_range.mpr hj)
      · intro i j hi hj
        unfold isProj at hp
        rw [List.all_eq_true] at hp
        have := hp i (List.mem_range.mpr hi)
        rw [List.all_eq_true] at this
        simpa using this j (List.mem_range.mpr hj)
    · cases h

/-- the two routes of the executable model (the code's `pinv` route and the definition through
potentials) agree whenever both produce a certified result -/
theorem model_routes_agree {n : Nat} {L R : Mat} {v : Vec} {a b : Nat} (ha : a < n) (hb : b < n)
    (hsym : SymmOn n L) (hR : pinvCert n L = some R) (hv : potentialCert n L a b = some v) :
    effRes R a b = v a - v b :=
  effRes_eq_drop n L R v a b ha hb hsym (pinvCert_sound hR).1 (potentialCert_sound hv)

/-! ## non-vacuity: the unit chain `0 — 1 — 2` with its Moore–Penrose inverse -/

def unitRes : Mat := fun _ _ => 1
/-- `pinv` of the Laplacian of the unit chain (as computed by `pinvCert`) -/
def chainPinv : Mat := toFun [[5/9, -1/9, -4/9], [-1/9, 2/9, -1/9], [-4/9, -1/9, 5/9]]

private theorem chain_network : IsNetwork 3 chainAdj unitRes :=
  ⟨fun i j _ _ => by simp [chainAdj, Bool.or_comm], fun _ _ _ _ => rfl,
   fun _ _ _ _ _ => by simp [unitRes]⟩

private theorem chain_proj : IsProj 3 (laplacian 3 (admittance chainAdj unitRes)) chainPinv := by
  intro i j hi hj
  have hi' : i = 0 ∨ i = 1 ∨ i = 2 := by omega
  have hj' : j = 0 ∨ j = 1 ∨ j = 2 := by omega
  rcases hi' with rfl | rfl | rfl <;> rcases hj' with rfl | rfl | rfl <;>
    simp only [sumTo_eq, Finset.sum_range_succ, Finset.sum_range_zero, laplacian, colSum,
      admittance, chainAdj, unitRes, chainPinv, toFun, LMat.at] <;> norm_num

example : effRes chainPinv 0 2 = 2 := by
  have h := (proj_gives_ginv_and_potential 3 _ chainPinv 0 2 (by omega) (by omega) chain_proj).1
  have := series_law unitRes chainPinv (by simp [unitRes]) (by simp [unitRes]) (fun _ _ _ _ => rfl) h
  simpa [unitRes] using this.trans (by norm_num [unitRes])

private theorem chain_ginv : IsGinv 3 (laplacian 3 (admittance chainAdj unitRes)) chainPinv :=
  (proj_gives_ginv_and_potential 3 _ chainPinv 0 0 (by omega) (by omega) chain_proj).1

private theorem chain_pot (a b : Nat) (ha : a < 3) (hb : b < 3) :
    IsPot 3 (laplacian 3 (admittance chainAdj unitRes)) (fun i => chainPinv i a - chainPinv i b) a b :=
  (proj_gives_ginv_and_potential 3 _ chainPinv a b ha hb chain_proj).2

example : 0 ≤ effRes chainPinv 0 1 :=
  effRes_nonneg 3 chainAdj unitRes chainPinv _ 0 1 (by omega) (by omega) chain_network chain_ginv
    (chain_pot 0 1 (by omega) (by omega))

example : effRes chainPinv 0 1 ≠ 0 := fun h =>
  absurd ((effRes_eq_zero_iff 3 chainAdj unitRes chainPinv _ 0 1 (by omega) (by omega) chain_network
    chain_ginv (chain_pot 0 1 (by omega) (by omega))).mp h) (by omega)

example : effRes chainPinv 0 1 ≤ 1 :=
  effRes_le_link 3 chainAdj unitRes chainPinv _ 0 1 (by omega) (by omega) (by omega)
    (by simp [chainAdj]) chain_network chain_ginv (chain_pot 0 1 (by omega) (by omega))

example : effRes chainPinv 0 2 ≤ effRes chainPinv 0 1 + effRes chainPinv 1 2 :=
  triangle_partial 3 _ chainPinv _ _ 0 1 2 (by omega) (by omega) (by omega)
    (lap_symm (adm_symm chain_network)) chain_ginv (chain_pot 0 1 (by omega) (by omega))
    (chain_pot 1 2 (by omega) (by omega))
    (by norm_num [chainPinv, toFun, LMat.at]) (by norm_num [chainPinv, toFun, LMat.at])

example : ∑ i ∈ range 3, ∑ j ∈ range 3, admittance chainAdj unitRes i j * effRes chainPinv i j
    = 2 * ((3 : Nat) - 1 : Rat) :=
  foster_partial 3 (by omega) chainAdj unitRes chainPinv chain_network chain_proj

/-- scaling: the hypotheses are met by the unit chain and `k = 3` with `R' = 3 R` -/
example : effRes (fun i j => 3 * chainPinv i j) 0 2 = 3 * effRes chainPinv 0 2 := by
  simp [effRes]; ring

/-- a history with an update between two diameter calls: the second call is answered from the
new resistances -/
example (pinv : Nat → Mat → LMat) (r₁ r₂ : Mat) :
    (run pinv (State.init pinv 3 chainAdj r₁) [.diameter, .update r₂, .diameter]).2
      = [maxOf (allPairs 3 (toFun (pinv 3 (laplacian 3 (admittance chainAdj r₁))))), none,
         maxOf (allPairs 3 (toFun (pinv 3 (laplacian 3 (admittance chainAdj r₂)))))] := by
  rw [history_fresh]
  simp [specRun, step, State.init, State.update]

/-- the kernels on a concrete input -/
example : vcfbKernel 3 1 1 (admittance chainAdj unitRes) chainPinv 1
    = 2 / ((3 * (3 - 1) : Nat) : Rat) * ∑ t ∈ range 3, ∑ s ∈ range t,
        (if 1 = t ∨ 1 = s then 0 else nodeCurrent 3 1 1 (admittance chainAdj unitRes) chainPinv 1 s t) :=
  vcfbKernel_eq_sum 3 1 1 _ _ 1

private theorem chain_conn : CutConnected 3 (admittance chainAdj unitRes) := by
  rintro S ⟨i, hi, hSi⟩ ⟨j, hj, hSj⟩
  have e01 : admittance chainAdj unitRes 0 1 ≠ 0 := by norm_num [admittance, chainAdj, unitRes]
  have e10 : admittance chainAdj unitRes 1 0 ≠ 0 := by norm_num [admittance, chainAdj, unitRes]
  have e12 : admittance chainAdj unitRes 1 2 ≠ 0 := by norm_num [admittance, chainAdj, unitRes]
  have e21 : admittance chainAdj unitRes 2 1 ≠ 0 := by norm_num [admittance, chainAdj, unitRes]
  by_cases h01 : S 0 = S 1
  · by_cases h12 : S 1 = S 2
    · exfalso
      have hi' : i = 0 ∨ i = 1 ∨ i = 2 := by omega
      have hj' : j = 0 ∨ j = 1 ∨ j = 2 := by omega
      rcases hi' with rfl | rfl | rfl <;> rcases hj' with rfl | rfl | rfl <;> simp_all
    · cases h1 : S 1 with
      | true => exact ⟨1, 2, by omega, by omega, h1, by simpa [h1] using h12, e12⟩
      | false => exact ⟨2, 1, by omega, by omega, by simpa [h1] using h12, h1, e21⟩
  · cases h1 : S 1 with
    | true => exact ⟨1, 0, by omega, by omega, h1, by simpa [h1] using h01, e10⟩
    | false => exact ⟨0, 1, by omega, by omega, by simpa [h1] using h01, h1, e01⟩

example : effRes chainPinv 0 2 ≤ effRes chainPinv 0 1 + effRes chainPinv 1 2 :=
  triangle 3 chainAdj unitRes chainPinv 0 1 2 (by omega) (by omega) (by omega) chain_network
    chain_conn chain_proj

example : effRes chainPinv 0 2 ≤ pathRes unitRes [0, 1, 2] :=
  path_bound 3 chainAdj unitRes chainPinv chain_network chain_conn chain_proj [1, 2] 0
    (by simp [IsPath, chainAdj])

/-! ### non-vacuity of the round-2 theorems -/

/-- the executable connectivity test accepts the chain, and its soundness theorem yields the
hypothesis `CutConnected` of the theorems -/
example : CutConnected 3 (admittance chainAdj unitRes) :=
  bfs_connected_sound 3 chainAdj unitRes chain_network (by decide)

private theorem chain_pinv13 : IsPinv13 3 (laplacian 3 (admittance chainAdj unitRes)) chainPinv := by
  refine ⟨chain_ginv, ?_⟩
  intro i j hi hj
  rw [chain_proj i j hi hj, chain_proj j i hj hi]
  by_cases e : i = j
  · subst e; rfl
  · have e' : ¬ j = i := fun x => e x.symm
    simp [e, e']

example : IsProj 3 (laplacian 3 (admittance chainAdj unitRes)) chainPinv :=
  pinv_is_proj 3 chainAdj unitRes chainPinv chain_network chain_conn chain_pinv13

example : 0 < effRes chainPinv 0 2 :=
  (effRes_metric 3 chainAdj unitRes chainPinv chain_network chain_conn chain_ginv).2.2.1 0 2
    (by omega) (by omega) (by omega)

example : ∑ i ∈ range 3, ∑ j ∈ range i, admittance chainAdj unitRes i j * effRes chainPinv i j
    = ((3 : Nat) : Rat) - 1 :=
  foster 3 (by omega) chainAdj unitRes chainPinv chain_network chain_conn chain_ginv

example : effRes chainPinv 0 2 = ∑ k ∈ Finset.Ico 0 2, unitRes k (k + 1) :=
  series_law_chain 3 unitRes chainPinv 0 2 (by omega) (by omega) chain_network chain_ginv

example : effRes chainPinv 0 2 ≤ pathRes unitRes [0, 1, 2] :=
  path_bound_connected 3 chainAdj unitRes chainPinv chain_network chain_conn chain_ginv [1, 2] 0
    (by simp [IsPath, chainAdj])

private theorem bundle_network : IsNetwork 4 (bundleAdj true) unitRes := by
  refine ⟨?_, fun _ _ _ _ => rfl, fun _ _ _ _ _ => by simp [unitRes]⟩
  intro i j hi hj
  have hi' : i = 0 ∨ i = 1 ∨ i = 2 ∨ i = 3 := by omega
  have hj' : j = 0 ∨ j = 1 ∨ j = 2 ∨ j = 3 := by omega
  rcases hi' with rfl | rfl | rfl | rfl <;> rcases hj' with rfl | rfl | rfl | rfl <;> decide

/-- the hypotheses of the parallel law are satisfiable: a generalised inverse of the bundle with a
direct link and two branches exists, and every one gives `1 / (1 + 1/2 + 1/2)` -/
example : ∃ R, IsGinv 4 (laplacian 4 (admittance (bundleAdj true) unitRes)) R
    ∧ effRes R 0 1 = 1 / (1 / 1 + ∑ _m ∈ Finset.Ico 2 4, 1 / ((1 : Rat) + 1)) := by
  obtain ⟨R, _, hg, _⟩ := exists_inverse_and_potentials 4 (bundleAdj true) unitRes bundle_network
    (bfs_connected_sound 4 _ unitRes bundle_network (by decide))
  refine ⟨R, hg, ?_⟩
  have := parallel_law_bundle 4 true unitRes R (Or.inl ⟨rfl, by omega⟩) bundle_network hg
  simpa [unitRes] using this

/-- a history through the round-2 operations: betweenness, degree and clustering queries after an
update are answered from the new resistances -/
example (pinv : Nat → Mat → LMat) (r₁ r₂ : Mat) :
    (run pinv (State.init pinv 3 chainAdj r₁) [.vcfb 1, .update r₂, .vcfb 1, .admDeg 0]).2
      = [some (vcfbKernel 3 1 1 (admittance chainAdj r₁)
                (toFun (pinv 3 (laplacian 3 (admittance chainAdj r₁)))) 1), none,
         some (vcfbKernel 3 1 1 (admittance chainAdj r₂)
                (toFun (pinv 3 (laplacian 3 (admittance chainAdj r₂)))) 1),
         some (admDegree 3 (admittance chainAdj r₂) 0)] := by
  rw [history_fresh]
  simp [specRun, step, State.init, State.update]

/-! ## round 3

* the executable connectivity test **decides** `CutConnected` (`bfs_connected_complete`,
  `bfs_connected_iff`);
* histories re-synchronise from *any* state: whatever a caller did to the object before
  (edited the held array in place, reassigned `adjacency` — possibly with another number of nodes —
  called `update_admittance` alone), after `update_resistances(r)` every query is answered as by a
  fresh object (`history_resync`, `reassign_then_update_fresh`);
* four more source expressions are regenerated and tied (`clusterTerm`: the product inside the
  clustering loop, plain `*`; `admExpr`: `1./resistances[...]`; `effResBranch`; `vcfbGuard`);
* the laws over **any field** of impedances about the polymorphic model `Model/CircuitK.lean`
  (`impedance_*`), which the driver executes at the Gaussian rationals. -/

theorem bfs_connected_complete (n : Nat) (adj : Adj) (res : Mat) (hN : IsNetwork n adj res)
    (h : CutConnected n (admittance adj res)) : connected n adj = true :=
  connected_complete n adj res hN h

/-- the model's `connected` is exactly the hypothesis `CutConnected` of the circuit theorems -/
theorem bfs_connected_iff (n : Nat) (adj : Adj) (res : Mat) (hN : IsNetwork n adj res) :
    connected n adj = true ↔ CutConnected n (admittance adj res) :=
  connected_iff n adj res hN

example : connected 3 chainAdj = true :=
  bfs_connected_complete 3 chainAdj unitRes chain_network chain_conn

/-- the isolated node 2 makes the test fail, hence (by completeness) the network is not
cut-connected: the theorems' hypothesis is refuted exactly when the driver refuses the input -/
example : ¬ CutConnected 3 (admittance (fun i j => (i == 0 && j == 1) || (i == 1 && j == 0)) unitRes) := by
  intro h
  have := connected_complete' 3 _ unitRes h
  revert this
  decide

/-- **Re-synchronisation.**  `update_resistances(r)` makes *any* state fresh — no invariant on the
state before the call is needed — so the rest of every history is answered as by freshly
constructed objects.  The state before may be arbitrarily inconsistent: resistances edited in
place by the caller (`res` changed, `adm`/`R` not), `adjacency` reassigned (`n`, `adj` changed —
`State.reassign`), a stale store. -/
theorem history_resync (pinv : Nat → Mat → LMat) (s : State) (r : Mat) (ops : List Op) :
    (run pinv s (.update r :: ops)).2 = none :: specRun pinv s.n s.adj r ops := by
  have hf : Fresh pinv (s.update pinv r) := by
    constructor <;> simp [State.update]
  simp only [run, step]
  rw [run_eq_fresh pinv ops _ hf]
  simp [State.update]

/-- `net.adjacency = A'` (the inherited `Network.adjacency` setter: number of nodes and links
change, nothing of `ResNetwork` is recomputed) followed by `update_resistances(r)`: all later calls
return what `ResNetwork(r, adjacency=A')` returns. -/
theorem reassign_then_update_fresh (pinv : Nat → Mat → LMat) (s : State) (n' : Nat) (adj' : Adj)
    (r : Mat) (ops : List Op) :
    (run pinv (s.reassign n' adj') (.update r :: ops)).2 = none :: specRun pinv n' adj' r ops :=
  history_resync pinv (s.reassign n' adj') r ops

/-- … and the state after the two calls *is* the freshly constructed state, except that the store
may be `none` in both -/
theorem reassign_update_eq_init (pinv : Nat → Mat → LMat) (s : State) (n' : Nat) (adj' : Adj)
    (r : Mat) :
    (s.reassign n' adj').update pinv r = State.init pinv n' adj' r := by
  simp [State.reassign, State.update, State.init]

example (pinv : Nat → Mat → LMat) (r₁ r₂ : Mat) :
    (run pinv ((State.init pinv 3 chainAdj r₁).reassign 4 chainAdj) [.update r₂, .admDeg 3]).2
      = [none, some (admDegree 4 (admittance chainAdj r₂) 3)] := by
  rw [reassign_then_update_fresh]
  simp [specRun, step, State.init, State.update]

section source_tie3
open Pyunicorn.Generated.ArithC18

/-- the body of the clustering triple loop is the regenerated source statement
`dummy += admittance[i][j]*admittance[i][k]*admittance[j][k]` — plain products -/
theorem clusteringLoop_matches_source (n : Nat) (adm : Mat) (i : Nat) :
    (List.range n).foldl (fun dummy j =>
        (List.range n).foldl (fun dummy k => dummy + adm i j * adm i k * adm j k) dummy) 0
      = (List.range n).foldl (fun dummy j =>
        (List.range n).foldl (fun dummy k => clusterTerm dummy (adm i j) (adm i k) (adm j k)) dummy) 0 := by
  unfold clusterTerm; rfl

theorem admittance_matches_source (adj : Adj) (res : Mat) (i j : Nat) :
    admittance adj res i j = if adj i j then admExpr (res i j) else 0 := by
  unfold admittance admExpr; rfl

theorem effResBranch_matches_source (R : Mat) (a b : Nat) :
    effRes R a b = if effResBranch (a : Int) (b : Int) = true then 0
                   else effResExpr (R a a) (R a b) (R b a) (R b b) := by
  unfold effRes effResBranch effResExpr
  simp only [decide_eq_true_eq, Int.natCast_inj]

/-- the `IndexError` guard of `vertex_current_flow_betweenness` is the model's `i < n` -/
theorem vcfbGuard_matches_source (pinv : Nat → Mat → LMat) (s : State) (i : Nat) :
    (step pinv s (.vcfb i)).2
      = if vcfbGuard (i : Int) (s.n : Int) = true then none
        else some (vcfbKernel s.n 1 1 s.adm s.R i) := by
  unfold vcfbGuard
  simp only [step, decide_eq_true_eq]
  by_cases h : i < s.n
  · simp [h]
  · simp [h]

end source_tie3

end Pyunicorn.Circuit

/-! ## round 3: complex impedances — the laws over any field, about `Model/CircuitK.lean` -/
namespace Pyunicorn.CircuitK
open Finset
open Pyunicorn.Circuit (Adj degree chainAdj triAdj)

variable {K : Type} [Field K]

/-- **Admittive clustering over any field, without conjugation**: the loops of
`local_admittive_clustering` (complex branch: `d = np.array(degree(), dtype=complex)`) evaluate
`Σ_j Σ_k α_ij α_ik α_jk / (ad_i (d_i − 1))` with the product of the field. -/
theorem impedance_clustering_eq_sum (n : Nat) (adj : Adj) (adm : MatK K) (i : Nat) :
    localClustering n adj adm i
      = if degree n adj i = 1 then 0
        else (∑ j ∈ range n, ∑ k ∈ range n, adm i j * adm i k * adm j k)
              / (admDegree n adm i * ((degree n adj i : K) - 1)) :=
  localClustering_eq_sum n adj adm i

/-- clustering commutes with field homomorphisms (complex conjugation of *all* admittances
conjugates the coefficient; an implementation conjugating one factor only cannot satisfy this
together with `impedance_clustering_eq_sum`) -/
theorem impedance_clustering_map {K' : Type} [Field K'] (φ : K →+* K') (n : Nat) (adj : Adj)
    (adm : MatK K) (i : Nat) :
    φ (localClustering n adj adm i) = localClustering n adj (fun a b => φ (adm a b)) i :=
  localClustering_map φ n adj adm i

theorem impedance_admDegree_eq_sum (n : Nat) (adm : MatK K) (i : Nat)
    (hsym : ∀ k, k < n → adm k i = adm i k) :
    admDegree n adm i = ∑ j ∈ range n, adm i j :=
  admDegree_eq_sum n adm i hsym

theorem impedance_globalClustering_eq_mean (n : Nat) (adj : Adj) (adm : MatK K) :
    globalClustering n adj adm = (∑ i ∈ range n, localClustering n adj adm i) / (n : K) :=
  globalClustering_eq_mean n adj adm

/-- the field model at `K = ℚ` *is* the rational model, whose arithmetic is tied to the source text
(`*_matches_source`); the same polymorphic code is what the driver runs at `ℚ(i)` -/
theorem fieldModel_at_rat (n : Nat) (adj : Adj) (res adm R : Nat → Nat → Rat) (i a b : Nat) :
    admittance (K := Rat) adj res = Pyunicorn.Circuit.admittance adj res
      ∧ laplacian (K := Rat) n adm = Pyunicorn.Circuit.laplacian n adm
      ∧ effRes (K := Rat) R a b = Pyunicorn.Circuit.effRes R a b
      ∧ admDegree (K := Rat) n adm i = Pyunicorn.Circuit.admDegree n adm i
      ∧ localClustering (K := Rat) n adj adm i = Pyunicorn.Circuit.localClustering n adj adm i :=
  ⟨rfl, rfl, rfl, rfl, rfl⟩

/-- **effective impedance = potential drop for every generalised inverse**, on the model -/
theorem impedance_model_eq_potential_drop (n : Nat) (adj : Adj) (res R : MatK K) (v : VecK K)
    (a b : Nat) (ha : a < n) (hb : b < n) (hN : IsNetworkK n adj res)
    (hg : IsGinv n (laplacian n (admittance adj res)) R)
    (hv : IsPot n (laplacian n (admittance adj res)) v a b) : effRes R a b = v a - v b :=
  effRes_eq_drop n _ R v a b ha hb (lap_symm (adm_symm hN)) hg hv

/-- on a non-degenerate impedance network (some `R₀` with `L R₀ = I − J/N` exists; over ℂ:
`rank L = N − 1`, e.g. all real parts positive) every generalised inverse gives the same value -/
theorem impedance_ginv_unique (n : Nat) (adj : Adj) (res R R₀ : MatK K) (a b : Nat) (ha : a < n)
    (hb : b < n) (hN : IsNetworkK n adj res)
    (hg : IsGinv n (laplacian n (admittance adj res)) R)
    (hp : IsProj n (laplacian n (admittance adj res)) R₀) : effRes R a b = effRes R₀ a b :=
  effRes_ginv_unique n _ R R₀ a b ha hb (adm_symm hN) hg hp

/-- **Foster's theorem over any field** in which `N ≠ 0` and `2 ≠ 0` (ℂ, ℚ(i)): for every
generalised inverse of a non-degenerate impedance network, `Σ_{links} Z_eff · Y = N − 1`. -/
theorem impedance_foster (n : Nat) (hn : ((n : Nat) : K) ≠ 0) (h2 : (2 : K) ≠ 0) (adj : Adj)
    (res R R₀ : MatK K) (hN : IsNetworkK n adj res)
    (hg : IsGinv n (laplacian n (admittance adj res)) R)
    (hp : IsProj n (laplacian n (admittance adj res)) R₀) :
    ∑ i ∈ range n, ∑ j ∈ range i, admittance adj res i j * effRes R i j = (n : K) - 1 := by
  have hord := foster_ordered n hn _ R₀ (adm_symm hN) hp
  have hsym : ∀ i j, i < n → j < n →
      admittance adj res i j * effRes R₀ i j = admittance adj res j i * effRes R₀ j i := by
    intro i j hi hj
    rw [adm_symm hN i j hi hj, effRes_formula, effRes_formula]; ring
  rw [sum_ordered_eq_two_lower _ n hsym (fun i _ => by simp [effRes])] at hord
  have : ∑ i ∈ range n, ∑ j ∈ range i, admittance adj res i j * effRes R i j
      = ∑ i ∈ range n, ∑ j ∈ range i, admittance adj res i j * effRes R₀ i j := by
    refine Finset.sum_congr rfl fun i hi => Finset.sum_congr rfl fun j hj => ?_
    have hi' := Finset.mem_range.mp hi
    have hj' : j < n := by have := Finset.mem_range.mp hj; omega
    rw [impedance_ginv_unique n adj res R R₀ i j hi' hj' hN hg hp]
  rw [this]
  exact mul_left_cancel₀ h2 hord

/-- **Series law over any field**, chains of any length: impedances add. -/
theorem impedance_series_chain (n : Nat) (res R : MatK K) (a b : Nat) (hab : a ≤ b) (hb : b < n)
    (hN : IsNetworkK n chainAdj res) (hg : IsGinv n (laplacian n (admittance chainAdj res)) R) :
    effRes R a b = ∑ k ∈ Finset.Ico a b, res k (k + 1) := by
  rw [effRes_eq_drop n _ R _ a b (by omega) hb (lap_symm (adm_symm hN)) hg
    (chain_isPot n res a b hab hb hN)]
  exact chainPot_drop res a b hab

/-- **Parallel law over any field**: `Z₁ ∥ (Z₂ + Z₃) = Z₁ (Z₂ + Z₃) / (Z₁ + Z₂ + Z₃)`, provided the
loop impedance `Z₁ + Z₂ + Z₃` does not vanish (over ℂ it can: resonance). -/
theorem impedance_parallel (res R : MatK K) (h01 : res 0 1 ≠ 0) (h02 : res 0 2 ≠ 0)
    (h21 : res 2 1 ≠ 0) (hsum : res 0 1 + res 0 2 + res 2 1 ≠ 0) (hs : SymmOn 3 res)
    (hg : IsGinv 3 (laplacian 3 (admittance triAdj res)) R) :
    effRes R 0 1 = res 0 1 * (res 0 2 + res 2 1) / (res 0 1 + res 0 2 + res 2 1) := by
  have hsA : SymmOn 3 (admittance triAdj res) := by
    intro i j hi hj
    have e : triAdj i j = triAdj j i := by simp only [triAdj, bne_comm]
    unfold admittance
    rw [e, hs i j hi hj]
  have hv := parallel_pot res h01 h02 h21 hsum (hs 1 0 (by omega) (by omega))
    (hs 2 0 (by omega) (by omega)) (hs 1 2 (by omega) (by omega))
  rw [effRes_eq_drop 3 _ R _ 0 1 (by omega) (by omega) (lap_symm hsA) hg hv]
  simp

/-- **Linear scaling over any field** on the model: all impedances `× k` (a complex factor). -/
theorem impedance_model_scaling (n : Nat) (adj : Adj) (res R R' : MatK K) (v : VecK K) (k : K)
    (hk : k ≠ 0) (a b : Nat) (ha : a < n) (hb : b < n) (hN : IsNetworkK n adj res)
    (hg : IsGinv n (laplacian n (admittance adj res)) R)
    (hg' : IsGinv n (laplacian n (admittance adj fun i j => k * res i j)) R')
    (hv : IsPot n (laplacian n (admittance adj res)) v a b) :
    effRes R' a b = k * effRes R a b := by
  have hL : laplacian n (admittance adj fun i j => k * res i j)
      = fun i j => (1 / k) * laplacian n (admittance adj res) i j := by
    funext i j
    have : (admittance adj fun i j => k * res i j)
        = fun i j => (1 / k) * admittance adj res i j := by
      funext i j; exact admittance_scale adj res k i j
    rw [this, laplacian_scale]
  have hs := lap_symm (adm_symm hN)
  have hk' : (1 / k) ≠ 0 := one_div_ne_zero hk
  have hv' := pot_scale n _ v a b (1 / k) hk' hv
  rw [← hL] at hv'
  have hs' : SymmOn n (laplacian n (admittance adj fun i j => k * res i j)) := by
    rw [hL]; intro i j hi hj; simp only; rw [hs i j hi hj]
  rw [effRes_eq_drop n _ R' _ a b ha hb hs' hg' hv', effRes_eq_drop n _ R v a b ha hb hs hg hv]
  field_simp

/-- the executable pseudo-inverse of the field model is certified: returned only with
`L R L = L` and `L R = I − J/N` checked exactly -/
theorem pinvCertK_sound [DecidableEq K] {n : Nat} {L R : MatK K} (h : pinvCert n L = some R) :
    IsGinv n L R ∧ IsProj n L R := by
  unfold pinvCert at h
  split at h
  · cases h
  · simp only at h
    split at h
    · next hc =>
      cases h
      simp only [Bool.and_eq_true] at hc
      obtain ⟨hg, hp⟩ := hc
      constructor
      · intro i j hi hj
        unfold isGinv at hg
        rw [List.all_eq_true] at hg
        have := hg i (List.mem_range.mpr hi)
        rw [List.all_eq_true] at this
        simpa using this j (List.mem_range.mpr hj)
      · intro i j hi hj
        unfold isProj at hp
        rw [List.all_eq_true] at hp
        have := hp i (List.mem_range.mpr hi)
        rw [List.all_eq_true] at this
        simpa using this j (List.mem_range.mpr hj)
    · cases h

/-! ### the executable instance: the driver's functions at `GRat = ℚ(i)` satisfy the field theorems

`GRat.instField` (`Lemmas/CircuitGRat.lean`) is built from the core instances the compiled driver
uses; the statements below name those core instances explicitly (`GRat.instAdd`, …), so they are
about the code that runs, and are proved by the any-field theorems. -/
section executable
open GRat

/-- the clustering the driver computes for a complex network is the unconjugated triple sum -/
theorem driver_clustering_eq_sum (n : Nat) (adj : Adj) (adm : MatK GRat) (i : Nat) :
    @localClustering GRat instZero instOne instAdd instSub instMul instDiv instNatCast n adj adm i
      = if degree n adj i = 1 then 0
        else (∑ j ∈ range n, ∑ k ∈ range n, adm i j * adm i k * adm j k)
              / (@admDegree GRat instZero instAdd n adm i * ((degree n adj i : GRat) - 1)) :=
  @impedance_clustering_eq_sum GRat GRat.instField n adj adm i

/-- what the driver's certified pseudo-inverse of a complex Laplacian satisfies -/
theorem driver_pinvCert_sound {n : Nat} {L R : MatK GRat}
    (h : @pinvCert GRat instZero instOne instAdd instSub instMul instDiv instNatCast
          instDecidableEqGRat n L = some R) :
    IsGinv n L R ∧ IsProj n L R :=
  @pinvCertK_sound GRat GRat.instField instDecidableEqGRat n L R h

/-- **Foster's theorem for the driver's complex model**: whenever the driver certifies a
pseudo-inverse for an impedance network with `N ≥ 1` nodes, the effective impedances it prints
satisfy `Σ_{links} Z_eff Y = N − 1`. -/
theorem driver_foster (n : Nat) (hn : 0 < n) (adj : Adj) (res R : MatK GRat)
    (hN : IsNetworkK n adj res)
    (h : @pinvCert GRat instZero instOne instAdd instSub instMul instDiv instNatCast
          instDecidableEqGRat n
          (@laplacian GRat instZero instAdd instSub n (@admittance GRat instZero instOne instDiv adj res))
          = some R) :
    ∑ i ∈ range n, ∑ j ∈ range i,
        @admittance GRat instZero instOne instDiv adj res i j * @effRes GRat instZero instAdd instSub R i j
      = (n : GRat) - 1 := by
  obtain ⟨hg, hp⟩ := driver_pinvCert_sound h
  have hn' : ((n : Nat) : GRat) ≠ 0 := by
    intro e
    have := congrArg GRat.re e
    simp only [GRat.natCast_re, GRat.zero_re] at this
    have : (n : Rat) = 0 := this
    have : n = 0 := by exact_mod_cast this
    omega
  have h2 : (2 : GRat) ≠ 0 := by
    intro e
    have := congrArg GRat.re e
    have h2' : (2 : GRat) = ((2 : Nat) : GRat) := by norm_cast
    rw [h2'] at this
    simp only [GRat.natCast_re, GRat.zero_re] at this
    norm_num at this
  exact @impedance_foster GRat GRat.instField n hn' h2 adj res R R hN hg hp

/-- **series law for the driver's complex model** -/
theorem driver_series_chain (n : Nat) (res R : MatK GRat) (a b : Nat) (hab : a ≤ b) (hb : b < n)
    (hN : IsNetworkK n chainAdj res)
    (h : @pinvCert GRat instZero instOne instAdd instSub instMul instDiv instNatCast
          instDecidableEqGRat n
          (@laplacian GRat instZero instAdd instSub n
            (@admittance GRat instZero instOne instDiv chainAdj res)) = some R) :
    @effRes GRat instZero instAdd instSub R a b = ∑ k ∈ Finset.Ico a b, res k (k + 1) :=
  @impedance_series_chain GRat GRat.instField n res R a b hab hb hN (driver_pinvCert_sound h).1

/-- non-vacuity at the executable instance: the chain `0 — 1 — 2` with impedance `1 + i` on both
links; the driver's certificate exists (evaluated by the kernel) and the series law gives
`2 + 2i` -/
def zres : MatK GRat := fun _ _ => ⟨1, 1⟩

private theorem zchain_network : IsNetworkK 3 chainAdj zres :=
  ⟨fun i j _ _ => by simp [chainAdj, Bool.or_comm], fun _ _ _ _ => rfl,
   fun _ _ _ _ _ h => by have := congrArg GRat.re h; simp [zres] at this⟩

example : ∃ R, @pinvCert GRat instZero instOne instAdd instSub instMul instDiv instNatCast
      instDecidableEqGRat 3 (@laplacian GRat instZero instAdd instSub 3
        (@admittance GRat instZero instOne instDiv chainAdj zres)) = some R
      ∧ @effRes GRat instZero instAdd instSub R 0 2 = zres 0 1 + zres 1 2 := by
  obtain ⟨R, hR⟩ := Option.isSome_iff_exists.mp
    (show (@pinvCert GRat instZero instOne instAdd instSub instMul instDiv instNatCast
      instDecidableEqGRat 3 (@laplacian GRat instZero instAdd instSub 3
        (@admittance GRat instZero instOne instDiv chainAdj zres))).isSome = true by decide +kernel)
  refine ⟨R, hR, ?_⟩
  rw [driver_series_chain 3 zres R 0 2 (by omega) (by omega) zchain_network hR]
  simp [Finset.sum_range_succ]

end executable

/-! non-vacuity over a field that is not ordered-as-used: ℚ with explicit data — the two-link chain
with impedances 2 and 3 and a generalised inverse obtained from the projection-type inverse -/
example (R : MatK ℚ) (hN : IsNetworkK 3 chainAdj (fun _ _ => (2 : ℚ)))
    (hg : IsGinv 3 (laplacian 3 (admittance chainAdj fun _ _ => (2 : ℚ))) R) :
    effRes R 0 2 = 4 := by
  rw [impedance_series_chain 3 _ R 0 2 (by omega) (by omega) hN hg]
  simp; norm_num

example : IsNetworkK 3 chainAdj (fun _ _ => (2 : ℚ)) :=
  ⟨fun i j _ _ => by simp [chainAdj, Bool.or_comm], fun _ _ _ _ => rfl, fun _ _ _ _ _ => by norm_num⟩

end Pyunicorn.CircuitK

/-! # Round 4

* the resistance matrix is read on the links only: `admittance_offlink`, `admittance_mask`,
  `history_offlink_irrelevant` (a network built with `adjacency=` from a dense, distance-like
  resistance matrix — and every history of updates with such matrices — behaves as the network
  whose matrix is zero off the links, so all circuit laws hold on the *linked* graph);
  `admittance_eq_nonzeroPattern_iff` characterises when the non-zero pattern of the resistances
  may stand in for the links (seeded change C18-6), `admittance_default` /
  `resistancesOk_default` / `defaultAdj_matches_source` cover the constructor without `adjacency=`
* current-flow betweenness does not depend on the generalised inverse stored by `update_R`
  (`cfb_summand_eq_potential_drop`, `vcfb_ginv_unique`, `ecfb_ginv_unique`) and therefore
  follows a rescaling of the resistances whatever `pinv` returns (`vcfb_scaling_connected`,
  `ecfb_scaling_connected`)
* scaling of the remaining observables: `localClustering_scaling`, `globalClustering_scaling`,
  `ercc_scaling_connected`, `average_scaling_connected`, `diameter_scaling_connected`
-/
namespace Pyunicorn.Circuit
open Finset

/-! ## the resistance matrix matters on the links only -/

/-- `update_admittance` reads `resistances[i, j]` for linked pairs only: two matrices that agree on
the links give the same admittance matrix (whatever they hold elsewhere, diagonal included) -/
theorem admittance_offlink (adj : Adj) (res res' : Mat)
    (h : ∀ i j, adj i j = true → res i j = res' i j) :
    admittance adj res = admittance adj res' := by
  funext i j
  unfold admittance
  split
  · next ha => rw [h i j ha]
  · rfl

theorem admittance_mask (adj : Adj) (res : Mat) :
    admittance adj (maskRes adj res) = admittance adj res :=
  admittance_offlink adj _ _ fun i j ha => by simp [maskRes, ha]

theorem resistancesOk_iff (n : Nat) (adj : Adj) (res : Mat) :
    resistancesOk n adj res = true ↔ ∀ i j, i < n → j < n → adj i j = true → res i j ≠ 0 := by
  unfold resistancesOk
  simp only [List.all_eq_true, List.mem_range, Bool.or_eq_true, Bool.not_eq_true', bne_iff_ne]
  constructor
  · intro h i j hi hj ha
    rcases h i hi j hj with h | h
    · rw [ha] at h; exact absurd h (by decide)
    · exact h
  · intro h i hi j hj
    by_cases ha : adj i j = true
    · exact Or.inr (h i j hi hj ha)
    · exact Or.inl (by simpa using ha)

/-- **When may the non-zero pattern of the resistance matrix stand in for the links?**  Filling
the admittance from `np.nonzero(resistances)` instead of `edge_list()` gives the same matrix
*exactly* when no unlinked pair (and no diagonal entry) carries a non-zero resistance — which is
false for a dense resistance matrix with an explicit `adjacency=`. -/
theorem admittance_eq_nonzeroPattern_iff (n : Nat) (adj : Adj) (res : Mat)
    (hok : resistancesOk n adj res = true) :
    (∀ i j, i < n → j < n →
        admittance adj res i j = (if res i j ≠ 0 then 1 / res i j else 0))
      ↔ (∀ i j, i < n → j < n → res i j ≠ 0 → adj i j = true) := by
  rw [resistancesOk_iff] at hok
  constructor
  · intro h i j hi hj hr
    by_contra ha
    have ha' : adj i j = false := by simpa using ha
    have h0 : admittance adj res i j = 0 := by simp [admittance, ha']
    have h1 := h i j hi hj
    rw [h0, if_pos hr] at h1
    exact one_div_ne_zero hr h1.symm
  · intro h i j hi hj
    unfold admittance
    by_cases ha : adj i j = true
    · simp [ha, hok i j hi hj ha]
    · have : res i j = 0 := by
        by_contra hr; exact ha (h i j hi hj hr)
      simp [ha, this]

/-- the constructor without `adjacency=`: the links are the non-zero pattern, so the admittance is
`1/r` on the non-zero pattern … -/
theorem admittance_default (res : Mat) (i j : Nat) :
    admittance (defaultAdj res) res i j = if res i j ≠ 0 then 1 / res i j else 0 := by
  unfold admittance defaultAdj
  by_cases h : res i j = 0 <;> simp [h]

/-- … and no link has resistance zero (no `inf` admittance can arise on this path) -/
theorem resistancesOk_default (n : Nat) (res : Mat) :
    resistancesOk n (defaultAdj res) res = true := by
  rw [resistancesOk_iff]
  intro i j _ _ h
  simpa [defaultAdj] using h

section source_tie4
open Pyunicorn.Generated.ArithC18
set_option linter.unusedSimpArgs false in
/-- `adjacency[resistances != 0] = 1` — regenerated from `__init__` on every run; stated on the
non-negative entries a resistance matrix has (so that an equivalent test such as `> 0` keeps the
proof) -/
theorem defaultAdj_matches_source (res : Mat) (i j : Nat) (h : 0 ≤ res i j) :
    defaultAdj res i j = defaultAdjExpr (res i j) := by
  unfold defaultAdj defaultAdjExpr
  rcases eq_or_lt_of_le h with h0 | hpos
  · simp [← h0]
  · simp [hpos, hpos.ne']

/-- `np.dot(adj, ad) / ad` — regenerated from `average_neighbors_admittive_degree` -/
theorem anad_matches_source (n : Nat) (adj : Adj) (adm : Mat) (i : Nat) :
    anad n adj adm i
      = anadExpr (sumTo n fun j => b2r (adj i j) * admDegree n adm j) (admDegree n adm i) := rfl
end source_tie4

/-- two objects that differ at most in entries of the resistance matrix on unlinked pairs -/
structure SameOnLinks (s s' : State) : Prop where
  n : s.n = s'.n
  adj : s.adj = s'.adj
  adm : s.adm = s'.adm
  R : s.R = s'.R
  store : s.store = s'.store
  res : ∀ i j, s.adj i j = true → s.res i j = s'.res i j

/-- the same call with the argument of `update_resistances` set to zero off the links -/
def maskOp (adj : Adj) : Op → Op
  | .update r => .update (maskRes adj r)
  | op => op

theorem step_adj (pinv : Nat → Mat → LMat) (s : State) (op : Op) :
    (step pinv s op).1.adj = s.adj := by
  cases op <;> simp only [step, State.update]
  · cases s.store <;> rfl

theorem step_sameOnLinks (pinv : Nat → Mat → LMat) (s s' : State) (h : SameOnLinks s s') (op : Op)
    (hop : op ≠ .meanRes) :
    SameOnLinks (step pinv s op).1 (step pinv s' (maskOp s.adj op)).1
      ∧ (step pinv s op).2 = (step pinv s' (maskOp s.adj op)).2 := by
  obtain ⟨n, adj, res, adm, R, store⟩ := s
  obtain ⟨n', adj', res', adm', R', store'⟩ := s'
  obtain ⟨h1, h2, h3, h4, h5, h6⟩ := h
  simp only at h1 h2 h3 h4 h5 h6
  subst h1 h2 h3 h4 h5
  cases op with
  | meanRes => exact absurd rfl hop
  | update r =>
    refine ⟨⟨rfl, rfl, ?_, ?_, rfl, ?_⟩, rfl⟩
    · exact (admittance_mask adj r).symm
    · show toFun (pinv n (laplacian n (admittance adj r)))
        = toFun (pinv n (laplacian n (admittance adj (maskRes adj r))))
      rw [admittance_mask]
    · intro i j ha
      have ha' : adj i j = true := ha
      show r i j = maskRes adj r i j
      simp [maskRes, ha']
  | updAdm =>
    exact ⟨⟨rfl, rfl, admittance_offlink _ _ _ h6, rfl, rfl, h6⟩, rfl⟩
  | diameter =>
    cases store with
    | none => exact ⟨⟨rfl, rfl, rfl, rfl, rfl, h6⟩, rfl⟩
    | some st => exact ⟨⟨rfl, rfl, rfl, rfl, rfl, h6⟩, rfl⟩
  | average | effRes a b | ercc a | vcfb i | ecfb i j | admDeg i | anad i | lclust i | gclust
  | getR i j | getAdm i j | lap i j | updR =>
    exact ⟨⟨rfl, rfl, rfl, rfl, rfl, h6⟩, rfl⟩

theorem run_sameOnLinks (pinv : Nat → Mat → LMat) (ops : List Op) (s s' : State)
    (h : SameOnLinks s s') (hops : ∀ op ∈ ops, op ≠ .meanRes) :
    (run pinv s ops).2 = (run pinv s' (ops.map (maskOp s.adj))).2 := by
  induction ops generalizing s s' with
  | nil => rfl
  | cons op ops ih =>
    obtain ⟨hs, hv⟩ := step_sameOnLinks pinv s s' h op (hops op (List.mem_cons_self ..))
    have := ih _ _ hs fun o ho => hops o (List.mem_cons_of_mem _ ho)
    rw [step_adj] at this
    simp only [run, List.map_cons]
    rw [this, hv]

/-- **Only the resistances of the links matter — over whole histories.**  A `ResNetwork` built
with an explicit `adjacency=` from *any* resistance matrix (dense, distance-like, non-zero on the
diagonal), driven through any history of `update_resistances` calls with such matrices and of
queries, returns call by call what the network returns whose matrices are zero off the links
(`maskRes`).  The latter satisfies `IsNetwork` as soon as the links carry symmetric positive
resistances, so every circuit law above holds on the *linked* graph.  (`__str__`, which prints the
mean of the whole matrix, is the one query that sees the other entries.) -/
theorem history_offlink_irrelevant (pinv : Nat → Mat → LMat) (n : Nat) (adj : Adj) (res : Mat)
    (ops : List Op) (hops : ∀ op ∈ ops, op ≠ .meanRes) :
    (run pinv (State.init pinv n adj res) ops).2
      = (run pinv (State.init pinv n adj (maskRes adj res)) (ops.map (maskOp adj))).2 := by
  have h : SameOnLinks (State.init pinv n adj res) (State.init pinv n adj (maskRes adj res)) := by
    refine ⟨rfl, rfl, ?_, ?_, rfl, fun i j ha => ?_⟩
    · simp [State.init, State.update, admittance_mask]
    · simp [State.init, State.update, admittance_mask]
    · simp only [State.init, State.update] at ha ⊢
      simp [maskRes, ha]
  exact run_sameOnLinks pinv ops _ _ h hops

/-- the masked matrix of a dense symmetric matrix with positive entries on the (symmetric) links
is a resistor network in the sense of the circuit theorems -/
theorem isNetwork_mask (n : Nat) (adj : Adj) (res : Mat)
    (hadj : ∀ i j, i < n → j < n → adj i j = adj j i)
    (hsym : ∀ i j, i < n → j < n → adj i j = true → res i j = res j i)
    (hpos : ∀ i j, i < n → j < n → adj i j = true → 0 < res i j) :
    IsNetwork n adj (maskRes adj res) := by
  refine ⟨hadj, fun i j hi hj => ?_, fun i j hi hj ha => by simpa [maskRes, ha] using hpos i j hi hj ha⟩
  unfold maskRes
  rw [← hadj i j hi hj]
  by_cases ha : adj i j = true
  · simp [ha, hsym i j hi hj ha]
  · simp [ha]

/-- non-vacuity: the chain `0 — 1 — 2` with a dense "distance" matrix (`res i j = 7` also on the
unlinked pair `{0,2}` and on the diagonal): update with another dense matrix, then query -/
example (pinv : Nat → Mat → LMat) :
    (run pinv (State.init pinv 3 chainAdj fun _ _ => 7) [.update fun _ _ => 5, .getAdm 0 2, .getAdm 0 1]).2
      = [none, some 0, some (1 / 5)] := by
  rw [history_offlink_irrelevant _ _ _ _ _ (by simp)]
  simp [run, step, State.init, State.update, maskOp, maskRes, admittance, chainAdj]

example : IsNetwork 3 chainAdj (maskRes chainAdj fun _ _ => 7) :=
  isNetwork_mask 3 chainAdj _ (fun i j _ _ => by simp [chainAdj, Bool.or_comm])
    (fun _ _ _ _ _ => rfl) (fun _ _ _ _ _ => by norm_num)

/-- the dense matrix of the example violates the right-hand side of
`admittance_eq_nonzeroPattern_iff`: the non-zero pattern is not the set of links -/
example : ¬ (∀ i j, i < 3 → j < 3 → (fun _ _ => (7 : Rat)) i j ≠ 0 → chainAdj i j = true) := by
  intro h
  have := h 0 2 (by omega) (by omega) (by norm_num)
  revert this; decide

/-! ## current-flow betweenness for every generalised inverse -/

/-- **The summand of both C kernels is the potential difference across the pair `(i, j)`, whatever
generalised inverse `update_R` stored**: on a connected resistor network, for every `R` with
`L R L = L` and *any* potentials `V` of the unit current `s → t` (`L V = e_s − e_t`),
`R[i,s] − R[j,s] + R[j,t] − R[i,t] = V_i − V_j`.  (Round 1's `nodeCurrent_eq_potential` is the
algebraic rearrangement only and needs `L R = I − J/N` to read `R e_s − R e_t` as potentials.) -/
theorem cfb_summand_eq_potential_drop (n : Nat) (adj : Adj) (res R : Mat) (V : Vec)
    (i j s t : Nat) (hi : i < n) (hj : j < n) (hs : s < n) (ht : t < n)
    (hN : IsNetwork n adj res) (hconn : CutConnected n (admittance adj res))
    (hg : IsGinv n (laplacian n (admittance adj res)) R)
    (hV : IsPot n (laplacian n (admittance adj res)) V s t) :
    R i s - R j s + R j t - R i t = V i - V j := by
  obtain ⟨R₀, _, _, hpot⟩ := exists_inverse_and_potentials n adj res hN hconn
  exact flow_eq_drop n _ R _ V i j s t hi hj hs ht (lap_symm (adm_symm hN)) hg (hpot i j hi hj) hV

/-- the kernels' summand does not depend on the generalised inverse -/
theorem cfb_summand_ginv_unique (n : Nat) (adj : Adj) (res R R' : Mat)
    (i j s t : Nat) (hi : i < n) (hj : j < n) (hs : s < n) (ht : t < n)
    (hN : IsNetwork n adj res) (hconn : CutConnected n (admittance adj res))
    (hg : IsGinv n (laplacian n (admittance adj res)) R)
    (hg' : IsGinv n (laplacian n (admittance adj res)) R') :
    R i s - R j s + R j t - R i t = R' i s - R' j s + R' j t - R' i t := by
  obtain ⟨R₀, _, _, hpot⟩ := exists_inverse_and_potentials n adj res hN hconn
  rw [cfb_summand_eq_potential_drop n adj res R _ i j s t hi hj hs ht hN hconn hg (hpot s t hs ht),
    cfb_summand_eq_potential_drop n adj res R' _ i j s t hi hj hs ht hN hconn hg' (hpot s t hs ht)]

/-- **Vertex current-flow betweenness is a function of the network alone**: with equal source
and sink currents (the method passes `Is = It = 1`) the C sum returns the same value for any two
generalised inverses of the admittance Laplacian.  All that is used of `np.linalg.pinv` is
`L R L = L`. -/
theorem vcfb_ginv_unique (n : Nat) (adj : Adj) (res R R' : Mat) (I : Rat) (i : Nat) (hi : i < n)
    (hN : IsNetwork n adj res) (hconn : CutConnected n (admittance adj res))
    (hg : IsGinv n (laplacian n (admittance adj res)) R)
    (hg' : IsGinv n (laplacian n (admittance adj res)) R') :
    vcfbKernel n I I (admittance adj res) R i = vcfbKernel n I I (admittance adj res) R' i := by
  rw [vcfbKernel_eq_sum, vcfbKernel_eq_sum]
  congr 1
  refine Finset.sum_congr rfl fun t ht => Finset.sum_congr rfl fun s hs => ?_
  have ht' := Finset.mem_range.mp ht
  have hs' : s < n := lt_trans (Finset.mem_range.mp hs) ht'
  split
  · rfl
  · unfold nodeCurrent
    congr 1
    refine Finset.sum_congr rfl fun j hj => ?_
    have e : ∀ Q : Mat, I * (Q i s - Q j s) + I * (Q j t - Q i t)
        = I * (Q i s - Q j s + Q j t - Q i t) := fun Q => by ring
    rw [e R, e R', cfb_summand_ginv_unique n adj res R R' i j s t hi (Finset.mem_range.mp hj) hs' ht'
      hN hconn hg hg']

/-- … and so is every entry of the edge current-flow betweenness -/
theorem ecfb_ginv_unique (n : Nat) (adj : Adj) (res R R' : Mat) (I : Rat) (i j : Nat) (hi : i < n)
    (hj : j < n) (hN : IsNetwork n adj res) (hconn : CutConnected n (admittance adj res))
    (hg : IsGinv n (laplacian n (admittance adj res)) R)
    (hg' : IsGinv n (laplacian n (admittance adj res)) R') :
    ecfbKernel n I I (admittance adj res) R i j = ecfbKernel n I I (admittance adj res) R' i j := by
  rw [ecfbKernel_eq_sum, ecfbKernel_eq_sum]
  congr 1
  refine Finset.sum_congr rfl fun t ht => Finset.sum_congr rfl fun s hs => ?_
  have ht' := Finset.mem_range.mp ht
  have hs' : s < n := lt_trans (Finset.mem_range.mp hs) ht'
  have e : ∀ Q : Mat, I * (Q i s - Q j s) + I * (Q j t - Q i t)
      = I * (Q i s - Q j s + Q j t - Q i t) := fun Q => by ring
  rw [e R, e R', cfb_summand_ginv_unique n adj res R R' i j s t hi hj hs' ht' hN hconn hg hg']

/-- the scaled network: same links, resistances `× k`; `k R` is a generalised inverse of its
Laplacian -/
theorem ginv_of_scaled (n : Nat) (adj : Adj) (res R : Mat) (k : Rat) (hk : k ≠ 0)
    (hg : IsGinv n (laplacian n (admittance adj res)) R) :
    IsGinv n (laplacian n (admittance adj fun i j => k * res i j)) (fun a b => k * R a b) := by
  rw [admittance_scale_fun, laplacian_scale_fun]
  have := ginv_scale n _ R (1 / k) (one_div_ne_zero hk) hg
  simpa using this

/-- **Betweenness follows a rescaling of the resistances** (full strength): connected network,
all resistances `× k` (`k > 0`) through `update_resistances`, `R` / `R'` whatever generalised
inverses are stored before / after — the vertex current-flow betweenness does not change.
(`vcfb_scaling_invariant` assumed `R' = k R`.) -/
theorem vcfb_scaling_connected (n : Nat) (adj : Adj) (res R R' : Mat) (k : Rat) (hk : 0 < k)
    (I : Rat) (i : Nat) (hi : i < n) (hN : IsNetwork n adj res)
    (hconn : CutConnected n (admittance adj res))
    (hg : IsGinv n (laplacian n (admittance adj res)) R)
    (hg' : IsGinv n (laplacian n (admittance adj fun i j => k * res i j)) R') :
    vcfbKernel n I I (admittance adj fun i j => k * res i j) R' i
      = vcfbKernel n I I (admittance adj res) R i := by
  have hN' := isNetwork_scale k hk hN
  have hconn' : CutConnected n (admittance adj fun i j => k * res i j) := by
    rw [admittance_scale_fun]
    exact cutConnected_scale (1 / k) (one_div_ne_zero (ne_of_gt hk)) hconn
  rw [vcfb_ginv_unique n adj _ R' (fun a b => k * R a b) I i hi hN' hconn' hg'
    (ginv_of_scaled n adj res R k (ne_of_gt hk) hg), admittance_scale_fun]
  exact vcfb_scaling_invariant n I I _ R k hk i

theorem ecfb_scaling_connected (n : Nat) (adj : Adj) (res R R' : Mat) (k : Rat) (hk : 0 < k)
    (I : Rat) (i j : Nat) (hi : i < n) (hj : j < n) (hN : IsNetwork n adj res)
    (hconn : CutConnected n (admittance adj res))
    (hg : IsGinv n (laplacian n (admittance adj res)) R)
    (hg' : IsGinv n (laplacian n (admittance adj fun i j => k * res i j)) R') :
    ecfbKernel n I I (admittance adj fun i j => k * res i j) R' i j
      = ecfbKernel n I I (admittance adj res) R i j := by
  have hN' := isNetwork_scale k hk hN
  have hconn' : CutConnected n (admittance adj fun i j => k * res i j) := by
    rw [admittance_scale_fun]
    exact cutConnected_scale (1 / k) (one_div_ne_zero (ne_of_gt hk)) hconn
  rw [ecfb_ginv_unique n adj _ R' (fun a b => k * R a b) I i j hi hj hN' hconn' hg'
    (ginv_of_scaled n adj res R k (ne_of_gt hk) hg), admittance_scale_fun]
  exact ecfb_scaling_invariant n I I _ R k hk i j

/-- non-vacuity: the unit chain, its pseudo-inverse and the (different) generalised inverse
`chainPinv + J` — same betweenness -/
example : vcfbKernel 3 1 1 (admittance chainAdj unitRes) (fun a b => chainPinv a b + 1) 1
    = vcfbKernel 3 1 1 (admittance chainAdj unitRes) chainPinv 1 := by
  refine vcfb_ginv_unique 3 chainAdj unitRes _ _ 1 1 (by omega) chain_network chain_conn ?_ chain_ginv
  intro i j hi hj
  have hi' : i = 0 ∨ i = 1 ∨ i = 2 := by omega
  have hj' : j = 0 ∨ j = 1 ∨ j = 2 := by omega
  rcases hi' with rfl | rfl | rfl <;> rcases hj' with rfl | rfl | rfl <;>
    simp [sumTo, laplacian, colSum, admittance, chainAdj, unitRes, chainPinv, toFun, LMat.at,
      List.range_succ] <;> norm_num

/-! ## scaling of the remaining observables -/

/-- admittive clustering scales with the inverse square of a common factor of the resistances -/
theorem localClustering_scaling (n : Nat) (adj : Adj) (res : Mat) (k : Rat) (hk : k ≠ 0) (i : Nat) :
    localClustering n adj (admittance adj fun i j => k * res i j) i
      = (1 / k) ^ 2 * localClustering n adj (admittance adj res) i := by
  rw [localClustering_eq_sum, localClustering_eq_sum, admDegree_scaling]
  split
  · simp
  · rw [admittance_scale_fun]
    have hs : (∑ j ∈ range n, ∑ l ∈ range n,
          1 / k * admittance adj res i j * (1 / k * admittance adj res i l)
            * (1 / k * admittance adj res j l))
        = (1 / k) * ((1 / k) ^ 2 * ∑ j ∈ range n, ∑ l ∈ range n,
            admittance adj res i j * admittance adj res i l * admittance adj res j l) := by
      rw [Finset.mul_sum, Finset.mul_sum]
      refine Finset.sum_congr rfl fun j _ => ?_
      rw [Finset.mul_sum, Finset.mul_sum]
      refine Finset.sum_congr rfl fun l _ => ?_
      ring
    rw [hs, mul_assoc (1 / k), mul_div_mul_left _ _ (one_div_ne_zero hk), mul_div_assoc]

theorem globalClustering_scaling (n : Nat) (adj : Adj) (res : Mat) (k : Rat) (hk : k ≠ 0) :
    globalClustering n adj (admittance adj fun i j => k * res i j)
      = (1 / k) ^ 2 * globalClustering n adj (admittance adj res) := by
  rw [globalClustering_eq_mean, globalClustering_eq_mean,
    Finset.sum_congr rfl fun i _ => localClustering_scaling n adj res k hk i, ← Finset.mul_sum,
    mul_div_assoc]

/-- closeness scales inversely (connected network, `k > 0`, any generalised inverses) -/
theorem ercc_scaling_connected (n : Nat) (adj : Adj) (res R R' : Mat) (k : Rat) (hk : 0 < k)
    (a : Nat) (ha : a < n) (hN : IsNetwork n adj res) (hconn : CutConnected n (admittance adj res))
    (hg : IsGinv n (laplacian n (admittance adj res)) R)
    (hg' : IsGinv n (laplacian n (admittance adj fun i j => k * res i j)) R') :
    ercc n R' a = (1 / k) * ercc n R a := by
  unfold ercc
  rw [sumTo_eq, sumTo_eq, Finset.sum_congr rfl fun i hi =>
    effRes_scaling_connected n adj res R R' k (ne_of_gt hk) a i ha (Finset.mem_range.mp hi) hN hconn
      hg hg', ← Finset.mul_sum, div_eq_mul_inv, mul_inv]
  ring

private theorem list_sum_map_mul (k : Rat) (xs : List Rat) : (xs.map (k * ·)).sum = k * xs.sum := by
  induction xs with
  | nil => simp
  | cons x xs ih => simp [ih, mul_add]

/-- the store filled by `average_effective_resistance` after the rescaling is `k ×` the old one -/
theorem allPairs_scaling_connected (n : Nat) (adj : Adj) (res R R' : Mat) (k : Rat) (hk : 0 < k)
    (hN : IsNetwork n adj res) (hconn : CutConnected n (admittance adj res))
    (hg : IsGinv n (laplacian n (admittance adj res)) R)
    (hg' : IsGinv n (laplacian n (admittance adj fun i j => k * res i j)) R') :
    allPairs n R' = (allPairs n R).map (k * ·) :=
  allPairs_congr n R R' (k * ·) fun i j hi hj =>
    effRes_scaling_connected n adj res R R' k (ne_of_gt hk) i j hi (lt_trans hj hi) hN hconn hg hg'

/-- average and diameter scale linearly -/
theorem average_scaling_connected (n : Nat) (adj : Adj) (res R R' : Mat) (k : Rat) (hk : 0 < k)
    (hN : IsNetwork n adj res) (hconn : CutConnected n (admittance adj res))
    (hg : IsGinv n (laplacian n (admittance adj res)) R)
    (hg' : IsGinv n (laplacian n (admittance adj fun i j => k * res i j)) R') :
    averageOf n (allPairs n R') = k * averageOf n (allPairs n R) := by
  rw [allPairs_scaling_connected n adj res R R' k hk hN hconn hg hg']
  unfold averageOf
  rw [list_sum_map_mul]
  ring

theorem diameter_scaling_connected (n : Nat) (adj : Adj) (res R R' : Mat) (k : Rat) (hk : 0 < k)
    (hN : IsNetwork n adj res) (hconn : CutConnected n (admittance adj res))
    (hg : IsGinv n (laplacian n (admittance adj res)) R)
    (hg' : IsGinv n (laplacian n (admittance adj fun i j => k * res i j)) R') :
    maxOf (allPairs n R') = (maxOf (allPairs n R)).map (k * ·) := by
  rw [allPairs_scaling_connected n adj res R R' k hk hN hconn hg hg']
  exact maxOf_scale k hk _

example : localClustering 3 triAdj (admittance triAdj fun _ _ => 2 * 1) 0
    = (1 / 2) ^ 2 * localClustering 3 triAdj (admittance triAdj fun _ _ => 1) 0 :=
  localClustering_scaling 3 triAdj (fun _ _ => 1) 2 (by norm_num) 0

/-! ## the C kernels and the update methods, regenerated from the source text

`Pyunicorn.Generated.StructC18` is written on every run by `translate/gen_C18.py` from
`src_numerics.c` (a small C parser: loop nest, `continue` condition, the two accumulation
statements of each kernel with every subscript checked to be row-major `row*N+col`) and from the
`ast` of `update_resistances`, `update_admittance`, `update_R`, `__init__`.  The model's kernels are
proved equal to the loops assembled from the generated pieces, so an edit of a summand, a
normalisation, the skip condition or a subscript (e.g. a transposed `R[s*N+j]`) breaks this file;
a changed loop bound or call order changes `vcfbLoops` / `updResCalls` and breaks the `rfl`s. -/
section source_tie5
open Pyunicorn.Generated.StructC18

/-- the loop nests as written: `for(t=0;t<N;t++) for(s=0;s<t;s++) … for(j=0;j<N;j++)` and
`for i<N, for j<N, for t<N, for s<t` -/
theorem cfb_loops_match_source :
    vcfbLoops = [("t", "0", "N"), ("s", "0", "t"), ("j", "0", "N")]
      ∧ ecfbLoops = [("i", "0", "N"), ("j", "0", "N"), ("t", "0", "N"), ("s", "0", "t")] :=
  ⟨rfl, rfl⟩

/-- the model of the vertex kernel is the loop nest of `vcfbLoops` around the generated skip
condition, summand and normalisation -/
theorem vcfbKernel_matches_source (n : Nat) (Is It : Rat) (adm R : Mat) (i : Nat) :
    vcfbKernel n Is It adm R i
      = (List.range n).foldl (fun vcfb t =>
          (List.range t).foldl (fun vcfb s =>
            if vcfbSkip i t s = true then vcfb
            else vcfb + vcfbNorm ((List.range n).foldl (fun J j =>
              J + vcfbTerm Is It (adm i j) (R i s) (R j s) (R j t) (R i t)) 0) (n : Int)) vcfb) 0 := by
  unfold vcfbKernel vcfbSkip vcfbNorm vcfbTerm
  simp only [decide_eq_true_eq, natpair_cast]
  rfl

theorem ecfbKernel_matches_source (n : Nat) (Is It : Rat) (adm R : Mat) (i j : Nat) :
    ecfbKernel n Is It adm R i j
      = ecfbNorm ((List.range n).foldl (fun J t =>
          (List.range t).foldl (fun J s =>
            J + ecfbTerm Is It (adm i j) (R i s) (R j s) (R j t) (R i t)) J) 0) (n : Int) := by
  unfold ecfbKernel ecfbNorm ecfbTerm
  simp only [natpair_cast]
  rfl

/-- one `self.<method>()` call of `update_resistances` on the model state -/
def execCall (pinv : Nat → Mat → LMat) (s : State) : Call → Option State
  | .update_admittance => some (step pinv s .updAdm).1
  | .update_R => some (step pinv s .updR).1
  | .other _ => none

def execCalls (pinv : Nat → Mat → LMat) : State → List Call → Option State
  | s, [] => some s
  | s, c :: cs => (execCall pinv s c).bind fun s' => execCalls pinv s' cs

/-- **`update_resistances` as written**: setting the property and then running the calls listed
in the regenerated `updResCalls` (today `update_admittance()`, `update_R()`) gives the model's
`State.update`.  A reordered, dropped or conditional call falsifies this. -/
theorem update_body_matches_source (pinv : Nat → Mat → LMat) (s : State) (r : Mat) :
    updResSetsProperty = true
      ∧ execCalls pinv { s with res := r } updResCalls = some (s.update pinv r) := by
  exact ⟨rfl, rfl⟩

/-- the filling loop of `update_admittance` runs over `edge_list()` — the *links* — and reads
`resistances` at the subscripts it writes (or the transposed ones: the same value on the symmetric
matrices of the property); `admittance_offlink` is the consequence -/
theorem admittance_loop_matches_source :
    admLoopOver = "self.edge_list()" ∧ admTargetIndex = ["edge[0]", "edge[1]"]
      ∧ (admValueIndex = admTargetIndex ∨ admValueIndex = admTargetIndex.reverse) :=
  ⟨rfl, rfl, Or.inl rfl⟩

/-- `update_R`: pseudo-inverse of `admittance_lapacian()`, then the store is dropped; `__init__`
ends with `update_resistances(resistances)` and an empty store — the shape of `State.update`,
`step … .updR` and `State.init` -/
theorem updR_init_match_source (pinv : Nat → Mat → LMat) (n : Nat) (adj : Adj) (res : Mat) :
    updRInput = "self.admittance_lapacian()" ∧ updRResetsStore = true
      ∧ initCallsUpdate = true ∧ initStoreNone = true
      ∧ (State.init pinv n adj res).store = none
      ∧ ∀ s : State, (step pinv s .updR).1.store = none :=
  ⟨rfl, rfl, rfl, rfl, rfl, fun _ => rfl⟩

/-- the singular-value cut-off handed to `np.linalg.pinv` is `N · eps` of *double* precision; for
every size below `2^29` it stays below the float32 unit round-off `2^-23` (the seeded changes
C18-1 / C18-5 put a float32 `eps` here, which discards genuine small Laplacian eigenvalues) -/
theorem rcond_matches_source :
    rcondEpsType = "float" ∧ (∀ (N : Nat) (eps : Rat), rcondExpr N eps = N * eps)
      ∧ ∀ N : Nat, N < 2 ^ 29 → rcondExpr N (1 / 2 ^ 52) < 1 / 2 ^ 23 := by
  refine ⟨rfl, fun _ _ => rfl, fun N hN => ?_⟩
  unfold rcondExpr
  have h : (N : Rat) < 2 ^ 29 := by exact_mod_cast hN
  rw [mul_one_div, div_lt_div_iff₀ (by positivity) (by positivity)]
  calc (N : Rat) * 2 ^ 23 < 2 ^ 29 * 2 ^ 23 := by
        exact mul_lt_mul_of_pos_right h (by positivity)
    _ = 1 * 2 ^ 52 := by norm_num

example (pinv : Nat → Mat → LMat) (r : Mat) :
    execCalls pinv { (State.init pinv 3 chainAdj unitRes) with res := r } [.update_admittance, .update_R]
      = some ((State.init pinv 3 chainAdj unitRes).update pinv r) :=
  (update_body_matches_source pinv _ r).2

end source_tie5


/-! ## round 5: the update methods as written, executed statement by statement

`translate/gen_C18.py` now also turns the *bodies* of `get_admittance`, `get_R`,
`admittance_lapacian`, `update_admittance`, `update_R`, `update_resistances` and the `ResNetwork`
part of `__init__` into Lean functions on the record `Py` of the object's attributes
(`Model/CircuitPy.lean` fixes the meaning of the library calls used: `sparse.lil_matrix((N, N))`,
`A[i, j] = v`, `np.diag`, builtin `sum`, array `-`, `edge_list()`, `np.linalg.pinv` = the parameter
`pinv`).  The theorems below prove that these regenerated programs compute exactly the model's
state machine — the filling loop over `edge_list()` *is* `admittance`, the Laplacian expression *is*
`laplacian`, `update_R` / `update_resistances` / `__init__` *are* `step … .updR` / `State.update` /
`State.init` — so every history theorem of this file is a statement about the code as written.
Rounds 1–4 compared regenerated *shapes* (strings, call lists) with `rfl`; a reordered statement,
a loop over another list, another target subscript, a store that is not dropped, a Laplacian from
row sums … now changes a definition these proofs are about. -/
section source_tie6
open Pyunicorn.Generated.StructC18

/-- no method body fell outside the translated fragment (otherwise the generated file holds a
stub for it and this is `false`) -/
theorem bodies_translated : pyBodiesTranslated = true := rfl

/-- `get_admittance()` / `get_R()` return the held matrices; `admittance_lapacian()` as written
(`np.diag(sum(self.get_admittance())) - self.get_admittance()`, builtin `sum` = sum of the rows)
is the model's `laplacian` of the held admittance matrix -/
theorem getters_match_source (p : Py) :
    get_admittance p = p.abs.adm ∧ get_R p = p.abs.R
      ∧ admittance_lapacian p = laplacian p.abs.n p.abs.adm := ⟨rfl, rfl, rfl⟩

/-- **`update_admittance` as written** — a fresh empty `lil_matrix((N, N))`, then
`for edge in list(self.edge_list()): sparse_Adm[edge[0], edge[1]] = 1./resistances[edge[0], edge[1]]`
— computes the model's `admittance adj res` and touches nothing else (`AdjIn`: the adjacency
matrix the network holds is `N × N`).  `fill_eq_admittance` (Lemmas) is the loop invariant: for
*any* list enumerating the stored adjacency entries, in any order, with repetitions. -/
theorem update_admittance_body_matches_source (pinv : Nat → Mat → LMat) (p : Py)
    (h : AdjIn p.N p.adj) :
    (update_admittance pinv p).abs = (step pinv p.abs .updAdm).1 := by
  unfold update_admittance
  simp only []
  rw [foldl_fill_py _ (fun res A e => setItem A e.1 e.2 ((1 : Rat) / res e.1 e.2))]
  simp only [Py.abs, step, Py.edge_list]
  rw [fill_nzCoords _ _ _ h]

/-- **`update_R` as written** (`laplacian = self.admittance_lapacian()`, `sparse_R =
lil_matrix(pinv(laplacian, rcond=…))`, `_effective_resistances = None`) is the model's `updR` -/
theorem update_R_body_matches_source (pinv : Nat → Mat → LMat) (p : Py) :
    (update_R pinv p).abs = (step pinv p.abs .updR).1 := rfl

/-- **`update_resistances` as written** (the whole body, not only its call list) is
`State.update` -/
theorem update_resistances_body_matches_source (pinv : Nat → Mat → LMat) (p : Py) (r : Mat)
    (h : AdjIn p.N p.adj) :
    (update_resistances pinv p r).abs = p.abs.update pinv r := by
  unfold update_resistances
  simp only []
  rw [update_R_body_matches_source,
    update_admittance_body_matches_source pinv { p with resistances := r } h]
  rfl

/-- **`__init__` as written** (everything after `GeoNetwork.__init__`): whatever the attributes
held before, the object stands for `State.init pinv N adj res` -/
theorem init_body_matches_source (pinv : Nat → Mat → LMat) (p : Py) (res : Mat)
    (h : AdjIn p.N p.adj) :
    (init_tail pinv p res).abs = State.init pinv p.N p.adj res := by
  unfold init_tail
  simp only []
  have := update_resistances_body_matches_source pinv
    { p with sparse_Adm := pyNoneMat, sparse_R := pyNoneMat } res h
  simp only [Py.abs] at this ⊢
  rw [State.mk.injEq] at this
  obtain ⟨h1, h2, h3, h4, h5, _⟩ := this
  simp only [h1, h2, h3, h4, h5]
  rfl

theorem pyInit_matches_model (pinv : Nat → Mat → LMat) (n : Nat) (adj : Adj) (res : Mat)
    (h : AdjIn n adj) : (pyInit pinv n adj res).abs = State.init pinv n adj res :=
  init_body_matches_source pinv _ res h

/-- no call changes the number of nodes or the links -/
theorem step_frame (pinv : Nat → Mat → LMat) (s : State) (op : Op) :
    (step pinv s op).1.n = s.n ∧ (step pinv s op).1.adj = s.adj := by
  cases op <;> simp only [step, State.update] <;>
    first | exact ⟨trivial, trivial⟩ | exact ⟨rfl, rfl⟩
          | (split <;> first | exact ⟨trivial, trivial⟩ | exact ⟨rfl, rfl⟩)

/-- one call on the object whose mutating methods (and matrix getters) are the regenerated bodies
= one `step` of the model -/
theorem pyStep_matches_model (pinv : Nat → Mat → LMat) (p : Py) (op : Op) (h : AdjIn p.N p.adj) :
    ((pyStep pinv p op).1.abs, (pyStep pinv p op).2) = step pinv p.abs op := by
  cases op with
  | update r => simp only [pyStep, step, update_resistances_body_matches_source pinv p r h]
  | updAdm => simp only [pyStep, update_admittance_body_matches_source pinv p h]; rfl
  | updR => simp only [pyStep, update_R_body_matches_source pinv p]; rfl
  | _ => rfl

/-- **whole histories on the code as written**: the machine the driver runs for `histp` requests
(`pyRun`: regenerated `update_resistances` / `update_admittance` / `update_R` / getters) returns,
call by call, what the model's `run` returns and ends in the state the model ends in -/
theorem pyRun_matches_model (pinv : Nat → Mat → LMat) (p : Py) (ops : List Op)
    (h : AdjIn p.N p.adj) :
    ((pyRun pinv p ops).1.abs, (pyRun pinv p ops).2) = run pinv p.abs ops := by
  induction ops generalizing p with
  | nil => rfl
  | cons op ops ih =>
    have hs := pyStep_matches_model pinv p op h
    have hf := step_frame pinv p.abs op
    rw [← hs] at hf
    have h' : AdjIn (pyStep pinv p op).1.N (pyStep pinv p op).1.adj := by
      have h1 : (pyStep pinv p op).1.N = p.N := hf.1
      have h2 : (pyStep pinv p op).1.adj = p.adj := hf.2
      rw [h1, h2]; exact h
    have := ih (pyStep pinv p op).1 h'
    simp only [pyRun, run, ← hs, ← this]

/-- **"all of them follow a change of the resistances", about the regenerated code**: construct
the object by the regenerated `__init__`, drive it through any history of the regenerated update
methods and the 15 queries — every call returns what a freshly constructed network with the
current resistances returns (`specRun`), for every `pinv` -/
theorem history_fresh_source (pinv : Nat → Mat → LMat) (n : Nat) (adj : Adj) (res : Mat)
    (ops : List Op) (h : AdjIn n adj) :
    (pyRun pinv (pyInit pinv n adj res) ops).2 = specRun pinv n adj res ops := by
  have hi := pyInit_matches_model pinv n adj res h
  have hN : AdjIn (pyInit pinv n adj res).N (pyInit pinv n adj res).adj := by
    have h1 : (pyInit pinv n adj res).N = n := congrArg State.n hi
    have h2 : (pyInit pinv n adj res).adj = adj := congrArg State.adj hi
    rw [h1, h2]; exact h
  have := pyRun_matches_model pinv (pyInit pinv n adj res) ops hN
  rw [hi] at this
  rw [← history_fresh pinv n adj res ops, ← this]

/-- the three-node chain as an adjacency matrix held by a network (nothing outside `3 × 3`;
`chainAdj` itself is the infinite chain) -/
def chain3 : Adj := fun i j => decide (i < 3) && decide (j < 3) && chainAdj i j

/-- non-vacuity: `chain3` is `3 × 3`; the regenerated loop on it with resistances 2 fills `1/2`
on the links and nothing else -/
example : AdjIn 3 chain3 := by
  intro i j h
  simp [chain3] at h
  omega

example : (update_admittance (fun _ _ => []) (pyInit (fun _ _ => []) 3 chain3 fun _ _ => 2)).sparse_Adm 0 1
    = 1 / 2 ∧ (update_admittance (fun _ _ => []) (pyInit (fun _ _ => []) 3 chain3 fun _ _ => 2)).sparse_Adm 0 2 = 0 := by
  decide +kernel

end source_tie6

end Pyunicorn.Circuit
