import Pyunicorn.Model.Circuit
/-! C18 — property theorems (first version) -/
namespace Pyunicorn.Circuit

/-- effective resistance is symmetric, for every matrix `R` whatsoever -/
theorem effRes_symm (R : Mat) (a b : Nat) : effRes R a b = effRes R b a := by
  unfold effRes
  by_cases h : a = b
  · subst h; rfl
  · have h' : ¬ b = a := fun e => h e.symm
    simp only [h, h', if_false]
    grind

theorem effRes_self (R : Mat) (a : Nat) : effRes R a a = 0 := by simp [effRes]

end Pyunicorn.Circuit
