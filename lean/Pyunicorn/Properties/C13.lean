import Pyunicorn.Model.Window
namespace Pyunicorn.Window

theorem select_replicate_true {α : Type} (xs : List α) :
    select (List.replicate xs.length true) xs = xs := by
  induction xs with
  | nil => rfl
  | cons x t ih => simp [List.replicate_succ, select, ih]

end Pyunicorn.Window
