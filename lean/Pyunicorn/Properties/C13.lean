import Pyunicorn.Lemmas.Window
import Pyunicorn.Lemmas.WindowShuffle
import Pyunicorn.Lemmas.WindowFloat
import Pyunicorn.Lemmas.WindowFloat64
import Pyunicorn.Lemmas.WindowFloatExact
import Pyunicorn.Generated.ArithC13
/-!
# C13 — Data windows select exactly the requested samples; anomalies sum

Statements about the model `Pyunicorn.Window` of `Data.set_window`,
`Data.set_global_window`, `ClimateData.phase_indices / phase_mean / anomaly`
and the `_mut_window`-keyed memoisation.  The model is tied to the Python
classes by the history-level correspondence in `harness/c13.py`.
-/
namespace Pyunicorn.Window
open Pyunicorn.Generated

/-! ## 1. The window exposes exactly the samples inside the closed window -/

/-- membership of a time stamp in the temporal window: the closed interval, or
everything if the two bounds coincide -/
def timeIn (w : Win) (t : Rat) : Bool :=
  decide (w.tmin = w.tmax) || inRange w.tmin w.tmax t

/-- membership of a node `(lat, lon)` in the spatial window: the closed box, or
everything if the latitude or the longitude bounds coincide (documented
convention of `set_window`) -/
def nodeIn (w : Win) (p : Rat × Rat) : Bool :=
  decide (w.latmin = w.latmax ∨ w.lonmin = w.lonmax) || inBox w p.1 p.2

/-- `inRange` is the closed interval -/
theorem inRange_iff (lo hi x : Rat) : inRange lo hi x = true ↔ lo ≤ x ∧ x ≤ hi := by
  simp [inRange]

/-- `inBox` is the closed box -/
theorem inBox_iff (w : Win) (la lo : Rat) :
    inBox w la lo = true ↔ (w.latmin ≤ la ∧ la ≤ w.latmax) ∧ (w.lonmin ≤ lo ∧ lo ≤ w.lonmax) := by
  simp [inBox, inRange]

theorem timeMask_eq (w : Win) (time : Vec) : timeMask w time = time.map (timeIn w) := by
  unfold timeMask timeIn
  by_cases h : w.tmin = w.tmax
  · simp only [h, if_true, decide_true, Bool.true_or]
    exact (List.map_const' ..).symm
  · simp [h]

theorem spaceMask_eq (w : Win) (lat lon : Vec) (h : lat.length = lon.length) :
    spaceMask w lat lon = (lat.zip lon).map (nodeIn w) := by
  unfold spaceMask nodeIn
  by_cases hd : w.latmin = w.latmax ∨ w.lonmin = w.lonmax
  · simp only [hd, if_true, decide_true, Bool.true_or]
    rw [List.map_const']
    simp [h]
  · simp only [hd, if_false, decide_false, Bool.false_or]
    simp [List.zip_eq_zipWith, List.map_zipWith]

/-- well-formed data: `observable.shape = (len(time), len(lat))`, `len(lat) = len(lon)` -/
structure View.WF (v : View) : Prop where
  rows : v.obs.length = v.time.length
  cols : ∀ r ∈ v.obs, r.length = v.lat.length
  latlon : v.lat.length = v.lon.length


/-- the components of the view a window produces -/
theorem applyWindow_some (full : View) (w : Win) (v : View) (h : applyWindow full w = some v) :
    v.time = select (timeMask w full.time) full.time
    ∧ v.lat = select (spaceMask w full.lat full.lon) full.lat
    ∧ v.lon = select (spaceMask w full.lat full.lon) full.lon
    ∧ v.obs = (select (timeMask w full.time) full.obs).map
        (select (spaceMask w full.lat full.lon))
    ∧ v.time ≠ [] ∧ v.lat ≠ [] := by
  unfold applyWindow at h
  simp only at h
  split at h
  · exact absurd h (by simp)
  · rename_i hne
    simp only [Bool.or_eq_true, not_or, List.isEmpty_iff] at hne
    have := Option.some.inj h
    subst this
    exact ⟨rfl, rfl, rfl, rfl, hne.1, hne.2⟩

/-- **the window selects exactly the requested samples**: the exposed time axis
is the sub-sequence of the time stamps inside the window, the exposed nodes are
the nodes inside the window, and the exposed observable consists of exactly the
rows of the selected time stamps, each restricted to the selected nodes (order
preserved, nothing else). -/
theorem window_selects_exactly (full : View) (w : Win) (v : View) (hwf : full.WF)
    (h : applyWindow full w = some v) :
    v.time = full.time.filter (timeIn w)
    ∧ v.lat.zip v.lon = (full.lat.zip full.lon).filter (nodeIn w)
    ∧ v.time.zip v.obs
        = ((full.time.zip full.obs).filter (fun p => timeIn w p.1)).map fun p =>
            (p.1, (((full.lat.zip full.lon).zip p.2).filter (fun q => nodeIn w q.1)).map Prod.snd) := by
  obtain ⟨ht, hla, hlo, hobs, _, _⟩ := applyWindow_some full w v h
  refine ⟨?_, ?_, ?_⟩
  · rw [ht, timeMask_eq, select_map_eq_filter]
  · rw [hla, hlo, ← select_zip, spaceMask_eq _ _ _ hwf.latlon, select_map_eq_filter]
  · rw [ht, hobs, List.zip_map_right, ← select_zip, timeMask_eq, select_map_zip_self,
      spaceMask_eq _ _ _ hwf.latlon]
    apply List.map_congr_left
    intro p _
    simp only [Prod.map, id, select_map_zip]

/-- the error branch: `set_window` raises iff no time stamp or no node lies in the window -/
theorem window_rejected_iff (full : View) (w : Win) (hwf : full.WF) :
    applyWindow full w = none
      ↔ full.time.filter (timeIn w) = [] ∨ (full.lat.zip full.lon).filter (nodeIn w) = [] := by
  have e1 : select (timeMask w full.time) full.time = full.time.filter (timeIn w) := by
    rw [timeMask_eq, select_map_eq_filter]
  have e2 : (select (spaceMask w full.lat full.lon) full.lat).zip
      (select (spaceMask w full.lat full.lon) full.lon)
      = (full.lat.zip full.lon).filter (nodeIn w) := by
    rw [← select_zip, spaceMask_eq _ _ _ hwf.latlon, select_map_eq_filter]
  have e3 : select (spaceMask w full.lat full.lon) full.lat = []
      ↔ (full.lat.zip full.lon).filter (nodeIn w) = [] := by
    rw [← e2]
    constructor
    · intro hx; simp [hx]
    · intro hz
      have hl := select_length_eq (spaceMask w full.lat full.lon) full.lat full.lon hwf.latlon
      have := congrArg List.length hz
      simp only [List.length_zip, List.length_nil, ← hl, Nat.min_self] at this
      exact List.eq_nil_of_length_eq_zero this
  unfold applyWindow
  simp only [Bool.or_eq_true, List.isEmpty_iff, e1]
  constructor
  · intro hn
    split at hn
    · rename_i hc
      rcases hc with hc | hc
      · exact Or.inl hc
      · exact Or.inr (e3.mp hc)
    · exact absurd hn (by simp)
  · intro hc
    rw [if_pos]
    rcases hc with hc | hc
    · exact Or.inl hc
    · exact Or.inr (e3.mpr hc)

/-! ## 2. Shapes agree -/

/-- observable and grid of a windowed view have matching shapes -/
theorem window_shapes_agree (full : View) (w : Win) (v : View) (hwf : full.WF)
    (h : applyWindow full w = some v) : v.WF := by
  obtain ⟨ht, hla, hlo, hobs, _, _⟩ := applyWindow_some full w v h
  refine ⟨?_, ?_, ?_⟩
  · rw [hobs, ht, List.length_map]
    exact select_length_eq _ _ _ hwf.rows
  · intro r hr
    rw [hobs] at hr
    obtain ⟨r0, hr0, rfl⟩ := List.mem_map.mp hr
    rw [hla]
    exact select_length_eq _ _ _ (hwf.cols r0 (mem_select _ _ _ hr0))
  · rw [hla, hlo]
    exact select_length_eq _ _ _ hwf.latlon

/-! ## 3. The global window restores the original view -/

/-- the dictionary literal of `Data.set_global_window` (regenerated from the source by
`translate/gen_C13.py`) has coinciding bounds on every axis — whatever the six numbers are -/
theorem global_window_degenerate :
    globalWin.tmin = globalWin.tmax ∧ globalWin.latmin = globalWin.latmax
      ∧ globalWin.lonmin = globalWin.lonmax := by
  simp [globalWin, StructC13.gTimeMin, StructC13.gTimeMax, StructC13.gLatMin, StructC13.gLatMax,
    StructC13.gLonMin, StructC13.gLonMax]

/-- `set_global_window` exposes the full data set again (and cannot raise on
non-empty data) -/
theorem global_window_is_full (full : View) (hwf : full.WF) (h1 : full.time ≠ [])
    (h2 : full.lat ≠ []) : applyWindow full globalWin = some full := by
  have et : timeMask globalWin full.time = List.replicate full.time.length true := by
    simp [timeMask, global_window_degenerate.1]
  have es : spaceMask globalWin full.lat full.lon = List.replicate full.lat.length true := by
    simp [spaceMask, global_window_degenerate.2.1]
  unfold applyWindow
  simp only [et, es, select_replicate_true]
  have e1 : select (List.replicate full.lat.length true) full.lon = full.lon := by
    rw [hwf.latlon]; exact select_replicate_true _
  have e2 : select (List.replicate full.time.length true) full.obs = full.obs := by
    rw [← hwf.rows]; exact select_replicate_true _
  have e3 : full.obs.map (select (List.replicate full.lat.length true)) = full.obs := by
    conv => rhs; rw [← List.map_id full.obs]
    apply List.map_congr_left
    intro r hr
    rw [← hwf.cols r hr]; exact select_replicate_true _
  rw [e1, e2, e3]
  have : (full.time.isEmpty || full.lat.isEmpty) = false := by
    simp [h1, h2]
  rw [this]
  rfl


/-! ## 3b. `window()` reports the bounding box of the exposed samples -/

/-- every entry of `window()` is attained by an exposed sample and bounds all of them -/
theorem window_is_bounding_box (v : View) (b : List Rat) (h : boundaries v = some b) :
    ∃ t0 t1 la0 la1 lo0 lo1, b = [t0, t1, la0, la1, lo0, lo1]
      ∧ (t0 ∈ v.time ∧ ∀ t ∈ v.time, t0 ≤ t) ∧ (t1 ∈ v.time ∧ ∀ t ∈ v.time, t ≤ t1)
      ∧ (la0 ∈ v.lat ∧ ∀ x ∈ v.lat, la0 ≤ x) ∧ (la1 ∈ v.lat ∧ ∀ x ∈ v.lat, x ≤ la1)
      ∧ (lo0 ∈ v.lon ∧ ∀ x ∈ v.lon, lo0 ≤ x) ∧ (lo1 ∈ v.lon ∧ ∀ x ∈ v.lon, x ≤ lo1) := by
  unfold boundaries at h
  cases h1 : vmin v.time with
  | none => simp [h1] at h
  | some t0 =>
  cases h2 : vmax v.time with
  | none => simp [h1, h2] at h
  | some t1 =>
  cases h3 : vmin v.lat with
  | none => simp [h1, h2, h3] at h
  | some la0 =>
  cases h4 : vmax v.lat with
  | none => simp [h1, h2, h3, h4] at h
  | some la1 =>
  cases h5 : vmin v.lon with
  | none => simp [h1, h2, h3, h4, h5] at h
  | some lo0 =>
  cases h6 : vmax v.lon with
  | none => simp [h1, h2, h3, h4, h5, h6] at h
  | some lo1 =>
  simp [h1, h2, h3, h4, h5, h6] at h
  exact ⟨t0, t1, la0, la1, lo0, lo1, h.symm, vmin_spec _ _ h1, vmax_spec _ _ h2,
    vmin_spec _ _ h3, vmax_spec _ _ h4, vmin_spec _ _ h5, vmax_spec _ _ h6⟩

/-- the reported temporal window lies inside the requested closed window -/
theorem window_inside_requested (full : View) (w : Win) (v : View) (hwf : full.WF)
    (h : applyWindow full w = some v) (hnd : w.tmin ≠ w.tmax) (b : List Rat)
    (hb : boundaries v = some b) :
    ∃ t0 t1 rest, b = t0 :: t1 :: rest ∧ w.tmin ≤ t0 ∧ t1 ≤ w.tmax := by
  obtain ⟨t0, t1, la0, la1, lo0, lo1, rfl, ⟨m0, _⟩, ⟨m1, _⟩, _⟩ := window_is_bounding_box v b hb
  have ht := (window_selects_exactly full w v hwf h).1
  rw [ht] at m0 m1
  have k0 := (List.mem_filter.mp m0).2
  have k1 := (List.mem_filter.mp m1).2
  simp only [timeIn, hnd, decide_false, Bool.false_or, inRange_iff] at k0 k1
  exact ⟨t0, t1, _, rfl, k0.1, k1.2⟩

/-! ## 4. Derived series: shapes -/

/-- `anomaly()` (computed branch) has the shape of the observable, for every cycle length -/
theorem anomaly_shape (c n : Nat) (obs : Mat) (h : ∀ r ∈ obs, r.length = n) :
    (anomalyOf c n obs).length = obs.length ∧ ∀ r ∈ anomalyOf c n obs, r.length = n := by
  by_cases hc : c = 0
  · subst hc
    simp [anomalyOf, zeros]
  · rw [anomalyOf_closed c n obs (by omega)]
    refine ⟨by simp, ?_⟩
    intro r hr
    obtain ⟨t, ht, rfl⟩ := List.getElem_of_mem hr
    simp only [List.length_zipWith, List.length_range, Nat.min_self] at ht
    simp only [List.getElem_zipWith]
    rw [vsub_length _ _ (by rw [meanRow_length c n obs _ h, h _ (List.getElem_mem _)])]
    exact h _ (List.getElem_mem _)

/-- `phase_mean()` has `time_cycle` rows; every finite row has one entry per node -/
theorem phaseMean_shape (c n : Nat) (obs : Mat) (h : ∀ r ∈ obs, r.length = n) :
    (phaseMean c n obs).length = c
    ∧ ∀ v, some v ∈ phaseMean c n obs → v.length = n := by
  refine ⟨by simp [phaseMean], ?_⟩
  intro v hv
  simp only [phaseMean, List.mem_map, List.mem_range] at hv
  obtain ⟨i, _, hi⟩ := hv
  unfold colMean at hi
  split at hi
  · exact absurd hi (by simp)
  · have := Option.some.inj hi
    subst this
    simp only [List.length_map]
    exact colSum_length n _ (fun r hr => h r (mem_everyNth _ _ _ _ hr))

/-- a phase has a finite mean iff it has a sample, i.e. iff its number is below
the record length (cycle lengths exceeding the record leave NaN rows) -/
theorem phaseMean_finite_iff (c n : Nat) (obs : Mat) (i : Nat) (hi : i < c) :
    (phaseMean c n obs)[i]? = some none ↔ obs.length ≤ i := by
  have hc : 0 < c := by omega
  simp only [phaseMean, List.getElem?_map, List.getElem?_range hi, Option.map_some,
    Option.some.injEq]
  unfold colMean
  constructor
  · intro h
    split at h
    · rename_i he
      apply Nat.le_of_not_lt
      intro hlt
      have := everyNth_phase_ne_nil c hc obs i hlt
      rw [Nat.mod_eq_of_lt hi] at this
      exact this (List.isEmpty_iff.mp he)
    · exact absurd h (by simp)
  · intro h
    have : everyNth c i obs = [] := by
      rw [everyNth_eq_select, hitMask_phase c i _ hi]
      apply select_all_false
      intro b hb
      obtain ⟨t, ht, rfl⟩ := List.mem_map.mp hb
      have := List.mem_range.mp ht
      have : t % c ≤ t := Nat.mod_le _ _
      simp; omega
    simp [this]

/-- `phase_indices()` is defined for every positive cycle length (`time_cycle = 0`
raises `ZeroDivisionError`) -/
theorem phaseIndices_defined (c T : Nat) : (phaseIndices c T).isSome ↔ 0 < c := by
  unfold phaseIndices
  by_cases h : c = 0 <;> simp [h]; omega

/-- `phase_indices()`: `time_cycle` rows of `⌊T / time_cycle⌋` indices each; row `i`
lists the indices `i, i + c, …` of the complete years, all inside the record -/
theorem phaseIndices_shape (c T : Nat) (hc : 0 < c) (pi : List (List Nat))
    (h : phaseIndices c T = some pi) :
    pi.length = c
      ∧ ∀ i (hi : i < pi.length), (pi[i]).length = T / c
        ∧ ∀ y (hy : y < (pi[i]).length), (pi[i])[y] = i + y * c ∧ (pi[i])[y] < T
            ∧ (pi[i])[y] % c = i := by
  simp only [phaseIndices, Nat.ne_of_gt hc, if_false, Option.some.injEq] at h
  subst h
  refine ⟨by simp, ?_⟩
  intro i hi
  simp only [List.length_map, List.length_range] at hi
  refine ⟨by simp, ?_⟩
  intro y hy
  simp only [List.getElem_map, List.getElem_range, List.length_map, List.length_range] at hy ⊢
  refine ⟨trivial, ?_, ?_⟩
  · have h1 : (y + 1) * c ≤ (T / c) * c := Nat.mul_le_mul_right c hy
    have h2 : (T / c) * c ≤ T := Nat.div_mul_le_self T c
    rw [Nat.succ_mul] at h1
    omega
  · rw [Nat.add_mul_mod_self_right, Nat.mod_eq_of_lt hi]


/-- `indices_selected_phases(sel)` (all phases valid): the result is sorted and is a
rearrangement of the complete-year indices `p, p + c, …` of the selected phases (with
multiplicity); in particular all indices address existing rows of `anomaly()` -/
theorem selected_indices_spec (c T : Nat) (hc : 0 < c) (sel : List Nat) (hs : ∀ p ∈ sel, p < c) :
    ∃ idx, indicesSelectedPhases c T sel = .ok idx
      ∧ idx.Pairwise (· ≤ ·)
      ∧ idx.Perm ((sel.map fun p => (List.range (T / c)).map fun y => p + y * c).flatten)
      ∧ ∀ t ∈ idx, t < T := by
  have hall : sel.all (· < c) = true := by
    simp only [List.all_eq_true, decide_eq_true_eq]; exact hs
  have hrows : (sel.map fun p => ((List.range c).map fun i =>
        (List.range (T / c)).map fun y => i + y * c).getD p [])
      = sel.map fun p => (List.range (T / c)).map fun y => p + y * c := by
    apply List.map_congr_left
    intro p hp
    simp [List.getD, List.getElem?_map, List.getElem?_range (hs p hp)]
  refine ⟨_, by simp only [indicesSelectedPhases, phaseIndices, Nat.ne_of_gt hc, if_false, hall,
    if_true, hrows], sortNat_sorted _, sortNat_perm _, ?_⟩
  intro t ht
  have ht' := (sortNat_perm _).mem_iff.mp ht
  simp only [List.mem_flatten, List.mem_map] at ht'
  obtain ⟨row, ⟨p, hp, rfl⟩, htrow⟩ := ht'
  simp only [List.mem_map, List.mem_range] at htrow
  obtain ⟨y, hy, rfl⟩ := htrow
  have h1 : (y + 1) * c ≤ (T / c) * c := Nat.mul_le_mul_right c hy
  have h2 : (T / c) * c ≤ T := Nat.div_mul_le_self T c
  have := hs p hp
  rw [Nat.succ_mul] at h1
  omega

/-! ## 5. Anomalies add back to the observable and have zero phase means -/

/-- **`anomaly + phase_mean[phase] = observable`** for every cycle length `c ≥ 1`
(dividing the record or not, also `c > T`): every sample `t` of the record
belongs to phase `t % c`, that phase has a finite mean row `m`, and the anomaly
row plus `m` is the observable row. -/
theorem anomaly_add_phase_mean (c n : Nat) (obs : Mat) (hc : 0 < c)
    (h : ∀ r ∈ obs, r.length = n) (t : Nat) (ht : t < obs.length) :
    ∃ m a, (phaseMean c n obs)[t % c]? = some (some m)
      ∧ (anomalyOf c n obs)[t]? = some a
      ∧ vadd a m = obs[t] := by
  refine ⟨meanRow c n obs (t % c), vsub obs[t] (meanRow c n obs (t % c)), ?_, ?_, ?_⟩
  · simp only [phaseMean, List.getElem?_map, List.getElem?_range (Nat.mod_lt t hc),
      Option.map_some]
    rw [colMean_of_ne_nil n _ (everyNth_phase_ne_nil c hc obs t ht)]
    rfl
  · rw [anomalyOf_closed c n obs hc]
    simp [ht]
  · exact vadd_vsub_cancel _ _ (by rw [meanRow_length c n obs _ h, h _ (List.getElem_mem _)])

/-- the slice of phase `i` of the anomaly = the slice of the observable minus its mean row -/
theorem anomaly_phase_slice (c n : Nat) (obs : Mat) (hc : 0 < c) (i : Nat) (hi : i < c) :
    everyNth c i (anomalyOf c n obs)
      = (everyNth c i obs).map (vsub · (meanRow c n obs i)) := by
  rw [anomalyOf_closed c n obs hc, everyNth_eq_select, everyNth_eq_select]
  simp only [List.length_zipWith, List.length_range, Nat.min_self]
  rw [hitMask_phase c i _ hi]
  exact select_key_zipWith (fun t => t % c) i (fun p x => vsub x (meanRow c n obs p)) _ _

/-- **zero sum in every phase of the cycle** -/
theorem anomaly_phase_sum_zero (c n : Nat) (obs : Mat) (hc : 0 < c)
    (h : ∀ r ∈ obs, r.length = n) (i : Nat) (hi : i < c) :
    colSum n (everyNth c i (anomalyOf c n obs)) = zeros n := by
  rw [anomaly_phase_slice c n obs hc i hi]
  by_cases he : everyNth c i obs = []
  · simp [he, colSum]
  · exact colSum_deviations n _ (fun r hr => h r (mem_everyNth _ _ _ _ hr)) he

/-- **zero mean in every (non-empty) phase of the cycle**: `anomaly()[i::c].mean(axis=0) = 0` -/
theorem anomaly_phase_mean_zero (c n : Nat) (obs : Mat) (hc : 0 < c)
    (h : ∀ r ∈ obs, r.length = n) (i : Nat) (hi : i < c) (hT : i < obs.length) :
    colMean n (everyNth c i (anomalyOf c n obs)) = some (zeros n) := by
  have hne : everyNth c i obs ≠ [] := by
    have := everyNth_phase_ne_nil c hc obs i hT
    rwa [Nat.mod_eq_of_lt hi] at this
  have hne' : everyNth c i (anomalyOf c n obs) ≠ [] := by
    rw [anomaly_phase_slice c n obs hc i hi]
    simpa using hne
  rw [colMean_of_ne_nil n _ hne', anomaly_phase_sum_zero c n obs hc h i hi]
  simp only [zeros, List.map_replicate, Option.some.injEq]
  congr 1
  grind

/-! ## 6. The object: every history of window changes, queries and evictions -/

/-- invariant of `ClimateData` objects -/
structure Obj.Inv (o : Obj) : Prop where
  fullWF : o.full.WF
  fullT : o.full.time ≠ []
  fullN : o.full.lat ≠ []
  curWF : o.cur.WF
  /-- a memoised `phase_mean` stored under the current `_mut_window` is the value
  for the current window; no entry is keyed by a future counter -/
  pm : ∀ e ∈ o.pmCache, e.1 ≤ o.ver ∧ (e.1 = o.ver → e.2 = o.phaseMeanFresh)
  an : ∀ e ∈ o.anCache, e.1 ≤ o.ver ∧ (e.1 = o.ver → e.2 = o.anomalyFresh)
  /-- the current view is the selection of the last accepted window (ghost field `win`) -/
  isWin : applyWindow o.full o.win = some o.cur

/-! ### the cache counter: generated statements and the laws they obey -/

/-- installing a window, with given counter values for the rejected / accepted outcome:
the common shape of `Data.set_window`, `ClimateData.set_window` and
`ClimateData.set_global_window` (lemmas `dataSetWindow_eq`, `setWindow_eq`, `setGlobal_eq`) -/
def Obj.install (o : Obj) (w : Win) (vRej vAcc : Nat) : Bool × Obj :=
  match applyWindow o.full w with
  | none => (true, { o with ver := vRej })
  | some v => (false, { o with cur := v, win := w, ver := vAcc })

/-- counter after a *rejected* `set_global_window` (the exception leaves through the
statements executed so far) -/
def globalRej (v : Nat) : Nat :=
  if StructC13.globalViaSelf then StructC13.setWindowPre (StructC13.setGlobalPre v)
  else StructC13.setGlobalPre v

/-- counter after an *accepted* `set_global_window` -/
def globalAcc (v : Nat) : Nat :=
  StructC13.setGlobalPost
    (if StructC13.globalViaSelf
     then StructC13.setWindowPost (StructC13.setWindowPre (StructC13.setGlobalPre v))
     else StructC13.setGlobalPre v)

theorem dataSetWindow_eq (o : Obj) (w : Win) : o.dataSetWindow w = o.install w o.ver o.ver := by
  unfold Obj.dataSetWindow Obj.install
  cases applyWindow o.full w <;> rfl

theorem setWindow_eq (o : Obj) (w : Win) :
    o.setWindow w = o.install w (StructC13.setWindowPre o.ver)
      (StructC13.setWindowPost (StructC13.setWindowPre o.ver)) := by
  unfold Obj.setWindow Obj.dataSetWindow Obj.install
  cases applyWindow o.full w <;> rfl

theorem dataSetGlobal_eq (o : Obj) :
    o.dataSetGlobal = o.install globalWin
      (if StructC13.globalViaSelf then StructC13.setWindowPre o.ver else o.ver)
      (if StructC13.globalViaSelf then StructC13.setWindowPost (StructC13.setWindowPre o.ver)
       else o.ver) := by
  unfold Obj.dataSetGlobal
  by_cases hv : StructC13.globalViaSelf = true
  · rw [if_pos hv, if_pos hv, if_pos hv, setWindow_eq]
  · rw [if_neg hv, if_neg hv, if_neg hv, dataSetWindow_eq]

theorem setGlobal_eq (o : Obj) :
    o.setGlobal = o.install globalWin (globalRej o.ver) (globalAcc o.ver) := by
  unfold Obj.setGlobal globalRej globalAcc
  rw [dataSetGlobal_eq]
  unfold Obj.install
  cases applyWindow o.full globalWin <;> rfl

/-- the state of the object when `Data.__init__` is about to install the first window -/
def blank (full : View) (c : Nat) (a : Bool) : Obj :=
  ⟨full, ⟨[], [], [], []⟩, c, a, StructC13.initCounter, [], [], globalWin⟩

/-- every constructor path installs the requested (or the global) window on the blank object -/
theorem init_eq_install (full : View) (c : Nat) (a : Bool) (w : Option Win) :
    ∃ vr va, Obj.init full c a w
      = if ((blank full c a).install (w.getD globalWin) vr va).1 then none
        else some ((blank full c a).install (w.getD globalWin) vr va).2 := by
  unfold Obj.init
  cases w with
  | none =>
    by_cases hs : StructC13.ctorGlobalStatic = true
    · simp only [hs, if_true, dataSetGlobal_eq]; exact ⟨_, _, rfl⟩
    · simp only [hs, Bool.false_eq_true, if_false, setGlobal_eq]; exact ⟨_, _, rfl⟩
  | some w =>
    by_cases hs : StructC13.ctorWindowStatic = true
    · simp only [hs, if_true, dataSetWindow_eq]; exact ⟨_, _, rfl⟩
    · simp only [hs, Bool.false_eq_true, if_false, setWindow_eq]; exact ⟨_, _, rfl⟩

/-- what the memoisation needs from the counter statements of the source -/
structure CounterLaws : Prop where
  /-- a rejected `set_window` never decreases the counter -/
  w_rej : ∀ v, v ≤ StructC13.setWindowPre v
  /-- an accepted `set_window` strictly increases it -/
  w_acc : ∀ v, v < StructC13.setWindowPost (StructC13.setWindowPre v)
  g_rej : ∀ v, v ≤ globalRej v
  /-- an accepted `set_global_window` strictly increases it -/
  g_acc : ∀ v, v < globalAcc v
  /-- the counter is a component of the memoisation key -/
  key : StructC13.cacheKeyHasCounter = true

/-- **the counter statements of the current source obey the laws** (`+= 1` after the base
call in both setters; also true for `+= 2`, for a bump in front of the call, or without
the second, redundant bump of `set_global_window` — false for `= 0`) -/
theorem counter_laws : CounterLaws := by
  refine ⟨?_, ?_, ?_, ?_, rfl⟩ <;> intro v <;>
    (try simp [globalRej, globalAcc, StructC13.setWindowPre, StructC13.setWindowPost,
      StructC13.setGlobalPre, StructC13.setGlobalPost, StructC13.globalViaSelf]) <;>
    (try omega)

theorem install_fields (o : Obj) (w : Win) (vr va : Nat) :
    (o.install w vr va).2.full = o.full ∧ (o.install w vr va).2.cycle = o.cycle
      ∧ (o.install w vr va).2.anom = o.anom
      ∧ (o.install w vr va).2.pmCache = o.pmCache ∧ (o.install w vr va).2.anCache = o.anCache := by
  unfold Obj.install
  split <;> simp

theorem install_rejected (o : Obj) (w : Win) (vr va : Nat) (h : (o.install w vr va).1 = true) :
    applyWindow o.full w = none ∧ (o.install w vr va).2 = { o with ver := vr } := by
  unfold Obj.install at h ⊢
  revert h
  cases applyWindow o.full w with
  | none => intro _; exact ⟨rfl, rfl⟩
  | some v => intro h; simp at h

theorem install_accepted (o : Obj) (w : Win) (vr va : Nat) (h : (o.install w vr va).1 = false) :
    (o.install w vr va).2.win = w ∧ applyWindow o.full w = some (o.install w vr va).2.cur
      ∧ (o.install w vr va).2.ver = va := by
  unfold Obj.install at h ⊢
  revert h
  cases applyWindow o.full w with
  | none => intro h; simp at h
  | some v => intro _; exact ⟨rfl, rfl, rfl⟩

theorem install_inv (o : Obj) (w : Win) (vr va : Nat) (hi : o.Inv) (h1 : o.ver ≤ vr)
    (h2 : o.ver < va) : (o.install w vr va).2.Inv := by
  unfold Obj.install
  split
  · refine ⟨hi.fullWF, hi.fullT, hi.fullN, hi.curWF, ?_, ?_, hi.isWin⟩
    · intro e he
      have := hi.pm e he
      refine ⟨by simp only; omega, fun hk => this.2 ?_⟩
      simp only at hk; omega
    · intro e he
      have := hi.an e he
      refine ⟨by simp only; omega, fun hk => this.2 ?_⟩
      simp only at hk; omega
  · rename_i v hv
    refine ⟨hi.fullWF, hi.fullT, hi.fullN, window_shapes_agree _ _ _ hi.fullWF hv, ?_, ?_, hv⟩
    · intro e he
      have := (hi.pm e he).1
      exact ⟨by simp only; omega, by simp only; omega⟩
    · intro e he
      have := (hi.an e he).1
      exact ⟨by simp only; omega, by simp only; omega⟩

/-- a freshly constructed object satisfies the invariant -/
theorem init_inv (full : View) (c : Nat) (a : Bool) (w : Option Win) (o : Obj)
    (hwf : full.WF) (h : Obj.init full c a w = some o) : o.Inv ∧ o.full = full := by
  obtain ⟨vr, va, he⟩ := init_eq_install full c a w
  rw [he] at h
  split at h
  · exact absurd h (by simp)
  · rename_i hacc
    have ho := Option.some.inj h
    obtain ⟨hw, hv, _⟩ := install_accepted _ _ vr va (Bool.eq_false_iff.mpr hacc)
    have hfl := install_fields (blank full c a) (w.getD globalWin) vr va
    rw [ho] at hw hv hfl
    have hf : o.full = full := hfl.1
    have hv' : applyWindow full o.win = some o.cur := by rw [hw]; exact hv
    obtain ⟨ht, hla, _, _, hT, hN⟩ := applyWindow_some full _ _ hv'
    refine ⟨⟨by rw [hf]; exact hwf, ?_, ?_, window_shapes_agree full _ _ hwf hv',
      by rw [hfl.2.2.2.1]; simp [blank], by rw [hfl.2.2.2.2]; simp [blank],
      by rw [hf]; exact hv'⟩, hf⟩
    · rw [hf]; intro hx; apply hT; rw [ht, hx, select_nil_right]
    · rw [hf]; intro hx; apply hN; rw [hla, hx, select_nil_right]

/-- a rejected window (`ValueError`) leaves the object as it was: same view, same recorded
window, same memoised entries; the counter does not decrease -/
theorem rejected_window_keeps_state (o : Obj) (w : Win) (h : (o.setWindow w).1 = true) :
    (o.setWindow w).2 = { o with ver := (o.setWindow w).2.ver } ∧ o.ver ≤ (o.setWindow w).2.ver := by
  rw [setWindow_eq] at h ⊢
  obtain ⟨_, h2⟩ := install_rejected o w _ _ h
  rw [h2]
  exact ⟨rfl, counter_laws.w_rej o.ver⟩

theorem setWindow_inv (o : Obj) (w : Win) (hi : o.Inv) : (o.setWindow w).2.Inv := by
  rw [setWindow_eq]
  exact install_inv o w _ _ hi (counter_laws.w_rej _) (counter_laws.w_acc _)

theorem setWindow_fields (o : Obj) (w : Win) :
    (o.setWindow w).2.full = o.full ∧ (o.setWindow w).2.cycle = o.cycle
      ∧ (o.setWindow w).2.anom = o.anom := by
  rw [setWindow_eq]
  have := install_fields o w (StructC13.setWindowPre o.ver)
    (StructC13.setWindowPost (StructC13.setWindowPre o.ver))
  exact ⟨this.1, this.2.1, this.2.2.1⟩

theorem setGlobal_inv (o : Obj) (hi : o.Inv) : o.setGlobal.2.Inv := by
  rw [setGlobal_eq]
  exact install_inv o globalWin _ _ hi (counter_laws.g_rej _) (counter_laws.g_acc _)

theorem phaseMeanQ_inv (o : Obj) (hi : o.Inv) : o.phaseMeanQ.2.Inv := by
  simp only [Obj.phaseMeanQ]
  split
  · exact hi
  · refine ⟨hi.fullWF, hi.fullT, hi.fullN, hi.curWF, ?_, hi.an, hi.isWin⟩
    intro e he
    simp only [List.mem_cons] at he
    rcases he with rfl | he
    · exact ⟨Nat.le_refl _, fun _ => rfl⟩
    · exact hi.pm e he

theorem anomalyQ_inv (o : Obj) (hi : o.Inv) : o.anomalyQ.2.Inv := by
  simp only [Obj.anomalyQ]
  split
  · exact hi
  · refine ⟨hi.fullWF, hi.fullT, hi.fullN, hi.curWF, hi.pm, ?_, hi.isWin⟩
    intro e he
    simp only [List.mem_cons] at he
    rcases he with rfl | he
    · exact ⟨Nat.le_refl _, fun _ => rfl⟩
    · exact hi.an e he

/-- `set_window(window())` is a `set_window` (or nothing) -/
theorem setWindowCurrent_cases (o : Obj) :
    o.setWindowCurrent = (true, o) ∨ ∃ w, o.setWindowCurrent = o.setWindow w := by
  unfold Obj.setWindowCurrent
  split
  · exact Or.inr ⟨_, rfl⟩
  · exact Or.inl rfl

/-- `anomaly_selected_months` changes the object at most by memoising `anomaly()` -/
theorem anomalySelectedMonths_state (o : Obj) (months : List Int) :
    (o.anomalySelectedMonths months).2 = o ∨ (o.anomalySelectedMonths months).2 = o.anomalyQ.2 := by
  unfold Obj.anomalySelectedMonths
  split
  · exact Or.inr rfl
  all_goals exact Or.inl rfl

theorem step_inv (o : Obj) (op : Op) (hi : o.Inv) : (o.step op).Inv := by
  cases op with
  | setWindow w => exact setWindow_inv o w hi
  | setGlobal => exact setGlobal_inv o hi
  | qPhaseMean => exact phaseMeanQ_inv o hi
  | qAnomaly => exact anomalyQ_inv o hi
  | evict keep =>
    simp only [Obj.step, Obj.evict]
    refine ⟨hi.fullWF, hi.fullT, hi.fullN, hi.curWF, ?_, ?_, hi.isWin⟩
    · intro e he; exact hi.pm e (List.mem_filter.mp he).1
    · intro e he; exact hi.an e (List.mem_filter.mp he).1
  | setWindowCurrent =>
    simp only [Obj.step]
    rcases setWindowCurrent_cases o with h | ⟨w, h⟩
    · rw [h]; exact hi
    · rw [h]; exact setWindow_inv o w hi
  | qSelectedMonths months =>
    simp only [Obj.step]
    rcases anomalySelectedMonths_state o months with h | h
    · rw [h]; exact hi
    · rw [h]; exact anomalyQ_inv o hi

theorem step_fields (o : Obj) (op : Op) :
    (o.step op).full = o.full ∧ (o.step op).cycle = o.cycle ∧ (o.step op).anom = o.anom := by
  cases op with
  | setWindow w => exact setWindow_fields o w
  | setGlobal =>
    simp only [Obj.step, setGlobal_eq]
    have := install_fields o globalWin (globalRej o.ver) (globalAcc o.ver)
    exact ⟨this.1, this.2.1, this.2.2.1⟩
  | qPhaseMean => simp only [Obj.step, Obj.phaseMeanQ]; split <;> simp
  | qAnomaly => simp only [Obj.step, Obj.anomalyQ]; split <;> simp
  | evict keep => simp [Obj.step, Obj.evict]
  | setWindowCurrent =>
    simp only [Obj.step]
    rcases setWindowCurrent_cases o with h | ⟨w, h⟩
    · rw [h]; exact ⟨rfl, rfl, rfl⟩
    · rw [h]; exact setWindow_fields o w
  | qSelectedMonths months =>
    simp only [Obj.step]
    rcases anomalySelectedMonths_state o months with h | h
    · rw [h]; exact ⟨rfl, rfl, rfl⟩
    · rw [h]; simp only [Obj.anomalyQ]; split <;> simp

/-- the invariant holds after **every history** -/
theorem run_inv (o : Obj) (ops : List Op) (hi : o.Inv) : (o.run ops).Inv := by
  induction ops generalizing o with
  | nil => exact hi
  | cons op ops ih => exact ih (o.step op) (step_inv o op hi)

/-- no operation touches the full data set, the cycle length or the flag -/
theorem run_fields (o : Obj) (ops : List Op) :
    (o.run ops).full = o.full ∧ (o.run ops).cycle = o.cycle ∧ (o.run ops).anom = o.anom := by
  induction ops generalizing o with
  | nil => exact ⟨rfl, rfl, rfl⟩
  | cons op ops ih =>
    have h1 := ih (o.step op)
    have h2 := step_fields o op
    simp only [Obj.run, List.foldl_cons] at h1 ⊢
    exact ⟨h1.1.trans h2.1, h1.2.1.trans h2.2.1, h1.2.2.trans h2.2.2⟩

/-- **derived series follow every window change**: whatever the history, the
(memoised) `phase_mean()` and `anomaly()` are the values computed from the
current window -/
theorem queries_follow_window (o : Obj) (ops : List Op) (hi : o.Inv) :
    (o.run ops).phaseMeanQ.1 = (o.run ops).phaseMeanFresh
    ∧ (o.run ops).anomalyQ.1 = (o.run ops).anomalyFresh := by
  have h := run_inv o ops hi
  generalize o.run ops = o' at h
  constructor
  · unfold Obj.phaseMeanQ
    split
    · rename_i v hv
      exact (h.pm _ (lookup_mem _ _ _ hv)).2 rfl
    · rfl
  · unfold Obj.anomalyQ
    split
    · rename_i v hv
      exact (h.an _ (lookup_mem _ _ _ hv)).2 rfl
    · rfl

/-- **restoring the global window restores the original view**, after every history -/
theorem global_restores (o : Obj) (ops : List Op) (hi : o.Inv) :
    (o.run ops).setGlobal.1 = false ∧ (o.run ops).setGlobal.2.cur = o.full := by
  have h := run_inv o ops hi
  have hf := (run_fields o ops).1
  generalize o.run ops = o' at h hf
  have hg := global_window_is_full o'.full h.fullWF h.fullT h.fullN
  simp only [setGlobal_eq, Obj.install, hg]
  exact ⟨trivial, hf⟩

/-- **matching shapes of observable, grid and every derived series**, after every
history and for both settings of the `anomalies` flag -/
theorem shapes_agree (o : Obj) (ops : List Op) (hi : o.Inv) :
    let o' := o.run ops
    let T := o'.cur.time.length
    let N := o'.cur.lat.length
    o'.cur.obs.length = T ∧ (∀ r ∈ o'.cur.obs, r.length = N) ∧ o'.cur.lon.length = N
    ∧ o'.anomalyQ.1.length = T ∧ (∀ r ∈ o'.anomalyQ.1, r.length = N)
    ∧ o'.phaseMeanQ.1.length = o'.cycle ∧ (∀ v, some v ∈ o'.phaseMeanQ.1 → v.length = N) := by
  intro o' T N
  have h := run_inv o ops hi
  have hq := queries_follow_window o ops hi
  rw [hq.1, hq.2]
  have hs := anomaly_shape o'.cycle N o'.cur.obs h.curWF.cols
  have hp := phaseMean_shape o'.cycle N o'.cur.obs h.curWF.cols
  rw [← phaseMeanLoop_eq] at hp
  refine ⟨h.curWF.rows, h.curWF.cols, h.curWF.latlon.symm, ?_, ?_, hp.1, hp.2⟩
  · unfold Obj.anomalyFresh
    split
    · exact h.curWF.rows
    · exact hs.1.trans h.curWF.rows
  · unfold Obj.anomalyFresh
    split
    · exact h.curWF.cols
    · exact hs.2

/-- with `anomalies = True` the anomaly is the windowed observable itself -/
theorem anomaly_of_anomalies (o : Obj) (ops : List Op) (hi : o.Inv) (ha : o.anom = true) :
    (o.run ops).anomalyQ.1 = (o.run ops).cur.obs := by
  rw [(queries_follow_window o ops hi).2]
  unfold Obj.anomalyFresh
  rw [(run_fields o ops).2.2, ha]
  rfl


/-! ## 9. The loops as written equal the closed forms used above -/

/-- `phase_mean()`: the loop `phase_mean[i, :] = observable[i::c, :].mean(axis=0)` over
`np.zeros((c, N))` leaves no zero row behind: it is the list of the phase means -/
theorem phaseMean_loop_closed (c n : Nat) (obs : Mat) :
    phaseMeanLoop c n obs = phaseMean c n obs := phaseMeanLoop_eq c n obs

/-- `phase_indices()`: for every positive cycle length every row assignment
`phase_indices[i, :] = np.arange(i, range_years * c, c)` has exactly `range_years`
entries (no broadcasting `ValueError`), and the loop computes the closed form;
`time_cycle = 0` raises `ZeroDivisionError` -/
theorem phaseIndices_loop_closed (c T : Nat) (hT : T < 2 ^ 53) :
    (0 < c → ∃ pi, phaseIndices c T = some pi ∧ phaseIndicesLoop c T = .ok pi)
    ∧ (c = 0 → phaseIndicesLoop c T = .zeroDivision) := by
  refine ⟨fun hc => ⟨_, ?_, phaseIndicesLoop_eq c T hc hT⟩, fun h => by simp [phaseIndicesLoop, h]⟩
  simp [phaseIndices, Nat.ne_of_gt hc]

/-- every `np.arange(i, range_years * c, c)` of the loop has `range_years` entries -/
theorem arange_row_length (c T i : Nat) (hi : i < c) :
    (arange i (T / c * c) c).length = T / c := by
  rw [arange_phase c (T / c) i hi]; simp

/-! ## 10. Selected phases / months, including negative (wrapping) numbers -/

theorem mem_wrap_iff (c : Nat) (hc : 0 < c) (sel : List Int) (r : Nat) :
    r ∈ sel.map (fun p => (p % (c : Int)).toNat) ↔ (r : Int) ∈ sel.map (· % (c : Int)) := by
  simp only [List.mem_map]
  constructor
  · rintro ⟨p, hp, rfl⟩
    refine ⟨p, hp, ?_⟩
    have := Int.emod_nonneg p (by omega : (c : Int) ≠ 0)
    omega
  · rintro ⟨p, hp, h⟩
    exact ⟨p, hp, by omega⟩

/-- **`indices_selected_phases` for arbitrary integer phase numbers in `[-c, c)`**
(negative numbers count from the end of the cycle): the call succeeds; the result is
sorted, has one entry per selected phase and complete year, and contains exactly the
time indices of the complete years whose phase `t % c` is one of the selected phases
(mod `c`); all of them address existing samples. -/
theorem selected_phases_spec (c T : Nat) (hc : 0 < c) (hT : T < 2 ^ 53) (sel : List Int)
    (hs : ∀ p ∈ sel, -(c : Int) ≤ p ∧ p < (c : Int)) :
    ∃ idx, indicesSelectedPhasesI c T sel = .ok idx
      ∧ idx.Pairwise (· ≤ ·)
      ∧ idx.length = sel.length * (T / c)
      ∧ (∀ t, t ∈ idx ↔ t < (T / c) * c ∧ ((t % c : Nat) : Int) ∈ sel.map (· % (c : Int)))
      ∧ ∀ t ∈ idx, t < T := by
  have hw : ∀ q ∈ sel.map (fun p => (p % (c : Int)).toNat), q < c := by
    intro q hq
    obtain ⟨p, _, rfl⟩ := List.mem_map.mp hq
    exact toNat_emod_lt c hc p
  obtain ⟨idx, hidx, hsorted, _, hlt⟩ := selected_indices_spec c T hc _ hw
  refine ⟨idx, (selectedI_valid c T hc hT sel hs).trans hidx, hsorted, ?_, ?_, hlt⟩
  · have := selected_length c T hc _ hw idx hidx
    simpa using this
  · intro t
    rw [mem_selected_iff c T hc _ hw idx hidx t, mem_wrap_iff c hc]

/-- the error branch: `IndexError` iff some phase number lies outside `[-c, c)` -/
theorem selected_phases_error_iff (c T : Nat) (hc : 0 < c) (hT : T < 2 ^ 53) (sel : List Int) :
    indicesSelectedPhasesI c T sel = .indexError
      ↔ ∃ p ∈ sel, p < -(c : Int) ∨ (c : Int) ≤ p := by
  constructor
  · intro h
    apply Classical.byContradiction
    intro hn
    have hs : ∀ p ∈ sel, -(c : Int) ≤ p ∧ p < (c : Int) := by
      intro p hp
      constructor
      · apply Classical.byContradiction; intro h1; exact hn ⟨p, hp, Or.inl (by omega)⟩
      · apply Classical.byContradiction; intro h1; exact hn ⟨p, hp, Or.inr (by omega)⟩
    obtain ⟨idx, hidx, _⟩ := selected_phases_spec c T hc hT sel hs
    rw [hidx] at h
    exact absurd h (by simp)
  · exact selectedI_invalid c T hc hT sel

theorem monthDays_length (months : List Int) : (monthDays months).length = months.length * 30 := by
  rw [monthDays_eq]
  induction months with
  | nil => simp
  | cons m ms ih => simp only [List.flatMap_cons, List.length_append, ih]; simp; omega

/-- **`indices_selected_months`, monthly data (`time_cycle = 12`)**: for month numbers in
`[-12, 12)` the sorted indices of the complete years whose month `t % 12` is selected -/
theorem selected_months_12 (T : Nat) (hT : T < 2 ^ 53) (months : List Int)
    (hm : ∀ m ∈ months, (-12 : Int) ≤ m ∧ m < 12) :
    ∃ idx, indicesSelectedMonthsI 12 T months = .ok idx
      ∧ idx.Pairwise (· ≤ ·)
      ∧ idx.length = months.length * (T / 12)
      ∧ (∀ t, t ∈ idx ↔ t < (T / 12) * 12 ∧ ((t % 12 : Nat) : Int) ∈ months.map (· % 12))
      ∧ ∀ t ∈ idx, t < T := by
  have := selected_phases_spec 12 T (by omega) hT months (by simpa using hm)
  simpa [indicesSelectedMonthsI] using this

/-- **`indices_selected_months`, standardised daily data (`time_cycle = 360`)**: the
month → day expansion `month * 30 + day`, `day ∈ range(30)`, selects exactly the time
indices of the complete years whose month `(t % 360) / 30` is selected (month numbers
in `[-12, 12)`, negative ones counting from December); sorted, 30 days per month and
year, all addressing existing samples -/
theorem selected_months_360 (T : Nat) (hT : T < 2 ^ 53) (months : List Int)
    (hm : ∀ m ∈ months, (-12 : Int) ≤ m ∧ m < 12) :
    ∃ idx, indicesSelectedMonthsI 360 T months = .ok idx
      ∧ idx.Pairwise (· ≤ ·)
      ∧ idx.length = months.length * 30 * (T / 360)
      ∧ (∀ t, t ∈ idx ↔ t < (T / 360) * 360
            ∧ ((t % 360 / 30 : Nat) : Int) ∈ months.map (· % 12))
      ∧ ∀ t ∈ idx, t < T := by
  have hd : ∀ p ∈ monthDays months, -((360 : Nat) : Int) ≤ p ∧ p < ((360 : Nat) : Int) := by
    intro p hp
    obtain ⟨m, hmm, d, hd, rfl⟩ := (mem_monthDays months p).mp hp
    have := hm m hmm
    omega
  obtain ⟨idx, hidx, hs, hl, hmem, hlt⟩ := selected_phases_spec 360 T (by omega) hT _ hd
  refine ⟨idx, by simpa [indicesSelectedMonthsI] using hidx, hs,
    by rw [hl, monthDays_length], ?_, hlt⟩
  intro t
  rw [hmem t]
  apply and_congr_right
  intro _
  simp only [List.mem_map]
  constructor
  · rintro ⟨p, hp, h⟩
    obtain ⟨m, hmm, d, hd, rfl⟩ := (mem_monthDays months p).mp hp
    have := hm m hmm
    exact ⟨m, hmm, by omega⟩
  · rintro ⟨m, hmm, h⟩
    have := hm m hmm
    refine ⟨m * 30 + ((t % 360 % 30 : Nat) : Int), (mem_monthDays months _).mpr
      ⟨m, hmm, t % 360 % 30, Nat.mod_lt _ (by omega), rfl⟩, by omega⟩

/-- an out-of-range month is an `IndexError` (both supported cycle lengths); any other
cycle length is `NotImplementedError` -/
theorem selected_months_errors (c T : Nat) (hT : T < 2 ^ 53) (months : List Int) :
    (c ≠ 12 → c ≠ 360 → indicesSelectedMonthsI c T months = .notImplemented)
    ∧ ((c = 12 ∨ c = 360) → (∃ m ∈ months, m < -12 ∨ 12 ≤ m) →
        indicesSelectedMonthsI c T months = .indexError) := by
  refine ⟨fun h1 h2 => by simp [indicesSelectedMonthsI, h1, h2], ?_⟩
  rintro (rfl | rfl) ⟨m, hmm, hbad⟩
  · simp only [indicesSelectedMonthsI, if_true]
    exact (selected_phases_error_iff 12 T (by omega) hT months).mpr ⟨m, hmm, by omega⟩
  · have : indicesSelectedMonthsI 360 T months = indicesSelectedPhasesI 360 T (monthDays months) := by
      simp [indicesSelectedMonthsI]
    rw [this]
    refine (selected_phases_error_iff 360 T (by omega) hT _).mpr
      ⟨m * 30 + ((0 : Nat) : Int), (mem_monthDays months _).mpr ⟨m, hmm, 0, by omega, rfl⟩, by omega⟩

theorem range_map_getD {α : Type} (l : List α) (d : α) :
    (List.range l.length).map (l.getD · d) = l := by
  apply List.ext_getElem
  · simp
  · intro i h1 h2
    simp [List.getD, List.getElem?_eq_getElem h2]

/-! ## 11. `shuffled_anomaly()` -/

/-- `shuffled_anomaly()` has the shape of `anomaly()` -/
theorem shuffled_anomaly_shape (A : Mat) (n : Nat) (perms : List (List Nat)) :
    (shuffledAnomaly A n perms).length = A.length
      ∧ ∀ r ∈ shuffledAnomaly A n perms, r.length = n := by
  refine ⟨by simp [shuffledAnomaly], ?_⟩
  intro r hr
  simp only [shuffledAnomaly, List.mem_map] at hr
  obtain ⟨k, _, rfl⟩ := hr
  simp

/-- every column of `shuffled_anomaly()` is a rearrangement of the same column of
`anomaly()` (for whatever permutation `random.shuffle` applied to it) -/
theorem shuffled_anomaly_column_perm (A : Mat) (n : Nat) (perms : List (List Nat)) (j : Nat)
    (hj : j < n) (hp : (perms.getD j []).Perm (List.range A.length)) :
    ((shuffledAnomaly A n perms).map (·.getD j 0)).Perm (A.map (·.getD j 0)) := by
  have hlen : (perms.getD j []).length = A.length := by simpa using hp.length_eq
  have e1 : (shuffledAnomaly A n perms).map (·.getD j 0)
      = (perms.getD j []).map (fun t => (A.getD t []).getD j 0) := by
    simp only [shuffledAnomaly, List.map_map]
    conv => rhs; rw [← range_map_getD (perms.getD j []) 0, hlen]
    rw [List.map_map]
    apply List.map_congr_left
    intro k _
    simp [List.getD, List.getElem?_range hj]
  have e2 : A.map (·.getD j 0) = (List.range A.length).map (fun t => (A.getD t []).getD j 0) := by
    conv => lhs; rw [← range_map_getD A []]
    rw [List.map_map]; rfl
  rw [e1, e2]
  exact hp.map _

/-! ## 12. The view is always the selection of the last accepted window -/

/-- after **every history** the exposed view is the selection, from the full data, of
the window that was accepted last (ghost field `win`) -/
theorem view_is_last_accepted_window (o : Obj) (ops : List Op) (hi : o.Inv) :
    applyWindow o.full (o.run ops).win = some (o.run ops).cur := by
  have := (run_inv o ops hi).isWin
  rwa [(run_fields o ops).1] at this

/-- `win` is the window of the last accepted `set_window` -/
theorem accepted_window_recorded (o : Obj) (w : Win) (h : (o.setWindow w).1 = false) :
    (o.setWindow w).2.win = w ∧ applyWindow o.full w = some (o.setWindow w).2.cur := by
  rw [setWindow_eq] at h ⊢
  have := install_accepted o w _ _ h
  exact ⟨this.1, this.2.1⟩

/-- queries and evictions never change the view or the recorded window -/
theorem queries_keep_view (o : Obj) :
    (o.phaseMeanQ.2.cur = o.cur ∧ o.phaseMeanQ.2.win = o.win)
    ∧ (o.anomalyQ.2.cur = o.cur ∧ o.anomalyQ.2.win = o.win)
    ∧ (∀ keep, (o.evict keep).cur = o.cur ∧ (o.evict keep).win = o.win)
    ∧ (∀ months, (o.anomalySelectedMonths months).2.cur = o.cur
        ∧ (o.anomalySelectedMonths months).2.win = o.win) := by
  have ha : o.anomalyQ.2.cur = o.cur ∧ o.anomalyQ.2.win = o.win := by
    simp only [Obj.anomalyQ]; split <;> simp
  refine ⟨?_, ha, fun _ => ⟨rfl, rfl⟩, ?_⟩
  · simp only [Obj.phaseMeanQ]; split <;> simp
  · intro months
    rcases anomalySelectedMonths_state o months with h | h
    · rw [h]; exact ⟨rfl, rfl⟩
    · rw [h]; exact ha

/-! ## 13. Feeding `window()` back into `set_window` -/

theorem applyWindow_congr (full : View) (w w' : Win)
    (ht : timeMask w' full.time = timeMask w full.time)
    (hs : spaceMask w' full.lat full.lon = spaceMask w full.lat full.lon) :
    applyWindow full w' = applyWindow full w := by
  unfold applyWindow; rw [ht, hs]

/-- **`set_window(window())` re-selects the same samples**: if `window()` of a windowed
view reports distinct bounds, the reported bounding box, used as a window on the full
data, selects exactly the time stamps (resp. nodes) of the view again. -/
theorem reapply_own_window (full : View) (w : Win) (v : View) (hwf : full.WF)
    (h : applyWindow full w = some v) (t0 t1 la0 la1 lo0 lo1 : Rat)
    (hb : boundaries v = some [t0, t1, la0, la1, lo0, lo1]) :
    (t0 ≠ t1 → timeMask ⟨t0, t1, la0, la1, lo0, lo1⟩ full.time = timeMask w full.time)
    ∧ (la0 ≠ la1 → lo0 ≠ lo1 →
        spaceMask ⟨t0, t1, la0, la1, lo0, lo1⟩ full.lat full.lon = spaceMask w full.lat full.lon)
    ∧ (t0 ≠ t1 → la0 ≠ la1 → lo0 ≠ lo1 →
        applyWindow full ⟨t0, t1, la0, la1, lo0, lo1⟩ = some v) := by
  obtain ⟨a, b, c, d, e, f, hbe, ⟨ma, la⟩, ⟨mb, lb⟩, ⟨mc, lc⟩, ⟨md, ld⟩, ⟨me, le⟩, ⟨mf, lf⟩⟩ :=
    window_is_bounding_box v _ hb
  simp only [List.cons.injEq, and_true] at hbe
  obtain ⟨rfl, rfl, rfl, rfl, rfl, rfl⟩ := hbe
  obtain ⟨hvt, hvn, _⟩ := window_selects_exactly full w v hwf h
  have hvwf := window_shapes_agree full w v hwf h
  have hT : t0 ≠ t1 → timeMask ⟨t0, t1, la0, la1, lo0, lo1⟩ full.time = timeMask w full.time := by
    intro hne
    rw [timeMask_eq, timeMask_eq]
    apply List.map_congr_left
    intro t ht
    rw [hvt] at ma mb la lb
    have ka := (List.mem_filter.mp ma).2
    have kb := (List.mem_filter.mp mb).2
    have e : timeIn ⟨t0, t1, la0, la1, lo0, lo1⟩ t = inRange t0 t1 t := by
      simp [timeIn, hne]
    rw [e]
    by_cases hin : timeIn w t = true
    · have := la t (List.mem_filter.mpr ⟨ht, hin⟩)
      have := lb t (List.mem_filter.mpr ⟨ht, hin⟩)
      rw [hin, inRange_iff]
      exact ⟨‹t0 ≤ t›, ‹t ≤ t1›⟩
    · have hin' : timeIn w t = false := by simpa using hin
      rw [hin']
      simp only [timeIn] at hin' ka kb
      simp only [Bool.or_eq_false_iff, decide_eq_false_iff_not] at hin'
      simp only [hin'.1, decide_false, Bool.false_or, inRange_iff] at ka kb
      have hnot : ¬ (w.tmin ≤ t ∧ t ≤ w.tmax) := by
        have := hin'.2; simpa [inRange] using this
      apply Bool.eq_false_iff.mpr
      intro hc
      rw [inRange_iff] at hc
      exact hnot ⟨Rat.le_trans ka.1 hc.1, Rat.le_trans hc.2 kb.2⟩
  have hS : la0 ≠ la1 → lo0 ≠ lo1 →
      spaceMask ⟨t0, t1, la0, la1, lo0, lo1⟩ full.lat full.lon = spaceMask w full.lat full.lon := by
    intro h1 h2
    rw [spaceMask_eq _ _ _ hwf.latlon, spaceMask_eq _ _ _ hwf.latlon]
    apply List.map_congr_left
    intro p hp
    -- extreme coordinates are attained by selected nodes
    have hmemL : ∀ x ∈ v.lat, ∃ y, (x, y) ∈ v.lat.zip v.lon := by
      intro x hx
      obtain ⟨i, hi, rfl⟩ := List.getElem_of_mem hx
      have hi' : i < v.lon.length := by rw [← hvwf.latlon]; exact hi
      exact ⟨v.lon[i], by
        rw [List.mem_iff_getElem]
        exact ⟨i, by rw [List.length_zip]; exact Nat.lt_min.mpr ⟨hi, hi'⟩, by simp⟩⟩
    have hmemR : ∀ y ∈ v.lon, ∃ x, (x, y) ∈ v.lat.zip v.lon := by
      intro y hy
      obtain ⟨i, hi, rfl⟩ := List.getElem_of_mem hy
      have hi' : i < v.lat.length := by rw [hvwf.latlon]; exact hi
      exact ⟨v.lat[i], by
        rw [List.mem_iff_getElem]
        exact ⟨i, by rw [List.length_zip]; exact Nat.lt_min.mpr ⟨hi', hi⟩, by simp⟩⟩
    have e : nodeIn ⟨t0, t1, la0, la1, lo0, lo1⟩ p
        = inBox ⟨t0, t1, la0, la1, lo0, lo1⟩ p.1 p.2 := by
      simp [nodeIn, h1, h2]
    rw [e]
    by_cases hin : nodeIn w p = true
    · have hpv : p ∈ v.lat.zip v.lon := by rw [hvn]; exact List.mem_filter.mpr ⟨hp, hin⟩
      have h1' := List.of_mem_zip hpv
      rw [hin, inBox_iff]
      exact ⟨⟨lc _ h1'.1, ld _ h1'.1⟩, ⟨le _ h1'.2, lf _ h1'.2⟩⟩
    · have hin' : nodeIn w p = false := by simpa using hin
      rw [hin']
      apply Bool.eq_false_iff.mpr
      intro hc
      rw [inBox_iff] at hc
      simp only [nodeIn, Bool.or_eq_false_iff, decide_eq_false_iff_not] at hin'
      obtain ⟨y0, hy0⟩ := hmemL _ mc
      obtain ⟨y1, hy1⟩ := hmemL _ md
      obtain ⟨x0, hx0⟩ := hmemR _ me
      obtain ⟨x1, hx1⟩ := hmemR _ mf
      rw [hvn] at hy0 hy1 hx0 hx1
      have k0 := (List.mem_filter.mp hy0).2
      have k1 := (List.mem_filter.mp hy1).2
      have k2 := (List.mem_filter.mp hx0).2
      have k3 := (List.mem_filter.mp hx1).2
      simp only [nodeIn, hin'.1, decide_false, Bool.false_or, inBox_iff] at k0 k1 k2 k3
      have : inBox w p.1 p.2 = true := by
        rw [inBox_iff]
        exact ⟨⟨Rat.le_trans k0.1.1 hc.1.1, Rat.le_trans hc.1.2 k1.1.2⟩,
          ⟨Rat.le_trans k2.2.1 hc.2.1, Rat.le_trans hc.2.2 k3.2.2⟩⟩
      rw [this] at hin'
      exact absurd hin'.2 (by simp)
  refine ⟨hT, hS, fun a b c => ?_⟩
  rw [applyWindow_congr full w _ (hT a) (hS b c), h]

/-- object level: after every history, `set_window(window())` with distinct reported
bounds is accepted and leaves the exposed view unchanged -/
theorem setWindowCurrent_keeps_view (o : Obj) (ops : List Op) (hi : o.Inv)
    (t0 t1 la0 la1 lo0 lo1 : Rat)
    (hb : boundaries (o.run ops).cur = some [t0, t1, la0, la1, lo0, lo1])
    (h1 : t0 ≠ t1) (h2 : la0 ≠ la1) (h3 : lo0 ≠ lo1) :
    (o.run ops).setWindowCurrent.1 = false
      ∧ (o.run ops).setWindowCurrent.2.cur = (o.run ops).cur := by
  have h := run_inv o ops hi
  generalize o.run ops = o' at h hb
  have := (reapply_own_window o'.full o'.win o'.cur h.fullWF h.isWin _ _ _ _ _ _ hb).2.2 h1 h2 h3
  simp only [Obj.setWindowCurrent, hb, setWindow_eq, Obj.install, this]
  exact ⟨trivial, trivial⟩

/-! ## 14. Objects built on arrays the library holds -/

/-- `ClimateData(obj.observable(), obj.grid, …)` after any history: the constructor
succeeds, the new object satisfies the invariant and exposes the same view, which is
now its *full* data (so all theorems above apply to windows of windows) -/
theorem nest_inv (o : Obj) (ops : List Op) (hi : o.Inv) :
    ∃ o', (o.run ops).nest = some o' ∧ o'.Inv ∧ o'.full = (o.run ops).cur
      ∧ o'.cur = (o.run ops).cur := by
  have h := run_inv o ops hi
  generalize o.run ops = o1 at h
  obtain ⟨_, _, _, _, hT, hN⟩ := applyWindow_some _ _ _ h.isWin
  have hg := global_window_is_full o1.cur h.curWF hT hN
  have hinit : ∃ v, Obj.init o1.cur o1.cycle o1.anom none
      = some ⟨o1.cur, o1.cur, o1.cycle, o1.anom, v, [], [], globalWin⟩ := by
    obtain ⟨vr, va, he⟩ := init_eq_install o1.cur o1.cycle o1.anom none
    refine ⟨va, ?_⟩
    rw [he]
    simp [Obj.install, blank, hg]
  obtain ⟨v, hinit⟩ := hinit
  refine ⟨_, hinit, (init_inv _ _ _ _ _ h.curWF hinit).1, rfl, rfl⟩

/-- a window of a window exposes exactly the samples lying in both windows -/
theorem nested_window_is_intersection (full : View) (w1 w2 : Win) (v1 v2 : View) (hwf : full.WF)
    (h1 : applyWindow full w1 = some v1) (h2 : applyWindow v1 w2 = some v2) :
    v2.time = full.time.filter (fun t => timeIn w1 t && timeIn w2 t)
    ∧ v2.lat.zip v2.lon
        = (full.lat.zip full.lon).filter (fun p => nodeIn w1 p && nodeIn w2 p) := by
  have a := window_selects_exactly full w1 v1 hwf h1
  have b := window_selects_exactly v1 w2 v2 (window_shapes_agree full w1 v1 hwf h1) h2
  refine ⟨?_, ?_⟩
  · rw [b.1, a.1, List.filter_filter]
    apply List.filter_congr; intro x _; exact Bool.and_comm _ _
  · rw [b.2.1, a.2.1, List.filter_filter]
    apply List.filter_congr; intro x _; exact Bool.and_comm _ _

/-- **`anomaly_selected_months` after every history** (cycle 12 or 360, month numbers in
`[-12, 12)`): the index computation succeeds, every index addresses an existing row of
the (memoised) `anomaly()` of the *current* window — no `IndexError` — and the result
consists of exactly those rows, each with one entry per node of the current grid. -/
theorem anomaly_selected_months_spec (o : Obj) (ops : List Op) (hi : o.Inv) (months : List Int)
    (hc : o.cycle = 12 ∨ o.cycle = 360) (hm : ∀ m ∈ months, (-12 : Int) ≤ m ∧ m < 12)
    (hT : o.full.time.length < 2 ^ 53) :
    let o' := o.run ops
    ∃ idx, indicesSelectedMonthsI o'.cycle o'.cur.time.length months = .ok idx
      ∧ (∀ t ∈ idx, t < o'.cur.time.length)
      ∧ (o'.anomalySelectedMonths months).1 = .ok (idx.map fun t => o'.anomalyFresh.getD t [])
      ∧ (∀ r ∈ idx.map (fun t => o'.anomalyFresh.getD t []), r.length = o'.cur.lat.length) := by
  intro o'
  have hcyc : o'.cycle = o.cycle := (run_fields o ops).2.1
  have hq := (queries_follow_window o ops hi).2
  have hsh := shapes_agree o ops hi
  simp only at hsh
  obtain ⟨_, _, _, hlen, hcols, _, _⟩ := hsh
  rw [hq] at hlen hcols
  have hT' : o'.cur.time.length < 2 ^ 53 := by
    have hv := view_is_last_accepted_window o ops hi
    have := (window_selects_exactly o.full _ _ hi.fullWF hv).1
    show (o.run ops).cur.time.length < 2 ^ 53
    rw [this]
    exact Nat.lt_of_le_of_lt (List.length_filter_le _ _) hT
  have hidx : ∃ idx, indicesSelectedMonthsI o'.cycle o'.cur.time.length months = .ok idx
      ∧ ∀ t ∈ idx, t < o'.cur.time.length := by
    rw [hcyc]
    rcases hc with h | h
    · rw [h]
      obtain ⟨idx, h1, _, _, _, h5⟩ := selected_months_12 o'.cur.time.length hT' months hm
      exact ⟨idx, h1, h5⟩
    · rw [h]
      obtain ⟨idx, h1, _, _, _, h5⟩ := selected_months_360 o'.cur.time.length hT' months hm
      exact ⟨idx, h1, h5⟩
  obtain ⟨idx, h1, h2⟩ := hidx
  have h2' : ∀ t ∈ idx, t < (o.run ops).cur.time.length := h2
  refine ⟨idx, h1, h2, ?_, ?_⟩
  · have hall : idx.all (· < o'.anomalyFresh.length) = true := by
      simp only [List.all_eq_true, decide_eq_true_eq]
      intro t ht
      have := h2' t ht
      show t < (o.run ops).anomalyFresh.length
      omega
    unfold Obj.anomalySelectedMonths
    rw [h1]
    show (selectRows o'.anomalyQ.1 idx) = _
    rw [show o'.anomalyQ.1 = o'.anomalyFresh from hq]
    simp only [selectRows, hall, if_true]
  · intro r hr
    obtain ⟨t, ht, rfl⟩ := List.mem_map.mp hr
    apply hcols
    have : t < (o.run ops).anomalyFresh.length := by have := h2' t ht; omega
    show (o.run ops).anomalyFresh.getD t [] ∈ (o.run ops).anomalyFresh
    rw [List.getD, List.getElem?_eq_getElem this]
    exact List.getElem_mem _

/-! ## 15. The model is built from the expressions of the current source

`Pyunicorn.Generated.ArithC13` is regenerated from `data.py` / `climate_data.py` on
every run (`translate/arith_C13.json`); the theorems below state that the model uses
exactly those comparison, index, slice and counter expressions. -/

/-- `time_indices`: the degenerate test and the element-wise comparison of the source -/
theorem gen_timeMask (w : Win) (time : Vec) :
    timeMask w time
      = if ArithC13.timeDegenerate w.tmin w.tmax then List.replicate time.length true
        else time.map fun x => ArithC13.timeCond x w.tmin w.tmax := by
  unfold timeMask ArithC13.timeDegenerate
  by_cases h : w.tmin = w.tmax
  · simp [h]
  · simp only [h, if_false, decide_false]
    apply List.map_congr_left
    intro x _
    simp [inRange, ArithC13.timeCond, GE.ge]

/-- `space_indices`: the degenerate test (`or`) and the four comparisons of the source -/
theorem gen_spaceMask (w : Win) (lat lon : Vec) :
    spaceMask w lat lon
      = if ArithC13.spaceDegenerate w.latmin w.latmax w.lonmin w.lonmax
        then List.replicate lat.length true
        else List.zipWith (fun la lo =>
          ArithC13.spaceCond la lo w.latmin w.latmax w.lonmin w.lonmax) lat lon := by
  unfold spaceMask ArithC13.spaceDegenerate
  by_cases h : w.latmin = w.latmax ∨ w.lonmin = w.lonmax
  · simp [h]
  · simp only [h, if_false, decide_false]
    congr 1
    funext la lo
    simp [inBox, inRange, ArithC13.spaceCond, GE.ge, Bool.and_assoc]

/-- `phase_indices()`: `range_years = int(T / c)` is `⌊T / c⌋`, and the arguments of
`np.arange` / the assigned row are those of `phaseIndicesLoop` -/
theorem gen_phaseIndices (T c i : Nat) (hc : 0 < c) :
    ArithC13.rangeYears (T : Int) (c : Int) = ((T / c : Nat) : Int)
    ∧ ArithC13.arangeStart (i : Int) = (i : Int)
    ∧ ArithC13.arangeStop ((T / c : Nat) : Int) (c : Int) = ((T / c * c : Nat) : Int)
    ∧ ArithC13.arangeStep (c : Int) = (c : Int)
    ∧ ArithC13.piRow (i : Int) = (i : Int) := by
  refine ⟨floor_div_nat T c hc, rfl, ?_, rfl, rfl⟩
  simp [ArithC13.arangeStop]

/-- the strided slices `observable[i::c]`, `anomaly[i::c]` and the row `phase_mean[i]`
of the source are the `everyNth c i` / `setEveryNth c i` / `set i` of the model -/
theorem gen_slices (i c : Int) :
    ArithC13.pmRow i = i ∧ ArithC13.pmSliceStart i = i ∧ ArithC13.pmSliceStep c = c
    ∧ ArithC13.anReadStart i = i ∧ ArithC13.anReadStep c = c
    ∧ ArithC13.anWriteStart i = i ∧ ArithC13.anWriteStep c = c :=
  ⟨rfl, rfl, rfl, rfl, rfl, rfl, rfl⟩

/-- `indices_selected_months`: the dispatch on the cycle length and the day numbers
`month * 30 + day`, `day ∈ range(30)`, are those of the source -/
theorem gen_months (c T : Nat) (months : List Int) :
    indicesSelectedMonthsI c T months
      = (if ArithC13.cycleIsMonthly (c : Int) then indicesSelectedPhasesI c T months
         else if ArithC13.cycleIsDaily (c : Int) then
           indicesSelectedPhasesI c T (months.flatMap fun m =>
             (List.range ArithC13.daysPerMonth.toNat).map fun (d : Nat) => ArithC13.monthDay m (d : Int))
         else .notImplemented) := by
  unfold indicesSelectedMonthsI ArithC13.cycleIsMonthly ArithC13.cycleIsDaily
  have e1 : ((c : Int) = 12) = (c = 12) := by apply propext; omega
  have e2 : ((c : Int) = 360) = (c = 360) := by apply propext; omega
  simp only [e1, e2, decide_eq_true_eq]
  rw [monthDays_eq]
  rfl

/-- `int(T / time_cycle)` as CPython evaluates it (one rounding to double, then truncation) is
the exact floor the translator reads from the source expression — for every record shorter
than `2⁵³` samples -/
theorem rangeYears_float (T c : Nat) (hc : 0 < c) (hT : T < 2 ^ 53) :
    (rangeYearsF T c : Int) = ArithC13.rangeYears (T : Int) (c : Int) := by
  rw [rangeYearsF_eq T c hc hT, (gen_phaseIndices T c 0 hc).1]

/-- the bound is needed: beyond `2⁵³` the floating-point quotient is no longer the integer
quotient (`int((2⁵³ + 1) / 1) = 2⁵³`) -/
theorem rangeYears_float_needs_bound : rangeYearsF (2 ^ 53 + 1) 1 ≠ (2 ^ 53 + 1) / 1 := by
  decide +kernel

/-! ## 15b. The cache counter over histories

The counter statements are those of the source (`StructC13`, regenerated every run); all that
is used about them is `counter_laws`. -/

theorem install_ver (o : Obj) (w : Win) (vr va : Nat) (h1 : o.ver ≤ vr) (h2 : o.ver < va) :
    o.ver ≤ (o.install w vr va).2.ver
    ∧ ((o.install w vr va).1 = false → o.ver < (o.install w vr va).2.ver)
    ∧ ((o.install w vr va).2.ver = o.ver →
        (o.install w vr va).2.cur = o.cur ∧ (o.install w vr va).2.win = o.win) := by
  unfold Obj.install
  cases applyWindow o.full w with
  | none => exact ⟨h1, fun h => by simp at h, fun _ => ⟨rfl, rfl⟩⟩
  | some v => exact ⟨Nat.le_of_lt h2, fun _ => h2, fun h => by simp only at h; omega⟩

/-- **an accepted window change strictly increases the cache counter** (both setters) -/
theorem accepted_window_bumps_counter (o : Obj) :
    (∀ w, (o.setWindow w).1 = false → o.ver < (o.setWindow w).2.ver)
    ∧ (o.setGlobal.1 = false → o.ver < o.setGlobal.2.ver) := by
  refine ⟨fun w => ?_, ?_⟩
  · rw [setWindow_eq]
    exact (install_ver o w _ _ (counter_laws.w_rej _) (counter_laws.w_acc _)).2.1
  · rw [setGlobal_eq]
    exact (install_ver o globalWin _ _ (counter_laws.g_rej _) (counter_laws.g_acc _)).2.1

/-- one operation: the counter never decreases, and if it keeps its value the exposed view
(and the recorded window) are unchanged -/
theorem step_counter (o : Obj) (op : Op) :
    o.ver ≤ (o.step op).ver
    ∧ ((o.step op).ver = o.ver → (o.step op).cur = o.cur ∧ (o.step op).win = o.win) := by
  have hw : ∀ w, o.ver ≤ (o.setWindow w).2.ver
      ∧ ((o.setWindow w).2.ver = o.ver →
          (o.setWindow w).2.cur = o.cur ∧ (o.setWindow w).2.win = o.win) := by
    intro w
    rw [setWindow_eq]
    have := install_ver o w _ _ (counter_laws.w_rej o.ver) (counter_laws.w_acc o.ver)
    exact ⟨this.1, this.2.2⟩
  have ha : o.anomalyQ.2.ver = o.ver ∧ o.anomalyQ.2.cur = o.cur ∧ o.anomalyQ.2.win = o.win := by
    simp only [Obj.anomalyQ]; split <;> simp
  cases op with
  | setWindow w => exact hw w
  | setGlobal =>
    simp only [Obj.step, setGlobal_eq]
    have := install_ver o globalWin _ _ (counter_laws.g_rej o.ver) (counter_laws.g_acc o.ver)
    exact ⟨this.1, this.2.2⟩
  | qPhaseMean =>
    have : o.phaseMeanQ.2.ver = o.ver ∧ o.phaseMeanQ.2.cur = o.cur ∧ o.phaseMeanQ.2.win = o.win := by
      simp only [Obj.phaseMeanQ]; split <;> simp
    simp only [Obj.step]
    exact ⟨Nat.le_of_eq this.1.symm, fun _ => this.2⟩
  | qAnomaly =>
    simp only [Obj.step]
    exact ⟨Nat.le_of_eq ha.1.symm, fun _ => ha.2⟩
  | evict keep => exact ⟨Nat.le_refl _, fun _ => ⟨rfl, rfl⟩⟩
  | setWindowCurrent =>
    simp only [Obj.step]
    rcases setWindowCurrent_cases o with h | ⟨w, h⟩
    · rw [h]; exact ⟨Nat.le_refl _, fun _ => ⟨rfl, rfl⟩⟩
    · rw [h]; exact hw w
  | qSelectedMonths months =>
    simp only [Obj.step]
    rcases anomalySelectedMonths_state o months with h | h
    · rw [h]; exact ⟨Nat.le_refl _, fun _ => ⟨rfl, rfl⟩⟩
    · rw [h]; exact ⟨Nat.le_of_eq ha.1.symm, fun _ => ha.2⟩

/-- **the counter never decreases over a history** -/
theorem run_counter_mono (o : Obj) (ops : List Op) : o.ver ≤ (o.run ops).ver := by
  induction ops generalizing o with
  | nil => exact Nat.le_refl _
  | cons op ops ih => exact Nat.le_trans (step_counter o op).1 (ih (o.step op))

/-- **a value of the counter identifies one view**: if the counter after a history is what
it was before, the exposed view is the same — so a memoised result stored under that value
can never belong to another window (what resetting the counter would destroy) -/
theorem counter_identifies_view (o : Obj) (ops : List Op) (h : (o.run ops).ver = o.ver) :
    (o.run ops).cur = o.cur ∧ (o.run ops).win = o.win := by
  induction ops generalizing o with
  | nil => exact ⟨rfl, rfl⟩
  | cons op ops ih =>
    have h1 := (step_counter o op).1
    have h2 := run_counter_mono (o.step op) ops
    have h' : ((o.step op).run ops).ver = o.ver := h
    have e1 : (o.step op).ver = o.ver := by omega
    have e2 : ((o.step op).run ops).ver = (o.step op).ver := by omega
    have a := ih (o.step op) e2
    have b := (step_counter o op).2 e1
    exact ⟨a.1.trans b.1, a.2.trans b.2⟩

/-- the same between any two points of one history -/
theorem counter_identifies_view_between (o : Obj) (ops1 ops2 : List Op)
    (h : (o.run (ops1 ++ ops2)).ver = (o.run ops1).ver) :
    (o.run (ops1 ++ ops2)).cur = (o.run ops1).cur := by
  have e : o.run (ops1 ++ ops2) = (o.run ops1).run ops2 := by simp [Obj.run, List.foldl_append]
  rw [e] at h ⊢
  exact (counter_identifies_view _ ops2 h).1

/-! ## 15c. Coinciding bounds are tested exactly, not approximately -/

/-- two *distinct* time bounds, however close (relative to their magnitude or absolutely),
are a window: exactly the stamps of the closed interval are selected -/
theorem distinct_bounds_are_a_window (w : Win) (time : Vec) (h : w.tmin ≠ w.tmax) :
    timeMask w time = time.map fun t => decide (w.tmin ≤ t ∧ t ≤ w.tmax) := by
  rw [timeMask_eq]
  apply List.map_congr_left
  intro t _
  simp [timeIn, h, inRange]

/-- `np.isclose(a, b)` with its default tolerances: `|a - b| ≤ 1e-8 + 1e-5 · |b|` -/
def isclose (a b : Rat) : Bool :=
  decide ((if a ≤ b then b - a else a - b) ≤ 1 / 100000000 + 1 / 100000 * (if 0 ≤ b then b else -b))

/-- `time_indices` with an approximate test for coinciding bounds -/
def timeMaskTol (w : Win) (time : Vec) : List Bool :=
  if isclose w.tmin w.tmax then List.replicate time.length true
  else time.map (inRange w.tmin w.tmax)

/-- counter-model: with an approximate test, hourly stamps around `2²⁰` and the window
`[2²⁰ + 1, 2²⁰ + 2]` expose all five samples instead of two — the exact test does not -/
theorem tolerance_breaks_selection :
    let time : Vec := [1048576, 1048577, 1048578, 1048579, 1048580]
    let w : Win := ⟨1048577, 1048578, 0, 0, 0, 0⟩
    timeMaskTol w time = [true, true, true, true, true]
    ∧ timeMask w time = [false, true, true, false, false] := by
  decide +kernel

/-! ## 15d. Files with a regular grid (`Data.Load`, `GeoGrid.RegularGrid`) -/

theorem rectNodes_length (lat lon : Vec) : (rectNodes lat lon).length = lat.length * lon.length := by
  induction lat with
  | nil => simp [rectNodes]
  | cons a l ih =>
    simp only [rectNodes, List.flatMap_cons, List.length_append, List.length_map] at ih ⊢
    rw [ih, List.length_cons, Nat.succ_mul]; omega

theorem zip_map_fst_snd {α β : Type} (l : List (α × β)) :
    (l.map Prod.fst).zip (l.map Prod.snd) = l := by
  induction l with
  | nil => rfl
  | cons p t ih => simp [ih]

/-- the nodes of a loaded regular file are the pairs (latitude, longitude) of the two axes -/
theorem loadRegular_nodes (time latg long : Vec) (rows : Mat) :
    (loadRegular time latg long rows).lat.zip (loadRegular time latg long rows).lon
      = rectNodes latg long := zip_map_fst_snd _

/-- a `(time, lat, lon)` variable reshaped to `(n_time, -1)` matches the grid built from the axes -/
theorem loadRegular_wf (time latg long : Vec) (rows : Mat) (h1 : rows.length = time.length)
    (h2 : ∀ r ∈ rows, r.length = latg.length * long.length) :
    (loadRegular time latg long rows).WF :=
  ⟨h1, fun r hr => by simp [loadRegular, rectNodes_length, h2 r hr], by simp [loadRegular]⟩

/-- **a rectangular window on a regular grid selects a regular sub-grid**: the nodes inside the
(non-degenerate) spatial window are exactly the pairs of the latitudes inside the latitude
bounds with the longitudes inside the longitude bounds, in grid order -/
theorem regular_window_is_subgrid (w : Win) (latg long : Vec)
    (h1 : w.latmin ≠ w.latmax) (h2 : w.lonmin ≠ w.lonmax) :
    (rectNodes latg long).filter (nodeIn w)
      = rectNodes (latg.filter (inRange w.latmin w.latmax))
          (long.filter (inRange w.lonmin w.lonmax)) := by
  have hn : ∀ p, nodeIn w p = (inRange w.latmin w.latmax p.1 && inRange w.lonmin w.lonmax p.2) := by
    intro p; simp [nodeIn, h1, h2, inBox]
  induction latg with
  | nil => simp [rectNodes]
  | cons a l ih =>
    simp only [rectNodes, List.flatMap_cons, List.filter_append] at ih ⊢
    rw [ih]
    by_cases ha : inRange w.latmin w.latmax a = true
    · simp only [List.filter_cons, ha, if_true, List.flatMap_cons]
      congr 1
      rw [List.filter_map]
      congr 1
      apply List.filter_congr
      intro x _
      simp [hn, ha]
    · simp only [List.filter_cons, ha]
      have : List.filter (nodeIn w) (List.map (fun lo => (a, lo)) long) = [] := by
        rw [List.filter_eq_nil_iff]
        intro p hp
        obtain ⟨lo, _, rfl⟩ := List.mem_map.mp hp
        simp [hn, ha]
      rw [this]; simp

/-- object level: a window on a loaded regular file exposes the regular sub-grid, with
`#lat · #lon` nodes — all theorems about windows, derived series and histories apply to
loaded data through `loadRegular_wf` -/
theorem load_window_is_subgrid (time latg long : Vec) (rows : Mat) (w : Win) (v : View)
    (hwf : (loadRegular time latg long rows).WF)
    (h : applyWindow (loadRegular time latg long rows) w = some v)
    (h1 : w.latmin ≠ w.latmax) (h2 : w.lonmin ≠ w.lonmax) :
    v.lat.zip v.lon = rectNodes (latg.filter (inRange w.latmin w.latmax))
        (long.filter (inRange w.lonmin w.lonmax))
    ∧ v.lat.length = (latg.filter (inRange w.latmin w.latmax)).length
        * (long.filter (inRange w.lonmin w.lonmax)).length := by
  have hz := (window_selects_exactly _ w v hwf h).2.1
  rw [loadRegular_nodes, regular_window_is_subgrid w latg long h1 h2] at hz
  refine ⟨hz, ?_⟩
  have hv := window_shapes_agree _ w v hwf h
  have := congrArg List.length hz
  rw [List.length_zip, rectNodes_length, ← hv.latlon, Nat.min_self] at this
  exact this

/-- 2 latitudes × 3 longitudes: the window keeps one latitude and two longitudes -/
example : applyWindow (loadRegular [0, 1] [0, 5] [1, 2, 3] [[1, 2, 3, 4, 5, 6], [7, 8, 9, 10, 11, 12]])
      ⟨0, 0, 4, 6, 2, 3⟩
    = some ⟨[0, 1], [5, 5], [2, 3], [[5, 6], [11, 12]]⟩ := by decide +kernel

/-! ## 16. Rescaling: anomalies and phase means are homogeneous, windows follow the time unit -/

/-- **`anomaly()` is homogeneous**: rescaling the observable by any factor `k` (a change of
unit, e.g. a power of two) rescales every anomaly by `k` -/
theorem anomaly_rescale (k : Rat) (c n : Nat) (obs : Mat) (hc : 0 < c) :
    anomalyOf c n (msmul k obs) = msmul k (anomalyOf c n obs) := by
  rw [anomalyOf_closed c n _ hc, anomalyOf_closed c n obs hc]
  apply List.ext_getElem
  · simp [msmul]
  · intro t h1 h2
    simp only [msmul, List.length_map, List.getElem_zipWith, List.getElem_range, List.getElem_map]
    have := meanRow_smul k c n obs (t % c)
    simp only [msmul] at this
    rw [this, vsub_smul]

/-- **`phase_mean()` is homogeneous** (NaN rows stay NaN rows) -/
theorem phaseMean_rescale (k : Rat) (c n : Nat) (obs : Mat) :
    phaseMeanLoop c n (msmul k obs) = (phaseMeanLoop c n obs).map (Option.map (smul k)) := by
  rw [phaseMeanLoop_eq, phaseMeanLoop_eq]
  simp only [phaseMean, List.map_map]
  apply List.map_congr_left
  intro i _
  have e : everyNth c i (msmul k obs) = msmul k (everyNth c i obs) := everyNth_map _ _ _ _
  simp only [Function.comp, colMean, e]
  by_cases he : everyNth c i obs = []
  · simp [he, msmul]
  · have he' : msmul k (everyNth c i obs) ≠ [] := by simpa [msmul] using he
    have h1 : (msmul k (everyNth c i obs)).isEmpty = false := by simpa using he'
    have h2 : (everyNth c i obs).isEmpty = false := by simpa using he
    simp only [h1, h2, Bool.false_eq_true, if_false, Option.map_some, Option.some.injEq]
    rw [colSum_smul]
    simp only [msmul, smul, List.length_map, List.map_map]
    apply List.map_congr_left
    intro x _
    simp only [Function.comp, Rat.div_def, Rat.mul_assoc]

/-- **the window follows the time unit**: rescaling the time axis and the time bounds by the
same positive factor selects the same samples (also in the coinciding-bounds convention) -/
theorem timeMask_rescale (k : Rat) (hk : 0 < k) (w : Win) (time : Vec) :
    timeMask { w with tmin := k * w.tmin, tmax := k * w.tmax } (time.map (k * ·))
      = timeMask w time := by
  have hle : ∀ a b : Rat, k * a ≤ k * b ↔ a ≤ b := fun a b =>
    ⟨fun h => Rat.le_of_mul_le_mul_left h hk,
     fun h => Rat.mul_le_mul_of_nonneg_left h (Rat.le_of_lt hk)⟩
  have hinj : k * w.tmin = k * w.tmax ↔ w.tmin = w.tmax := by
    constructor
    · intro h
      exact Rat.le_antisymm ((hle _ _).mp (h ▸ Rat.le_refl)) ((hle _ _).mp (h ▸ Rat.le_refl))
    · intro h; rw [h]
  unfold timeMask
  by_cases h : w.tmin = w.tmax
  · simp [h]
  · have h' : ¬ k * w.tmin = k * w.tmax := fun x => h (hinj.mp x)
    simp only [h, h', if_false, List.map_map]
    apply List.map_congr_left
    intro x _
    simp [inRange, hle]

/-! ## 7. Non-vacuity: concrete states satisfying the hypotheses -/

/-- 7 time stamps, 3 irregular nodes -/
def exFull : View :=
  ⟨[0, 1, 2, 3, 4, 5, 6], [0, 5, 10], [3, 1, 2],
   [[0, 12, 24], [12, 24, 36], [24, 0, 12], [36, 12, 0], [48, 60, 0], [12, 12, 12], [0, 0, 12]]⟩

theorem exFull_wf : exFull.WF := ⟨by decide, by decide, by decide⟩

/-- a window with boundaries on samples keeps the boundary samples (closed window) -/
example : applyWindow exFull ⟨1, 5, 0, 5, 1, 3⟩
    = some ⟨[1, 2, 3, 4, 5], [0, 5], [3, 1],
        [[12, 24], [24, 0], [36, 12], [48, 60], [12, 12]]⟩ := by decide +kernel
/-- coinciding time bounds: the full time range; coinciding longitude bounds: all nodes -/
example : applyWindow exFull ⟨2, 2, 0, 5, 7, 7⟩ = some exFull := by decide +kernel
/-- an empty selection is rejected -/
example : applyWindow exFull ⟨10, 11, 0, 0, 0, 0⟩ = none := by decide +kernel
/-- a cycle length that does not divide the record (7 = 2·3 + 1) -/
example : anomalyOf 3 1 [[0], [12], [24], [36], [48], [12], [0]]
    = [[-12], [-18], [6], [24], [18], [-6], [-12]] := by decide +kernel
example : phaseMean 3 1 [[0], [12], [24], [36], [48], [12], [0]]
    = [some [12], some [30], some [18]] := by decide +kernel
/-- a cycle longer than the record: NaN rows for the phases without sample -/
example : phaseMean 3 1 [[4], [6]] = [some [4], some [6], none] := by decide +kernel
example : phaseIndices 3 7 = some [[0, 3], [1, 4], [2, 5]] := by decide +kernel
example : indicesSelectedPhases 3 7 [2, 0] = .ok [0, 2, 3, 5] := by decide +kernel
/-- the invariant is satisfiable: any constructed object has it -/
example : ∃ o, Obj.init exFull 3 false none = some o ∧ o.Inv := by
  refine ⟨_, rfl, (init_inv exFull 3 false none _ exFull_wf rfl).1⟩
/-- a history with a rejected window, queries before and after, and an eviction -/
example : ∃ o, Obj.init exFull 3 false none = some o ∧
    ((o.run [.qAnomaly, .setWindow ⟨1, 5, 0, 5, 1, 3⟩, .qAnomaly, .setWindow ⟨10, 11, 0, 0, 0, 0⟩,
      .evict (fun _ => false), .qPhaseMean]).anomalyQ.1
      = [[-18, -18], [6, -6], [0, 0], [18, 18], [-6, 6]]) := ⟨_, rfl, by decide +kernel⟩

/-- the loops as written -/
example : phaseIndicesLoop 3 7 = .ok [[0, 3], [1, 4], [2, 5]] := by decide +kernel
example : phaseIndicesLoop 0 7 = .zeroDivision := by decide +kernel
example : phaseMeanLoop 3 1 [[4], [6]] = [some [4], some [6], none] := by decide +kernel
/-- negative phase numbers wrap; numbers outside `[-c, c)` are an `IndexError` -/
example : indicesSelectedPhasesI 3 7 [-1, 0] = .ok [0, 2, 3, 5] := by decide +kernel
example : indicesSelectedPhasesI 3 7 [3] = .indexError := by decide +kernel
example : indicesSelectedPhasesI 3 7 [-4] = .indexError := by decide +kernel
/-- month → day expansion: month `-1` is December, days 330 … 359 of the one complete year -/
example : indicesSelectedMonthsI 360 400 [-1]
    = .ok ((List.range 30).map (· + 330)) := by decide +kernel
example : indicesSelectedMonthsI 12 25 [1, -12] = .ok [0, 1, 12, 13] := by decide +kernel
example : indicesSelectedMonthsI 7 25 [1] = .notImplemented := by decide +kernel
/-- `set_window(window())` on a windowed view keeps the view -/
example : ∃ o, Obj.init exFull 3 false (some ⟨1, 5, 0, 5, 1, 3⟩) = some o
    ∧ boundaries o.cur = some [1, 5, 0, 5, 1, 3] ∧ o.setWindowCurrent.2.cur = o.cur :=
  ⟨_, rfl, by decide +kernel, by decide +kernel⟩
/-- a shuffled column is a rearrangement -/
example : shuffledAnomaly [[1, 10], [2, 20], [3, 30]] 2 [[2, 0, 1], [0, 2, 1]]
    = [[3, 10], [1, 30], [2, 20]] := by decide +kernel
/-- an object built on the windowed arrays of another -/
example : ∃ o o', Obj.init exFull 3 false (some ⟨1, 5, 0, 5, 1, 3⟩) = some o
    ∧ o.nest = some o' ∧ o'.full = o.cur := ⟨_, _, rfl, rfl, rfl⟩
/-- `anomaly_selected_months` on 26 monthly samples, window dropping the first one -/
example : ∃ o, Obj.init ⟨(List.range 26).map (fun (t : Nat) => (t : Rat)), [0], [0],
      (List.range 26).map (fun (t : Nat) => [((t * t : Nat) : Rat)])⟩ 12 false none = some o
    ∧ ((o.setWindow ⟨1, 25, 0, 0, 0, 0⟩).2.anomalySelectedMonths [0, -1]).1
        = .ok [[-264], [-216], [-96], [216]] := ⟨_, rfl, by decide +kernel⟩

/-- rescaling by a power of two -/
example : anomalyOf 3 1 (msmul 1024 [[0], [12], [24], [36], [48], [12], [0]])
    = msmul 1024 [[-12], [-18], [6], [24], [18], [-6], [-12]] := by decide +kernel
example : timeMask ⟨8, 40, 0, 0, 0, 0⟩ ([0, 1, 2, 3, 4, 5, 6].map ((8 : Rat) * ·))
    = [false, true, true, true, true, true, false] := by decide +kernel

/-! ## 8. The pinned code (before the `fix:` commits) violated the property

`Data.set_window` assigned `_observable` *before* `GeoGrid(...)` raised for an
empty selection, and `ClimateData.anomaly()` returned `_full_observable` when
`anomalies=True`.  Both counter-models are replayed on the implementation by the
oracle of `harness/c13.py`. -/

/-- the pinned `Data.set_window`: returns `(raised?, view afterwards)` -/
def applyWindowPinned (full cur : View) (w : Win) : Bool × View :=
  let tm := timeMask w full.time
  let sm := spaceMask w full.lat full.lon
  let obs := (select tm full.obs).map (select sm)
  if (select tm full.time).isEmpty || (select sm full.lat).isEmpty
  then (true, { cur with obs := obs })
  else (false, ⟨select tm full.time, select sm full.lat, select sm full.lon, obs⟩)

/-- after a rejected window the pinned object's observable no longer matches its grid -/
theorem pinned_rejected_window_breaks_shapes :
    (applyWindowPinned exFull exFull ⟨10, 11, 0, 0, 0, 0⟩).1 = true
    ∧ ¬ (applyWindowPinned exFull exFull ⟨10, 11, 0, 0, 0, 0⟩).2.WF := by
  refine ⟨by decide +kernel, fun h => ?_⟩
  have := h.rows
  revert this
  decide +kernel

/-- the pinned `anomalies=True` shortcut returned the full observable: wrong shape in a window -/
theorem pinned_anomalies_shortcut_breaks_shapes :
    ∃ v, applyWindow exFull ⟨1, 5, 0, 5, 1, 3⟩ = some v ∧ exFull.obs.length ≠ v.obs.length :=
  ⟨_, rfl, by decide +kernel⟩

/-! ## 12. Round 4: `numpy.random.shuffle` as executed — `shuffled_anomaly()` for every draw stream

The permutation applied by `random.shuffle` is no longer a parameter: the model runs NumPy's
masked rejection sampling (`random_interval`) and the Fisher–Yates loop (`_shuffle_raw`) on the
raw 32-bit output stream of the generator, column after column, on one stream. -/

/-- `random_interval(max)`, whatever the stream holds: the value lies in `[0, max]` (so the swap
of the shuffle stays inside the array) and the stream left over is a suffix of the stream -/
theorem random_interval_in_range (max : Nat) (ds : List Nat) (v : Nat) (r : List Nat)
    (h : randomInterval max ds = some (v, r)) : v ≤ max ∧ r <:+ ds :=
  randomInterval_spec max ds v r h

/-- the rejection loop: a draw is accepted iff its masked value is `≤ max`, otherwise the next
draw is examined (`max ≤ 0xffffffff`: the 32-bit branch, every array with at most 2³² entries) -/
theorem random_interval_rejection (max d : Nat) (ds : List Nat) (h0 : max ≠ 0) (h32 : max ≤ 0xffffffff) :
    randomInterval max (d :: ds)
      = if d &&& bitMask max ≤ max then some (d &&& bitMask max, ds) else randomInterval max ds :=
  randomInterval_cons max d ds h0 h32

/-- `mask |= mask >> 1; …; mask |= mask >> 32` is the all-ones number of the bit length of `max`:
it is `≥ max`, fewer than half of the masked values are rejected, and **every** index `j ≤ max`
is produced by some draw (the draw `j` itself) — no position of the array is excluded -/
theorem random_interval_reaches_every_index (max : Nat) (h0 : max ≠ 0) (h32 : max ≤ 0xffffffff) :
    bitMask max = 2 ^ (max.log2 + 1) - 1 ∧ max ≤ bitMask max ∧ bitMask max + 1 ≤ 2 * max
      ∧ ∀ j ds, j ≤ max → randomInterval max (j :: ds) = some (j, ds) := by
  have h64 : max < 2 ^ 64 := by omega
  exact ⟨bitMask_eq max h0 h64, (bitMask_bounds max h0 h64).1, (bitMask_bounds max h0 h64).2,
    fun j ds hj => randomInterval_hits max j ds h0 h32 hj⟩

/-- **`numpy.random.shuffle` returns a rearrangement, for every draw stream**; arrays with at
most one entry are returned unchanged without drawing -/
theorem shuffle_is_permutation {α : Type} (xs : List α) (ds : List Nat) (ys : List α) (r : List Nat)
    (h : npShuffle xs ds = some (ys, r)) : ys.Perm xs ∧ ys.length = xs.length ∧ r <:+ ds :=
  npShuffle_spec xs ds ys r h

theorem shuffle_short_is_identity {α : Type} (xs : List α) (ds : List Nat) (h : xs.length ≤ 1) :
    npShuffle xs ds = some (xs, ds) := npShuffle_short xs ds h

/-- **`shuffled_anomaly()` for every draw stream and every content of `np.empty`**: the result
has the shape of `anomaly()`, every column is a rearrangement of the same column of `anomaly()`,
nothing of the uninitialised array survives (two different initial contents give the same
result), and the generator is left at a later point of the same stream -/
theorem shuffled_anomaly_raw_spec (A : Mat) (n : Nat) (E : Mat) (ds : List Nat) (S : Mat) (r : List Nat)
    (hE : E.length = A.length) (hEr : ∀ row ∈ E, row.length = n)
    (h : shuffledAnomalyRaw A n E ds = some (S, r)) :
    S.length = A.length ∧ (∀ row ∈ S, row.length = n)
      ∧ (∀ j, j < n → (column S j).Perm (column A j))
      ∧ r <:+ ds
      ∧ ∀ E' : Mat, E'.length = A.length → (∀ row ∈ E', row.length = n) →
          shuffledAnomalyRaw A n E' ds = some (S, r) := by
  obtain ⟨a, b, c, _, e⟩ := shuffleColumns_spec A n n 0 E ds S r hE hEr (by omega) h
  refine ⟨a, b, fun j hj => c j (Nat.zero_le _) (by omega), e, ?_⟩
  intro E' hE' hEr'
  have hag := shuffleColumns_agree A n n 0 E E' ds (by omega)
    (agree_zero n E E' (by rw [hE, hE']) hEr hEr')
  unfold shuffledAnomalyRaw at h ⊢
  rw [h] at hag
  cases h2 : shuffleColumns A n 0 E' ds with
  | none => rw [h2] at hag; exact hag.elim
  | some p =>
    obtain ⟨R2, r2⟩ := p
    rw [h2] at hag
    simp only [Nat.zero_add] at hag
    rw [agree_full_eq n S R2 hag.1, hag.2]

/-- the stream on which the shuffles of successive columns run is *one* stream: column `j + 1`
starts where column `j` stopped (unfolding of the loop) -/
theorem shuffled_anomaly_columns_share_stream (A : Mat) (k j : Nat) (S : Mat) (ds : List Nat) :
    shuffleColumns A (k + 1) j S ds
      = match npShuffle (column A j) ds with
        | none => none
        | some (col, ds') => shuffleColumns A k (j + 1) (setColumn S j col) ds' := rfl

/-- **after every history** of window changes, queries and evictions, `shuffled_anomaly()` —
for every draw stream — has the shape of the *current* window and every column is a
rearrangement of the corresponding column of the anomalies *of the current window* -/
theorem shuffled_anomaly_after_history (o : Obj) (ops : List Op) (hi : o.Inv) (E : Mat) (ds : List Nat)
    (S : Mat) (r : List Nat)
    (hE : E.length = (o.run ops).cur.time.length)
    (hEr : ∀ row ∈ E, row.length = (o.run ops).cur.lat.length)
    (h : ((o.run ops).shuffledAnomalyQ E ds).1 = some (S, r)) :
    S.length = (o.run ops).cur.time.length
      ∧ (∀ row ∈ S, row.length = (o.run ops).cur.lat.length)
      ∧ (∀ j, j < (o.run ops).cur.lat.length →
          (column S j).Perm (column (o.run ops).anomalyFresh j))
      ∧ r <:+ ds := by
  have hs := shapes_agree o ops hi
  have hq := (queries_follow_window o ops hi).2
  simp only at hs
  obtain ⟨_, _, _, h4, _, _, _⟩ := hs
  simp only [Obj.shuffledAnomalyQ, Obj.ncols] at h
  obtain ⟨a, b, c, e, _⟩ := shuffled_anomaly_raw_spec _ _ E ds S r (by rw [hE, h4]) hEr h
  rw [hq] at c
  exact ⟨by rw [a, h4], b, c, e⟩

/-- non-vacuity: the draws `5, 1` shuffle a column of three (mask 3 for `i = 2`: `5 & 3 = 1`;
mask 1 for `i = 1`: `1 & 1 = 1`), a rejected draw (`3 & 3 = 3 > 2`) is skipped -/
example : npShuffle [(10 : Rat), 20, 30] [5, 1, 99] = some ([10, 30, 20], [99]) := by decide +kernel
example : npShuffle [(10 : Rat), 20, 30] [3, 7, 4, 2] = some ([20, 30, 10], []) := by decide +kernel
example : npShuffle [(10 : Rat), 20, 30] [3, 7] = none := by decide +kernel
example : bitMask 5 = 7 ∧ bitMask 8 = 15 ∧ bitMask 1 = 1 ∧ bitMask 0xffffffff = 0xffffffff := by
  decide +kernel
/-- two columns on one stream; the content of `np.empty` (here 7s and 8s) is overwritten -/
example : shuffledAnomalyRaw [[1, 10], [2, 20], [3, 30]] 2 [[7, 7], [8, 8], [7, 8]] [5, 1, 0, 0, 42]
    = some ([[1, 20], [3, 30], [2, 10]], [42]) := by decide +kernel

/-! ## 13. Round 4: float rounding of `phase_mean()` / `anomaly()` under the standard model

`F : FlArith u ud` is any arithmetic with relative error `≤ u` per `+` / `-` and `≤ ud` per
division (binary64: `u = ud = 2⁻⁵³`); `t : SumTree` is the order in which NumPy adds the samples
of one phase and node — the statements hold for every order.  The harness evaluates these bounds
in exact arithmetic on the values the real code returns (instead of a chosen tolerance). -/

/-- **the computed phase mean** of node `j` and phase `i` differs from the exact one (the entry of
the rational model `colMean`) by at most `((1+u)^(k−1) (1+ud) − 1) · mean|x|`, `k` = number of
samples of the phase, for every order of summation of the column `observable[i::c, j]` -/
theorem float_phase_mean_error {u ud : ℚ} (F : FlArith u ud) (hu : 0 ≤ u) (hud : 0 ≤ ud)
    (c n i j : Nat) (obs : Mat) (h : ∀ r ∈ obs, r.length = n) (hj : j < n) (m : Vec)
    (hm : colMean n (everyNth c i obs) = some m)
    (t : SumTree) (ht : t.leaves = column (everyNth c i obs) j) :
    |flMean F t - m.getD j 0|
      ≤ ((1 + u) ^ (t.leaves.length - 1) * (1 + ud) - 1)
          * ((t.leaves.map (|·|)).sum / t.leaves.length) := by
  have hrows : ∀ r ∈ everyNth c i obs, r.length = n := fun r hr => h r (mem_everyNth _ _ _ _ hr)
  rw [colMean_getD n _ j m hrows hj hm, ← ht]
  exact mean_error_n F hu hud t

/-- **add-back under rounding**: the computed anomaly `fl(x − m̂)` plus the number `m̂` that was
subtracted (the computed phase mean, whatever its error) is the observable up to one rounding
error of their difference -/
theorem float_addback_error {u ud : ℚ} (F : FlArith u ud) (x m : ℚ) :
    |F.sub x m + m - x| ≤ u * |x - m| := addback_error F x m

/-- **zero phase mean under rounding**: the mean of the computed anomalies of one phase and node
(`xs` = the samples, `t` any order of summing them, `m̂ = flMean F t` the computed mean) is at most
the error bound of the mean plus `u` times the mean absolute deviation -/
theorem float_anomaly_phase_mean_error {u ud : ℚ} (F : FlArith u ud) (hu : 0 ≤ u) (hud : 0 ≤ ud)
    (t : SumTree) :
    |(t.leaves.map (F.sub · (flMean F t))).sum / t.leaves.length|
      ≤ ((1 + u) ^ (t.leaves.length - 1) * (1 + ud) - 1)
            * ((t.leaves.map (|·|)).sum / t.leaves.length)
        + u * ((t.leaves.map fun x => |x - flMean F t|).sum / t.leaves.length) := by
  have hne : t.leaves ≠ [] := by
    have := t.depth_lt_leaves
    intro h0
    rw [h0] at this
    simp at this
  have h1 := anomaly_mean_error F (flMean F t) t.leaves hne
  have h2 := mean_error_n F hu hud t
  rw [abs_sub_comm] at h2
  linarith

/-- with exact arithmetic (`u = ud = 0`) the three bounds are the exact statements again -/
theorem float_bounds_exact_case (t : SumTree) :
    flMean (FlArith.exactArith 0 0 (le_refl _) (le_refl _)) t = t.leaves.sum / t.leaves.length := by
  have := mean_error_n (FlArith.exactArith 0 0 (le_refl _) (le_refl _)) (le_refl _) (le_refl _) t
  simp only [add_zero, one_pow, mul_one, sub_self, zero_mul] at this
  exact sub_eq_zero.1 (abs_nonpos_iff.1 this)

/-- non-vacuity: the sequential order of a reduction over axis 0 is a summation tree with the
samples as leaves and depth `k − 1` -/
example : (SumTree.seq 3 [1, 4, 1, 5]).leaves = [3, 1, 4, 1, 5] ∧ (SumTree.seq 3 [1, 4, 1, 5]).depth = 4 :=
  SumTree.seq_spec 3 [1, 4, 1, 5]

/-! ## 14. Round 5: `phase_mean()` / `anomaly()` as executed in IEEE binary64 / binary32

The abstract arithmetic of §13 is instantiated.  `rn64` / `rn32` are round-to-nearest-even to 53 /
24 bits for either sign; `ops64` are the correctly rounded binary64 operations (float64 and int64
observables), `ops32` the operations NumPy applies to float32 observables (`+`, `-` in binary32, the
division by the count in double and rounded to binary32 again).  `flPhaseMeanLoop P` / `flAnomalyOf P`
are the loops of `phase_mean()` / `anomaly()` with every operation rounded, the sum over axis 0
running row after row as `np.add.reduce` does on a C-ordered block.  The driver executes these
models and the harness compares them bit for bit with the real results.  The theorems are stated
for every arithmetic `F` satisfying the standard model, run through the *executable* model
(`F.ops`), and then for the two IEEE instances.  (Exponent range unbounded: no overflow, no
underflow of the division.) -/

/-- **IEEE binary64 round-to-nearest-even satisfies the standard model** with `u = ud = 2⁻⁵³`:
every correctly rounded `+`, `-`, `/` has relative error at most `2⁻⁵³`, for operands and results
of either sign (the hypothesis of the round-4 bounds is a theorem for this arithmetic) -/
theorem ieee_double_standard_model (a b : ℚ) :
    |ops64.add a b - (a + b)| ≤ (1 / 2 ^ 53) * |a + b|
      ∧ |ops64.sub a b - (a - b)| ≤ (1 / 2 ^ 53) * |a - b|
      ∧ |ops64.div a b - a / b| ≤ (1 / 2 ^ 53) * |a / b| :=
  ⟨rn64_err _, rn64_err _, rn64_err _⟩

/-- **the float32 path satisfies the standard model** with `u = 2⁻²⁴` and, for the division carried
out in double and rounded to binary32 again, `ud = 2⁻²⁴ + 2⁻⁵²` (the constants the oracle uses) -/
theorem ieee_single_standard_model (a b : ℚ) :
    |ops32.add a b - (a + b)| ≤ (1 / 2 ^ 24) * |a + b|
      ∧ |ops32.sub a b - (a - b)| ≤ (1 / 2 ^ 24) * |a - b|
      ∧ |ops32.div a b - a / b| ≤ (1 / 2 ^ 24 + 1 / 2 ^ 52) * |a / b| :=
  ⟨rn32_err _, rn32_err _, rn32_rn64_err _⟩

/-- rounding is sign-symmetric (so anomalies of the negated observable are the negated anomalies) -/
theorem ieee_rounding_odd (x : ℚ) : rn64 (-x) = -rn64 x := rn64_neg x

/-- **shape and NaN rows of the float `phase_mean()`** (any rounded operations): `c` rows; row `i`
is a NaN row exactly when the rational model's row is (the phase has no sample), otherwise it has
one entry per node -/
theorem float_exec_phase_mean_shape (P : FlOps) (c n : Nat) (obs : Mat)
    (h : ∀ r ∈ obs, r.length = n) :
    (flPhaseMeanLoop P c n obs).length = c
      ∧ ∀ i, i < c →
          (((flPhaseMeanLoop P c n obs)[i]? = some none ↔ (phaseMeanLoop c n obs)[i]? = some none)
            ∧ ∀ mf, (flPhaseMeanLoop P c n obs)[i]? = some (some mf) → mf.length = n) := by
  rw [flPhaseMeanLoop_eq, phaseMeanLoop_eq]
  refine ⟨by simp, fun i hi => ?_⟩
  simp only [phaseMean, List.getElem?_map, List.getElem?_range hi, Option.map_some,
    Option.some.injEq]
  have hrows : ∀ r ∈ everyNth c i obs, r.length = n := fun r hr => h r (mem_everyNth _ _ _ _ hr)
  refine ⟨?_, fun mf hmf => flColMean_length P n _ hrows mf hmf⟩
  cases hs : everyNth c i obs <;> simp [flColMean, flColSum, colMean]

/-- the shape of the float `anomaly()` is the shape of the observable -/
theorem float_exec_anomaly_shape (P : FlOps) (c n : Nat) (obs : Mat) (hc : 0 < c)
    (h : ∀ r ∈ obs, r.length = n) :
    (flAnomalyOf P c n obs).length = obs.length ∧ ∀ a ∈ flAnomalyOf P c n obs, a.length = n := by
  rw [flAnomalyOf_closed P c n obs hc]
  refine ⟨by simp, fun a ha => ?_⟩
  obtain ⟨t, ht, rfl⟩ := List.getElem_of_mem ha
  simp only [List.length_zipWith, List.length_range, Nat.min_self] at ht
  simp only [List.getElem_zipWith, List.getElem_range, flVsub, List.length_zipWith]
  have hot : obs[t].length = n := h _ (List.getElem_mem _)
  have hne := everyNth_phase_ne_nil c hc obs t ht
  have hrows : ∀ r ∈ everyNth c (t % c) obs, r.length = n :=
    fun r hr => h r (mem_everyNth _ _ _ _ hr)
  obtain ⟨mf, hmf⟩ : ∃ mf, flColMean P (everyNth c (t % c) obs) = some mf := by
    cases hs : everyNth c (t % c) obs with
    | nil => exact absurd hs hne
    | cons r rs => simp [flColMean, flColSum]
  have := flColMean_length P n _ hrows mf hmf
  simp [flMeanRow, hmf, hot, this]

/-- **the phase mean as executed is within the proved bound of the exact phase mean**: for every
arithmetic satisfying the standard model, cycle length, phase `i` with `k ≥ 1` samples and node `j`,
`|m̂[i][j] − m[i][j]| ≤ ((1+u)^(k−1)(1+ud) − 1) · mean|observable[i::c, j]|`, where `m̂` is the row
the float loop stores and `m` the row of the rational model (`phaseMeanLoop`) -/
theorem float_exec_phase_mean_error {u ud : ℚ} (F : FlArith u ud) (hu : 0 ≤ u) (hud : 0 ≤ ud)
    (c n i j : Nat) (obs : Mat) (h : ∀ r ∈ obs, r.length = n)
    (hi : i < c) (hj : j < n) (m mf : Vec)
    (hm : (phaseMeanLoop c n obs)[i]? = some (some m))
    (hf : (flPhaseMeanLoop F.ops c n obs)[i]? = some (some mf)) :
    |mf.getD j 0 - m.getD j 0|
      ≤ ((1 + u) ^ ((everyNth c i obs).length - 1) * (1 + ud) - 1)
          * (((column (everyNth c i obs) j).map (|·|)).sum / (everyNth c i obs).length) := by
  rw [phaseMeanLoop_eq] at hm
  rw [flPhaseMeanLoop_eq] at hf
  simp only [phaseMean, List.getElem?_map, List.getElem?_range hi, Option.map_some,
    Option.some.injEq] at hm hf
  exact flColMean_error F hu hud n j hj _ (fun r hr => h r (mem_everyNth _ _ _ _ hr)) m mf hm hf

/-- **add-back as executed**: for every cycle length `c ≥ 1` and every sample `t`, the phase
`t % c` has a computed mean row `m̂`, the computed anomaly row exists with one entry per node, and
`anomaly[t][j] + m̂[j]` is `observable[t][j]` up to one rounding error of their difference -/
theorem float_exec_anomaly_add_phase_mean {u ud : ℚ} (F : FlArith u ud) (c n : Nat) (obs : Mat)
    (hc : 0 < c) (h : ∀ r ∈ obs, r.length = n) (t : Nat) (ht : t < obs.length) :
    ∃ mf a, (flPhaseMeanLoop F.ops c n obs)[t % c]? = some (some mf)
      ∧ (flAnomalyOf F.ops c n obs)[t]? = some a
      ∧ a.length = n
      ∧ ∀ j, j < n →
          |a.getD j 0 + mf.getD j 0 - obs[t].getD j 0| ≤ u * |obs[t].getD j 0 - mf.getD j 0| := by
  have hne := everyNth_phase_ne_nil c hc obs t ht
  have hrows : ∀ r ∈ everyNth c (t % c) obs, r.length = n :=
    fun r hr => h r (mem_everyNth _ _ _ _ hr)
  have hot : obs[t].length = n := h _ (List.getElem_mem _)
  obtain ⟨mf, hmf⟩ : ∃ mf, flColMean F.ops (everyNth c (t % c) obs) = some mf := by
    cases hs : everyNth c (t % c) obs with
    | nil => exact absurd hs hne
    | cons r rs => simp [flColMean, flColSum]
  have hrow : flMeanRow F.ops c obs (t % c) = mf := by simp [flMeanRow, hmf]
  have hlen : mf.length = n := flColMean_length F.ops n _ hrows mf hmf
  refine ⟨mf, flVsub F.ops obs[t] mf, ?_, ?_, ?_, ?_⟩
  · rw [flPhaseMeanLoop_eq]
    simp [List.getElem?_range (Nat.mod_lt t hc), hmf]
  · rw [flAnomalyOf_closed F.ops c n obs hc]
    simp [ht, hrow]
  · simp [flVsub, hot, hlen]
  · intro j hj
    unfold flVsub
    rw [zipWith_getD F.ops.sub _ _ j (by omega) (by omega)]
    exact float_addback_error F _ _

/-- **zero phase mean as executed**: for every phase `i` with samples and every node `j`, the
(exact) mean of the computed anomalies `anomaly()[i::c, j]` is at most the error bound of the
computed mean plus `u` times the mean absolute deviation from the computed mean `m̂` -/
theorem float_exec_anomaly_phase_mean_error {u ud : ℚ} (F : FlArith u ud) (hu : 0 ≤ u)
    (hud : 0 ≤ ud) (c n i j : Nat) (obs : Mat) (hc : 0 < c) (h : ∀ r ∈ obs, r.length = n)
    (hi : i < c) (hT : i < obs.length) (hj : j < n) (mf : Vec)
    (hf : (flPhaseMeanLoop F.ops c n obs)[i]? = some (some mf)) :
    |(column (everyNth c i (flAnomalyOf F.ops c n obs)) j).sum / (everyNth c i obs).length|
      ≤ ((1 + u) ^ ((everyNth c i obs).length - 1) * (1 + ud) - 1)
            * (((column (everyNth c i obs) j).map (|·|)).sum / (everyNth c i obs).length)
        + u * (((column (everyNth c i obs) j).map fun x => |x - mf.getD j 0|).sum
                / (everyNth c i obs).length) := by
  rw [flPhaseMeanLoop_eq] at hf
  simp only [List.getElem?_map, List.getElem?_range hi, Option.map_some, Option.some.injEq] at hf
  have hrows : ∀ r ∈ everyNth c i obs, r.length = n := fun r hr => h r (mem_everyNth _ _ _ _ hr)
  have hlen : mf.length = n := flColMean_length F.ops n _ hrows mf hf
  have hrow : flMeanRow F.ops c obs i = mf := by simp [flMeanRow, hf]
  rw [flAnomaly_phase_slice F.ops c n obs hc i hi, hrow,
    column_map_flVsub F.ops n j hj _ mf hrows hlen]
  have hne : everyNth c i obs ≠ [] := by
    have := everyNth_phase_ne_nil c hc obs i hT
    rwa [Nat.mod_eq_of_lt hi] at this
  have hcne : column (everyNth c i obs) j ≠ [] := by
    intro h0
    have := congrArg List.length h0
    rw [column_length'] at this
    exact hne (List.length_eq_zero_iff.1 (by simpa using this))
  obtain ⟨m, hm⟩ : ∃ m, colMean n (everyNth c i obs) = some m :=
    ⟨_, colMean_of_ne_nil n _ hne⟩
  have h1 := anomaly_mean_error F (mf.getD j 0) (column (everyNth c i obs) j) hcne
  have h2 := flColMean_error F hu hud n j hj _ hrows m mf hm hf
  rw [colMean_getD n _ j m hrows hj hm, abs_sub_comm] at h2
  rw [column_length'] at h1 h2
  exact h1.trans (by linarith)

/-! ### the two IEEE instances (the model the driver executes) -/

/-- **binary64**: the phase mean NumPy computes for a float64 / int64 observable (sum over axis 0
row after row) is within `((1+2⁻⁵³)^k − 1) · mean|x|` of the exact phase mean -/
theorem ieee_phase_mean_error (c n i j : Nat) (obs : Mat) (h : ∀ r ∈ obs, r.length = n)
    (hi : i < c) (hj : j < n) (m mf : Vec)
    (hm : (phaseMeanLoop c n obs)[i]? = some (some m))
    (hf : (flPhaseMeanLoop ops64 c n obs)[i]? = some (some mf)) :
    |mf.getD j 0 - m.getD j 0|
      ≤ ((1 + u64) ^ ((everyNth c i obs).length - 1) * (1 + u64) - 1)
          * (((column (everyNth c i obs) j).map (|·|)).sum / (everyNth c i obs).length) :=
  float_exec_phase_mean_error ieee64 u64_nonneg u64_nonneg c n i j obs h hi hj m mf hm hf

/-- **binary32 path** (float32 observables): the same with `u = 2⁻²⁴`, `ud = 2⁻²⁴ + 2⁻⁵²` -/
theorem ieee32_phase_mean_error (c n i j : Nat) (obs : Mat) (h : ∀ r ∈ obs, r.length = n)
    (hi : i < c) (hj : j < n) (m mf : Vec)
    (hm : (phaseMeanLoop c n obs)[i]? = some (some m))
    (hf : (flPhaseMeanLoop ops32 c n obs)[i]? = some (some mf)) :
    |mf.getD j 0 - m.getD j 0|
      ≤ ((1 + u32) ^ ((everyNth c i obs).length - 1) * (1 + (u32 + 1 / 2 ^ 52)) - 1)
          * (((column (everyNth c i obs) j).map (|·|)).sum / (everyNth c i obs).length) :=
  float_exec_phase_mean_error ieee32 u32_nonneg (add_nonneg u32_nonneg (by positivity))
    c n i j obs h hi hj m mf hm hf

/-- **binary64 add-back**: `anomaly()[t][j] + phase_mean()[t % c][j]` is `observable()[t][j]` up to
`2⁻⁵³ · |observable − phase mean|`, for every sample of every record and cycle length -/
theorem ieee_anomaly_add_phase_mean (c n : Nat) (obs : Mat) (hc : 0 < c)
    (h : ∀ r ∈ obs, r.length = n) (t : Nat) (ht : t < obs.length) :
    ∃ mf a, (flPhaseMeanLoop ops64 c n obs)[t % c]? = some (some mf)
      ∧ (flAnomalyOf ops64 c n obs)[t]? = some a
      ∧ a.length = n
      ∧ ∀ j, j < n →
          |a.getD j 0 + mf.getD j 0 - obs[t].getD j 0| ≤ u64 * |obs[t].getD j 0 - mf.getD j 0| :=
  float_exec_anomaly_add_phase_mean ieee64 c n obs hc h t ht

/-- **binary32 add-back** -/
theorem ieee32_anomaly_add_phase_mean (c n : Nat) (obs : Mat) (hc : 0 < c)
    (h : ∀ r ∈ obs, r.length = n) (t : Nat) (ht : t < obs.length) :
    ∃ mf a, (flPhaseMeanLoop ops32 c n obs)[t % c]? = some (some mf)
      ∧ (flAnomalyOf ops32 c n obs)[t]? = some a
      ∧ a.length = n
      ∧ ∀ j, j < n →
          |a.getD j 0 + mf.getD j 0 - obs[t].getD j 0| ≤ u32 * |obs[t].getD j 0 - mf.getD j 0| :=
  float_exec_anomaly_add_phase_mean ieee32 c n obs hc h t ht

/-- **binary64 zero phase mean** of the anomalies as executed -/
theorem ieee_anomaly_phase_mean_error (c n i j : Nat) (obs : Mat) (hc : 0 < c)
    (h : ∀ r ∈ obs, r.length = n) (hi : i < c) (hT : i < obs.length) (hj : j < n) (mf : Vec)
    (hf : (flPhaseMeanLoop ops64 c n obs)[i]? = some (some mf)) :
    |(column (everyNth c i (flAnomalyOf ops64 c n obs)) j).sum / (everyNth c i obs).length|
      ≤ ((1 + u64) ^ ((everyNth c i obs).length - 1) * (1 + u64) - 1)
            * (((column (everyNth c i obs) j).map (|·|)).sum / (everyNth c i obs).length)
        + u64 * (((column (everyNth c i obs) j).map fun x => |x - mf.getD j 0|).sum
                / (everyNth c i obs).length) :=
  float_exec_anomaly_phase_mean_error ieee64 u64_nonneg u64_nonneg c n i j obs hc h hi hT hj mf hf

/-- **after every history** of window changes, queries and cache evictions: the phase mean computed
in floating point from the *current* window is within the proved bound of the memoised exact
`phase_mean()`, and the computed anomalies add back to the current observable up to one rounding
(composition with `queries_follow_window` — the float clauses follow every window change too) -/
theorem float_exec_after_history {u ud : ℚ} (F : FlArith u ud) (hu : 0 ≤ u) (hud : 0 ≤ ud)
    (o : Obj) (ops : List Op) (hinv : o.Inv) :
    let o' := o.run ops
    let obs := o'.cur.obs
    let n := o'.cur.lat.length
    (∀ i j m mf, i < o'.cycle → j < n → o'.phaseMeanQ.1[i]? = some (some m) →
        (flPhaseMeanLoop F.ops o'.cycle n obs)[i]? = some (some mf) →
        |mf.getD j 0 - m.getD j 0|
          ≤ ((1 + u) ^ ((everyNth o'.cycle i obs).length - 1) * (1 + ud) - 1)
              * (((column (everyNth o'.cycle i obs) j).map (|·|)).sum
                  / (everyNth o'.cycle i obs).length))
    ∧ (0 < o'.cycle → ∀ t (ht : t < obs.length), ∃ mf a,
        (flPhaseMeanLoop F.ops o'.cycle n obs)[t % o'.cycle]? = some (some mf)
          ∧ (flAnomalyOf F.ops o'.cycle n obs)[t]? = some a ∧ a.length = n
          ∧ ∀ j, j < n →
              |a.getD j 0 + mf.getD j 0 - obs[t].getD j 0|
                ≤ u * |obs[t].getD j 0 - mf.getD j 0|) := by
  intro o' obs n
  have h := run_inv o ops hinv
  have hq := (queries_follow_window o ops hinv).1
  refine ⟨fun i j m mf hi hj hm hf => ?_, fun hc t ht => ?_⟩
  · rw [hq] at hm
    exact float_exec_phase_mean_error F hu hud o'.cycle n i j obs h.curWF.cols hi hj m mf hm hf
  · exact float_exec_anomaly_add_phase_mean F o'.cycle n obs hc h.curWF.cols t ht

/-- numbers with a significand below `2⁵³` are fixed points of the rounding (binary64 numbers are
exactly the values the model can return) -/
theorem ieee_representable_fixed (m : ℕ) (e : ℤ) (hm : m < 2 ^ 53) :
    rn64 ((m : ℚ) * (2 : ℚ) ^ e) = (m : ℚ) * (2 : ℚ) ^ e ∧
      rn64 (-((m : ℚ) * (2 : ℚ) ^ e)) = -((m : ℚ) * (2 : ℚ) ^ e) := by
  have h0 : (0 : ℚ) ≤ (m : ℚ) * (2 : ℚ) ^ e := by positivity
  have h1 : rn64 ((m : ℚ) * (2 : ℚ) ^ e) = (m : ℚ) * (2 : ℚ) ^ e := by
    unfold rn64
    rw [if_neg (not_lt.2 h0)]
    exact rn53_dyadic m e hm
  exact ⟨h1, by rw [rn64_neg, h1]⟩

/-- **on integer data the binary64 execution is the rational model**: if the observable consists
of integers bounded by `B` with `(T+1)·B < 2⁵³` and every phase sum is divisible by the number of
samples of the phase (the harness's exact-integer stream: multiples of `lcm(1..⌈T/c⌉)`), then no
operation of `phase_mean()` / `anomaly()` rounds — the doubles the code returns are exactly the
rationals of the model, which is why that stream compares them for equality -/
theorem float_exact_on_integer_data (c n : Nat) (B : ℕ) (obs : Mat) (hc : 0 < c)
    (h : ∀ r ∈ obs, r.length = n) (hint : ∀ r ∈ obs, ∀ x ∈ r, ∃ z : ℤ, x = z ∧ |z| ≤ B)
    (hB : (obs.length + 1) * B < 2 ^ 53)
    (hdiv : ∀ i j, i < c → j < n → ∃ z : ℤ,
      (column (everyNth c i obs) j).sum = ((everyNth c i obs).length : ℚ) * z) :
    flPhaseMeanLoop ops64 c n obs = phaseMeanLoop c n obs
      ∧ flAnomalyOf ops64 c n obs = anomalyOf c n obs :=
  ⟨flPhaseMeanLoop_exact_on_integers c n B obs h hint
      (lt_of_le_of_lt (Nat.mul_le_mul_right B (Nat.le_succ _)) hB) hdiv,
   flAnomalyOf_exact_on_integers c n B obs hc h hint hB hdiv⟩

example : flPhaseMeanLoop ops64 2 1 [[2], [4], [6], [8]] = phaseMeanLoop 2 1 [[2], [4], [6], [8]]
    ∧ flAnomalyOf ops64 2 1 [[2], [4], [6], [8]] = [[-2], [-2], [2], [2]] := by
  decide +kernel

/-! ### the comparisons of `set_window` in `float32` (NumPy 2: a Python-float bound is converted to
the grid's `float32`) -/

/-- **on `float32` numbers the `float32` comparison is the exact comparison**: if the coordinates
of the full grid and the six window bounds are binary32 numbers, `Data.set_window` with every
comparison carried out in `float32` (`applyWindow32`) selects exactly what the exact model
(`applyWindow`, §1–§3) selects — the interpretation assumption "coordinates and bounds are
float32-exact" is the hypothesis of this theorem, under which all window theorems apply to the
code as executed -/
theorem float32_comparison_exact (full : View) (w : Win) (hw : w.IsF32)
    (ht : ∀ t ∈ full.time, IsF32 t) (hla : ∀ t ∈ full.lat, IsF32 t) (hlo : ∀ t ∈ full.lon, IsF32 t) :
    applyWindow32 full w = applyWindow full w := applyWindow32_eq full w hw ht hla hlo

/-- the same for the object: `set_window` as executed is `Obj.setWindow` -/
theorem setWindow32_eq_setWindow (o : Obj) (w : Win) (hw : w.IsF32)
    (ht : ∀ t ∈ o.full.time, IsF32 t) (hla : ∀ t ∈ o.full.lat, IsF32 t)
    (hlo : ∀ t ∈ o.full.lon, IsF32 t) : o.setWindow32 w = o.setWindow w := by
  unfold Obj.setWindow32 Obj.setWindow Obj.dataSetWindow
  rw [applyWindow32_eq o.full w hw ht hla hlo]
  cases applyWindow o.full w <;> rfl

/-- **the hypothesis is needed** (counter-model; the reason for the interpretation decision): the
Python float `1 + 2⁻³⁰` is not a binary32 number and is converted to `1.0f`, so the window
`[1 + 2⁻³⁰, 5/2]` on the time stamps `1, 2, 3` exposes the sample at `t = 1`, which lies outside
the requested closed window -/
theorem float32_bound_rounding_changes_selection :
    let full : View := ⟨[1, 2, 3], [0], [0], [[10], [20], [30]]⟩
    let w : Win := ⟨1 + 1 / 2 ^ 30, 5 / 2, 0, 0, 0, 0⟩
    (applyWindow32 full w).map (·.time) = some [1, 2]
      ∧ (applyWindow full w).map (·.time) = some [2] := by
  decide +kernel

example : IsF32 (5 / 2) ∧ IsF32 (-(1 / 8)) :=
  ⟨⟨5, -1, false, by norm_num, by norm_num⟩, ⟨1, -3, true, by norm_num, by norm_num⟩⟩

/-- non-vacuity / the model really rounds: `1 + 2⁻⁵³` is a tie and goes to the even neighbour `1`,
`1/3` is not representable, a representable sum is returned exactly; in binary32 `1 + 2⁻²⁴` is the tie -/
example : ops64.add 1 (1 / 2 ^ 53) = 1 ∧ ops64.div 1 3 ≠ 1 / 3 ∧ ops64.add (3 / 2) (-1 / 4) = 5 / 4
    ∧ ops32.add 1 (1 / 2 ^ 24) = 1 ∧ ops32.add 1 (3 / 2 ^ 24) = 1 + 1 / 2 ^ 22
    ∧ ops32.div 1 3 ≠ ops64.div 1 3 := by
  decide +kernel

example : flPhaseMeanLoop ops64 2 1 [[1], [1 / 3], [1 / 2 ^ 53]]
    = [some [1 / 2], some [ops64.div (1 / 3) 1]] := by
  decide +kernel

end Pyunicorn.Window
