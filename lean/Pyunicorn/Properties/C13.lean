import Pyunicorn.Lemmas.Window
/-!
# C13 — Data windows select exactly the requested samples; anomalies sum

Statements about the model `Pyunicorn.Window` of `Data.set_window`,
`Data.set_global_window`, `ClimateData.phase_indices / phase_mean / anomaly`
and the `_mut_window`-keyed memoisation.  The model is tied to the Python
classes by the history-level correspondence in `harness/c13.py`.
-/
namespace Pyunicorn.Window

/-! ## 1. The window exposes exactly the samples inside the closed window -/

/-- membership of a time stamp in the temporal window: the closed interval, or
everything if the two bounds coincide -/
def timeIn (w : Win) (t : Rat) : Bool :=
  decide (w.tmin = w.tmax) || inRange w.tmin w.tmax t

/-- membership of a node `(lat, lon)` in the spatial window: the closed box, or
everything if the latitude or the longitude bounds coincide (documented
convention of `set_window`) -/
def nodeIn (w : Win) (p : Rat × Rat) : Bool :=
  decide (w.latmin = w.latmax ∨ w.lonmin = w.lonmax) || inBox w p.1 p.2

/-- `inRange` is the closed interval -/
theorem inRange_iff (lo hi x : Rat) : inRange lo hi x = true ↔ lo ≤ x ∧ x ≤ hi := by
  simp [inRange]

/-- `inBox` is the closed box -/
theorem inBox_iff (w : Win) (la lo : Rat) :
    inBox w la lo = true ↔ (w.latmin ≤ la ∧ la ≤ w.latmax) ∧ (w.lonmin ≤ lo ∧ lo ≤ w.lonmax) := by
  simp [inBox, inRange]

theorem timeMask_eq (w : Win) (time : Vec) : timeMask w time = time.map (timeIn w) := by
  unfold timeMask timeIn
  by_cases h : w.tmin = w.tmax
  · simp only [h, if_true, decide_true, Bool.true_or]
    exact (List.map_const' ..).symm
  · simp [h]

theorem spaceMask_eq (w : Win) (lat lon : Vec) (h : lat.length = lon.length) :
    spaceMask w lat lon = (lat.zip lon).map (nodeIn w) := by
  unfold spaceMask nodeIn
  by_cases hd : w.latmin = w.latmax ∨ w.lonmin = w.lonmax
  · simp only [hd, if_true, decide_true, Bool.true_or]
    rw [List.map_const']
    simp [h]
  · simp only [hd, if_false, decide_false, Bool.false_or]
    simp [List.zip_eq_zipWith, List.map_zipWith]

/-- well-formed data: `observable.shape = (len(time), len(lat))`, `len(lat) = len(lon)` -/
structure View.WF (v : View) : Prop where
  rows : v.obs.length = v.time.length
  cols : ∀ r ∈ v.obs, r.length = v.lat.length
  latlon : v.lat.length = v.lon.length


/-- the components of the view a window produces -/
theorem applyWindow_some (full : View) (w : Win) (v : View) (h : applyWindow full w = some v) :
    v.time = select (timeMask w full.time) full.time
    ∧ v.lat = select (spaceMask w full.lat full.lon) full.lat
    ∧ v.lon = select (spaceMask w full.lat full.lon) full.lon
    ∧ v.obs = (select (timeMask w full.time) full.obs).map
        (select (spaceMask w full.lat full.lon))
    ∧ v.time ≠ [] ∧ v.lat ≠ [] := by
  unfold applyWindow at h
  simp only at h
  split at h
  · exact absurd h (by simp)
  · rename_i hne
    simp only [Bool.or_eq_true, not_or, List.isEmpty_iff] at hne
    have := Option.some.inj h
    subst this
    exact ⟨rfl, rfl, rfl, rfl, hne.1, hne.2⟩

/-- **the window selects exactly the requested samples**: the exposed time axis
is the sub-sequence of the time stamps inside the window, the exposed nodes are
the nodes inside the window, and the exposed observable consists of exactly the
rows of the selected time stamps, each restricted to the selected nodes (order
preserved, nothing else). -/
theorem window_selects_exactly (full : View) (w : Win) (v : View) (hwf : full.WF)
    (h : applyWindow full w = some v) :
    v.time = full.time.filter (timeIn w)
    ∧ v.lat.zip v.lon = (full.lat.zip full.lon).filter (nodeIn w)
    ∧ v.time.zip v.obs
        = ((full.time.zip full.obs).filter (fun p => timeIn w p.1)).map fun p =>
            (p.1, (((full.lat.zip full.lon).zip p.2).filter (fun q => nodeIn w q.1)).map Prod.snd) := by
  obtain ⟨ht, hla, hlo, hobs, _, _⟩ := applyWindow_some full w v h
  refine ⟨?_, ?_, ?_⟩
  · rw [ht, timeMask_eq, select_map_eq_filter]
  · rw [hla, hlo, ← select_zip, spaceMask_eq _ _ _ hwf.latlon, select_map_eq_filter]
  · rw [ht, hobs, List.zip_map_right, ← select_zip, timeMask_eq, select_map_zip_self,
      spaceMask_eq _ _ _ hwf.latlon]
    apply List.map_congr_left
    intro p _
    simp only [Prod.map, id, select_map_zip]

/-- the error branch: `set_window` raises iff no time stamp or no node lies in the window -/
theorem window_rejected_iff (full : View) (w : Win) (hwf : full.WF) :
    applyWindow full w = none
      ↔ full.time.filter (timeIn w) = [] ∨ (full.lat.zip full.lon).filter (nodeIn w) = [] := by
  have e1 : select (timeMask w full.time) full.time = full.time.filter (timeIn w) := by
    rw [timeMask_eq, select_map_eq_filter]
  have e2 : (select (spaceMask w full.lat full.lon) full.lat).zip
      (select (spaceMask w full.lat full.lon) full.lon)
      = (full.lat.zip full.lon).filter (nodeIn w) := by
    rw [← select_zip, spaceMask_eq _ _ _ hwf.latlon, select_map_eq_filter]
  have e3 : select (spaceMask w full.lat full.lon) full.lat = []
      ↔ (full.lat.zip full.lon).filter (nodeIn w) = [] := by
    rw [← e2]
    constructor
    · intro hx; simp [hx]
    · intro hz
      have hl := select_length_eq (spaceMask w full.lat full.lon) full.lat full.lon hwf.latlon
      have := congrArg List.length hz
      simp only [List.length_zip, List.length_nil, ← hl, Nat.min_self] at this
      exact List.eq_nil_of_length_eq_zero this
  unfold applyWindow
  simp only [Bool.or_eq_true, List.isEmpty_iff, e1]
  constructor
  · intro hn
    split at hn
    · rename_i hc
      rcases hc with hc | hc
      · exact Or.inl hc
      · exact Or.inr (e3.mp hc)
    · exact absurd hn (by simp)
  · intro hc
    rw [if_pos]
    rcases hc with hc | hc
    · exact Or.inl hc
    · exact Or.inr (e3.mpr hc)

/-! ## 2. Shapes agree -/

/-- observable and grid of a windowed view have matching shapes -/
theorem window_shapes_agree (full : View) (w : Win) (v : View) (hwf : full.WF)
    (h : applyWindow full w = some v) : v.WF := by
  obtain ⟨ht, hla, hlo, hobs, _, _⟩ := applyWindow_some full w v h
  refine ⟨?_, ?_, ?_⟩
  · rw [hobs, ht, List.length_map]
    exact select_length_eq _ _ _ hwf.rows
  · intro r hr
    rw [hobs] at hr
    obtain ⟨r0, hr0, rfl⟩ := List.mem_map.mp hr
    rw [hla]
    exact select_length_eq _ _ _ (hwf.cols r0 (mem_select _ _ _ hr0))
  · rw [hla, hlo]
    exact select_length_eq _ _ _ hwf.latlon

/-! ## 3. The global window restores the original view -/

/-- `set_global_window` exposes the full data set again (and cannot raise on
non-empty data) -/
theorem global_window_is_full (full : View) (hwf : full.WF) (h1 : full.time ≠ [])
    (h2 : full.lat ≠ []) : applyWindow full globalWin = some full := by
  have et : timeMask globalWin full.time = List.replicate full.time.length true := by
    simp [timeMask, globalWin]
  have es : spaceMask globalWin full.lat full.lon = List.replicate full.lat.length true := by
    simp [spaceMask, globalWin]
  unfold applyWindow
  simp only [et, es, select_replicate_true]
  have e1 : select (List.replicate full.lat.length true) full.lon = full.lon := by
    rw [hwf.latlon]; exact select_replicate_true _
  have e2 : select (List.replicate full.time.length true) full.obs = full.obs := by
    rw [← hwf.rows]; exact select_replicate_true _
  have e3 : full.obs.map (select (List.replicate full.lat.length true)) = full.obs := by
    conv => rhs; rw [← List.map_id full.obs]
    apply List.map_congr_left
    intro r hr
    rw [← hwf.cols r hr]; exact select_replicate_true _
  rw [e1, e2, e3]
  have : (full.time.isEmpty || full.lat.isEmpty) = false := by
    simp [h1, h2]
  rw [this]
  rfl


/-! ## 3b. `window()` reports the bounding box of the exposed samples -/

/-- every entry of `window()` is attained by an exposed sample and bounds all of them -/
theorem window_is_bounding_box (v : View) (b : List Rat) (h : boundaries v = some b) :
    ∃ t0 t1 la0 la1 lo0 lo1, b = [t0, t1, la0, la1, lo0, lo1]
      ∧ (t0 ∈ v.time ∧ ∀ t ∈ v.time, t0 ≤ t) ∧ (t1 ∈ v.time ∧ ∀ t ∈ v.time, t ≤ t1)
      ∧ (la0 ∈ v.lat ∧ ∀ x ∈ v.lat, la0 ≤ x) ∧ (la1 ∈ v.lat ∧ ∀ x ∈ v.lat, x ≤ la1)
      ∧ (lo0 ∈ v.lon ∧ ∀ x ∈ v.lon, lo0 ≤ x) ∧ (lo1 ∈ v.lon ∧ ∀ x ∈ v.lon, x ≤ lo1) := by
  unfold boundaries at h
  cases h1 : vmin v.time with
  | none => simp [h1] at h
  | some t0 =>
  cases h2 : vmax v.time with
  | none => simp [h1, h2] at h
  | some t1 =>
  cases h3 : vmin v.lat with
  | none => simp [h1, h2, h3] at h
  | some la0 =>
  cases h4 : vmax v.lat with
  | none => simp [h1, h2, h3, h4] at h
  | some la1 =>
  cases h5 : vmin v.lon with
  | none => simp [h1, h2, h3, h4, h5] at h
  | some lo0 =>
  cases h6 : vmax v.lon with
  | none => simp [h1, h2, h3, h4, h5, h6] at h
  | some lo1 =>
  simp [h1, h2, h3, h4, h5, h6] at h
  exact ⟨t0, t1, la0, la1, lo0, lo1, h.symm, vmin_spec _ _ h1, vmax_spec _ _ h2,
    vmin_spec _ _ h3, vmax_spec _ _ h4, vmin_spec _ _ h5, vmax_spec _ _ h6⟩

/-- the reported temporal window lies inside the requested closed window -/
theorem window_inside_requested (full : View) (w : Win) (v : View) (hwf : full.WF)
    (h : applyWindow full w = some v) (hnd : w.tmin ≠ w.tmax) (b : List Rat)
    (hb : boundaries v = some b) :
    ∃ t0 t1 rest, b = t0 :: t1 :: rest ∧ w.tmin ≤ t0 ∧ t1 ≤ w.tmax := by
  obtain ⟨t0, t1, la0, la1, lo0, lo1, rfl, ⟨m0, _⟩, ⟨m1, _⟩, _⟩ := window_is_bounding_box v b hb
  have ht := (window_selects_exactly full w v hwf h).1
  rw [ht] at m0 m1
  have k0 := (List.mem_filter.mp m0).2
  have k1 := (List.mem_filter.mp m1).2
  simp only [timeIn, hnd, decide_false, Bool.false_or, inRange_iff] at k0 k1
  exact ⟨t0, t1, _, rfl, k0.1, k1.2⟩

/-! ## 4. Derived series: shapes -/

/-- `anomaly()` (computed branch) has the shape of the observable, for every cycle length -/
theorem anomaly_shape (c n : Nat) (obs : Mat) (h : ∀ r ∈ obs, r.length = n) :
    (anomalyOf c n obs).length = obs.length ∧ ∀ r ∈ anomalyOf c n obs, r.length = n := by
  by_cases hc : c = 0
  · subst hc
    simp [anomalyOf, zeros]
  · rw [anomalyOf_closed c n obs (by omega)]
    refine ⟨by simp, ?_⟩
    intro r hr
    obtain ⟨t, ht, rfl⟩ := List.getElem_of_mem hr
    simp only [List.length_zipWith, List.length_range, Nat.min_self] at ht
    simp only [List.getElem_zipWith]
    rw [vsub_length _ _ (by rw [meanRow_length c n obs _ h, h _ (List.getElem_mem _)])]
    exact h _ (List.getElem_mem _)

/-- `phase_mean()` has `time_cycle` rows; every finite row has one entry per node -/
theorem phaseMean_shape (c n : Nat) (obs : Mat) (h : ∀ r ∈ obs, r.length = n) :
    (phaseMean c n obs).length = c
    ∧ ∀ v, some v ∈ phaseMean c n obs → v.length = n := by
  refine ⟨by simp [phaseMean], ?_⟩
  intro v hv
  simp only [phaseMean, List.mem_map, List.mem_range] at hv
  obtain ⟨i, _, hi⟩ := hv
  unfold colMean at hi
  split at hi
  · exact absurd hi (by simp)
  · have := Option.some.inj hi
    subst this
    simp only [List.length_map]
    exact colSum_length n _ (fun r hr => h r (mem_everyNth _ _ _ _ hr))

/-- a phase has a finite mean iff it has a sample, i.e. iff its number is below
the record length (cycle lengths exceeding the record leave NaN rows) -/
theorem phaseMean_finite_iff (c n : Nat) (obs : Mat) (i : Nat) (hi : i < c) :
    (phaseMean c n obs)[i]? = some none ↔ obs.length ≤ i := by
  have hc : 0 < c := by omega
  simp only [phaseMean, List.getElem?_map, List.getElem?_range hi, Option.map_some,
    Option.some.injEq]
  unfold colMean
  constructor
  · intro h
    split at h
    · rename_i he
      apply Nat.le_of_not_lt
      intro hlt
      have := everyNth_phase_ne_nil c hc obs i hlt
      rw [Nat.mod_eq_of_lt hi] at this
      exact this (List.isEmpty_iff.mp he)
    · exact absurd h (by simp)
  · intro h
    have : everyNth c i obs = [] := by
      rw [everyNth_eq_select, hitMask_phase c i _ hi]
      apply select_all_false
      intro b hb
      obtain ⟨t, ht, rfl⟩ := List.mem_map.mp hb
      have := List.mem_range.mp ht
      have : t % c ≤ t := Nat.mod_le _ _
      simp; omega
    simp [this]

/-- `phase_indices()` is defined for every positive cycle length (`time_cycle = 0`
raises `ZeroDivisionError`) -/
theorem phaseIndices_defined (c T : Nat) : (phaseIndices c T).isSome ↔ 0 < c := by
  unfold phaseIndices
  by_cases h : c = 0 <;> simp [h]; omega

/-- `phase_indices()`: `time_cycle` rows of `⌊T / time_cycle⌋` indices each; row `i`
lists the indices `i, i + c, …` of the complete years, all inside the record -/
theorem phaseIndices_shape (c T : Nat) (hc : 0 < c) (pi : List (List Nat))
    (h : phaseIndices c T = some pi) :
    pi.length = c
      ∧ ∀ i (hi : i < pi.length), (pi[i]).length = T / c
        ∧ ∀ y (hy : y < (pi[i]).length), (pi[i])[y] = i + y * c ∧ (pi[i])[y] < T
            ∧ (pi[i])[y] % c = i := by
  simp only [phaseIndices, Nat.ne_of_gt hc, if_false, Option.some.injEq] at h
  subst h
  refine ⟨by simp, ?_⟩
  intro i hi
  simp only [List.length_map, List.length_range] at hi
  refine ⟨by simp, ?_⟩
  intro y hy
  simp only [List.getElem_map, List.getElem_range, List.length_map, List.length_range] at hy ⊢
  refine ⟨trivial, ?_, ?_⟩
  · have h1 : (y + 1) * c ≤ (T / c) * c := Nat.mul_le_mul_right c hy
    have h2 : (T / c) * c ≤ T := Nat.div_mul_le_self T c
    rw [Nat.succ_mul] at h1
    omega
  · rw [Nat.add_mul_mod_self_right, Nat.mod_eq_of_lt hi]


/-- `indices_selected_phases(sel)` (all phases valid): the result is sorted and is a
rearrangement of the complete-year indices `p, p + c, …` of the selected phases (with
multiplicity); in particular all indices address existing rows of `anomaly()` -/
theorem selected_indices_spec (c T : Nat) (hc : 0 < c) (sel : List Nat) (hs : ∀ p ∈ sel, p < c) :
    ∃ idx, indicesSelectedPhases c T sel = .ok idx
      ∧ idx.Pairwise (· ≤ ·)
      ∧ idx.Perm ((sel.map fun p => (List.range (T / c)).map fun y => p + y * c).flatten)
      ∧ ∀ t ∈ idx, t < T := by
  have hall : sel.all (· < c) = true := by
    simp only [List.all_eq_true, decide_eq_true_eq]; exact hs
  have hrows : (sel.map fun p => ((List.range c).map fun i =>
        (List.range (T / c)).map fun y => i + y * c).getD p [])
      = sel.map fun p => (List.range (T / c)).map fun y => p + y * c := by
    apply List.map_congr_left
    intro p hp
    simp [List.getD, List.getElem?_map, List.getElem?_range (hs p hp)]
  refine ⟨_, by simp only [indicesSelectedPhases, phaseIndices, Nat.ne_of_gt hc, if_false, hall,
    if_true, hrows], sortNat_sorted _, sortNat_perm _, ?_⟩
  intro t ht
  have ht' := (sortNat_perm _).mem_iff.mp ht
  simp only [List.mem_flatten, List.mem_map] at ht'
  obtain ⟨row, ⟨p, hp, rfl⟩, htrow⟩ := ht'
  simp only [List.mem_map, List.mem_range] at htrow
  obtain ⟨y, hy, rfl⟩ := htrow
  have h1 : (y + 1) * c ≤ (T / c) * c := Nat.mul_le_mul_right c hy
  have h2 : (T / c) * c ≤ T := Nat.div_mul_le_self T c
  have := hs p hp
  rw [Nat.succ_mul] at h1
  omega

/-! ## 5. Anomalies add back to the observable and have zero phase means -/

/-- **`anomaly + phase_mean[phase] = observable`** for every cycle length `c ≥ 1`
(dividing the record or not, also `c > T`): every sample `t` of the record
belongs to phase `t % c`, that phase has a finite mean row `m`, and the anomaly
row plus `m` is the observable row. -/
theorem anomaly_add_phase_mean (c n : Nat) (obs : Mat) (hc : 0 < c)
    (h : ∀ r ∈ obs, r.length = n) (t : Nat) (ht : t < obs.length) :
    ∃ m a, (phaseMean c n obs)[t % c]? = some (some m)
      ∧ (anomalyOf c n obs)[t]? = some a
      ∧ vadd a m = obs[t] := by
  refine ⟨meanRow c n obs (t % c), vsub obs[t] (meanRow c n obs (t % c)), ?_, ?_, ?_⟩
  · simp only [phaseMean, List.getElem?_map, List.getElem?_range (Nat.mod_lt t hc),
      Option.map_some]
    rw [colMean_of_ne_nil n _ (everyNth_phase_ne_nil c hc obs t ht)]
    rfl
  · rw [anomalyOf_closed c n obs hc]
    simp [ht]
  · exact vadd_vsub_cancel _ _ (by rw [meanRow_length c n obs _ h, h _ (List.getElem_mem _)])

/-- the slice of phase `i` of the anomaly = the slice of the observable minus its mean row -/
theorem anomaly_phase_slice (c n : Nat) (obs : Mat) (hc : 0 < c) (i : Nat) (hi : i < c) :
    everyNth c i (anomalyOf c n obs)
      = (everyNth c i obs).map (vsub · (meanRow c n obs i)) := by
  rw [anomalyOf_closed c n obs hc, everyNth_eq_select, everyNth_eq_select]
  simp only [List.length_zipWith, List.length_range, Nat.min_self]
  rw [hitMask_phase c i _ hi]
  exact select_key_zipWith (fun t => t % c) i (fun p x => vsub x (meanRow c n obs p)) _ _

/-- **zero sum in every phase of the cycle** -/
theorem anomaly_phase_sum_zero (c n : Nat) (obs : Mat) (hc : 0 < c)
    (h : ∀ r ∈ obs, r.length = n) (i : Nat) (hi : i < c) :
    colSum n (everyNth c i (anomalyOf c n obs)) = zeros n := by
  rw [anomaly_phase_slice c n obs hc i hi]
  by_cases he : everyNth c i obs = []
  · simp [he, colSum]
  · exact colSum_deviations n _ (fun r hr => h r (mem_everyNth _ _ _ _ hr)) he

/-- **zero mean in every (non-empty) phase of the cycle**: `anomaly()[i::c].mean(axis=0) = 0` -/
theorem anomaly_phase_mean_zero (c n : Nat) (obs : Mat) (hc : 0 < c)
    (h : ∀ r ∈ obs, r.length = n) (i : Nat) (hi : i < c) (hT : i < obs.length) :
    colMean n (everyNth c i (anomalyOf c n obs)) = some (zeros n) := by
  have hne : everyNth c i obs ≠ [] := by
    have := everyNth_phase_ne_nil c hc obs i hT
    rwa [Nat.mod_eq_of_lt hi] at this
  have hne' : everyNth c i (anomalyOf c n obs) ≠ [] := by
    rw [anomaly_phase_slice c n obs hc i hi]
    simpa using hne
  rw [colMean_of_ne_nil n _ hne', anomaly_phase_sum_zero c n obs hc h i hi]
  simp only [zeros, List.map_replicate, Option.some.injEq]
  congr 1
  grind

/-! ## 6. The object: every history of window changes, queries and evictions -/

/-- invariant of `ClimateData` objects -/
structure Obj.Inv (o : Obj) : Prop where
  fullWF : o.full.WF
  fullT : o.full.time ≠ []
  fullN : o.full.lat ≠ []
  curWF : o.cur.WF
  /-- a memoised `phase_mean` stored under the current `_mut_window` is the value
  for the current window; no entry is keyed by a future counter -/
  pm : ∀ e ∈ o.pmCache, e.1 ≤ o.ver ∧ (e.1 = o.ver → e.2 = o.phaseMeanFresh)
  an : ∀ e ∈ o.anCache, e.1 ≤ o.ver ∧ (e.1 = o.ver → e.2 = o.anomalyFresh)

/-- a freshly constructed object satisfies the invariant -/
theorem init_inv (full : View) (c : Nat) (a : Bool) (w : Option Win) (o : Obj)
    (hwf : full.WF) (h : Obj.init full c a w = some o) : o.Inv ∧ o.full = full := by
  unfold Obj.init at h
  split at h
  · exact absurd h (by simp)
  · rename_i v hv
    have := Option.some.inj h
    subst this
    obtain ⟨ht, hla, _, _, hT, hN⟩ := applyWindow_some full _ v hv
    refine ⟨⟨hwf, ?_, ?_, window_shapes_agree full _ v hwf hv, by simp, by simp⟩, rfl⟩
    · intro hf; apply hT; rw [ht, hf, select_nil_right]
    · intro hf; apply hN; rw [hla, hf, select_nil_right]

/-- a rejected window (`ValueError`) leaves the object exactly as it was -/
theorem rejected_window_keeps_state (o : Obj) (w : Win) (h : (o.setWindow w).1 = true) :
    (o.setWindow w).2 = o := by
  unfold Obj.setWindow at h ⊢
  split
  · rfl
  · rename_i v hv; simp [hv] at h

theorem setWindow_inv (o : Obj) (w : Win) (hi : o.Inv) : (o.setWindow w).2.Inv := by
  unfold Obj.setWindow
  split
  · exact hi
  · rename_i v hv
    refine ⟨hi.fullWF, hi.fullT, hi.fullN, window_shapes_agree _ _ _ hi.fullWF hv, ?_, ?_⟩
    · intro e he
      have := (hi.pm e he).1
      exact ⟨by simp only; omega, by simp only; omega⟩
    · intro e he
      have := (hi.an e he).1
      exact ⟨by simp only; omega, by simp only; omega⟩

theorem setWindow_fields (o : Obj) (w : Win) :
    (o.setWindow w).2.full = o.full ∧ (o.setWindow w).2.cycle = o.cycle
      ∧ (o.setWindow w).2.anom = o.anom := by
  unfold Obj.setWindow
  split <;> simp

theorem setGlobal_inv (o : Obj) (hi : o.Inv) : o.setGlobal.2.Inv := by
  have h1 := setWindow_inv o globalWin hi
  unfold Obj.setGlobal
  split
  · rename_i o' heq
    have : (o.setWindow globalWin).2 = o' := by rw [heq]
    rw [← this]; exact h1
  · rename_i o' heq
    have e : (o.setWindow globalWin).2 = o' := by rw [heq]
    rw [e] at h1
    refine ⟨h1.fullWF, h1.fullT, h1.fullN, h1.curWF, ?_, ?_⟩
    · intro x hx
      have := (h1.pm x hx).1
      exact ⟨by simp only; omega, by simp only; omega⟩
    · intro x hx
      have := (h1.an x hx).1
      exact ⟨by simp only; omega, by simp only; omega⟩

theorem step_inv (o : Obj) (op : Op) (hi : o.Inv) : (o.step op).Inv := by
  cases op with
  | setWindow w => exact setWindow_inv o w hi
  | setGlobal => exact setGlobal_inv o hi
  | qPhaseMean =>
    simp only [Obj.step, Obj.phaseMeanQ]
    split
    · exact hi
    · refine ⟨hi.fullWF, hi.fullT, hi.fullN, hi.curWF, ?_, hi.an⟩
      intro e he
      simp only [List.mem_cons] at he
      rcases he with rfl | he
      · exact ⟨Nat.le_refl _, fun _ => rfl⟩
      · exact hi.pm e he
  | qAnomaly =>
    simp only [Obj.step, Obj.anomalyQ]
    split
    · exact hi
    · refine ⟨hi.fullWF, hi.fullT, hi.fullN, hi.curWF, hi.pm, ?_⟩
      intro e he
      simp only [List.mem_cons] at he
      rcases he with rfl | he
      · exact ⟨Nat.le_refl _, fun _ => rfl⟩
      · exact hi.an e he
  | evict keep =>
    simp only [Obj.step, Obj.evict]
    refine ⟨hi.fullWF, hi.fullT, hi.fullN, hi.curWF, ?_, ?_⟩
    · intro e he; exact hi.pm e (List.mem_filter.mp he).1
    · intro e he; exact hi.an e (List.mem_filter.mp he).1

theorem step_fields (o : Obj) (op : Op) :
    (o.step op).full = o.full ∧ (o.step op).cycle = o.cycle ∧ (o.step op).anom = o.anom := by
  cases op with
  | setWindow w => exact setWindow_fields o w
  | setGlobal =>
    have := setWindow_fields o globalWin
    simp only [Obj.step, Obj.setGlobal]
    split
    · rename_i o' heq
      have e : (o.setWindow globalWin).2 = o' := by rw [heq]
      rw [← e]; exact this
    · rename_i o' heq
      have e : (o.setWindow globalWin).2 = o' := by rw [heq]
      rw [e] at this; exact this
  | qPhaseMean => simp only [Obj.step, Obj.phaseMeanQ]; split <;> simp
  | qAnomaly => simp only [Obj.step, Obj.anomalyQ]; split <;> simp
  | evict keep => simp [Obj.step, Obj.evict]

/-- the invariant holds after **every history** -/
theorem run_inv (o : Obj) (ops : List Op) (hi : o.Inv) : (o.run ops).Inv := by
  induction ops generalizing o with
  | nil => exact hi
  | cons op ops ih => exact ih (o.step op) (step_inv o op hi)

/-- no operation touches the full data set, the cycle length or the flag -/
theorem run_fields (o : Obj) (ops : List Op) :
    (o.run ops).full = o.full ∧ (o.run ops).cycle = o.cycle ∧ (o.run ops).anom = o.anom := by
  induction ops generalizing o with
  | nil => exact ⟨rfl, rfl, rfl⟩
  | cons op ops ih =>
    have h1 := ih (o.step op)
    have h2 := step_fields o op
    simp only [Obj.run, List.foldl_cons] at h1 ⊢
    exact ⟨h1.1.trans h2.1, h1.2.1.trans h2.2.1, h1.2.2.trans h2.2.2⟩

/-- **derived series follow every window change**: whatever the history, the
(memoised) `phase_mean()` and `anomaly()` are the values computed from the
current window -/
theorem queries_follow_window (o : Obj) (ops : List Op) (hi : o.Inv) :
    (o.run ops).phaseMeanQ.1 = (o.run ops).phaseMeanFresh
    ∧ (o.run ops).anomalyQ.1 = (o.run ops).anomalyFresh := by
  have h := run_inv o ops hi
  generalize o.run ops = o' at h
  constructor
  · unfold Obj.phaseMeanQ
    split
    · rename_i v hv
      exact (h.pm _ (lookup_mem _ _ _ hv)).2 rfl
    · rfl
  · unfold Obj.anomalyQ
    split
    · rename_i v hv
      exact (h.an _ (lookup_mem _ _ _ hv)).2 rfl
    · rfl

/-- **restoring the global window restores the original view**, after every history -/
theorem global_restores (o : Obj) (ops : List Op) (hi : o.Inv) :
    (o.run ops).setGlobal.1 = false ∧ (o.run ops).setGlobal.2.cur = o.full := by
  have h := run_inv o ops hi
  have hf := (run_fields o ops).1
  generalize o.run ops = o' at h hf
  have hg := global_window_is_full o'.full h.fullWF h.fullT h.fullN
  simp only [Obj.setGlobal, Obj.setWindow, hg]
  exact ⟨trivial, hf⟩

/-- **matching shapes of observable, grid and every derived series**, after every
history and for both settings of the `anomalies` flag -/
theorem shapes_agree (o : Obj) (ops : List Op) (hi : o.Inv) :
    let o' := o.run ops
    let T := o'.cur.time.length
    let N := o'.cur.lat.length
    o'.cur.obs.length = T ∧ (∀ r ∈ o'.cur.obs, r.length = N) ∧ o'.cur.lon.length = N
    ∧ o'.anomalyQ.1.length = T ∧ (∀ r ∈ o'.anomalyQ.1, r.length = N)
    ∧ o'.phaseMeanQ.1.length = o'.cycle ∧ (∀ v, some v ∈ o'.phaseMeanQ.1 → v.length = N) := by
  intro o' T N
  have h := run_inv o ops hi
  have hq := queries_follow_window o ops hi
  rw [hq.1, hq.2]
  have hs := anomaly_shape o'.cycle N o'.cur.obs h.curWF.cols
  have hp := phaseMean_shape o'.cycle N o'.cur.obs h.curWF.cols
  refine ⟨h.curWF.rows, h.curWF.cols, h.curWF.latlon.symm, ?_, ?_, hp.1, hp.2⟩
  · unfold Obj.anomalyFresh
    split
    · exact h.curWF.rows
    · exact hs.1.trans h.curWF.rows
  · unfold Obj.anomalyFresh
    split
    · exact h.curWF.cols
    · exact hs.2

/-- with `anomalies = True` the anomaly is the windowed observable itself -/
theorem anomaly_of_anomalies (o : Obj) (ops : List Op) (hi : o.Inv) (ha : o.anom = true) :
    (o.run ops).anomalyQ.1 = (o.run ops).cur.obs := by
  rw [(queries_follow_window o ops hi).2]
  unfold Obj.anomalyFresh
  rw [(run_fields o ops).2.2, ha]
  rfl


/-! ## 7. Non-vacuity: concrete states satisfying the hypotheses -/

/-- 7 time stamps, 3 irregular nodes -/
def exFull : View :=
  ⟨[0, 1, 2, 3, 4, 5, 6], [0, 5, 10], [3, 1, 2],
   [[0, 12, 24], [12, 24, 36], [24, 0, 12], [36, 12, 0], [48, 60, 0], [12, 12, 12], [0, 0, 12]]⟩

theorem exFull_wf : exFull.WF := ⟨by decide, by decide, by decide⟩

/-- a window with boundaries on samples keeps the boundary samples (closed window) -/
example : applyWindow exFull ⟨1, 5, 0, 5, 1, 3⟩
    = some ⟨[1, 2, 3, 4, 5], [0, 5], [3, 1],
        [[12, 24], [24, 0], [36, 12], [48, 60], [12, 12]]⟩ := by decide +kernel
/-- coinciding time bounds: the full time range; coinciding longitude bounds: all nodes -/
example : applyWindow exFull ⟨2, 2, 0, 5, 7, 7⟩ = some exFull := by decide +kernel
/-- an empty selection is rejected -/
example : applyWindow exFull ⟨10, 11, 0, 0, 0, 0⟩ = none := by decide +kernel
/-- a cycle length that does not divide the record (7 = 2·3 + 1) -/
example : anomalyOf 3 1 [[0], [12], [24], [36], [48], [12], [0]]
    = [[-12], [-18], [6], [24], [18], [-6], [-12]] := by decide +kernel
example : phaseMean 3 1 [[0], [12], [24], [36], [48], [12], [0]]
    = [some [12], some [30], some [18]] := by decide +kernel
/-- a cycle longer than the record: NaN rows for the phases without sample -/
example : phaseMean 3 1 [[4], [6]] = [some [4], some [6], none] := by decide +kernel
example : phaseIndices 3 7 = some [[0, 3], [1, 4], [2, 5]] := by decide +kernel
example : indicesSelectedPhases 3 7 [2, 0] = .ok [0, 2, 3, 5] := by decide +kernel
/-- the invariant is satisfiable: any constructed object has it -/
example : ∃ o, Obj.init exFull 3 false none = some o ∧ o.Inv := by
  refine ⟨_, rfl, (init_inv exFull 3 false none _ exFull_wf rfl).1⟩
/-- a history with a rejected window, queries before and after, and an eviction -/
example : ∃ o, Obj.init exFull 3 false none = some o ∧
    ((o.run [.qAnomaly, .setWindow ⟨1, 5, 0, 5, 1, 3⟩, .qAnomaly, .setWindow ⟨10, 11, 0, 0, 0, 0⟩,
      .evict (fun _ => false), .qPhaseMean]).anomalyQ.1
      = [[-18, -18], [6, -6], [0, 0], [18, 18], [-6, 6]]) := ⟨_, rfl, by decide +kernel⟩

/-! ## 8. The pinned code (before the `fix:` commits) violated the property

`Data.set_window` assigned `_observable` *before* `GeoGrid(...)` raised for an
empty selection, and `ClimateData.anomaly()` returned `_full_observable` when
`anomalies=True`.  Both counter-models are replayed on the implementation by the
oracle of `harness/c13.py`. -/

/-- the pinned `Data.set_window`: returns `(raised?, view afterwards)` -/
def applyWindowPinned (full cur : View) (w : Win) : Bool × View :=
  let tm := timeMask w full.time
  let sm := spaceMask w full.lat full.lon
  let obs := (select tm full.obs).map (select sm)
  if (select tm full.time).isEmpty || (select sm full.lat).isEmpty
  then (true, { cur with obs := obs })
  else (false, ⟨select tm full.time, select sm full.lat, select sm full.lon, obs⟩)

/-- after a rejected window the pinned object's observable no longer matches its grid -/
theorem pinned_rejected_window_breaks_shapes :
    (applyWindowPinned exFull exFull ⟨10, 11, 0, 0, 0, 0⟩).1 = true
    ∧ ¬ (applyWindowPinned exFull exFull ⟨10, 11, 0, 0, 0, 0⟩).2.WF := by
  refine ⟨by decide +kernel, fun h => ?_⟩
  have := h.rows
  revert this
  decide +kernel

/-- the pinned `anomalies=True` shortcut returned the full observable: wrong shape in a window -/
theorem pinned_anomalies_shortcut_breaks_shapes :
    ∃ v, applyWindow exFull ⟨1, 5, 0, 5, 1, 3⟩ = some v ∧ exFull.obs.length ≠ v.obs.length :=
  ⟨_, rfl, by decide +kernel⟩

end Pyunicorn.Window
