import Pyunicorn.Lemmas.Random
/-!
# C17 — random models and rewirings keep their documented invariants

Statements about the models in `Pyunicorn.Model.Random` of the rewiring /
cross-link kernels of `core/_ext/numerics.pyx` and of `Network.BarabasiAlbert`.
Each model is a function of the state and of the stream of RNG draws; every
theorem is for *all* streams.  The models are tied to the compiled kernels and
to the public methods by the exact correspondence in `harness/c17.py`.
-/
namespace Pyunicorn.Random

/-! ## geographical rewiring (models I, II, III)

`GeoInv n A edges` (Lemmas/Random.lean): `A` is symmetric and loop-free (a simple
undirected graph), `edges` lists every link of `A` exactly once (in one of its
two orientations) with end points `< n`. -/

/-- **one pass through the loop body keeps the graph simple and `edges` its edge
list** — whatever pair of edge indices was drawn, in every mode. -/
theorem geoStep_inv (n : Nat) (c : GeoCfg) (st st' : GeoSt) (d : Nat × Nat)
    (h : geoStep c st d = some st') (inv : GeoInv n st.A st.edges) :
    GeoInv n st'.A st'.edges := by
  rcases geoStep_cases c st st' d h with rfl | ⟨s, t, k, l, hp, hq, e1, e2, acc, rfl⟩
  · exact inv
  · exact geoInv_rewire n c st.A st.edges d.1 d.2 s t k l hp hq e1 e2 acc inv

/-- **one pass through the loop body leaves every node's degree unchanged.** -/
theorem geoStep_deg (n : Nat) (c : GeoCfg) (st st' : GeoSt) (d : Nat × Nat)
    (h : geoStep c st d = some st') (inv : GeoInv n st.A st.edges) (v : Nat) :
    deg st'.A n v = deg st.A n v := by
  rcases geoStep_cases c st st' d h with rfl | ⟨s, t, k, l, hp, hq, e1, e2, acc, rfl⟩
  · rfl
  · obtain ⟨sym, lf, inb, links, -, -⟩ := inv
    have acc' := acc
    simp only [geoAccept, Bool.and_eq_true, bne_iff_ne, ne_eq, Bool.not_eq_true'] at acc'
    obtain ⟨⟨⟨⟨⟨⟨hsk, hsl⟩, htk⟩, htl⟩, hAsl, hAtk⟩, -⟩, -⟩ := acc'
    have hAst : st.A s t = true := by have := links d.1 hp; rw [e1] at this; exact this
    have hAkl : st.A k l = true := by have := links d.2 hq; rw [e2] at this; exact this
    have hst : s ≠ t := by intro h; subst h; rw [lf] at hAst; cases hAst
    have hkl : k ≠ l := by intro h; subst h; rw [lf] at hAkl; cases hAkl
    have b1 := inb d.1 hp; rw [e1] at b1
    have b2 := inb d.2 hq; rw [e2] at b2
    exact deg_rewire st.A n s t k l v hsk hsl htk htl hst hkl b1.1 b1.2 b2.1 b2.2
      hAst (by rw [sym]; exact hAst) hAkl (by rw [sym]; exact hAkl)
      hAsl (by rw [sym]; exact hAsl) hAtk (by rw [sym]; exact hAtk)

/-- **whole run, every stream of draws, every iteration count, every mode**: the
result is again a simple undirected graph whose edge list is `edges`, every
degree is what it was, the number of listed links is unchanged and at most
`iterations` rewirings were made. -/
theorem geoRun_invariants (n : Nat) (c : GeoCfg) (iterations : Nat) (draws : List (Nat × Nat))
    (st st' : GeoSt) (h : geoRun c iterations draws st = some st')
    (inv : GeoInv n st.A st.edges) :
    GeoInv n st'.A st'.edges ∧ (∀ v, deg st'.A n v = deg st.A n v) ∧
      st'.edges.length = st.edges.length ∧ (st.i ≤ iterations → st'.i ≤ iterations) := by
  induction draws generalizing st with
  | nil => simp only [geoRun, Option.some.injEq] at h; subst h; exact ⟨inv, fun _ => rfl, rfl, id⟩
  | cons d ds ih =>
    simp only [geoRun] at h
    split at h
    · rename_i hlt
      cases hs : geoStep c st d with
      | none => simp [hs] at h
      | some st1 =>
        simp only [hs, Option.bind_some] at h
        have inv1 := geoStep_inv n c st st1 d hs inv
        obtain ⟨i1, i2, i3, i4⟩ := ih st1 h inv1
        refine ⟨i1, fun v => by rw [i2 v, geoStep_deg n c st st1 d hs inv v], ?_, ?_⟩
        · rw [i3]
          rcases geoStep_cases c st st1 d hs with rfl | ⟨s, t, k, l, hp, hq, e1, e2, acc, rfl⟩
          · rfl
          · simp
        · intro _
          apply i4
          rcases geoStep_cases c st st1 d hs with rfl | ⟨s, t, k, l, hp, hq, e1, e2, acc, rfl⟩
          · omega
          · simp only; omega
    · simp only [Option.some.injEq] at h; subst h; exact ⟨inv, fun _ => rfl, rfl, id⟩

/-- **the number of links is preserved** (sum of all degrees). -/
theorem geoRun_total (n : Nat) (c : GeoCfg) (iterations : Nat) (draws : List (Nat × Nat))
    (st st' : GeoSt) (h : geoRun c iterations draws st = some st')
    (inv : GeoInv n st.A st.edges) :
    total st'.A n n = total st.A n n := by
  unfold total
  exact rsum_congr n fun v _ => (geoRun_invariants n c iterations draws st st' h inv).2.1 v

/-- **no IndexError**: with `E = len(edges)` every draw `floor(u·E)`, `0 ≤ u < 1`, is a
valid index and the run is defined. -/
theorem geoRun_defined (c : GeoCfg) (iterations : Nat) (draws : List (Nat × Nat)) (st : GeoSt)
    (hd : ∀ d ∈ draws, d.1 < st.edges.length ∧ d.2 < st.edges.length) :
    ∃ st', geoRun c iterations draws st = some st' := by
  induction draws generalizing st with
  | nil => exact ⟨st, rfl⟩
  | cons d ds ih =>
    simp only [geoRun]
    split
    · obtain ⟨h1, h2⟩ := hd d (by simp)
      have hs : ∃ st1, geoStep c st d = some st1 ∧ st1.edges.length = st.edges.length := by
        unfold geoStep
        rw [List.getElem?_eq_getElem h1, List.getElem?_eq_getElem h2]
        simp only
        split
        · exact ⟨_, rfl, by simp⟩
        · exact ⟨_, rfl, rfl⟩
      obtain ⟨st1, hs1, hl⟩ := hs
      rw [hs1]
      simp only [Option.bind_some]
      exact ih st1 fun d' hd' => by rw [hl]; exact hd d' (by simp [hd'])
    · exact ⟨st, rfl⟩

/-- `|x - y| < eps` -/
def within (eps x y : Int) : Prop := x - y < eps ∧ y - x < eps
/-- link length as the kernel reads it -/
def len (D : Nat → Nat → Int) (e : Nat × Nat) : Int := D e.1 e.2

/-- **link lengths, per rewiring (all modes)**: an accepted step changes the edge list
only at the two drawn positions, and the two new links can be matched with the
two removed links so that matched lengths differ by less than `eps`
(model I: either matching, by C1; models II and III: position-wise, by C2). -/
theorem geoStep_lengths (c : GeoCfg) (st st' : GeoSt) (d : Nat × Nat)
    (h : geoStep c st d = some st') (hi : st'.i ≠ st.i) :
    ∃ (hp : d.1 < st.edges.length) (hq : d.2 < st.edges.length)
      (hp' : d.1 < st'.edges.length) (hq' : d.2 < st'.edges.length),
      (∀ r (hr : r < st.edges.length) (hr' : r < st'.edges.length),
          r ≠ d.1 → r ≠ d.2 → st'.edges[r] = st.edges[r]) ∧
      ((within c.eps (len c.D st.edges[d.1]) (len c.D st'.edges[d.1]) ∧
        within c.eps (len c.D st.edges[d.2]) (len c.D st'.edges[d.2])) ∨
       (c.mode = .I ∧
        within c.eps (len c.D st.edges[d.1]) (len c.D st'.edges[d.2]) ∧
        within c.eps (len c.D st.edges[d.2]) (len c.D st'.edges[d.1]))) := by
  rcases geoStep_cases c st st' d h with rfl | ⟨s, t, k, l, hp, hq, e1, e2, acc, rfl⟩
  · exact absurd rfl hi
  · have hsk : s ≠ k := by
      simp only [geoAccept, Bool.and_eq_true, bne_iff_ne, ne_eq] at acc; exact acc.1.1.1.1.1.1
    have hpq : d.1 ≠ d.2 := by
      intro hh
      have e3 : st.edges[d.1] = st.edges[d.2] := by simp [hh]
      rw [e1, e2] at e3; simp at e3; omega
    refine ⟨hp, hq, by simpa using hp, by simpa using hq, ?_, ?_⟩
    · intro r hr hr' h1 h2
      simp only [getElem_set2]; simp [h1, h2]
    · simp only [getElem_set2, e1, e2]
      simp only [geoAccept, Bool.and_eq_true] at acc
      have hl := acc.2
      simp only [condLen] at hl
      simp only [within, len]
      cases hm : c.mode <;> simp only [hm] at hl <;>
        simp only [condC1, condC2, near, Bool.and_eq_true, Bool.or_eq_true, decide_eq_true_eq] at hl <;>
        grind

/-- **models II and III, per node**: in an accepted step each of the four nodes
`s, t, k, l` exchanges one link for another whose length (read in that node's
row of `D`) differs by less than `eps` — the average link distance of every
node moves by less than `eps / degree`. -/
theorem geoStep_node_lengths (c : GeoCfg) (A : Adj) (s t k l : Nat) (hm : c.mode ≠ .I)
    (acc : geoAccept c A s t k l = true) :
    within c.eps (c.D s t) (c.D s l) ∧ within c.eps (c.D t s) (c.D t k) ∧
    within c.eps (c.D k l) (c.D k t) ∧ within c.eps (c.D l k) (c.D l s) := by
  simp only [geoAccept, Bool.and_eq_true] at acc
  have hl := acc.2
  simp only [condLen] at hl
  cases hm' : c.mode <;> simp only [hm'] at hl hm <;>
    simp_all [condC2, near, within]

/-- **model III, degree pairs of rewired links**: when the `degree` array is the degree
sequence, the link written at the first drawn position has the degree pair of the link
removed at the second and vice versa — the multiset of degree pairs over all
links (degree–degree correlations) is unchanged. -/
theorem geoStep_degree_pairs (c : GeoCfg) (st st' : GeoSt) (d : Nat × Nat)
    (hm : c.mode = .III) (h : geoStep c st d = some st') (hi : st'.i ≠ st.i) :
    ∃ (hp : d.1 < st.edges.length) (hq : d.2 < st.edges.length)
      (hp' : d.1 < st'.edges.length) (hq' : d.2 < st'.edges.length),
      (c.degree st'.edges[d.1].1, c.degree st'.edges[d.1].2)
        = (c.degree st.edges[d.2].1, c.degree st.edges[d.2].2) ∧
      (c.degree st'.edges[d.2].1, c.degree st'.edges[d.2].2)
        = (c.degree st.edges[d.1].1, c.degree st.edges[d.1].2) := by
  rcases geoStep_cases c st st' d h with rfl | ⟨s, t, k, l, hp, hq, e1, e2, acc, rfl⟩
  · exact absurd rfl hi
  · have hsk : s ≠ k := by
      simp only [geoAccept, Bool.and_eq_true, bne_iff_ne, ne_eq] at acc; exact acc.1.1.1.1.1.1
    have hpq : d.1 ≠ d.2 := by
      intro hh
      have e3 : st.edges[d.1] = st.edges[d.2] := by simp [hh]
      rw [e1, e2] at e3; simp at e3; omega
    refine ⟨hp, hq, by simpa using hp, by simpa using hq, ?_⟩
    simp only [getElem_set2, e1, e2]
    simp only [geoAccept, Bool.and_eq_true, condDeg, hm, beq_iff_eq] at acc
    obtain ⟨⟨-, h1, h2⟩, -⟩ := acc
    simp [hpq, h1, h2]

end Pyunicorn.Random
