import Pyunicorn.Lemmas.Random
import Pyunicorn.Lemmas.RandomB
import Pyunicorn.Lemmas.RandomC
import Pyunicorn.Lemmas.RandomD
import Pyunicorn.Lemmas.RandomE
import Pyunicorn.Lemmas.RandomF
import Pyunicorn.Lemmas.RandomG
import Pyunicorn.Lemmas.RandomH
import Pyunicorn.Lemmas.RandomI
import Pyunicorn.Lemmas.RandomJ
import Pyunicorn.Lemmas.RandomK
/-!
# C17 — random models and rewirings keep their documented invariants

Statements about the models in `Pyunicorn.Model.Random` of the rewiring /
cross-link kernels of `core/_ext/numerics.pyx` and of `Network.BarabasiAlbert`.
Each model is a function of the state and of the stream of RNG draws; every
theorem is for *all* streams.  The models are tied to the compiled kernels and
to the public methods by the exact correspondence in `harness/c17.py`.
-/
namespace Pyunicorn.Random
open Pyunicorn.Generated.ArithC17
open Pyunicorn.Generated.StructC17

/-! ## geographical rewiring (models I, II, III)

`GeoInv n A edges` (Lemmas/Random.lean): `A` is symmetric and loop-free (a simple
undirected graph), `edges` lists every link of `A` exactly once (in one of its
two orientations) with end points `< n`. -/

/-- **one pass through the loop body keeps the graph simple and `edges` its edge
list** — whatever pair of edge indices was drawn, in every mode. -/
theorem geoStep_inv (n : Nat) (c : GeoCfg) (st st' : GeoSt) (d : Nat × Nat)
    (h : geoStep c st d = some st') (inv : GeoInv n st.A st.edges) :
    GeoInv n st'.A st'.edges := by
  rcases geoStep_cases c st st' d h with rfl | ⟨s, t, k, l, hp, hq, e1, e2, acc, rfl⟩
  · exact inv
  · exact geoInv_rewire n c st.A st.edges d.1 d.2 s t k l hp hq e1 e2 acc inv

/-- **one pass through the loop body leaves every node's degree unchanged.** -/
theorem geoStep_deg (n : Nat) (c : GeoCfg) (st st' : GeoSt) (d : Nat × Nat)
    (h : geoStep c st d = some st') (inv : GeoInv n st.A st.edges) (v : Nat) :
    deg st'.A n v = deg st.A n v := by
  rcases geoStep_cases c st st' d h with rfl | ⟨s, t, k, l, hp, hq, e1, e2, acc, rfl⟩
  · rfl
  · obtain ⟨sym, lf, inb, links, -, -⟩ := inv
    have acc' := acc
    simp only [geoAccept, Bool.and_eq_true, bne_iff_ne, ne_eq, Bool.not_eq_true'] at acc'
    obtain ⟨⟨⟨⟨⟨⟨hsk, hsl⟩, htk⟩, htl⟩, hAsl, hAtk⟩, -⟩, -⟩ := acc'
    have hAst : st.A s t = true := by have := links d.1 hp; rw [e1] at this; exact this
    have hAkl : st.A k l = true := by have := links d.2 hq; rw [e2] at this; exact this
    have hst : s ≠ t := by intro h; subst h; rw [lf] at hAst; cases hAst
    have hkl : k ≠ l := by intro h; subst h; rw [lf] at hAkl; cases hAkl
    have b1 := inb d.1 hp; rw [e1] at b1
    have b2 := inb d.2 hq; rw [e2] at b2
    exact deg_rewire st.A n s t k l v hsk hsl htk htl hst hkl b1.1 b1.2 b2.1 b2.2
      hAst (by rw [sym]; exact hAst) hAkl (by rw [sym]; exact hAkl)
      hAsl (by rw [sym]; exact hAsl) hAtk (by rw [sym]; exact hAtk)

/-- **whole run, every stream of draws, every iteration count, every mode**: the
result is again a simple undirected graph whose edge list is `edges`, every
degree is what it was, the number of listed links is unchanged and at most
`iterations` rewirings were made. -/
theorem geoRun_invariants (n : Nat) (c : GeoCfg) (iterations : Nat) (draws : List (Nat × Nat))
    (st st' : GeoSt) (h : geoRun c iterations draws st = some st')
    (inv : GeoInv n st.A st.edges) :
    GeoInv n st'.A st'.edges ∧ (∀ v, deg st'.A n v = deg st.A n v) ∧
      st'.edges.length = st.edges.length ∧ (st.i ≤ iterations → st'.i ≤ iterations) := by
  induction draws generalizing st with
  | nil => simp only [geoRun, Option.some.injEq] at h; subst h; exact ⟨inv, fun _ => rfl, rfl, id⟩
  | cons d ds ih =>
    simp only [geoRun, geoWhile_iff] at h
    split at h
    · rename_i hlt
      cases hs : geoStep c st d with
      | none => simp [hs] at h
      | some st1 =>
        simp only [hs, Option.bind_some] at h
        have inv1 := geoStep_inv n c st st1 d hs inv
        obtain ⟨i1, i2, i3, i4⟩ := ih st1 h inv1
        refine ⟨i1, fun v => by rw [i2 v, geoStep_deg n c st st1 d hs inv v], ?_, ?_⟩
        · rw [i3]
          rcases geoStep_cases c st st1 d hs with rfl | ⟨s, t, k, l, hp, hq, e1, e2, acc, rfl⟩
          · rfl
          · simp
        · intro _
          apply i4
          rcases geoStep_cases c st st1 d hs with rfl | ⟨s, t, k, l, hp, hq, e1, e2, acc, rfl⟩
          · omega
          · simp only; omega
    · simp only [Option.some.injEq] at h; subst h; exact ⟨inv, fun _ => rfl, rfl, id⟩

/-- **the number of links is preserved** (sum of all degrees). -/
theorem geoRun_total (n : Nat) (c : GeoCfg) (iterations : Nat) (draws : List (Nat × Nat))
    (st st' : GeoSt) (h : geoRun c iterations draws st = some st')
    (inv : GeoInv n st.A st.edges) :
    total st'.A n n = total st.A n n := by
  unfold total
  exact rsum_congr n fun v _ => (geoRun_invariants n c iterations draws st st' h inv).2.1 v

/-- **no IndexError**: with `E = len(edges)` every draw `floor(u·E)`, `0 ≤ u < 1`, is a
valid index and the run is defined. -/
theorem geoRun_defined (c : GeoCfg) (iterations : Nat) (draws : List (Nat × Nat)) (st : GeoSt)
    (hd : ∀ d ∈ draws, d.1 < st.edges.length ∧ d.2 < st.edges.length) :
    ∃ st', geoRun c iterations draws st = some st' := by
  induction draws generalizing st with
  | nil => exact ⟨st, rfl⟩
  | cons d ds ih =>
    simp only [geoRun, geoWhile_iff]
    split
    · obtain ⟨h1, h2⟩ := hd d (by simp)
      have hs : ∃ st1, geoStep c st d = some st1 ∧ st1.edges.length = st.edges.length := by
        unfold geoStep
        rw [List.getElem?_eq_getElem h1, List.getElem?_eq_getElem h2]
        simp only
        split
        · exact ⟨_, rfl, by simp⟩
        · exact ⟨_, rfl, rfl⟩
      obtain ⟨st1, hs1, hl⟩ := hs
      rw [hs1]
      simp only [Option.bind_some]
      exact ih st1 fun d' hd' => by rw [hl]; exact hd d' (by simp [hd'])
    · exact ⟨st, rfl⟩

/-- `|x - y| < eps` -/
def within (eps x y : Int) : Prop := x - y < eps ∧ y - x < eps
/-- link length as the kernel reads it -/
def len (D : Nat → Nat → Int) (e : Nat × Nat) : Int := D e.1 e.2

/-- **link lengths, per rewiring (all modes)**: an accepted step changes the edge list
only at the two drawn positions, and the two new links can be matched with the
two removed links so that matched lengths differ by less than `eps`
(model I: either matching, by C1; models II and III: position-wise, by C2). -/
theorem geoStep_lengths (c : GeoCfg) (st st' : GeoSt) (d : Nat × Nat)
    (h : geoStep c st d = some st') (hi : st'.i ≠ st.i) :
    ∃ (hp : d.1 < st.edges.length) (hq : d.2 < st.edges.length)
      (hp' : d.1 < st'.edges.length) (hq' : d.2 < st'.edges.length),
      (∀ r (hr : r < st.edges.length) (hr' : r < st'.edges.length),
          r ≠ d.1 → r ≠ d.2 → st'.edges[r] = st.edges[r]) ∧
      ((within c.eps (len c.D st.edges[d.1]) (len c.D st'.edges[d.1]) ∧
        within c.eps (len c.D st.edges[d.2]) (len c.D st'.edges[d.2])) ∨
       (c.mode = .I ∧
        within c.eps (len c.D st.edges[d.1]) (len c.D st'.edges[d.2]) ∧
        within c.eps (len c.D st.edges[d.2]) (len c.D st'.edges[d.1]))) := by
  rcases geoStep_cases c st st' d h with rfl | ⟨s, t, k, l, hp, hq, e1, e2, acc, rfl⟩
  · exact absurd rfl hi
  · have hsk : s ≠ k := by
      simp only [geoAccept, Bool.and_eq_true, bne_iff_ne, ne_eq] at acc; exact acc.1.1.1.1.1.1
    have hpq : d.1 ≠ d.2 := by
      intro hh
      have e3 : st.edges[d.1] = st.edges[d.2] := by simp [hh]
      rw [e1, e2] at e3; simp at e3; omega
    refine ⟨hp, hq, by simpa using hp, by simpa using hq, ?_, ?_⟩
    · intro r hr hr' h1 h2
      simp only [getElem_set2]; simp [h1, h2]
    · simp only [getElem_set2, e1, e2]
      simp only [geoAccept, Bool.and_eq_true] at acc
      have hl := acc.2
      simp only [condLen] at hl
      simp only [within, len]
      cases hm : c.mode <;> simp only [hm] at hl <;>
        simp only [condC1, condC2, near, Bool.and_eq_true, Bool.or_eq_true, decide_eq_true_eq] at hl <;>
        grind

/-- **models II and III, per node**: in an accepted step each of the four nodes
`s, t, k, l` exchanges one link for another whose length (read in that node's
row of `D`) differs by less than `eps` — the average link distance of every
node moves by less than `eps / degree`. -/
theorem geoStep_node_lengths (c : GeoCfg) (A : Adj) (s t k l : Nat) (hm : c.mode ≠ .I)
    (acc : geoAccept c A s t k l = true) :
    within c.eps (c.D s t) (c.D s l) ∧ within c.eps (c.D t s) (c.D t k) ∧
    within c.eps (c.D k l) (c.D k t) ∧ within c.eps (c.D l k) (c.D l s) := by
  simp only [geoAccept, Bool.and_eq_true] at acc
  have hl := acc.2
  simp only [condLen] at hl
  cases hm' : c.mode <;> simp only [hm'] at hl hm <;>
    simp_all [condC2, near, within]

/-- **model III, degree pairs of rewired links**: when the `degree` array is the degree
sequence, the link written at the first drawn position has the degree pair of the link
removed at the second and vice versa — the multiset of degree pairs over all
links (degree–degree correlations) is unchanged. -/
theorem geoStep_degree_pairs (c : GeoCfg) (st st' : GeoSt) (d : Nat × Nat)
    (hm : c.mode = .III) (h : geoStep c st d = some st') (hi : st'.i ≠ st.i) :
    ∃ (hp : d.1 < st.edges.length) (hq : d.2 < st.edges.length)
      (hp' : d.1 < st'.edges.length) (hq' : d.2 < st'.edges.length),
      (c.degree st'.edges[d.1].1, c.degree st'.edges[d.1].2)
        = (c.degree st.edges[d.2].1, c.degree st.edges[d.2].2) ∧
      (c.degree st'.edges[d.2].1, c.degree st'.edges[d.2].2)
        = (c.degree st.edges[d.1].1, c.degree st.edges[d.1].2) := by
  rcases geoStep_cases c st st' d h with rfl | ⟨s, t, k, l, hp, hq, e1, e2, acc, rfl⟩
  · exact absurd rfl hi
  · have hsk : s ≠ k := by
      simp only [geoAccept, Bool.and_eq_true, bne_iff_ne, ne_eq] at acc; exact acc.1.1.1.1.1.1
    have hpq : d.1 ≠ d.2 := by
      intro hh
      have e3 : st.edges[d.1] = st.edges[d.2] := by simp [hh]
      rw [e1, e2] at e3; simp at e3; omega
    refine ⟨hp, hq, by simpa using hp, by simpa using hq, ?_⟩
    simp only [getElem_set2, e1, e2]
    simp only [geoAccept, Bool.and_eq_true, condDeg, hm, beq_iff_eq] at acc
    obtain ⟨⟨-, h1, h2⟩, -⟩ := acc
    simp [hpq, h1, h2]

/-- **link lengths over a whole run (all modes, every stream of draws)**: the links before
and after can be matched one to one (`σ` is a bijection of the positions of the edge array with
inverse `τ`) such that matched links differ in length by at most `r · eps`, where `r = i' − i`
is the number of rewirings made — the link-length distribution is preserved "approximately"
with exactly this tolerance (each single rewiring: `< eps`, `geoStep_lengths`). -/
theorem geoRun_link_lengths (c : GeoCfg) (iterations : Nat) (draws : List (Nat × Nat))
    (st st' : GeoSt) (h : geoRun c iterations draws st = some st') :
    ∃ σ τ, BijOn st.edges.length σ τ ∧ st'.edges.length = st.edges.length ∧
      ∀ p e, st.edges[p]? = some e → ∃ e', st'.edges[σ p]? = some e' ∧
        closeBy (((st'.i : Int) - (st.i : Int)) * c.eps) (len c.D e) (len c.D e') :=
  geoRun_match c iterations draws st st' h

/-! ## cross links: `overwriteAdjacency`

`nodes1`, `nodes2` are the two node lists (no duplicates, disjoint — a partition
of part of the node set). -/



theorem overwrite_untouched (A C : Adj) (nodes1 nodes2 : List Nat) (a b : Nat)
    (h1 : ¬ (a ∈ nodes1 ∧ b ∈ nodes2)) (h2 : ¬ (a ∈ nodes2 ∧ b ∈ nodes1)) :
    overwrite A C nodes1 nodes2 a b = A a b := by
  apply applyWrites_untouched
  intro w hw hc
  rw [mem_overwriteWrites] at hw
  obtain ⟨i, j, n1, n2, e1, e2, hw⟩ := hw
  have m1 : n1 ∈ nodes1 := List.mem_of_getElem? e1
  have m2 : n2 ∈ nodes2 := List.mem_of_getElem? e2
  rcases hw with rfl | rfl
  · exact h1 ⟨hc.1 ▸ m1, hc.2 ▸ m2⟩
  · exact h2 ⟨hc.1 ▸ m2, hc.2 ▸ m1⟩

theorem overwrite_block (A C : Adj) (nodes1 nodes2 : List Nat)
    (nd1 : NodupIdx nodes1) (nd2 : NodupIdx nodes2) (dis : ∀ x, x ∈ nodes1 → x ∉ nodes2)
    (i j x y : Nat) (hx : nodes1[i]? = some x) (hy : nodes2[j]? = some y) :
    overwrite A C nodes1 nodes2 x y = C i j ∧ overwrite A C nodes1 nodes2 y x = C i j := by
  have mx : x ∈ nodes1 := List.mem_of_getElem? hx
  have my : y ∈ nodes2 := List.mem_of_getElem? hy
  constructor
  · apply applyWrites_val
    · intro w hw h1 h2
      rw [mem_overwriteWrites] at hw
      obtain ⟨i', j', n1, n2, e1, e2, hw⟩ := hw
      rcases hw with rfl | rfl
      · simp only at h1 h2 ⊢
        subst h1; subst h2
        rw [nd1 i i' _ hx e1, nd2 j j' _ hy e2]
      · simp only at h1 h2
        subst h1; subst h2
        exact absurd (List.mem_of_getElem? e2) (dis _ mx)
    · exact ⟨(x, y, C i j), (mem_overwriteWrites ..).2 ⟨i, j, x, y, hx, hy, Or.inl rfl⟩, rfl, rfl⟩
  · apply applyWrites_val
    · intro w hw h1 h2
      rw [mem_overwriteWrites] at hw
      obtain ⟨i', j', n1, n2, e1, e2, hw⟩ := hw
      rcases hw with rfl | rfl
      · simp only at h1 h2
        subst h1; subst h2
        exact absurd my (dis _ (List.mem_of_getElem? e1))
      · simp only at h1 h2 ⊢
        subst h1; subst h2
        rw [nd1 i i' _ hx e1, nd2 j j' _ hy e2]
    · exact ⟨(y, x, C i j), (mem_overwriteWrites ..).2 ⟨i, j, x, y, hx, hy, Or.inr rfl⟩, rfl, rfl⟩

/-- the network after `overwriteAdjacency`: simple and undirected again -/
theorem overwrite_simple (A C : Adj) (nodes1 nodes2 : List Nat)
    (nd1 : NodupIdx nodes1) (nd2 : NodupIdx nodes2) (dis : ∀ x, x ∈ nodes1 → x ∉ nodes2)
    (sym : ∀ a b, A a b = A b a) (lf : ∀ a, A a a = false) :
    (∀ a b, overwrite A C nodes1 nodes2 a b = overwrite A C nodes1 nodes2 b a) ∧
    (∀ a, overwrite A C nodes1 nodes2 a a = false) := by
  constructor
  · intro a b
    by_cases h1 : a ∈ nodes1 ∧ b ∈ nodes2
    · obtain ⟨i, hi⟩ := List.getElem?_of_mem h1.1
      obtain ⟨j, hj⟩ := List.getElem?_of_mem h1.2
      have := overwrite_block A C nodes1 nodes2 nd1 nd2 dis i j a b hi hj
      rw [this.1, this.2]
    · by_cases h2 : a ∈ nodes2 ∧ b ∈ nodes1
      · obtain ⟨i, hi⟩ := List.getElem?_of_mem h2.2
        obtain ⟨j, hj⟩ := List.getElem?_of_mem h2.1
        have := overwrite_block A C nodes1 nodes2 nd1 nd2 dis i j b a hi hj
        rw [this.1, this.2]
      · rw [overwrite_untouched A C _ _ a b h1 h2,
          overwrite_untouched A C _ _ b a (fun h => h2 ⟨h.2, h.1⟩) (fun h => h1 ⟨h.2, h.1⟩), sym]
  · intro a
    rw [overwrite_untouched A C _ _ a a (fun h => dis a h.1 h.2) (fun h => dis a h.2 h.1), lf]


/-! ## `_randomlySetCrossLinks` -/

/-- **exact count, every stream of in-range draws**: the kernel's nested loops set
exactly as many *new* ones as the loop counter says, never clear one, and never
set more than `number_cross_links`. -/
theorem crossSet_count (m n k : Nat) (draws : List (Nat × Nat)) (C : Adj)
    (hd : ∀ d ∈ draws, d.1 < m ∧ d.2 < n) :
    total (crossSetRun k draws C 0).1 m n = total C m n + (crossSetRun k draws C 0).2 ∧
    (crossSetRun k draws C 0).2 ≤ k ∧
    (∀ a b, C a b = true → (crossSetRun k draws C 0).1 a b = true) := by
  obtain ⟨h1, -, h3, h4⟩ := crossSetRun_spec m n k draws C 0 hd
  exact ⟨by simpa using h1, h3 (Nat.zero_le _), h4⟩

/-- **prescribed number of cross links**: started from the empty cross matrix (as
`RandomlySetCrossLinks` does), a completed run (`done = number_cross_links`) has exactly
`number_cross_links` ones. -/
theorem crossSet_exact (m n k : Nat) (draws : List (Nat × Nat))
    (hd : ∀ d ∈ draws, d.1 < m ∧ d.2 < n)
    (hdone : (crossSetRun k draws (fun _ _ => false) 0).2 = k) :
    total (crossSetRun k draws (fun _ _ => false) 0).1 m n = k := by
  have h := (crossSet_count m n k draws (fun _ _ => false) hd).1
  have hz : total (fun _ _ => false) m n = 0 := by
    unfold total deg
    simp only [b2i_false, rsum_zero]
  rw [h, hz, hdone]; simp

/-- **the network returned by `RandomlySetCrossLinks`**, for every stream of in-range draws:
symmetric and loop-free, equal to the input outside the cross block (in particular inside
each group), its cross block is the new cross matrix, and that matrix holds exactly
`number_cross_links` ones once the loop has finished. -/
theorem crossSet_network (A : Adj) (nodes1 nodes2 : List Nat) (k : Nat) (draws : List (Nat × Nat))
    (nd1 : NodupIdx nodes1) (nd2 : NodupIdx nodes2) (dis : ∀ x, x ∈ nodes1 → x ∉ nodes2)
    (sym : ∀ a b, A a b = A b a) (lf : ∀ a, A a a = false)
    (hd : ∀ d ∈ draws, d.1 < nodes1.length ∧ d.2 < nodes2.length) :
    let R := crossSetRun k draws (fun _ _ => false) 0
    let A' := overwrite A R.1 nodes1 nodes2
    (∀ a b, A' a b = A' b a) ∧ (∀ a, A' a a = false) ∧
    (∀ a b, ¬ (a ∈ nodes1 ∧ b ∈ nodes2) → ¬ (a ∈ nodes2 ∧ b ∈ nodes1) → A' a b = A a b) ∧
    (∀ i j x y, nodes1[i]? = some x → nodes2[j]? = some y → A' x y = R.1 i j ∧ A' y x = R.1 i j) ∧
    (R.2 = k → total R.1 nodes1.length nodes2.length = k) := by
  obtain ⟨s1, s2⟩ := overwrite_simple A (crossSetRun k draws (fun _ _ => false) 0).1
    nodes1 nodes2 nd1 nd2 dis sym lf
  exact ⟨s1, s2, fun a b h1 h2 => overwrite_untouched A _ _ _ a b h1 h2,
    fun i j x y hx hy => overwrite_block A _ _ _ nd1 nd2 dis i j x y hx hy,
    fun hk => crossSet_exact _ _ k draws hd hk⟩

/-! ## `_randomlyRewireCrossLinks`

`CrossInv m n C links` (Lemmas/RandomB.lean): `links` lists the ones of the `m × n`
matrix `C`, each exactly once. -/

/-- **one pass through the `while True` body**, whatever pair of link indices was drawn:
`cross_links` stays the list of ones of `cross_A`; every row sum (cross degree of a
node of group 1) and every column sum (cross degree of a node of group 2) is unchanged. -/
theorem crossStep_inv (m n : Nat) (st st' : CrossSt) (d : Nat × Nat)
    (h : crossStep st d = some st') (inv : CrossInv m n st.C st.links) :
    CrossInv m n st'.C st'.links ∧ (∀ r, deg st'.C n r = deg st.C n r) ∧
      (∀ r, colDeg st'.C m r = colDeg st.C m r) ∧ st'.links.length = st.links.length := by
  rcases crossStep_cases st st' d h with rfl | ⟨a, b, c, e, hp, hq, e1, e2, h1, h2, rfl⟩
  · exact ⟨inv, fun _ => rfl, fun _ => rfl, rfl⟩
  · obtain ⟨i1, i2, i3⟩ := crossInv_swap m n st.C st.links d.1 d.2 a b c e hp hq e1 e2 h1 h2 inv
    exact ⟨i1, i2, i3, by simp⟩

/-- **whole run, every stream of draws, every number of swaps.** -/
theorem crossRun_invariants (m n swaps : Nat) (draws : List (Nat × Nat)) (st st' : CrossSt)
    (h : crossRun swaps draws st = some st') (inv : CrossInv m n st.C st.links) :
    CrossInv m n st'.C st'.links ∧ (∀ r, deg st'.C n r = deg st.C n r) ∧
      (∀ r, colDeg st'.C m r = colDeg st.C m r) ∧ st'.links.length = st.links.length ∧
      total st'.C m n = total st.C m n := by
  induction draws generalizing st with
  | nil =>
    simp only [crossRun, Option.some.injEq] at h; subst h
    exact ⟨inv, fun _ => rfl, fun _ => rfl, rfl, rfl⟩
  | cons d ds ih =>
    simp only [crossRun] at h
    split at h
    · cases hs : crossStep st d with
      | none => simp [hs] at h
      | some st1 =>
        simp only [hs, Option.bind_some] at h
        obtain ⟨j1, j2, j3, j4⟩ := crossStep_inv m n st st1 d hs inv
        obtain ⟨i1, i2, i3, i4, i5⟩ := ih st1 h j1
        refine ⟨i1, fun r => by rw [i2, j2], fun r => by rw [i3, j3], by rw [i4, j4], ?_⟩
        rw [i5]; unfold total; exact rsum_congr m fun r _ => j2 r
    · simp only [Option.some.injEq] at h; subst h
      exact ⟨inv, fun _ => rfl, fun _ => rfl, rfl, rfl⟩

/-- **the rewired network**: with `cross_A` the cross block of the symmetric loop-free `A`,
the returned adjacency is symmetric and loop-free, equals `A` outside the cross block
(in particular inside each group), and its cross block is the rewired `cross_A`, whose
row and column sums are the old cross degrees. -/
theorem crossRewire_network (A : Adj) (nodes1 nodes2 : List Nat) (swaps : Nat)
    (draws : List (Nat × Nat)) (st st' : CrossSt)
    (nd1 : NodupIdx nodes1) (nd2 : NodupIdx nodes2) (dis : ∀ x, x ∈ nodes1 → x ∉ nodes2)
    (sym : ∀ a b, A a b = A b a) (lf : ∀ a, A a a = false)
    (h : crossRun swaps draws st = some st')
    (inv : CrossInv nodes1.length nodes2.length st.C st.links) :
    let A' := overwrite A st'.C nodes1 nodes2
    (∀ a b, A' a b = A' b a) ∧ (∀ a, A' a a = false) ∧
    (∀ a b, ¬ (a ∈ nodes1 ∧ b ∈ nodes2) → ¬ (a ∈ nodes2 ∧ b ∈ nodes1) → A' a b = A a b) ∧
    (∀ i j x y, nodes1[i]? = some x → nodes2[j]? = some y → A' x y = st'.C i j) ∧
    (∀ i, deg st'.C nodes2.length i = deg st.C nodes2.length i) ∧
    (∀ j, colDeg st'.C nodes1.length j = colDeg st.C nodes1.length j) := by
  obtain ⟨-, i2, i3, -, -⟩ := crossRun_invariants _ _ swaps draws st st' h inv
  obtain ⟨s1, s2⟩ := overwrite_simple A st'.C nodes1 nodes2 nd1 nd2 dis sym lf
  exact ⟨s1, s2, fun a b h1 h2 => overwrite_untouched A st'.C _ _ a b h1 h2,
    fun i j x y hx hy => (overwrite_block A st'.C _ _ nd1 nd2 dis i j x y hx hy).1, i2, i3⟩

/-- **degrees of the whole network under cross-link rewiring.**  If `C` is the cross
block of the symmetric `A` and `C'` has the same row and column sums, then writing `C'`
back with `overwriteAdjacency` leaves the degree of every node of the network unchanged. -/
theorem overwrite_degrees (A C C' : Adj) (nodes1 nodes2 : List Nat) (N : Nat)
    (nd1 : NodupIdx nodes1) (nd2 : NodupIdx nodes2) (dis : ∀ x, x ∈ nodes1 → x ∉ nodes2)
    (b1 : ∀ x ∈ nodes1, x < N) (b2 : ∀ x ∈ nodes2, x < N)
    (sym : ∀ a b, A a b = A b a)
    (hC : ∀ i j x y, nodes1[i]? = some x → nodes2[j]? = some y → A x y = C i j)
    (hrow : ∀ i, deg C' nodes2.length i = deg C nodes2.length i)
    (hcol : ∀ j, colDeg C' nodes1.length j = colDeg C nodes1.length j) (v : Nat) :
    deg (overwrite A C' nodes1 nodes2) N v = deg A N v := by
  have hsub : deg (overwrite A C' nodes1 nodes2) N v - deg A N v
      = rsum (fun w => b2i (overwrite A C' nodes1 nodes2 v w) - b2i (A v w)) N := by
    unfold deg; rw [rsum_sub]
  suffices h0 : rsum (fun w => b2i (overwrite A C' nodes1 nodes2 v w) - b2i (A v w)) N = 0 by omega
  by_cases hv1 : v ∈ nodes1
  · obtain ⟨i, hi⟩ := List.getElem?_of_mem hv1
    rw [rsum_support nodes2 N nd2 b2 _ (fun w hw => by
      rw [overwrite_untouched A C' _ _ v w (fun h => hw h.2) (fun h => dis v hv1 h.1)]; omega)]
    have : rsum (fun j => b2i (overwrite A C' nodes1 nodes2 v (nodes2.getD j 0)) - b2i (A v (nodes2.getD j 0)))
        nodes2.length = rsum (fun j => b2i (C' i j) - b2i (C i j)) nodes2.length := by
      apply rsum_congr; intro j hj
      have hj' : nodes2[j]? = some nodes2[j] := List.getElem?_eq_getElem hj
      rw [getD_of_getElem? _ _ _ hj', (overwrite_block A C' _ _ nd1 nd2 dis i j v _ hi hj').1,
        hC i j v _ hi hj']
    rw [this, rsum_sub]
    have := hrow i; unfold deg at this; omega
  · by_cases hv2 : v ∈ nodes2
    · obtain ⟨j, hj⟩ := List.getElem?_of_mem hv2
      rw [rsum_support nodes1 N nd1 b1 _ (fun w hw => by
        rw [overwrite_untouched A C' _ _ v w (fun h => hv1 h.1) (fun h => hw h.2)]; omega)]
      have : rsum (fun i => b2i (overwrite A C' nodes1 nodes2 v (nodes1.getD i 0)) - b2i (A v (nodes1.getD i 0)))
          nodes1.length = rsum (fun i => b2i (C' i j) - b2i (C i j)) nodes1.length := by
        apply rsum_congr; intro i hi
        have hi' : nodes1[i]? = some nodes1[i] := List.getElem?_eq_getElem hi
        rw [getD_of_getElem? _ _ _ hi', (overwrite_block A C' _ _ nd1 nd2 dis i j _ v hi' hj).2,
          sym, hC i j _ v hi' hj]
      rw [this, rsum_sub]
      have := hcol j; unfold colDeg at this; omega
    · have : rsum (fun w => b2i (overwrite A C' nodes1 nodes2 v w) - b2i (A v w)) N
          = rsum (fun _ => 0) N := by
        apply rsum_congr; intro w _
        rw [overwrite_untouched A C' _ _ v w (fun h => hv1 h.1) (fun h => hv2 h.1)]; omega
      rw [this, rsum_zero]


/-- **`RandomlyRewireCrossLinks` preserves every degree of the network**, for every
stream of draws: combine `crossRun_invariants` with `overwrite_degrees`. -/
theorem crossRewire_degrees (A : Adj) (nodes1 nodes2 : List Nat) (N swaps : Nat)
    (draws : List (Nat × Nat)) (st st' : CrossSt)
    (nd1 : NodupIdx nodes1) (nd2 : NodupIdx nodes2) (dis : ∀ x, x ∈ nodes1 → x ∉ nodes2)
    (b1 : ∀ x ∈ nodes1, x < N) (b2 : ∀ x ∈ nodes2, x < N) (sym : ∀ a b, A a b = A b a)
    (hC : ∀ i j x y, nodes1[i]? = some x → nodes2[j]? = some y → A x y = st.C i j)
    (h : crossRun swaps draws st = some st')
    (inv : CrossInv nodes1.length nodes2.length st.C st.links) (v : Nat) :
    deg (overwrite A st'.C nodes1 nodes2) N v = deg A N v := by
  obtain ⟨-, i2, i3, -, -⟩ := crossRun_invariants _ _ swaps draws st st' h inv
  exact overwrite_degrees A st.C st'.C nodes1 nodes2 N nd1 nd2 dis b1 b2 sym hC i2 i3 v

/-! ## `Network.BarabasiAlbert` (own growth loop)

`BAInv N m st` (Lemmas/RandomC.lean): symmetric, loop-free, links only among the nodes
`≤ j`, `last_child[x] = j` exactly for the nodes already linked to the new node `j`, every
entry of `targets` is an older node, and the matrix holds `2·(m·(j−m) + it)` ones. -/

/-- **every reachable state of the growth loop satisfies the invariant**, for every
stream of target-index draws (`N > m`). -/
theorem ba_invariants (N m : Nat) (hN : m + 1 ≤ N) (draws : List Nat) (st' : BASt)
    (h : baRun N m draws (baInit N m) = some st') : BAInv N m st' := by
  have gen : ∀ (draws : List Nat) (st : BASt), BAInv N m st →
      baRun N m draws st = some st' → BAInv N m st' := by
    intro draws
    induction draws with
    | nil => intro st inv h; simp only [baRun, Option.some.injEq] at h; subst h; exact inv
    | cons d ds ih =>
      intro st inv h
      simp only [baRun] at h
      cases hs : baStep N m st d with
      | none => simp [hs] at h
      | some st1 =>
        simp only [hs, Option.bind_some] at h
        exact ih st1 (baStep_inv N m st st1 d hs inv) h
  exact gen draws _ (baInit_inv N m hN) h

/-- **exactly `n_links_each · (n_nodes − n_links_each)` links**: when the outer loop has
finished (`j = N`), the adjacency matrix is symmetric, loop-free and contains
`2·m·(N−m)` ones — whatever the RNG produced. -/
theorem ba_link_count (N m : Nat) (hN : m + 1 ≤ N) (draws : List Nat) (st' : BASt)
    (h : baRun N m draws (baInit N m) = some st') (hfin : st'.j = N) :
    total st'.A N N = 2 * ((m * (N - m) : Nat) : Int) ∧
    (∀ a b, st'.A a b = st'.A b a) ∧ (∀ a, st'.A a a = false) := by
  have inv := ba_invariants N m hN draws st' h
  refine ⟨?_, inv.sym, inv.lf⟩
  have hit : st'.it = 0 := by rcases inv.fin with h0 | h1 <;> omega
  rw [inv.cnt, hit, hfin]; simp

/-- **each new node is linked to `m` distinct older nodes**: an accepted draw always
creates a link that was not there (the `last_child` test rejects repeated targets) and
whose other end is an older node. -/
theorem ba_new_link (N m : Nat) (st st' : BASt) (idx : Nat) (inv : BAInv N m st)
    (h : baStep N m st idx = some st') (hne : st' ≠ st) :
    ∃ i, i < st.j ∧ st.A i st.j = false ∧ st'.A i st.j = true ∧ st'.A st.j i = true := by
  rcases baStep_cases N m st st' idx h with rfl | ⟨i, hjN, hit, hi, hlc, hc⟩
  · exact absurd rfl hne
  · have hij : i < st.j := inv.tg i hi
    have hA : st.A i st.j = false := by
      have := inv.child i; simp only [hlc, iff_false, Bool.not_eq_true] at this; exact this
    refine ⟨i, hij, hA, ?_⟩
    rcases hc with ⟨_, rfl⟩ | ⟨_, rfl⟩ <;> simp only [baWrap, baLink, Adj.set] <;> grind


/-- the draws are values `int(uniform(0, n_targets))` can take: each is below the
`n_targets` of the state it is drawn in -/
def baDrawsOK (N m : Nat) : List Nat → BASt → Bool
  | [], _ => true
  | d :: ds, st => decide (d < st.nTargets) &&
      match baStep N m st d with
      | some st1 => baDrawsOK N m ds st1
      | none => true

/-- **no IndexError in the growth loop** (`N > m`): whatever the RNG returns, `targets[idx]`
and `targets[n_targets + it] = i` stay inside `targets` (length `2m(N−m)` — the generated
size expression — while `n_targets = 2m(j−m)` and `j < N`). -/
theorem ba_defined (N m : Nat) (hN : m + 1 ≤ N) (draws : List Nat)
    (ok : baDrawsOK N m draws (baInit N m) = true) :
    ∃ st', baRun N m draws (baInit N m) = some st' := by
  have gen : ∀ (draws : List Nat) (st : BASt), BAInv N m st → baDrawsOK N m draws st = true →
      ∃ st', baRun N m draws st = some st' := by
    intro draws
    induction draws with
    | nil => intro st _ _; exact ⟨st, rfl⟩
    | cons d ds ih =>
      intro st inv ok
      simp only [baDrawsOK, Bool.and_eq_true, decide_eq_true_eq] at ok
      obtain ⟨st1, h1⟩ := baStep_defined N m st d inv ok.1
      have ok2 := ok.2
      rw [h1] at ok2
      simp only [baRun, h1, Option.bind_some]
      exact ih st1 (baStep_inv N m st st1 d h1 inv) ok2
  exact gen draws _ (baInit_inv N m hN) ok

/-- the sizes the code allocates and the bookkeeping of `n_targets`, in every reachable state:
`len(targets) = 2m(N−m)`, `n_targets = 2m(j−m) ≤ len(targets)`. -/
theorem ba_targets_bookkeeping (N m : Nat) (hN : m + 1 ≤ N) (draws : List Nat) (st' : BASt)
    (h : baRun N m draws (baInit N m) = some st') :
    st'.targets.length = 2 * m * (N - m) ∧ st'.nTargets = 2 * m * (st'.j - m) ∧
      st'.nTargets ≤ st'.targets.length := by
  have inv := ba_invariants N m hN draws st' h
  refine ⟨inv.len, inv.nT, ?_⟩
  rw [inv.len, inv.nT]
  exact two_mul_mono m _ _ (by have := inv.jN; omega)

/-! ## the public methods: the kernels' preconditions are established by the wrappers

`SpatialNetwork.randomly_rewire_geomodel_*` builds `edges` from `graph.get_edgelist()`, `E`
from `n_links`, `degree` from `degree()`; `RandomlyRewireCrossLinks` builds `cross_A`,
`cross_links`; the theorems below need nothing but "the input network is a simple undirected
graph on `n` nodes" (and, for cross links, "the node lists are duplicate-free and disjoint"). -/

/-- **`randomly_rewire_geomodel_I/II/III`, whole method, every stream of draws**: the new
adjacency is a simple undirected graph with the degree of every node and the number of links
unchanged; the kernel's `edges` is still its edge list; at most `iterations` rewirings. -/
theorem geoMethod_invariants (mode : GeoMode) (D : Nat → Nat → Int) (eps : Int) (n : Nat)
    (A : Adj) (iterations : Nat) (draws : List (Nat × Nat)) (st' : GeoSt)
    (sym : ∀ i j, A i j = A j i) (lf : ∀ i, A i i = false)
    (supp : ∀ i j, A i j = true → i < n ∧ j < n)
    (h : geoMethod mode D eps n A iterations draws = some st') :
    (∀ a b, st'.A a b = st'.A b a) ∧ (∀ a, st'.A a a = false) ∧
    (∀ a b, st'.A a b = true → a < n ∧ b < n) ∧
    (∀ v, deg st'.A n v = deg A n v) ∧ total st'.A n n = total A n n ∧
    GeoInv n st'.A st'.edges ∧ st'.i ≤ iterations := by
  have inv0 := geoInv_edgeList n A sym lf supp
  unfold geoMethod at h
  obtain ⟨i1, i2, -, i4⟩ := geoRun_invariants n _ iterations draws _ st' h inv0
  refine ⟨i1.sym, i1.loopfree, ?_, i2, geoRun_total n _ iterations draws _ st' h inv0, i1,
    i4 (Nat.zero_le _)⟩
  intro a b hab
  obtain ⟨p, hp, hs⟩ := i1.complete a b hab
  have := i1.inb p hp
  simp only [sameLink] at hs
  omega

/-- **the method cannot raise IndexError**: `E = n_links` is half the number of ones, which is
the number of rows of `edges`, so every `floor(u·E)` with `0 ≤ u < 1` is a valid row. -/
theorem geoMethod_defined (mode : GeoMode) (D : Nat → Nat → Int) (eps : Int) (n : Nat)
    (A : Adj) (iterations : Nat) (draws : List (Nat × Nat)) (E : Nat)
    (sym : ∀ i j, A i j = A j i) (lf : ∀ i, A i i = false)
    (hE : total A n n = 2 * (E : Int)) (hd : ∀ d ∈ draws, d.1 < E ∧ d.2 < E) :
    ∃ st', geoMethod mode D eps n A iterations draws = some st' := by
  have hl : (edgeList n A).length = E := by
    have := edgeList_length n A sym lf; omega
  unfold geoMethod
  exact geoRun_defined _ iterations draws _ (by simpa [hl] using hd)

/-- **model III inside the method uses the true degrees throughout**: the `degree` array is
`degree()` of the input, and every state of the run has exactly these degrees, so
`geoStep_degree_pairs` speaks about the actual degree pairs of the current network. -/
theorem geoMethod_degree_array (mode : GeoMode) (D : Nat → Nat → Int) (eps : Int) (n : Nat)
    (A : Adj) (iterations : Nat) (draws : List (Nat × Nat)) (st' : GeoSt)
    (sym : ∀ i j, A i j = A j i) (lf : ∀ i, A i i = false)
    (supp : ∀ i j, A i j = true → i < n ∧ j < n)
    (h : geoMethod mode D eps n A iterations draws = some st') (v : Nat) :
    ({ mode := mode, D := D, eps := eps, degree := fun v => deg A n v } : GeoCfg).degree v
      = deg st'.A n v :=
  ((geoMethod_invariants mode D eps n A iterations draws st' sym lf supp h).2.2.2.1 v).symm

/-- **link lengths, whole method**: the links of the input network and of the rewired network
(each listed once) can be matched one to one with length differences of at most
(number of rewirings)·`inaccuracy` ≤ `iterations`·`inaccuracy`. -/
theorem geoMethod_link_lengths (mode : GeoMode) (D : Nat → Nat → Int) (eps : Int) (n : Nat)
    (A : Adj) (iterations : Nat) (draws : List (Nat × Nat)) (st' : GeoSt)
    (h : geoMethod mode D eps n A iterations draws = some st') :
    ∃ σ τ, BijOn (edgeList n A).length σ τ ∧ st'.edges.length = (edgeList n A).length ∧
      ∀ p e, (edgeList n A)[p]? = some e → ∃ e', st'.edges[σ p]? = some e' ∧
        closeBy ((st'.i : Int) * eps) (len D e) (len D e') := by
  unfold geoMethod at h
  obtain ⟨σ, τ, b, l, m⟩ := geoRun_link_lengths _ iterations draws _ st' h
  refine ⟨σ, τ, b, l, fun p e he => ?_⟩
  obtain ⟨e', h1, h2⟩ := m p e he
  exact ⟨e', h1, by simpa using h2⟩

/-- **model III over a whole run**: the degree pair (with respect to the `degree` array the
kernel was given) of the link stored at *every position* of the edge array is the same after
the run as before — the list of degree pairs over all links is literally unchanged. -/
theorem geoRun_degree_pairs (c : GeoCfg) (hm : c.mode = .III) (iterations : Nat)
    (draws : List (Nat × Nat)) (st st' : GeoSt) (h : geoRun c iterations draws st = some st')
    (p : Nat) (e : Nat × Nat) (he : st.edges[p]? = some e) :
    ∃ e', st'.edges[p]? = some e' ∧
      (c.degree e'.1, c.degree e'.2) = (c.degree e.1, c.degree e.2) :=
  geoRun_pairs c hm iterations draws st st' h p e he

/-- **`randomly_rewire_geomodel_III`, whole method**: the link at every position of the edge
list has, in the rewired network, end points with the same pair of (actual, current) degrees as
the link at that position of the input network: degree–degree correlations are conserved
exactly. -/
theorem geoMethod_degree_pairs (D : Nat → Nat → Int) (eps : Int) (n : Nat)
    (A : Adj) (iterations : Nat) (draws : List (Nat × Nat)) (st' : GeoSt)
    (sym : ∀ i j, A i j = A j i) (lf : ∀ i, A i i = false)
    (supp : ∀ i j, A i j = true → i < n ∧ j < n)
    (h : geoMethod .III D eps n A iterations draws = some st')
    (p : Nat) (e : Nat × Nat) (he : (edgeList n A)[p]? = some e) :
    ∃ e', st'.edges[p]? = some e' ∧
      (deg st'.A n e'.1, deg st'.A n e'.2) = (deg A n e.1, deg A n e.2) := by
  have hd := (geoMethod_invariants .III D eps n A iterations draws st' sym lf supp h).2.2.2.1
  unfold geoMethod at h
  obtain ⟨e', h1, h2⟩ := geoRun_degree_pairs _ rfl iterations draws _ st' h p e he
  exact ⟨e', h1, by rw [hd, hd]; exact h2⟩

/-- **`RandomlyRewireCrossLinks`, whole method, every stream of draws, every number of swaps**:
for a simple undirected network on `N` nodes and duplicate-free disjoint node lists, the
returned adjacency is simple, equals the input outside the two cross blocks (all links inside
a group and to outside nodes), every node keeps its degree, and the new cross adjacency has
the old row and column sums (cross degrees of both groups) and the old number of links. -/
theorem randomlyRewireCrossLinks_spec (A : Adj) (nodes1 nodes2 : List Nat) (N swaps : Nat)
    (draws : List (Nat × Nat)) (A' : Adj) (st' : CrossSt)
    (nd1 : NodupIdx nodes1) (nd2 : NodupIdx nodes2) (dis : ∀ x, x ∈ nodes1 → x ∉ nodes2)
    (b1 : ∀ x ∈ nodes1, x < N) (b2 : ∀ x ∈ nodes2, x < N)
    (sym : ∀ a b, A a b = A b a) (lf : ∀ a, A a a = false)
    (h : randomlyRewireCrossLinks A nodes1 nodes2 swaps draws = some (A', st')) :
    (∀ a b, A' a b = A' b a) ∧ (∀ a, A' a a = false) ∧
    (∀ a b, ¬ (a ∈ nodes1 ∧ b ∈ nodes2) → ¬ (a ∈ nodes2 ∧ b ∈ nodes1) → A' a b = A a b) ∧
    (∀ v, deg A' N v = deg A N v) ∧
    crossBlock A' nodes1 nodes2 = st'.C ∧
    (∀ i, deg st'.C nodes2.length i = deg (crossBlock A nodes1 nodes2) nodes2.length i) ∧
    (∀ j, colDeg st'.C nodes1.length j = colDeg (crossBlock A nodes1 nodes2) nodes1.length j) ∧
    total st'.C nodes1.length nodes2.length
      = total (crossBlock A nodes1 nodes2) nodes1.length nodes2.length := by
  unfold randomlyRewireCrossLinks at h
  simp only [Option.map_eq_some_iff, Prod.mk.injEq] at h
  obtain ⟨st, hrun, rfl, rfl⟩ := h
  have inv0 := crossInv_onesList nodes1.length nodes2.length (crossBlock A nodes1 nodes2)
    (crossBlock_supp A nodes1 nodes2)
  obtain ⟨n1, n2, n3, n4, n5, n6⟩ := crossRewire_network A nodes1 nodes2 swaps draws _ st nd1 nd2
    dis sym lf hrun inv0
  obtain ⟨j1, -, -, -, j5⟩ := crossRun_invariants _ _ swaps draws _ st hrun inv0
  refine ⟨n1, n2, n3, ?_, ?_, n5, n6, j5⟩
  · intro v
    exact crossRewire_degrees A nodes1 nodes2 N swaps draws _ st nd1 nd2 dis b1 b2 sym
      (fun i j x y hx hy => crossBlock_eq A nodes1 nodes2 i j x y hx hy) hrun inv0 v
  · funext i j
    cases hx : nodes1[i]? with
    | none =>
      cases hc : st.C i j with
      | false => simp [crossBlock, hx]
      | true =>
        obtain ⟨p, hp, e⟩ := j1.complete i j hc
        have := (j1.inb p hp).1; rw [e] at this
        have := (List.getElem?_eq_none_iff.1 hx); simp only at *; omega
    | some x =>
      cases hy : nodes2[j]? with
      | none =>
        cases hc : st.C i j with
        | false => simp [crossBlock, hx, hy]
        | true =>
          obtain ⟨p, hp, e⟩ := j1.complete i j hc
          have := (j1.inb p hp).2; rw [e] at this
          have := (List.getElem?_eq_none_iff.1 hy); simp only at *; omega
      | some y =>
        simp only [crossBlock, hx, hy]
        exact n4 i j x y hx hy

/-- the number of cross links handed to the kernel is `cross_A.sum()`, the number of rows of
`cross_links` (so every `randint(number_cross_links)` is a valid row). -/
theorem randomlyRewireCrossLinks_count (A : Adj) (nodes1 nodes2 : List Nat) :
    total (crossBlock A nodes1 nodes2) nodes1.length nodes2.length
      = ((onesList nodes1.length nodes2.length (crossBlock A nodes1 nodes2)).length : Int) :=
  onesList_length _ _ _

/-- **`RandomlySetCrossLinks(_sparse)`, whole method**: simple, untouched outside the cross
blocks, cross block = the new cross matrix, which holds exactly `number_cross_links` ones once
the loops have finished (`done = k`). -/
theorem randomlySetCrossLinks_spec (A : Adj) (nodes1 nodes2 : List Nat) (k : Int)
    (draws : List (Nat × Nat))
    (nd1 : NodupIdx nodes1) (nd2 : NodupIdx nodes2) (dis : ∀ x, x ∈ nodes1 → x ∉ nodes2)
    (sym : ∀ a b, A a b = A b a) (lf : ∀ a, A a a = false)
    (hd : ∀ d ∈ draws, d.1 < nodes1.length ∧ d.2 < nodes2.length) :
    let R := randomlySetCrossLinks A nodes1 nodes2 k draws
    (∀ a b, R.1 a b = R.1 b a) ∧ (∀ a, R.1 a a = false) ∧
    (∀ a b, ¬ (a ∈ nodes1 ∧ b ∈ nodes2) → ¬ (a ∈ nodes2 ∧ b ∈ nodes1) → R.1 a b = A a b) ∧
    (∀ i j x y, nodes1[i]? = some x → nodes2[j]? = some y →
      R.1 x y = R.2.1 i j ∧ R.1 y x = R.2.1 i j) ∧
    (R.2.2 = k.toNat → total R.2.1 nodes1.length nodes2.length = k.toNat) ∧
    total R.2.1 nodes1.length nodes2.length ≤ k.toNat :=
  by
  obtain ⟨c1, c2, c3, c4, c5⟩ := crossSet_network A nodes1 nodes2 k.toNat draws nd1 nd2 dis sym lf hd
  refine ⟨c1, c2, c3, c4, c5, ?_⟩
  obtain ⟨e1, e2, -⟩ := crossSet_count nodes1.length nodes2.length k.toNat draws (fun _ _ => false) hd
  have hz : total (fun _ _ => false) nodes1.length nodes2.length = 0 := by
    unfold total deg; simp only [b2i_false, rsum_zero]
  simp only [randomlySetCrossLinks]
  rw [e1, hz]; omega

/-- **the requested number never exceeds the number of cells**: for any density / number /
null-model choice, the count the method hands to the kernel is at most `N1·N2` when the current
number of cross links is (it always is) — so the `while True` of the kernel can always find a
free cell (`crossSet_progress`). -/
theorem setCount_le (dens : Option Rat) (number : Option Int) (N1 N2 : Nat) (current : Int)
    (hc : current ≤ (N1 : Int) * (N2 : Int)) :
    setCount dens number N1 N2 current ≤ (N1 : Int) * (N2 : Int) ∧
    setCountSparse dens number N1 N2 current ≤ (N1 : Int) * (N2 : Int) := by
  constructor <;>
  · simp only [setCount, setCountSparse, setCountWith, setTooMany, sparseTooMany]
    split <;> simp_all <;> omega

/-- as long as fewer than `m·n` cells are set there is an in-range draw the loop accepts -/
theorem crossSet_progress (m n : Nat) (C : Adj) (h : total C m n < (m : Int) * (n : Int)) :
    ∃ i j, i < m ∧ j < n ∧ C i j = false := by
  apply Classical.byContradiction
  intro hno
  have hall : ∀ i j, i < m → j < n → C i j = true := by
    intro i j hi hj
    cases hc : C i j with
    | true => rfl
    | false => exact absurd ⟨i, j, hi, hj, hc⟩ hno
  have hconst : ∀ (c : Int) (k : Nat), rsum (fun _ => c) k = (k : Int) * c := by
    intro c k
    induction k with
    | zero => simp [rsum]
    | succ k ih => simp only [rsum, ih]; rw [Int.natCast_succ, Int.add_mul]; omega
  have : total C m n = (m : Int) * (n : Int) := by
    unfold total
    rw [rsum_congr m (g := fun _ => (n : Int)) (fun i hi => by
      unfold deg
      rw [rsum_congr n (g := fun _ => (1 : Int)) (fun j hj => by rw [hall i j hi hj]; rfl)]
      rw [hconst]; omega)]
    exact hconst _ _
  omega

/-- **`Network.randomly_rewire`, pyunicorn's part** (`set_edge_list(graph.get_edgelist(),
n_nodes=N)` after igraph's `rewire`): if the rewired edge list is that of a simple graph on the
same `n` nodes in which every node has as many incident links as before (igraph's contract —
trusted), then the rebuilt network has `n` nodes, is simple and undirected, has exactly the
listed links, and every node has its old degree. -/
theorem randomly_rewire_rebuild (n : Nat) (A : Adj) (es' : List (Nat × Nat))
    (sym : ∀ i j, A i j = A j i) (lf : ∀ i, A i i = false)
    (supp : ∀ i j, A i j = true → i < n ∧ j < n)
    (hs : SimpleEdges n es') (hdeg : ∀ v, inc es' v = inc (edgeList n A) v) :
    ∃ F, fromEdges n es' = some F ∧ (∀ a b, F a b = F b a) ∧ (∀ a, F a a = false) ∧
      (∀ a b, F a b = true ↔ ∃ e ∈ es', sameLink e (a, b)) ∧
      (∀ a b, F a b = true → a < n ∧ b < n) ∧
      (∀ v, deg F n v = deg A n v) := by
  refine ⟨linkAny es', fromEdges_some n es' (fun e he => ⟨(hs.1 e he).1, (hs.1 e he).2.1⟩),
    ?_, ?_, linkAny_iff es', ?_, ?_⟩
  · intro a b
    simp only [linkAny]
    congr 1; funext e; grind
  · intro a
    cases hc : linkAny es' a a with
    | false => rfl
    | true =>
      obtain ⟨e, he, hse⟩ := (linkAny_iff es' a a).1 hc
      have := (hs.1 e he).2.2
      simp only [sameLink] at hse; omega
  · intro a b hab
    obtain ⟨e, he, hse⟩ := (linkAny_iff es' a b).1 hab
    have := hs.1 e he
    simp only [sameLink] at hse; omega
  · intro v
    have inv0 := geoInv_edgeList n A sym lf supp
    rw [deg_linkAny n es' hs v, hdeg v, ← deg_linkAny n _ (simpleEdges_of_geoInv n A _ inv0) v,
      linkAny_of_geoInv n A _ inv0]

/-- without `n_nodes` the edge list alone cannot say how many nodes there are; with it, an
index `≥ N` is rejected (`coo_matrix` raises) rather than silently enlarging the network. -/
theorem fromEdges_checks_range (N : Nat) (es : List (Nat × Nat)) (F : Adj)
    (h : fromEdges N es = some F) : ∀ e ∈ es, e.1 < N ∧ e.2 < N :=
  (fromEdges_eq N es F h).2

/-- **`set_random_links_by_distance`**: the new adjacency is symmetric and loop-free whenever
the link-probability matrix `p = exp(a + b·D)` is symmetric (`D = grid.distance()` is) — for
*every* random matrix `P`, because `P + Pᵀ` is symmetric as soon as the addition is commutative
(true of IEEE floats as of rationals).  The number of nodes is the size of `D`. -/
theorem distKernel_simple {α : Type} (ge : α → α → Bool) (half : α → α) (add : α → α → α)
    (p P : Nat → Nat → α) (comm : ∀ x y, add x y = add y x) (psym : ∀ i j, p i j = p j i) :
    (∀ i j, distKernelG ge half add p P i j = distKernelG ge half add p P j i) ∧
    (∀ i, distKernelG ge half add p P i i = false) := by
  constructor
  · intro i j
    simp only [distKernelG]
    by_cases h : i = j
    · subst h; rfl
    · have h' : ¬ j = i := fun e => h e.symm
      rw [if_neg h, if_neg h', psym i j, comm (P i j) (P j i)]
  · intro i; simp [distKernelG]

/-- the instance the driver evaluates -/
theorem distKernel_rat_simple (p P : Nat → Nat → Rat) (psym : ∀ i j, p i j = p j i) :
    (∀ i j, distKernel p P i j = distKernel p P j i) ∧ (∀ i, distKernel p P i i = false) :=
  distKernel_simple _ _ _ p P (fun x y => Rat.add_comm x y) psym

/-! ## Round 3

### the source text is the model (`translate/gen_C17.py` → `Generated/StructC17.lean`)

`Model/Random.lean` executes the *generated* definitions; the theorems above are about the closed
forms.  The following equalities (proved in `Lemmas/RandomSrc.lean`, restated here so that they
are audited obligations) are what connects the two.  Editing a subscript, a comparison, a written
value or the order of the writes in `numerics.pyx` changes the left-hand sides. -/

/-- **`cond_len_c1`, `cond_len_c2`, `cond_deg_corr` of `numerics.pyx`** are condition C1
(either matching of the two old with the two new links within `eps`), condition C2 (for each of
the four nodes, old and new link read in that node's row of `D` within `eps`) and "the exchanged
partners `s, k` resp. `t, l` have equal degree". -/
theorem source_conditions (D : Nat → Nat → Int) (eps : Int) (degree : Nat → Int) (s t k l : Nat) :
    condLenC1 D eps s t k l = condC1 D eps s t k l ∧
    condLenC2 D eps s t k l = condC2 D eps s t k l ∧
    condDegCorr degree s t k l = (degree s == degree k && degree t == degree l) :=
  ⟨condLenC1_eq D eps s t k l, condLenC2_eq D eps s t k l, condDegCorr_eq degree s t k l⟩

/-- **the loop body of `_randomly_rewire_geomodel` and what the three wrappers hand over**: the
executed `if`, the eight writes, the two rows written back and the `while` test are the closed
forms used by `geoStep_inv` … `geoMethod_degree_pairs`. -/
theorem source_geo_loop (c : GeoCfg) (A : Adj) (s t k l i n : Nat) :
    geoAcceptM c A s t k l = geoAccept c A s t k l ∧
    (s ≠ k → s ≠ l → t ≠ k → t ≠ l → s ≠ t → k ≠ l → ∀ a b, rewireM A s t k l a b =
      if (a = s ∧ b = l) ∨ (a = l ∧ b = s) ∨ (a = t ∧ b = k) ∨ (a = k ∧ b = t) then true
      else if (a = s ∧ b = t) ∨ (a = t ∧ b = s) ∨ (a = k ∧ b = l) ∨ (a = l ∧ b = k) then false
      else A a b) ∧
    geoEdge1 s t k l = (s, l) ∧ geoEdge2 s t k l = (k, t) ∧ (geoWhile i n = true ↔ i < n) ∧
    wrapperI = (.cond_len_c1, .null) ∧ wrapperII = (.cond_len_c2, .null) ∧
    wrapperIII = (.cond_len_c2, .cond_deg_corr) :=
  ⟨geoAcceptM_eq c A s t k l,
    fun hsk hsl htk htl hst hkl a b => rewire_apply A s t k l a b hsk hsl htk htl hst hkl,
    rfl, rfl, geoWhile_iff i n, rfl, rfl, rfl⟩

/-- **the cross-link kernels**: tests, writes, the exchange of the link ends (three moves through
the local `b`) and the subscripts of `overwriteAdjacency` (`nodes1[i]`, `nodes2[j]`, `cross_A[i,j]`,
written to `A[n1,n2]` and `A[n2,n1]`). -/
theorem source_cross_kernels (C : Adj) (a b c e i j n1 n2 : Nat) (v : Bool) :
    setBreak C i j = (!C i j) ∧ applyWrites C (setWrites i j) = C.set i j true ∧
    rewBreak C a b c e = (!(C a e || C c b)) ∧
    (a ≠ c → b ≠ e → ∀ x y, applyWrites C (rewWrites a b c e) x y =
      if (x = a ∧ y = e) ∨ (x = c ∧ y = b) then true
      else if (x = a ∧ y = b) ∨ (x = c ∧ y = e) then false else C x y) ∧
    owRead i j = (i, j) ∧ owCell i j = (i, j) ∧
    (∀ w, w ∈ owWrites n1 n2 v ↔ (w = (n1, n2, v) ∨ w = (n2, n1, v))) ∧
    owLoops = [("i", "m"), ("j", "n")] :=
  ⟨setBreak_eq C i j, rfl, rewBreak_eq C a b c e,
    fun hac hbe x y => swap_apply C a b c e x y hac hbe, rfl, rfl,
    fun w => mem_owWrites n1 n2 v w, rfl⟩

/-- the exchange `b = cross_links[e1,1]; cross_links[e1,1] = cross_links[e2,1]; cross_links[e2,1] = b`
turns the rows `(a,b)`, `(c,e)` into `(a,e)`, `(c,b)` (also when both draws hit the same row). -/
theorem source_cross_exchange (L : List (Nat × Nat)) (p q a b c e : Nat) (hp : p < L.length)
    (hq : q < L.length) (e1 : L[p] = (a, b)) (e2 : L[q] = (c, e)) :
    (runMoves p q rewMoves (b, L)).2 = (L.set p (a, e)).set q (c, b) :=
  runMoves_eq L p q a b c e hp hq e1 e2

/-- **`RandomlySetCrossLinks_sparse` is a Python copy of the compiled kernel + `overwriteAdjacency`**
(same test, same writes, same subscripts, same draw expression as the geo kernel): the one model
`randomlySetCrossLinks` serves both methods. -/
theorem source_sparse_copy : sparseBreak = setBreak ∧ sparseWrites = setWrites ∧
    sparseOwRead = owRead ∧ sparseOwCell = owCell ∧
    (∀ a b v w, w ∈ sparseOwWrites a b v ↔ w ∈ owWrites a b v) ∧
    sparseDraw = geoDraw := sparse_copy_eq

/-- **which node list indexes what** (`RandomlyRewireCrossLinks`, `RandomlySetCrossLinks`): the
cross adjacency, the list of cross links and the two index arrays handed to the kernel are built
from the caller's `node_list1` / `node_list2` *in the caller's order*, without sorting or
de-duplication — row `i` of `cross_A` is node `node_list1[i]` on both sides, which is what
`crossBlock` / `overwrite` (one list for both uses) assume. -/
theorem source_node_list_indexing :
    rewireArgs = [("A_new", "network.adjacency.astype(ADJ)"),
      ("cross_A", "network.cross_adjacency(node_list1, node_list2).astype(ADJ)"),
      ("cross_links", "np.array(cross_A.nonzero(), dtype=NODE).transpose()"),
      ("nodes1", "np.array(node_list1, dtype=NODE)"), ("nodes2", "np.array(node_list2, dtype=NODE)"),
      ("number_cross_links", "cross_A.sum()"), ("number_swaps", "NODE(swaps * number_cross_links)")] ∧
    setArgs = [("A_new", "network.adjacency.astype(ADJ)"), ("cross_A_new", "np.zeros((N1, N2), dtype=ADJ)"),
      ("number_cross_links", "number_cross_links"),
      ("nodes1", "np.array(node_list1, dtype=NODE)"), ("nodes2", "np.array(node_list2, dtype=NODE)"),
      ("N1", "len(nodes1)"), ("N2", "len(nodes2)")] ∧
    setCrossA = "network.cross_adjacency(nodes1, nodes2).astype(ADJ)" := by
  refine ⟨?_, ?_, ?_⟩ <;> decide

/-! ### cross degrees per node, for arbitrary (unsorted, duplicate-free) node lists -/

/-- **writing the unchanged cross block back is the identity**: `overwriteAdjacency` with the
cross adjacency just extracted with the same two lists returns the input network, whatever the
order of the lists (a disagreement between the two sites about which row is which node would
show here). -/
theorem overwrite_crossBlock_id (A : Adj) (nodes1 nodes2 : List Nat)
    (nd1 : NodupIdx nodes1) (nd2 : NodupIdx nodes2) (dis : ∀ x, x ∈ nodes1 → x ∉ nodes2)
    (sym : ∀ a b, A a b = A b a) :
    overwrite A (crossBlock A nodes1 nodes2) nodes1 nodes2 = A := by
  funext a b
  by_cases h1 : a ∈ nodes1 ∧ b ∈ nodes2
  · obtain ⟨i, hi⟩ := List.getElem?_of_mem h1.1
    obtain ⟨j, hj⟩ := List.getElem?_of_mem h1.2
    rw [(overwrite_block A _ nodes1 nodes2 nd1 nd2 dis i j a b hi hj).1,
      ← crossBlock_eq A nodes1 nodes2 i j a b hi hj]
  · by_cases h2 : a ∈ nodes2 ∧ b ∈ nodes1
    · obtain ⟨i, hi⟩ := List.getElem?_of_mem h2.2
      obtain ⟨j, hj⟩ := List.getElem?_of_mem h2.1
      rw [(overwrite_block A _ nodes1 nodes2 nd1 nd2 dis i j b a hi hj).2,
        ← crossBlock_eq A nodes1 nodes2 i j b a hi hj, sym]
    · exact overwrite_untouched A _ _ _ a b h1 h2

/-- **`RandomlyRewireCrossLinks(swaps = 0)` returns the input network**, for every order of the
node lists and every stream. -/
theorem randomlyRewireCrossLinks_zero (A : Adj) (nodes1 nodes2 : List Nat) (draws : List (Nat × Nat))
    (nd1 : NodupIdx nodes1) (nd2 : NodupIdx nodes2) (dis : ∀ x, x ∈ nodes1 → x ∉ nodes2)
    (sym : ∀ a b, A a b = A b a) :
    (randomlyRewireCrossLinks A nodes1 nodes2 0 draws).map (·.1) = some A := by
  have hrun : ∀ st, crossRun 0 draws st = some st := by
    intro st; cases draws <;> simp [crossRun]
  simp only [randomlyRewireCrossLinks, hrun, Option.map_some]
  rw [overwrite_crossBlock_id A nodes1 nodes2 nd1 nd2 dis sym]

/-- **cross degrees and internal links per node — independent of the order of the node lists**:
after `RandomlyRewireCrossLinks`, every node of group 1 has as many neighbours in group 2 as
before, every node of group 2 as many in group 1, and all links inside a group are as they were.
`grpDeg A N G x` counts the neighbours of `x` among the *set* of nodes `G`; nothing in the
statement refers to positions in the lists. -/
theorem randomlyRewireCrossLinks_group_degrees (A : Adj) (nodes1 nodes2 : List Nat) (N swaps : Nat)
    (draws : List (Nat × Nat)) (A' : Adj) (st' : CrossSt)
    (nd1 : NodupIdx nodes1) (nd2 : NodupIdx nodes2) (dis : ∀ x, x ∈ nodes1 → x ∉ nodes2)
    (b1 : ∀ x ∈ nodes1, x < N) (b2 : ∀ x ∈ nodes2, x < N)
    (sym : ∀ a b, A a b = A b a) (lf : ∀ a, A a a = false)
    (h : randomlyRewireCrossLinks A nodes1 nodes2 swaps draws = some (A', st')) :
    (∀ x ∈ nodes1, grpDeg A' N nodes2 x = grpDeg A N nodes2 x) ∧
    (∀ y ∈ nodes2, grpDeg A' N nodes1 y = grpDeg A N nodes1 y) ∧
    (∀ x y, x ∈ nodes1 → y ∈ nodes1 → A' x y = A x y) ∧
    (∀ x y, x ∈ nodes2 → y ∈ nodes2 → A' x y = A x y) := by
  obtain ⟨s1, -, unt, -, hblock, hrow, hcol, -⟩ :=
    randomlyRewireCrossLinks_spec A nodes1 nodes2 N swaps draws A' st' nd1 nd2 dis b1 b2 sym lf h
  refine ⟨?_, ?_, ?_, ?_⟩
  · intro x hx
    obtain ⟨i, hi⟩ := List.getElem?_of_mem hx
    rw [grpDeg_eq_row A' N nodes1 nodes2 nd2 b2 i x hi, hblock, hrow i,
      ← grpDeg_eq_row A N nodes1 nodes2 nd2 b2 i x hi]
  · intro y hy
    obtain ⟨j, hj⟩ := List.getElem?_of_mem hy
    rw [grpDeg_eq_col A' N nodes1 nodes2 nd1 b1 s1 j y hj, hblock, hcol j,
      ← grpDeg_eq_col A N nodes1 nodes2 nd1 b1 sym j y hj]
  · intro x y hx hy
    exact unt x y (fun hh => dis y hy hh.2) (fun hh => dis x hx hh.1)
  · intro x y hx hy
    exact unt x y (fun hh => dis x hh.1 hx) (fun hh => dis y hh.2 hy)

/-! ### configuration model and `BarabasiAlbert_igraph`: `simplify` -/

/-- **`Network.Configuration(degree)`: the requested degrees are never exceeded.**  igraph's
`Degree_Sequence` returns a (multi)graph on `n` nodes in which node `v` has `degree[v]` incident
link ends (its contract — trusted, checked on every call by the harness; loops count twice);
pyunicorn's part is `simplify()` + `get_adjacency`: the result is symmetric, loop-free, contains
only links igraph produced, and every node has at most the requested degree. -/
theorem configuration_spec (n : Nat) (es : List (Nat × Nat)) (degree : Nat → Int)
    (hinc : ∀ v, inc es v = degree v) :
    (∀ a b, simplified es a b = simplified es b a) ∧ (∀ a, simplified es a a = false) ∧
    (∀ v, deg (simplified es) n v ≤ degree v) ∧
    (∀ a b, simplified es a b = true → ∃ e ∈ es, sameLink e (a, b)) := by
  refine ⟨?_, ?_, ?_, ?_⟩
  · intro a b
    rw [Bool.eq_iff_iff, simplified_iff, simplified_iff]
    simp only [sameLink]
    constructor <;> rintro ⟨h, e, he, hs⟩ <;> exact ⟨fun hh => h hh.symm, e, he, by omega⟩
  · intro a; simp [simplified]
  · intro v; rw [← hinc v]; exact deg_simplified_le n es v
  · intro a b hab; exact ((simplified_iff es a b).1 hab).2

/-- …and when igraph's graph happens to be simple already, every node gets exactly the requested
degree. -/
theorem configuration_exact_of_simple (n : Nat) (es : List (Nat × Nat)) (degree : Nat → Int)
    (hs : SimpleEdges n es) (hinc : ∀ v, inc es v = degree v) (v : Nat) :
    deg (simplified es) n v = degree v := by
  rw [simplified_of_simple n es hs, deg_linkAny n es hs v, hinc v]

/-! ### round 5: `ErdosRenyi` / `WattsStrogatz` — prescribed link count -/

/-- **the adjacency matrix pyunicorn reads out of an igraph generator** (`ErdosRenyi`,
`WattsStrogatz`: `np.array(graph.get_adjacency(type=2).data)`): if igraph's graph is simple on `n` nodes
(its contract — trusted, checked on every call by the harness), the matrix exists (no index out of
range), is symmetric and loop-free, contains exactly the listed links, every node has as many
neighbours as incident links, and the matrix has **exactly twice as many ones as the graph has links**. -/
theorem generator_adjacency_spec (n : Nat) (es : List (Nat × Nat)) (hs : SimpleEdges n es) :
    ∃ F, fromEdges n es = some F ∧ (∀ a b, F a b = F b a) ∧ (∀ a, F a a = false) ∧
      (∀ a b, F a b = true ↔ ∃ e ∈ es, sameLink e (a, b)) ∧
      (∀ a b, F a b = true → a < n ∧ b < n) ∧
      (∀ v, deg F n v = inc es v) ∧ total F n n = 2 * (es.length : Int) := by
  refine ⟨linkAny es, fromEdges_some n es (fun e he => ⟨(hs.1 e he).1, (hs.1 e he).2.1⟩),
    ?_, ?_, linkAny_iff es, ?_, deg_linkAny n es hs, total_linkAny n es hs⟩
  · intro a b
    simp only [linkAny]
    congr 1; funext e; grind
  · intro a
    cases hc : linkAny es a a with
    | false => rfl
    | true =>
      obtain ⟨e, he, hse⟩ := (linkAny_iff es a a).1 hc
      have := (hs.1 e he).2.2
      simp only [sameLink] at hse; omega
  · intro a b hab
    obtain ⟨e, he, hse⟩ := (linkAny_iff es a b).1 hab
    have := hs.1 e he
    simp only [sameLink] at hse; omega

/-- **the source of the two igraph-backed generators is what the model says** (regenerated on every
run): the first branch of `ErdosRenyi` is taken iff only `link_probability` is given and calls
`Erdos_Renyi(n=n_nodes, p=link_probability)`, the second iff only `n_links` is given and calls
`Erdos_Renyi(n=n_nodes, m=n_links)` (arguments normalised by the translator), `WattsStrogatz` calls
`Watts_Strogatz(dim=1, size=N, nei=k, p=p)`, and both return the plain adjacency read-out — no
`simplify()`, no post-processing. -/
theorem source_generators :
    (∀ p m, erTest1 p m = (p && !m)) ∧ (∀ p m, erTest2 p m = (!p && m)) ∧
    erBranch1 = .byProbability ∧ erBranch2 = .byLinkCount ∧
    erReturn = "np.array(graph.get_adjacency(type=2).data)" ∧
    wsCall = [("dim", "1"), ("nei", "k"), ("p", "p"), ("size", "N")] ∧
    wsReturn = "np.array(graph.get_adjacency(type=2).data)" := by
  refine ⟨fun p m => by cases p <;> cases m <;> rfl, fun p m => by cases p <;> cases m <;> rfl,
    rfl, rfl, by decide, by decide, by decide⟩

/-- **`Network.ErdosRenyi`: exactly the prescribed number of links.**  The call is refused
(`ValueError`) exactly when both or neither of `link_probability` / `n_links` are given; with
`n_links` alone igraph is asked for `m = n_links` links, and for the simple graph with that many links it
returns (contract) the adjacency matrix has `2·n_links` ones, is symmetric and loop-free.
(`Network.WattsStrogatz(N, k, p)`: the same read-out; igraph's ring lattice rewiring keeps `N·k` links.) -/
theorem erdosRenyi_spec (hasP hasM : Bool) (n nLinks : Nat) (es : List (Nat × Nat))
    (hs : SimpleEdges n es) (hm : erdosRenyiCall hasP hasM = some .byLinkCount → es.length = nLinks) :
    (erdosRenyiCall hasP hasM = none ↔ hasP = hasM) ∧
    (erdosRenyiCall hasP hasM = some .byLinkCount ↔ (hasP = false ∧ hasM = true)) ∧
    ∃ F, fromEdges n es = some F ∧ (∀ a b, F a b = F b a) ∧ (∀ a, F a a = false) ∧
      (erdosRenyiCall hasP hasM = some .byLinkCount → total F n n = 2 * (nLinks : Int)) := by
  obtain ⟨F, hF, sym, lf, -, -, -, htot⟩ := generator_adjacency_spec n es hs
  refine ⟨by cases hasP <;> cases hasM <;> simp [erdosRenyiCall, erTest1, erTest2, erBranch1, erBranch2],
    by cases hasP <;> cases hasM <;> simp [erdosRenyiCall, erTest1, erTest2, erBranch1, erBranch2],
    F, hF, sym, lf, ?_⟩
  intro hc
  rw [htot, hm hc]

/-! ### draws: "index in range" from the RNG's contract `0 ≤ u < 1` -/

/-- **`np.floor(rd.random() * E)` and `int(random.random() * N)`** (the generated expressions)
are valid indices whenever `0 ≤ u < 1` and the array has at least one row. -/
theorem draw_in_range (u : Rat) (E : Int) (h0 : 0 ≤ u) (h1 : u < 1) (hE : 0 < E) :
    (0 ≤ geoDraw u E ∧ geoDraw u E < E) ∧ (0 ≤ sparseDraw u E ∧ sparseDraw u E < E) :=
  ⟨geoDraw_range u E h0 h1 hE, geoDraw_range u E h0 h1 hE⟩

/-- **`randomly_rewire_geomodel_I/II/III` cannot raise IndexError, stated for the RNG values**:
for a simple undirected network with `E ≥ 1` links and any values `u ∈ [0, 1)` returned by
`rd.random()`, the run is defined. -/
theorem geoMethod_defined_uniform (mode : GeoMode) (D : Nat → Nat → Int) (eps : Int) (n : Nat)
    (A : Adj) (iterations : Nat) (us : List (Rat × Rat)) (E : Nat)
    (sym : ∀ i j, A i j = A j i) (lf : ∀ i, A i i = false)
    (hE : total A n n = 2 * (E : Int)) (hpos : 0 < E)
    (hu : ∀ u ∈ us, (0 ≤ u.1 ∧ u.1 < 1) ∧ (0 ≤ u.2 ∧ u.2 < 1)) :
    ∃ st', geoMethod mode D eps n A iterations
      (us.map fun u => ((geoDraw u.1 E).toNat, (geoDraw u.2 E).toNat)) = some st' := by
  apply geoMethod_defined mode D eps n A iterations _ E sym lf hE
  intro d hd
  simp only [List.mem_map] at hd
  obtain ⟨u, hu', rfl⟩ := hd
  obtain ⟨⟨a0, a1⟩, ⟨c0, c1⟩⟩ := hu u hu'
  have r1 := geoDraw_range u.1 E a0 a1 (by omega)
  have r2 := geoDraw_range u.2 E c0 c1 (by omega)
  simp only
  omega

/-! ### existence of an admissible swap: what "defined" means for the rewiring loops -/

/-- **`_randomlyRewireCrossLinks` terminates iff an admissible pair of cross links exists**:
if there is none, no stream of draws ever changes the state (the `while True` never breaks);
if there is one, some draw makes the swap.  (`crossAdmissible` is executed by the driver and
compared with the behaviour of the compiled kernel under an exhaustive stream.) -/
theorem crossRewire_admissible (swaps : Nat) (st : CrossSt) :
    (crossAdmissible st.C st.links = false →
      ∀ draws st', crossRun swaps draws st = some st' → st' = st) ∧
    (crossAdmissible st.C st.links = true →
      ∃ d st', crossStep st d = some st' ∧ st'.done = st.done + 1) :=
  ⟨fun hno draws st' h => crossRun_stuck swaps draws st st' hno h, crossStep_progress st⟩

/-- **the geographical rewiring loop likewise**: without an admissible pair of links every draw
is rejected and the state never changes; with one, some draw rewires. -/
theorem geoRewire_admissible (c : GeoCfg) (iterations : Nat) (st : GeoSt) :
    (geoAdmissible c st.A st.edges = false →
      ∀ draws st', geoRun c iterations draws st = some st' → st' = st) ∧
    (geoAdmissible c st.A st.edges = true →
      ∃ d st', geoStep c st d = some st' ∧ st'.i = st.i + 1) :=
  ⟨fun hno draws st' h => geoRun_stuck c iterations draws st st' hno h, geoStep_progress c st⟩

/-! ### `set_random_links_by_distance`: the hypothesis is on the distance matrix only -/

/-- `p = exp(a + b·D)` is an *element-wise* function of `D`, so it is symmetric as soon as
`D = grid.distance()` is (property C12); nothing about `exp` or the float arithmetic is needed:
for every function `f`, every symmetric `D` and every random matrix `P` the result is a simple
undirected graph. -/
theorem distKernel_of_distance {α β : Type} (ge : α → α → Bool) (half : α → α) (add : α → α → α)
    (f : β → α) (D : Nat → Nat → β) (P : Nat → Nat → α)
    (comm : ∀ x y, add x y = add y x) (Dsym : ∀ i j, D i j = D j i) :
    (∀ i j, distKernelG ge half add (fun i j => f (D i j)) P i j
        = distKernelG ge half add (fun i j => f (D i j)) P j i) ∧
    (∀ i, distKernelG ge half add (fun i j => f (D i j)) P i i = false) :=
  distKernel_simple ge half add _ P comm (fun i j => by rw [Dsym i j])

/-! ## non-vacuity: concrete states satisfying the hypotheses, with a rewiring that happens -/

/-- two disjoint links `0—1`, `2—3` -/
def exA : Adj := fun i j =>
  (i == 0 && j == 1) || (i == 1 && j == 0) || (i == 2 && j == 3) || (i == 3 && j == 2)
def exCfg (mode : GeoMode) : GeoCfg :=
  { mode := mode, D := fun i j => if i = j then 0 else 4, eps := 1, degree := fun _ => 1 }

example : GeoInv 4 exA [(0, 1), (2, 3)] := by
  refine ⟨?_, ?_, ?_, ?_, ?_, ?_⟩
  · intro i j; simp only [exA]; grind
  · intro i; simp only [exA]; grind
  · intro p hp; have : p = 0 ∨ p = 1 := by simp at hp; omega
    rcases this with rfl | rfl <;> simp
  · intro p hp; have : p = 0 ∨ p = 1 := by simp at hp; omega
    rcases this with rfl | rfl <;> simp [exA]
  · intro p q hp hq
    have h1 : p = 0 ∨ p = 1 := by simp at hp; omega
    have h2 : q = 0 ∨ q = 1 := by simp at hq; omega
    rcases h1 with rfl | rfl <;> rcases h2 with rfl | rfl <;> simp [sameLink]
  · intro i j h
    simp only [exA, Bool.or_eq_true, Bool.and_eq_true, beq_iff_eq] at h
    rcases h with ((h | h) | h) | h
    · exact ⟨0, by simp, by simp [sameLink, h]⟩
    · exact ⟨0, by simp, by simp [sameLink, h]⟩
    · exact ⟨1, by simp, by simp [sameLink, h]⟩
    · exact ⟨1, by simp, by simp [sameLink, h]⟩

/-- the draw `(0, 1)` is accepted in every mode: `0—1, 2—3 ↦ 0—3, 2—1` -/
example : (geoStep (exCfg .I) ⟨exA, [(0, 1), (2, 3)], 0⟩ (0, 1)).map (fun s => (s.edges, s.i))
    = some ([(0, 3), (2, 1)], 1) := by decide
example : (geoStep (exCfg .III) ⟨exA, [(0, 1), (2, 3)], 0⟩ (0, 1)).map (fun s => (s.edges, s.i))
    = some ([(0, 3), (2, 1)], 1) := by decide
/-- …and rejected draws leave the state alone (same edge twice) -/
example : (geoStep (exCfg .II) ⟨exA, [(0, 1), (2, 3)], 0⟩ (1, 1)).map (fun s => (s.edges, s.i))
    = some ([(0, 1), (2, 3)], 0) := by decide
example : (geoRun (exCfg .II) 2 [(0, 0), (0, 1), (1, 1), (1, 0)] ⟨exA, [(0, 1), (2, 3)], 0⟩).map
    (fun s => (s.edges, s.i)) = some ([(0, 1), (2, 3)], 2) := by decide

/-- a run in model I that rewires twice; the theorem's matching exists with tolerance `2·eps` -/
example : (geoRun (exCfg .I) 2 [(0, 1), (0, 1), (1, 1)] ⟨exA, [(0, 1), (2, 3)], 0⟩).map
    (fun s => (s.edges, s.i)) = some ([(0, 1), (2, 3)], 2) := by decide
example : BijOn 2 (tr 0 1) (tr 0 1) := bijOn_tr 2 0 1 (by omega) (by omega)

/-- cross links: two draws hit the same cell, the loop counter still reaches 2 -/
example : (crossSetRun 2 [(0, 0), (0, 0), (1, 1), (1, 0)] (fun _ _ => false) 0).2 = 2 := by decide

def exC : Adj := fun i j => (i == 0 && j == 0) || (i == 1 && j == 1)
example : CrossInv 2 2 exC [(0, 0), (1, 1)] := by
  refine ⟨?_, ?_, ?_, ?_⟩
  · intro p hp; have : p = 0 ∨ p = 1 := by simp at hp; omega
    rcases this with rfl | rfl <;> simp
  · intro p hp; have : p = 0 ∨ p = 1 := by simp at hp; omega
    rcases this with rfl | rfl <;> simp [exC]
  · intro p q hp hq
    have h1 : p = 0 ∨ p = 1 := by simp at hp; omega
    have h2 : q = 0 ∨ q = 1 := by simp at hq; omega
    rcases h1 with rfl | rfl <;> rcases h2 with rfl | rfl <;> simp
  · intro a b h
    simp only [exC, Bool.or_eq_true, Bool.and_eq_true, beq_iff_eq] at h
    rcases h with h | h
    · exact ⟨0, by simp, by simp [h]⟩
    · exact ⟨1, by simp, by simp [h]⟩
example : (crossStep ⟨exC, [(0, 0), (1, 1)], 0⟩ (0, 1)).map (fun s => (s.links, s.done))
    = some ([(0, 1), (1, 0)], 1) := by decide
example : NodupIdx [0, 3, 5] := by
  intro i i' x h1 h2
  rcases i with _ | _ | _ | i <;> rcases i' with _ | _ | _ | i' <;> simp at h1 h2 ⊢ <;> omega

/-- Barabasi-Albert, `N = 5`, `m = 2`: one rejected draw (repeated target), run completes -/
example : (baRun 5 2 [0, 0, 3, 1, 5] (baInit 5 2)).map (fun s => (s.j, s.it)) = some (5, 0) := by
  decide

/-! non-vacuity for the method-level theorems -/

example : edgeList 4 exA = [(0, 1), (2, 3)] := by decide
/-- the whole method, model III with the true degrees: the draw `(0,1)` rewires -/
example : (geoMethod .III (fun i j => if i = j then 0 else 4) 1 4 exA 1 [(1, 1), (0, 1)]).map
    (fun s => (s.edges, s.i)) = some ([(0, 3), (2, 1)], 1) := by decide
example : total exA 4 4 = 2 * ((2 : Nat) : Int) := by decide

/-- cross links `0—1`, `2—3` between the groups `[0, 2]` and `[1, 3]` -/
example : onesList 2 2 (crossBlock exA [0, 2] [1, 3]) = [(0, 0), (1, 1)] := by decide
example : (randomlyRewireCrossLinks exA [0, 2] [1, 3] 1 [(0, 0), (0, 1)]).map
    (fun r => (toMat r.1 4 4, r.2.links)) =
    some ([[false, false, false, true], [false, false, true, false],
           [false, true, false, false], [true, false, false, false]], [(0, 1), (1, 0)]) := by
  decide
/-- density has priority, too large a number falls back to the current count -/
example : setCount (some (1 / 2)) (some 5) 2 3 1 = 3 := by decide +kernel
example : setCount none (some 7) 2 3 1 = 1 := by decide
example : setCountSparse none none 2 3 1 = 1 := by decide
example : (randomlySetCrossLinks exA [0, 2] [1, 3] 2 [(0, 1), (0, 1), (1, 0)]).2.2 = 2 := by decide

example : baDrawsOK 5 2 [0, 0, 3, 1, 5] (baInit 5 2) = true := by decide
example : (baInit 5 2).targets = [0, 0, 1, 2, 0, 0, 0, 0, 0, 0, 0, 0] := by decide

example : SimpleEdges 4 [(0, 3), (2, 1)] := by
  refine ⟨by decide, ?_⟩
  simp [sameLink]
example : ∀ v, v < 4 → inc [(0, 3), (2, 1)] v = inc (edgeList 4 exA) v := by decide
example : (fromEdges 3 [(0, 3)]).isNone = true := by decide
example : (fromEdges 4 [(0, 3), (3, 0), (2, 1)]).map (fun F => toMat F 4 4) =
    some [[false, false, false, true], [false, false, true, false],
          [false, true, false, false], [true, false, false, false]] := by decide

/-- `p ≥ ½(P + Pᵀ)` with `P` not symmetric: the result is symmetric -/
example : toMat (distKernel (fun _ _ => 1 / 2) (fun i j => if i < j then 1 / 4 else 1 / 2)) 2 2
    = [[false, true], [true, false]] := by decide +kernel


/-! non-vacuity, round 3 -/

/-- unsorted node lists: group 1 = `[2, 0]`, group 2 = `[3, 1]` -/
example : toMat (crossBlock exA [2, 0] [3, 1]) 2 2 = [[true, false], [false, true]] := by decide
example : (randomlyRewireCrossLinks exA [2, 0] [3, 1] 1 [(0, 0), (0, 1)]).map
    (fun r => (toMat r.1 4 4, r.2.links)) =
    some ([[false, false, false, true], [false, false, true, false],
           [false, true, false, false], [true, false, false, false]], [(0, 1), (1, 0)]) := by
  decide
example : grpDeg exA 4 [3, 1] 2 = 1 ∧ grpDeg exA 4 [3, 1] 0 = 1 := by decide
/-- `C17-2`, `C17-3` style edits change these values -/
example : condLenC2 (fun i j => if i = 3 ∧ j = 0 then 9 else 0) 1 0 1 2 3 = false := by decide
example : condDegCorr (fun v => if v = 0 ∨ v = 2 then 1 else 2) 0 1 2 3 = true := by decide
/-- a multigraph with a loop and a double link: degrees 3, 2, 3 requested, 1, 1, 2 obtained -/
example : inc [(0, 0), (0, 2), (1, 2), (2, 1)] 0 = 3 ∧ inc [(0, 0), (0, 2), (1, 2), (2, 1)] 2 = 3 := by
  decide
example : toMat (simplified [(0, 0), (0, 2), (1, 2), (2, 1)]) 3 3 =
    [[false, false, true], [false, false, true], [true, true, false]] := by decide
example : geoDraw (3 / 4) 4 = 3 ∧ geoDraw 0 4 = 0 := by decide +kernel
/-- a complete bipartite cross block has no admissible swap; two parallel links have one -/
example : crossAdmissible (fun _ _ => true) [(0, 0), (0, 1), (1, 0), (1, 1)] = false := by decide
example : crossAdmissible exC [(0, 0), (1, 1)] = true := by decide
/-- a triangle cannot be rewired, two disjoint links can -/
example : geoAdmissible (exCfg .I) (fun i j => decide (i ≠ j ∧ i < 3 ∧ j < 3)) [(0, 1), (0, 2), (1, 2)]
    = false := by decide
example : geoAdmissible (exCfg .I) exA [(0, 1), (2, 3)] = true := by decide

/-! ## Round 4

### termination as a statement about the stream of draws

`geoRewire_admissible` / `crossRewire_admissible` (round 3) say what happens in *one* state.  Now:
an accepted rewiring can be undone by the very next draw, so "an admissible swap exists" is an
invariant of the loops; and a stream that offers every pair of indices once per requested rewiring
(what a uniform RNG does with probability one, and what the harness' suppliers do) completes the
run.  In every reachable state a pass through the loop body rewires with probability `≥ 1/E²`. -/

/-- **an accepted rewiring is reversible, so the loop can never paint itself into a corner**: from a
state with `GeoInv` and an admissible pair, every state of every run (any stream, any mode) again
has an admissible pair. -/
theorem geoRun_admissible_invariant (n : Nat) (c : GeoCfg) (iterations : Nat)
    (draws : List (Nat × Nat)) (st st' : GeoSt) (h : geoRun c iterations draws st = some st')
    (inv : GeoInv n st.A st.edges) (adm : geoAdmissible c st.A st.edges = true) :
    GeoInv n st'.A st'.edges ∧ geoAdmissible c st'.A st'.edges = true :=
  ⟨(geoRun_keeps n c iterations draws st st' h inv adm).1,
    (geoRun_keeps n c iterations draws st st' h inv adm).2.1⟩

/-- the reverse swap itself: right after `(s,t),(k,l) ↦ (s,l),(k,t)` the `if` accepts `(s,l),(k,t)` -/
theorem geoRewire_reversible (c : GeoCfg) (A : Adj) (s t k l : Nat) (hst : s ≠ t) (hkl : k ≠ l)
    (acc : geoAcceptM c A s t k l = true) : geoAcceptM c (rewireM A s t k l) s l k t = true := by
  rw [geoAcceptM_eq] at acc ⊢
  exact geoAccept_reverse c A s t k l hst hkl acc

/-- **termination of `_randomly_rewire_geomodel` for fair streams**: if the state has an admissible
pair and the stream of draws consists of (at least) `iterations − i` blocks each of which offers
every pair of edge indices, then the run is defined and ends with exactly `iterations` rewirings —
in every mode, for every distance matrix and tolerance. -/
theorem geoRun_fair_terminates (n : Nat) (c : GeoCfg) (iterations : Nat)
    (blocks : List (List (Nat × Nat))) (st : GeoSt)
    (inv : GeoInv n st.A st.edges) (adm : geoAdmissible c st.A st.edges = true)
    (hi : st.i ≤ iterations)
    (cov : ∀ b ∈ blocks, Covers st.edges.length b)
    (inr : ∀ b ∈ blocks, ∀ d ∈ b, d.1 < st.edges.length ∧ d.2 < st.edges.length)
    (hlen : iterations ≤ st.i + blocks.length) :
    ∃ st', geoRun c iterations blocks.flatten st = some st' ∧ st'.i = iterations := by
  induction blocks generalizing st with
  | nil => exact ⟨st, rfl, by simp at hlen; omega⟩
  | cons b bs ih =>
    obtain ⟨st1, h1⟩ := geoRun_defined c iterations b st (inr b (by simp))
    obtain ⟨k1, k2, k3, k4⟩ := geoRun_keeps n c iterations b st st1 h1 inv adm
    have prog := geoRun_block_progress c iterations b st st1
      (geoCovers_witness c st b adm (cov b (by simp))) h1
    obtain ⟨st', h2, h3⟩ := ih st1 k1 k2 (k4 hi)
      (fun b' hb' => by rw [k3]; exact cov b' (by simp [hb']))
      (fun b' hb' => by rw [k3]; exact inr b' (by simp [hb']))
      (by simp only [List.length_cons] at hlen; omega)
    refine ⟨st', ?_, h3⟩
    rw [List.flatten_cons, geoRun_append, h1]
    exact h2

/-- **`randomly_rewire_geomodel_I/II/III` terminates**: whole method, for a simple undirected network
with at least one admissible pair of links and a fair stream of draws. -/
theorem geoMethod_fair_terminates (mode : GeoMode) (D : Nat → Nat → Int) (eps : Int) (n : Nat)
    (A : Adj) (iterations : Nat) (blocks : List (List (Nat × Nat)))
    (sym : ∀ i j, A i j = A j i) (lf : ∀ i, A i i = false)
    (supp : ∀ i j, A i j = true → i < n ∧ j < n)
    (adm : geoAdmissible { mode := mode, D := D, eps := eps, degree := fun v => deg A n v } A
      (edgeList n A) = true)
    (cov : ∀ b ∈ blocks, Covers (edgeList n A).length b)
    (inr : ∀ b ∈ blocks, ∀ d ∈ b, d.1 < (edgeList n A).length ∧ d.2 < (edgeList n A).length)
    (hlen : iterations ≤ blocks.length) :
    ∃ st', geoMethod mode D eps n A iterations blocks.flatten = some st' ∧ st'.i = iterations := by
  unfold geoMethod
  exact geoRun_fair_terminates n _ iterations blocks ⟨A, edgeList n A, 0⟩
    (geoInv_edgeList n A sym lf supp) adm (Nat.zero_le _) cov inr (by simpa using hlen)

/-- **the cross-link rewiring loop likewise**: the swap `(a,b),(c,e) ↦ (a,e),(c,b)` can be undone,
so an admissible pair exists in every state of every run once it exists in the first. -/
theorem crossRun_admissible_invariant (m n swaps : Nat) (draws : List (Nat × Nat))
    (st st' : CrossSt) (h : crossRun swaps draws st = some st')
    (inv : CrossInv m n st.C st.links) (adm : crossAdmissible st.C st.links = true) :
    CrossInv m n st'.C st'.links ∧ crossAdmissible st'.C st'.links = true :=
  ⟨(crossRun_keeps m n swaps draws st st' h inv adm).1,
    (crossRun_keeps m n swaps draws st st' h inv adm).2.1⟩

/-- **termination of `_randomlyRewireCrossLinks` for fair streams**: `number_swaps − done` blocks
each offering every pair of link indices make all requested swaps. -/
theorem crossRun_fair_terminates (m n swaps : Nat) (blocks : List (List (Nat × Nat)))
    (st : CrossSt) (inv : CrossInv m n st.C st.links)
    (adm : crossAdmissible st.C st.links = true) (hi : st.done ≤ swaps)
    (cov : ∀ b ∈ blocks, Covers st.links.length b)
    (inr : ∀ b ∈ blocks, ∀ d ∈ b, d.1 < st.links.length ∧ d.2 < st.links.length)
    (hlen : swaps ≤ st.done + blocks.length) :
    ∃ st', crossRun swaps blocks.flatten st = some st' ∧ st'.done = swaps := by
  induction blocks generalizing st with
  | nil => exact ⟨st, rfl, by simp at hlen; omega⟩
  | cons b bs ih =>
    obtain ⟨st1, h1⟩ := crossRun_defined swaps b st (inr b (by simp))
    obtain ⟨k1, k2, k3, k4⟩ := crossRun_keeps m n swaps b st st1 h1 inv adm
    have prog := crossRun_block_progress swaps b st st1
      (crossCovers_witness st b adm (cov b (by simp))) h1
    obtain ⟨st', h2, h3⟩ := ih st1 k1 k2 (k4 hi)
      (fun b' hb' => by rw [k3]; exact cov b' (by simp [hb']))
      (fun b' hb' => by rw [k3]; exact inr b' (by simp [hb']))
      (by simp only [List.length_cons] at hlen; omega)
    refine ⟨st', ?_, h3⟩
    rw [List.flatten_cons, crossRun_append, h1]
    exact h2

/-- **`RandomlyRewireCrossLinks` terminates**: whole method (cross block and link list built by the
wrapper), every requested swap is made under a fair stream. -/
theorem randomlyRewireCrossLinks_fair_terminates (A : Adj) (nodes1 nodes2 : List Nat) (swaps : Nat)
    (blocks : List (List (Nat × Nat)))
    (adm : crossAdmissible (crossBlock A nodes1 nodes2)
      (onesList nodes1.length nodes2.length (crossBlock A nodes1 nodes2)) = true)
    (cov : ∀ b ∈ blocks,
      Covers (onesList nodes1.length nodes2.length (crossBlock A nodes1 nodes2)).length b)
    (inr : ∀ b ∈ blocks, ∀ d ∈ b,
      d.1 < (onesList nodes1.length nodes2.length (crossBlock A nodes1 nodes2)).length ∧
      d.2 < (onesList nodes1.length nodes2.length (crossBlock A nodes1 nodes2)).length)
    (hlen : swaps ≤ blocks.length) :
    ∃ r, randomlyRewireCrossLinks A nodes1 nodes2 swaps blocks.flatten = some r ∧
      r.2.done = swaps := by
  obtain ⟨st', h1, h2⟩ := crossRun_fair_terminates nodes1.length nodes2.length swaps blocks
    ⟨crossBlock A nodes1 nodes2, onesList nodes1.length nodes2.length (crossBlock A nodes1 nodes2), 0⟩
    (crossInv_onesList _ _ _ (crossBlock_supp A nodes1 nodes2)) adm (Nat.zero_le _) cov inr
    (by simpa using hlen)
  exact ⟨(overwrite A st'.C nodes1 nodes2, st'), by simp [randomlyRewireCrossLinks, h1], h2⟩

/-! ### the conditions as the C compiler evaluates them (binary32), for *all* data

`D` is `FIELD_t` = binary32 and `eps` a C `float` (`source_float_types`); every subtraction inside
`cond_len_c1/2` is rounded.  Distances and tolerance are integers in units of a power of two (every
finite binary32 number is an integer multiple of `2^-149`): no restriction to the dyadic data of the
earlier rounds. -/

/-- the C types the conditions compute in, read from `numerics.pyx` / `types.pxd` -/
theorem source_float_types : condFieldType = "cnp.float32_t" ∧ condEpsType = "float" := by
  constructor <;> decide

/-- **soundness of the floating-point test**: for every rounding under which a rounded difference
below `eps` was below `eps` before rounding, whatever the compiled `if` accepts satisfies the exact
conditions: disjoint links, new links absent, degree condition, and C1 / C2 with the *exact*
differences `|D[..] − D[..]| < eps`. -/
theorem float_conditions_sound (rnd : Int → Int) (c : GeoCfg) (A : Adj) (s t k l : Nat)
    (hf : Faithful rnd c.eps) (h : geoAcceptFl rnd c A s t k l = true) :
    geoAccept c A s t k l = true := by
  rw [← geoAcceptM_eq]; exact geoAcceptFl_sound rnd c A s t k l hf h

/-- **binary32 round-to-nearest-even is such a rounding whenever `eps` is a binary32 number** (it is:
`eps` is a C `float`), for every distance matrix; and so is every monotone rounding fixing `±eps`. -/
theorem binary32_faithful (eps : Int) (he : Rep 24 eps.natAbs) : Faithful rnd32 eps :=
  rndP_faithful 24 (by decide) eps he

theorem monotone_rounding_faithful (rnd : Int → Int) (eps : Int)
    (mono : ∀ x y, x ≤ y → rnd x ≤ rnd y) (fix1 : rnd eps = eps) (fix2 : rnd (-eps) = -eps) :
    Faithful rnd eps := faithful_of_mono rnd eps mono fix1 fix2

/-- on data whose differences stay below `2^24` units (the quarter-integer data of rounds 1–3, any
power-of-two rescaling of it) binary32 evaluates the conditions *exactly* — formerly trusted base -/
theorem binary32_exact_on_small (D : Nat → Nat → Int) (eps : Int) (s t k l : Nat)
    (hs : ∀ a b c d, (D a b - D c d).natAbs < 2 ^ 24) :
    condLenC1R rnd32 D eps s t k l = condLenC1 D eps s t k l ∧
    condLenC2R rnd32 D eps s t k l = condLenC2 D eps s t k l :=
  condLenR_exact rnd32 D eps s t k l (fun a b c d => rndP_small 24 _ (hs a b c d))

/-- **a run of the compiled (binary32) kernel is a run of the exact kernel on a sub-stream of its
draws** — so every theorem of this file that holds for all streams holds for the compiled kernel,
with the exact tolerance. -/
theorem float_run_is_exact_run (rnd : Int → Int) (c : GeoCfg) (iterations : Nat)
    (draws : List (Nat × Nat)) (st st' : GeoSt) (hf : Faithful rnd c.eps)
    (h : geoRunFl rnd c iterations draws st = some st') :
    ∃ draws', draws'.Sublist draws ∧ geoRun c iterations draws' st = some st' :=
  geoRunFl_refines rnd c iterations draws st st' hf h

/-- **`randomly_rewire_geomodel_I/II/III` as compiled, whole method, all data**: with `D`, `eps` the
binary32 arrays the wrapper hands over and the conditions evaluated in binary32, the result is a
simple undirected graph with every degree and the number of links unchanged, at most `iterations`
rewirings, and the links before / after can be matched one to one with *exact* length differences
of at most (number of rewirings)·`eps`; in model III the degree pair at every position of the edge
list is unchanged. -/
theorem geoMethodFl_spec (mode : GeoMode) (D : Nat → Nat → Int) (eps : Int) (n : Nat)
    (A : Adj) (iterations : Nat) (draws : List (Nat × Nat)) (st' : GeoSt)
    (sym : ∀ i j, A i j = A j i) (lf : ∀ i, A i i = false)
    (supp : ∀ i j, A i j = true → i < n ∧ j < n) (he : Rep 24 eps.natAbs)
    (h : geoMethodFl rnd32 mode D eps n A iterations draws = some st') :
    (∀ a b, st'.A a b = st'.A b a) ∧ (∀ a, st'.A a a = false) ∧
    (∀ v, deg st'.A n v = deg A n v) ∧ total st'.A n n = total A n n ∧
    GeoInv n st'.A st'.edges ∧ st'.i ≤ iterations ∧
    (∃ σ τ, BijOn (edgeList n A).length σ τ ∧ st'.edges.length = (edgeList n A).length ∧
      ∀ p e, (edgeList n A)[p]? = some e → ∃ e', st'.edges[σ p]? = some e' ∧
        closeBy ((st'.i : Int) * eps) (len D e) (len D e')) ∧
    (mode = .III → ∀ (p : Nat) (e : Nat × Nat), (edgeList n A)[p]? = some e → ∃ e' : Nat × Nat, st'.edges[p]? = some e' ∧
      (deg st'.A n e'.1, deg st'.A n e'.2) = (deg A n e.1, deg A n e.2)) := by
  unfold geoMethodFl at h
  obtain ⟨draws', -, hrun⟩ := float_run_is_exact_run rnd32 _ iterations draws _ st'
    (binary32_faithful eps he) h
  have hm : geoMethod mode D eps n A iterations draws' = some st' := hrun
  obtain ⟨i1, i2, -, i4, i5, i6, i7⟩ :=
    geoMethod_invariants mode D eps n A iterations draws' st' sym lf supp hm
  refine ⟨i1, i2, i4, i5, i6, i7, geoMethod_link_lengths mode D eps n A iterations draws' st' hm, ?_⟩
  intro hIII p e hp
  subst hIII
  exact geoMethod_degree_pairs D eps n A iterations draws' st' sym lf supp hm p e hp

/-! ### the draw as numpy evaluates it (binary64) -/

/-- **`np.floor(rd.random() * E)` / `int(random.random() * N)` with the product rounded to binary64**:
for every round-to-nearest multiplication (any tie rule), every double `0 ≤ u < 1` and every
`1 ≤ E < 2^31` (`int E`; `NODE` is int32) the index lies in `[0, E)` — the double rounding of `u·E`
can never produce `E`. -/
theorem draw_in_range_binary64 (rnd : Rat → Rat) (hn : B64.Nearest rnd) (u : Rat) (hu : B64.IsB64 u)
    (h0 : 0 ≤ u) (h1 : u < 1) (E : Int) (hE : 1 ≤ E) (hE31 : E < 2 ^ 31) :
    (0 ≤ geoDrawR rnd u E ∧ geoDrawR rnd u E < E) ∧
    (0 ≤ sparseDrawR rnd u E ∧ sparseDrawR rnd u E < E) :=
  ⟨geoDrawR_range rnd hn u hu h0 h1 E hE hE31, geoDrawR_range rnd hn u hu h0 h1 E hE hE31⟩

/-- **no IndexError, stated for the doubles the RNG returns and the product as computed** -/
theorem geoMethod_defined_binary64 (rnd : Rat → Rat) (hn : B64.Nearest rnd) (mode : GeoMode)
    (D : Nat → Nat → Int) (eps : Int) (n : Nat) (A : Adj) (iterations : Nat)
    (us : List (Rat × Rat)) (E : Nat)
    (sym : ∀ i j, A i j = A j i) (lf : ∀ i, A i i = false)
    (hE : total A n n = 2 * (E : Int)) (hpos : 0 < E) (h31 : (E : Int) < 2 ^ 31)
    (hu : ∀ u ∈ us, (B64.IsB64 u.1 ∧ 0 ≤ u.1 ∧ u.1 < 1) ∧ (B64.IsB64 u.2 ∧ 0 ≤ u.2 ∧ u.2 < 1)) :
    ∃ st', geoMethod mode D eps n A iterations
      (us.map fun u => ((geoDrawR rnd u.1 E).toNat, (geoDrawR rnd u.2 E).toNat)) = some st' := by
  apply geoMethod_defined mode D eps n A iterations _ E sym lf hE
  intro d hd
  simp only [List.mem_map] at hd
  obtain ⟨u, hu', rfl⟩ := hd
  obtain ⟨⟨a, a0, a1⟩, ⟨b, b0, b1⟩⟩ := hu u hu'
  have r1 := geoDrawR_range rnd hn u.1 a a0 a1 E (by omega) h31
  have r2 := geoDrawR_range rnd hn u.2 b b0 b1 E (by omega) h31
  simp only
  omega

/-! ### round 5: the executable roundings *are* IEEE round-to-nearest — no hypothesis on the rounding left -/

/-- **the binary64 rounding the driver executes is a round-to-nearest**: for every rational `x` (not
only multiples of `2^-1074`) no double is nearer to `x` than `rnd64 x`, and `rnd64 x` is a double.
(Round 4 compared `rnd64` with the hardware on every run but assumed `B64.Nearest` in the theorems.) -/
theorem rnd64_round_to_nearest : B64.Nearest rnd64 ∧ ∀ x, B64.IsB64 (rnd64 x) :=
  ⟨rnd64_nearest, rnd64_isB64⟩

/-- **`np.floor(rd.random() * E)` / `int(random.random() * N)` as executed**: for every double
`0 ≤ u < 1` and every `1 ≤ E < 2^31` the index computed with the *model's own* binary64 product lies in
`[0, E)` — `draw_in_range_binary64` with its rounding hypothesis discharged. -/
theorem draw_in_range_rnd64 (u : Rat) (hu : B64.IsB64 u) (h0 : 0 ≤ u) (h1 : u < 1) (E : Int)
    (hE : 1 ≤ E) (hE31 : E < 2 ^ 31) :
    (0 ≤ geoDrawR rnd64 u E ∧ geoDrawR rnd64 u E < E) ∧
    (0 ≤ sparseDrawR rnd64 u E ∧ sparseDrawR rnd64 u E < E) :=
  draw_in_range_binary64 rnd64 rnd64_nearest u hu h0 h1 E hE hE31

/-- **no IndexError for the draws the driver replays** (`geoMU` / `geoMD` requests: the model gets the
53-bit RNG values and evaluates `floor(fl64(u·E))` itself) -/
theorem geoMethod_defined_rnd64 (mode : GeoMode) (D : Nat → Nat → Int) (eps : Int) (n : Nat) (A : Adj)
    (iterations : Nat) (us : List (Rat × Rat)) (E : Nat)
    (sym : ∀ i j, A i j = A j i) (lf : ∀ i, A i i = false)
    (hE : total A n n = 2 * (E : Int)) (hpos : 0 < E) (h31 : (E : Int) < 2 ^ 31)
    (hu : ∀ u ∈ us, (B64.IsB64 u.1 ∧ 0 ≤ u.1 ∧ u.1 < 1) ∧ (B64.IsB64 u.2 ∧ 0 ≤ u.2 ∧ u.2 < 1)) :
    ∃ st', geoMethod mode D eps n A iterations
      (us.map fun u => ((geoDrawR rnd64 u.1 E).toNat, (geoDrawR rnd64 u.2 E).toNat)) = some st' :=
  geoMethod_defined_binary64 rnd64 rnd64_nearest mode D eps n A iterations us E sym lf hE hpos h31 hu

/-- **the binary32 rounding of the length conditions is a round-to-nearest to 24 bits**: on integers
(units of `2^-149`) `rndP p` is `rndQ p` with the sign restored, and no `p`-bit number `±m·2^j` is
nearer to `n` than `rndP p n` — the model of `D[..] - D[..]` in `float` is IEEE-754 subtraction, not
merely a faithful rounding. -/
theorem binary32_round_to_nearest (n : Int) (m : Int) (j : Nat) (hm : m.natAbs < 2 ^ 24) :
    |((rnd32 n : Int) : Rat) - (n : Rat)| ≤ |((m * 2 ^ j : Int) : Rat) - (n : Rat)| :=
  rndP_nearest 24 (by decide) n m j hm

/-- **ties to even**: when `a` lies exactly midway between its two neighbouring grid points, `rndQ p a`
(hence `rnd64`, and `rndP` / `rnd32` on integers by `rndP_eq_rndQ`) is the one with the even significand.
Together with `rnd64_round_to_nearest` / `binary32_round_to_nearest` (nearest, and a `p`-bit number) this
is the IEEE-754 default rounding, for every argument. -/
theorem round_ties_to_even (p : Nat) (a : Rat)
    (h : a - ((a.floor.toNat / 2 ^ gridShift p a.floor.toNat * 2 ^ gridShift p a.floor.toNat : Nat) : Rat)
       = (((a.floor.toNat / 2 ^ gridShift p a.floor.toNat + 1) * 2 ^ gridShift p a.floor.toNat : Nat) : Rat) - a) :
    (∃ k, rndQ p a = 2 * k * 2 ^ gridShift p a.floor.toNat) ∧
    ∀ n : Int, rndP p n = if n < 0 then -((rndQ p (n.natAbs : Rat) : Nat) : Int)
      else ((rndQ p (n.natAbs : Rat) : Nat) : Int) :=
  ⟨rndQ_tie_even p a h, rndP_eq_rndQ p⟩

/-- **binary32 overflow is inside the model**: with `mx` the largest finite binary32 number (any
24-bit number will do), a difference of exact magnitude `≥ mx` — in particular every difference the
hardware rounds to `±inf`, where `fabsf(inf) < eps` is false — is rejected by the model too, for every
finite tolerance `eps ≤ mx`.  (Round 4 listed overflow as outside the model; only NaN / `inf`
*entries* of `D` remain outside.) -/
theorem binary32_overflow_rejected (mx eps d : Int) (hmx : Rep 24 mx.natAbs) (he : eps ≤ mx)
    (hd : mx ≤ (d.natAbs : Int)) : ¬ (((rnd32 d).natAbs : Int) < eps) :=
  rndP_overflow_rejected 24 (by decide) mx eps d hmx he hd

/-! ### `_randomlySetCrossLinks`: termination for fair streams -/

/-- a block of draws offers every cell of the `m × n` cross matrix -/
def Covers2 (m n : Nat) (block : List (Nat × Nat)) : Prop :=
  ∀ i j, i < m → j < n → (i, j) ∈ block

private theorem crossSetRun_done (k : Nat) (r : List (Nat × Nat)) (C : Adj) (done : Nat) (h : ¬ done < k) :
    crossSetRun k r C done = (C, done) := by
  cases r with
  | nil => rfl
  | cons d ds => obtain ⟨i, j⟩ := d; rw [crossSetRun_cons, if_neg h]

private theorem crossSetRun_append (k : Nat) (b r : List (Nat × Nat)) (C : Adj) (done : Nat) :
    crossSetRun k (b ++ r) C done
      = crossSetRun k r (crossSetRun k b C done).1 (crossSetRun k b C done).2 := by
  induction b generalizing C done with
  | nil => rfl
  | cons d ds ih =>
    obtain ⟨i, j⟩ := d
    rw [List.cons_append, crossSetRun_cons, crossSetRun_cons]
    split
    · split
      · exact ih C done
      · exact ih _ _
    · rename_i h; exact (crossSetRun_done k r C done h).symm

/-- a block that contains a free cell sets at least one link (unless the loop has finished) -/
private theorem crossSetRun_block_progress (m n k : Nat) (block : List (Nat × Nat)) (C : Adj) (done : Nat)
    (hd : ∀ d ∈ block, d.1 < m ∧ d.2 < n) (hlt : done < k)
    (hw : ∃ d ∈ block, C d.1 d.2 = false) : done + 1 ≤ (crossSetRun k block C done).2 := by
  induction block generalizing C done with
  | nil => obtain ⟨d, hd', -⟩ := hw; cases hd'
  | cons d ds ih =>
    obtain ⟨i, j⟩ := d
    have hd' : ∀ d ∈ ds, d.1 < m ∧ d.2 < n := fun d h => hd d (by simp [h])
    rw [crossSetRun_cons, if_pos hlt]
    split
    · rename_i hc
      apply ih C done hd' hlt
      obtain ⟨d0, hm, hf⟩ := hw
      rcases List.mem_cons.1 hm with rfl | hmem
      · simp only at hf; rw [hc] at hf; cases hf
      · exact ⟨d0, hmem, hf⟩
    · exact (crossSetRun_spec m n k ds (C.set i j true) (done + 1) hd').2.1

/-- **termination of `_randomlySetCrossLinks` / `RandomlySetCrossLinks_sparse` for fair streams**: when
the requested number fits into the free cells (`setCount_le` guarantees it for the public methods,
which start from the empty matrix) and the stream consists of `k − done` blocks each offering every
cell, all `k` links are placed. -/
theorem crossSet_fair_terminates (m n k : Nat) (blocks : List (List (Nat × Nat))) (C : Adj) (done : Nat)
    (hk : done ≤ k) (room : total C m n + ((k - done : Nat) : Int) ≤ (m : Int) * (n : Int))
    (cov : ∀ b ∈ blocks, Covers2 m n b) (inr : ∀ b ∈ blocks, ∀ d ∈ b, d.1 < m ∧ d.2 < n)
    (hlen : k ≤ done + blocks.length) : (crossSetRun k blocks.flatten C done).2 = k := by
  induction blocks generalizing C done with
  | nil => simp at hlen; simp [crossSetRun]; omega
  | cons b bs ih =>
    rw [List.flatten_cons, crossSetRun_append]
    obtain ⟨s1, s2, s3, -⟩ := crossSetRun_spec m n k b C done (inr b (by simp))
    have prog : done < k → done + 1 ≤ (crossSetRun k b C done).2 := by
      intro hlt
      obtain ⟨i, j, hi, hj, hf⟩ := crossSet_progress m n C (by omega)
      exact crossSetRun_block_progress m n k b C done (inr b (by simp)) hlt
        ⟨(i, j), cov b (by simp) i j hi hj, hf⟩
    apply ih _ _ (s3 hk)
    · rw [s1]; have := s3 hk; omega
    · exact fun b' hb' => cov b' (by simp [hb'])
    · exact fun b' hb' => inr b' (by simp [hb'])
    · simp only [List.length_cons] at hlen
      rcases Nat.lt_or_ge done k with hlt | hge
      · have := prog hlt; omega
      · omega

example : Covers2 1 2 [(0, 1), (0, 0)] := by
  intro i j hi hj
  have h1 : i = 0 := by omega
  have h2 : j = 0 ∨ j = 1 := by omega
  subst h1; rcases h2 with rfl | rfl <;> simp

/-! non-vacuity, round 4 -/

example : Covers 2 [(0, 0), (0, 1), (1, 0), (1, 1)] := by
  intro p q hp hq
  have h1 : p = 0 ∨ p = 1 := by omega
  have h2 : q = 0 ∨ q = 1 := by omega
  rcases h1 with rfl | rfl <;> rcases h2 with rfl | rfl <;> simp
/-- two covering blocks, two rewirings (the second undoes the first) -/
example : (geoRun (exCfg .II) 2 ([[(0, 0), (0, 1), (1, 0), (1, 1)], [(0, 0), (0, 1), (1, 0), (1, 1)]].flatten)
    ⟨exA, [(0, 1), (2, 3)], 0⟩).map (fun s => (s.edges, s.i)) = some ([(0, 1), (2, 3)], 2) := by decide
example : geoAdmissible (exCfg .II) exA [(0, 1), (2, 3)] = true := by decide
/-- ties to even: `2^24 + 1 ↦ 2^24`, `2^24 + 3 ↦ 2^24 + 4`; small magnitudes and negatives -/
example : rnd32 16777217 = 16777216 ∧ rnd32 16777219 = 16777220 ∧ rnd32 (-16777219) = -16777220
    ∧ rnd32 12345 = 12345 ∧ rnd32 33554434 = 33554432 ∧ rnd32 33554438 = 33554440 := by decide +kernel
example : Rep 24 (16777220 : Int).natAbs := ⟨4194305, 2, by decide, by decide⟩
/-- a difference of `2^24 + 3` units against `eps = 2^24 + 4`: the exact test accepts, binary32 rounds
the difference up to `eps` and rejects — the compiled kernel accepts *fewer* swaps, never more -/
example : condLenC2 (fun i j => if i = 0 ∧ j = 1 then 16777219 else 0) 16777220 0 1 2 3 = true ∧
    condLenC2R rnd32 (fun i j => if i = 0 ∧ j = 1 then 16777219 else 0) 16777220 0 1 2 3 = false := by
  decide +kernel
example : Faithful rnd32 16777220 := binary32_faithful _ ⟨4194305, 2, by decide, by decide⟩
/-- the largest double below 1 times `E = 3`, rounded to binary64, is still below 3 -/
example : geoDrawR rnd64 (9007199254740991 / 9007199254740992) 3 = 2 := by decide +kernel
/-- round 5: `rnd64` on arguments that are *not* multiples of `2^-1074` (1/3, a tie between two
neighbouring doubles above `2^53`, a negative number) and `rndQ` at ties / just off ties -/
example : rnd64 (1 / 3) = 6004799503160661 / 18014398509481984
    ∧ rnd64 9007199254740993 = 9007199254740992 ∧ rnd64 9007199254740995 = 9007199254740996
    ∧ rnd64 (9007199254740993 + 1 / 3) = 9007199254740994
    ∧ rnd64 (-9007199254740995) = -9007199254740996 := by decide +kernel
example : rndQ 3 (17 / 2) = 8 ∧ rndQ 3 9 = 8 ∧ rndQ 3 (9 + 1 / 1000) = 10 ∧ rndQ 3 11 = 12
    ∧ rndQ 3 (7 / 2) = 4 ∧ rndQ 3 (5 / 2) = 2 ∧ rndQ 3 15 = 16 := by decide +kernel
/-- the hypotheses of `draw_in_range_rnd64` are satisfiable with a draw that is rounded up to the next
index boundary's predecessor: `u = 1 - 2^-53`, `E = 3` -/
example : B64.IsB64 (9007199254740991 / 9007199254740992) :=
  ⟨9007199254740991, 53, by norm_num, by norm_num, Or.inr ⟨by norm_num, by norm_num⟩⟩
/-- `binary32_overflow_rejected`: the largest finite binary32 number in units of `2^-149` is
`(2^24-1)·2^253`; the difference `2^127 - (-2^127) = 2^128` overflows in hardware and is rejected here -/
example : Rep 24 ((16777215 * 2 ^ 253 : Int).natAbs) := ⟨16777215, 253, by decide, by decide +kernel⟩
example : ¬ (((rnd32 (2 ^ 277)).natAbs : Int) < 16777215 * 2 ^ 253) := by decide +kernel
/-- `round_ties_to_even`: 9 is midway between the 3-bit numbers 8 and 10; `rndQ 3 9 = 8` (even
significand 4) — the tie hypothesis is satisfiable -/
example : ∃ k, rndQ 3 9 = 2 * k * 2 ^ gridShift 3 (9 : Rat).floor.toNat :=
  (round_ties_to_even 3 9 (by decide +kernel)).1
/-- `binary32_round_to_nearest` at a tie: 16777217 lies midway between the 24-bit numbers 16777216 and
16777218; both are at distance 1 and `rnd32` returns the even one -/
example : rnd32 16777217 = 16777216 ∧ (4194304 : Int).natAbs < 2 ^ 24 ∧ (8388609 : Int).natAbs < 2 ^ 24
    ∧ (4194304 : Int) * 2 ^ 2 = 16777216 ∧ (8388609 : Int) * 2 ^ 1 = 16777218 := by decide +kernel

/-- `generator_adjacency_spec` / `erdosRenyi_spec`: a path on 4 nodes is a simple edge list; the dispatch
has all three outcomes -/
example : SimpleEdges 4 [(0, 1), (2, 1), (2, 3)] := by
  refine ⟨by simp, ?_⟩
  simp [sameLink]
example : erdosRenyiCall true false = some .byProbability ∧ erdosRenyiCall false true = some .byLinkCount
    ∧ erdosRenyiCall true true = none ∧ erdosRenyiCall false false = none := by decide

end Pyunicorn.Random
