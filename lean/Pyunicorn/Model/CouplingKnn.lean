import Pyunicorn.Model.Coupling
/-!
# Model of the nearest-neighbour kernel (C10, round 3) — core Lean only

`funcnet/_ext/numerics.pyx`: `_get_nearest_neighbors` — for every sample `i`

1. the *growing cube*: `eps *= 2` until more than `k` samples lie in the open cube of half
   width `eps` around sample `i` (scan with early exit over the dimensions, the indices of the
   samples found are stored in `indexfound[0 .. n)`),
2. the *bounded insertion sort* of the maximum-metric distances of the samples found into the
   `k+1` slots of `dxyzarray` (only the `k+1` smallest distances are kept),
3. `epsmax = dxyzarray[k]` and the three *subspace counts* `k_xz`, `k_yz`, `k_z`.

Arrays are functions of their index; the work arrays `indexfound` and `dxyzarray` are **not**
re-initialised between samples in the code, so the model carries their (stale) content along
explicitly.  All arithmetic is exact (`Rat`): on the inputs of the exact correspondence (small
integers held in `float32`) every difference and comparison of the compiled code is exact too.
-/
namespace Pyunicorn.Coupling

/-- `max(a, b)` of two C doubles -/
def rmax (a b : Rat) : Rat := if a < b then b else a

/-- `acc = init; for d in range(lo, lo + n): acc = max(abs(array[d, i] - array[d, t]), acc)` -/
def maxDist (arr : Nat → Nat → Rat) (i t lo : Nat) : Nat → Rat → Rat
  | 0, acc => acc
  | n+1, acc => rmax (rabs (arr (lo + n) i - arr (lo + n) t)) (maxDist arr i t lo n acc)

/-- `d = 0; while d < dim and abs(array[d, i] - array[d, t]) < eps: d += 1` — the value of `d`
when the loop is left (at most `fuel` iterations; the code makes at most `dim`) -/
def cubeWalk (arr : Nat → Nat → Rat) (i t : Nat) (eps : Rat) (dim : Nat) : Nat → Nat → Nat
  | 0, d => d
  | fuel+1, d =>
    if d < dim ∧ rabs (arr d i - arr d t) < eps then cubeWalk arr i t eps dim fuel (d + 1) else d

/-- `if d == dim` after that loop -/
def inCube (arr : Nat → Nat → Rat) (i t : Nat) (eps : Rat) (dim : Nat) : Bool :=
  cubeWalk arr i t eps dim dim 0 == dim

/-- `n = 0; for t in range(T): if <t in cube>: indexfound[n] = t; n += 1` — state
`(indexfound, n)` after `t` samples, starting from the content `idx` left by earlier passes -/
def foundTo (arr : Nat → Nat → Rat) (i : Nat) (eps : Rat) (dim : Nat) (idx : Nat → Nat) :
    Nat → (Nat → Nat) × Nat
  | 0 => (idx, 0)
  | t+1 =>
    let st := foundTo arr i eps dim idx t
    if inCube arr i t eps dim then (upd st.1 st.2 t, st.2 + 1) else st

/-- `n = 0; while n <= k: eps *= 2.; n = 0; <scan>` — `none` when the fuel runs out (the code
would keep looping), else `(eps, indexfound, n)` at exit -/
def growLoop (arr : Nat → Nat → Rat) (i T dim k : Nat) :
    Nat → Rat → (Nat → Nat) → Option (Rat × (Nat → Nat) × Nat)
  | 0, _, _ => none
  | fuel+1, eps, idx =>
    let eps' := 2 * eps
    let st := foundTo arr i eps' dim idx T
    if st.2 ≤ k then growLoop arr i T dim k fuel eps' st.1 else some (eps', st.1, st.2)

/-- `dxyzarray` is a C array of `k+1` doubles: a list of fixed length with reads and writes (a
function-valued model of this array would be re-evaluated at every read by the compiled driver) -/
def rd (A : List Rat) (m : Nat) : Rat := A.getD m 0
def wr (A : List Rat) (m : Nat) (v : Rat) : List Rat := A.set m v

/-- `while m >= 0 and dxyz < dxyzarray[m]: if not m == k: dxyzarray[m+1] = dxyzarray[m]; m -= 1`
with `m1 = m + 1` as the recursion variable; returns the array and the final `m + 1` -/
def shiftLoop (k : Nat) (x : Rat) : Nat → List Rat → List Rat × Nat
  | 0, A => (A, 0)
  | m+1, A =>
    if x < rd A m then shiftLoop k x m (if m = k then A else wr A (m + 1) (rd A m))
    else (A, m + 1)

/-- body of the `for j in range(n)` loop after `dxyz` is known: insertion of the `j`-th distance
into the `k+1` slots -/
def insertStep (k j : Nat) (x : Rat) (A : List Rat) : List Rat :=
  if j = 0 then wr A 0 x
  else
    let r := shiftLoop k x (min k (j - 1) + 1) A
    -- `if not m == k: dxyzarray[m+1] = dxyz`  (`m + 1 = r.2`)
    if r.2 = k + 1 then r.1 else wr r.1 r.2 x

/-- the `for j in range(n)` loop: `dxyzarray` after `j` of the samples found, starting from the
stale content `A` -/
def sortLoop (arr : Nat → Nat → Rat) (i dim k : Nat) (idx : Nat → Nat) :
    Nat → List Rat → List Rat
  | 0, A => A
  | j+1, A => insertStep k j (maxDist arr i (idx j) 0 dim 0) (sortLoop arr i dim k idx j A)

/-- the last loop: `(k_xz, k_yz, k_z)` after `t` samples -/
def countLoop (arr : Nat → Nat → Rat) (i dimx dimy dim : Nat) (epsmax : Rat) :
    Nat → Nat × Nat × Nat
  | 0 => (0, 0, 0)
  | j+1 =>
    let st := countLoop arr i dimx dimy dim epsmax j
    let dx := maxDist arr i j 1 (dimx - 1) (rabs (arr 0 i - arr 0 j))
    let dy := maxDist arr i j dimx dimy (rabs (arr dimx i - arr dimx j))
    let dz := maxDist arr i j (dimx + dimy) (dim - (dimx + dimy)) 0
    if dz < epsmax then
      (if dx < epsmax then st.1 + 1 else st.1, if dy < epsmax then st.2.1 + 1 else st.2.1, st.2.2 + 1)
    else st

structure KnnState where
  idx : Nat → Nat
  A : List Rat
  out : List (Nat × Nat × Nat)

/-- one iteration of the outer `for i in range(T)` loop -/
def knnPoint (arr : Nat → Nat → Rat) (T dim dimx dimy k fuel : Nat) (eps0 : Rat) (i : Nat)
    (st : KnnState) : Option KnnState :=
  match growLoop arr i T dim k fuel eps0 st.idx with
  | none => none
  | some (_, idx, n) =>
    let A := sortLoop arr i dim k idx n st.A
    some { idx := idx, A := A, out := st.out ++ [countLoop arr i dimx dimy dim (rd A k) T] }

/-- `_get_nearest_neighbors(array, dim, T, dim_x, dim_y, k)`: state after the samples `< i`;
`eps0 = (k/T)**(1./dim)` is a floating-point number — the model takes it as a parameter -/
def knnAll (arr : Nat → Nat → Rat) (T dim dimx dimy k fuel : Nat) (eps0 : Rat) :
    Nat → Option KnnState
  | 0 => some { idx := fun _ => 0, A := List.replicate (k + 1) 0, out := [] }
  | i+1 => (knnAll arr T dim dimx dimy k fuel eps0 i).bind
      (knnPoint arr T dim dimx dimy k fuel eps0 i)

end Pyunicorn.Coupling
