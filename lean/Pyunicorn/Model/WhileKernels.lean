/-
C20 — the `while` kernels of timeseries/_ext/numerics.pyx that index a buffer
*before* testing the loop bound (visibility), or did so before its repair (adaptive).

* `_set_adaptive_neighborhood_size` (numerics.pyx:428-449): executable model with
  Cython's `boundscheck=True` semantics (an index outside the buffer's own shape
  is the outcome `none` = IndexError).
* the three `_visibility_relations_*` kernels (numerics.pyx:799-872): the scan
  `k = i+1; while cond(k) and k < j: k += 1` abstracted over the data-dependent
  condition.

Core Lean only.
-/
namespace Pyunicorn.WhileKernels

abbrev IMat := List (List Int)

/-- checked read `m[r, c]` (`wraparound=False`: negative indices are errors) -/
def get2 (m : IMat) (r c : Int) : Option Int :=
  if r < 0 ∨ c < 0 then none else (m[r.toNat]?).bind (·[c.toNat]?)

/-- checked write `m[r, c] = v` -/
def set2 (m : IMat) (r c : Int) (v : Int) : Option IMat :=
  match get2 m r c with
  | none => none
  | some _ => some (m.modify r.toNat (fun row => row.set c.toNat v))

def get1 (v : List Int) (i : Int) : Option Int := if i < 0 then none else v[i.toNat]?

/-- `while k < n_time and recurrence[l, sorted_neighbors[l, k]] == 1: k += 1`
(the bound is tested *first* since the repair of the kernel, C07 fix 9c70d12; the pinned
code read the buffers before testing the bound and raised IndexError at `k = n_time`).
Returns the final `k`, or `none` if one of the two buffer reads is out of range.
`fuel` bounds the number of iterations. -/
def scan (recur sn : IMat) (l : Int) (nT : Nat) : Nat → Nat → Option Nat
  | 0, k => some k
  | f + 1, k =>
    if k < nT then
      match get2 sn l k with
      | none => none
      | some c =>
        match get2 recur l c with
        | none => none
        | some r => if r == 1 then scan recur sn l nT f (k + 1) else some k
    else some k

/-- loop body for one `(i, j)`: the new link is only written `if k < n_time` -/
def body (sn : IMat) (order : List Int) (nT : Nat) (i j : Nat) (recur : IMat) : Option IMat :=
  match get1 order j with
  | none => none
  | some l =>
    match scan recur sn l nT (nT + 2) (i + 1) with
    | none => none
    | some k =>
      if k < nT then
        match get2 sn l k with
        | none => none
        | some c =>
          match set2 recur l c 1 with
          | none => none
          | some r1 => set2 r1 c l 1
      else some recur

def adaptive (nT a : Nat) (sn : IMat) (order : List Int) (recur : IMat) : Option IMat :=
  (List.range a).foldl (fun acc i =>
    (List.range nT).foldl (fun acc j => acc.bind (body sn order nT i j)) acc) (some recur)

/-- well-formed arguments, as `RecurrencePlot.set_adaptive_neighborhood_size`
builds them: `recurrence` is `n × n`; the first `n` rows of `sorted_neighbors`
have at least `n_time` columns holding state numbers `< n`
(`distance.argsort(axis=1)`); the first `n_time` entries of `order` are state
numbers `< n`. -/
def tablesOK (n nT : Nat) (sn : IMat) (order : List Int) (recur : IMat) : Bool :=
  recur.length == n && recur.all (fun row => row.length == n)
  && decide (n ≤ sn.length)
  && (sn.take n).all (fun row => decide (nT ≤ row.length)
        && (row.take nT).all (fun c => decide (0 ≤ c) && decide (c < (n : Int))))
  && decide (nT ≤ order.length)
  && (order.take nT).all (fun l => decide (0 ≤ l) && decide (l < (n : Int)))

def showOutcome : Option IMat → String
  | none => "raise:IndexError"
  | some m =>
    if m.isEmpty then "-" else
      ";".intercalate (m.map fun row =>
        if row.isEmpty then "-" else ",".intercalate (row.map toString))

/-! ### visibility scans -/

/-- indices `k` at which `x[k]`, `t[k]` (and `mv_indices[k]`) are read by
`k = i + 1; while cond k and k < j: k += 1`, in order; `fuel` bounds the
iterations. -/
def visScan (cond : Nat → Bool) (j : Nat) : Nat → Nat → List Nat
  | 0, k => [k]
  | f + 1, k => k :: (if cond k && decide (k < j) then visScan cond j f (k + 1) else [])

/-- all buffer indices the visibility kernels evaluate for a series of length `N`
(`x[i]`, `x[j]`, the scanned `x[k]`, `A[i,j]`, `A[j,i]`, and the trivial links
`A[i,i+1]`) as `(row-or-index, optional column)`; every component must be `< N`. -/
def visIndices (cond : Nat → Nat → Nat → Bool) (N : Nat) : List Nat :=
  ((List.range (N - 2)).flatMap fun i =>
    (List.range (N - (i + 2))).flatMap fun dj =>
      let j := i + 2 + dj
      [i, j] ++ visScan (cond i j) j (j - (i + 1)) (i + 1)) ++
  ((List.range (N - 1)).flatMap fun i => [i, i + 1])

end Pyunicorn.WhileKernels
