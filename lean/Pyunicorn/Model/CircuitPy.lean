import Pyunicorn.Model.Circuit
/-! Vocabulary of the *regenerated method bodies* of `ResNetwork` (C18, round 5), core Lean only.

`translate/gen_C18.py` turns the `ast` of `get_admittance`, `get_R`, `admittance_lapacian`,
`update_admittance`, `update_R`, `update_resistances` and the `ResNetwork` part of `__init__` into
Lean functions on the record `Py` below, statement by statement (`self.x = e` becomes
`let self := { self with x := e }`, a `for` loop a `List.foldl` over the object), written to
`Pyunicorn/Generated/StructC18.lean` on every run.  This file fixes what the library calls used
in those bodies mean; `Properties/C18.lean` proves that the regenerated bodies compute the state
machine of `Model/Circuit.lean` (`*_body_matches_source`). -/
namespace Pyunicorn.Circuit

/-- the attributes of a `ResNetwork` object read or written by the update methods -/
structure Py where
  /-- `Network.N` -/
  N : Nat
  /-- `Network.sp_A` (the adjacency matrix the network holds) -/
  adj : Adj
  resistances : Mat
  /-- `sparse_Adm` / `sparse_R`: `None` reads as the zero matrix -/
  sparse_Adm : Mat
  sparse_R : Mat
  /-- `_effective_resistances` -/
  effective_resistances : Option (List Rat)

/-- `nz_coords(sp_A)` = `np.array(sp_A.nonzero()).T`: the coordinates of the stored entries,
row by row -/
def nzCoords (n : Nat) (adj : Adj) : List (Nat × Nat) :=
  (List.range n).flatMap fun i => ((List.range n).filter fun j => adj i j).map fun j => (i, j)

/-- `Network.edge_list()` -/
def Py.edge_list (self : Py) : List (Nat × Nat) := nzCoords self.N self.adj

/-- `sparse.lil_matrix((N, N), dtype=…)`: nothing stored -/
def lilZeros : Mat := fun _ _ => 0

/-- an attribute holding a matrix set to `None` (read as the zero matrix by the model) -/
def pyNoneMat : Mat := fun _ _ => 0

/-- `A[i, j] = v` -/
def setItem (A : Mat) (i j : Nat) (v : Rat) : Mat := fun a b => if a = i ∧ b = j then v else A a b

/-- `np.diag(v)` of a vector -/
def npDiag (v : Vec) : Mat := fun i j => if i = j then v j else 0

/-- Python's builtin `sum(A)` of a 2-D array with `n` rows: the sum of the rows -/
def pySum (n : Nat) (A : Mat) : Vec := fun j => sumTo n fun k => A k j

/-- `A - B` on arrays -/
def matSub (A B : Mat) : Mat := fun i j => A i j - B i j

/-- `np.linalg.pinv(A, …)` of an `n × n` array (the parameter `pinv` of the state machine) -/
def npPinv (pinv : Nat → Mat → LMat) (n : Nat) (A : Mat) : Mat := toFun (pinv n A)

/-- the model state an object stands for -/
def Py.abs (p : Py) : State :=
  { n := p.N, adj := p.adj, res := p.resistances, adm := p.sparse_Adm, R := p.sparse_R,
    store := p.effective_resistances }

/-- the object a model state stands for -/
def State.py (s : State) : Py :=
  { N := s.n, adj := s.adj, resistances := s.res, sparse_Adm := s.adm, sparse_R := s.R,
    effective_resistances := s.store }

end Pyunicorn.Circuit
