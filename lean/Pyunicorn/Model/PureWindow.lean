import Pyunicorn.Model.Pure
/-!
Round 5 — what happens *inside* a method between a temporary in-place edit of a shared array and
its restore (`Network.average_path_length`, `closeness`, `global_efficiency`: the cached
path-length matrix is edited, used, and put back).  Rounds 1–4 proved that edit-then-restore is the
identity on the content (`editRestoreMask_id`, `editRestoreDiag_id`) and accepted such edits as
"safe"; nothing was said about code that runs *while the edit is in place* (a nested query on the
same object would be answered from the temporary content) nor about control leaving the method
before the restore.  `translate/windows_C06.py` turns the statement block around every restored
edit into a list of `WStep`s; this file gives them an executable semantics.  Core Lean only.
-/
namespace Pyunicorn.Pure

/-- one step of the block containing a temporary edit of the shared array `x` -/
inductive WStep
  | mask                  -- `m = np.isinf(x)` / `m = x == np.inf`
  | edit                  -- `x[m] = c` / `np.fill_diagonal(x, a)`
  | restore               -- `x[m] = np.inf` / `np.fill_diagonal(x, 0)` (the last edit of `x`)
  | comp                  -- arithmetic, numpy calls, methods of local arrays: runs no code that
                          -- can reach `x` other than through the local name; *may raise*
                          -- (numpy error state `raise`, warnings as errors, KeyboardInterrupt …)
  | call (what : String)  -- code that can reach the object runs here (method / property of
                          -- `self`, a callee that is handed `self` or `x`, an unknown callee)
  | exit (what : String)  -- `return` / `raise` / `assert` / `yield`: control may leave here
  | other (why : String)  -- `x` or `m` rebound, an edit in a nested block, `with` …: not modelled
  | tryB                  -- `try:`
  | fin                   -- `finally:`
  | tryE                  -- end of the `try` statement
deriving Repr, DecidableEq

/-- the array operations of one restore form; `μ` = what the mask statement remembers -/
structure WOps (σ μ : Type) where
  takeMask : σ → μ
  edit : σ → μ → σ
  restore : σ → μ → σ

/-- form 1 on the (flattened) array: `m = flag(x); x[m] = c; …; x[m] = inf` -/
def maskOps {α : Type} (flag : α → Bool) (c inf : α) : WOps (List α) (List Bool) :=
  ⟨fun x => x.map flag, fun x m => setMask x m c, fun x m => setMask x m inf⟩

/-- form 2: `np.fill_diagonal(x, a); …; np.fill_diagonal(x, z)` (no mask statement) -/
def diagOps {α : Type} (a z : α) : WOps (List (List α)) Unit :=
  ⟨fun _ => (), fun x _ => fillDiag a x, fun x _ => fillDiag z x⟩

/-- where control is: outside a `try`, in its body, on the way from a raising / returning
statement of the body to the `finally` clause, in the `finally` clause after a normal completion
of the body, in the `finally` clause with an exception / return pending -/
inductive WMode | normal | body | skip | finN | finP
deriving Repr, DecidableEq

structure WState (σ μ : Type) where
  cur : σ             -- content of the shared array
  m : μ               -- the local mask variable
  seen : List σ       -- what code that can reach the object saw while the method ran
  own : List σ        -- what the method's own computations saw
  left : Bool         -- control has left the block
  mode : WMode

def WState.start {σ μ : Type} (x : σ) (m0 : μ) : WState σ μ := ⟨x, m0, [], [], false, .normal⟩

/-- steps at which control may leave: a computation may raise, a call may raise, an exit may be
taken.  The stores `x[m] = c`, `np.fill_diagonal(x, c)` and the mask statement themselves are
assumed to complete. -/
def WStep.leavable : WStep → Bool
  | .comp => true
  | .call _ => true
  | .exit _ => true
  | _ => false

/-- what a step does to the data when it completes -/
def weffect {σ μ : Type} (ops : WOps σ μ) (st : WState σ μ) : WStep → WState σ μ
  | .mask => { st with m := ops.takeMask st.cur }
  | .edit => { st with cur := ops.edit st.cur st.m }
  | .restore => { st with cur := ops.restore st.cur st.m }
  | .comp => { st with own := st.own ++ [st.cur] }
  | .call _ => { st with seen := st.seen ++ [st.cur] }
  | _ => st

/-- control leaves the current statement abnormally: from a `try` body to its `finally` clause,
from anywhere else out of the block (an exception raised inside a `finally` clause replaces the
pending one and leaves at once) -/
def wleave {σ μ : Type} (st : WState σ μ) : WState σ μ :=
  match st.mode with
  | .body => { st with mode := .skip }
  | _ => { st with left := true }

/-- one step; `b` = this step raises / this exit is taken -/
def wstep {σ μ : Type} (ops : WOps σ μ) (st : WState σ μ) (b : Bool) (a : WStep) : WState σ μ :=
  match a with
  | .tryB => (match st.mode with | .normal => { st with mode := .body } | _ => st)
  | .fin => (match st.mode with
      | .body => { st with mode := .finN }
      | .skip => { st with mode := .finP }
      | _ => st)
  | .tryE => (match st.mode with
      | .finN => { st with mode := .normal }
      | .finP => { st with left := true }
      | _ => st)
  | a => if st.mode = .skip then st
         else if a.leavable && b then wleave st else weffect ops st a

/-- run the block; step `i` raises / takes its exit iff `ch[i]` (missing = no).  Once control has
left, nothing more is executed — in particular no restore. -/
def wexec {σ μ : Type} (ops : WOps σ μ) : WState σ μ → List WStep → List Bool → WState σ μ
  | st, [], _ => st
  | st, a :: t, ch => if st.left then st else wexec ops (wstep ops st (ch.headD false) a) t ch.tail

/-- contents of the shared array before every step and at the end when nothing raises (for the
driver) -/
def wtrace {σ μ : Type} (ops : WOps σ μ) : WState σ μ → List WStep → List σ
  | st, [] => [st.cur]
  | st, a :: t => st.cur :: wtrace ops (wstep ops st false a) t

inductive WPhase
  | closed    -- `x` holds its original content
  | masked    -- … and `m` is the mask of that content
  | opened    -- the temporary edit is in place
deriving Repr, DecidableEq

/-- where the checker is -/
inductive CMode | normal | body | fin
deriving Repr, DecidableEq

/-- may step `a` run in phase `p`?  `prot` = inside a `try` body (its `finally` clause is checked
from every phase in which the body can be left).  While the edit is in place: no code able to
reach the object; nothing that can raise or leave unless protected; the mask is not retaken. -/
def stepOK (nm prot : Bool) (p : WPhase) : WStep → Bool
  | .mask => p != .opened
  | .edit => (match p with | .closed => !nm | .masked => true | .opened => false)
  | .restore => p == .opened
  | .comp => prot || p != .opened
  | .exit _ => prot || p != .opened
  | .call _ => p != .opened
  | .other _ => false
  | _ => true

def nextPhase (p : WPhase) : WStep → WPhase
  | .mask => .masked
  | .edit => .opened
  | .restore => .closed
  | _ => p

/-- the decidable check on a translated block.  `phs` = the phases control can be in here, `acc` =
the phases in which the current `try` body can have been left.  `needsMask` = form 1. -/
def wcheck (nm : Bool) : CMode → List WPhase → List WPhase → List WStep → Bool
  | md, phs, _, [] => md == .normal && phs.all (· != .opened)
  | md, phs, _, .tryB :: t => md == .normal && wcheck nm .body phs [] t
  | md, phs, acc, .fin :: t => md == .body && wcheck nm .fin (phs ++ acc) [] t
  | md, phs, _, .tryE :: t => md == .fin && phs.all (· != .opened) && wcheck nm .normal phs [] t
  | md, phs, acc, a :: t =>
      phs.all (fun p => stepOK nm (md == .body) p a) &&
        wcheck nm md (phs.map (nextPhase · a))
          (if md == .body && a.leavable then phs ++ acc else acc) t

def Restore.needsMask : Restore → Bool
  | .maskInf => true
  | .diagInfZero => false

/-- a translated window: where it is, the restore form, the steps -/
structure Window where
  site : String
  form : Restore
  steps : List WStep
deriving Repr, DecidableEq

def blockOK (nm : Bool) (steps : List WStep) : Bool := wcheck nm .normal [.closed] [] steps
def windowOK (w : Window) : Bool := blockOK w.form.needsMask w.steps
def windowsOK (ws : List Window) : Bool := ws.all windowOK
def windowOffenders (ws : List Window) : List String := (ws.filter (!windowOK ·)).map (·.site)

/-- a history of executions of translated blocks on one shared array: each with its own stale
mask variable and its own exits taken; returns the final content and everything that code able to
reach the object saw along the way -/
def wrunAll {σ μ : Type} (ops : WOps σ μ) : σ → List (List WStep × μ × List Bool) → σ × List σ
  | x, [] => (x, [])
  | x, h :: t =>
    let r := wexec ops (WState.start x h.2.1) h.1 h.2.2
    let r2 := wrunAll ops r.cur t
    (r2.1, r.seen ++ r2.2)

end Pyunicorn.Pure
