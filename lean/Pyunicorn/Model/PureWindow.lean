import Pyunicorn.Model.Pure
/-!
Round 5 — what happens *inside* a method between a temporary in-place edit of a shared array and
its restore (`Network.average_path_length`, `closeness`, `global_efficiency`: the cached
path-length matrix is edited, used, and put back).  Rounds 1–4 proved that edit-then-restore is the
identity on the content (`editRestoreMask_id`, `editRestoreDiag_id`) and accepted such edits as
"safe"; nothing was said about code that runs *while the edit is in place* (a nested query on the
same object would be answered from the temporary content) nor about control leaving the method
before the restore.  `translate/windows_C06.py` turns the statement block around every restored
edit into a list of `WStep`s; this file gives them an executable semantics.  Core Lean only.
-/
namespace Pyunicorn.Pure

/-- one step of the block containing a temporary edit of the shared array `x` -/
inductive WStep
  | mask                  -- `m = np.isinf(x)` / `m = x == np.inf`
  | edit                  -- `x[m] = c` / `np.fill_diagonal(x, a)`
  | restore               -- `x[m] = np.inf` / `np.fill_diagonal(x, 0)` (the last edit of `x`)
  | comp                  -- arithmetic, numpy calls, methods of local arrays: runs no code that
                          -- can reach `x` other than through the local name; cannot leave
  | call (what : String)  -- code that can reach the object runs here (method / property of
                          -- `self`, a callee that is handed `self` or `x`, an unknown callee)
  | exit (what : String)  -- `return` / `raise` / `assert` / `yield`: control may leave here
  | other (why : String)  -- `x` or `m` rebound, an edit in a nested block, `try` …: not modelled
deriving Repr, DecidableEq

/-- the array operations of one restore form; `μ` = what the mask statement remembers -/
structure WOps (σ μ : Type) where
  takeMask : σ → μ
  edit : σ → μ → σ
  restore : σ → μ → σ

/-- form 1 on the (flattened) array: `m = flag(x); x[m] = c; …; x[m] = inf` -/
def maskOps {α : Type} (flag : α → Bool) (c inf : α) : WOps (List α) (List Bool) :=
  ⟨fun x => x.map flag, fun x m => setMask x m c, fun x m => setMask x m inf⟩

/-- form 2: `np.fill_diagonal(x, a); …; np.fill_diagonal(x, z)` (no mask statement) -/
def diagOps {α : Type} (a z : α) : WOps (List (List α)) Unit :=
  ⟨fun _ => (), fun x _ => fillDiag a x, fun x _ => fillDiag z x⟩

structure WState (σ μ : Type) where
  cur : σ             -- content of the shared array
  m : μ               -- the local mask variable
  seen : List σ       -- what code that can reach the object saw while the method ran
  own : List σ        -- what the method's own computations saw
  left : Bool         -- control has left the block

/-- one step; `take` = this possible exit is taken -/
def wstep {σ μ : Type} (ops : WOps σ μ) (st : WState σ μ) (take : Bool) : WStep → WState σ μ
  | .mask => { st with m := ops.takeMask st.cur }
  | .edit => { st with cur := ops.edit st.cur st.m }
  | .restore => { st with cur := ops.restore st.cur st.m }
  | .comp => { st with own := st.own ++ [st.cur] }
  | .call _ => { st with seen := st.seen ++ [st.cur] }
  | .exit _ => { st with left := take }
  | .other _ => st

/-- run the block; step `i` takes its exit iff `ch[i]` (missing = not taken).  Once control has
left, nothing more is executed — in particular no restore. -/
def wexec {σ μ : Type} (ops : WOps σ μ) : WState σ μ → List WStep → List Bool → WState σ μ
  | st, [], _ => st
  | st, a :: t, ch => if st.left then st else wexec ops (wstep ops st (ch.headD false) a) t ch.tail

/-- contents of the shared array before every step and at the end (for the driver) -/
def wtrace {σ μ : Type} (ops : WOps σ μ) : WState σ μ → List WStep → List σ
  | st, [] => [st.cur]
  | st, a :: t => st.cur :: wtrace ops (wstep ops st false a) t

inductive WPhase
  | closed    -- `x` holds its original content
  | masked    -- … and `m` is the mask of that content
  | opened    -- the temporary edit is in place
deriving Repr, DecidableEq

/-- the decidable check on a translated block: while the edit is in place no code that can reach
the object runs and control cannot leave; the mask is taken from the unedited content and not
retaken while the edit is in place; the block does not end with the edit in place; nothing is
unclassified.  `needsMask` = form 1. -/
def wcheck (needsMask : Bool) : WPhase → List WStep → Bool
  | ph, [] => ph != .opened
  | ph, .mask :: t => ph != .opened && wcheck needsMask .masked t
  | ph, .edit :: t =>
      (match ph with | .closed => !needsMask | .masked => true | .opened => false) &&
        wcheck needsMask .opened t
  | ph, .restore :: t => ph == .opened && wcheck needsMask .closed t
  | ph, .comp :: t => wcheck needsMask ph t
  | ph, .call _ :: t => ph != .opened && wcheck needsMask ph t
  | ph, .exit _ :: t => ph != .opened && wcheck needsMask ph t
  | _, .other _ :: _ => false

def Restore.needsMask : Restore → Bool
  | .maskInf => true
  | .diagInfZero => false

/-- a translated window: where it is, the restore form, the steps -/
structure Window where
  site : String
  form : Restore
  steps : List WStep
deriving Repr, DecidableEq

def windowOK (w : Window) : Bool := wcheck w.form.needsMask .closed w.steps
def windowsOK (ws : List Window) : Bool := ws.all windowOK
def windowOffenders (ws : List Window) : List String := (ws.filter (!windowOK ·)).map (·.site)

/-- a history of executions of translated blocks on one shared array: each with its own stale
mask variable and its own exits taken; returns the final content and everything that code able to
reach the object saw along the way -/
def wrunAll {σ μ : Type} (ops : WOps σ μ) : σ → List (List WStep × μ × List Bool) → σ × List σ
  | x, [] => (x, [])
  | x, h :: t =>
    let r := wexec ops ⟨x, h.2.1, [], [], false⟩ h.1 h.2.2
    let r2 := wrunAll ops r.cur t
    (r2.1, r.seen ++ r2.2)

end Pyunicorn.Pure
