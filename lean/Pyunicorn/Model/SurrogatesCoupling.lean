import Pyunicorn.Model.Surrogates
import Pyunicorn.Generated.ArithC15
/-!
Round 4 (property C15): the Fourier surrogates of the pure-Python coupling class,
`CouplingAnalysisPurePython.correlatedNoiseSurrogates` (funcnet/coupling_analysis_pure_python.py),
used by `shuffled_surrogate_for_cc / _for_mi (fourier=True)`.  Core Lean only.

Unlike `Surrogates.correlated_noise_surrogates` it works on the **full** FFT (`numpy.fft.fft`) of
each series, multiplies the positive frequencies `1 … lenPhase` by random unit phases **in place in
the memoised array** (`self.originalFFT`), overwrites the negative frequencies by the reversed
conjugates and returns `real(ifft(·))`:

    if (ntime % 2) == 0: lenPhase = (ntime - 2) // 2
    else:                lenPhase = (ntime - 1) // 2
    phases = numpy.random.uniform(low=0, high=2*pi, size=(nNodes, lenPhase))
    surrogates[:, 1:lenPhase+1] *= numpy.exp(1j * phases)
    if (ntime % 2) == 0: surrogates[:, lenPhase+2:ntime] = numpy.fliplr(surrogates[:, 1:lenPhase+1].conjugate())
    else:                surrogates[:, lenPhase+1:ntime] = numpy.fliplr(surrogates[:, 1:lenPhase+1].conjugate())
    return numpy.ascontiguousarray(numpy.real(numpy.fft.ifft(surrogates, axis=1)))

Every slice bound, both parity tests and both `lenPhase` expressions are the definitions of
`Generated/ArithC15.lean` (regenerated from the source on every run).  All operations act along
axis 1, so the model is per series (one row of the FFT array).
-/
namespace Pyunicorn.Surrogates
open Pyunicorn.Generated

/-- the basic slice `a[lo:hi]` of a 1-D axis for non-negative bounds (clipped to the length, empty
when `hi ≤ lo`, as in Python) -/
def pySlice (xs : List β) (lo hi : Int) : List β :=
  (xs.drop lo.toNat).take (hi.toNat - lo.toNat)

/-- the assignment `a[lo:hi] = v` along one axis: the slice must have exactly the length of `v`
(`none` = numpy's ValueError "could not broadcast"); negative bounds (which would wrap around in
Python) are not modelled and are an error here -/
def setSlice (xs : List β) (lo hi : Int) (v : List β) : Option (List β) :=
  if lo < 0 ∨ hi < 0 then none
  else
    let l := min lo.toNat xs.length
    let h := max l (min hi.toNat xs.length)
    if v.length = h - l then some (xs.take l ++ v ++ xs.drop h) else none

section
variable {α : Type} [Add α] [Sub α] [Mul α] [Neg α]

/-- `.conjugate()` on (re, im) pairs -/
def conjP (z : α × α) : α × α := (z.1, -z.2)

/-- `lenPhase` as the method computes it from `ntime` -/
def cnsLen (ntime : Int) : Int :=
  if ArithC15.cnsEven ntime then ArithC15.cnsLenEven ntime else ArithC15.cnsLenOdd ntime

/-- one call of `correlatedNoiseSurrogates` on the memoised full FFT `fft` of one series;
`φs` = that series' row of `phases`.  Returns the array handed to `numpy.fft.ifft`, which is also
what the memoised array holds afterwards (all updates are in place).  `none` = a shape error. -/
def cnsStep (T : Trig α) (fft : List (α × α)) (φs : List α) : Option (List (α × α)) :=
  let n : Int := fft.length
  let L := cnsLen n
  -- surrogates[:, 1:lenPhase+1] *= numpy.exp(1j * phases)
  let pos := pySlice fft (ArithC15.cnsMulLo L n) (ArithC15.cnsMulHi L n)
  if φs.length ≠ pos.length then none else
  match setSlice fft (ArithC15.cnsMulLo L n) (ArithC15.cnsMulHi L n) (rotRow T pos φs) with
  | none => none
  | some s1 =>
    if ArithC15.cnsEven2 n then
      setSlice s1 (ArithC15.cnsMirEvenLo L n) (ArithC15.cnsMirEvenHi L n)
        ((pySlice s1 (ArithC15.cnsSrcEvenLo L n) (ArithC15.cnsSrcEvenHi L n)).map conjP).reverse
    else
      setSlice s1 (ArithC15.cnsMirOddLo L n) (ArithC15.cnsMirOddHi L n)
        ((pySlice s1 (ArithC15.cnsSrcOddLo L n) (ArithC15.cnsSrcOddHi L n)).map conjP).reverse

/-- a history of calls on one object: the memoised FFT is the array the previous call left behind.
Returns the arrays handed to `ifft`, call by call. -/
def cnsCalls (T : Trig α) (cache : List (α × α)) : List (List α) → Option (List (List (α × α)))
  | [] => some []
  | φs :: rest =>
    match cnsStep T cache φs with
    | none => none
    | some out =>
      match cnsCalls T out rest with
      | none => none
      | some outs => some (out :: outs)

end

end Pyunicorn.Surrogates
