import Pyunicorn.Model.Similarity
/-
Model of `src/pyunicorn/eventseries/event_series.py`:

* `event_synchronization`        (lines 429-511)  -> `es`
* `event_coincidence_analysis`   (lines 515-584)  -> `eca`
* `_eca_coincidence_rate`        (lines 587-702)  -> `ecaRate`
* `_ndim_*` matrix assembly      (lines 776-828)  -> `assemble`
* symmetrisation table           (lines 149-156, 175-247) -> `symmOp`, `symmetrize`
* `make_event_matrix`            (lines 250-425)  -> `makeEventMatrix`

Times are exact rationals (every IEEE double is one).  The vectorised NumPy
expressions are modelled as the list expressions they denote: a slice
`a[1:-1]` is `(a.drop 1).dropLast`, `np.diff` is `diff`, `np.repeat`-ed
outer comparisons are functions of a pair of events, `np.count_nonzero(np.any(
M[n:, :], axis=1))` is `countP (any …)` over `drop n`.
Core Lean only (no Mathlib) so that the driver links as an executable.
-/
namespace Pyunicorn.Events

/-! ## event extraction -/

/-- `ts[series == 1]` -/
def select : List Rat → List Bool → List Rat
  | t :: ts, b :: bs => if b then t :: select ts bs else select ts bs
  | _, _ => []

/-- default time stamps `0, 1, …, T-1` (`np.where(series)` / `np.linspace(0, T-1, T)`) -/
def indexTimes (T : Nat) : List Rat := (List.range T).map fun (i : Nat) => (i : Rat)

/-! ## event synchronisation -/

/-- `np.diff` -/
def diff (l : List Rat) : List Rat := List.zipWith (fun a b => b - a) l (l.drop 1)

/-- `ex[:, 1:-1]` -/
def inner (l : List Rat) : List Rat := (l.drop 1).dropLast

/-- `np.minimum(diffx[:, 1:], diffx[:, :-1])` -/
def minGaps (l : List Rat) : List Rat :=
  List.zipWith min ((diff l).drop 1) (diff l).dropLast

/-- an inner event together with the smaller of its two neighbouring gaps -/
abbrev Ev := Rat × Rat

/-- rows of `dstxy2` / `tau2` carry `(ex[1:-1][i], diffxmin[i])` -/
def innerEvents (l : List Rat) : List Ev := (inner l).zip (minGaps l)

/-- the same list by structural recursion (`innerEvents_eq_innerEv`) -/
def innerEv : List Rat → List Ev
  | a :: b :: c :: t => (b, min (c - b) (b - a)) :: innerEv (b :: c :: t)
  | _ => []

/-- `np.minimum(tau2, 2 * taumax)`; `none` is `taumax = np.inf` -/
def capTau (taumax : Option Rat) (t : Rat) : Rat :=
  match taumax with
  | none => t
  | some m => min t (2 * m)

/-- `dstxy2[i, j] = 2 * (ex[i] - ey[j])` -/
def dst2 (p q : Ev) : Rat := 2 * (p.1 - q.1)
/-- `tau2[i, j]` (twice the dynamical delay) -/
def tau2 (tm : Option Rat) (p q : Ev) : Rat := capTau tm (min p.2 q.2)

/-- `Axy = (dstxy2 > 0) * (dstxy2 <= tau2)` -/
def axy (tm : Option Rat) (p q : Ev) : Bool :=
  decide (0 < dst2 p q) && decide (dst2 p q ≤ tau2 tm p q)
/-- `Ayx = (dstxy2 < 0) * (dstxy2 >= -tau2)` -/
def ayx (tm : Option Rat) (p q : Ev) : Bool :=
  decide (dst2 p q < 0) && decide (-(tau2 tm p q) ≤ dst2 p q)
/-- entries counted by `eqtime = dstxy2.size - np.count_nonzero(dstxy2)` -/
def eqt (p q : Ev) : Bool := decide (dst2 p q = 0)

/-- number of `true` entries of the matrix `f xs[i] ys[j]` -/
def count2 (f : Ev → Ev → Bool) (xs ys : List Ev) : Nat :=
  (xs.map fun p => ys.countP (f p)).sum

/-- `for i, j in where(Axy): countxydouble += any(Ayx[i, :]) or any(Ayx[:, j])` -/
def dblxy (tm : Option Rat) (xs ys : List Ev) : Nat :=
  count2 (fun p q => axy tm p q && (ys.any (fun q' => ayx tm p q') ||
                                     xs.any (fun p' => ayx tm p' q))) xs ys
def dblyx (tm : Option Rat) (xs ys : List Ev) : Nat :=
  count2 (fun p q => ayx tm p q && (ys.any (fun q' => axy tm p q') ||
                                     xs.any (fun p' => axy tm p' q))) xs ys

/-- `countxy = sum(Axy) + 0.5 * eqtime - 0.5 * countxydouble` -/
def countXY (tm : Option Rat) (xs ys : List Ev) : Rat :=
  (count2 (axy tm) xs ys : Rat) + (count2 eqt xs ys : Rat) / 2 - (dblxy tm xs ys : Rat) / 2
def countYX (tm : Option Rat) (xs ys : List Ev) : Rat :=
  (count2 (ayx tm) xs ys : Rat) + (count2 eqt xs ys : Rat) / 2 - (dblyx tm xs ys : Rat) / 2

/-- result of `event_synchronization`: `nan, nan` | `0., 0.` |
`(countxy / sqrt normSq, countyx / sqrt normSq)` -/
inductive ESRes
  | nan
  | zero
  | val (cxy cyx : Rat) (normSq : Nat)
deriving Repr, DecidableEq

/-- `event_synchronization` on event *times* (`ex`, `ey` before the lag is added) -/
def es (ex ey : List Rat) (taumax : Option Rat) (lag : Rat) : ESRes :=
  let ey := ey.map (· + lag)
  let lx := ex.length
  let ly := ey.length
  if lx = 0 ∨ ly = 0 then .nan
  else if lx = 1 ∨ lx = 2 ∨ ly = 1 ∨ ly = 2 then .zero
  else
    let xs := innerEvents ex
    let ys := innerEvents ey
    .val (countXY taumax xs ys) (countYX taumax xs ys) ((lx - 2) * (ly - 2))

/-- `event_synchronization(eventseriesx, eventseriesy, ts1, ts2, taumax, lag)` -/
def esSeries (ts1 : List Rat) (bx : List Bool) (ts2 : List Rat) (by_ : List Bool)
    (taumax : Option Rat) (lag : Rat) : ESRes :=
  es (select ts1 bx) (select ts2 by_) taumax lag

/-! ## event coincidence analysis -/

/-- a coincidence rate: `np.float32(count) / denominator` -/
inductive Rate
  | nan                 -- 0 / 0
  | val (r : Rat)
deriving Repr, DecidableEq

/-- `np.float32(c) / d` for a count `c` taken over a slice of length `max d 0`
(so `c = 0` whenever `d ≤ 0`) -/
def rate (c : Nat) (d : Int) : Rate :=
  if d = 0 then .nan else .val ((c : Rat) / (d : Rat))

/-- indicator of the coincidence window `[lo, hi]` -/
def inWin (lo hi d : Rat) : Bool := decide (lo ≤ d) && decide (d ≤ hi)

/-- `count_nonzero(any(win(as[:,None] - bs[None,:] - lag), axis=1))`:
events of `as` that have a `bs` event in their window -/
def prec (win : Rat → Bool) (lag : Rat) (as bs : List Rat) : Nat :=
  as.countP fun a => bs.any fun b => win (a - b - lag)

/-- `count_nonzero(any(…, axis=0))`: events of `bs` that are in the window of an `as` event -/
def trig (win : Rat → Bool) (lag : Rat) (as bs : List Rat) : Nat :=
  bs.countP fun b => as.any fun a => win (a - b - lag)

/-- `len(e[e <= e[0] + c])` -/
def nStart (e : List Rat) (c : Rat) : Nat :=
  match e.head? with
  | some h => e.countP fun t => decide (t ≤ h + c)
  | none => 0
/-- `len(e[e >= e[-1] - c])` -/
def nEnd (e : List Rat) (c : Rat) : Nat :=
  match e.getLast? with
  | some h => e.countP fun t => decide (h - c ≤ t)
  | none => 0

structure EcaOut where
  prec12 : Rate
  trig12 : Rate
  prec21 : Rate
  trig21 : Rate
deriving Repr, DecidableEq

/-- `event_coincidence_analysis` on event times; `none` = the code raises
(an empty event series: `e1[0]` / broadcasting of the empty distance array) -/
def eca (e1 e2 : List Rat) (taumax lag : Rat) : Option EcaOut :=
  if e1 = [] ∨ e2 = [] then none else
  let inst : Bool := decide (lag = 0) && decide (taumax = 0)
  let n11 := if inst then 0 else nStart e1 (lag + taumax)
  let n12 := if inst then 0 else nEnd e1 (lag + taumax)
  let n21 := if inst then 0 else nStart e2 (lag + taumax)
  let n22 := if inst then 0 else nEnd e2 (lag + taumax)
  let l1 := e1.length
  let l2 := e2.length
  let win := inWin 0 taumax
  some {
    prec12 := rate (prec win lag (e1.drop n11) e2) ((l1 : Int) - n11)
    trig12 := rate (trig win lag e1 (e2.take (l2 - n22))) ((l2 : Int) - n22)
    prec21 := rate (prec win lag (e2.drop n21) e1) ((l2 : Int) - n21)
    trig21 := rate (trig win lag e2 (e1.take (l1 - n12))) ((l1 : Int) - n12) }

def ecaSeries (ts1 : List Rat) (bx : List Bool) (ts2 : List Rat) (by_ : List Bool)
    (taumax lag : Rat) : Option EcaOut :=
  eca (select ts1 bx) (select ts2 by_) taumax lag

inductive Window | advanced | retarded | symmetric
deriving Repr, DecidableEq

/-- `_eca_coincidence_rate` on event times -/
def ecaRate (w : Window) (e1 e2 : List Rat) (taumax lag : Rat) : Option (Rate × Rate) :=
  if e1 = [] ∨ e2 = [] then none else
  let inst : Bool := decide (lag = 0) && decide (taumax = 0)
  let l1 := e1.length
  let l2 := e2.length
  match w with
  | .advanced =>
    let n11 := if inst then 0 else nStart e1 (lag + taumax)
    let n21 := if inst then 0 else nStart e2 (lag + taumax)
    let win := inWin 0 taumax
    some (rate (prec win lag (e1.drop n11) e2) ((l1 : Int) - n11 - 0),
          rate (prec win lag (e2.drop n21) e1) ((l2 : Int) - n21 - 0))
  | .retarded =>
    let n12 := if inst then 0 else nEnd e1 (lag + taumax)
    let n22 := if inst then 0 else nEnd e2 (lag + taumax)
    let win := inWin 0 taumax
    some (rate (trig win lag e1 (e2.take (l2 - n22))) ((l2 : Int) - n22),
          rate (trig win lag e2 (e1.take (l1 - n12))) ((l1 : Int) - n12))
  | .symmetric =>
    let n11 := if inst then 0 else nStart e1 (lag + taumax)
    let n12 := if inst then 0 else nEnd e1 (lag + taumax)
    let n21 := if inst then 0 else nStart e2 (lag + taumax)
    let n22 := if inst then 0 else nEnd e2 (lag + taumax)
    let win := inWin (-taumax) taumax
    some (rate (prec win lag ((e1.take (l1 - n12)).drop n11) e2) ((l1 : Int) - n11 - n12),
          rate (prec win lag ((e2.take (l2 - n22)).drop n21) e1) ((l2 : Int) - n21 - n22))

def ecaRateSeries (w : Window) (ts1 : List Rat) (bx : List Bool) (ts2 : List Rat)
    (by_ : List Bool) (taumax lag : Rat) : Option (Rate × Rate) :=
  ecaRate w (select ts1 bx) (select ts2 by_) taumax lag

/-! ## the published counting formulas, index-wise (specification side)

`esFormula`, `ecaFormula`, `ecaRateFormula` restate the formulas of [Quiroga2002] /
[Odenweller2020] over event *indices* and event *times* — no slices, no doubled
quantities, boundary events excluded by their times.  `Properties/C16.lean` proves
`es = esFormula…`, `eca = ecaFormula`, `ecaRate = ecaRateFormula`; the driver
evaluates both sides. -/

/-- event `i` of a series with the smaller of its two neighbouring waiting times -/
def evAt (l : List Rat) (i : Nat) : Ev :=
  (l.getD i 0, min (l.getD (i + 1) 0 - l.getD i 0) (l.getD i 0 - l.getD (i - 1) 0))

/-- `τ_ij = ½ min{t^x_{i+1}-t^x_i, t^x_i-t^x_{i-1}, t^y_{j+1}-t^y_j, t^y_j-t^y_{j-1}}`,
at most `taumax` -/
def tauIJ (tm : Option Rat) (x y : List Rat) (i j : Nat) : Rat :=
  let g := min (evAt x i).2 (evAt y j).2 / 2
  match tm with
  | none => g
  | some m => min g m

/-- `0 < t^x_i - t^y_j ≤ τ_ij` -/
def jXY (tm : Option Rat) (x y : List Rat) (i j : Nat) : Bool :=
  decide (0 < x.getD i 0 - y.getD j 0) && decide (x.getD i 0 - y.getD j 0 ≤ tauIJ tm x y i j)
/-- `0 < t^y_j - t^x_i ≤ τ_ij` -/
def jYX (tm : Option Rat) (x y : List Rat) (i j : Nat) : Bool :=
  decide (0 < y.getD j 0 - x.getD i 0) && decide (y.getD j 0 - x.getD i 0 ≤ tauIJ tm x y i j)
/-- `t^x_i = t^y_j` -/
def jEq (x y : List Rat) (i j : Nat) : Bool := decide (x.getD i 0 = y.getD j 0)

/-- indices `1 … l-2` of the inner events -/
def innerIdx (l : List Rat) : List Nat := List.range' 1 (l.length - 2)

/-- `c(x|y) = Σ_{i=1}^{lx-2} Σ_{j=1}^{ly-2} J_ij`, `J_ij = 1` if `0 < t^x_i - t^y_j ≤ τ_ij`
(`½` if event `i` or event `j` also takes part in a pair counted for the other direction),
`½` if `t^x_i = t^y_j`, `0` otherwise.  `c(y|x)` is `esFormula tm y x`. -/
def esFormula (tm : Option Rat) (x y : List Rat) : Rat :=
  ((innerIdx x).map fun i => ((innerIdx y).map fun j =>
    if jXY tm x y i j then
      (if (innerIdx y).any (fun j' => jYX tm x y i j') ||
          (innerIdx x).any (fun i' => jYX tm x y i' j) then (1 / 2 : Rat) else 1)
    else if jEq x y i j then 1 / 2 else 0).sum).sum

/-- `event_synchronization` as guards + the index-wise formula -/
def esSpec (ex ey : List Rat) (taumax : Option Rat) (lag : Rat) : ESRes :=
  let ey := ey.map (· + lag)
  if ex.length = 0 ∨ ey.length = 0 then .nan
  else if ex.length ≤ 2 ∨ ey.length ≤ 2 then .zero
  else .val (esFormula taumax ex ey) (esFormula taumax ey ex) ((ex.length - 2) * (ey.length - 2))

/-- an event too early to have a precursor inside the record: `t ≤ t_first + lag + taumax` -/
def early (e : List Rat) (c : Rat) (t : Rat) : Bool :=
  match e.head? with
  | some h => decide (t ≤ h + c)
  | none => false
/-- an event too late to trigger inside the record: `t ≥ t_last - lag - taumax` -/
def late (e : List Rat) (c : Rat) (t : Rat) : Bool :=
  match e.getLast? with
  | some h => decide (h - c ≤ t)
  | none => false

/-- `r = (1/(N - n)) Σ_i Θ[Σ_j 1_[ΔT1,ΔT2](t_i - (t_j + τ))]` over the events of `as` that
satisfy `keep`; `n` = number of events excluded at the start (`nS`) and the end (`nE`) -/
def rateFormula (win : Rat → Bool) (lag : Rat) (keep : Rat → Bool) (as bs : List Rat)
    (nS nE : Nat) : Rate :=
  rate ((as.filter keep).countP fun a => bs.any fun b => win (a - b - lag))
    ((as.length : Int) - nS - nE)
/-- the same for the events of `bs` lying in the window of an event of `as` (trigger rates) -/
def rateFormulaT (win : Rat → Bool) (lag : Rat) (keep : Rat → Bool) (as bs : List Rat)
    (nE : Nat) : Rate :=
  rate ((bs.filter keep).countP fun b => as.any fun a => win (a - b - lag))
    ((bs.length : Int) - nE)

/-- `event_coincidence_analysis` with boundary events excluded by their *times* -/
def ecaFormula (e1 e2 : List Rat) (taumax lag : Rat) : Option EcaOut :=
  if e1 = [] ∨ e2 = [] then none else
  let inst : Bool := decide (lag = 0) && decide (taumax = 0)
  let c := lag + taumax
  let notEarly (e : List Rat) (t : Rat) : Bool := inst || !early e c t
  let notLate (e : List Rat) (t : Rat) : Bool := inst || !late e c t
  let nS (e : List Rat) : Nat := e.countP fun t => !notEarly e t
  let nE (e : List Rat) : Nat := e.countP fun t => !notLate e t
  let win := inWin 0 taumax
  some {
    prec12 := rateFormula win lag (notEarly e1) e1 e2 (nS e1) 0
    trig12 := rateFormulaT win lag (notLate e2) e1 e2 (nE e2)
    prec21 := rateFormula win lag (notEarly e2) e2 e1 (nS e2) 0
    trig21 := rateFormulaT win lag (notLate e1) e2 e1 (nE e1) }

/-- `_eca_coincidence_rate` with boundary events excluded by their times -/
def ecaRateFormula (w : Window) (e1 e2 : List Rat) (taumax lag : Rat) : Option (Rate × Rate) :=
  if e1 = [] ∨ e2 = [] then none else
  let inst : Bool := decide (lag = 0) && decide (taumax = 0)
  let c := lag + taumax
  let notEarly (e : List Rat) (t : Rat) : Bool := inst || !early e c t
  let notLate (e : List Rat) (t : Rat) : Bool := inst || !late e c t
  let nS (e : List Rat) : Nat := e.countP fun t => !notEarly e t
  let nE (e : List Rat) : Nat := e.countP fun t => !notLate e t
  match w with
  | .advanced =>
    some (rateFormula (inWin 0 taumax) lag (notEarly e1) e1 e2 (nS e1) 0,
          rateFormula (inWin 0 taumax) lag (notEarly e2) e2 e1 (nS e2) 0)
  | .retarded =>
    some (rateFormulaT (inWin 0 taumax) lag (notLate e2) e1 e2 (nE e2),
          rateFormulaT (inWin 0 taumax) lag (notLate e1) e2 e1 (nE e1))
  | .symmetric =>
    some (rateFormula (inWin (-taumax) taumax) lag (fun t => notEarly e1 t && notLate e1 t)
            e1 e2 (nS e1) (nE e1),
          rateFormula (inWin (-taumax) taumax) lag (fun t => notEarly e2 t && notLate e2 t)
            e2 e1 (nS e2) (nE e2))

/-! ## N×N assembly and symmetrisation -/

abbrev Mat (α : Type) := List (List α)

def Mat.get {α} (M : Mat α) (d : α) (i j : Nat) : α := (M.getD i []).getD j d
def Mat.set2 {α} (M : Mat α) (i j : Nat) (v : α) : Mat α := M.modify i (·.set j v)

/-- the loop body `directed[i, j], directed[j, i] = pair(i, j)` -/
def assembleStep {α} (pair : Nat → Nat → α × α) (M : Mat α) (ij : Nat × Nat) : Mat α :=
  let r := pair ij.1 ij.2
  (M.set2 ij.1 ij.2 r.1).set2 ij.2 ij.1 r.2

/-- `for i in range(N): for j in range(i+1, N)` -/
def upperPairs (n : Nat) : List (Nat × Nat) :=
  (List.range n).flatMap fun i => ((List.range n).filter (i < ·)).map fun j => (i, j)

/-- `_ndim_event_synchronization` / `_ndim_event_coincidence_analysis` -/
def assemble {α} (n : Nat) (zero : α) (pair : Nat → Nat → α × α) : Mat α :=
  (upperPairs n).foldl (assembleStep pair) (List.replicate n (List.replicate n zero))

inductive Symm | directed | symmetric | antisym | mean | max | min
deriving Repr, DecidableEq

/-- entry `[i,j]` of `symmetrization_options[s](M)` from `a = M[i,j]`, `b = M[j,i]` -/
def symmOp : Symm → Rat → Rat → Rat
  | .directed, a, _ => a
  | .symmetric, a, b => a + b
  | .antisym, a, b => a - b
  | .mean, a, b => (a + b) / 2
  | .max, a, b => max a b
  | .min, a, b => min a b

/-- NaN-propagating lift (`none` = NaN; all six NumPy operations propagate NaN,
`directed` only looks at `a`) -/
def symmOpN (s : Symm) (a b : Option Rat) : Option Rat :=
  match s, a, b with
  | .directed, a, _ => a
  | s, some a, some b => some (symmOp s a b)
  | _, _, _ => none

def symmetrize {α} (n : Nat) (d : α) (op : α → α → α) (M : Mat α) : Mat α :=
  (List.range n).map fun i => (List.range n).map fun j => op (M.get d i j) (M.get d j i)

/-- column `i` of the event matrix -/
def column (E : Mat Bool) (i : Nat) : List Bool := E.map fun row => row.getD i false

/-- an ES matrix entry before the division by `sqrt normSq`: `(count, normSq)`;
`none` = NaN.  The guard value `0.` is `(0, 1)`; the diagonal is `(0, 1)`. -/
abbrev ESEntry := Option (Rat × Nat)

def esPairEntry (r : ESRes) : ESEntry × ESEntry :=
  match r with
  | .nan => (none, none)
  | .zero => (some (0, 1), some (0, 1))
  | .val a b n => (some (a, n), some (b, n))

/-- `_ndim_event_synchronization` -/
def esMatrix (ts : List Rat) (E : Mat Bool) (n : Nat) (taumax : Option Rat) (lag : Rat) :
    Mat ESEntry :=
  assemble n (some (0, 1)) fun i j =>
    esPairEntry (esSeries ts (column E i) ts (column E j) taumax lag)

/-- symmetrisation of ES entries: `[i,j]` and `[j,i]` of one pair share `normSq`,
so the operation acts on the counts (`x/c op y/c = (x op y)/c` for `c > 0`);
a diagonal / guard zero `(0,1)` only ever meets another zero. -/
def esSymmOp (s : Symm) (a b : ESEntry) : ESEntry :=
  match s, a, b with
  | .directed, a, _ => a
  | s, some (x, n), some (y, _) => some (symmOp s x y, n)
  | _, _, _ => none

def esAnalysis (ts : List Rat) (E : Mat Bool) (n : Nat) (taumax : Option Rat) (lag : Rat)
    (s : Symm) : Mat ESEntry :=
  symmetrize n none (esSymmOp s) (esMatrix ts E n taumax lag)

def rateVal : Rate → Option Rat
  | .nan => none
  | .val r => some r

/-- `_ndim_event_coincidence_analysis`; `none` = some pair raises -/
def ecaMatrix (w : Window) (ts : List Rat) (E : Mat Bool) (n : Nat) (taumax lag : Rat) :
    Option (Mat (Option Rat)) :=
  if (upperPairs n).all (fun ij =>
      (ecaRateSeries w ts (column E ij.1) ts (column E ij.2) taumax lag).isSome) then
    some (assemble n (some 0) fun i j =>
      match ecaRateSeries w ts (column E i) ts (column E j) taumax lag with
      | some (a, b) => (rateVal a, rateVal b)
      | none => (none, none))
  else none

def ecaAnalysis (w : Window) (ts : List Rat) (E : Mat Bool) (n : Nat) (taumax lag : Rat)
    (s : Symm) : Option (Mat (Option Rat)) :=
  (ecaMatrix w ts E n taumax lag).map (symmetrize n none (symmOpN s))

/-! ## `make_event_matrix` -/

inductive TMethod | quantile | value
deriving Repr, DecidableEq
inductive TType | above | below
deriving Repr, DecidableEq

/-- `np.quantile(a, q)` (default `method='linear'`) on a non-empty list:
virtual index `(n-1)·q`, linear interpolation between the neighbouring order
statistics -/
def quantile (a : List Rat) (q : Rat) : Rat :=
  let s := a.mergeSort (fun x y => decide (x ≤ y))
  let n := s.length
  let h : Rat := ((n : Rat) - 1) * q
  let lo := h.floor.toNat
  let hi := Nat.min (lo + 1) (n - 1)
  let g := h - (lo : Rat)
  s.getD lo 0 + (s.getD hi 0 - s.getD lo 0) * g

/-- `np.median` -/
def median (a : List Rat) : Rat := quantile a (1 / 2)

inductive ThrErr | valueError | ioError
deriving Repr, DecidableEq

/-- threshold and type the code settles on for one variable (loop body at lines 361-405) -/
def resolveThreshold (col : List Rat) (m : TMethod) (v : Option Rat) (t : Option TType) :
    Except ThrErr (Rat × TType) :=
  match m with
  | .quantile =>
    match v with
    | some q =>
      if q > 1 ∨ q < 0 then .error .valueError
      else .ok (quantile col q, t.getD (if q ≥ 1 / 2 then .above else .below))
    | none => .ok (quantile col (1 / 2), t.getD .above)
  | .value =>
    match v with
    | none =>
      let th := median col
      .ok (th, t.getD (if th ≥ median col then .above else .below))
    | some x =>
      if col.all (fun d => decide (d < x)) ∨ col.all (fun d => decide (d > x)) then
        .error .ioError
      else .ok (x, t.getD (if x ≥ median col then .above else .below))

/-- the final double loop (lines 409-423) -/
def mark (th : Rat) (t : TType) (d : Rat) : Bool :=
  match t with
  | .above => decide (d > th)
  | .below => decide (d < th)

def dataColumn (data : Mat Rat) (i : Nat) : List Rat := data.map fun row => row.getD i 0

/-- `make_event_matrix(data, threshold_method, threshold_values, threshold_types)` with
per-variable parameter lists (`nvar` = `data.shape[1]`) -/
def makeEventMatrix (data : Mat Rat) (nvar : Nat) (ms : List TMethod) (vs : List (Option Rat))
    (tys : List (Option TType)) : Except ThrErr (Mat Bool) := do
  let thr ← (List.range nvar).mapM fun i =>
    resolveThreshold (dataColumn data i) (ms.getD i .quantile) (vs.getD i none) (tys.getD i none)
  pure (data.map fun row => (List.range nvar).map fun i =>
    let p := thr.getD i (0, .above)
    mark p.1 p.2 (row.getD i 0))

/-! ## round 3: the count statements as *slice specifications* (structural translator)

Every count of `event_coincidence_analysis` / `_eca_coincidence_rate` has the shape
`np.count_nonzero(np.any(W[r0 : dst.shape[0] - r1, c0 : dst.shape[1] - c1], axis=k))` with
`W[i,j] = w(e1[i] - e2[j])`.  `translate/gen_C16.py` reads the slice bounds and the axis of
each statement from the source into a `CountSpec` (`Generated/StructC16.lean`); `evalCount`
gives it its NumPy meaning. -/

/-- a slice bound: nothing, or one of the four boundary counts -/
inductive Bnd | zero | n11 | n12 | n21 | n22
deriving Repr, DecidableEq

structure CountSpec where
  rowLo : Bnd
  rowHi : Bnd   -- upper bound `dst.shape[0] - rowHi`
  colLo : Bnd
  colHi : Bnd   -- upper bound `dst.shape[1] - colHi`
  axis : Nat    -- axis of `np.any`
deriving Repr, DecidableEq

/-- `l[lo : len(l) - hiSub]` -/
def sliceL {α} (lo hiSub : Nat) (l : List α) : List α := (l.take (l.length - hiSub)).drop lo

def bndVal (n11 n12 n21 n22 : Nat) : Bnd → Nat
  | .zero => 0 | .n11 => n11 | .n12 => n12 | .n21 => n21 | .n22 => n22

/-- the count statement `s` on `dst[i,j] = e1[i] - e2[j]` with window test `w` -/
def evalCount (s : CountSpec) (w : Rat → Bool) (e1 e2 : List Rat) (n : Bnd → Nat) : Nat :=
  let rows := sliceL (n s.rowLo) (n s.rowHi) e1
  let cols := sliceL (n s.colLo) (n s.colHi) e2
  if s.axis = 1 then rows.countP fun a => cols.any fun b => w (a - b)
  else cols.countP fun b => rows.any fun a => w (a - b)

/-- `len(e[e <= e[0] + …])` / `len(e[e >= e[-1] - …])` with the comparison as a function of
`(t, reference event)` (the reference is the first / last event) -/
def countRef (cmp : Rat → Rat → Bool) (ref : Option Rat) (e : List Rat) : Nat :=
  match ref with
  | some h => e.countP fun t => cmp t h
  | none => 0

/-! ## round 3: the symmetrisation helpers as expressions, and who owns the arrays -/

/-- the expression a `_symmetrization_*` helper returns, over `(matrix, matrix.T)` -/
inductive SymExpr | arg | add | sub | mean | max | min
deriving Repr, DecidableEq

def evalSym : SymExpr → Rat → Rat → Rat
  | .arg, a, _ => a
  | .add, a, b => a + b
  | .sub, a, b => a - b
  | .mean, a, b => (a + b) / 2
  | .max, a, b => max a b
  | .min, a, b => min a b

/-- what the structural translator records about one helper -/
structure SymHelper where
  expr : SymExpr
  fresh : Bool       -- the result is a newly allocated array (`false`: the argument itself)
  writesArg : Bool   -- some statement / `out=` keyword stores into the argument
deriving Repr, DecidableEq

/-- the helper table as the model has it (proved equal to the table read from the source:
`gen_symm_table`): the table's expression, only `directed` returns its argument, nothing
stores into the argument -/
def stdHelper : Symm → SymHelper
  | .directed => ⟨.arg, false, false⟩
  | .symmetric => ⟨.add, true, false⟩
  | .antisym => ⟨.sub, true, false⟩
  | .mean => ⟨.mean, true, false⟩
  | .max => ⟨.max, true, false⟩
  | .min => ⟨.min, true, false⟩

/-- an `EventSeries` object as far as `event_series_analysis(method='ES')` is concerned:
arrays live in a heap and are handed around *by reference*; `cache` is the address of the
array memoised by `@Cached.method()` on `_ndim_event_synchronization` -/
structure ObjState (α : Type) where
  heap : List α
  cache : Option Nat

/-- one call `event_series_analysis(method='ES', symmetrization=s)`: fetch (or compute and
memoise) the directed matrix, hand *that array* to the helper; a helper may return its
argument, allocate, and (if `writesArg`) store its result into its argument.
Returns the new state and the address of the returned array. -/
def analysisStep {α} (compute : α) (apply : Symm → α → α) (hp : Symm → SymHelper)
    (st : ObjState α) (s : Symm) : ObjState α × Nat :=
  let heap1 := match st.cache with
    | some _ => st.heap
    | none => st.heap ++ [compute]
  let a := match st.cache with
    | some a => a
    | none => st.heap.length
  match heap1[a]? with
  | none => (⟨heap1, some a⟩, a)          -- unreachable for well-formed states
  | some m =>
    let r := apply s m
    let heap2 := if (hp s).writesArg then heap1.set a r else heap1
    if (hp s).fresh then (⟨heap2 ++ [r], some a⟩, heap2.length) else (⟨heap2, some a⟩, a)

/-- a history of calls on one object; the addresses of the arrays returned, in order -/
def runHistory {α} (compute : α) (apply : Symm → α → α) (hp : Symm → SymHelper) :
    ObjState α → List Symm → ObjState α × List Nat
  | st, [] => (st, [])
  | st, s :: t =>
    let r := analysisStep compute apply hp st s
    let r2 := runHistory compute apply hp r.1 t
    (r2.1, r.2 :: r2.2)

/-- what `symmetrization_options[s]` returns for the ES matrix `M` (the matrix itself for
`directed`) -/
def esApply (n : Nat) (s : Symm) (M : Mat ESEntry) : Mat ESEntry :=
  if s = Symm.directed then M else symmetrize n none (esSymmOp s) M

/-! ## round 3: the float32 quotient `np.float32(count) / denominator` -/

/-- round-to-nearest-even to a 24-bit significand (IEEE binary32; every rate is `0` or
`≥ 2⁻²⁴`, far inside the normal range) -/
def rn24 (x : Rat) : Rat :=
  if x ≤ 0 then 0 else
    let ulp := Similarity.twoPow (Similarity.binExp x - 23)
    (Similarity.roundHalfEven (x / ulp) : Rat) * ulp

/-- the value the code returns: the float32 nearest to the exact quotient -/
def rateF32 : Rate → Rate
  | .nan => .nan
  | .val r => .val (rn24 r)

def EcaOut.f32 (o : EcaOut) : EcaOut :=
  ⟨rateF32 o.prec12, rateF32 o.trig12, rateF32 o.prec21, rateF32 o.trig21⟩

/-- `event_series_analysis(method='ECA')` in floating point: float32 rates stored in the
float64 matrix, then symmetrised (`mean` of two float32 values is exact in float64) -/
def ecaAnalysisF32 (w : Window) (ts : List Rat) (E : Mat Bool) (n : Nat) (taumax lag : Rat)
    (s : Symm) : Option (Mat (Option Rat)) :=
  (ecaMatrix w ts E n taumax lag).map fun M =>
    symmetrize n none (symmOpN s) (M.map fun row => row.map fun e => e.map rn24)

/-! ## round 4: the float64 strengths `count / np.sqrt((lx - 2) * (ly - 2))`

The counts are half-integers (exact doubles), `(lx-2)*(ly-2)` is a Python `int`.  `np.sqrt`
is IEEE `sqrt` (correctly rounded), `/` is IEEE division (correctly rounded).  Both are
modelled over exact rationals: `sqrt53 n` is *the double nearest to `√n`*, computed from the
integer square root of `n·4⁵⁴`; the quotient is rounded by `Similarity.rn53`. -/

/-- signed round-to-nearest-even to 53 bits (`Similarity.rn53` handles `x > 0`) -/
def rn53s (x : Rat) : Rat :=
  if x < 0 then -(Similarity.rn53 (-x)) else Similarity.rn53 x

/-- `⌊√(n·4⁵⁴)⌋` has at least 55 bits for `n ≥ 1` -/
def sqrtBits : Nat := 54

/-- `⌊√n · 2⁵⁴⌋ / 2⁵⁴` : the square root of `n` cut off after 54 binary places -/
def sqrtFloor (n : Nat) : Rat :=
  (Nat.sqrt (n * 4 ^ sqrtBits) : Rat) / ((2 ^ sqrtBits : Nat) : Rat)

/-- a rational that rounds to 53 bits exactly as `√n` does: `√n` itself if `n` is a perfect
square, otherwise the midpoint of the interval `(m, m+1)/2⁵⁴` that contains `√n` (`m ≥ 2⁵⁴`,
so neither a double nor the midpoint of two neighbouring doubles lies strictly inside) -/
def sqrtSticky (n : Nat) : Rat :=
  let N := n * 4 ^ sqrtBits
  let m := Nat.sqrt N
  if m * m = N then sqrtFloor n
  else sqrtFloor n + 1 / ((2 ^ (sqrtBits + 1) : Nat) : Rat)

/-- `np.sqrt(n)` for a Python int `n < 2⁵³`: the double nearest to `√n` -/
def sqrt53 (n : Nat) : Rat := Similarity.rn53 (sqrtSticky n)

/-- `count / norm` in float64 -/
def strengthF64 (c : Rat) (n : Nat) : Rat := rn53s (c / sqrt53 n)

/-- the pair of doubles `event_synchronization` returns (`none` = NaN) -/
def esF64 : ESRes → Option Rat × Option Rat
  | .nan => (none, none)
  | .zero => (some 0, some 0)
  | .val a b n => (some (strengthF64 a n), some (strengthF64 b n))

/-- an entry of the float64 matrix `_ndim_event_synchronization` fills -/
def esEntryF64 : ESEntry → Option Rat
  | none => none
  | some (c, n) => some (strengthF64 c n)

/-- the six helpers in float64: `matrix + matrix.T`, `matrix - matrix.T`,
`np.mean([matrix, matrix.T], axis=0)` (the sum is rounded, halving is exact),
`np.maximum`, `np.minimum` (exact) -/
def symmOpF64 : Symm → Rat → Rat → Rat
  | .directed, a, _ => a
  | .symmetric, a, b => rn53s (a + b)
  | .antisym, a, b => rn53s (a - b)
  | .mean, a, b => rn53s (a + b) / 2
  | .max, a, b => max a b
  | .min, a, b => min a b

def symmOpF64N (s : Symm) (a b : Option Rat) : Option Rat :=
  match s, a, b with
  | .directed, a, _ => a
  | s, some a, some b => some (symmOpF64 s a b)
  | _, _, _ => none

/-- `event_series_analysis(method='ES', symmetrization=s)` as the doubles it returns -/
def esAnalysisF64 (ts : List Rat) (E : Mat Bool) (n : Nat) (taumax : Option Rat) (lag : Rat)
    (s : Symm) : Mat (Option Rat) :=
  symmetrize n none (symmOpF64N s)
    ((esMatrix ts E n taumax lag).map fun row => row.map esEntryF64)

/-! ## round 4: `np.quantile` as NumPy computes it (method `'linear'`)

`numpy/lib/_function_base_impl.py`: `_quantile` takes the virtual index
`_QuantileMethods['linear']['get_virtual_index'](n, q) = (n - 1) * q`, `_get_indexes` floors it
(`previous`), adds one (`next`), replaces both by `-1` (the last element) where the virtual
index is `≥ n - 1` and by `0` where it is negative, `_get_gamma` is
`virtual_indexes - previous_indexes` (through `fix_gamma = identity`), and `_lerp(a, b, t)` is
`a + (b - a) * t`, overwritten by `b - (b - a) * (1 - t)` where `t ≥ 0.5`.
`translate/gen_C16.py` regenerates these expressions from the installed NumPy;
`npQuantile_eq_quantile` proves the result is the `quantile` above. -/

/-- Python indexing of a list: a negative index counts from the end -/
def pyIdx (s : List Rat) (i : Int) : Rat :=
  if i < 0 then s.getD (s.length - (-i).toNat) 0 else s.getD i.toNat 0

/-- `_lerp(a, b, t)` -/
def npLerp (a b t : Rat) : Rat :=
  if t ≥ 1 / 2 then b - (b - a) * (1 - t) else a + (b - a) * t

/-- `_get_indexes`: `(previous_indexes, next_indexes)` for virtual index `v`, `n` values -/
def npIndexes (v : Rat) (n : Nat) : Int × Int :=
  let prev : Int := v.floor
  let next : Int := prev + 1
  let (prev, next) := if v ≥ (n : Rat) - 1 then ((-1 : Int), (-1 : Int)) else (prev, next)
  if v < 0 then (0, 0) else (prev, next)

/-- `np.quantile(a, q)` for a non-empty 1-D array and `0 ≤ q ≤ 1` as `_quantile` evaluates it
(the partition puts the order statistics needed into place: `s` is the sorted array) -/
def npQuantile (a : List Rat) (q : Rat) : Rat :=
  let s := a.mergeSort (fun x y => decide (x ≤ y))
  let n := s.length
  let v : Rat := ((n : Rat) - 1) * q
  let ix := npIndexes v n
  let gamma := v - (ix.1 : Rat)
  npLerp (pyIdx s ix.1) (pyIdx s ix.2) gamma

/-- `np.median` (`_median`): the middle element, or the mean of the two middle elements -/
def npMedian (a : List Rat) : Rat :=
  let s := a.mergeSort (fun x y => decide (x ≤ y))
  let n := s.length
  if n % 2 = 1 then s.getD (n / 2) 0 else (s.getD (n / 2 - 1) 0 + s.getD (n / 2) 0) / 2

/-! ## round 4: the dtype of the array `thresholds`

`thresholds = np.zeros(data.shape[1])` is a float64 array: storing a double (a given value,
or the result of `np.quantile` / `np.median`, which is float64 for float64 and integer data
and float32 for float32 data) into it is exact.  Allocated in the dtype of integer data
(`dtype=data.dtype`) the store would truncate towards zero.  `translate/gen_C16.py` reads the
allocation statement; `gen_threshold_store` ties `StoreTy.float64` to it. -/

inductive StoreTy | float64 | dataInt
deriving Repr, DecidableEq

/-- C cast `double -> int64`: truncation towards zero -/
def truncZero (x : Rat) : Rat := if x < 0 then -((-x).floor : Rat) else (x.floor : Rat)

/-- `thresholds[i] = x` for an array of the given dtype (`x` a double) -/
def storeThr : StoreTy → Rat → Rat
  | .float64, x => x
  | .dataInt, x => truncZero x

/-- dtype named by the allocation statement (`none`: not one the model knows) -/
def storeOfDType : String → Option StoreTy
  | "float64" => some .float64
  | "data.dtype" => some .dataInt
  | _ => none

/-- `make_event_matrix` with the thresholds passing through an array of dtype `st`; the
default type of method `'value'` is decided on the *stored* threshold (`thresholds[i] >=
np.median(...)`), that of method `'quantile'` on the quantile level -/
def resolveThresholdD (st : StoreTy) (col : List Rat) (m : TMethod) (v : Option Rat)
    (t : Option TType) : Except ThrErr (Rat × TType) :=
  match m with
  | .quantile =>
    match v with
    | some q =>
      if q > 1 ∨ q < 0 then .error .valueError
      else .ok (storeThr st (npQuantile col q), t.getD (if q ≥ 1 / 2 then .above else .below))
    | none => .ok (storeThr st (npQuantile col (1 / 2)), t.getD .above)
  | .value =>
    match v with
    | none =>
      let th := storeThr st (npMedian col)
      .ok (th, t.getD (if th ≥ npMedian col then .above else .below))
    | some x =>
      if col.all (fun d => decide (d < x)) ∨ col.all (fun d => decide (d > x)) then
        .error .ioError
      else
        let th := storeThr st x
        .ok (th, t.getD (if th ≥ npMedian col then .above else .below))

def makeEventMatrixD (st : StoreTy) (data : Mat Rat) (nvar : Nat) (ms : List TMethod)
    (vs : List (Option Rat)) (tys : List (Option TType)) : Except ThrErr (Mat Bool) := do
  let thr ← (List.range nvar).mapM fun i =>
    resolveThresholdD st (dataColumn data i) (ms.getD i .quantile) (vs.getD i none)
      (tys.getD i none)
  pure (data.map fun row => (List.range nvar).map fun i =>
    let p := thr.getD i (0, .above)
    mark p.1 p.2 (row.getD i 0))

/-! ## round 5: the float arithmetic *inside* the counting of `event_synchronization`

`ex`, `ey` are float64 arrays (`dtype='float'`; without time stamps int64 indices, which the
first float operation converts exactly).  Every arithmetic operation the function applies to
times is modelled with its rounding `fl` (`rn53s` for IEEE double, `id` for exact arithmetic):

* `ey = ey + lag`                                  → `fl (t + lag)`
* `ex[:,1:-1].T - ey[:,1:-1]` (inside `dstxy2`)    → `fl (x - y)`; the factor `2 *` is exact
* `np.diff(ex)`, `np.diff(ey)`                     → `fl (b - a)`
* `np.minimum`, `2 * taumax`, `-tau2`, the comparisons and the counts (integers and halves far
  below `2⁵³`) are exact.

`esR id` is `es` (`esR_id`); `esR rn53s` is what the code computes on *arbitrary* doubles — the
driver answers `esfl` with it and the harness compares it bit for bit on time stamps whose sums
and differences are *not* representable. -/

/-- `np.diff` with rounded subtraction -/
def diffR (fl : Rat → Rat) (l : List Rat) : List Rat :=
  List.zipWith (fun a b => fl (b - a)) l (l.drop 1)

def minGapsR (fl : Rat → Rat) (l : List Rat) : List Rat :=
  List.zipWith min ((diffR fl l).drop 1) (diffR fl l).dropLast

def innerEventsR (fl : Rat → Rat) (l : List Rat) : List Ev := (inner l).zip (minGapsR fl l)

/-- `dstxy2[i, j] = 2 * fl(ex[i] - ey[j])` -/
def dst2R (fl : Rat → Rat) (p q : Ev) : Rat := 2 * fl (p.1 - q.1)

def axyR (fl : Rat → Rat) (tm : Option Rat) (p q : Ev) : Bool :=
  decide (0 < dst2R fl p q) && decide (dst2R fl p q ≤ tau2 tm p q)
def ayxR (fl : Rat → Rat) (tm : Option Rat) (p q : Ev) : Bool :=
  decide (dst2R fl p q < 0) && decide (-(tau2 tm p q) ≤ dst2R fl p q)
def eqtR (fl : Rat → Rat) (p q : Ev) : Bool := decide (dst2R fl p q = 0)

def dblxyR (fl : Rat → Rat) (tm : Option Rat) (xs ys : List Ev) : Nat :=
  count2 (fun p q => axyR fl tm p q && (ys.any (fun q' => ayxR fl tm p q') ||
                                          xs.any (fun p' => ayxR fl tm p' q))) xs ys
def dblyxR (fl : Rat → Rat) (tm : Option Rat) (xs ys : List Ev) : Nat :=
  count2 (fun p q => ayxR fl tm p q && (ys.any (fun q' => axyR fl tm p q') ||
                                          xs.any (fun p' => axyR fl tm p' q))) xs ys

def countXYR (fl : Rat → Rat) (tm : Option Rat) (xs ys : List Ev) : Rat :=
  (count2 (axyR fl tm) xs ys : Rat) + (count2 (eqtR fl) xs ys : Rat) / 2
    - (dblxyR fl tm xs ys : Rat) / 2
def countYXR (fl : Rat → Rat) (tm : Option Rat) (xs ys : List Ev) : Rat :=
  (count2 (ayxR fl tm) xs ys : Rat) + (count2 (eqtR fl) xs ys : Rat) / 2
    - (dblyxR fl tm xs ys : Rat) / 2

/-- `event_synchronization` with every operation on times rounded by `fl` -/
def esR (fl : Rat → Rat) (ex ey : List Rat) (taumax : Option Rat) (lag : Rat) : ESRes :=
  let ey := ey.map fun t => fl (t + lag)
  let lx := ex.length
  let ly := ey.length
  if lx = 0 ∨ ly = 0 then .nan
  else if lx = 1 ∨ lx = 2 ∨ ly = 1 ∨ ly = 2 then .zero
  else
    let xs := innerEventsR fl ex
    let ys := innerEventsR fl ey
    .val (countXYR fl taumax xs ys) (countYXR fl taumax xs ys) ((lx - 2) * (ly - 2))

def esSeriesR (fl : Rat → Rat) (ts1 : List Rat) (bx : List Bool) (ts2 : List Rat)
    (by_ : List Bool) (taumax : Option Rat) (lag : Rat) : ESRes :=
  esR fl (select ts1 bx) (select ts2 by_) taumax lag

/-- the call in IEEE double -/
def esFl := esSeriesR rn53s

end Pyunicorn.Events
