/-!
# Model of `ClimateNetwork` thresholding (C09) — core Lean only

Mirrors `src/pyunicorn/climate/climate_network.py`:

* `__init__` l.88            `absSim`      (`np.abs(similarity.astype("float32"))`)
* `_calculate_threshold_adjacency`  `threshFlat`, `zeroStride`, `thresholdAdjacency`
* `_calculate_non_local_adjacency`  `weighted` (the tanh distance weight enters as the
                                    parameter `damp`, its values are sent by the harness)
* `threshold_from_link_density`     `offDiag`, `sortAsc`, `thresholdFromIndex`
* `set_threshold / set_link_density / set_non_local`  `Net.setThreshold …`, `Net.step`
* `Network.adjacency` setter (`core/network.py`)       `nnz`, `countLinks`, `linkDensity`

A similarity matrix is a function `Nat → Nat → Rat` together with the number of
nodes `N`; matrices are stored flattened row-major (`p = i * N + j`), exactly as
`A.flat` / `ndarray.flatten()` see them.
-/
namespace Pyunicorn.Similarity

abbrev Sim := Nat → Nat → Rat

def ratAbs (x : Rat) : Rat := if x < 0 then -x else x

/-- l.88: the stored similarity is the absolute value of the given one -/
def absSim (S0 : Sim) : Sim := fun i j => ratAbs (S0 i j)

/-- l.485 (`_calculate_non_local_adjacency`): the documented distance weight
`0.5 * (np.tanh(a * (d - d_min)) + 1)` for an abstract hyperbolic tangent `th` (whatever
function with values in `[-1, 1]` the numerical library supplies) -/
def dampOf (th : Rat → Rat) (a dmin d : Rat) : Rat := (1 / 2) * (th (a * (d - dmin)) + 1)

/-- the weight matrix of a grid with angular distances `dist` -/
def dampMat (th : Rat → Rat) (a dmin : Rat) (dist : Sim) : Sim :=
  fun i j => dampOf th a dmin (dist i j)

/-- l.483: `similarity_measure * (0.5 * (tanh(a (d - d_min)) + 1))`, only when `non_local` -/
def weighted (nl : Bool) (S damp : Sim) : Sim :=
  fun i j => if nl then S i j * damp i j else S i j

/-- l.428-429: `A = zeros((N,N)); A[similarity_measure > threshold] = 1`, flattened -/
def threshFlat (W : Sim) (θ : Rat) (N : Nat) : List Bool :=
  (List.range (N * N)).map fun p => decide (θ < W (p / N) (p % N))

/-- l.433: `A.flat[::step] = 0` -/
def zeroStride (step : Nat) (A : List Bool) : List Bool :=
  A.mapIdx fun p b => if p % step = 0 then false else b

/-- `_calculate_threshold_adjacency` (flattened adjacency matrix) -/
def thresholdAdjacency (W : Sim) (θ : Rat) (N : Nat) : List Bool :=
  zeroStride (N + 1) (threshFlat W θ N)

/-! ### `Network.adjacency` setter: link count and density -/

/-- `nz_coords(adjacency).shape[0]` -/
def nnz (A : List Bool) : Nat := A.count true

/-- `n_links` (`//= 2` when undirected) -/
def countLinks (directed : Bool) (A : List Bool) : Nat :=
  if directed then nnz A else nnz A / 2

/-- `1.0 * n_links / N / (N - 1)`; `none` = `ZeroDivisionError` (`N ≤ 1`) -/
def linkDensity (A : List Bool) (N : Nat) : Option Rat :=
  if N ≤ 1 then none else some ((nnz A : Rat) / (N : Rat) / ((N : Rat) - 1))

/-! ### density → threshold -/

/-- the off-diagonal entries, row-major (`similarity[~np.eye(N, dtype=bool)]`) -/
def offDiag (S : Sim) (N : Nat) : List Rat :=
  ((List.range (N * N)).filter fun p => p / N != p % N).map fun p => S (p / N) (p % N)

/-- insertion into an ascending list -/
def insertAsc (a : Rat) : List Rat → List Rat
  | [] => [a]
  | b :: t => if a ≤ b then a :: b :: t else b :: insertAsc a t

/-- `flat_corr.sort()` (ascending; any sorting algorithm yields the same list) -/
def sortAsc (l : List Rat) : List Rat := l.foldr insertAsc []

/-- `flat_corr[min(k, len(flat_corr) - 1)]` where `k = int((1 - link_density) * len(flat_corr))`
is computed by the caller (in IEEE double, see `floatIndex`).  `none` = `IndexError`
(no off-diagonal entry, `N ≤ 1`). -/
def thresholdFromIndex (S : Sim) (N : Nat) (k : Nat) : Option Rat :=
  let l := sortAsc (offDiag S N)
  l[min k (l.length - 1)]?

/-- `int((1 - link_density) * len)` evaluated in IEEE double as CPython does; `ρbits` is the
bit pattern of the requested density (`0 ≤ ρ ≤ 1`). -/
def floatIndex (ρbits : UInt64) (len : Nat) : Nat :=
  (((1.0 : Float) - Float.ofBits ρbits) * len.toFloat).floor.toUInt64.toNat

/-! ### IEEE-754 binary64 evaluation of the quantile index, in exact rational arithmetic

`int((1 - link_density) * len(flat_corr))` is evaluated by CPython in double precision: the
subtraction and the product are each rounded to nearest, ties to even.  `rn53` is that rounding
for positive rationals in the normal range (all that occurs: `1 - ρ` is `0` or `≥ 2⁻⁵³`,
`len < 2⁵³`). -/

/-- `2 ^ z` for an integer exponent -/
def twoPow (z : Int) : Rat :=
  if 0 ≤ z then ((2 ^ z.toNat : Nat) : Rat) else 1 / ((2 ^ (-z).toNat : Nat) : Rat)

/-- round to the nearest integer, ties to even -/
def roundHalfEven (x : Rat) : Int :=
  let f := x.floor
  let r := x - (f : Rat)
  if r < 1 / 2 then f else if 1 / 2 < r then f + 1 else if f % 2 = 0 then f else f + 1

/-- the binary exponent `e` of `x > 0`: `2^e ≤ x < 2^(e+1)` -/
def binExp (x : Rat) : Int :=
  let e0 : Int := (Nat.log2 x.num.toNat : Int) - (Nat.log2 x.den : Int)
  if twoPow e0 ≤ x then e0 else e0 - 1

/-- round-to-nearest-even to a 53-bit significand -/
def rn53 (x : Rat) : Rat :=
  if x ≤ 0 then 0 else
    let ulp := twoPow (binExp x - 52)
    (roundHalfEven (x / ulp) : Rat) * ulp

/-- `int((1 - link_density) * len(flat_corr))` as CPython evaluates it; `ρ` is the exact value of
the double passed as `link_density` (`0 ≤ ρ ≤ 1`) -/
def ieeeIndex (ρ : Rat) (len : Nat) : Nat :=
  (rn53 (rn53 (1 - ρ) * (len : Rat))).floor.toNat

/-! ### the object and its setters -/

structure Net where
  N : Nat
  directed : Bool
  /-- stored `|similarity|` -/
  S : Sim
  /-- distance weight `½(tanh(a(d − d_min)) + 1)` of the grid -/
  damp : Sim
  nonLocal : Bool
  θ : Rat
  /-- flattened adjacency matrix -/
  A : List Bool
  nLinks : Nat
  /-- `none`: the adjacency setter raised `ZeroDivisionError` -/
  density : Option Rat

/-- `set_threshold` -/
def Net.setThreshold (s : Net) (θ : Rat) : Net :=
  let A := thresholdAdjacency (weighted s.nonLocal s.S s.damp) θ s.N
  { s with θ := θ, A := A, nLinks := countLinks s.directed A, density := linkDensity A s.N }

/-- `set_link_density`, given the raw quantile index; `none` = `IndexError` -/
def Net.setLinkDensity (s : Net) (k : Nat) : Option Net :=
  (thresholdFromIndex s.S s.N k).map s.setThreshold

/-- `set_non_local`: regenerate only on a real change -/
def Net.setNonLocal (s : Net) (b : Bool) : Net :=
  if s.nonLocal != b then ({ s with nonLocal := b }).setThreshold s.θ else s

/-- `_regenerate_network` (l.131) after a data-driven subclass has stored a newly estimated
similarity `S1` in `_similarity_measure` (`set_winter_only`, `set_max_delay`, `set_directed`):
`ClimateNetwork.__init__(self, similarity_measure=S1, threshold=self._threshold,
non_local=self._non_local, directed=self.directed, …)` takes the absolute value again and, the
threshold being set, calls `set_threshold(self._threshold)`. -/
def Net.regenerate (s : Net) (S1 : Sim) : Net :=
  ({ s with S := absSim S1 }).setThreshold s.θ

inductive Op where
  | thr (θ : Rat)
  | dens (k : Nat)
  | nl (b : Bool)
  /-- a subclass setter that re-derives the similarity from data, then `_regenerate_network` -/
  | resim (S1 : Sim)

def Net.step (s : Net) : Op → Option Net
  | .thr θ => some (s.setThreshold θ)
  | .dens k => s.setLinkDensity k
  | .nl b => some (s.setNonLocal b)
  | .resim S1 => some (s.regenerate S1)

/-- the raw similarity the object was last given: the constructor's, or the latest re-derived one -/
def lastSim (S0 : Sim) : List Op → Sim
  | [] => S0
  | .resim S1 :: os => lastSim S1 os
  | _ :: os => lastSim S0 os

/-- run a history; `none` as soon as one call raises -/
def Net.run (s : Net) : List Op → Option Net
  | [] => some s
  | o :: os => (s.step o).bind fun s' => s'.run os

/-- the state before the first setter of `__init__` ran -/
def blank (N : Nat) (directed : Bool) (S0 damp : Sim) (nl : Bool) : Net :=
  { N := N, directed := directed, S := absSim S0, damp := damp, nonLocal := nl,
    θ := 0, A := [], nLinks := 0, density := none }

/-- `ClimateNetwork(grid, S0, threshold=θ, non_local=nl, directed=directed)` -/
def mkThreshold (N : Nat) (directed : Bool) (S0 damp : Sim) (nl : Bool) (θ : Rat) : Net :=
  (blank N directed S0 damp nl).setThreshold θ

/-- `ClimateNetwork(grid, S0, link_density=ρ, …)` with raw index `k` -/
def mkDensity (N : Nat) (directed : Bool) (S0 damp : Sim) (nl : Bool) (k : Nat) : Option Net :=
  (blank N directed S0 damp nl).setLinkDensity k

end Pyunicorn.Similarity
