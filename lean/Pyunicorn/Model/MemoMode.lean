/-
Round 4: the *stored* state of an analysis object under re-initialising mutators.

A public mutator (`RecurrenceNetwork.set_fixed_threshold`, …) is the ordered list of its
assignments `self.f = <value>` (calls of helpers, base-class `__init__`s and property setters
inlined with their parameters bound symbolically by translate/c01_mode.py).  A value is either a
literal constant (`Network.__init__(self, A, directed=False)` makes `self.directed = directed`
the event `(directed, const False)`) or an expression over the call's arguments and the *current*
values of some fields of the object (`deps`): `directed=self.directed` is
`(directed, expr _ [directed])`.  An event under an `if` whose test is not a known constant *may*
execute: an execution is described by a mask.

A field that the class assigns two different constants somewhere is a *mode* field (the object
is switched between modes, e.g. directed / undirected recurrence networks).  `modeWf` states that
no public mutator computes a value it stores in a mode field from a field whose content may
depend on the mode history (taint closure over the mutator's own assignments).
Core Lean only.
-/
namespace Pyunicorn.Mode

inductive Src
  | const (c : Nat)
  | expr (site : Nat) (deps : List Nat)
deriving Repr, DecidableEq

structure Event where
  target : Nat
  src : Src
deriving Repr, DecidableEq

structure MTable where
  ctor : List Event
  mutators : List (List Event)
deriving Repr, DecidableEq

/-- ghost values: what a field holds, as a term over the initial contents, the constants of the
source and the (opaque) expressions applied to the call's argument and the values read -/
inductive Val
  | init (f : Nat)
  | const (c : Nat)
  | app (site arg : Nat) (args : List Val)

abbrev MState := Nat → Val

def evalSrc (s : MState) (arg : Nat) : Src → Val
  | .const c => .const c
  | .expr site deps => .app site arg (deps.map s)

/-- run the assignments of one call in order; `mask` says which of them execute
(missing entries: executes) -/
def execEvents (arg : Nat) : List Event → List Bool → MState → MState
  | [], _, s => s
  | e :: es, m, s =>
    execEvents arg es m.tail
      (if m.headD true then (fun f => if f = e.target then evalSrc s arg e.src else s f) else s)

/-- field `f` is assigned on the executed path -/
def assigned : List Event → List Bool → Nat → Bool
  | [], _, _ => false
  | e :: es, m, f => (m.headD true && e.target == f) || assigned es m.tail f

/-! ### static predicates (decidable; evaluated on the generated tables) -/

def allEvents (t : MTable) : List Event := t.ctor ++ t.mutators.flatten

def constsOf (t : MTable) (f : Nat) : List Nat :=
  (allEvents t).filterMap fun e =>
    if e.target == f then (match e.src with | .const c => some c | .expr _ _ => none) else none

/-- assigned at least two different constants by the class -/
def isMode (t : MTable) (f : Nat) : Bool := 2 ≤ (constsOf t f).eraseDups.length

def modeFields (t : MTable) : List Nat :=
  (((allEvents t).map (·.target)).eraseDups).filter (isMode t)

/-- the value does not depend on a field of `T` -/
def srcClean (T : List Nat) : Src → Bool
  | .const _ => true
  | .expr _ deps => deps.all fun g => !T.contains g

def taintPass (T : List Nat) : List Event → List Nat
  | [] => T
  | e :: es => taintPass (if srcClean T e.src || T.contains e.target then T else e.target :: T) es

def taintFix : Nat → List Nat → List Event → List Nat
  | 0, T, _ => T
  | n + 1, T, evs => taintFix n (taintPass T evs) evs

/-- `T` is closed under the assignments: a value computed from a field of `T` lands in `T` -/
def closed (T : List Nat) (evs : List Event) : Bool :=
  evs.all fun e => srcClean T e.src || T.contains e.target

/-- the fields whose content may depend on the mode history when the mutator runs: three passes
over the assignments in execution order (one pass follows every forward flow; further passes
follow flows carried backwards by loops).  `mutOk` checks that the result is closed, so the
number of passes is not trusted. -/
def taintOf (M : List Nat) (evs : List Event) : List Nat := taintFix 3 M evs

def mutOk (M : List Nat) (evs : List Event) : Bool :=
  let T := taintOf M evs
  (M.all fun f => T.contains f) && closed T evs &&
    (evs.all fun e => !M.contains e.target || srcClean T e.src)

def modeWf (t : MTable) : Bool := t.mutators.all (mutOk (modeFields t))

/-- (mutator, event) index pairs that store a history-dependent value in a mode field —
printed by the driver -/
def modeOffending (t : MTable) : List (Nat × Nat) :=
  let M := modeFields t
  (List.range t.mutators.length).flatMap fun oi =>
    match t.mutators[oi]? with
    | none => []
    | some evs =>
      let T := taintOf M evs
      (List.range evs.length).filterMap fun ei =>
        match evs[ei]? with
        | some e => if M.contains e.target && !srcClean T e.src then some (oi, ei) else none
        | none => none

/-- the last assignment of `f` in a mutator, if any (for the correspondence of the harness) -/
def lastSrc (evs : List Event) (f : Nat) : Option Src :=
  (evs.reverse.find? fun e => e.target == f).map (·.src)

/-- all assignments of `f` in the mutator store the same constant -/
def alwaysConst (evs : List Event) (f : Nat) : Option Nat :=
  match (evs.filter fun e => e.target == f).map (·.src) with
  | [] => none
  | Src.const c :: rest => if rest.all (fun s => s == Src.const c) then some c else none
  | _ => none

end Pyunicorn.Mode
