import Pyunicorn.Model.RecurrenceRqa
import Pyunicorn.Generated.StructC07
/-
Round 4: the `outcome` table of `Model/RecurrenceRqa.lean` *derived from the method bodies*.

`translate/gen_C07.py` regenerates, on every run, the body of every non-setter method of the six
recurrence classes as a program (`Generated/StructC07.lean`: raises, tests on the object's
switches, calls of other methods with dynamic dispatch, calls on sub-objects, reads of the stored
matrix and uses of values that may be `None`), together with the tables that say which
construction provides which stored matrix.  This file interprets those programs:

  `runPublic cls atoms m`  =  what a call `obj.m()` (optional arguments at their defaults) does on
  an object of class `cls` whose switches are `atoms`: it returns (`ret isNone`), raises a
  documented error, or `crash`es (an undocumented `TypeError` / `AttributeError` on `None`, an
  undocumented exception class, a statement the translator does not know, a test the interpreter
  cannot decide whose branches disagree).

`Properties/C07.lean: outcome_derived` proves that for *every* public method the harness classifies
(`needOf`), every class and every switch setting, the result is `outcome`.  Core Lean only.
-/
namespace Pyunicorn.Recurrence
open Pyunicorn.Generated Pyunicorn.Generated.StructC07

/-- the switches of an object that the method bodies test -/
structure Atoms where
  /-- `sparse_rqa=True` -/
  sparse : Bool
  /-- `metric == "supremum"` -/
  supremum : Bool
  /-- a fixed `threshold` was given (`self.threshold is not None`) -/
  thrGiven : Bool
  /-- `missing_values=True` -/
  missing : Bool
  /-- `dim` given -/
  dimGiven : Bool
  /-- `tau` given -/
  tauGiven : Bool
deriving DecidableEq, Repr

inductive Run
  /-- the call returns; `isNone`: the value is `None` -/
  | ret (isNone : Bool)
  | notImplemented
  | valueError
  /-- anything undocumented -/
  | crash
deriving DecidableEq, Repr

def Run.outcome : Run → Option Outcome
  | .ret _ => some .ok
  | .notImplemented => some .notImplemented
  | .valueError => some .valueError
  | .crash => none

def mroOf (cls : String) : List String :=
  match StructC07.mro.find? (·.1 == cls) with
  | some p => p.2
  | none => []

/-- dynamic dispatch of `self.m`: the first class of the MRO (restricted to the six classes) that
defines `m`; `none`: the method lives outside the package (`Network`, `InteractingNetworks`) -/
def resolve (cls m : String) : Option (List Stmt) :=
  (mroOf cls).findSome? fun k => (StructC07.methods.find? fun d => d.cls == k && d.name == m).map (·.body)

/-- three-valued evaluation of a test (`none`: not decidable from the switches) -/
def evalCond (a : Atoms) (skip : Bool) : Cond → Option Bool
  | .tt => some true
  | .sparse => some a.sparse
  | .supremum => some a.supremum
  | .thrGiven => some a.thrGiven
  | .missing => some a.missing
  | .dimNone => some (!a.dimGiven)
  | .tauNone => some (!a.tauGiven)
  | .skip => some skip
  | .paramNone _ => some true            -- optional arguments are left at their default `None`
  | .opaque _ => none
  | .not c => (evalCond a skip c).map (!·)
  | .and x y =>
    match evalCond a skip x, evalCond a skip y with
    | some false, _ => some false
    | _, some false => some false
    | some true, some true => some true
    | _, _ => none
  | .or x y =>
    match evalCond a skip x, evalCond a skip y with
    | some true, _ => some true
    | _, some true => some true
    | some false, some false => some false
    | _, _ => none

/-- does `setter` of class `k` store the matrix attribute `attr` (directly, or by calling
another setter as a statement) -/
def setterStoresAttr : Nat → String → String → String → Bool
  | 0, _, _, _ => false
  | f + 1, k, s, attr =>
    StructC07.setterStores.contains (k, s, attr) ||
    StructC07.setterDelegates.any fun d =>
      d.1 == k && d.2.1 == s && setterStoresAttr f d.2.2.1 d.2.2.2 attr

/-- which construction provides which stored matrix: `__init__` of `cls` (entered with the given
`skip_recurrence`) dispatches to setters that all store `attr` and whose guard on
`sparse_rqa` / `skip_recurrence` holds, or a parent constructor it calls does -/
def provides : Nat → String → Bool → Atoms → String → Bool
  | 0, _, _, _, _ => false
  | f + 1, cls, skip, a, attr =>
    let own := StructC07.initSetterCalls.filter (·.1 == cls)
    (!own.isEmpty && own.all fun c =>
        evalCond a skip c.2.1 == some true && setterStoresAttr 4 c.2.2.1 c.2.2.2 attr) ||
    StructC07.superInit.any fun s => s.1 == cls && provides f s.2.1 s.2.2.1 a attr

/-- `dim` / `tau` reach `RecurrencePlot.__init__` (where `self.dim`, `self.tau` are stored) -/
def dimReaches : Nat → String → Bool
  | 0, _ => false
  | f + 1, cls =>
    cls == "RecurrencePlot" ||
    StructC07.superInit.any fun s => s.1 == cls && s.2.2.2 && dimReaches f s.2.1

/-- the switches as the methods of an object of class `cls` see them -/
def effAtoms (cls : String) (a : Atoms) : Atoms :=
  let d := dimReaches 4 cls
  { a with dimGiven := a.dimGiven && d, tauGiven := a.tauGiven && d,
           sparse := a.sparse && StructC07.sparseStored }

/-- the switches of a sub-object built without `sparse_rqa` / `missing_values` / embedding -/
def subAtoms (a : Atoms) : Atoms :=
  { a with sparse := false, missing := false, dimGiven := false, tauGiven := false }

abbrev Env := List (String × Bool)

mutual
/-- value of an expression: `ret isNone`, or the error of a call -/
def evalExpr : Nat → String → Atoms → Env → Expr → Run
  | 0, _, _, _, _ => .crash
  | f + 1, cls, a, env, e =>
    match e with
    | .stored attr => .ret (!(provides 4 cls false a attr))
    | .noneLit => .ret true
    | .other => .ret false
    | .var x =>
      match env.find? (·.1 == x) with
      | some p => .ret p.2
      | none => .crash
    | .call m =>
      match resolve cls m with
      | some body => execBody f cls a [] body
      | none => .ret false                     -- a method of `Network` / `InteractingNetworks`
    | .callSub attr m =>
      match StructC07.subObjects.find? fun s => s.1 == cls && s.2.1 == attr with
      | some s =>
        if s.2.2.2 then .crash                  -- built with switches: not modelled
        else
          match resolve s.2.2.1 m with
          | some body => execBody f s.2.2.1 (effAtoms s.2.2.1 (subAtoms a)) [] body
          | none => .crash
      | none => .crash

/-- run a statement list; falling off the end returns `None` -/
def execBody : Nat → String → Atoms → Env → List Stmt → Run
  | 0, _, _, _, _ => .crash
  | _ + 1, _, _, _, [] => .ret true
  | f + 1, cls, a, env, s :: rest =>
    match s with
    | .raise .notImplemented => .notImplemented
    | .raise .valueError => .valueError
    | .raise (.other _) => .crash
    | .unknown _ => .crash
    | .ret e => evalExpr f cls a env e
    | .assign x e =>
      match evalExpr f cls a env e with
      | .ret b => execBody f cls a ((x, b) :: env) rest
      | r => r
    | .eval e deref =>
      match evalExpr f cls a env e with
      | .ret b => if deref && b then .crash else execBody f cls a env rest
      | r => r
    | .ite c t e =>
      match evalCond a false c with
      | some true => execBody f cls a env (t ++ rest)
      | some false => execBody f cls a env (e ++ rest)
      | none =>
        let r1 := execBody f cls a env (t ++ rest)
        let r2 := execBody f cls a env (e ++ rest)
        if r1 = r2 then r1 else .crash
end

/-- a public call `obj.m()` on an object of class `cls` -/
def runPublic (cls : String) (a : Atoms) (m : String) : Run :=
  match resolve cls m with
  | some body => execBody 40 cls (effAtoms cls a) [] body
  | none => .crash

/-! ### the classification of the public methods by what they need (the specification side) -/

def needOf (m : String) : Option Need :=
  match m with
  | "recurrence_matrix" | "balance" | "cross_recurrence_rate" | "inter_system_recurrence_matrix"
  | "internal_recurrence_rates" | "cross_global_clustering_xy" | "cross_global_clustering_yx"
  | "cross_transitivity_xy" | "cross_transitivity_yx" | "transitivity_dim_single_scale"
  | "local_clustering_dim_single_scale" => some .matrix
  | "recurrence_rate" => some .rate
  | "recurrence_probability" => some .diagOf
  | "diagline_dist" | "vertline_dist" | "resample_diagline_dist" | "resample_vertline_dist"
  | "max_diaglength" | "determinism" | "average_diaglength" | "diag_entropy" | "max_vertlength"
  | "laminarity" | "average_vertlength" | "trapping_time" | "vert_entropy" | "rqa_summary" =>
    some .blackLines
  | "white_vertline_dist" | "max_white_vertlength" | "average_white_vertlength"
  | "mean_recurrence_time" | "white_vert_entropy" => some .whiteLines
  | "twins" | "twin_surrogates" => some .twins
  | "permutation_entropy" | "complexity_entropy" => some .ordinal
  | "distance_matrix" | "manhattan_distance_matrix" | "euclidean_distance_matrix"
  | "supremum_distance_matrix" => some .distance
  | _ => none

def clsOfName (s : String) : Option Cls :=
  match s with
  | "RecurrencePlot" => some .rp
  | "CrossRecurrencePlot" => some .crp
  | "JointRecurrencePlot" => some .jrp
  | "RecurrenceNetwork" => some .rn
  | "JointRecurrenceNetwork" => some .jrn
  | "InterSystemRecurrenceNetwork" => some .isrn
  | _ => none

/-- the configuration of the `outcome` table that the switches describe -/
def cfgOf (c : Cls) (a : Atoms) : Cfg :=
  ⟨c, a.sparse, a.supremum && a.thrGiven, a.dimGiven && a.tauGiven⟩

def allAtoms : List Atoms :=
  [false, true].flatMap fun s => [false, true].flatMap fun su => [false, true].flatMap fun th =>
  [false, true].flatMap fun mv => [false, true].flatMap fun d => [false, true].map fun t =>
    ⟨s, su, th, mv, d, t⟩

/-- only `RecurrencePlot` takes `sparse_rqa` -/
def atomsValid (c : Cls) (a : Atoms) : Bool := c == .rp || !a.sparse

/-- the derived outcome agrees with the table on one (class, method) pair for all switches -/
def derivedAgrees (p : String × String) : Bool :=
  match clsOfName p.1, needOf p.2 with
  | some c, some need =>
    allAtoms.all fun a => !atomsValid c a || (runPublic p.1 a p.2).outcome == some (outcome (cfgOf c a) need)
  | some _, none => true            -- an unclassified method: nothing is claimed (the harness
                                    -- demands that it does not raise)
  | none, _ => false

end Pyunicorn.Recurrence
