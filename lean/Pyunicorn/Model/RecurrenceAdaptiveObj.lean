import Pyunicorn.Model.RecurrenceObjects
/-! # C07 round 5c: adaptive neighbourhood size at the object level, NumPy's table as an input

`RecurrencePlot(series, metric, normalize, missing_values, dim, tau,
adaptive_neighborhood_size=kA)`, `RecurrenceNetwork(…)` and
`obj.set_adaptive_neighborhood_size(kA, order)` on such objects, from the *caller's series* to
the stored `R` / adjacency: `normalize_time_series` (when asked), `embed_time_series`, the
`missing_values` blocks, `distance.argsort(axis=1)` — taken as the input `sn`, NumPy's order
among tied distances being unspecified —, the kernel, the network's stride and (constructor
with `missing_values`) the deletion of the states holding a missing value.

The object-level requests `rpx` / `rnx` of the driver run these definitions for every
`a:<k>` specification (rounds 2–5 ran `adaptivePlot`: stable argsort, `missing_values`
ignored). -/
namespace Pyunicorn.Recurrence
open Pyunicorn.Generated

/-- the state vectors the object stores: `none` — irrational standard deviation, outside the
exact model; `some (.valueError)` — the embedding raises -/
def objectStates (series : List (List V)) (norm : Bool) (e : Option (Nat × Nat)) :
    Option (Res (List (List V))) :=
  (storedSeries series norm).map fun S => stateVectors S e

/-- is `sn` an argsort (along axis 1) of the matrix the adaptive setter of this object sorts?
(`true` when the object has no state vectors to sort: nothing is claimed there) -/
def adaptiveTableOK (m : Metric) (series : List (List V)) (norm mv : Bool)
    (e : Option (Nat × Nat)) (sn : List (List Nat)) : Bool :=
  match objectStates series norm e with
  | some (.ok emb) => argsortOK (adaptiveDist m emb mv) sn
  | _ => true

/-- `RecurrencePlot.__init__(…, adaptive_neighborhood_size=kA)` (`order = none`) and
`set_adaptive_neighborhood_size(kA, order)` on the object: stored `R`, `N`, `M` -/
def adaptiveObjPlot (m : Metric) (series : List (List V)) (norm mv : Bool)
    (e : Option (Nat × Nat)) (kA : Nat) (order : Option (List Nat)) (sn : List (List Nat)) :
    Option (Res Plot) :=
  (objectStates series norm e).map fun r =>
    r.bind fun emb => adaptivePlotMV m emb kA order sn mv

/-- the network built on an adaptive plot of states `emb`: constructor (`setter = false`:
generated stride of `__init__`, then with `missing_values` the deletion of the states holding
a missing value) or `RecurrenceNetwork.set_adaptive_neighborhood_size` (its own generated
stride, no deletion) -/
def adaptiveNetOf (setter mv : Bool) (emb : List (List V)) (p : Plot) : Net :=
  let A := adjacencyOf p.R (if setter then ArithC07.rnStrideAdaptive p.N else ArithC07.rnStride p.N)
  let A := if mv && !setter then deleteMasked A (missingMask emb) else A
  ⟨A, p.R, A.length⟩

/-- `RecurrenceNetwork.__init__(…, adaptive_neighborhood_size=kA)` / its setter -/
def adaptiveObjNet (setter : Bool) (m : Metric) (series : List (List V)) (norm mv : Bool)
    (e : Option (Nat × Nat)) (kA : Nat) (order : Option (List Nat)) (sn : List (List Nat)) :
    Option (Res Net) :=
  (objectStates series norm e).map fun r =>
    r.bind fun emb => (adaptivePlotMV m emb kA order sn mv).bind fun p =>
      .ok (adaptiveNetOf setter mv emb p)

end Pyunicorn.Recurrence
