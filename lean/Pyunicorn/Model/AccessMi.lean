import Pyunicorn.Model.Access
/-! # C20 round 5c: `MutualInfoClimateNetwork._cython_calculate_mutual_information` over IEEE values

The whole worker behind `calculate_similarity_measure` / `mutual_information`, from the caller's
`(time, nodes)` anomaly array — NaN, `-inf`, `+inf`, finite (exact) in any mixture — down to the
kernel `_mutual_information`:

    anomaly = anomaly.copy()
    self.data.normalize_time_series_array(anomaly)
        time_series_array -= time_series_array.mean(axis=0)
        time_series_array /= np.sqrt((time_series_array * time_series_array.conjugate()).mean(axis=0))
        time_series_array[np.isnan(time_series_array)] = 0
    anomaly = anomaly.T.copy()
    (N, n_samples) = anomaly.shape
    range_min = float(anomaly.min()); range_max = float(anomaly.max())
    scaling = 1./(range_max - range_min)                       # ZeroDivisionError
    mutual_information(to_cy(anomaly, FIELD), n_samples, N, n_bins, scaling, range_min)

The statements are *interpreted from their text* (the generated `mi_steps`, `normalize_steps`,
`mi_range_min`, `mi_range_max`, `mi_scaling`, `mi_call_args` of translate/c20_py.py): a statement the
model does not know makes the verdict `oob` ("cannot evaluate"), so the theorem stops compiling when
the source is changed.  `sq` is the square root (irrational in general: a parameter, any function),
`rnd` the conversion double → float applied by `to_cy(·, FIELD)` to every sample and by Cython to the
arguments `float scaling`, `float range_min`.  Core Lean only. -/
namespace Pyunicorn.Access

/-- IEEE addition (`inf + -inf = NaN`) -/
def XR.add : XR → XR → XR
  | .nan, _ => .nan
  | _, .nan => .nan
  | .pinf, .ninf => .nan
  | .ninf, .pinf => .nan
  | .pinf, _ => .pinf
  | _, .pinf => .pinf
  | .ninf, _ => .ninf
  | _, .ninf => .ninf
  | .fin a, .fin b => .fin (a + b)

/-- NumPy's true division of float arrays: never an exception; `x/0 = ±inf`, `0/0 = inf/inf = NaN`,
`x/±inf = 0` (the divisors here are counts and square roots: the sign of a zero divisor is `+`) -/
def XR.divNp : XR → XR → XR
  | .nan, _ => .nan
  | _, .nan => .nan
  | .fin a, .fin b =>
      if b = 0 then (if sgn a = 0 then .nan else if sgn a = 1 then .pinf else .ninf) else .fin (a / b)
  | .fin _, _ => .fin 0
  | .pinf, .fin b => if b < 0 then .ninf else .pinf
  | .ninf, .fin b => if b < 0 then .pinf else .ninf
  | _, _ => .nan

/-- `x.mean()` of one column: the sum divided by the count (`0/0 = NaN` for an empty column) -/
def meanX (xs : List XR) : XR := XR.divNp (xs.foldl XR.add (.fin 0)) (.fin (xs.length : Nat))

/-- column `j` of an array with `T` rows -/
def colOf (a : XData) (T j : Nat) : List XR := (List.range T).map fun t => a.at t j

/-- the `R × C` array with entries `f` -/
def tabX (R C : Nat) (f : Nat → Nat → XR) : XData :=
  (List.range R).map fun t => (List.range C).map fun j => f t j

/-- one statement of `Data.normalize_time_series_array` on a `(T, N)` array; `none`: a statement the
model cannot evaluate -/
def normStmtX (sq : XR → XR) (T N : Nat) (a : XData) (stmt : String) : Option XData :=
  if stmt == "time_series_array -= time_series_array.mean(axis=0)" then
    some (tabX T N fun t j => XR.sub (a.at t j) (meanX (colOf a T j)))
  else if stmt == "time_series_array /= np.sqrt((time_series_array * time_series_array.conjugate()).mean(axis=0))" then
    some (tabX T N fun t j =>
      XR.divNp (a.at t j) (sq (meanX ((colOf a T j).map fun x => XR.mul x x))))
  else if stmt == "time_series_array[np.isnan(time_series_array)] = 0" then
    some (tabX T N fun t j => if (a.at t j).isNan then .fin 0 else a.at t j)
  else none

def normalizeX (nsteps : List String) (sq : XR → XR) (T N : Nat) (a : XData) : Option XData :=
  nsteps.foldl (fun acc s => acc.bind fun x => normStmtX sq T N x s) (some a)

/-- an array with its shape -/
structure Shaped where
  d : XData
  rows : Nat
  cols : Nat

/-- one statement of the worker that touches `anomaly` before the range is taken -/
def miStmtX (nsteps : List String) (sq : XR → XR) (s : Shaped) (stmt : String) : Option Shaped :=
  if stmt == "anomaly = anomaly.copy()" then some s
  else if stmt == "self.data.normalize_time_series_array(anomaly)" then
    (normalizeX nsteps sq s.rows s.cols s.d).map fun d => ⟨d, s.rows, s.cols⟩
  else if stmt == "anomaly = anomaly.T.copy()" then
    some ⟨tabX s.cols s.rows fun i k => s.d.at k i, s.cols, s.rows⟩
  else if stmt == "N, n_samples = anomaly.shape" then some s   -- (sizes: `mi_pysizes`, round 4)
  else none

/-- the array whose extremes are taken and which is handed to `to_cy(·, FIELD)` -/
def miPrepX (msteps nsteps : List String) (sq : XR → XR) (T N : Nat) (a : XData) : Option Shaped :=
  msteps.foldl (fun acc s => acc.bind fun x => miStmtX nsteps sq x s) (some ⟨tabX T N a.at, T, N⟩)

/-- **`_cython_calculate_mutual_information(anomaly, n_bins)`** for an anomaly of shape `(T, N)`
holding any IEEE values.  Rejections: `np.zeros` with a negative extent, Cython's `int n_bins`
OverflowError, `anomaly.min()` of an empty array, ZeroDivisionError.  A source form the model cannot
evaluate is answered `oob` (not covered — the theorem then fails). -/
def miCallX (msteps nsteps : List String) (rminS rmaxS scalS : String) (args : List String)
    (sq rnd : XR → XR) (T N : Nat) (nb : Int) (a : XData) : Verdict :=
  if nb < 0 then .raise
  else if (2 : Int) ^ 31 ≤ nb then .raise
  else
    match miPrepX msteps nsteps sq T N a with
    | none => .oob
    | some p =>
        if p.rows * p.cols = 0 then .raise
        else if rminS != "float(anomaly.min())" || rmaxS != "float(anomaly.max())"
            || scalS != "1.0 / (range_max - range_min)"
            || args != ["to_cy(anomaly, FIELD)", "n_samples", "N", "n_bins", "scaling", "range_min"]
        then .oob
        else
          let mn := xrMin p.d.flatten
          let mx := xrMax p.d.flatten
          match XR.recip (XR.sub mx mn) with
          | none => .raise
          | some s => miKernelX (rnd s) (rnd mn) p.rows p.cols nb (p.d.map fun row => row.map rnd)

/-- `(range_min, range_max, scaling)` of the worker, for the exact tie; `none`: cannot evaluate -/
def miRangeX (msteps nsteps : List String) (sq : XR → XR) (T N : Nat) (a : XData) :
    Option (XData × XR × XR × Option XR) :=
  (miPrepX msteps nsteps sq T N a).map fun p =>
    let mn := xrMin p.d.flatten
    let mx := xrMax p.d.flatten
    (p.d, mn, mx, XR.recip (XR.sub mx mn))

/-! ### concrete `sq` and `rnd` for the driver and the witnesses -/

/-- exact square root of a rational that is a square of a rational; otherwise a positive
approximation from below (integer square root of the numerator scaled by `2^40`) -/
def ratSqrt (r : Rat) : Rat × Bool :=
  let n := r.num.toNat
  let d := r.den
  let sn := Nat.sqrt n
  let sd := Nat.sqrt d
  if sn * sn = n ∧ sd * sd = d then ((sn : Rat) / (sd : Rat), true)
  else ((Nat.sqrt (n * d * 2 ^ 80) : Rat) / ((d * 2 ^ 40 : Nat) : Rat), false)

/-- `np.sqrt`: NaN for NaN and negative arguments, `+inf` for `+inf` -/
def sqrtX : XR → XR
  | .nan => .nan
  | .ninf => .nan
  | .pinf => .pinf
  | .fin r => if r < 0 then .nan else .fin (ratSqrt r).1

def sqrtExact : XR → Bool
  | .fin r => decide (r < 0) || (ratSqrt r).2
  | _ => true

/-- the conversion to `float` with overflow to `±inf` beyond `big`, finite values kept (the data of
the correspondence stream are float32-exact) -/
def rndBig (big : Rat) : XR → XR
  | .fin r => if big < r then .pinf else if r < -big then .ninf else .fin r
  | x => x

end Pyunicorn.Access
