/-!
C20, round 5g: the IEEE-754 binary64 rounding (round to nearest, ties to even) of an arbitrary
rational, as an executable function.  Core Lean only.

These three definitions are a verbatim copy of `gridShift`, `rndQ`, `rnd64` of
`Model/Random.lean` (C17, round 5).  They are copied, not imported, because `Model/Random.lean`
imports C17's *generated* files (`Generated/{Arith,Struct}C17.lean`, regenerated only by
`./check C17`): importing it would make C20's proof build fail — a false alarm — whenever C17's
translator output is missing or does not build.  `Lemmas/Rnd64Nearest.lean` proves that this `rnd64`
is a `B64.Nearest` rounding onto doubles.
-/
namespace Pyunicorn.Rnd64

/-- the exponent of the grid around a magnitude with integer part `f` (unit = smallest subnormal):
`0` in the subnormal / exact range, otherwise `⌊log2 f⌋ + 1 - p` -/
def gridShift (p f : Nat) : Nat := if f < 2 ^ p then 0 else Nat.log2 f + 1 - p

/-- IEEE-754 round to nearest, ties to even, of **any** non-negative rational `a` (in units of the
smallest subnormal) to `p` significant bits: `lo ≤ a < hi` are the two neighbouring grid points
(round 5; `rndP` is its restriction to integers: `rndP_eq_rndQ`) -/
def rndQ (p : Nat) (a : Rat) : Nat :=
  let f := a.floor.toNat
  let s := gridShift p f
  let q := f / 2 ^ s
  let lo := q * 2 ^ s
  let hi := (q + 1) * 2 ^ s
  if a - (lo : Rat) < (hi : Rat) - a then lo
  else if (hi : Rat) - a < a - (lo : Rat) then hi
  else if q % 2 = 0 then lo else hi

/-- binary64 rounding (nearest, ties to even) of an arbitrary rational — the multiplication
`rescaled * n_bins` as the C code evaluates it.  Round 5: total and *proved* to be a `B64.Nearest`
rounding (`rnd64_nearest`, Lemmas/Rnd64Nearest), so the range theorem holds for the executable rounding
without any hypothesis on the rounding.  Overflow is not modelled (the products are below `2^31`). -/
def rnd64 (x : Rat) : Rat :=
  if x < 0 then -((rndQ 53 (-x * ((2 ^ 1074 : Nat) : Rat)) : Nat) : Rat) / ((2 ^ 1074 : Nat) : Rat)
  else ((rndQ 53 (x * ((2 ^ 1074 : Nat) : Rat)) : Nat) : Rat) / ((2 ^ 1074 : Nat) : Rat)

end Pyunicorn.Rnd64
