import Pyunicorn.Model.MpiChunk
import Pyunicorn.Generated.StructC19
/-
Round 4 — the index / pass tables of the three master loops (from the regenerated
`Generated/StructC19.lean`) as the functions the chunk-call model takes, and the iteration
bodies of the two Cython chunk kernels `_mpi_newman_betweenness` /
`_mpi_nsi_newman_betweenness` (core/_ext/numerics.pyx) over the integers, so that the
generic model `chunkKernelRel idx body` becomes executable and can be compared with the
compiled kernels on integer-valued data (exact in binary64).  Core Lean only.
-/
namespace Pyunicorn.MpiChunk
open Pyunicorn.Generated

def arenasIdx := idxOf StructC19.arenas_kernel_params StructC19.arenas_kernel_subs "i - start_i"
def arenasPass := passOf StructC19.arenas_dist_args
def newmanIdx := idxOf StructC19.newman_kernel_params StructC19.newman_kernel_subs "i_rel"
def newmanPass := passOf StructC19.newman_dist_args
def nsinewmanIdx := idxOf StructC19.nsinewman_kernel_params StructC19.nsinewman_kernel_subs "i_rel"
def nsinewmanPass := passOf StructC19.nsinewman_dist_args

/-- a row of an integer matrix; a vector `w` is handed over as the rows `[w_k]` -/
abbrev Row := List Int

def Row.at (r : Row) (k : Nat) : Int := r.getD k 0

/-- position of a parameter in a kernel's signature (regenerated) -/
def pos (params : List String) (name : String) : Nat := params.idxOf name

/-- one iteration `i_rel` of `_mpi_newman_betweenness`:
`for j: if this_A[i_rel, j]: sum_j = Σ_{s ≠ i_abs} Σ_{t < s, t ≠ i_abs}
|V[i_abs,s] - V[j,s] - V[i_abs,t] + V[j,t]|; this_betweenness[i_rel] += sum_j` -/
def newmanBody (N : Nat) (rel : Nat → Row) (whole : Nat → Arr Row) (iAbs : Nat) : Int :=
  let thisA := rel (pos StructC19.newman_kernel_params "this_A")
  let V := whole (pos StructC19.newman_kernel_params "V")
  ((List.range N).map fun j =>
    if thisA.at j ≠ 0 then
      ((List.range N).map fun s =>
        if iAbs ≠ s then
          let d := (V iAbs).at s - (V j).at s
          ((List.range s).map fun t =>
            if iAbs ≠ t then ((d - (V iAbs).at t + (V j).at t).natAbs : Int) else 0).sum
        else 0).sum
    else 0).sum

/-- one iteration of `_mpi_nsi_newman_betweenness` (weights `w`, mask
`this_not_adj_or_equal[i_rel, ·]` instead of `i_abs != ·`) -/
def nsinewmanBody (N : Nat) (rel : Nat → Row) (whole : Nat → Arr Row) (iAbs : Nat) : Int :=
  let thisA := rel (pos StructC19.nsinewman_kernel_params "this_A")
  let nae := rel (pos StructC19.nsinewman_kernel_params "this_not_adj_or_equal")
  let V := whole (pos StructC19.nsinewman_kernel_params "V")
  let w := fun k => (whole (pos StructC19.nsinewman_kernel_params "w") k).at 0
  ((List.range N).map fun j =>
    if thisA.at j ≠ 0 then
      w j * ((List.range N).map fun s =>
        if nae.at s ≠ 0 then
          let d := (V iAbs).at s - (V j).at s
          w s * ((List.range s).map fun t =>
            if nae.at t ≠ 0 then w t * ((d - (V iAbs).at t + (V j).at t).natAbs : Int) else 0).sum
        else 0).sum
    else 0).sum

/-- the component's arrays, by position in the kernel's signature -/
def fullOf (params : List String) (named : List (String × List Row)) : Nat → Arr Row :=
  fun p k => match named.find? (fun x => pos params x.1 == p) with
    | some x => x.2.getD k []
    | none => []

/-- what the distributed branch computes for the chunk `[s, e)`: the kernel of the
regenerated index table applied to the arguments of the regenerated pass table -/
def newmanChunk (N : Nat) (A V : List Row) (s e : Nat) : List Int :=
  chunkKernelRel newmanIdx (newmanBody N)
    (distArgs newmanPass (fullOf StructC19.newman_kernel_params [("this_A", A), ("V", V)]) s) s e

def nsinewmanChunk (N : Nat) (A V : List Row) (w : List Int) (nae : List Row) (s e : Nat) :
    List Int :=
  chunkKernelRel nsinewmanIdx (nsinewmanBody N)
    (distArgs nsinewmanPass (fullOf StructC19.nsinewman_kernel_params
      [("this_A", A), ("V", V), ("w", w.map fun x => [x]), ("this_not_adj_or_equal", nae)]) s) s e

/-- the pass modes of the distributed / serial argument tuple under the given true
conditions (spaces written `_`), for the correspondence with the observed payloads -/
def modesOf (args : List (List (String × String × String))) (trueConds : List String) :
    List String :=
  args.map fun alts =>
    match alts.find? (fun a => a.1 == "" || trueConds.contains (a.1.replace " " "_")) with
    | some a => a.2.2
    | none => "?"

end Pyunicorn.MpiChunk
