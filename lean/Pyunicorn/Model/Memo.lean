/-
The versioned-memoisation machine: an abstract model of `pyunicorn.core.cache.Cached`
(src/pyunicorn/core/cache.py) as used by every analysis class.

* fields carry ghost *stamps* (every write installs a fresh stamp — the worst case:
  the value of a derived quantity changes whenever anything it reads changes);
* a cached method's key is (object-level `__cache_state__` components, `attrs`
  components, arguments); components are either mutation counters or attributes
  compared by value (modelled by their stamp);
* `query` is hit-or-compute exactly as `functools.lru_cache` does it; entries can be
  evicted at any time (LRU eviction, `cache_clear`).
Core Lean only.
-/
namespace Pyunicorn.Memo

structure Method where
  reads : List Nat        -- abstract fields read (transitively through helpers and callees)
  keyCtrs : List Nat      -- counters in the key (`__cache_state__` + `attrs`)
  keyFlds : List Nat      -- fields in the key, compared by value
deriving Repr, DecidableEq

structure Mutator where
  writes : List Nat       -- fields written
  bumps : List Nat        -- counters incremented
  resets : List Nat       -- counters assigned a constant (re-running `__init__`)
deriving Repr, DecidableEq

structure Table where
  methods : List Method
  mutators : List Mutator
deriving Repr, DecidableEq

structure Entry where
  m : Nat
  arg : Nat               -- the call's argument pattern (part of the lru key)
  kctr : List Nat
  kfld : List Nat
  val : List Nat          -- stamps of the read fields at computation time
deriving Repr, DecidableEq

structure State where
  clock : Nat
  stamp : Nat → Nat
  ctr : Nat → Nat
  cache : List Entry

def State.init : State := ⟨0, fun _ => 0, fun _ => 0, []⟩

inductive Op
  | mutate (o : Nat)
  | query (m : Nat) (arg : Nat)
  | evict (i : Nat)
deriving Repr, DecidableEq

def Method.keyOf (m : Method) (s : State) : List Nat × List Nat :=
  (m.keyCtrs.map s.ctr, m.keyFlds.map s.stamp)

/-- what a freshly constructed object would report: the current stamps -/
def Method.current (m : Method) (s : State) : List Nat := m.reads.map s.stamp

def applyMut (o : Mutator) (s : State) : State :=
  let clock := s.clock + 1
  { clock := clock
    stamp := fun f => if o.writes.contains f then clock else s.stamp f
    ctr := fun c => if o.resets.contains c then 0
                    else if o.bumps.contains c then s.ctr c + 1 else s.ctr c
    cache := s.cache }

def findEntry (cache : List Entry) (mi arg : Nat) (k : List Nat × List Nat) : Option Entry :=
  cache.find? fun e => e.m == mi && e.arg == arg && e.kctr == k.1 && e.kfld == k.2

/-- one step; for a query the output is `some (returned, current)` -/
def step (t : Table) (s : State) : Op → State × Option (List Nat × List Nat)
  | .mutate o =>
      match t.mutators[o]? with
      | some mu => (applyMut mu s, none)
      | none => (s, none)
  | .evict i => ({ s with cache := s.cache.eraseIdx i }, none)
  | .query mi arg =>
      match t.methods[mi]? with
      | none => (s, none)
      | some m =>
        let k := m.keyOf s
        match findEntry s.cache mi arg k with
        | some e => (s, some (e.val, m.current s))
        | none =>
          let v := m.current s
          ({ s with cache := ⟨mi, arg, k.1, k.2, v⟩ :: s.cache }, some (v, v))

def run (t : Table) : State → List Op → List (Option (List Nat × List Nat))
  | _, [] => []
  | s, op :: ops => let r := step t s op; r.2 :: run t r.1 ops

/-! ### well-formedness of a class table (decidable) -/

/-- mutator `o` cannot leave a stale entry of method `m` reachable -/
def covered (m : Method) (o : Mutator) : Bool :=
  (m.keyCtrs.any fun c => o.bumps.contains c) ||
  (o.writes.all fun f => !(m.reads.contains f) || m.keyFlds.contains f)

def noKeyReset (t : Table) : Bool :=
  t.mutators.all fun o => o.resets.all fun c => t.methods.all fun m => !(m.keyCtrs.contains c)

def wf (t : Table) : Bool :=
  (t.methods.all fun m => t.mutators.all fun o => covered m o) && noKeyReset t

/-- the (method, mutator) index pairs violating `covered`, and the resets of key
counters — printed by the driver to direct the failing-input search -/
def offending (t : Table) : List (Nat × Nat) :=
  (List.range t.methods.length).flatMap fun mi =>
    (List.range t.mutators.length).filterMap fun oi =>
      match t.methods[mi]?, t.mutators[oi]? with
      | some m, some o =>
        if covered m o && (o.resets.all fun c => !(m.keyCtrs.contains c)) then none
        else some (mi, oi)
      | _, _ => none

/-! ### derived summary attributes (`N`, `n_links`, `link_density`, `total_node_weight`, …):
every mutator that writes one member of a group must write all its required members -/
structure Group where
  members : List Nat
  required : List Nat
deriving Repr, DecidableEq

def derivedFresh (groups : List Group) (t : Table) : Bool :=
  t.mutators.all fun o => groups.all fun g =>
    !(o.writes.any fun f => g.members.contains f) || g.required.all fun f => o.writes.contains f

end Pyunicorn.Memo
